package report

import (
	"bytes"
	"fmt"
	"os"
	"strings"
	"testing"

	"github.com/google/pprof/profile"
)

// zzEquivProfile builds a profile with recursion, mutual recursion, inlined
// multi-line frames (including a location whose two lines are the same
// function), shared locations, an empty stack, an unsymbolized frame, negative
// values, labels and two sample types.
func zzEquivProfile() *profile.Profile {
	m := &profile.Mapping{ID: 1, Start: 0x1000, Limit: 0x9000, File: "/bin/prog", HasFunctions: true, HasFilenames: true, HasLineNumbers: true, HasInlineFrames: true}
	fn := func(id uint64, name string) *profile.Function {
		return &profile.Function{ID: id, Name: name, SystemName: name, Filename: "/src/" + name + ".go", StartLine: int64(id * 10)}
	}
	fMain, fOuter, fInner, fRec, fLeaf := fn(1, "main"), fn(2, "outer"), fn(3, "inner"), fn(4, "rec"), fn(5, "leaf")
	l1 := &profile.Location{ID: 1, Mapping: m, Address: 0x1100, Line: []profile.Line{{Function: fMain, Line: 11}}}
	l2 := &profile.Location{ID: 2, Mapping: m, Address: 0x1200, Line: []profile.Line{{Function: fInner, Line: 31}, {Function: fOuter, Line: 21}}}
	l3 := &profile.Location{ID: 3, Mapping: m, Address: 0x1300, Line: []profile.Line{{Function: fRec, Line: 41}}}
	l4 := &profile.Location{ID: 4, Mapping: m, Address: 0x1400}
	l5 := &profile.Location{ID: 5, Mapping: m, Address: 0x1500, Line: []profile.Line{{Function: fLeaf, Line: 51}}}
	l6 := &profile.Location{ID: 6, Mapping: m, Address: 0x1600, Line: []profile.Line{{Function: fRec, Line: 42}, {Function: fRec, Line: 43}}}
	l7 := &profile.Location{ID: 7, Mapping: m, Address: 0x1700, Line: []profile.Line{{Function: fLeaf, Line: 52}}}
	L := func(ls ...*profile.Location) []*profile.Location { return ls }
	p := &profile.Profile{
		SampleType: []*profile.ValueType{{Type: "samples", Unit: "count"}, {Type: "cpu", Unit: "nanoseconds"}},
		PeriodType: &profile.ValueType{Type: "cpu", Unit: "nanoseconds"},
		Period:     1,
		Mapping:    []*profile.Mapping{m},
		Function:   []*profile.Function{fMain, fOuter, fInner, fRec, fLeaf},
		Location:   []*profile.Location{l1, l2, l3, l4, l5, l6, l7},
		Sample: []*profile.Sample{
			{Location: L(l5, l2, l1), Value: []int64{3, 10}},
			{Location: L(l3, l3, l3, l1), Value: []int64{2, 7}},
			{Location: L(l3, l2, l3, l2, l1), Value: []int64{1, -5}},
			{Location: nil, Value: []int64{4, 9}},
			{Location: L(l4, l1), Value: []int64{5, 11}},
			{Location: L(l5, l2, l1), Value: []int64{6, 13}, Label: map[string][]string{"k": {"v1", "v2"}}, NumLabel: map[string][]int64{"bytes": {64}}, NumUnit: map[string][]string{"bytes": {"bytes"}}},
			{Location: L(l6, l1), Value: []int64{1, 2}},
			{Location: L(l6, l6, l3, l1), Value: []int64{2, -3}},
			{Location: L(l7, l5, l7, l5, l1), Value: []int64{7, 17}},
			{Location: L(l5, l1), Value: []int64{0, 0}},
			{Location: L(l1, l1), Value: []int64{0, 19}},
			{Location: L(l2, l2), Value: []int64{8, 23}},
		},
	}
	if err := p.CheckValid(); err != nil {
		panic(err)
	}
	return p
}


// zzDiffProfile turns the base profile into a diff profile: a copy of some
// samples is negated and tagged as belonging to the diff base.
func zzDiffProfile(zeroBase bool) *profile.Profile {
	p := zzEquivProfile()
	var extra []*profile.Sample
	for i, s := range p.Sample {
		if i%2 == 1 || len(s.Location) == 0 {
			continue
		}
		b := &profile.Sample{Location: s.Location, Value: make([]int64, len(s.Value)), Label: map[string][]string{"pprof::base": {"true"}}}
		for j, v := range s.Value {
			if !zeroBase {
				b.Value[j] = -v - int64(j+1)
			}
		}
		extra = append(extra, b)
	}
	p.Sample = append(p.Sample, extra...)
	return p
}

func zzAllB() string {
	var out strings.Builder
	profs := []struct {
		name string
		mk   func() *profile.Profile
	}{
		{"plain", zzEquivProfile},
		{"diff", func() *profile.Profile { return zzDiffProfile(false) }},
		{"diff-zero-base", func() *profile.Profile { return zzDiffProfile(true) }},
	}
	formats := []struct {
		name string
		f    int
	}{{"text", Text}, {"tree", Tree}, {"traces", Traces}, {"dot", Dot}, {"callgrind", Callgrind}}
	for _, pr := range profs {
		for idx := 0; idx < 2; idx++ {
			for _, mean := range []bool{false, true} {
				idx := idx
				value := func(v []int64) int64 { return v[idx] }
				var div func(v []int64) int64
				if mean {
					div = func(v []int64) int64 { return v[0] }
				}
				fmt.Fprintf(&out, "=== %s idx=%d mean=%v computeTotal=%d\n", pr.name, idx, mean, computeTotal(pr.mk(), value, div))
				for _, f := range formats {
					for _, callTree := range []bool{false, true} {
						if callTree && f.f != Tree {
							continue
						}
						p := pr.mk()
						rpt := New(p, &Options{
							OutputFormat:      f.f,
							CallTree:          callTree,
							SampleValue:       value,
							SampleMeanDivisor: div,
							SampleType:        p.SampleType[idx].Type,
							SampleUnit:        p.SampleType[idx].Unit,
							OutputUnit:        "minimum",
							Title:             "zz",
							NodeCount:         1000,
						})
						var buf bytes.Buffer
						if err := Generate(&buf, rpt, nil); err != nil {
							fmt.Fprintf(&buf, "ERROR: %v\n", err)
						}
						fmt.Fprintf(&out, "--- %s call_tree=%v Total()=%d\n%s", f.name, callTree, rpt.Total(), buf.String())
					}
				}
			}
		}
	}
	return out.String()
}

func TestZZEquivB(t *testing.T) {
	got := zzAllB()
	if f := os.Getenv("ZZ_EQUIV_WRITE"); f != "" {
		if err := os.WriteFile(f, []byte(got), 0o644); err != nil {
			t.Fatal(err)
		}
		return
	}
	if got != zzWantB {
		gl, wl := strings.Split(got, "\n"), strings.Split(zzWantB, "\n")
		for i := 0; i < len(gl) && i < len(wl); i++ {
			if gl[i] != wl[i] {
				t.Fatalf("line %d differs:\n got: %s\nwant: %s", i+1, gl[i], wl[i])
			}
		}
		t.Fatalf("output length differs: got %d lines, want %d", len(gl), len(wl))
	}
	// Spot-check totals against the definition (sum of absolute sample values;
	// with mean, divided by the sum of sample counts; for a diff profile only
	// the diff-base samples count unless they sum to zero).
	for _, s := range []string{
		"=== plain idx=0 mean=false computeTotal=39\n",
		"=== plain idx=1 mean=false computeTotal=119\n",
		"=== plain idx=1 mean=true computeTotal=3\n",
		"=== diff-zero-base idx=1 mean=false computeTotal=119\n",
	} {
		if !strings.Contains(got, s) {
			t.Errorf("missing %q", s)
		}
	}
}

// zzWantB was recorded on the unchanged tree.
const zzWantB = `=== plain idx=0 mean=false computeTotal=39
--- text call_tree=false Total()=39
File: prog
Type: samples
Showing nodes accounting for 35, 89.74% of 39 total
      flat  flat%   sum%        cum   cum%
         9 23.08% 23.08%         16 41.03%  0000000000001500 leaf /src/leaf.go:51
         8 20.51% 43.59%         18 46.15%  0000000000001200 inner /src/inner.go:31 (inline)
         7 17.95% 61.54%          7 17.95%  0000000000001700 leaf /src/leaf.go:52
         5 12.82% 74.36%          5 12.82%  0000000000001400 [prog]
         3  7.69% 82.05%          5 12.82%  0000000000001300 rec /src/rec.go:41
         3  7.69% 89.74%          3  7.69%  0000000000001600 rec /src/rec.go:42 (inline)
         0     0% 89.74%         27 69.23%  0000000000001100 main /src/main.go:11
         0     0% 89.74%         18 46.15%  0000000000001200 outer /src/outer.go:21
         0     0% 89.74%          3  7.69%  0000000000001600 rec /src/rec.go:43
--- tree call_tree=false Total()=39
File: prog
Type: samples
Showing nodes accounting for 35, 89.74% of 39 total
----------------------------------------------------------+-------------
      flat  flat%   sum%        cum   cum%   calls calls% + context 	 	 
----------------------------------------------------------+-------------
                                                 9 56.25% |   0000000000001200 inner /src/inner.go:31
                                                 7 43.75% |   0000000000001100 main /src/main.go:11
                                                 7 43.75% |   0000000000001700 leaf /src/leaf.go:52
         9 23.08% 23.08%         16 41.03%                | 0000000000001500 leaf /src/leaf.go:51
                                                 7 43.75% |   0000000000001700 leaf /src/leaf.go:52
----------------------------------------------------------+-------------
                                                18   100% |   0000000000001200 outer /src/outer.go:21 (inline)
         8 20.51% 43.59%         18 46.15%                | 0000000000001200 inner /src/inner.go:31
                                                 9 50.00% |   0000000000001500 leaf /src/leaf.go:51
                                                 8 44.44% |   0000000000001200 outer /src/outer.go:21
                                                 1  5.56% |   0000000000001300 rec /src/rec.go:41
----------------------------------------------------------+-------------
                                                 7   100% |   0000000000001500 leaf /src/leaf.go:51
         7 17.95% 61.54%          7 17.95%                | 0000000000001700 leaf /src/leaf.go:52
                                                 7   100% |   0000000000001500 leaf /src/leaf.go:51
----------------------------------------------------------+-------------
                                                 5   100% |   0000000000001100 main /src/main.go:11
         5 12.82% 74.36%          5 12.82%                | 0000000000001400 [prog]
----------------------------------------------------------+-------------
                                                 4 80.00% |   0000000000001100 main /src/main.go:11
                                                 1 20.00% |   0000000000001200 inner /src/inner.go:31
         3  7.69% 82.05%          5 12.82%                | 0000000000001300 rec /src/rec.go:41
                                                 2 40.00% |   0000000000001600 rec /src/rec.go:43
                                                 1 20.00% |   0000000000001200 outer /src/outer.go:21
----------------------------------------------------------+-------------
                                                 3   100% |   0000000000001600 rec /src/rec.go:43 (inline)
         3  7.69% 89.74%          3  7.69%                | 0000000000001600 rec /src/rec.go:42
                                                 2 66.67% |   0000000000001600 rec /src/rec.go:43
----------------------------------------------------------+-------------
         0     0% 89.74%         27 69.23%                | 0000000000001100 main /src/main.go:11
                                                10 37.04% |   0000000000001200 outer /src/outer.go:21
                                                 7 25.93% |   0000000000001500 leaf /src/leaf.go:51
                                                 5 18.52% |   0000000000001400 [prog]
                                                 4 14.81% |   0000000000001300 rec /src/rec.go:41
                                                 1  3.70% |   0000000000001600 rec /src/rec.go:43
----------------------------------------------------------+-------------
                                                10 55.56% |   0000000000001100 main /src/main.go:11
                                                 8 44.44% |   0000000000001200 inner /src/inner.go:31
                                                 1  5.56% |   0000000000001300 rec /src/rec.go:41
         0     0% 89.74%         18 46.15%                | 0000000000001200 outer /src/outer.go:21
                                                18   100% |   0000000000001200 inner /src/inner.go:31 (inline)
----------------------------------------------------------+-------------
                                                 2 66.67% |   0000000000001300 rec /src/rec.go:41
                                                 2 66.67% |   0000000000001600 rec /src/rec.go:42
                                                 1 33.33% |   0000000000001100 main /src/main.go:11
         0     0% 89.74%          3  7.69%                | 0000000000001600 rec /src/rec.go:43
                                                 3   100% |   0000000000001600 rec /src/rec.go:42 (inline)
----------------------------------------------------------+-------------
--- tree call_tree=true Total()=39
File: prog
Type: samples
Showing nodes accounting for 35, 89.74% of 39 total
----------------------------------------------------------+-------------
      flat  flat%   sum%        cum   cum%   calls calls% + context 	 	 
----------------------------------------------------------+-------------
                                                 9 56.25% |   0000000000001200 inner /src/inner.go:31
                                                 7 43.75% |   0000000000001100 main /src/main.go:11
                                                 7 43.75% |   0000000000001700 leaf /src/leaf.go:52
         9 23.08% 23.08%         16 41.03%                | 0000000000001500 leaf /src/leaf.go:51
                                                 7 43.75% |   0000000000001700 leaf /src/leaf.go:52
----------------------------------------------------------+-------------
                                                18   100% |   0000000000001200 outer /src/outer.go:21 (inline)
         8 20.51% 43.59%         18 46.15%                | 0000000000001200 inner /src/inner.go:31
                                                 9 50.00% |   0000000000001500 leaf /src/leaf.go:51
                                                 8 44.44% |   0000000000001200 outer /src/outer.go:21
                                                 1  5.56% |   0000000000001300 rec /src/rec.go:41
----------------------------------------------------------+-------------
                                                 7   100% |   0000000000001500 leaf /src/leaf.go:51
         7 17.95% 61.54%          7 17.95%                | 0000000000001700 leaf /src/leaf.go:52
                                                 7   100% |   0000000000001500 leaf /src/leaf.go:51
----------------------------------------------------------+-------------
                                                 5   100% |   0000000000001100 main /src/main.go:11
         5 12.82% 74.36%          5 12.82%                | 0000000000001400 [prog]
----------------------------------------------------------+-------------
                                                 4 80.00% |   0000000000001100 main /src/main.go:11
                                                 1 20.00% |   0000000000001200 inner /src/inner.go:31
         3  7.69% 82.05%          5 12.82%                | 0000000000001300 rec /src/rec.go:41
                                                 2 40.00% |   0000000000001600 rec /src/rec.go:43
                                                 1 20.00% |   0000000000001200 outer /src/outer.go:21
----------------------------------------------------------+-------------
                                                 3   100% |   0000000000001600 rec /src/rec.go:43 (inline)
         3  7.69% 89.74%          3  7.69%                | 0000000000001600 rec /src/rec.go:42
                                                 2 66.67% |   0000000000001600 rec /src/rec.go:43
----------------------------------------------------------+-------------
         0     0% 89.74%         27 69.23%                | 0000000000001100 main /src/main.go:11
                                                10 37.04% |   0000000000001200 outer /src/outer.go:21
                                                 7 25.93% |   0000000000001500 leaf /src/leaf.go:51
                                                 5 18.52% |   0000000000001400 [prog]
                                                 4 14.81% |   0000000000001300 rec /src/rec.go:41
                                                 1  3.70% |   0000000000001600 rec /src/rec.go:43
----------------------------------------------------------+-------------
                                                10 55.56% |   0000000000001100 main /src/main.go:11
                                                 8 44.44% |   0000000000001200 inner /src/inner.go:31
                                                 1  5.56% |   0000000000001300 rec /src/rec.go:41
         0     0% 89.74%         18 46.15%                | 0000000000001200 outer /src/outer.go:21
                                                18   100% |   0000000000001200 inner /src/inner.go:31 (inline)
----------------------------------------------------------+-------------
                                                 2 66.67% |   0000000000001300 rec /src/rec.go:41
                                                 2 66.67% |   0000000000001600 rec /src/rec.go:42
                                                 1 33.33% |   0000000000001100 main /src/main.go:11
         0     0% 89.74%          3  7.69%                | 0000000000001600 rec /src/rec.go:43
                                                 3   100% |   0000000000001600 rec /src/rec.go:42 (inline)
----------------------------------------------------------+-------------
--- traces call_tree=false Total()=39
File: prog
Type: samples
-----------+-------------------------------------------------------
         3   0000000000001500 leaf /src/leaf.go:51
             0000000000001200 inner /src/inner.go:31 (inline)
             0000000000001200 outer /src/outer.go:21
             0000000000001100 main /src/main.go:11
-----------+-------------------------------------------------------
         2   0000000000001300 rec /src/rec.go:41
             0000000000001300 rec /src/rec.go:41
             0000000000001300 rec /src/rec.go:41
             0000000000001100 main /src/main.go:11
-----------+-------------------------------------------------------
         1   0000000000001300 rec /src/rec.go:41
             0000000000001200 inner /src/inner.go:31 (inline)
             0000000000001200 outer /src/outer.go:21
             0000000000001300 rec /src/rec.go:41
             0000000000001200 inner /src/inner.go:31 (inline)
             0000000000001200 outer /src/outer.go:21
             0000000000001100 main /src/main.go:11
-----------+-------------------------------------------------------
         5   0000000000001400 [prog]
             0000000000001100 main /src/main.go:11
-----------+-------------------------------------------------------
         k:  v1 v2
     bytes:  64
         6   0000000000001500 leaf /src/leaf.go:51
             0000000000001200 inner /src/inner.go:31 (inline)
             0000000000001200 outer /src/outer.go:21
             0000000000001100 main /src/main.go:11
-----------+-------------------------------------------------------
         1   0000000000001600 rec /src/rec.go:42 (inline)
             0000000000001600 rec /src/rec.go:43
             0000000000001100 main /src/main.go:11
-----------+-------------------------------------------------------
         2   0000000000001600 rec /src/rec.go:42 (inline)
             0000000000001600 rec /src/rec.go:43
             0000000000001600 rec /src/rec.go:42 (inline)
             0000000000001600 rec /src/rec.go:43
             0000000000001300 rec /src/rec.go:41
             0000000000001100 main /src/main.go:11
-----------+-------------------------------------------------------
         7   0000000000001700 leaf /src/leaf.go:52
             0000000000001500 leaf /src/leaf.go:51
             0000000000001700 leaf /src/leaf.go:52
             0000000000001500 leaf /src/leaf.go:51
             0000000000001100 main /src/main.go:11
-----------+-------------------------------------------------------
         0   0000000000001500 leaf /src/leaf.go:51
             0000000000001100 main /src/main.go:11
-----------+-------------------------------------------------------
         0   0000000000001100 main /src/main.go:11
             0000000000001100 main /src/main.go:11
-----------+-------------------------------------------------------
         8   0000000000001200 inner /src/inner.go:31 (inline)
             0000000000001200 outer /src/outer.go:21
             0000000000001200 inner /src/inner.go:31 (inline)
             0000000000001200 outer /src/outer.go:21
-----------+-------------------------------------------------------
--- dot call_tree=false Total()=39
digraph "zz" {
node [style=filled fillcolor="#f8f8f8"]
subgraph cluster_L { "File: prog" [shape=box fontsize=16 label="File: prog\lType: samples\lShowing nodes accounting for 35, 89.74% of 39 total\l\lSee https://git.io/JfYMW for how to read the graph\l" tooltip="zz"] }
N1 [label="0000000000001100\nmain\nmain.go:11\n0 of 27 (69.23%)" id="node1" fontsize=8 shape=box tooltip="0000000000001100 main /src/main.go:11 (27)" color="#b21200" fillcolor="#edd7d5"]
N2 [label="0000000000001500\nleaf\nleaf.go:51\n9 (23.08%)\nof 16 (41.03%)" id="node2" fontsize=24 shape=box tooltip="0000000000001500 leaf /src/leaf.go:51 (16)" color="#b22900" fillcolor="#eddad5"]
N2_0 [label = "k:v1\nk:v2" id="N2_0" fontsize=8 shape=box3d tooltip="6"]
N2 -> N2_0 [label=" 6" weight=100 tooltip="6" labeltooltip="6"]
NN2_0_0 [label = "64" id="NN2_0_0" fontsize=8 shape=box3d tooltip="6"]
N2_0 -> NN2_0_0 [label=" 6" weight=100 tooltip="6" labeltooltip="6"]
N3 [label="0000000000001200\ninner\ninner.go:31\n8 (20.51%)\nof 18 (46.15%)" id="node3" fontsize=24 shape=box tooltip="0000000000001200 inner /src/inner.go:31 (18)" color="#b22400" fillcolor="#eddad5"]
N4 [label="0000000000001200\nouter\nouter.go:21\n0 of 18 (46.15%)" id="node4" fontsize=8 shape=box tooltip="0000000000001200 outer /src/outer.go:21 (18)" color="#b22400" fillcolor="#eddad5"]
N5 [label="0000000000001700\nleaf\nleaf.go:52\n7 (17.95%)" id="node5" fontsize=23 shape=box tooltip="0000000000001700 leaf /src/leaf.go:52 (7)" color="#b25212" fillcolor="#ede0d7"]
N6 [label="0000000000001300\nrec\nrec.go:41\n3 (7.69%)\nof 5 (12.82%)" id="node6" fontsize=18 shape=box tooltip="0000000000001300 rec /src/rec.go:41 (5)" color="#b27440" fillcolor="#ede4dd"]
N7 [label="0000000000001400\n[prog]\n5 (12.82%)" id="node7" fontsize=20 shape=box tooltip="0000000000001400 [prog] (5)" color="#b27440" fillcolor="#ede4dd"]
N8 [label="0000000000001600\nrec\nrec.go:42\n3 (7.69%)" id="node8" fontsize=18 shape=box tooltip="0000000000001600 rec /src/rec.go:42 (3)" color="#b2926d" fillcolor="#ede8e4"]
N9 [label="0000000000001600\nrec\nrec.go:43\n0 of 3 (7.69%)" id="node9" fontsize=8 shape=box tooltip="0000000000001600 rec /src/rec.go:43 (3)" color="#b2926d" fillcolor="#ede8e4"]
N4 -> N3 [label=" 18\n (inline)" weight=47 penwidth=3 color="#b22400" tooltip="0000000000001200 outer /src/outer.go:21 -> 0000000000001200 inner /src/inner.go:31 (18)" labeltooltip="0000000000001200 outer /src/outer.go:21 -> 0000000000001200 inner /src/inner.go:31 (18)"]
N1 -> N4 [label=" 10" weight=26 penwidth=2 color="#b23b00" tooltip="0000000000001100 main /src/main.go:11 -> 0000000000001200 outer /src/outer.go:21 (10)" labeltooltip="0000000000001100 main /src/main.go:11 -> 0000000000001200 outer /src/outer.go:21 (10)"]
N3 -> N2 [label=" 9" weight=24 penwidth=2 color="#b23f00" tooltip="0000000000001200 inner /src/inner.go:31 -> 0000000000001500 leaf /src/leaf.go:51 (9)" labeltooltip="0000000000001200 inner /src/inner.go:31 -> 0000000000001500 leaf /src/leaf.go:51 (9)"]
N3 -> N4 [label=" 8" weight=21 penwidth=2 color="#b24300" tooltip="0000000000001200 inner /src/inner.go:31 -> 0000000000001200 outer /src/outer.go:21 (8)" labeltooltip="0000000000001200 inner /src/inner.go:31 -> 0000000000001200 outer /src/outer.go:21 (8)"]
N1 -> N2 [label=" 7" weight=18 color="#b25212" tooltip="0000000000001100 main /src/main.go:11 -> 0000000000001500 leaf /src/leaf.go:51 (7)" labeltooltip="0000000000001100 main /src/main.go:11 -> 0000000000001500 leaf /src/leaf.go:51 (7)"]
N2 -> N5 [label=" 7" weight=18 color="#b25212" tooltip="0000000000001500 leaf /src/leaf.go:51 -> 0000000000001700 leaf /src/leaf.go:52 (7)" labeltooltip="0000000000001500 leaf /src/leaf.go:51 -> 0000000000001700 leaf /src/leaf.go:52 (7)" minlen=2]
N5 -> N2 [label=" 7" weight=18 color="#b25212" tooltip="0000000000001700 leaf /src/leaf.go:52 -> 0000000000001500 leaf /src/leaf.go:51 (7)" labeltooltip="0000000000001700 leaf /src/leaf.go:52 -> 0000000000001500 leaf /src/leaf.go:51 (7)"]
N1 -> N7 [label=" 5" weight=13 color="#b27440" tooltip="0000000000001100 main /src/main.go:11 -> 0000000000001400 [prog] (5)" labeltooltip="0000000000001100 main /src/main.go:11 -> 0000000000001400 [prog] (5)"]
N1 -> N6 [label=" 4" weight=11 color="#b28456" tooltip="0000000000001100 main /src/main.go:11 -> 0000000000001300 rec /src/rec.go:41 (4)" labeltooltip="0000000000001100 main /src/main.go:11 -> 0000000000001300 rec /src/rec.go:41 (4)"]
N9 -> N8 [label=" 3\n (inline)" weight=8 color="#b2926d" tooltip="0000000000001600 rec /src/rec.go:43 -> 0000000000001600 rec /src/rec.go:42 (3)" labeltooltip="0000000000001600 rec /src/rec.go:43 -> 0000000000001600 rec /src/rec.go:42 (3)"]
N6 -> N9 [label=" 2" weight=6 color="#b29f84" tooltip="0000000000001300 rec /src/rec.go:41 -> 0000000000001600 rec /src/rec.go:43 (2)" labeltooltip="0000000000001300 rec /src/rec.go:41 -> 0000000000001600 rec /src/rec.go:43 (2)"]
N8 -> N9 [label=" 2" weight=6 color="#b29f84" tooltip="0000000000001600 rec /src/rec.go:42 -> 0000000000001600 rec /src/rec.go:43 (2)" labeltooltip="0000000000001600 rec /src/rec.go:42 -> 0000000000001600 rec /src/rec.go:43 (2)"]
N1 -> N9 [label=" 1" weight=3 color="#b2aa9b" tooltip="0000000000001100 main /src/main.go:11 -> 0000000000001600 rec /src/rec.go:43 (1)" labeltooltip="0000000000001100 main /src/main.go:11 -> 0000000000001600 rec /src/rec.go:43 (1)"]
N3 -> N6 [label=" 1" weight=3 color="#b2aa9b" tooltip="0000000000001200 inner /src/inner.go:31 -> 0000000000001300 rec /src/rec.go:41 (1)" labeltooltip="0000000000001200 inner /src/inner.go:31 -> 0000000000001300 rec /src/rec.go:41 (1)"]
N6 -> N4 [label=" 1" weight=3 color="#b2aa9b" tooltip="0000000000001300 rec /src/rec.go:41 -> 0000000000001200 outer /src/outer.go:21 (1)" labeltooltip="0000000000001300 rec /src/rec.go:41 -> 0000000000001200 outer /src/outer.go:21 (1)"]
}
--- callgrind call_tree=false Total()=39
positions: instr line
events: samples(count)

ob=(1) /bin/prog
fl=(1) /src/leaf.go
fn=(1) leaf
0x1500 51 9
cfl=(1)
cfn=(1)
calls=0 0x1700 52
* * 7

ob=(1)
fl=(2) /src/inner.go
fn=(2) inner
-768 31 8
cfl=(1)
cfn=(1)
calls=0 * 51
* * 9
cfl=(3) /src/outer.go
cfn=(3) outer
calls=0 -768 21
* * 8
cfl=(4) /src/rec.go
cfn=(4) rec
calls=0 -512 41
* * 1

ob=(1)
fl=(1)
fn=(1)
+1280 52 7
cfl=(1)
cfn=(1)
calls=0 +768 51
* * 7

ob=(1)
fl=
fn=
-768 0 5

ob=(1)
fl=(4)
fn=(4)
-256 41 3
cfl=(4)
cfn=(4)
calls=0 +512 43
* * 2
cfl=(3)
cfn=(3)
calls=0 -512 21
* * 1
+768 42 3
cfl=(4)
cfn=(4)
calls=0 +768 43
* * 2

ob=(1)
fl=(5) /src/main.go
fn=(5) main
-1280 11 0
cfl=(3)
cfn=(3)
calls=0 -1024 21
* * 10
cfl=(1)
cfn=(1)
calls=0 -256 51
* * 7
cfl=
cfn=
calls=0 -512 0
* * 5
cfl=(4)
cfn=(4)
calls=0 -768 41
* * 4
cfl=(4)
cfn=(4)
calls=0 * 43
* * 1

ob=(1)
fl=(3)
fn=(3)
+256 21 0
cfl=(2)
cfn=(2)
calls=0 +256 31
* * 18

ob=(1)
fl=(4)
fn=(4)
+1024 43 0
cfl=(4)
cfn=(4)
calls=0 +1024 42
* * 3
=== plain idx=0 mean=true computeTotal=1
--- text call_tree=false Total()=1
File: prog
Type: samples
Showing nodes accounting for 6, 600.00% of 1 total
      flat  flat%   sum%        cum   cum%
         1   100%   100%          1   100%  0000000000001500 leaf /src/leaf.go:51
         1   100% 200.00%          1   100%  0000000000001200 inner /src/inner.go:31 (inline)
         1   100% 300.00%          1   100%  0000000000001700 leaf /src/leaf.go:52
         1   100% 400.00%          1   100%  0000000000001400 [prog]
         1   100% 500.00%          1   100%  0000000000001300 rec /src/rec.go:41
         1   100% 600.00%          1   100%  0000000000001600 rec /src/rec.go:42 (inline)
         0     0% 600.00%          1   100%  0000000000001100 main /src/main.go:11
         0     0% 600.00%          1   100%  0000000000001200 outer /src/outer.go:21
         0     0% 600.00%          1   100%  0000000000001600 rec /src/rec.go:43
--- tree call_tree=false Total()=1
File: prog
Type: samples
Showing nodes accounting for 6, 600.00% of 1 total
----------------------------------------------------------+-------------
      flat  flat%   sum%        cum   cum%   calls calls% + context 	 	 
----------------------------------------------------------+-------------
                                                 1   100% |   0000000000001200 inner /src/inner.go:31
                                                 1   100% |   0000000000001100 main /src/main.go:11
                                                 1   100% |   0000000000001700 leaf /src/leaf.go:52
         1   100%   100%          1   100%                | 0000000000001500 leaf /src/leaf.go:51
                                                 1   100% |   0000000000001700 leaf /src/leaf.go:52
----------------------------------------------------------+-------------
                                                 1   100% |   0000000000001200 outer /src/outer.go:21 (inline)
         1   100% 200.00%          1   100%                | 0000000000001200 inner /src/inner.go:31
                                                 1   100% |   0000000000001500 leaf /src/leaf.go:51
                                                 1   100% |   0000000000001200 outer /src/outer.go:21
                                                 1   100% |   0000000000001300 rec /src/rec.go:41
----------------------------------------------------------+-------------
                                                 1   100% |   0000000000001500 leaf /src/leaf.go:51
         1   100% 300.00%          1   100%                | 0000000000001700 leaf /src/leaf.go:52
                                                 1   100% |   0000000000001500 leaf /src/leaf.go:51
----------------------------------------------------------+-------------
                                                 1   100% |   0000000000001100 main /src/main.go:11
         1   100% 400.00%          1   100%                | 0000000000001400 [prog]
----------------------------------------------------------+-------------
                                                 1   100% |   0000000000001100 main /src/main.go:11
                                                 1   100% |   0000000000001200 inner /src/inner.go:31
         1   100% 500.00%          1   100%                | 0000000000001300 rec /src/rec.go:41
                                                 1   100% |   0000000000001600 rec /src/rec.go:43
                                                 1   100% |   0000000000001200 outer /src/outer.go:21
----------------------------------------------------------+-------------
                                                 1   100% |   0000000000001600 rec /src/rec.go:43 (inline)
         1   100% 600.00%          1   100%                | 0000000000001600 rec /src/rec.go:42
                                                 1   100% |   0000000000001600 rec /src/rec.go:43
----------------------------------------------------------+-------------
         0     0% 600.00%          1   100%                | 0000000000001100 main /src/main.go:11
                                                 1   100% |   0000000000001200 outer /src/outer.go:21
                                                 1   100% |   0000000000001500 leaf /src/leaf.go:51
                                                 1   100% |   0000000000001400 [prog]
                                                 1   100% |   0000000000001300 rec /src/rec.go:41
                                                 1   100% |   0000000000001600 rec /src/rec.go:43
----------------------------------------------------------+-------------
                                                 1   100% |   0000000000001100 main /src/main.go:11
                                                 1   100% |   0000000000001200 inner /src/inner.go:31
                                                 1   100% |   0000000000001300 rec /src/rec.go:41
         0     0% 600.00%          1   100%                | 0000000000001200 outer /src/outer.go:21
                                                 1   100% |   0000000000001200 inner /src/inner.go:31 (inline)
----------------------------------------------------------+-------------
                                                 1   100% |   0000000000001300 rec /src/rec.go:41
                                                 1   100% |   0000000000001600 rec /src/rec.go:42
                                                 1   100% |   0000000000001100 main /src/main.go:11
         0     0% 600.00%          1   100%                | 0000000000001600 rec /src/rec.go:43
                                                 1   100% |   0000000000001600 rec /src/rec.go:42 (inline)
----------------------------------------------------------+-------------
--- tree call_tree=true Total()=1
File: prog
Type: samples
Showing nodes accounting for 6, 600.00% of 1 total
----------------------------------------------------------+-------------
      flat  flat%   sum%        cum   cum%   calls calls% + context 	 	 
----------------------------------------------------------+-------------
                                                 1   100% |   0000000000001200 inner /src/inner.go:31
                                                 1   100% |   0000000000001100 main /src/main.go:11
                                                 1   100% |   0000000000001700 leaf /src/leaf.go:52
         1   100%   100%          1   100%                | 0000000000001500 leaf /src/leaf.go:51
                                                 1   100% |   0000000000001700 leaf /src/leaf.go:52
----------------------------------------------------------+-------------
                                                 1   100% |   0000000000001200 outer /src/outer.go:21 (inline)
         1   100% 200.00%          1   100%                | 0000000000001200 inner /src/inner.go:31
                                                 1   100% |   0000000000001500 leaf /src/leaf.go:51
                                                 1   100% |   0000000000001200 outer /src/outer.go:21
                                                 1   100% |   0000000000001300 rec /src/rec.go:41
----------------------------------------------------------+-------------
                                                 1   100% |   0000000000001500 leaf /src/leaf.go:51
         1   100% 300.00%          1   100%                | 0000000000001700 leaf /src/leaf.go:52
                                                 1   100% |   0000000000001500 leaf /src/leaf.go:51
----------------------------------------------------------+-------------
                                                 1   100% |   0000000000001100 main /src/main.go:11
         1   100% 400.00%          1   100%                | 0000000000001400 [prog]
----------------------------------------------------------+-------------
                                                 1   100% |   0000000000001100 main /src/main.go:11
                                                 1   100% |   0000000000001200 inner /src/inner.go:31
         1   100% 500.00%          1   100%                | 0000000000001300 rec /src/rec.go:41
                                                 1   100% |   0000000000001600 rec /src/rec.go:43
                                                 1   100% |   0000000000001200 outer /src/outer.go:21
----------------------------------------------------------+-------------
                                                 1   100% |   0000000000001600 rec /src/rec.go:43 (inline)
         1   100% 600.00%          1   100%                | 0000000000001600 rec /src/rec.go:42
                                                 1   100% |   0000000000001600 rec /src/rec.go:43
----------------------------------------------------------+-------------
         0     0% 600.00%          1   100%                | 0000000000001100 main /src/main.go:11
                                                 1   100% |   0000000000001200 outer /src/outer.go:21
                                                 1   100% |   0000000000001500 leaf /src/leaf.go:51
                                                 1   100% |   0000000000001400 [prog]
                                                 1   100% |   0000000000001300 rec /src/rec.go:41
                                                 1   100% |   0000000000001600 rec /src/rec.go:43
----------------------------------------------------------+-------------
                                                 1   100% |   0000000000001100 main /src/main.go:11
                                                 1   100% |   0000000000001200 inner /src/inner.go:31
                                                 1   100% |   0000000000001300 rec /src/rec.go:41
         0     0% 600.00%          1   100%                | 0000000000001200 outer /src/outer.go:21
                                                 1   100% |   0000000000001200 inner /src/inner.go:31 (inline)
----------------------------------------------------------+-------------
                                                 1   100% |   0000000000001300 rec /src/rec.go:41
                                                 1   100% |   0000000000001600 rec /src/rec.go:42
                                                 1   100% |   0000000000001100 main /src/main.go:11
         0     0% 600.00%          1   100%                | 0000000000001600 rec /src/rec.go:43
                                                 1   100% |   0000000000001600 rec /src/rec.go:42 (inline)
----------------------------------------------------------+-------------
--- traces call_tree=false Total()=1
File: prog
Type: samples
-----------+-------------------------------------------------------
         1   0000000000001500 leaf /src/leaf.go:51
             0000000000001200 inner /src/inner.go:31 (inline)
             0000000000001200 outer /src/outer.go:21
             0000000000001100 main /src/main.go:11
-----------+-------------------------------------------------------
         1   0000000000001300 rec /src/rec.go:41
             0000000000001300 rec /src/rec.go:41
             0000000000001300 rec /src/rec.go:41
             0000000000001100 main /src/main.go:11
-----------+-------------------------------------------------------
         1   0000000000001300 rec /src/rec.go:41
             0000000000001200 inner /src/inner.go:31 (inline)
             0000000000001200 outer /src/outer.go:21
             0000000000001300 rec /src/rec.go:41
             0000000000001200 inner /src/inner.go:31 (inline)
             0000000000001200 outer /src/outer.go:21
             0000000000001100 main /src/main.go:11
-----------+-------------------------------------------------------
         1   0000000000001400 [prog]
             0000000000001100 main /src/main.go:11
-----------+-------------------------------------------------------
         k:  v1 v2
     bytes:  64
         1   0000000000001500 leaf /src/leaf.go:51
             0000000000001200 inner /src/inner.go:31 (inline)
             0000000000001200 outer /src/outer.go:21
             0000000000001100 main /src/main.go:11
-----------+-------------------------------------------------------
         1   0000000000001600 rec /src/rec.go:42 (inline)
             0000000000001600 rec /src/rec.go:43
             0000000000001100 main /src/main.go:11
-----------+-------------------------------------------------------
         1   0000000000001600 rec /src/rec.go:42 (inline)
             0000000000001600 rec /src/rec.go:43
             0000000000001600 rec /src/rec.go:42 (inline)
             0000000000001600 rec /src/rec.go:43
             0000000000001300 rec /src/rec.go:41
             0000000000001100 main /src/main.go:11
-----------+-------------------------------------------------------
         1   0000000000001700 leaf /src/leaf.go:52
             0000000000001500 leaf /src/leaf.go:51
             0000000000001700 leaf /src/leaf.go:52
             0000000000001500 leaf /src/leaf.go:51
             0000000000001100 main /src/main.go:11
-----------+-------------------------------------------------------
         0   0000000000001500 leaf /src/leaf.go:51
             0000000000001100 main /src/main.go:11
-----------+-------------------------------------------------------
         0   0000000000001100 main /src/main.go:11
             0000000000001100 main /src/main.go:11
-----------+-------------------------------------------------------
         1   0000000000001200 inner /src/inner.go:31 (inline)
             0000000000001200 outer /src/outer.go:21
             0000000000001200 inner /src/inner.go:31 (inline)
             0000000000001200 outer /src/outer.go:21
-----------+-------------------------------------------------------
--- dot call_tree=false Total()=1
digraph "zz" {
node [style=filled fillcolor="#f8f8f8"]
subgraph cluster_L { "File: prog" [shape=box fontsize=16 label="File: prog\lType: samples\lShowing nodes accounting for 6, 600.00% of 1 total\l\lSee https://git.io/JfYMW for how to read the graph\l" tooltip="zz"] }
N1 [label="0000000000001100\nmain\nmain.go:11\n0 of 1 (100%)" id="node1" fontsize=8 shape=box tooltip="0000000000001100 main /src/main.go:11 (1)" color="#b20000" fillcolor="#edd5d5"]
N2 [label="0000000000001500\nleaf\nleaf.go:51\n1 (100%)" id="node2" fontsize=24 shape=box tooltip="0000000000001500 leaf /src/leaf.go:51 (1)" color="#b20000" fillcolor="#edd5d5"]
N2_0 [label = "k:v1\nk:v2" id="N2_0" fontsize=8 shape=box3d tooltip="1"]
N2 -> N2_0 [label=" 1" weight=100 tooltip="1" labeltooltip="1"]
NN2_0_0 [label = "64" id="NN2_0_0" fontsize=8 shape=box3d tooltip="1"]
N2_0 -> NN2_0_0 [label=" 1" weight=100 tooltip="1" labeltooltip="1"]
N3 [label="0000000000001200\ninner\ninner.go:31\n1 (100%)" id="node3" fontsize=24 shape=box tooltip="0000000000001200 inner /src/inner.go:31 (1)" color="#b20000" fillcolor="#edd5d5"]
N4 [label="0000000000001200\nouter\nouter.go:21\n0 of 1 (100%)" id="node4" fontsize=8 shape=box tooltip="0000000000001200 outer /src/outer.go:21 (1)" color="#b20000" fillcolor="#edd5d5"]
N5 [label="0000000000001700\nleaf\nleaf.go:52\n1 (100%)" id="node5" fontsize=24 shape=box tooltip="0000000000001700 leaf /src/leaf.go:52 (1)" color="#b20000" fillcolor="#edd5d5"]
N6 [label="0000000000001300\nrec\nrec.go:41\n1 (100%)" id="node6" fontsize=24 shape=box tooltip="0000000000001300 rec /src/rec.go:41 (1)" color="#b20000" fillcolor="#edd5d5"]
N7 [label="0000000000001400\n[prog]\n1 (100%)" id="node7" fontsize=24 shape=box tooltip="0000000000001400 [prog] (1)" color="#b20000" fillcolor="#edd5d5"]
N8 [label="0000000000001600\nrec\nrec.go:42\n1 (100%)" id="node8" fontsize=24 shape=box tooltip="0000000000001600 rec /src/rec.go:42 (1)" color="#b20000" fillcolor="#edd5d5"]
N9 [label="0000000000001600\nrec\nrec.go:43\n0 of 1 (100%)" id="node9" fontsize=8 shape=box tooltip="0000000000001600 rec /src/rec.go:43 (1)" color="#b20000" fillcolor="#edd5d5"]
N4 -> N3 [label=" 1\n (inline)" weight=101 penwidth=6 color="#b20000" tooltip="0000000000001200 outer /src/outer.go:21 -> 0000000000001200 inner /src/inner.go:31 (1)" labeltooltip="0000000000001200 outer /src/outer.go:21 -> 0000000000001200 inner /src/inner.go:31 (1)"]
N1 -> N4 [label=" 1" weight=101 penwidth=6 color="#b20000" tooltip="0000000000001100 main /src/main.go:11 -> 0000000000001200 outer /src/outer.go:21 (1)" labeltooltip="0000000000001100 main /src/main.go:11 -> 0000000000001200 outer /src/outer.go:21 (1)"]
N3 -> N2 [label=" 1" weight=101 penwidth=6 color="#b20000" tooltip="0000000000001200 inner /src/inner.go:31 -> 0000000000001500 leaf /src/leaf.go:51 (1)" labeltooltip="0000000000001200 inner /src/inner.go:31 -> 0000000000001500 leaf /src/leaf.go:51 (1)"]
N3 -> N4 [label=" 1" weight=101 penwidth=6 color="#b20000" tooltip="0000000000001200 inner /src/inner.go:31 -> 0000000000001200 outer /src/outer.go:21 (1)" labeltooltip="0000000000001200 inner /src/inner.go:31 -> 0000000000001200 outer /src/outer.go:21 (1)"]
N1 -> N2 [label=" 1" weight=101 penwidth=6 color="#b20000" tooltip="0000000000001100 main /src/main.go:11 -> 0000000000001500 leaf /src/leaf.go:51 (1)" labeltooltip="0000000000001100 main /src/main.go:11 -> 0000000000001500 leaf /src/leaf.go:51 (1)"]
N2 -> N5 [label=" 1" weight=101 penwidth=6 color="#b20000" tooltip="0000000000001500 leaf /src/leaf.go:51 -> 0000000000001700 leaf /src/leaf.go:52 (1)" labeltooltip="0000000000001500 leaf /src/leaf.go:51 -> 0000000000001700 leaf /src/leaf.go:52 (1)" minlen=2]
N5 -> N2 [label=" 1" weight=101 penwidth=6 color="#b20000" tooltip="0000000000001700 leaf /src/leaf.go:52 -> 0000000000001500 leaf /src/leaf.go:51 (1)" labeltooltip="0000000000001700 leaf /src/leaf.go:52 -> 0000000000001500 leaf /src/leaf.go:51 (1)"]
N1 -> N7 [label=" 1" weight=101 penwidth=6 color="#b20000" tooltip="0000000000001100 main /src/main.go:11 -> 0000000000001400 [prog] (1)" labeltooltip="0000000000001100 main /src/main.go:11 -> 0000000000001400 [prog] (1)"]
N1 -> N6 [label=" 1" weight=101 penwidth=6 color="#b20000" tooltip="0000000000001100 main /src/main.go:11 -> 0000000000001300 rec /src/rec.go:41 (1)" labeltooltip="0000000000001100 main /src/main.go:11 -> 0000000000001300 rec /src/rec.go:41 (1)"]
N9 -> N8 [label=" 1\n (inline)" weight=101 penwidth=6 color="#b20000" tooltip="0000000000001600 rec /src/rec.go:43 -> 0000000000001600 rec /src/rec.go:42 (1)" labeltooltip="0000000000001600 rec /src/rec.go:43 -> 0000000000001600 rec /src/rec.go:42 (1)"]
N6 -> N9 [label=" 1" weight=101 penwidth=6 color="#b20000" tooltip="0000000000001300 rec /src/rec.go:41 -> 0000000000001600 rec /src/rec.go:43 (1)" labeltooltip="0000000000001300 rec /src/rec.go:41 -> 0000000000001600 rec /src/rec.go:43 (1)"]
N8 -> N9 [label=" 1" weight=101 penwidth=6 color="#b20000" tooltip="0000000000001600 rec /src/rec.go:42 -> 0000000000001600 rec /src/rec.go:43 (1)" labeltooltip="0000000000001600 rec /src/rec.go:42 -> 0000000000001600 rec /src/rec.go:43 (1)"]
N1 -> N9 [label=" 1" weight=101 penwidth=6 color="#b20000" tooltip="0000000000001100 main /src/main.go:11 -> 0000000000001600 rec /src/rec.go:43 (1)" labeltooltip="0000000000001100 main /src/main.go:11 -> 0000000000001600 rec /src/rec.go:43 (1)"]
N3 -> N6 [label=" 1" weight=101 penwidth=6 color="#b20000" tooltip="0000000000001200 inner /src/inner.go:31 -> 0000000000001300 rec /src/rec.go:41 (1)" labeltooltip="0000000000001200 inner /src/inner.go:31 -> 0000000000001300 rec /src/rec.go:41 (1)"]
N6 -> N4 [label=" 1" weight=101 penwidth=6 color="#b20000" tooltip="0000000000001300 rec /src/rec.go:41 -> 0000000000001200 outer /src/outer.go:21 (1)" labeltooltip="0000000000001300 rec /src/rec.go:41 -> 0000000000001200 outer /src/outer.go:21 (1)"]
}
--- callgrind call_tree=false Total()=1
positions: instr line
events: samples(count)

ob=(1) /bin/prog
fl=(1) /src/leaf.go
fn=(1) leaf
0x1500 51 1
cfl=(1)
cfn=(1)
calls=0 0x1700 52
* * 1

ob=(1)
fl=(2) /src/inner.go
fn=(2) inner
-768 31 1
cfl=(1)
cfn=(1)
calls=0 * 51
* * 1
cfl=(3) /src/outer.go
cfn=(3) outer
calls=0 -768 21
* * 1
cfl=(4) /src/rec.go
cfn=(4) rec
calls=0 -512 41
* * 1

ob=(1)
fl=(1)
fn=(1)
+1280 52 1
cfl=(1)
cfn=(1)
calls=0 +768 51
* * 1

ob=(1)
fl=
fn=
-768 0 1

ob=(1)
fl=(4)
fn=(4)
-256 41 1
cfl=(4)
cfn=(4)
calls=0 +512 43
* * 1
cfl=(3)
cfn=(3)
calls=0 -512 21
* * 1
+768 42 1
cfl=(4)
cfn=(4)
calls=0 +768 43
* * 1

ob=(1)
fl=(5) /src/main.go
fn=(5) main
-1280 11 0
cfl=(3)
cfn=(3)
calls=0 -1024 21
* * 1
cfl=(1)
cfn=(1)
calls=0 -256 51
* * 1
cfl=
cfn=
calls=0 -512 0
* * 1
cfl=(4)
cfn=(4)
calls=0 -768 41
* * 1
cfl=(4)
cfn=(4)
calls=0 * 43
* * 1

ob=(1)
fl=(3)
fn=(3)
+256 21 0
cfl=(2)
cfn=(2)
calls=0 +256 31
* * 1

ob=(1)
fl=(4)
fn=(4)
+1024 43 0
cfl=(4)
cfn=(4)
calls=0 +1024 42
* * 1
=== plain idx=1 mean=false computeTotal=119
--- text call_tree=false Total()=119
File: prog
Type: cpu
Showing nodes accounting for 94ns, 78.99% of 119ns total
      flat  flat%   sum%        cum   cum%
      23ns 19.33% 19.33%       41ns 34.45%  0000000000001200 inner /src/inner.go:31 (inline)
      23ns 19.33% 38.66%       40ns 33.61%  0000000000001500 leaf /src/leaf.go:51
      19ns 15.97% 54.62%       71ns 59.66%  0000000000001100 main /src/main.go:11
      17ns 14.29% 68.91%       17ns 14.29%  0000000000001700 leaf /src/leaf.go:52
      11ns  9.24% 78.15%       11ns  9.24%  0000000000001400 [prog]
       2ns  1.68% 79.83%       -1ns  0.84%  0000000000001300 rec /src/rec.go:41
      -1ns  0.84% 78.99%       -1ns  0.84%  0000000000001600 rec /src/rec.go:42 (inline)
         0     0% 78.99%       41ns 34.45%  0000000000001200 outer /src/outer.go:21
         0     0% 78.99%       -1ns  0.84%  0000000000001600 rec /src/rec.go:43
--- tree call_tree=false Total()=119
File: prog
Type: cpu
Showing nodes accounting for 94ns, 78.99% of 119ns total
----------------------------------------------------------+-------------
      flat  flat%   sum%        cum   cum%   calls calls% + context 	 	 
----------------------------------------------------------+-------------
                                              41ns   100% |   0000000000001200 outer /src/outer.go:21 (inline)
      23ns 19.33% 19.33%       41ns 34.45%                | 0000000000001200 inner /src/inner.go:31
                                              23ns 56.10% |   0000000000001200 outer /src/outer.go:21
                                              23ns 56.10% |   0000000000001500 leaf /src/leaf.go:51
                                              -5ns 12.20% |   0000000000001300 rec /src/rec.go:41
----------------------------------------------------------+-------------
                                              23ns 57.50% |   0000000000001200 inner /src/inner.go:31
                                              17ns 42.50% |   0000000000001100 main /src/main.go:11
                                              17ns 42.50% |   0000000000001700 leaf /src/leaf.go:52
      23ns 19.33% 38.66%       40ns 33.61%                | 0000000000001500 leaf /src/leaf.go:51
                                              17ns 42.50% |   0000000000001700 leaf /src/leaf.go:52
----------------------------------------------------------+-------------
      19ns 15.97% 54.62%       71ns 59.66%                | 0000000000001100 main /src/main.go:11
                                              18ns 25.35% |   0000000000001200 outer /src/outer.go:21
                                              17ns 23.94% |   0000000000001500 leaf /src/leaf.go:51
                                              11ns 15.49% |   0000000000001400 [prog]
                                               4ns  5.63% |   0000000000001300 rec /src/rec.go:41
                                               2ns  2.82% |   0000000000001600 rec /src/rec.go:43
----------------------------------------------------------+-------------
                                              17ns   100% |   0000000000001500 leaf /src/leaf.go:51
      17ns 14.29% 68.91%       17ns 14.29%                | 0000000000001700 leaf /src/leaf.go:52
                                              17ns   100% |   0000000000001500 leaf /src/leaf.go:51
----------------------------------------------------------+-------------
                                              11ns   100% |   0000000000001100 main /src/main.go:11
      11ns  9.24% 78.15%       11ns  9.24%                | 0000000000001400 [prog]
----------------------------------------------------------+-------------
                                              -5ns 500.00% |   0000000000001200 inner /src/inner.go:31
                                               4ns 400.00% |   0000000000001100 main /src/main.go:11
       2ns  1.68% 79.83%       -1ns  0.84%                | 0000000000001300 rec /src/rec.go:41
                                              -5ns 500.00% |   0000000000001200 outer /src/outer.go:21
                                              -3ns 300.00% |   0000000000001600 rec /src/rec.go:43
----------------------------------------------------------+-------------
                                              -1ns   100% |   0000000000001600 rec /src/rec.go:43 (inline)
      -1ns  0.84% 78.99%       -1ns  0.84%                | 0000000000001600 rec /src/rec.go:42
                                              -3ns 300.00% |   0000000000001600 rec /src/rec.go:43
----------------------------------------------------------+-------------
                                              23ns 56.10% |   0000000000001200 inner /src/inner.go:31
                                              18ns 43.90% |   0000000000001100 main /src/main.go:11
                                              -5ns 12.20% |   0000000000001300 rec /src/rec.go:41
         0     0% 78.99%       41ns 34.45%                | 0000000000001200 outer /src/outer.go:21
                                              41ns   100% |   0000000000001200 inner /src/inner.go:31 (inline)
----------------------------------------------------------+-------------
                                              -3ns 300.00% |   0000000000001300 rec /src/rec.go:41
                                              -3ns 300.00% |   0000000000001600 rec /src/rec.go:42
                                               2ns 200.00% |   0000000000001100 main /src/main.go:11
         0     0% 78.99%       -1ns  0.84%                | 0000000000001600 rec /src/rec.go:43
                                              -1ns   100% |   0000000000001600 rec /src/rec.go:42 (inline)
----------------------------------------------------------+-------------
--- tree call_tree=true Total()=119
File: prog
Type: cpu
Showing nodes accounting for 94ns, 78.99% of 119ns total
----------------------------------------------------------+-------------
      flat  flat%   sum%        cum   cum%   calls calls% + context 	 	 
----------------------------------------------------------+-------------
                                              41ns   100% |   0000000000001200 outer /src/outer.go:21 (inline)
      23ns 19.33% 19.33%       41ns 34.45%                | 0000000000001200 inner /src/inner.go:31
                                              23ns 56.10% |   0000000000001200 outer /src/outer.go:21
                                              23ns 56.10% |   0000000000001500 leaf /src/leaf.go:51
                                              -5ns 12.20% |   0000000000001300 rec /src/rec.go:41
----------------------------------------------------------+-------------
                                              23ns 57.50% |   0000000000001200 inner /src/inner.go:31
                                              17ns 42.50% |   0000000000001100 main /src/main.go:11
                                              17ns 42.50% |   0000000000001700 leaf /src/leaf.go:52
      23ns 19.33% 38.66%       40ns 33.61%                | 0000000000001500 leaf /src/leaf.go:51
                                              17ns 42.50% |   0000000000001700 leaf /src/leaf.go:52
----------------------------------------------------------+-------------
      19ns 15.97% 54.62%       71ns 59.66%                | 0000000000001100 main /src/main.go:11
                                              18ns 25.35% |   0000000000001200 outer /src/outer.go:21
                                              17ns 23.94% |   0000000000001500 leaf /src/leaf.go:51
                                              11ns 15.49% |   0000000000001400 [prog]
                                               4ns  5.63% |   0000000000001300 rec /src/rec.go:41
                                               2ns  2.82% |   0000000000001600 rec /src/rec.go:43
----------------------------------------------------------+-------------
                                              17ns   100% |   0000000000001500 leaf /src/leaf.go:51
      17ns 14.29% 68.91%       17ns 14.29%                | 0000000000001700 leaf /src/leaf.go:52
                                              17ns   100% |   0000000000001500 leaf /src/leaf.go:51
----------------------------------------------------------+-------------
                                              11ns   100% |   0000000000001100 main /src/main.go:11
      11ns  9.24% 78.15%       11ns  9.24%                | 0000000000001400 [prog]
----------------------------------------------------------+-------------
                                              -5ns 500.00% |   0000000000001200 inner /src/inner.go:31
                                               4ns 400.00% |   0000000000001100 main /src/main.go:11
       2ns  1.68% 79.83%       -1ns  0.84%                | 0000000000001300 rec /src/rec.go:41
                                              -5ns 500.00% |   0000000000001200 outer /src/outer.go:21
                                              -3ns 300.00% |   0000000000001600 rec /src/rec.go:43
----------------------------------------------------------+-------------
                                              -1ns   100% |   0000000000001600 rec /src/rec.go:43 (inline)
      -1ns  0.84% 78.99%       -1ns  0.84%                | 0000000000001600 rec /src/rec.go:42
                                              -3ns 300.00% |   0000000000001600 rec /src/rec.go:43
----------------------------------------------------------+-------------
                                              23ns 56.10% |   0000000000001200 inner /src/inner.go:31
                                              18ns 43.90% |   0000000000001100 main /src/main.go:11
                                              -5ns 12.20% |   0000000000001300 rec /src/rec.go:41
         0     0% 78.99%       41ns 34.45%                | 0000000000001200 outer /src/outer.go:21
                                              41ns   100% |   0000000000001200 inner /src/inner.go:31 (inline)
----------------------------------------------------------+-------------
                                              -3ns 300.00% |   0000000000001300 rec /src/rec.go:41
                                              -3ns 300.00% |   0000000000001600 rec /src/rec.go:42
                                               2ns 200.00% |   0000000000001100 main /src/main.go:11
         0     0% 78.99%       -1ns  0.84%                | 0000000000001600 rec /src/rec.go:43
                                              -1ns   100% |   0000000000001600 rec /src/rec.go:42 (inline)
----------------------------------------------------------+-------------
--- traces call_tree=false Total()=119
File: prog
Type: cpu
-----------+-------------------------------------------------------
      10ns   0000000000001500 leaf /src/leaf.go:51
             0000000000001200 inner /src/inner.go:31 (inline)
             0000000000001200 outer /src/outer.go:21
             0000000000001100 main /src/main.go:11
-----------+-------------------------------------------------------
       7ns   0000000000001300 rec /src/rec.go:41
             0000000000001300 rec /src/rec.go:41
             0000000000001300 rec /src/rec.go:41
             0000000000001100 main /src/main.go:11
-----------+-------------------------------------------------------
      -5ns   0000000000001300 rec /src/rec.go:41
             0000000000001200 inner /src/inner.go:31 (inline)
             0000000000001200 outer /src/outer.go:21
             0000000000001300 rec /src/rec.go:41
             0000000000001200 inner /src/inner.go:31 (inline)
             0000000000001200 outer /src/outer.go:21
             0000000000001100 main /src/main.go:11
-----------+-------------------------------------------------------
      11ns   0000000000001400 [prog]
             0000000000001100 main /src/main.go:11
-----------+-------------------------------------------------------
         k:  v1 v2
     bytes:  64
      13ns   0000000000001500 leaf /src/leaf.go:51
             0000000000001200 inner /src/inner.go:31 (inline)
             0000000000001200 outer /src/outer.go:21
             0000000000001100 main /src/main.go:11
-----------+-------------------------------------------------------
       2ns   0000000000001600 rec /src/rec.go:42 (inline)
             0000000000001600 rec /src/rec.go:43
             0000000000001100 main /src/main.go:11
-----------+-------------------------------------------------------
      -3ns   0000000000001600 rec /src/rec.go:42 (inline)
             0000000000001600 rec /src/rec.go:43
             0000000000001600 rec /src/rec.go:42 (inline)
             0000000000001600 rec /src/rec.go:43
             0000000000001300 rec /src/rec.go:41
             0000000000001100 main /src/main.go:11
-----------+-------------------------------------------------------
      17ns   0000000000001700 leaf /src/leaf.go:52
             0000000000001500 leaf /src/leaf.go:51
             0000000000001700 leaf /src/leaf.go:52
             0000000000001500 leaf /src/leaf.go:51
             0000000000001100 main /src/main.go:11
-----------+-------------------------------------------------------
         0   0000000000001500 leaf /src/leaf.go:51
             0000000000001100 main /src/main.go:11
-----------+-------------------------------------------------------
      19ns   0000000000001100 main /src/main.go:11
             0000000000001100 main /src/main.go:11
-----------+-------------------------------------------------------
      23ns   0000000000001200 inner /src/inner.go:31 (inline)
             0000000000001200 outer /src/outer.go:21
             0000000000001200 inner /src/inner.go:31 (inline)
             0000000000001200 outer /src/outer.go:21
-----------+-------------------------------------------------------
--- dot call_tree=false Total()=119
digraph "zz" {
node [style=filled fillcolor="#f8f8f8"]
subgraph cluster_L { "File: prog" [shape=box fontsize=16 label="File: prog\lType: cpu\lShowing nodes accounting for 94ns, 78.99% of 119ns total\l\lSee https://git.io/JfYMW for how to read the graph\l" tooltip="zz"] }
N1 [label="0000000000001600\nrec\nrec.go:42\n-1ns (0.84%)" id="node1" fontsize=12 shape=box tooltip="0000000000001600 rec /src/rec.go:42 (-1ns)" color="#b0b2ab" fillcolor="#ecedec"]
N2 [label="0000000000001100\nmain\nmain.go:11\n19ns (15.97%)\nof 71ns (59.66%)" id="node2" fontsize=23 shape=box tooltip="0000000000001100 main /src/main.go:11 (71ns)" color="#b21900" fillcolor="#edd8d5"]
N3 [label="0000000000001500\nleaf\nleaf.go:51\n23ns (19.33%)\nof 40ns (33.61%)" id="node3" fontsize=24 shape=box tooltip="0000000000001500 leaf /src/leaf.go:51 (40ns)" color="#b23100" fillcolor="#eddcd5"]
N3_0 [label = "k:v1\nk:v2" id="N3_0" fontsize=8 shape=box3d tooltip="13ns"]
N3 -> N3_0 [label=" 13ns" weight=100 tooltip="13ns" labeltooltip="13ns"]
NN3_0_0 [label = "64" id="NN3_0_0" fontsize=8 shape=box3d tooltip="13ns"]
N3_0 -> NN3_0_0 [label=" 13ns" weight=100 tooltip="13ns" labeltooltip="13ns"]
N4 [label="0000000000001200\ninner\ninner.go:31\n23ns (19.33%)\nof 41ns (34.45%)" id="node4" fontsize=24 shape=box tooltip="0000000000001200 inner /src/inner.go:31 (41ns)" color="#b23000" fillcolor="#eddbd5"]
N5 [label="0000000000001200\nouter\nouter.go:21\n0 of 41ns (34.45%)" id="node5" fontsize=8 shape=box tooltip="0000000000001200 outer /src/outer.go:21 (41ns)" color="#b23000" fillcolor="#eddbd5"]
N6 [label="0000000000001700\nleaf\nleaf.go:52\n17ns (14.29%)" id="node6" fontsize=22 shape=box tooltip="0000000000001700 leaf /src/leaf.go:52 (17ns)" color="#b26b33" fillcolor="#ede3dc"]
N7 [label="0000000000001400\n[prog]\n11ns (9.24%)" id="node7" fontsize=20 shape=box tooltip="0000000000001400 [prog] (11ns)" color="#b28a5f" fillcolor="#ede7e2"]
N8 [label="0000000000001300\nrec\nrec.go:41\n2ns (1.68%)\nof -1ns (0.84%)" id="node8" fontsize=13 shape=box tooltip="0000000000001300 rec /src/rec.go:41 (-1ns)" color="#b0b2ab" fillcolor="#ecedec"]
N9 [label="0000000000001600\nrec\nrec.go:43\n0 of -1ns (0.84%)" id="node9" fontsize=8 shape=box tooltip="0000000000001600 rec /src/rec.go:43 (-1ns)" color="#b0b2ab" fillcolor="#ecedec"]
N5 -> N4 [label=" 41ns\n (inline)" weight=35 penwidth=2 color="#b23000" tooltip="0000000000001200 outer /src/outer.go:21 -> 0000000000001200 inner /src/inner.go:31 (41ns)" labeltooltip="0000000000001200 outer /src/outer.go:21 -> 0000000000001200 inner /src/inner.go:31 (41ns)"]
N4 -> N5 [label=" 23ns" weight=20 color="#b24905" tooltip="0000000000001200 inner /src/inner.go:31 -> 0000000000001200 outer /src/outer.go:21 (23ns)" labeltooltip="0000000000001200 inner /src/inner.go:31 -> 0000000000001200 outer /src/outer.go:21 (23ns)"]
N4 -> N3 [label=" 23ns" weight=20 color="#b24905" tooltip="0000000000001200 inner /src/inner.go:31 -> 0000000000001500 leaf /src/leaf.go:51 (23ns)" labeltooltip="0000000000001200 inner /src/inner.go:31 -> 0000000000001500 leaf /src/leaf.go:51 (23ns)"]
N2 -> N5 [label=" 18ns" weight=16 color="#b2652b" tooltip="0000000000001100 main /src/main.go:11 -> 0000000000001200 outer /src/outer.go:21 (18ns)" labeltooltip="0000000000001100 main /src/main.go:11 -> 0000000000001200 outer /src/outer.go:21 (18ns)"]
N2 -> N3 [label=" 17ns" weight=15 color="#b26b33" tooltip="0000000000001100 main /src/main.go:11 -> 0000000000001500 leaf /src/leaf.go:51 (17ns)" labeltooltip="0000000000001100 main /src/main.go:11 -> 0000000000001500 leaf /src/leaf.go:51 (17ns)"]
N3 -> N6 [label=" 17ns" weight=15 color="#b26b33" tooltip="0000000000001500 leaf /src/leaf.go:51 -> 0000000000001700 leaf /src/leaf.go:52 (17ns)" labeltooltip="0000000000001500 leaf /src/leaf.go:51 -> 0000000000001700 leaf /src/leaf.go:52 (17ns)" minlen=2]
N6 -> N3 [label=" 17ns" weight=15 color="#b26b33" tooltip="0000000000001700 leaf /src/leaf.go:52 -> 0000000000001500 leaf /src/leaf.go:51 (17ns)" labeltooltip="0000000000001700 leaf /src/leaf.go:52 -> 0000000000001500 leaf /src/leaf.go:51 (17ns)"]
N2 -> N7 [label=" 11ns" weight=10 color="#b28a5f" tooltip="0000000000001100 main /src/main.go:11 -> 0000000000001400 [prog] (11ns)" labeltooltip="0000000000001100 main /src/main.go:11 -> 0000000000001400 [prog] (11ns)"]
N4 -> N8 [label=" -5ns" weight=5 color="#a4b28c" tooltip="0000000000001200 inner /src/inner.go:31 -> 0000000000001300 rec /src/rec.go:41 (-5ns)" labeltooltip="0000000000001200 inner /src/inner.go:31 -> 0000000000001300 rec /src/rec.go:41 (-5ns)"]
N8 -> N5 [label=" -5ns" weight=5 color="#a4b28c" tooltip="0000000000001300 rec /src/rec.go:41 -> 0000000000001200 outer /src/outer.go:21 (-5ns)" labeltooltip="0000000000001300 rec /src/rec.go:41 -> 0000000000001200 outer /src/outer.go:21 (-5ns)"]
N2 -> N8 [label=" 4ns" weight=4 color="#b2a794" tooltip="0000000000001100 main /src/main.go:11 -> 0000000000001300 rec /src/rec.go:41 (4ns)" labeltooltip="0000000000001100 main /src/main.go:11 -> 0000000000001300 rec /src/rec.go:41 (4ns)"]
N8 -> N9 [label=" -3ns" weight=3 color="#abb29b" tooltip="0000000000001300 rec /src/rec.go:41 -> 0000000000001600 rec /src/rec.go:43 (-3ns)" labeltooltip="0000000000001300 rec /src/rec.go:41 -> 0000000000001600 rec /src/rec.go:43 (-3ns)"]
N1 -> N9 [label=" -3ns" weight=3 color="#abb29b" tooltip="0000000000001600 rec /src/rec.go:42 -> 0000000000001600 rec /src/rec.go:43 (-3ns)" labeltooltip="0000000000001600 rec /src/rec.go:42 -> 0000000000001600 rec /src/rec.go:43 (-3ns)"]
N2 -> N9 [label=" 2ns" weight=2 color="#b2aea3" tooltip="0000000000001100 main /src/main.go:11 -> 0000000000001600 rec /src/rec.go:43 (2ns)" labeltooltip="0000000000001100 main /src/main.go:11 -> 0000000000001600 rec /src/rec.go:43 (2ns)"]
N9 -> N1 [label=" -1ns\n (inline)" color="#b0b2ab" tooltip="0000000000001600 rec /src/rec.go:43 -> 0000000000001600 rec /src/rec.go:42 (-1ns)" labeltooltip="0000000000001600 rec /src/rec.go:43 -> 0000000000001600 rec /src/rec.go:42 (-1ns)"]
}
--- callgrind call_tree=false Total()=119
positions: instr line
events: cpu(ns)

ob=(1) /bin/prog
fl=(1) /src/inner.go
fn=(1) inner
0x1200 31 23
cfl=(2) /src/outer.go
cfn=(2) outer
calls=0 0x1200 21
* * 23
cfl=(3) /src/leaf.go
cfn=(3) leaf
calls=0 0x1500 51
* * 23
cfl=(4) /src/rec.go
cfn=(4) rec
calls=0 0x1300 41
* * -5

ob=(1)
fl=(3)
fn=(3)
+768 51 23
cfl=(3)
cfn=(3)
calls=0 +1280 52
* * 17

ob=(1)
fl=(5) /src/main.go
fn=(5) main
-1024 11 19
cfl=(2)
cfn=(2)
calls=0 -768 21
* * 18
cfl=(3)
cfn=(3)
calls=0 * 51
* * 17
cfl=
cfn=
calls=0 -256 0
* * 11
cfl=(4)
cfn=(4)
calls=0 -512 41
* * 4
cfl=(4)
cfn=(4)
calls=0 +256 43
* * 2

ob=(1)
fl=(3)
fn=(3)
+1536 52 17
cfl=(3)
cfn=(3)
calls=0 +1024 51
* * 17

ob=(1)
fl=
fn=
-768 0 11

ob=(1)
fl=(4)
fn=(4)
-256 41 2
cfl=(2)
cfn=(2)
calls=0 -512 21
* * -5
cfl=(4)
cfn=(4)
calls=0 +512 43
* * -3
+768 42 -1
cfl=(4)
cfn=(4)
calls=0 +768 43
* * -3

ob=(1)
fl=(2)
fn=(2)
-1024 21 0
cfl=(1)
cfn=(1)
calls=0 -1024 31
* * 41

ob=(1)
fl=(4)
fn=(4)
+1024 43 0
cfl=(4)
cfn=(4)
calls=0 +1024 42
* * -1
=== plain idx=1 mean=true computeTotal=3
--- text call_tree=false Total()=3
File: prog
Type: cpu
Showing nodes accounting for 27ns, 900.00% of 3ns total
      flat  flat%   sum%        cum   cum%
       2ns 66.67% 66.67%        2ns 66.67%  0000000000001200 inner /src/inner.go:31 (inline)
       2ns 66.67% 133.33%        2ns 66.67%  0000000000001500 leaf /src/leaf.go:51
      19ns 633.33% 766.67%        2ns 66.67%  0000000000001100 main /src/main.go:11
       2ns 66.67% 833.33%        2ns 66.67%  0000000000001700 leaf /src/leaf.go:52
       2ns 66.67% 900.00%        2ns 66.67%  0000000000001400 [prog]
         0     0% 900.00%          0     0%  0000000000001300 rec /src/rec.go:41
         0     0% 900.00%          0     0%  0000000000001600 rec /src/rec.go:42 (inline)
         0     0% 900.00%        2ns 66.67%  0000000000001200 outer /src/outer.go:21
         0     0% 900.00%          0     0%  0000000000001600 rec /src/rec.go:43
--- tree call_tree=false Total()=3
File: prog
Type: cpu
Showing nodes accounting for 27ns, 900.00% of 3ns total
----------------------------------------------------------+-------------
      flat  flat%   sum%        cum   cum%   calls calls% + context 	 	 
----------------------------------------------------------+-------------
                                               2ns   100% |   0000000000001200 outer /src/outer.go:21 (inline)
       2ns 66.67% 66.67%        2ns 66.67%                | 0000000000001200 inner /src/inner.go:31
                                               2ns   100% |   0000000000001200 outer /src/outer.go:21
                                               2ns   100% |   0000000000001500 leaf /src/leaf.go:51
                                              -5ns 250.00% |   0000000000001300 rec /src/rec.go:41
----------------------------------------------------------+-------------
                                               2ns   100% |   0000000000001200 inner /src/inner.go:31
                                               2ns   100% |   0000000000001100 main /src/main.go:11
                                               2ns   100% |   0000000000001700 leaf /src/leaf.go:52
       2ns 66.67% 133.33%        2ns 66.67%                | 0000000000001500 leaf /src/leaf.go:51
                                               2ns   100% |   0000000000001700 leaf /src/leaf.go:52
----------------------------------------------------------+-------------
      19ns 633.33% 766.67%        2ns 66.67%                | 0000000000001100 main /src/main.go:11
                                               1ns 50.00% |   0000000000001200 outer /src/outer.go:21
                                               2ns   100% |   0000000000001500 leaf /src/leaf.go:51
                                               2ns   100% |   0000000000001400 [prog]
                                               1ns 50.00% |   0000000000001300 rec /src/rec.go:41
                                               2ns   100% |   0000000000001600 rec /src/rec.go:43
----------------------------------------------------------+-------------
                                               2ns   100% |   0000000000001500 leaf /src/leaf.go:51
       2ns 66.67% 833.33%        2ns 66.67%                | 0000000000001700 leaf /src/leaf.go:52
                                               2ns   100% |   0000000000001500 leaf /src/leaf.go:51
----------------------------------------------------------+-------------
                                               2ns   100% |   0000000000001100 main /src/main.go:11
       2ns 66.67% 900.00%        2ns 66.67%                | 0000000000001400 [prog]
----------------------------------------------------------+-------------
                                              -5ns     0% |   0000000000001200 inner /src/inner.go:31
                                               1ns     0% |   0000000000001100 main /src/main.go:11
         0     0% 900.00%          0     0%                | 0000000000001300 rec /src/rec.go:41
                                              -5ns     0% |   0000000000001200 outer /src/outer.go:21
                                              -1ns     0% |   0000000000001600 rec /src/rec.go:43
----------------------------------------------------------+-------------
                                                 0     0% |   0000000000001600 rec /src/rec.go:43 (inline)
         0     0% 900.00%          0     0%                | 0000000000001600 rec /src/rec.go:42
                                              -1ns     0% |   0000000000001600 rec /src/rec.go:43
----------------------------------------------------------+-------------
                                               2ns   100% |   0000000000001200 inner /src/inner.go:31
                                               1ns 50.00% |   0000000000001100 main /src/main.go:11
                                              -5ns 250.00% |   0000000000001300 rec /src/rec.go:41
         0     0% 900.00%        2ns 66.67%                | 0000000000001200 outer /src/outer.go:21
                                               2ns   100% |   0000000000001200 inner /src/inner.go:31 (inline)
----------------------------------------------------------+-------------
                                              -1ns     0% |   0000000000001300 rec /src/rec.go:41
                                              -1ns     0% |   0000000000001600 rec /src/rec.go:42
                                               2ns     0% |   0000000000001100 main /src/main.go:11
         0     0% 900.00%          0     0%                | 0000000000001600 rec /src/rec.go:43
                                                 0     0% |   0000000000001600 rec /src/rec.go:42 (inline)
----------------------------------------------------------+-------------
--- tree call_tree=true Total()=3
File: prog
Type: cpu
Showing nodes accounting for 27ns, 900.00% of 3ns total
----------------------------------------------------------+-------------
      flat  flat%   sum%        cum   cum%   calls calls% + context 	 	 
----------------------------------------------------------+-------------
                                               2ns   100% |   0000000000001200 outer /src/outer.go:21 (inline)
       2ns 66.67% 66.67%        2ns 66.67%                | 0000000000001200 inner /src/inner.go:31
                                               2ns   100% |   0000000000001200 outer /src/outer.go:21
                                               2ns   100% |   0000000000001500 leaf /src/leaf.go:51
                                              -5ns 250.00% |   0000000000001300 rec /src/rec.go:41
----------------------------------------------------------+-------------
                                               2ns   100% |   0000000000001200 inner /src/inner.go:31
                                               2ns   100% |   0000000000001100 main /src/main.go:11
                                               2ns   100% |   0000000000001700 leaf /src/leaf.go:52
       2ns 66.67% 133.33%        2ns 66.67%                | 0000000000001500 leaf /src/leaf.go:51
                                               2ns   100% |   0000000000001700 leaf /src/leaf.go:52
----------------------------------------------------------+-------------
      19ns 633.33% 766.67%        2ns 66.67%                | 0000000000001100 main /src/main.go:11
                                               1ns 50.00% |   0000000000001200 outer /src/outer.go:21
                                               2ns   100% |   0000000000001500 leaf /src/leaf.go:51
                                               2ns   100% |   0000000000001400 [prog]
                                               1ns 50.00% |   0000000000001300 rec /src/rec.go:41
                                               2ns   100% |   0000000000001600 rec /src/rec.go:43
----------------------------------------------------------+-------------
                                               2ns   100% |   0000000000001500 leaf /src/leaf.go:51
       2ns 66.67% 833.33%        2ns 66.67%                | 0000000000001700 leaf /src/leaf.go:52
                                               2ns   100% |   0000000000001500 leaf /src/leaf.go:51
----------------------------------------------------------+-------------
                                               2ns   100% |   0000000000001100 main /src/main.go:11
       2ns 66.67% 900.00%        2ns 66.67%                | 0000000000001400 [prog]
----------------------------------------------------------+-------------
                                              -5ns     0% |   0000000000001200 inner /src/inner.go:31
                                               1ns     0% |   0000000000001100 main /src/main.go:11
         0     0% 900.00%          0     0%                | 0000000000001300 rec /src/rec.go:41
                                              -5ns     0% |   0000000000001200 outer /src/outer.go:21
                                              -1ns     0% |   0000000000001600 rec /src/rec.go:43
----------------------------------------------------------+-------------
                                                 0     0% |   0000000000001600 rec /src/rec.go:43 (inline)
         0     0% 900.00%          0     0%                | 0000000000001600 rec /src/rec.go:42
                                              -1ns     0% |   0000000000001600 rec /src/rec.go:43
----------------------------------------------------------+-------------
                                               2ns   100% |   0000000000001200 inner /src/inner.go:31
                                               1ns 50.00% |   0000000000001100 main /src/main.go:11
                                              -5ns 250.00% |   0000000000001300 rec /src/rec.go:41
         0     0% 900.00%        2ns 66.67%                | 0000000000001200 outer /src/outer.go:21
                                               2ns   100% |   0000000000001200 inner /src/inner.go:31 (inline)
----------------------------------------------------------+-------------
                                              -1ns     0% |   0000000000001300 rec /src/rec.go:41
                                              -1ns     0% |   0000000000001600 rec /src/rec.go:42
                                               2ns     0% |   0000000000001100 main /src/main.go:11
         0     0% 900.00%          0     0%                | 0000000000001600 rec /src/rec.go:43
                                                 0     0% |   0000000000001600 rec /src/rec.go:42 (inline)
----------------------------------------------------------+-------------
--- traces call_tree=false Total()=3
File: prog
Type: cpu
-----------+-------------------------------------------------------
       3ns   0000000000001500 leaf /src/leaf.go:51
             0000000000001200 inner /src/inner.go:31 (inline)
             0000000000001200 outer /src/outer.go:21
             0000000000001100 main /src/main.go:11
-----------+-------------------------------------------------------
       3ns   0000000000001300 rec /src/rec.go:41
             0000000000001300 rec /src/rec.go:41
             0000000000001300 rec /src/rec.go:41
             0000000000001100 main /src/main.go:11
-----------+-------------------------------------------------------
      -5ns   0000000000001300 rec /src/rec.go:41
             0000000000001200 inner /src/inner.go:31 (inline)
             0000000000001200 outer /src/outer.go:21
             0000000000001300 rec /src/rec.go:41
             0000000000001200 inner /src/inner.go:31 (inline)
             0000000000001200 outer /src/outer.go:21
             0000000000001100 main /src/main.go:11
-----------+-------------------------------------------------------
       2ns   0000000000001400 [prog]
             0000000000001100 main /src/main.go:11
-----------+-------------------------------------------------------
         k:  v1 v2
     bytes:  64
       2ns   0000000000001500 leaf /src/leaf.go:51
             0000000000001200 inner /src/inner.go:31 (inline)
             0000000000001200 outer /src/outer.go:21
             0000000000001100 main /src/main.go:11
-----------+-------------------------------------------------------
       2ns   0000000000001600 rec /src/rec.go:42 (inline)
             0000000000001600 rec /src/rec.go:43
             0000000000001100 main /src/main.go:11
-----------+-------------------------------------------------------
      -1ns   0000000000001600 rec /src/rec.go:42 (inline)
             0000000000001600 rec /src/rec.go:43
             0000000000001600 rec /src/rec.go:42 (inline)
             0000000000001600 rec /src/rec.go:43
             0000000000001300 rec /src/rec.go:41
             0000000000001100 main /src/main.go:11
-----------+-------------------------------------------------------
       2ns   0000000000001700 leaf /src/leaf.go:52
             0000000000001500 leaf /src/leaf.go:51
             0000000000001700 leaf /src/leaf.go:52
             0000000000001500 leaf /src/leaf.go:51
             0000000000001100 main /src/main.go:11
-----------+-------------------------------------------------------
         0   0000000000001500 leaf /src/leaf.go:51
             0000000000001100 main /src/main.go:11
-----------+-------------------------------------------------------
      19ns   0000000000001100 main /src/main.go:11
             0000000000001100 main /src/main.go:11
-----------+-------------------------------------------------------
       2ns   0000000000001200 inner /src/inner.go:31 (inline)
             0000000000001200 outer /src/outer.go:21
             0000000000001200 inner /src/inner.go:31 (inline)
             0000000000001200 outer /src/outer.go:21
-----------+-------------------------------------------------------
--- dot call_tree=false Total()=3
digraph "zz" {
node [style=filled fillcolor="#f8f8f8"]
subgraph cluster_L { "File: prog" [shape=box fontsize=16 label="File: prog\lType: cpu\lShowing nodes accounting for 27ns, 900.00% of 3ns total\l\lSee https://git.io/JfYMW for how to read the graph\l" tooltip="zz"] }
N1 [label="0000000000001600\nrec\nrec.go:42\n0" id="node1" fontsize=8 shape=box tooltip="0000000000001600 rec /src/rec.go:42 (0)" color="#b2b2b2" fillcolor="#ededed"]
N2 [label="0000000000001100\nmain\nmain.go:11\n19ns (633.33%)\nof 2ns (66.67%)" id="node2" fontsize=24 shape=box tooltip="0000000000001100 main /src/main.go:11 (2ns)" color="#b21400" fillcolor="#edd8d5"]
N3 [label="0000000000001500\nleaf\nleaf.go:51\n2ns (66.67%)" id="node3" fontsize=14 shape=box tooltip="0000000000001500 leaf /src/leaf.go:51 (2ns)" color="#b21400" fillcolor="#edd8d5"]
N3_0 [label = "k:v1\nk:v2" id="N3_0" fontsize=8 shape=box3d tooltip="2ns"]
N3 -> N3_0 [label=" 2ns" weight=100 tooltip="2ns" labeltooltip="2ns"]
NN3_0_0 [label = "64" id="NN3_0_0" fontsize=8 shape=box3d tooltip="2ns"]
N3_0 -> NN3_0_0 [label=" 2ns" weight=100 tooltip="2ns" labeltooltip="2ns"]
N4 [label="0000000000001200\ninner\ninner.go:31\n2ns (66.67%)" id="node4" fontsize=14 shape=box tooltip="0000000000001200 inner /src/inner.go:31 (2ns)" color="#b21400" fillcolor="#edd8d5"]
N5 [label="0000000000001200\nouter\nouter.go:21\n0 of 2ns (66.67%)" id="node5" fontsize=8 shape=box tooltip="0000000000001200 outer /src/outer.go:21 (2ns)" color="#b21400" fillcolor="#edd8d5"]
N6 [label="0000000000001700\nleaf\nleaf.go:52\n2ns (66.67%)" id="node6" fontsize=14 shape=box tooltip="0000000000001700 leaf /src/leaf.go:52 (2ns)" color="#b21400" fillcolor="#edd8d5"]
N7 [label="0000000000001400\n[prog]\n2ns (66.67%)" id="node7" fontsize=14 shape=box tooltip="0000000000001400 [prog] (2ns)" color="#b21400" fillcolor="#edd8d5"]
N8 [label="0000000000001300\nrec\nrec.go:41\n0" id="node8" fontsize=8 shape=box tooltip="0000000000001300 rec /src/rec.go:41 (0)" color="#b2b2b2" fillcolor="#ededed"]
N9 [label="0000000000001600\nrec\nrec.go:43\n0" id="node9" fontsize=8 shape=box tooltip="0000000000001600 rec /src/rec.go:43 (0)" color="#b2b2b2" fillcolor="#ededed"]
N5 -> N4 [label=" 2ns\n (inline)" weight=67 penwidth=4 color="#b21400" tooltip="0000000000001200 outer /src/outer.go:21 -> 0000000000001200 inner /src/inner.go:31 (2ns)" labeltooltip="0000000000001200 outer /src/outer.go:21 -> 0000000000001200 inner /src/inner.go:31 (2ns)"]
N4 -> N5 [label=" 2ns" weight=67 penwidth=4 color="#b21400" tooltip="0000000000001200 inner /src/inner.go:31 -> 0000000000001200 outer /src/outer.go:21 (2ns)" labeltooltip="0000000000001200 inner /src/inner.go:31 -> 0000000000001200 outer /src/outer.go:21 (2ns)"]
N4 -> N3 [label=" 2ns" weight=67 penwidth=4 color="#b21400" tooltip="0000000000001200 inner /src/inner.go:31 -> 0000000000001500 leaf /src/leaf.go:51 (2ns)" labeltooltip="0000000000001200 inner /src/inner.go:31 -> 0000000000001500 leaf /src/leaf.go:51 (2ns)"]
N2 -> N5 [label=" 1ns" weight=34 penwidth=2 color="#b23200" tooltip="0000000000001100 main /src/main.go:11 -> 0000000000001200 outer /src/outer.go:21 (1ns)" labeltooltip="0000000000001100 main /src/main.go:11 -> 0000000000001200 outer /src/outer.go:21 (1ns)"]
N2 -> N3 [label=" 2ns" weight=67 penwidth=4 color="#b21400" tooltip="0000000000001100 main /src/main.go:11 -> 0000000000001500 leaf /src/leaf.go:51 (2ns)" labeltooltip="0000000000001100 main /src/main.go:11 -> 0000000000001500 leaf /src/leaf.go:51 (2ns)"]
N3 -> N6 [label=" 2ns" weight=67 penwidth=4 color="#b21400" tooltip="0000000000001500 leaf /src/leaf.go:51 -> 0000000000001700 leaf /src/leaf.go:52 (2ns)" labeltooltip="0000000000001500 leaf /src/leaf.go:51 -> 0000000000001700 leaf /src/leaf.go:52 (2ns)" minlen=2]
N6 -> N3 [label=" 2ns" weight=67 penwidth=4 color="#b21400" tooltip="0000000000001700 leaf /src/leaf.go:52 -> 0000000000001500 leaf /src/leaf.go:51 (2ns)" labeltooltip="0000000000001700 leaf /src/leaf.go:52 -> 0000000000001500 leaf /src/leaf.go:51 (2ns)"]
N2 -> N7 [label=" 2ns" weight=67 penwidth=4 color="#b21400" tooltip="0000000000001100 main /src/main.go:11 -> 0000000000001400 [prog] (2ns)" labeltooltip="0000000000001100 main /src/main.go:11 -> 0000000000001400 [prog] (2ns)"]
N4 -> N8 [label=" -5ns" weight=101 penwidth=6 color="#00b200" tooltip="0000000000001200 inner /src/inner.go:31 -> 0000000000001300 rec /src/rec.go:41 (-5ns)" labeltooltip="0000000000001200 inner /src/inner.go:31 -> 0000000000001300 rec /src/rec.go:41 (-5ns)"]
N8 -> N5 [label=" -5ns" weight=101 penwidth=6 color="#00b200" tooltip="0000000000001300 rec /src/rec.go:41 -> 0000000000001200 outer /src/outer.go:21 (-5ns)" labeltooltip="0000000000001300 rec /src/rec.go:41 -> 0000000000001200 outer /src/outer.go:21 (-5ns)"]
N2 -> N8 [label=" 1ns" weight=34 penwidth=2 color="#b23200" tooltip="0000000000001100 main /src/main.go:11 -> 0000000000001300 rec /src/rec.go:41 (1ns)" labeltooltip="0000000000001100 main /src/main.go:11 -> 0000000000001300 rec /src/rec.go:41 (1ns)"]
N8 -> N9 [label=" -1ns" weight=34 penwidth=2 color="#32b200" tooltip="0000000000001300 rec /src/rec.go:41 -> 0000000000001600 rec /src/rec.go:43 (-1ns)" labeltooltip="0000000000001300 rec /src/rec.go:41 -> 0000000000001600 rec /src/rec.go:43 (-1ns)"]
N1 -> N9 [label=" -1ns" weight=34 penwidth=2 color="#32b200" tooltip="0000000000001600 rec /src/rec.go:42 -> 0000000000001600 rec /src/rec.go:43 (-1ns)" labeltooltip="0000000000001600 rec /src/rec.go:42 -> 0000000000001600 rec /src/rec.go:43 (-1ns)"]
N2 -> N9 [label=" 2ns" weight=67 penwidth=4 color="#b21400" tooltip="0000000000001100 main /src/main.go:11 -> 0000000000001600 rec /src/rec.go:43 (2ns)" labeltooltip="0000000000001100 main /src/main.go:11 -> 0000000000001600 rec /src/rec.go:43 (2ns)"]
N9 -> N1 [label=" 0\n (inline)" color="#b2b2b2" tooltip="0000000000001600 rec /src/rec.go:43 -> 0000000000001600 rec /src/rec.go:42 (0)" labeltooltip="0000000000001600 rec /src/rec.go:43 -> 0000000000001600 rec /src/rec.go:42 (0)"]
}
--- callgrind call_tree=false Total()=3
positions: instr line
events: cpu(ns)

ob=(1) /bin/prog
fl=(1) /src/inner.go
fn=(1) inner
0x1200 31 2
cfl=(2) /src/outer.go
cfn=(2) outer
calls=0 0x1200 21
* * 2
cfl=(3) /src/leaf.go
cfn=(3) leaf
calls=0 0x1500 51
* * 2
cfl=(4) /src/rec.go
cfn=(4) rec
calls=0 0x1300 41
* * -5

ob=(1)
fl=(3)
fn=(3)
+768 51 2
cfl=(3)
cfn=(3)
calls=0 +1280 52
* * 2

ob=(1)
fl=(5) /src/main.go
fn=(5) main
-1024 11 19
cfl=(2)
cfn=(2)
calls=0 -768 21
* * 1
cfl=(3)
cfn=(3)
calls=0 * 51
* * 2
cfl=
cfn=
calls=0 -256 0
* * 2
cfl=(4)
cfn=(4)
calls=0 -512 41
* * 1
cfl=(4)
cfn=(4)
calls=0 +256 43
* * 2

ob=(1)
fl=(3)
fn=(3)
+1536 52 2
cfl=(3)
cfn=(3)
calls=0 +1024 51
* * 2

ob=(1)
fl=
fn=
-768 0 2

ob=(1)
fl=(4)
fn=(4)
-256 41 0
cfl=(2)
cfn=(2)
calls=0 -512 21
* * -5
cfl=(4)
cfn=(4)
calls=0 +512 43
* * -1
+768 42 0
cfl=(4)
cfn=(4)
calls=0 +768 43
* * -1

ob=(1)
fl=(2)
fn=(2)
-1024 21 0
cfl=(1)
cfn=(1)
calls=0 -1024 31
* * 2

ob=(1)
fl=(4)
fn=(4)
+1024 43 0
cfl=(4)
cfn=(4)
calls=0 +1024 42
* * 0
=== diff idx=0 mean=false computeTotal=23
--- text call_tree=false Total()=23
File: prog
Type: samples
Showing nodes accounting for 12, 52.17% of 23 total
      flat  flat%   sum%        cum   cum%
         8 34.78% 34.78%         12 52.17%  0000000000001200 inner /src/inner.go:31 (inline)
         5 21.74% 56.52%          4 17.39%  0000000000001500 leaf /src/leaf.go:51
        -1  4.35% 52.17%          4 17.39%  0000000000001100 main /src/main.go:11
         1  4.35% 56.52%          3 13.04%  0000000000001300 rec /src/rec.go:41
        -1  4.35% 52.17%         -1  4.35%  0000000000001400 [prog]
         1  4.35% 56.52%          1  4.35%  0000000000001600 rec /src/rec.go:42 (inline)
        -1  4.35% 52.17%         -1  4.35%  0000000000001700 leaf /src/leaf.go:52
         0     0% 52.17%         12 52.17%  0000000000001200 outer /src/outer.go:21
         0     0% 52.17%          1  4.35%  0000000000001600 rec /src/rec.go:43
--- tree call_tree=false Total()=23
File: prog
Type: samples
Showing nodes accounting for 12, 52.17% of 23 total
----------------------------------------------------------+-------------
      flat  flat%   sum%        cum   cum%   calls calls% + context 	 	 
----------------------------------------------------------+-------------
                                                12   100% |   0000000000001200 outer /src/outer.go:21 (inline)
         8 34.78% 34.78%         12 52.17%                | 0000000000001200 inner /src/inner.go:31
                                                 8 66.67% |   0000000000001200 outer /src/outer.go:21
                                                 5 41.67% |   0000000000001500 leaf /src/leaf.go:51
                                                -1  8.33% |   0000000000001300 rec /src/rec.go:41
----------------------------------------------------------+-------------
                                                 5 125.00% |   0000000000001200 inner /src/inner.go:31
                                                -1 25.00% |   0000000000001100 main /src/main.go:11
                                                -1 25.00% |   0000000000001700 leaf /src/leaf.go:52
         5 21.74% 56.52%          4 17.39%                | 0000000000001500 leaf /src/leaf.go:51
                                                -1 25.00% |   0000000000001700 leaf /src/leaf.go:52
----------------------------------------------------------+-------------
        -1  4.35% 52.17%          4 17.39%                | 0000000000001100 main /src/main.go:11
                                                 4   100% |   0000000000001200 outer /src/outer.go:21
                                                 4   100% |   0000000000001300 rec /src/rec.go:41
                                                -1 25.00% |   0000000000001400 [prog]
                                                -1 25.00% |   0000000000001500 leaf /src/leaf.go:51
                                                -1 25.00% |   0000000000001600 rec /src/rec.go:43
----------------------------------------------------------+-------------
                                                 4 133.33% |   0000000000001100 main /src/main.go:11
                                                -1 33.33% |   0000000000001200 inner /src/inner.go:31
         1  4.35% 56.52%          3 13.04%                | 0000000000001300 rec /src/rec.go:41
                                                 2 66.67% |   0000000000001600 rec /src/rec.go:43
                                                -1 33.33% |   0000000000001200 outer /src/outer.go:21
----------------------------------------------------------+-------------
                                                -1   100% |   0000000000001100 main /src/main.go:11
        -1  4.35% 52.17%         -1  4.35%                | 0000000000001400 [prog]
----------------------------------------------------------+-------------
                                                 1   100% |   0000000000001600 rec /src/rec.go:43 (inline)
         1  4.35% 56.52%          1  4.35%                | 0000000000001600 rec /src/rec.go:42
                                                 2 200.00% |   0000000000001600 rec /src/rec.go:43
----------------------------------------------------------+-------------
                                                -1   100% |   0000000000001500 leaf /src/leaf.go:51
        -1  4.35% 52.17%         -1  4.35%                | 0000000000001700 leaf /src/leaf.go:52
                                                -1   100% |   0000000000001500 leaf /src/leaf.go:51
----------------------------------------------------------+-------------
                                                 8 66.67% |   0000000000001200 inner /src/inner.go:31
                                                 4 33.33% |   0000000000001100 main /src/main.go:11
                                                -1  8.33% |   0000000000001300 rec /src/rec.go:41
         0     0% 52.17%         12 52.17%                | 0000000000001200 outer /src/outer.go:21
                                                12   100% |   0000000000001200 inner /src/inner.go:31 (inline)
----------------------------------------------------------+-------------
                                                 2 200.00% |   0000000000001300 rec /src/rec.go:41
                                                 2 200.00% |   0000000000001600 rec /src/rec.go:42
                                                -1   100% |   0000000000001100 main /src/main.go:11
         0     0% 52.17%          1  4.35%                | 0000000000001600 rec /src/rec.go:43
                                                 1   100% |   0000000000001600 rec /src/rec.go:42 (inline)
----------------------------------------------------------+-------------
--- tree call_tree=true Total()=23
File: prog
Type: samples
Showing nodes accounting for 12, 52.17% of 23 total
----------------------------------------------------------+-------------
      flat  flat%   sum%        cum   cum%   calls calls% + context 	 	 
----------------------------------------------------------+-------------
                                                12   100% |   0000000000001200 outer /src/outer.go:21 (inline)
         8 34.78% 34.78%         12 52.17%                | 0000000000001200 inner /src/inner.go:31
                                                 8 66.67% |   0000000000001200 outer /src/outer.go:21
                                                 5 41.67% |   0000000000001500 leaf /src/leaf.go:51
                                                -1  8.33% |   0000000000001300 rec /src/rec.go:41
----------------------------------------------------------+-------------
                                                 5 125.00% |   0000000000001200 inner /src/inner.go:31
                                                -1 25.00% |   0000000000001100 main /src/main.go:11
                                                -1 25.00% |   0000000000001700 leaf /src/leaf.go:52
         5 21.74% 56.52%          4 17.39%                | 0000000000001500 leaf /src/leaf.go:51
                                                -1 25.00% |   0000000000001700 leaf /src/leaf.go:52
----------------------------------------------------------+-------------
        -1  4.35% 52.17%          4 17.39%                | 0000000000001100 main /src/main.go:11
                                                 4   100% |   0000000000001200 outer /src/outer.go:21
                                                 4   100% |   0000000000001300 rec /src/rec.go:41
                                                -1 25.00% |   0000000000001400 [prog]
                                                -1 25.00% |   0000000000001500 leaf /src/leaf.go:51
                                                -1 25.00% |   0000000000001600 rec /src/rec.go:43
----------------------------------------------------------+-------------
                                                 4 133.33% |   0000000000001100 main /src/main.go:11
                                                -1 33.33% |   0000000000001200 inner /src/inner.go:31
         1  4.35% 56.52%          3 13.04%                | 0000000000001300 rec /src/rec.go:41
                                                 2 66.67% |   0000000000001600 rec /src/rec.go:43
                                                -1 33.33% |   0000000000001200 outer /src/outer.go:21
----------------------------------------------------------+-------------
                                                -1   100% |   0000000000001100 main /src/main.go:11
        -1  4.35% 52.17%         -1  4.35%                | 0000000000001400 [prog]
----------------------------------------------------------+-------------
                                                 1   100% |   0000000000001600 rec /src/rec.go:43 (inline)
         1  4.35% 56.52%          1  4.35%                | 0000000000001600 rec /src/rec.go:42
                                                 2 200.00% |   0000000000001600 rec /src/rec.go:43
----------------------------------------------------------+-------------
                                                -1   100% |   0000000000001500 leaf /src/leaf.go:51
        -1  4.35% 52.17%         -1  4.35%                | 0000000000001700 leaf /src/leaf.go:52
                                                -1   100% |   0000000000001500 leaf /src/leaf.go:51
----------------------------------------------------------+-------------
                                                 8 66.67% |   0000000000001200 inner /src/inner.go:31
                                                 4 33.33% |   0000000000001100 main /src/main.go:11
                                                -1  8.33% |   0000000000001300 rec /src/rec.go:41
         0     0% 52.17%         12 52.17%                | 0000000000001200 outer /src/outer.go:21
                                                12   100% |   0000000000001200 inner /src/inner.go:31 (inline)
----------------------------------------------------------+-------------
                                                 2 200.00% |   0000000000001300 rec /src/rec.go:41
                                                 2 200.00% |   0000000000001600 rec /src/rec.go:42
                                                -1   100% |   0000000000001100 main /src/main.go:11
         0     0% 52.17%          1  4.35%                | 0000000000001600 rec /src/rec.go:43
                                                 1   100% |   0000000000001600 rec /src/rec.go:42 (inline)
----------------------------------------------------------+-------------
--- traces call_tree=false Total()=23
File: prog
Type: samples
-----------+-------------------------------------------------------
         3   0000000000001500 leaf /src/leaf.go:51
             0000000000001200 inner /src/inner.go:31 (inline)
             0000000000001200 outer /src/outer.go:21
             0000000000001100 main /src/main.go:11
-----------+-------------------------------------------------------
         2   0000000000001300 rec /src/rec.go:41
             0000000000001300 rec /src/rec.go:41
             0000000000001300 rec /src/rec.go:41
             0000000000001100 main /src/main.go:11
-----------+-------------------------------------------------------
         1   0000000000001300 rec /src/rec.go:41
             0000000000001200 inner /src/inner.go:31 (inline)
             0000000000001200 outer /src/outer.go:21
             0000000000001300 rec /src/rec.go:41
             0000000000001200 inner /src/inner.go:31 (inline)
             0000000000001200 outer /src/outer.go:21
             0000000000001100 main /src/main.go:11
-----------+-------------------------------------------------------
         5   0000000000001400 [prog]
             0000000000001100 main /src/main.go:11
-----------+-------------------------------------------------------
         k:  v1 v2
     bytes:  64
         6   0000000000001500 leaf /src/leaf.go:51
             0000000000001200 inner /src/inner.go:31 (inline)
             0000000000001200 outer /src/outer.go:21
             0000000000001100 main /src/main.go:11
-----------+-------------------------------------------------------
         1   0000000000001600 rec /src/rec.go:42 (inline)
             0000000000001600 rec /src/rec.go:43
             0000000000001100 main /src/main.go:11
-----------+-------------------------------------------------------
         2   0000000000001600 rec /src/rec.go:42 (inline)
             0000000000001600 rec /src/rec.go:43
             0000000000001600 rec /src/rec.go:42 (inline)
             0000000000001600 rec /src/rec.go:43
             0000000000001300 rec /src/rec.go:41
             0000000000001100 main /src/main.go:11
-----------+-------------------------------------------------------
         7   0000000000001700 leaf /src/leaf.go:52
             0000000000001500 leaf /src/leaf.go:51
             0000000000001700 leaf /src/leaf.go:52
             0000000000001500 leaf /src/leaf.go:51
             0000000000001100 main /src/main.go:11
-----------+-------------------------------------------------------
         0   0000000000001500 leaf /src/leaf.go:51
             0000000000001100 main /src/main.go:11
-----------+-------------------------------------------------------
         0   0000000000001100 main /src/main.go:11
             0000000000001100 main /src/main.go:11
-----------+-------------------------------------------------------
         8   0000000000001200 inner /src/inner.go:31 (inline)
             0000000000001200 outer /src/outer.go:21
             0000000000001200 inner /src/inner.go:31 (inline)
             0000000000001200 outer /src/outer.go:21
-----------+-------------------------------------------------------
pprof::base:  true
        -4   0000000000001500 leaf /src/leaf.go:51
             0000000000001200 inner /src/inner.go:31 (inline)
             0000000000001200 outer /src/outer.go:21
             0000000000001100 main /src/main.go:11
-----------+-------------------------------------------------------
pprof::base:  true
        -2   0000000000001300 rec /src/rec.go:41
             0000000000001200 inner /src/inner.go:31 (inline)
             0000000000001200 outer /src/outer.go:21
             0000000000001300 rec /src/rec.go:41
             0000000000001200 inner /src/inner.go:31 (inline)
             0000000000001200 outer /src/outer.go:21
             0000000000001100 main /src/main.go:11
-----------+-------------------------------------------------------
pprof::base:  true
        -6   0000000000001400 [prog]
             0000000000001100 main /src/main.go:11
-----------+-------------------------------------------------------
pprof::base:  true
        -2   0000000000001600 rec /src/rec.go:42 (inline)
             0000000000001600 rec /src/rec.go:43
             0000000000001100 main /src/main.go:11
-----------+-------------------------------------------------------
pprof::base:  true
        -8   0000000000001700 leaf /src/leaf.go:52
             0000000000001500 leaf /src/leaf.go:51
             0000000000001700 leaf /src/leaf.go:52
             0000000000001500 leaf /src/leaf.go:51
             0000000000001100 main /src/main.go:11
-----------+-------------------------------------------------------
pprof::base:  true
        -1   0000000000001100 main /src/main.go:11
             0000000000001100 main /src/main.go:11
-----------+-------------------------------------------------------
--- dot call_tree=false Total()=23
digraph "zz" {
node [style=filled fillcolor="#f8f8f8"]
subgraph cluster_L { "File: prog" [shape=box fontsize=16 label="File: prog\lType: samples\lShowing nodes accounting for 12, 52.17% of 23 total\l\lSee https://git.io/JfYMW for how to read the graph\l" tooltip="zz"] }
N1 [label="0000000000001700\nleaf\nleaf.go:52\n-1 (4.35%)" id="node1" fontsize=14 shape=box tooltip="0000000000001700 leaf /src/leaf.go:52 (-1)" color="#a3b28b" fillcolor="#ebede7"]
N2 [label="0000000000001200\ninner\ninner.go:31\n8 (34.78%)\nof 12 (52.17%)" id="node2" fontsize=24 shape=box tooltip="0000000000001200 inner /src/inner.go:31 (12)" color="#b21f00" fillcolor="#edd9d5"]
N3 [label="0000000000001200\nouter\nouter.go:21\n0 of 12 (52.17%)" id="node3" fontsize=8 shape=box tooltip="0000000000001200 outer /src/outer.go:21 (12)" color="#b21f00" fillcolor="#edd9d5"]
N4 [label="0000000000001100\nmain\nmain.go:11\n-1 (4.35%)\nof 4 (17.39%)" id="node4" fontsize=14 shape=box tooltip="0000000000001100 main /src/main.go:11 (4)" color="#b25617" fillcolor="#ede0d8"]
N5 [label="0000000000001500\nleaf\nleaf.go:51\n5 (21.74%)\nof 4 (17.39%)" id="node5" fontsize=21 shape=box tooltip="0000000000001500 leaf /src/leaf.go:51 (4)" color="#b25617" fillcolor="#ede0d8"]
N5_0 [label = "k:v1\nk:v2" id="N5_0" fontsize=8 shape=box3d tooltip="6"]
N5 -> N5_0 [label=" 6" weight=100 tooltip="6" labeltooltip="6"]
NN5_0_0 [label = "64" id="NN5_0_0" fontsize=8 shape=box3d tooltip="6"]
N5_0 -> NN5_0_0 [label=" 6" weight=100 tooltip="6" labeltooltip="6"]
N6 [label="0000000000001300\nrec\nrec.go:41\n1 (4.35%)\nof 3 (13.04%)" id="node6" fontsize=14 shape=box tooltip="0000000000001300 rec /src/rec.go:41 (3)" color="#b2733e" fillcolor="#ede4dd"]
N7 [label="0000000000001400\n[prog]\n-1 (4.35%)" id="node7" fontsize=14 shape=box tooltip="0000000000001400 [prog] (-1)" color="#a3b28b" fillcolor="#ebede7"]
N8 [label="0000000000001600\nrec\nrec.go:42\n1 (4.35%)" id="node8" fontsize=14 shape=box tooltip="0000000000001600 rec /src/rec.go:42 (1)" color="#b2a38b" fillcolor="#edebe7"]
N9 [label="0000000000001600\nrec\nrec.go:43\n0 of 1 (4.35%)" id="node9" fontsize=8 shape=box tooltip="0000000000001600 rec /src/rec.go:43 (1)" color="#b2a38b" fillcolor="#edebe7"]
N3 -> N2 [label=" 12\n (inline)" weight=53 penwidth=3 color="#b21f00" tooltip="0000000000001200 outer /src/outer.go:21 -> 0000000000001200 inner /src/inner.go:31 (12)" labeltooltip="0000000000001200 outer /src/outer.go:21 -> 0000000000001200 inner /src/inner.go:31 (12)"]
N2 -> N3 [label=" 8" weight=35 penwidth=2 color="#b23000" tooltip="0000000000001200 inner /src/inner.go:31 -> 0000000000001200 outer /src/outer.go:21 (8)" labeltooltip="0000000000001200 inner /src/inner.go:31 -> 0000000000001200 outer /src/outer.go:21 (8)"]
N2 -> N5 [label=" 5" weight=22 penwidth=2 color="#b24100" tooltip="0000000000001200 inner /src/inner.go:31 -> 0000000000001500 leaf /src/leaf.go:51 (5)" labeltooltip="0000000000001200 inner /src/inner.go:31 -> 0000000000001500 leaf /src/leaf.go:51 (5)"]
N4 -> N3 [label=" 4" weight=18 color="#b25617" tooltip="0000000000001100 main /src/main.go:11 -> 0000000000001200 outer /src/outer.go:21 (4)" labeltooltip="0000000000001100 main /src/main.go:11 -> 0000000000001200 outer /src/outer.go:21 (4)"]
N4 -> N6 [label=" 4" weight=18 color="#b25617" tooltip="0000000000001100 main /src/main.go:11 -> 0000000000001300 rec /src/rec.go:41 (4)" labeltooltip="0000000000001100 main /src/main.go:11 -> 0000000000001300 rec /src/rec.go:41 (4)"]
N6 -> N9 [label=" 2" weight=9 color="#b28d64" tooltip="0000000000001300 rec /src/rec.go:41 -> 0000000000001600 rec /src/rec.go:43 (2)" labeltooltip="0000000000001300 rec /src/rec.go:41 -> 0000000000001600 rec /src/rec.go:43 (2)"]
N8 -> N9 [label=" 2" weight=9 color="#b28d64" tooltip="0000000000001600 rec /src/rec.go:42 -> 0000000000001600 rec /src/rec.go:43 (2)" labeltooltip="0000000000001600 rec /src/rec.go:42 -> 0000000000001600 rec /src/rec.go:43 (2)"]
N4 -> N7 [label=" -1" weight=5 color="#a3b28b" tooltip="0000000000001100 main /src/main.go:11 -> 0000000000001400 [prog] (-1)" labeltooltip="0000000000001100 main /src/main.go:11 -> 0000000000001400 [prog] (-1)"]
N4 -> N5 [label=" -1" weight=5 color="#a3b28b" tooltip="0000000000001100 main /src/main.go:11 -> 0000000000001500 leaf /src/leaf.go:51 (-1)" labeltooltip="0000000000001100 main /src/main.go:11 -> 0000000000001500 leaf /src/leaf.go:51 (-1)"]
N4 -> N9 [label=" -1" weight=5 color="#a3b28b" tooltip="0000000000001100 main /src/main.go:11 -> 0000000000001600 rec /src/rec.go:43 (-1)" labeltooltip="0000000000001100 main /src/main.go:11 -> 0000000000001600 rec /src/rec.go:43 (-1)"]
N2 -> N6 [label=" -1" weight=5 color="#a3b28b" tooltip="0000000000001200 inner /src/inner.go:31 -> 0000000000001300 rec /src/rec.go:41 (-1)" labeltooltip="0000000000001200 inner /src/inner.go:31 -> 0000000000001300 rec /src/rec.go:41 (-1)"]
N6 -> N3 [label=" -1" weight=5 color="#a3b28b" tooltip="0000000000001300 rec /src/rec.go:41 -> 0000000000001200 outer /src/outer.go:21 (-1)" labeltooltip="0000000000001300 rec /src/rec.go:41 -> 0000000000001200 outer /src/outer.go:21 (-1)"]
N5 -> N1 [label=" -1" weight=5 color="#a3b28b" tooltip="0000000000001500 leaf /src/leaf.go:51 -> 0000000000001700 leaf /src/leaf.go:52 (-1)" labeltooltip="0000000000001500 leaf /src/leaf.go:51 -> 0000000000001700 leaf /src/leaf.go:52 (-1)" minlen=2]
N9 -> N8 [label=" 1\n (inline)" weight=5 color="#b2a38b" tooltip="0000000000001600 rec /src/rec.go:43 -> 0000000000001600 rec /src/rec.go:42 (1)" labeltooltip="0000000000001600 rec /src/rec.go:43 -> 0000000000001600 rec /src/rec.go:42 (1)"]
N1 -> N5 [label=" -1" weight=5 color="#a3b28b" tooltip="0000000000001700 leaf /src/leaf.go:52 -> 0000000000001500 leaf /src/leaf.go:51 (-1)" labeltooltip="0000000000001700 leaf /src/leaf.go:52 -> 0000000000001500 leaf /src/leaf.go:51 (-1)"]
}
--- callgrind call_tree=false Total()=23
positions: instr line
events: samples(count)

ob=(1) /bin/prog
fl=(1) /src/inner.go
fn=(1) inner
0x1200 31 8
cfl=(2) /src/outer.go
cfn=(2) outer
calls=0 0x1200 21
* * 8
cfl=(3) /src/leaf.go
cfn=(3) leaf
calls=0 0x1500 51
* * 5
cfl=(4) /src/rec.go
cfn=(4) rec
calls=0 0x1300 41
* * -1

ob=(1)
fl=(3)
fn=(3)
+768 51 5
cfl=(3)
cfn=(3)
calls=0 +1280 52
* * -1

ob=(1)
fl=(5) /src/main.go
fn=(5) main
-1024 11 -1
cfl=(2)
cfn=(2)
calls=0 -768 21
* * 4
cfl=(4)
cfn=(4)
calls=0 -512 41
* * 4
cfl=
cfn=
calls=0 -256 0
* * -1
cfl=(3)
cfn=(3)
calls=0 * 51
* * -1
cfl=(4)
cfn=(4)
calls=0 +256 43
* * -1

ob=(1)
fl=(4)
fn=(4)
+512 41 1
cfl=(4)
cfn=(4)
calls=0 +1280 43
* * 2
cfl=(2)
cfn=(2)
calls=0 +256 21
* * -1

ob=(1)
fl=
fn=
+256 0 -1

ob=(1)
fl=(4)
fn=(4)
+512 42 1
cfl=(4)
cfn=(4)
calls=0 +512 43
* * 2

ob=(1)
fl=(3)
fn=(3)
+256 52 -1
cfl=(3)
cfn=(3)
calls=0 -256 51
* * -1

ob=(1)
fl=(2)
fn=(2)
-1280 21 0
cfl=(1)
cfn=(1)
calls=0 -1280 31
* * 12

ob=(1)
fl=(4)
fn=(4)
+1024 43 0
cfl=(4)
cfn=(4)
calls=0 +1024 42
* * 1
=== diff idx=0 mean=true computeTotal=-1
--- text call_tree=false Total()=-1
File: prog
Type: samples
Showing nodes accounting for 7, 700.00% of -1 total
      flat  flat%   sum%        cum   cum%
         1   100%   100%          1   100%  0000000000001200 inner /src/inner.go:31 (inline)
         1   100% 200.00%          1   100%  0000000000001500 leaf /src/leaf.go:51
         1   100% 300.00%          1   100%  0000000000001100 main /src/main.go:11
         1   100% 400.00%          1   100%  0000000000001300 rec /src/rec.go:41
         1   100% 500.00%          1   100%  0000000000001400 [prog]
         1   100% 600.00%          1   100%  0000000000001600 rec /src/rec.go:42 (inline)
         1   100% 700.00%          1   100%  0000000000001700 leaf /src/leaf.go:52
         0     0% 700.00%          1   100%  0000000000001200 outer /src/outer.go:21
         0     0% 700.00%          1   100%  0000000000001600 rec /src/rec.go:43
--- tree call_tree=false Total()=-1
File: prog
Type: samples
Showing nodes accounting for 7, 700.00% of -1 total
----------------------------------------------------------+-------------
      flat  flat%   sum%        cum   cum%   calls calls% + context 	 	 
----------------------------------------------------------+-------------
                                                 1   100% |   0000000000001200 outer /src/outer.go:21 (inline)
         1   100%   100%          1   100%                | 0000000000001200 inner /src/inner.go:31
                                                 1   100% |   0000000000001200 outer /src/outer.go:21
                                                 1   100% |   0000000000001500 leaf /src/leaf.go:51
                                                 1   100% |   0000000000001300 rec /src/rec.go:41
----------------------------------------------------------+-------------
                                                 1   100% |   0000000000001200 inner /src/inner.go:31
                                                 1   100% |   0000000000001100 main /src/main.go:11
                                                 1   100% |   0000000000001700 leaf /src/leaf.go:52
         1   100% 200.00%          1   100%                | 0000000000001500 leaf /src/leaf.go:51
                                                 1   100% |   0000000000001700 leaf /src/leaf.go:52
----------------------------------------------------------+-------------
         1   100% 300.00%          1   100%                | 0000000000001100 main /src/main.go:11
                                                 1   100% |   0000000000001200 outer /src/outer.go:21
                                                 1   100% |   0000000000001300 rec /src/rec.go:41
                                                 1   100% |   0000000000001400 [prog]
                                                 1   100% |   0000000000001500 leaf /src/leaf.go:51
                                                 1   100% |   0000000000001600 rec /src/rec.go:43
----------------------------------------------------------+-------------
                                                 1   100% |   0000000000001100 main /src/main.go:11
                                                 1   100% |   0000000000001200 inner /src/inner.go:31
         1   100% 400.00%          1   100%                | 0000000000001300 rec /src/rec.go:41
                                                 1   100% |   0000000000001600 rec /src/rec.go:43
                                                 1   100% |   0000000000001200 outer /src/outer.go:21
----------------------------------------------------------+-------------
                                                 1   100% |   0000000000001100 main /src/main.go:11
         1   100% 500.00%          1   100%                | 0000000000001400 [prog]
----------------------------------------------------------+-------------
                                                 1   100% |   0000000000001600 rec /src/rec.go:43 (inline)
         1   100% 600.00%          1   100%                | 0000000000001600 rec /src/rec.go:42
                                                 1   100% |   0000000000001600 rec /src/rec.go:43
----------------------------------------------------------+-------------
                                                 1   100% |   0000000000001500 leaf /src/leaf.go:51
         1   100% 700.00%          1   100%                | 0000000000001700 leaf /src/leaf.go:52
                                                 1   100% |   0000000000001500 leaf /src/leaf.go:51
----------------------------------------------------------+-------------
                                                 1   100% |   0000000000001200 inner /src/inner.go:31
                                                 1   100% |   0000000000001100 main /src/main.go:11
                                                 1   100% |   0000000000001300 rec /src/rec.go:41
         0     0% 700.00%          1   100%                | 0000000000001200 outer /src/outer.go:21
                                                 1   100% |   0000000000001200 inner /src/inner.go:31 (inline)
----------------------------------------------------------+-------------
                                                 1   100% |   0000000000001300 rec /src/rec.go:41
                                                 1   100% |   0000000000001600 rec /src/rec.go:42
                                                 1   100% |   0000000000001100 main /src/main.go:11
         0     0% 700.00%          1   100%                | 0000000000001600 rec /src/rec.go:43
                                                 1   100% |   0000000000001600 rec /src/rec.go:42 (inline)
----------------------------------------------------------+-------------
--- tree call_tree=true Total()=-1
File: prog
Type: samples
Showing nodes accounting for 7, 700.00% of -1 total
----------------------------------------------------------+-------------
      flat  flat%   sum%        cum   cum%   calls calls% + context 	 	 
----------------------------------------------------------+-------------
                                                 1   100% |   0000000000001200 outer /src/outer.go:21 (inline)
         1   100%   100%          1   100%                | 0000000000001200 inner /src/inner.go:31
                                                 1   100% |   0000000000001200 outer /src/outer.go:21
                                                 1   100% |   0000000000001500 leaf /src/leaf.go:51
                                                 1   100% |   0000000000001300 rec /src/rec.go:41
----------------------------------------------------------+-------------
                                                 1   100% |   0000000000001200 inner /src/inner.go:31
                                                 1   100% |   0000000000001100 main /src/main.go:11
                                                 1   100% |   0000000000001700 leaf /src/leaf.go:52
         1   100% 200.00%          1   100%                | 0000000000001500 leaf /src/leaf.go:51
                                                 1   100% |   0000000000001700 leaf /src/leaf.go:52
----------------------------------------------------------+-------------
         1   100% 300.00%          1   100%                | 0000000000001100 main /src/main.go:11
                                                 1   100% |   0000000000001200 outer /src/outer.go:21
                                                 1   100% |   0000000000001300 rec /src/rec.go:41
                                                 1   100% |   0000000000001400 [prog]
                                                 1   100% |   0000000000001500 leaf /src/leaf.go:51
                                                 1   100% |   0000000000001600 rec /src/rec.go:43
----------------------------------------------------------+-------------
                                                 1   100% |   0000000000001100 main /src/main.go:11
                                                 1   100% |   0000000000001200 inner /src/inner.go:31
         1   100% 400.00%          1   100%                | 0000000000001300 rec /src/rec.go:41
                                                 1   100% |   0000000000001600 rec /src/rec.go:43
                                                 1   100% |   0000000000001200 outer /src/outer.go:21
----------------------------------------------------------+-------------
                                                 1   100% |   0000000000001100 main /src/main.go:11
         1   100% 500.00%          1   100%                | 0000000000001400 [prog]
----------------------------------------------------------+-------------
                                                 1   100% |   0000000000001600 rec /src/rec.go:43 (inline)
         1   100% 600.00%          1   100%                | 0000000000001600 rec /src/rec.go:42
                                                 1   100% |   0000000000001600 rec /src/rec.go:43
----------------------------------------------------------+-------------
                                                 1   100% |   0000000000001500 leaf /src/leaf.go:51
         1   100% 700.00%          1   100%                | 0000000000001700 leaf /src/leaf.go:52
                                                 1   100% |   0000000000001500 leaf /src/leaf.go:51
----------------------------------------------------------+-------------
                                                 1   100% |   0000000000001200 inner /src/inner.go:31
                                                 1   100% |   0000000000001100 main /src/main.go:11
                                                 1   100% |   0000000000001300 rec /src/rec.go:41
         0     0% 700.00%          1   100%                | 0000000000001200 outer /src/outer.go:21
                                                 1   100% |   0000000000001200 inner /src/inner.go:31 (inline)
----------------------------------------------------------+-------------
                                                 1   100% |   0000000000001300 rec /src/rec.go:41
                                                 1   100% |   0000000000001600 rec /src/rec.go:42
                                                 1   100% |   0000000000001100 main /src/main.go:11
         0     0% 700.00%          1   100%                | 0000000000001600 rec /src/rec.go:43
                                                 1   100% |   0000000000001600 rec /src/rec.go:42 (inline)
----------------------------------------------------------+-------------
--- traces call_tree=false Total()=-1
File: prog
Type: samples
-----------+-------------------------------------------------------
         1   0000000000001500 leaf /src/leaf.go:51
             0000000000001200 inner /src/inner.go:31 (inline)
             0000000000001200 outer /src/outer.go:21
             0000000000001100 main /src/main.go:11
-----------+-------------------------------------------------------
         1   0000000000001300 rec /src/rec.go:41
             0000000000001300 rec /src/rec.go:41
             0000000000001300 rec /src/rec.go:41
             0000000000001100 main /src/main.go:11
-----------+-------------------------------------------------------
         1   0000000000001300 rec /src/rec.go:41
             0000000000001200 inner /src/inner.go:31 (inline)
             0000000000001200 outer /src/outer.go:21
             0000000000001300 rec /src/rec.go:41
             0000000000001200 inner /src/inner.go:31 (inline)
             0000000000001200 outer /src/outer.go:21
             0000000000001100 main /src/main.go:11
-----------+-------------------------------------------------------
         1   0000000000001400 [prog]
             0000000000001100 main /src/main.go:11
-----------+-------------------------------------------------------
         k:  v1 v2
     bytes:  64
         1   0000000000001500 leaf /src/leaf.go:51
             0000000000001200 inner /src/inner.go:31 (inline)
             0000000000001200 outer /src/outer.go:21
             0000000000001100 main /src/main.go:11
-----------+-------------------------------------------------------
         1   0000000000001600 rec /src/rec.go:42 (inline)
             0000000000001600 rec /src/rec.go:43
             0000000000001100 main /src/main.go:11
-----------+-------------------------------------------------------
         1   0000000000001600 rec /src/rec.go:42 (inline)
             0000000000001600 rec /src/rec.go:43
             0000000000001600 rec /src/rec.go:42 (inline)
             0000000000001600 rec /src/rec.go:43
             0000000000001300 rec /src/rec.go:41
             0000000000001100 main /src/main.go:11
-----------+-------------------------------------------------------
         1   0000000000001700 leaf /src/leaf.go:52
             0000000000001500 leaf /src/leaf.go:51
             0000000000001700 leaf /src/leaf.go:52
             0000000000001500 leaf /src/leaf.go:51
             0000000000001100 main /src/main.go:11
-----------+-------------------------------------------------------
         0   0000000000001500 leaf /src/leaf.go:51
             0000000000001100 main /src/main.go:11
-----------+-------------------------------------------------------
         0   0000000000001100 main /src/main.go:11
             0000000000001100 main /src/main.go:11
-----------+-------------------------------------------------------
         1   0000000000001200 inner /src/inner.go:31 (inline)
             0000000000001200 outer /src/outer.go:21
             0000000000001200 inner /src/inner.go:31 (inline)
             0000000000001200 outer /src/outer.go:21
-----------+-------------------------------------------------------
pprof::base:  true
         1   0000000000001500 leaf /src/leaf.go:51
             0000000000001200 inner /src/inner.go:31 (inline)
             0000000000001200 outer /src/outer.go:21
             0000000000001100 main /src/main.go:11
-----------+-------------------------------------------------------
pprof::base:  true
         1   0000000000001300 rec /src/rec.go:41
             0000000000001200 inner /src/inner.go:31 (inline)
             0000000000001200 outer /src/outer.go:21
             0000000000001300 rec /src/rec.go:41
             0000000000001200 inner /src/inner.go:31 (inline)
             0000000000001200 outer /src/outer.go:21
             0000000000001100 main /src/main.go:11
-----------+-------------------------------------------------------
pprof::base:  true
         1   0000000000001400 [prog]
             0000000000001100 main /src/main.go:11
-----------+-------------------------------------------------------
pprof::base:  true
         1   0000000000001600 rec /src/rec.go:42 (inline)
             0000000000001600 rec /src/rec.go:43
             0000000000001100 main /src/main.go:11
-----------+-------------------------------------------------------
pprof::base:  true
         1   0000000000001700 leaf /src/leaf.go:52
             0000000000001500 leaf /src/leaf.go:51
             0000000000001700 leaf /src/leaf.go:52
             0000000000001500 leaf /src/leaf.go:51
             0000000000001100 main /src/main.go:11
-----------+-------------------------------------------------------
pprof::base:  true
         1   0000000000001100 main /src/main.go:11
             0000000000001100 main /src/main.go:11
-----------+-------------------------------------------------------
--- dot call_tree=false Total()=-1
digraph "zz" {
node [style=filled fillcolor="#f8f8f8"]
subgraph cluster_L { "File: prog" [shape=box fontsize=16 label="File: prog\lType: samples\lShowing nodes accounting for 7, 700.00% of -1 total\l\lSee https://git.io/JfYMW for how to read the graph\l" tooltip="zz"] }
N1 [label="0000000000001700\nleaf\nleaf.go:52\n1 (100%)" id="node1" fontsize=24 shape=box tooltip="0000000000001700 leaf /src/leaf.go:52 (1)" color="#b20000" fillcolor="#edd5d5"]
N2 [label="0000000000001200\ninner\ninner.go:31\n1 (100%)" id="node2" fontsize=24 shape=box tooltip="0000000000001200 inner /src/inner.go:31 (1)" color="#b20000" fillcolor="#edd5d5"]
N3 [label="0000000000001200\nouter\nouter.go:21\n0 of 1 (100%)" id="node3" fontsize=8 shape=box tooltip="0000000000001200 outer /src/outer.go:21 (1)" color="#b20000" fillcolor="#edd5d5"]
N4 [label="0000000000001100\nmain\nmain.go:11\n1 (100%)" id="node4" fontsize=24 shape=box tooltip="0000000000001100 main /src/main.go:11 (1)" color="#b20000" fillcolor="#edd5d5"]
N5 [label="0000000000001500\nleaf\nleaf.go:51\n1 (100%)" id="node5" fontsize=24 shape=box tooltip="0000000000001500 leaf /src/leaf.go:51 (1)" color="#b20000" fillcolor="#edd5d5"]
N5_0 [label = "k:v1\nk:v2" id="N5_0" fontsize=8 shape=box3d tooltip="1"]
N5 -> N5_0 [label=" 1" weight=100 tooltip="1" labeltooltip="1"]
NN5_0_0 [label = "64" id="NN5_0_0" fontsize=8 shape=box3d tooltip="1"]
N5_0 -> NN5_0_0 [label=" 1" weight=100 tooltip="1" labeltooltip="1"]
N6 [label="0000000000001300\nrec\nrec.go:41\n1 (100%)" id="node6" fontsize=24 shape=box tooltip="0000000000001300 rec /src/rec.go:41 (1)" color="#b20000" fillcolor="#edd5d5"]
N7 [label="0000000000001400\n[prog]\n1 (100%)" id="node7" fontsize=24 shape=box tooltip="0000000000001400 [prog] (1)" color="#b20000" fillcolor="#edd5d5"]
N8 [label="0000000000001600\nrec\nrec.go:42\n1 (100%)" id="node8" fontsize=24 shape=box tooltip="0000000000001600 rec /src/rec.go:42 (1)" color="#b20000" fillcolor="#edd5d5"]
N9 [label="0000000000001600\nrec\nrec.go:43\n0 of 1 (100%)" id="node9" fontsize=8 shape=box tooltip="0000000000001600 rec /src/rec.go:43 (1)" color="#b20000" fillcolor="#edd5d5"]
N3 -> N2 [label=" 1\n (inline)" weight=101 penwidth=6 color="#b20000" tooltip="0000000000001200 outer /src/outer.go:21 -> 0000000000001200 inner /src/inner.go:31 (1)" labeltooltip="0000000000001200 outer /src/outer.go:21 -> 0000000000001200 inner /src/inner.go:31 (1)"]
N2 -> N3 [label=" 1" weight=101 penwidth=6 color="#b20000" tooltip="0000000000001200 inner /src/inner.go:31 -> 0000000000001200 outer /src/outer.go:21 (1)" labeltooltip="0000000000001200 inner /src/inner.go:31 -> 0000000000001200 outer /src/outer.go:21 (1)"]
N2 -> N5 [label=" 1" weight=101 penwidth=6 color="#b20000" tooltip="0000000000001200 inner /src/inner.go:31 -> 0000000000001500 leaf /src/leaf.go:51 (1)" labeltooltip="0000000000001200 inner /src/inner.go:31 -> 0000000000001500 leaf /src/leaf.go:51 (1)"]
N4 -> N3 [label=" 1" weight=101 penwidth=6 color="#b20000" tooltip="0000000000001100 main /src/main.go:11 -> 0000000000001200 outer /src/outer.go:21 (1)" labeltooltip="0000000000001100 main /src/main.go:11 -> 0000000000001200 outer /src/outer.go:21 (1)"]
N4 -> N6 [label=" 1" weight=101 penwidth=6 color="#b20000" tooltip="0000000000001100 main /src/main.go:11 -> 0000000000001300 rec /src/rec.go:41 (1)" labeltooltip="0000000000001100 main /src/main.go:11 -> 0000000000001300 rec /src/rec.go:41 (1)"]
N6 -> N9 [label=" 1" weight=101 penwidth=6 color="#b20000" tooltip="0000000000001300 rec /src/rec.go:41 -> 0000000000001600 rec /src/rec.go:43 (1)" labeltooltip="0000000000001300 rec /src/rec.go:41 -> 0000000000001600 rec /src/rec.go:43 (1)"]
N8 -> N9 [label=" 1" weight=101 penwidth=6 color="#b20000" tooltip="0000000000001600 rec /src/rec.go:42 -> 0000000000001600 rec /src/rec.go:43 (1)" labeltooltip="0000000000001600 rec /src/rec.go:42 -> 0000000000001600 rec /src/rec.go:43 (1)"]
N4 -> N7 [label=" 1" weight=101 penwidth=6 color="#b20000" tooltip="0000000000001100 main /src/main.go:11 -> 0000000000001400 [prog] (1)" labeltooltip="0000000000001100 main /src/main.go:11 -> 0000000000001400 [prog] (1)"]
N4 -> N5 [label=" 1" weight=101 penwidth=6 color="#b20000" tooltip="0000000000001100 main /src/main.go:11 -> 0000000000001500 leaf /src/leaf.go:51 (1)" labeltooltip="0000000000001100 main /src/main.go:11 -> 0000000000001500 leaf /src/leaf.go:51 (1)"]
N4 -> N9 [label=" 1" weight=101 penwidth=6 color="#b20000" tooltip="0000000000001100 main /src/main.go:11 -> 0000000000001600 rec /src/rec.go:43 (1)" labeltooltip="0000000000001100 main /src/main.go:11 -> 0000000000001600 rec /src/rec.go:43 (1)"]
N2 -> N6 [label=" 1" weight=101 penwidth=6 color="#b20000" tooltip="0000000000001200 inner /src/inner.go:31 -> 0000000000001300 rec /src/rec.go:41 (1)" labeltooltip="0000000000001200 inner /src/inner.go:31 -> 0000000000001300 rec /src/rec.go:41 (1)"]
N6 -> N3 [label=" 1" weight=101 penwidth=6 color="#b20000" tooltip="0000000000001300 rec /src/rec.go:41 -> 0000000000001200 outer /src/outer.go:21 (1)" labeltooltip="0000000000001300 rec /src/rec.go:41 -> 0000000000001200 outer /src/outer.go:21 (1)"]
N5 -> N1 [label=" 1" weight=101 penwidth=6 color="#b20000" tooltip="0000000000001500 leaf /src/leaf.go:51 -> 0000000000001700 leaf /src/leaf.go:52 (1)" labeltooltip="0000000000001500 leaf /src/leaf.go:51 -> 0000000000001700 leaf /src/leaf.go:52 (1)" minlen=2]
N9 -> N8 [label=" 1\n (inline)" weight=101 penwidth=6 color="#b20000" tooltip="0000000000001600 rec /src/rec.go:43 -> 0000000000001600 rec /src/rec.go:42 (1)" labeltooltip="0000000000001600 rec /src/rec.go:43 -> 0000000000001600 rec /src/rec.go:42 (1)"]
N1 -> N5 [label=" 1" weight=101 penwidth=6 color="#b20000" tooltip="0000000000001700 leaf /src/leaf.go:52 -> 0000000000001500 leaf /src/leaf.go:51 (1)" labeltooltip="0000000000001700 leaf /src/leaf.go:52 -> 0000000000001500 leaf /src/leaf.go:51 (1)"]
}
--- callgrind call_tree=false Total()=-1
positions: instr line
events: samples(count)

ob=(1) /bin/prog
fl=(1) /src/inner.go
fn=(1) inner
0x1200 31 1
cfl=(2) /src/outer.go
cfn=(2) outer
calls=0 0x1200 21
* * 1
cfl=(3) /src/leaf.go
cfn=(3) leaf
calls=0 0x1500 51
* * 1
cfl=(4) /src/rec.go
cfn=(4) rec
calls=0 0x1300 41
* * 1

ob=(1)
fl=(3)
fn=(3)
+768 51 1
cfl=(3)
cfn=(3)
calls=0 +1280 52
* * 1

ob=(1)
fl=(5) /src/main.go
fn=(5) main
-1024 11 1
cfl=(2)
cfn=(2)
calls=0 -768 21
* * 1
cfl=(4)
cfn=(4)
calls=0 -512 41
* * 1
cfl=
cfn=
calls=0 -256 0
* * 1
cfl=(3)
cfn=(3)
calls=0 * 51
* * 1
cfl=(4)
cfn=(4)
calls=0 +256 43
* * 1

ob=(1)
fl=(4)
fn=(4)
+512 41 1
cfl=(4)
cfn=(4)
calls=0 +1280 43
* * 1
cfl=(2)
cfn=(2)
calls=0 +256 21
* * 1

ob=(1)
fl=
fn=
+256 0 1

ob=(1)
fl=(4)
fn=(4)
+512 42 1
cfl=(4)
cfn=(4)
calls=0 +512 43
* * 1

ob=(1)
fl=(3)
fn=(3)
+256 52 1
cfl=(3)
cfn=(3)
calls=0 -256 51
* * 1

ob=(1)
fl=(2)
fn=(2)
-1280 21 0
cfl=(1)
cfn=(1)
calls=0 -1280 31
* * 1

ob=(1)
fl=(4)
fn=(4)
+1024 43 0
cfl=(4)
cfn=(4)
calls=0 +1024 42
* * 1
=== diff idx=1 mean=false computeTotal=72
--- text call_tree=false Total()=72
File: prog
Type: cpu
Showing nodes accounting for 28ns, 38.89% of 72ns total
      flat  flat%   sum%        cum   cum%
      23ns 31.94% 31.94%       32ns 44.44%  0000000000001200 inner /src/inner.go:31 (inline)
      11ns 15.28% 47.22%        9ns 12.50%  0000000000001500 leaf /src/leaf.go:51
       5ns  6.94% 54.17%        2ns  2.78%  0000000000001300 rec /src/rec.go:41
      -5ns  6.94% 47.22%       -5ns  6.94%  0000000000001600 rec /src/rec.go:42 (inline)
      -2ns  2.78% 44.44%        5ns  6.94%  0000000000001100 main /src/main.go:11
      -2ns  2.78% 41.67%       -2ns  2.78%  0000000000001400 [prog]
      -2ns  2.78% 38.89%       -2ns  2.78%  0000000000001700 leaf /src/leaf.go:52
         0     0% 38.89%       32ns 44.44%  0000000000001200 outer /src/outer.go:21
         0     0% 38.89%       -5ns  6.94%  0000000000001600 rec /src/rec.go:43
--- tree call_tree=false Total()=72
File: prog
Type: cpu
Showing nodes accounting for 28ns, 38.89% of 72ns total
----------------------------------------------------------+-------------
      flat  flat%   sum%        cum   cum%   calls calls% + context 	 	 
----------------------------------------------------------+-------------
                                              32ns   100% |   0000000000001200 outer /src/outer.go:21 (inline)
      23ns 31.94% 31.94%       32ns 44.44%                | 0000000000001200 inner /src/inner.go:31
                                              23ns 71.88% |   0000000000001200 outer /src/outer.go:21
                                              11ns 34.38% |   0000000000001500 leaf /src/leaf.go:51
                                              -2ns  6.25% |   0000000000001300 rec /src/rec.go:41
----------------------------------------------------------+-------------
                                              11ns 122.22% |   0000000000001200 inner /src/inner.go:31
                                              -2ns 22.22% |   0000000000001100 main /src/main.go:11
                                              -2ns 22.22% |   0000000000001700 leaf /src/leaf.go:52
      11ns 15.28% 47.22%        9ns 12.50%                | 0000000000001500 leaf /src/leaf.go:51
                                              -2ns 22.22% |   0000000000001700 leaf /src/leaf.go:52
----------------------------------------------------------+-------------
                                               4ns 200.00% |   0000000000001100 main /src/main.go:11
                                              -2ns   100% |   0000000000001200 inner /src/inner.go:31
       5ns  6.94% 54.17%        2ns  2.78%                | 0000000000001300 rec /src/rec.go:41
                                              -3ns 150.00% |   0000000000001600 rec /src/rec.go:43
                                              -2ns   100% |   0000000000001200 outer /src/outer.go:21
----------------------------------------------------------+-------------
                                              -5ns   100% |   0000000000001600 rec /src/rec.go:43 (inline)
      -5ns  6.94% 47.22%       -5ns  6.94%                | 0000000000001600 rec /src/rec.go:42
                                              -3ns 60.00% |   0000000000001600 rec /src/rec.go:43
----------------------------------------------------------+-------------
      -2ns  2.78% 44.44%        5ns  6.94%                | 0000000000001100 main /src/main.go:11
                                               9ns 180.00% |   0000000000001200 outer /src/outer.go:21
                                               4ns 80.00% |   0000000000001300 rec /src/rec.go:41
                                              -2ns 40.00% |   0000000000001400 [prog]
                                              -2ns 40.00% |   0000000000001500 leaf /src/leaf.go:51
                                              -2ns 40.00% |   0000000000001600 rec /src/rec.go:43
----------------------------------------------------------+-------------
                                              -2ns   100% |   0000000000001100 main /src/main.go:11
      -2ns  2.78% 41.67%       -2ns  2.78%                | 0000000000001400 [prog]
----------------------------------------------------------+-------------
                                              -2ns   100% |   0000000000001500 leaf /src/leaf.go:51
      -2ns  2.78% 38.89%       -2ns  2.78%                | 0000000000001700 leaf /src/leaf.go:52
                                              -2ns   100% |   0000000000001500 leaf /src/leaf.go:51
----------------------------------------------------------+-------------
                                              23ns 71.88% |   0000000000001200 inner /src/inner.go:31
                                               9ns 28.12% |   0000000000001100 main /src/main.go:11
                                              -2ns  6.25% |   0000000000001300 rec /src/rec.go:41
         0     0% 38.89%       32ns 44.44%                | 0000000000001200 outer /src/outer.go:21
                                              32ns   100% |   0000000000001200 inner /src/inner.go:31 (inline)
----------------------------------------------------------+-------------
                                              -3ns 60.00% |   0000000000001300 rec /src/rec.go:41
                                              -3ns 60.00% |   0000000000001600 rec /src/rec.go:42
                                              -2ns 40.00% |   0000000000001100 main /src/main.go:11
         0     0% 38.89%       -5ns  6.94%                | 0000000000001600 rec /src/rec.go:43
                                              -5ns   100% |   0000000000001600 rec /src/rec.go:42 (inline)
----------------------------------------------------------+-------------
--- tree call_tree=true Total()=72
File: prog
Type: cpu
Showing nodes accounting for 28ns, 38.89% of 72ns total
----------------------------------------------------------+-------------
      flat  flat%   sum%        cum   cum%   calls calls% + context 	 	 
----------------------------------------------------------+-------------
                                              32ns   100% |   0000000000001200 outer /src/outer.go:21 (inline)
      23ns 31.94% 31.94%       32ns 44.44%                | 0000000000001200 inner /src/inner.go:31
                                              23ns 71.88% |   0000000000001200 outer /src/outer.go:21
                                              11ns 34.38% |   0000000000001500 leaf /src/leaf.go:51
                                              -2ns  6.25% |   0000000000001300 rec /src/rec.go:41
----------------------------------------------------------+-------------
                                              11ns 122.22% |   0000000000001200 inner /src/inner.go:31
                                              -2ns 22.22% |   0000000000001100 main /src/main.go:11
                                              -2ns 22.22% |   0000000000001700 leaf /src/leaf.go:52
      11ns 15.28% 47.22%        9ns 12.50%                | 0000000000001500 leaf /src/leaf.go:51
                                              -2ns 22.22% |   0000000000001700 leaf /src/leaf.go:52
----------------------------------------------------------+-------------
                                               4ns 200.00% |   0000000000001100 main /src/main.go:11
                                              -2ns   100% |   0000000000001200 inner /src/inner.go:31
       5ns  6.94% 54.17%        2ns  2.78%                | 0000000000001300 rec /src/rec.go:41
                                              -3ns 150.00% |   0000000000001600 rec /src/rec.go:43
                                              -2ns   100% |   0000000000001200 outer /src/outer.go:21
----------------------------------------------------------+-------------
                                              -5ns   100% |   0000000000001600 rec /src/rec.go:43 (inline)
      -5ns  6.94% 47.22%       -5ns  6.94%                | 0000000000001600 rec /src/rec.go:42
                                              -3ns 60.00% |   0000000000001600 rec /src/rec.go:43
----------------------------------------------------------+-------------
      -2ns  2.78% 44.44%        5ns  6.94%                | 0000000000001100 main /src/main.go:11
                                               9ns 180.00% |   0000000000001200 outer /src/outer.go:21
                                               4ns 80.00% |   0000000000001300 rec /src/rec.go:41
                                              -2ns 40.00% |   0000000000001400 [prog]
                                              -2ns 40.00% |   0000000000001500 leaf /src/leaf.go:51
                                              -2ns 40.00% |   0000000000001600 rec /src/rec.go:43
----------------------------------------------------------+-------------
                                              -2ns   100% |   0000000000001100 main /src/main.go:11
      -2ns  2.78% 41.67%       -2ns  2.78%                | 0000000000001400 [prog]
----------------------------------------------------------+-------------
                                              -2ns   100% |   0000000000001500 leaf /src/leaf.go:51
      -2ns  2.78% 38.89%       -2ns  2.78%                | 0000000000001700 leaf /src/leaf.go:52
                                              -2ns   100% |   0000000000001500 leaf /src/leaf.go:51
----------------------------------------------------------+-------------
                                              23ns 71.88% |   0000000000001200 inner /src/inner.go:31
                                               9ns 28.12% |   0000000000001100 main /src/main.go:11
                                              -2ns  6.25% |   0000000000001300 rec /src/rec.go:41
         0     0% 38.89%       32ns 44.44%                | 0000000000001200 outer /src/outer.go:21
                                              32ns   100% |   0000000000001200 inner /src/inner.go:31 (inline)
----------------------------------------------------------+-------------
                                              -3ns 60.00% |   0000000000001300 rec /src/rec.go:41
                                              -3ns 60.00% |   0000000000001600 rec /src/rec.go:42
                                              -2ns 40.00% |   0000000000001100 main /src/main.go:11
         0     0% 38.89%       -5ns  6.94%                | 0000000000001600 rec /src/rec.go:43
                                              -5ns   100% |   0000000000001600 rec /src/rec.go:42 (inline)
----------------------------------------------------------+-------------
--- traces call_tree=false Total()=72
File: prog
Type: cpu
-----------+-------------------------------------------------------
      10ns   0000000000001500 leaf /src/leaf.go:51
             0000000000001200 inner /src/inner.go:31 (inline)
             0000000000001200 outer /src/outer.go:21
             0000000000001100 main /src/main.go:11
-----------+-------------------------------------------------------
       7ns   0000000000001300 rec /src/rec.go:41
             0000000000001300 rec /src/rec.go:41
             0000000000001300 rec /src/rec.go:41
             0000000000001100 main /src/main.go:11
-----------+-------------------------------------------------------
      -5ns   0000000000001300 rec /src/rec.go:41
             0000000000001200 inner /src/inner.go:31 (inline)
             0000000000001200 outer /src/outer.go:21
             0000000000001300 rec /src/rec.go:41
             0000000000001200 inner /src/inner.go:31 (inline)
             0000000000001200 outer /src/outer.go:21
             0000000000001100 main /src/main.go:11
-----------+-------------------------------------------------------
      11ns   0000000000001400 [prog]
             0000000000001100 main /src/main.go:11
-----------+-------------------------------------------------------
         k:  v1 v2
     bytes:  64
      13ns   0000000000001500 leaf /src/leaf.go:51
             0000000000001200 inner /src/inner.go:31 (inline)
             0000000000001200 outer /src/outer.go:21
             0000000000001100 main /src/main.go:11
-----------+-------------------------------------------------------
       2ns   0000000000001600 rec /src/rec.go:42 (inline)
             0000000000001600 rec /src/rec.go:43
             0000000000001100 main /src/main.go:11
-----------+-------------------------------------------------------
      -3ns   0000000000001600 rec /src/rec.go:42 (inline)
             0000000000001600 rec /src/rec.go:43
             0000000000001600 rec /src/rec.go:42 (inline)
             0000000000001600 rec /src/rec.go:43
             0000000000001300 rec /src/rec.go:41
             0000000000001100 main /src/main.go:11
-----------+-------------------------------------------------------
      17ns   0000000000001700 leaf /src/leaf.go:52
             0000000000001500 leaf /src/leaf.go:51
             0000000000001700 leaf /src/leaf.go:52
             0000000000001500 leaf /src/leaf.go:51
             0000000000001100 main /src/main.go:11
-----------+-------------------------------------------------------
         0   0000000000001500 leaf /src/leaf.go:51
             0000000000001100 main /src/main.go:11
-----------+-------------------------------------------------------
      19ns   0000000000001100 main /src/main.go:11
             0000000000001100 main /src/main.go:11
-----------+-------------------------------------------------------
      23ns   0000000000001200 inner /src/inner.go:31 (inline)
             0000000000001200 outer /src/outer.go:21
             0000000000001200 inner /src/inner.go:31 (inline)
             0000000000001200 outer /src/outer.go:21
-----------+-------------------------------------------------------
pprof::base:  true
     -12ns   0000000000001500 leaf /src/leaf.go:51
             0000000000001200 inner /src/inner.go:31 (inline)
             0000000000001200 outer /src/outer.go:21
             0000000000001100 main /src/main.go:11
-----------+-------------------------------------------------------
pprof::base:  true
       3ns   0000000000001300 rec /src/rec.go:41
             0000000000001200 inner /src/inner.go:31 (inline)
             0000000000001200 outer /src/outer.go:21
             0000000000001300 rec /src/rec.go:41
             0000000000001200 inner /src/inner.go:31 (inline)
             0000000000001200 outer /src/outer.go:21
             0000000000001100 main /src/main.go:11
-----------+-------------------------------------------------------
pprof::base:  true
     -13ns   0000000000001400 [prog]
             0000000000001100 main /src/main.go:11
-----------+-------------------------------------------------------
pprof::base:  true
      -4ns   0000000000001600 rec /src/rec.go:42 (inline)
             0000000000001600 rec /src/rec.go:43
             0000000000001100 main /src/main.go:11
-----------+-------------------------------------------------------
pprof::base:  true
     -19ns   0000000000001700 leaf /src/leaf.go:52
             0000000000001500 leaf /src/leaf.go:51
             0000000000001700 leaf /src/leaf.go:52
             0000000000001500 leaf /src/leaf.go:51
             0000000000001100 main /src/main.go:11
-----------+-------------------------------------------------------
pprof::base:  true
     -21ns   0000000000001100 main /src/main.go:11
             0000000000001100 main /src/main.go:11
-----------+-------------------------------------------------------
--- dot call_tree=false Total()=72
digraph "zz" {
node [style=filled fillcolor="#f8f8f8"]
subgraph cluster_L { "File: prog" [shape=box fontsize=16 label="File: prog\lType: cpu\lShowing nodes accounting for 28ns, 38.89% of 72ns total\l\lSee https://git.io/JfYMW for how to read the graph\l" tooltip="zz"] }
N1 [label="0000000000001700\nleaf\nleaf.go:52\n-2ns (2.78%)" id="node1" fontsize=13 shape=box tooltip="0000000000001700 leaf /src/leaf.go:52 (-2ns)" color="#aab299" fillcolor="#ecede9"]
N2 [label="0000000000001600\nrec\nrec.go:42\n-5ns (6.94%)" id="node2" fontsize=16 shape=box tooltip="0000000000001600 rec /src/rec.go:42 (-5ns)" color="#96b274" fillcolor="#e9ede4"]
N3 [label="0000000000001200\ninner\ninner.go:31\n23ns (31.94%)\nof 32ns (44.44%)" id="node3" fontsize=24 shape=box tooltip="0000000000001200 inner /src/inner.go:31 (32ns)" color="#b22600" fillcolor="#eddad5"]
N4 [label="0000000000001200\nouter\nouter.go:21\n0 of 32ns (44.44%)" id="node4" fontsize=8 shape=box tooltip="0000000000001200 outer /src/outer.go:21 (32ns)" color="#b22600" fillcolor="#eddad5"]
N5 [label="0000000000001500\nleaf\nleaf.go:51\n11ns (15.28%)\nof 9ns (12.50%)" id="node5" fontsize=20 shape=box tooltip="0000000000001500 leaf /src/leaf.go:51 (9ns)" color="#b27642" fillcolor="#ede5de"]
N5_0 [label = "k:v1\nk:v2" id="N5_0" fontsize=8 shape=box3d tooltip="13ns"]
N5 -> N5_0 [label=" 13ns" weight=100 tooltip="13ns" labeltooltip="13ns"]
NN5_0_0 [label = "64" id="NN5_0_0" fontsize=8 shape=box3d tooltip="13ns"]
N5_0 -> NN5_0_0 [label=" 13ns" weight=100 tooltip="13ns" labeltooltip="13ns"]
N6 [label="0000000000001100\nmain\nmain.go:11\n-2ns (2.78%)\nof 5ns (6.94%)" id="node6" fontsize=13 shape=box tooltip="0000000000001100 main /src/main.go:11 (5ns)" color="#b29674" fillcolor="#ede9e4"]
N7 [label="0000000000001300\nrec\nrec.go:41\n5ns (6.94%)\nof 2ns (2.78%)" id="node7" fontsize=16 shape=box tooltip="0000000000001300 rec /src/rec.go:41 (2ns)" color="#b2aa99" fillcolor="#edece9"]
N8 [label="0000000000001400\n[prog]\n-2ns (2.78%)" id="node8" fontsize=13 shape=box tooltip="0000000000001400 [prog] (-2ns)" color="#aab299" fillcolor="#ecede9"]
N9 [label="0000000000001600\nrec\nrec.go:43\n0 of -5ns (6.94%)" id="node9" fontsize=8 shape=box tooltip="0000000000001600 rec /src/rec.go:43 (-5ns)" color="#96b274" fillcolor="#e9ede4"]
N4 -> N3 [label=" 32ns\n (inline)" weight=45 penwidth=3 color="#b22600" tooltip="0000000000001200 outer /src/outer.go:21 -> 0000000000001200 inner /src/inner.go:31 (32ns)" labeltooltip="0000000000001200 outer /src/outer.go:21 -> 0000000000001200 inner /src/inner.go:31 (32ns)"]
N3 -> N4 [label=" 23ns" weight=32 penwidth=2 color="#b23300" tooltip="0000000000001200 inner /src/inner.go:31 -> 0000000000001200 outer /src/outer.go:21 (23ns)" labeltooltip="0000000000001200 inner /src/inner.go:31 -> 0000000000001200 outer /src/outer.go:21 (23ns)"]
N3 -> N5 [label=" 11ns" weight=16 color="#b2642a" tooltip="0000000000001200 inner /src/inner.go:31 -> 0000000000001500 leaf /src/leaf.go:51 (11ns)" labeltooltip="0000000000001200 inner /src/inner.go:31 -> 0000000000001500 leaf /src/leaf.go:51 (11ns)"]
N6 -> N4 [label=" 9ns" weight=13 color="#b27642" tooltip="0000000000001100 main /src/main.go:11 -> 0000000000001200 outer /src/outer.go:21 (9ns)" labeltooltip="0000000000001100 main /src/main.go:11 -> 0000000000001200 outer /src/outer.go:21 (9ns)"]
N9 -> N2 [label=" -5ns\n (inline)" weight=7 color="#96b274" tooltip="0000000000001600 rec /src/rec.go:43 -> 0000000000001600 rec /src/rec.go:42 (-5ns)" labeltooltip="0000000000001600 rec /src/rec.go:43 -> 0000000000001600 rec /src/rec.go:42 (-5ns)"]
N6 -> N7 [label=" 4ns" weight=6 color="#b29d80" tooltip="0000000000001100 main /src/main.go:11 -> 0000000000001300 rec /src/rec.go:41 (4ns)" labeltooltip="0000000000001100 main /src/main.go:11 -> 0000000000001300 rec /src/rec.go:41 (4ns)"]
N7 -> N9 [label=" -3ns" weight=5 color="#a4b28d" tooltip="0000000000001300 rec /src/rec.go:41 -> 0000000000001600 rec /src/rec.go:43 (-3ns)" labeltooltip="0000000000001300 rec /src/rec.go:41 -> 0000000000001600 rec /src/rec.go:43 (-3ns)"]
N2 -> N9 [label=" -3ns" weight=5 color="#a4b28d" tooltip="0000000000001600 rec /src/rec.go:42 -> 0000000000001600 rec /src/rec.go:43 (-3ns)" labeltooltip="0000000000001600 rec /src/rec.go:42 -> 0000000000001600 rec /src/rec.go:43 (-3ns)"]
N6 -> N8 [label=" -2ns" weight=3 color="#aab299" tooltip="0000000000001100 main /src/main.go:11 -> 0000000000001400 [prog] (-2ns)" labeltooltip="0000000000001100 main /src/main.go:11 -> 0000000000001400 [prog] (-2ns)"]
N6 -> N5 [label=" -2ns" weight=3 color="#aab299" tooltip="0000000000001100 main /src/main.go:11 -> 0000000000001500 leaf /src/leaf.go:51 (-2ns)" labeltooltip="0000000000001100 main /src/main.go:11 -> 0000000000001500 leaf /src/leaf.go:51 (-2ns)"]
N6 -> N9 [label=" -2ns" weight=3 color="#aab299" tooltip="0000000000001100 main /src/main.go:11 -> 0000000000001600 rec /src/rec.go:43 (-2ns)" labeltooltip="0000000000001100 main /src/main.go:11 -> 0000000000001600 rec /src/rec.go:43 (-2ns)"]
N3 -> N7 [label=" -2ns" weight=3 color="#aab299" tooltip="0000000000001200 inner /src/inner.go:31 -> 0000000000001300 rec /src/rec.go:41 (-2ns)" labeltooltip="0000000000001200 inner /src/inner.go:31 -> 0000000000001300 rec /src/rec.go:41 (-2ns)"]
N7 -> N4 [label=" -2ns" weight=3 color="#aab299" tooltip="0000000000001300 rec /src/rec.go:41 -> 0000000000001200 outer /src/outer.go:21 (-2ns)" labeltooltip="0000000000001300 rec /src/rec.go:41 -> 0000000000001200 outer /src/outer.go:21 (-2ns)"]
N5 -> N1 [label=" -2ns" weight=3 color="#aab299" tooltip="0000000000001500 leaf /src/leaf.go:51 -> 0000000000001700 leaf /src/leaf.go:52 (-2ns)" labeltooltip="0000000000001500 leaf /src/leaf.go:51 -> 0000000000001700 leaf /src/leaf.go:52 (-2ns)" minlen=2]
N1 -> N5 [label=" -2ns" weight=3 color="#aab299" tooltip="0000000000001700 leaf /src/leaf.go:52 -> 0000000000001500 leaf /src/leaf.go:51 (-2ns)" labeltooltip="0000000000001700 leaf /src/leaf.go:52 -> 0000000000001500 leaf /src/leaf.go:51 (-2ns)"]
}
--- callgrind call_tree=false Total()=72
positions: instr line
events: cpu(ns)

ob=(1) /bin/prog
fl=(1) /src/inner.go
fn=(1) inner
0x1200 31 23
cfl=(2) /src/outer.go
cfn=(2) outer
calls=0 0x1200 21
* * 23
cfl=(3) /src/leaf.go
cfn=(3) leaf
calls=0 0x1500 51
* * 11
cfl=(4) /src/rec.go
cfn=(4) rec
calls=0 0x1300 41
* * -2

ob=(1)
fl=(3)
fn=(3)
+768 51 11
cfl=(3)
cfn=(3)
calls=0 +1280 52
* * -2

ob=(1)
fl=(4)
fn=(4)
-512 41 5
cfl=(4)
cfn=(4)
calls=0 +256 43
* * -3
cfl=(2)
cfn=(2)
calls=0 -768 21
* * -2
+768 42 -5
cfl=(4)
cfn=(4)
calls=0 +768 43
* * -3

ob=(1)
fl=(5) /src/main.go
fn=(5) main
-1280 11 -2
cfl=(2)
cfn=(2)
calls=0 -1024 21
* * 9
cfl=(4)
cfn=(4)
calls=0 -768 41
* * 4
cfl=
cfn=
calls=0 -512 0
* * -2
cfl=(3)
cfn=(3)
calls=0 -256 51
* * -2
cfl=(4)
cfn=(4)
calls=0 * 43
* * -2

ob=(1)
fl=
fn=
+768 0 -2

ob=(1)
fl=(3)
fn=(3)
+768 52 -2
cfl=(3)
cfn=(3)
calls=0 +256 51
* * -2

ob=(1)
fl=(2)
fn=(2)
-1280 21 0
cfl=(1)
cfn=(1)
calls=0 -1280 31
* * 32

ob=(1)
fl=(4)
fn=(4)
+1024 43 0
cfl=(4)
cfn=(4)
calls=0 +1024 42
* * -5
=== diff idx=1 mean=true computeTotal=-3
--- text call_tree=false Total()=-3
File: prog
Type: cpu
Showing nodes accounting for 10ns, 333.33% of -3ns total
      flat  flat%   sum%        cum   cum%
       2ns 66.67% 66.67%        2ns 66.67%  0000000000001200 inner /src/inner.go:31 (inline)
       2ns 66.67% 133.33%        2ns 66.67%  0000000000001500 leaf /src/leaf.go:51
       5ns 166.67% 300.00%          0     0%  0000000000001300 rec /src/rec.go:41
      -5ns 166.67% 133.33%       -5ns 166.67%  0000000000001600 rec /src/rec.go:42 (inline)
       2ns 66.67% 200.00%        1ns 33.33%  0000000000001100 main /src/main.go:11
       2ns 66.67% 266.67%        2ns 66.67%  0000000000001400 [prog]
       2ns 66.67% 333.33%        2ns 66.67%  0000000000001700 leaf /src/leaf.go:52
         0     0% 333.33%        2ns 66.67%  0000000000001200 outer /src/outer.go:21
         0     0% 333.33%       -5ns 166.67%  0000000000001600 rec /src/rec.go:43
--- tree call_tree=false Total()=-3
File: prog
Type: cpu
Showing nodes accounting for 10ns, 333.33% of -3ns total
----------------------------------------------------------+-------------
      flat  flat%   sum%        cum   cum%   calls calls% + context 	 	 
----------------------------------------------------------+-------------
                                               2ns   100% |   0000000000001200 outer /src/outer.go:21 (inline)
       2ns 66.67% 66.67%        2ns 66.67%                | 0000000000001200 inner /src/inner.go:31
                                               2ns   100% |   0000000000001200 outer /src/outer.go:21
                                               2ns   100% |   0000000000001500 leaf /src/leaf.go:51
                                               2ns   100% |   0000000000001300 rec /src/rec.go:41
----------------------------------------------------------+-------------
                                               2ns   100% |   0000000000001200 inner /src/inner.go:31
                                               2ns   100% |   0000000000001100 main /src/main.go:11
                                               2ns   100% |   0000000000001700 leaf /src/leaf.go:52
       2ns 66.67% 133.33%        2ns 66.67%                | 0000000000001500 leaf /src/leaf.go:51
                                               2ns   100% |   0000000000001700 leaf /src/leaf.go:52
----------------------------------------------------------+-------------
                                               1ns     0% |   0000000000001100 main /src/main.go:11
                                               2ns     0% |   0000000000001200 inner /src/inner.go:31
       5ns 166.67% 300.00%          0     0%                | 0000000000001300 rec /src/rec.go:41
                                              -1ns     0% |   0000000000001600 rec /src/rec.go:43
                                               2ns     0% |   0000000000001200 outer /src/outer.go:21
----------------------------------------------------------+-------------
                                              -5ns   100% |   0000000000001600 rec /src/rec.go:43 (inline)
      -5ns 166.67% 133.33%       -5ns 166.67%                | 0000000000001600 rec /src/rec.go:42
                                              -1ns 20.00% |   0000000000001600 rec /src/rec.go:43
----------------------------------------------------------+-------------
       2ns 66.67% 200.00%        1ns 33.33%                | 0000000000001100 main /src/main.go:11
                                               2ns 200.00% |   0000000000001200 outer /src/outer.go:21
                                               1ns   100% |   0000000000001300 rec /src/rec.go:41
                                               2ns 200.00% |   0000000000001400 [prog]
                                               2ns 200.00% |   0000000000001500 leaf /src/leaf.go:51
                                               2ns 200.00% |   0000000000001600 rec /src/rec.go:43
----------------------------------------------------------+-------------
                                               2ns   100% |   0000000000001100 main /src/main.go:11
       2ns 66.67% 266.67%        2ns 66.67%                | 0000000000001400 [prog]
----------------------------------------------------------+-------------
                                               2ns   100% |   0000000000001500 leaf /src/leaf.go:51
       2ns 66.67% 333.33%        2ns 66.67%                | 0000000000001700 leaf /src/leaf.go:52
                                               2ns   100% |   0000000000001500 leaf /src/leaf.go:51
----------------------------------------------------------+-------------
                                               2ns   100% |   0000000000001200 inner /src/inner.go:31
                                               2ns   100% |   0000000000001100 main /src/main.go:11
                                               2ns   100% |   0000000000001300 rec /src/rec.go:41
         0     0% 333.33%        2ns 66.67%                | 0000000000001200 outer /src/outer.go:21
                                               2ns   100% |   0000000000001200 inner /src/inner.go:31 (inline)
----------------------------------------------------------+-------------
                                              -1ns 20.00% |   0000000000001300 rec /src/rec.go:41
                                              -1ns 20.00% |   0000000000001600 rec /src/rec.go:42
                                               2ns 40.00% |   0000000000001100 main /src/main.go:11
         0     0% 333.33%       -5ns 166.67%                | 0000000000001600 rec /src/rec.go:43
                                              -5ns   100% |   0000000000001600 rec /src/rec.go:42 (inline)
----------------------------------------------------------+-------------
--- tree call_tree=true Total()=-3
File: prog
Type: cpu
Showing nodes accounting for 10ns, 333.33% of -3ns total
----------------------------------------------------------+-------------
      flat  flat%   sum%        cum   cum%   calls calls% + context 	 	 
----------------------------------------------------------+-------------
                                               2ns   100% |   0000000000001200 outer /src/outer.go:21 (inline)
       2ns 66.67% 66.67%        2ns 66.67%                | 0000000000001200 inner /src/inner.go:31
                                               2ns   100% |   0000000000001200 outer /src/outer.go:21
                                               2ns   100% |   0000000000001500 leaf /src/leaf.go:51
                                               2ns   100% |   0000000000001300 rec /src/rec.go:41
----------------------------------------------------------+-------------
                                               2ns   100% |   0000000000001200 inner /src/inner.go:31
                                               2ns   100% |   0000000000001100 main /src/main.go:11
                                               2ns   100% |   0000000000001700 leaf /src/leaf.go:52
       2ns 66.67% 133.33%        2ns 66.67%                | 0000000000001500 leaf /src/leaf.go:51
                                               2ns   100% |   0000000000001700 leaf /src/leaf.go:52
----------------------------------------------------------+-------------
                                               1ns     0% |   0000000000001100 main /src/main.go:11
                                               2ns     0% |   0000000000001200 inner /src/inner.go:31
       5ns 166.67% 300.00%          0     0%                | 0000000000001300 rec /src/rec.go:41
                                              -1ns     0% |   0000000000001600 rec /src/rec.go:43
                                               2ns     0% |   0000000000001200 outer /src/outer.go:21
----------------------------------------------------------+-------------
                                              -5ns   100% |   0000000000001600 rec /src/rec.go:43 (inline)
      -5ns 166.67% 133.33%       -5ns 166.67%                | 0000000000001600 rec /src/rec.go:42
                                              -1ns 20.00% |   0000000000001600 rec /src/rec.go:43
----------------------------------------------------------+-------------
       2ns 66.67% 200.00%        1ns 33.33%                | 0000000000001100 main /src/main.go:11
                                               2ns 200.00% |   0000000000001200 outer /src/outer.go:21
                                               1ns   100% |   0000000000001300 rec /src/rec.go:41
                                               2ns 200.00% |   0000000000001400 [prog]
                                               2ns 200.00% |   0000000000001500 leaf /src/leaf.go:51
                                               2ns 200.00% |   0000000000001600 rec /src/rec.go:43
----------------------------------------------------------+-------------
                                               2ns   100% |   0000000000001100 main /src/main.go:11
       2ns 66.67% 266.67%        2ns 66.67%                | 0000000000001400 [prog]
----------------------------------------------------------+-------------
                                               2ns   100% |   0000000000001500 leaf /src/leaf.go:51
       2ns 66.67% 333.33%        2ns 66.67%                | 0000000000001700 leaf /src/leaf.go:52
                                               2ns   100% |   0000000000001500 leaf /src/leaf.go:51
----------------------------------------------------------+-------------
                                               2ns   100% |   0000000000001200 inner /src/inner.go:31
                                               2ns   100% |   0000000000001100 main /src/main.go:11
                                               2ns   100% |   0000000000001300 rec /src/rec.go:41
         0     0% 333.33%        2ns 66.67%                | 0000000000001200 outer /src/outer.go:21
                                               2ns   100% |   0000000000001200 inner /src/inner.go:31 (inline)
----------------------------------------------------------+-------------
                                              -1ns 20.00% |   0000000000001300 rec /src/rec.go:41
                                              -1ns 20.00% |   0000000000001600 rec /src/rec.go:42
                                               2ns 40.00% |   0000000000001100 main /src/main.go:11
         0     0% 333.33%       -5ns 166.67%                | 0000000000001600 rec /src/rec.go:43
                                              -5ns   100% |   0000000000001600 rec /src/rec.go:42 (inline)
----------------------------------------------------------+-------------
--- traces call_tree=false Total()=-3
File: prog
Type: cpu
-----------+-------------------------------------------------------
       3ns   0000000000001500 leaf /src/leaf.go:51
             0000000000001200 inner /src/inner.go:31 (inline)
             0000000000001200 outer /src/outer.go:21
             0000000000001100 main /src/main.go:11
-----------+-------------------------------------------------------
       3ns   0000000000001300 rec /src/rec.go:41
             0000000000001300 rec /src/rec.go:41
             0000000000001300 rec /src/rec.go:41
             0000000000001100 main /src/main.go:11
-----------+-------------------------------------------------------
      -5ns   0000000000001300 rec /src/rec.go:41
             0000000000001200 inner /src/inner.go:31 (inline)
             0000000000001200 outer /src/outer.go:21
             0000000000001300 rec /src/rec.go:41
             0000000000001200 inner /src/inner.go:31 (inline)
             0000000000001200 outer /src/outer.go:21
             0000000000001100 main /src/main.go:11
-----------+-------------------------------------------------------
       2ns   0000000000001400 [prog]
             0000000000001100 main /src/main.go:11
-----------+-------------------------------------------------------
         k:  v1 v2
     bytes:  64
       2ns   0000000000001500 leaf /src/leaf.go:51
             0000000000001200 inner /src/inner.go:31 (inline)
             0000000000001200 outer /src/outer.go:21
             0000000000001100 main /src/main.go:11
-----------+-------------------------------------------------------
       2ns   0000000000001600 rec /src/rec.go:42 (inline)
             0000000000001600 rec /src/rec.go:43
             0000000000001100 main /src/main.go:11
-----------+-------------------------------------------------------
      -1ns   0000000000001600 rec /src/rec.go:42 (inline)
             0000000000001600 rec /src/rec.go:43
             0000000000001600 rec /src/rec.go:42 (inline)
             0000000000001600 rec /src/rec.go:43
             0000000000001300 rec /src/rec.go:41
             0000000000001100 main /src/main.go:11
-----------+-------------------------------------------------------
       2ns   0000000000001700 leaf /src/leaf.go:52
             0000000000001500 leaf /src/leaf.go:51
             0000000000001700 leaf /src/leaf.go:52
             0000000000001500 leaf /src/leaf.go:51
             0000000000001100 main /src/main.go:11
-----------+-------------------------------------------------------
         0   0000000000001500 leaf /src/leaf.go:51
             0000000000001100 main /src/main.go:11
-----------+-------------------------------------------------------
      19ns   0000000000001100 main /src/main.go:11
             0000000000001100 main /src/main.go:11
-----------+-------------------------------------------------------
       2ns   0000000000001200 inner /src/inner.go:31 (inline)
             0000000000001200 outer /src/outer.go:21
             0000000000001200 inner /src/inner.go:31 (inline)
             0000000000001200 outer /src/outer.go:21
-----------+-------------------------------------------------------
pprof::base:  true
       3ns   0000000000001500 leaf /src/leaf.go:51
             0000000000001200 inner /src/inner.go:31 (inline)
             0000000000001200 outer /src/outer.go:21
             0000000000001100 main /src/main.go:11
-----------+-------------------------------------------------------
pprof::base:  true
      -1ns   0000000000001300 rec /src/rec.go:41
             0000000000001200 inner /src/inner.go:31 (inline)
             0000000000001200 outer /src/outer.go:21
             0000000000001300 rec /src/rec.go:41
             0000000000001200 inner /src/inner.go:31 (inline)
             0000000000001200 outer /src/outer.go:21
             0000000000001100 main /src/main.go:11
-----------+-------------------------------------------------------
pprof::base:  true
       2ns   0000000000001400 [prog]
             0000000000001100 main /src/main.go:11
-----------+-------------------------------------------------------
pprof::base:  true
       2ns   0000000000001600 rec /src/rec.go:42 (inline)
             0000000000001600 rec /src/rec.go:43
             0000000000001100 main /src/main.go:11
-----------+-------------------------------------------------------
pprof::base:  true
       2ns   0000000000001700 leaf /src/leaf.go:52
             0000000000001500 leaf /src/leaf.go:51
             0000000000001700 leaf /src/leaf.go:52
             0000000000001500 leaf /src/leaf.go:51
             0000000000001100 main /src/main.go:11
-----------+-------------------------------------------------------
pprof::base:  true
      21ns   0000000000001100 main /src/main.go:11
             0000000000001100 main /src/main.go:11
-----------+-------------------------------------------------------
--- dot call_tree=false Total()=-3
digraph "zz" {
node [style=filled fillcolor="#f8f8f8"]
subgraph cluster_L { "File: prog" [shape=box fontsize=16 label="File: prog\lType: cpu\lShowing nodes accounting for 10ns, 333.33% of -3ns total\l\lSee https://git.io/JfYMW for how to read the graph\l" tooltip="zz"] }
N1 [label="0000000000001700\nleaf\nleaf.go:52\n2ns (66.67%)" id="node1" fontsize=19 shape=box tooltip="0000000000001700 leaf /src/leaf.go:52 (2ns)" color="#b21400" fillcolor="#edd8d5"]
N2 [label="0000000000001600\nrec\nrec.go:42\n-5ns (166.67%)" id="node2" fontsize=24 shape=box tooltip="0000000000001600 rec /src/rec.go:42 (-5ns)" color="#00b200" fillcolor="#d5edd5"]
N3 [label="0000000000001200\ninner\ninner.go:31\n2ns (66.67%)" id="node3" fontsize=19 shape=box tooltip="0000000000001200 inner /src/inner.go:31 (2ns)" color="#b21400" fillcolor="#edd8d5"]
N4 [label="0000000000001200\nouter\nouter.go:21\n0 of 2ns (66.67%)" id="node4" fontsize=8 shape=box tooltip="0000000000001200 outer /src/outer.go:21 (2ns)" color="#b21400" fillcolor="#edd8d5"]
N5 [label="0000000000001500\nleaf\nleaf.go:51\n2ns (66.67%)" id="node5" fontsize=19 shape=box tooltip="0000000000001500 leaf /src/leaf.go:51 (2ns)" color="#b21400" fillcolor="#edd8d5"]
N5_0 [label = "k:v1\nk:v2" id="N5_0" fontsize=8 shape=box3d tooltip="2ns"]
N5 -> N5_0 [label=" 2ns" weight=100 tooltip="2ns" labeltooltip="2ns"]
NN5_0_0 [label = "64" id="NN5_0_0" fontsize=8 shape=box3d tooltip="2ns"]
N5_0 -> NN5_0_0 [label=" 2ns" weight=100 tooltip="2ns" labeltooltip="2ns"]
N6 [label="0000000000001100\nmain\nmain.go:11\n2ns (66.67%)\nof 1ns (33.33%)" id="node6" fontsize=19 shape=box tooltip="0000000000001100 main /src/main.go:11 (1ns)" color="#b23200" fillcolor="#eddcd5"]
N7 [label="0000000000001300\nrec\nrec.go:41\n5ns (166.67%)\nof 0 (0%)" id="node7" fontsize=24 shape=box tooltip="0000000000001300 rec /src/rec.go:41 (0)" color="#b2b2b2" fillcolor="#ededed"]
N8 [label="0000000000001400\n[prog]\n2ns (66.67%)" id="node8" fontsize=19 shape=box tooltip="0000000000001400 [prog] (2ns)" color="#b21400" fillcolor="#edd8d5"]
N9 [label="0000000000001600\nrec\nrec.go:43\n0 of -5ns (166.67%)" id="node9" fontsize=8 shape=box tooltip="0000000000001600 rec /src/rec.go:43 (-5ns)" color="#00b200" fillcolor="#d5edd5"]
N4 -> N3 [label=" 2ns\n (inline)" weight=67 penwidth=4 color="#b21400" tooltip="0000000000001200 outer /src/outer.go:21 -> 0000000000001200 inner /src/inner.go:31 (2ns)" labeltooltip="0000000000001200 outer /src/outer.go:21 -> 0000000000001200 inner /src/inner.go:31 (2ns)"]
N3 -> N4 [label=" 2ns" weight=67 penwidth=4 color="#b21400" tooltip="0000000000001200 inner /src/inner.go:31 -> 0000000000001200 outer /src/outer.go:21 (2ns)" labeltooltip="0000000000001200 inner /src/inner.go:31 -> 0000000000001200 outer /src/outer.go:21 (2ns)"]
N3 -> N5 [label=" 2ns" weight=67 penwidth=4 color="#b21400" tooltip="0000000000001200 inner /src/inner.go:31 -> 0000000000001500 leaf /src/leaf.go:51 (2ns)" labeltooltip="0000000000001200 inner /src/inner.go:31 -> 0000000000001500 leaf /src/leaf.go:51 (2ns)"]
N6 -> N4 [label=" 2ns" weight=67 penwidth=4 color="#b21400" tooltip="0000000000001100 main /src/main.go:11 -> 0000000000001200 outer /src/outer.go:21 (2ns)" labeltooltip="0000000000001100 main /src/main.go:11 -> 0000000000001200 outer /src/outer.go:21 (2ns)"]
N9 -> N2 [label=" -5ns\n (inline)" weight=101 penwidth=6 color="#00b200" tooltip="0000000000001600 rec /src/rec.go:43 -> 0000000000001600 rec /src/rec.go:42 (-5ns)" labeltooltip="0000000000001600 rec /src/rec.go:43 -> 0000000000001600 rec /src/rec.go:42 (-5ns)"]
N6 -> N7 [label=" 1ns" weight=34 penwidth=2 color="#b23200" tooltip="0000000000001100 main /src/main.go:11 -> 0000000000001300 rec /src/rec.go:41 (1ns)" labeltooltip="0000000000001100 main /src/main.go:11 -> 0000000000001300 rec /src/rec.go:41 (1ns)"]
N7 -> N9 [label=" -1ns" weight=34 penwidth=2 color="#32b200" tooltip="0000000000001300 rec /src/rec.go:41 -> 0000000000001600 rec /src/rec.go:43 (-1ns)" labeltooltip="0000000000001300 rec /src/rec.go:41 -> 0000000000001600 rec /src/rec.go:43 (-1ns)"]
N2 -> N9 [label=" -1ns" weight=34 penwidth=2 color="#32b200" tooltip="0000000000001600 rec /src/rec.go:42 -> 0000000000001600 rec /src/rec.go:43 (-1ns)" labeltooltip="0000000000001600 rec /src/rec.go:42 -> 0000000000001600 rec /src/rec.go:43 (-1ns)"]
N6 -> N8 [label=" 2ns" weight=67 penwidth=4 color="#b21400" tooltip="0000000000001100 main /src/main.go:11 -> 0000000000001400 [prog] (2ns)" labeltooltip="0000000000001100 main /src/main.go:11 -> 0000000000001400 [prog] (2ns)"]
N6 -> N5 [label=" 2ns" weight=67 penwidth=4 color="#b21400" tooltip="0000000000001100 main /src/main.go:11 -> 0000000000001500 leaf /src/leaf.go:51 (2ns)" labeltooltip="0000000000001100 main /src/main.go:11 -> 0000000000001500 leaf /src/leaf.go:51 (2ns)"]
N6 -> N9 [label=" 2ns" weight=67 penwidth=4 color="#b21400" tooltip="0000000000001100 main /src/main.go:11 -> 0000000000001600 rec /src/rec.go:43 (2ns)" labeltooltip="0000000000001100 main /src/main.go:11 -> 0000000000001600 rec /src/rec.go:43 (2ns)"]
N3 -> N7 [label=" 2ns" weight=67 penwidth=4 color="#b21400" tooltip="0000000000001200 inner /src/inner.go:31 -> 0000000000001300 rec /src/rec.go:41 (2ns)" labeltooltip="0000000000001200 inner /src/inner.go:31 -> 0000000000001300 rec /src/rec.go:41 (2ns)"]
N7 -> N4 [label=" 2ns" weight=67 penwidth=4 color="#b21400" tooltip="0000000000001300 rec /src/rec.go:41 -> 0000000000001200 outer /src/outer.go:21 (2ns)" labeltooltip="0000000000001300 rec /src/rec.go:41 -> 0000000000001200 outer /src/outer.go:21 (2ns)"]
N5 -> N1 [label=" 2ns" weight=67 penwidth=4 color="#b21400" tooltip="0000000000001500 leaf /src/leaf.go:51 -> 0000000000001700 leaf /src/leaf.go:52 (2ns)" labeltooltip="0000000000001500 leaf /src/leaf.go:51 -> 0000000000001700 leaf /src/leaf.go:52 (2ns)" minlen=2]
N1 -> N5 [label=" 2ns" weight=67 penwidth=4 color="#b21400" tooltip="0000000000001700 leaf /src/leaf.go:52 -> 0000000000001500 leaf /src/leaf.go:51 (2ns)" labeltooltip="0000000000001700 leaf /src/leaf.go:52 -> 0000000000001500 leaf /src/leaf.go:51 (2ns)"]
}
--- callgrind call_tree=false Total()=-3
positions: instr line
events: cpu(ns)

ob=(1) /bin/prog
fl=(1) /src/inner.go
fn=(1) inner
0x1200 31 2
cfl=(2) /src/outer.go
cfn=(2) outer
calls=0 0x1200 21
* * 2
cfl=(3) /src/leaf.go
cfn=(3) leaf
calls=0 0x1500 51
* * 2
cfl=(4) /src/rec.go
cfn=(4) rec
calls=0 0x1300 41
* * 2

ob=(1)
fl=(3)
fn=(3)
+768 51 2
cfl=(3)
cfn=(3)
calls=0 +1280 52
* * 2

ob=(1)
fl=(4)
fn=(4)
-512 41 5
cfl=(4)
cfn=(4)
calls=0 +256 43
* * -1
cfl=(2)
cfn=(2)
calls=0 -768 21
* * 2
+768 42 -5
cfl=(4)
cfn=(4)
calls=0 +768 43
* * -1

ob=(1)
fl=(5) /src/main.go
fn=(5) main
-1280 11 2
cfl=(2)
cfn=(2)
calls=0 -1024 21
* * 2
cfl=(4)
cfn=(4)
calls=0 -768 41
* * 1
cfl=
cfn=
calls=0 -512 0
* * 2
cfl=(3)
cfn=(3)
calls=0 -256 51
* * 2
cfl=(4)
cfn=(4)
calls=0 * 43
* * 2

ob=(1)
fl=
fn=
+768 0 2

ob=(1)
fl=(3)
fn=(3)
+768 52 2
cfl=(3)
cfn=(3)
calls=0 +256 51
* * 2

ob=(1)
fl=(2)
fn=(2)
-1280 21 0
cfl=(1)
cfn=(1)
calls=0 -1280 31
* * 2

ob=(1)
fl=(4)
fn=(4)
+1024 43 0
cfl=(4)
cfn=(4)
calls=0 +1024 42
* * -5
=== diff-zero-base idx=0 mean=false computeTotal=39
--- text call_tree=false Total()=39
File: prog
Type: samples
Showing nodes accounting for 35, 89.74% of 39 total
      flat  flat%   sum%        cum   cum%
         9 23.08% 23.08%         16 41.03%  0000000000001500 leaf /src/leaf.go:51
         8 20.51% 43.59%         18 46.15%  0000000000001200 inner /src/inner.go:31 (inline)
         7 17.95% 61.54%          7 17.95%  0000000000001700 leaf /src/leaf.go:52
         5 12.82% 74.36%          5 12.82%  0000000000001400 [prog]
         3  7.69% 82.05%          5 12.82%  0000000000001300 rec /src/rec.go:41
         3  7.69% 89.74%          3  7.69%  0000000000001600 rec /src/rec.go:42 (inline)
         0     0% 89.74%         27 69.23%  0000000000001100 main /src/main.go:11
         0     0% 89.74%         18 46.15%  0000000000001200 outer /src/outer.go:21
         0     0% 89.74%          3  7.69%  0000000000001600 rec /src/rec.go:43
--- tree call_tree=false Total()=39
File: prog
Type: samples
Showing nodes accounting for 35, 89.74% of 39 total
----------------------------------------------------------+-------------
      flat  flat%   sum%        cum   cum%   calls calls% + context 	 	 
----------------------------------------------------------+-------------
                                                 9 56.25% |   0000000000001200 inner /src/inner.go:31
                                                 7 43.75% |   0000000000001100 main /src/main.go:11
                                                 7 43.75% |   0000000000001700 leaf /src/leaf.go:52
         9 23.08% 23.08%         16 41.03%                | 0000000000001500 leaf /src/leaf.go:51
                                                 7 43.75% |   0000000000001700 leaf /src/leaf.go:52
----------------------------------------------------------+-------------
                                                18   100% |   0000000000001200 outer /src/outer.go:21 (inline)
         8 20.51% 43.59%         18 46.15%                | 0000000000001200 inner /src/inner.go:31
                                                 9 50.00% |   0000000000001500 leaf /src/leaf.go:51
                                                 8 44.44% |   0000000000001200 outer /src/outer.go:21
                                                 1  5.56% |   0000000000001300 rec /src/rec.go:41
----------------------------------------------------------+-------------
                                                 7   100% |   0000000000001500 leaf /src/leaf.go:51
         7 17.95% 61.54%          7 17.95%                | 0000000000001700 leaf /src/leaf.go:52
                                                 7   100% |   0000000000001500 leaf /src/leaf.go:51
----------------------------------------------------------+-------------
                                                 5   100% |   0000000000001100 main /src/main.go:11
         5 12.82% 74.36%          5 12.82%                | 0000000000001400 [prog]
----------------------------------------------------------+-------------
                                                 4 80.00% |   0000000000001100 main /src/main.go:11
                                                 1 20.00% |   0000000000001200 inner /src/inner.go:31
         3  7.69% 82.05%          5 12.82%                | 0000000000001300 rec /src/rec.go:41
                                                 2 40.00% |   0000000000001600 rec /src/rec.go:43
                                                 1 20.00% |   0000000000001200 outer /src/outer.go:21
----------------------------------------------------------+-------------
                                                 3   100% |   0000000000001600 rec /src/rec.go:43 (inline)
         3  7.69% 89.74%          3  7.69%                | 0000000000001600 rec /src/rec.go:42
                                                 2 66.67% |   0000000000001600 rec /src/rec.go:43
----------------------------------------------------------+-------------
         0     0% 89.74%         27 69.23%                | 0000000000001100 main /src/main.go:11
                                                10 37.04% |   0000000000001200 outer /src/outer.go:21
                                                 7 25.93% |   0000000000001500 leaf /src/leaf.go:51
                                                 5 18.52% |   0000000000001400 [prog]
                                                 4 14.81% |   0000000000001300 rec /src/rec.go:41
                                                 1  3.70% |   0000000000001600 rec /src/rec.go:43
----------------------------------------------------------+-------------
                                                10 55.56% |   0000000000001100 main /src/main.go:11
                                                 8 44.44% |   0000000000001200 inner /src/inner.go:31
                                                 1  5.56% |   0000000000001300 rec /src/rec.go:41
         0     0% 89.74%         18 46.15%                | 0000000000001200 outer /src/outer.go:21
                                                18   100% |   0000000000001200 inner /src/inner.go:31 (inline)
----------------------------------------------------------+-------------
                                                 2 66.67% |   0000000000001300 rec /src/rec.go:41
                                                 2 66.67% |   0000000000001600 rec /src/rec.go:42
                                                 1 33.33% |   0000000000001100 main /src/main.go:11
         0     0% 89.74%          3  7.69%                | 0000000000001600 rec /src/rec.go:43
                                                 3   100% |   0000000000001600 rec /src/rec.go:42 (inline)
----------------------------------------------------------+-------------
--- tree call_tree=true Total()=39
File: prog
Type: samples
Showing nodes accounting for 35, 89.74% of 39 total
----------------------------------------------------------+-------------
      flat  flat%   sum%        cum   cum%   calls calls% + context 	 	 
----------------------------------------------------------+-------------
                                                 9 56.25% |   0000000000001200 inner /src/inner.go:31
                                                 7 43.75% |   0000000000001100 main /src/main.go:11
                                                 7 43.75% |   0000000000001700 leaf /src/leaf.go:52
         9 23.08% 23.08%         16 41.03%                | 0000000000001500 leaf /src/leaf.go:51
                                                 7 43.75% |   0000000000001700 leaf /src/leaf.go:52
----------------------------------------------------------+-------------
                                                18   100% |   0000000000001200 outer /src/outer.go:21 (inline)
         8 20.51% 43.59%         18 46.15%                | 0000000000001200 inner /src/inner.go:31
                                                 9 50.00% |   0000000000001500 leaf /src/leaf.go:51
                                                 8 44.44% |   0000000000001200 outer /src/outer.go:21
                                                 1  5.56% |   0000000000001300 rec /src/rec.go:41
----------------------------------------------------------+-------------
                                                 7   100% |   0000000000001500 leaf /src/leaf.go:51
         7 17.95% 61.54%          7 17.95%                | 0000000000001700 leaf /src/leaf.go:52
                                                 7   100% |   0000000000001500 leaf /src/leaf.go:51
----------------------------------------------------------+-------------
                                                 5   100% |   0000000000001100 main /src/main.go:11
         5 12.82% 74.36%          5 12.82%                | 0000000000001400 [prog]
----------------------------------------------------------+-------------
                                                 4 80.00% |   0000000000001100 main /src/main.go:11
                                                 1 20.00% |   0000000000001200 inner /src/inner.go:31
         3  7.69% 82.05%          5 12.82%                | 0000000000001300 rec /src/rec.go:41
                                                 2 40.00% |   0000000000001600 rec /src/rec.go:43
                                                 1 20.00% |   0000000000001200 outer /src/outer.go:21
----------------------------------------------------------+-------------
                                                 3   100% |   0000000000001600 rec /src/rec.go:43 (inline)
         3  7.69% 89.74%          3  7.69%                | 0000000000001600 rec /src/rec.go:42
                                                 2 66.67% |   0000000000001600 rec /src/rec.go:43
----------------------------------------------------------+-------------
         0     0% 89.74%         27 69.23%                | 0000000000001100 main /src/main.go:11
                                                10 37.04% |   0000000000001200 outer /src/outer.go:21
                                                 7 25.93% |   0000000000001500 leaf /src/leaf.go:51
                                                 5 18.52% |   0000000000001400 [prog]
                                                 4 14.81% |   0000000000001300 rec /src/rec.go:41
                                                 1  3.70% |   0000000000001600 rec /src/rec.go:43
----------------------------------------------------------+-------------
                                                10 55.56% |   0000000000001100 main /src/main.go:11
                                                 8 44.44% |   0000000000001200 inner /src/inner.go:31
                                                 1  5.56% |   0000000000001300 rec /src/rec.go:41
         0     0% 89.74%         18 46.15%                | 0000000000001200 outer /src/outer.go:21
                                                18   100% |   0000000000001200 inner /src/inner.go:31 (inline)
----------------------------------------------------------+-------------
                                                 2 66.67% |   0000000000001300 rec /src/rec.go:41
                                                 2 66.67% |   0000000000001600 rec /src/rec.go:42
                                                 1 33.33% |   0000000000001100 main /src/main.go:11
         0     0% 89.74%          3  7.69%                | 0000000000001600 rec /src/rec.go:43
                                                 3   100% |   0000000000001600 rec /src/rec.go:42 (inline)
----------------------------------------------------------+-------------
--- traces call_tree=false Total()=39
File: prog
Type: samples
-----------+-------------------------------------------------------
         3   0000000000001500 leaf /src/leaf.go:51
             0000000000001200 inner /src/inner.go:31 (inline)
             0000000000001200 outer /src/outer.go:21
             0000000000001100 main /src/main.go:11
-----------+-------------------------------------------------------
         2   0000000000001300 rec /src/rec.go:41
             0000000000001300 rec /src/rec.go:41
             0000000000001300 rec /src/rec.go:41
             0000000000001100 main /src/main.go:11
-----------+-------------------------------------------------------
         1   0000000000001300 rec /src/rec.go:41
             0000000000001200 inner /src/inner.go:31 (inline)
             0000000000001200 outer /src/outer.go:21
             0000000000001300 rec /src/rec.go:41
             0000000000001200 inner /src/inner.go:31 (inline)
             0000000000001200 outer /src/outer.go:21
             0000000000001100 main /src/main.go:11
-----------+-------------------------------------------------------
         5   0000000000001400 [prog]
             0000000000001100 main /src/main.go:11
-----------+-------------------------------------------------------
         k:  v1 v2
     bytes:  64
         6   0000000000001500 leaf /src/leaf.go:51
             0000000000001200 inner /src/inner.go:31 (inline)
             0000000000001200 outer /src/outer.go:21
             0000000000001100 main /src/main.go:11
-----------+-------------------------------------------------------
         1   0000000000001600 rec /src/rec.go:42 (inline)
             0000000000001600 rec /src/rec.go:43
             0000000000001100 main /src/main.go:11
-----------+-------------------------------------------------------
         2   0000000000001600 rec /src/rec.go:42 (inline)
             0000000000001600 rec /src/rec.go:43
             0000000000001600 rec /src/rec.go:42 (inline)
             0000000000001600 rec /src/rec.go:43
             0000000000001300 rec /src/rec.go:41
             0000000000001100 main /src/main.go:11
-----------+-------------------------------------------------------
         7   0000000000001700 leaf /src/leaf.go:52
             0000000000001500 leaf /src/leaf.go:51
             0000000000001700 leaf /src/leaf.go:52
             0000000000001500 leaf /src/leaf.go:51
             0000000000001100 main /src/main.go:11
-----------+-------------------------------------------------------
         0   0000000000001500 leaf /src/leaf.go:51
             0000000000001100 main /src/main.go:11
-----------+-------------------------------------------------------
         0   0000000000001100 main /src/main.go:11
             0000000000001100 main /src/main.go:11
-----------+-------------------------------------------------------
         8   0000000000001200 inner /src/inner.go:31 (inline)
             0000000000001200 outer /src/outer.go:21
             0000000000001200 inner /src/inner.go:31 (inline)
             0000000000001200 outer /src/outer.go:21
-----------+-------------------------------------------------------
pprof::base:  true
         0   0000000000001500 leaf /src/leaf.go:51
             0000000000001200 inner /src/inner.go:31 (inline)
             0000000000001200 outer /src/outer.go:21
             0000000000001100 main /src/main.go:11
-----------+-------------------------------------------------------
pprof::base:  true
         0   0000000000001300 rec /src/rec.go:41
             0000000000001200 inner /src/inner.go:31 (inline)
             0000000000001200 outer /src/outer.go:21
             0000000000001300 rec /src/rec.go:41
             0000000000001200 inner /src/inner.go:31 (inline)
             0000000000001200 outer /src/outer.go:21
             0000000000001100 main /src/main.go:11
-----------+-------------------------------------------------------
pprof::base:  true
         0   0000000000001400 [prog]
             0000000000001100 main /src/main.go:11
-----------+-------------------------------------------------------
pprof::base:  true
         0   0000000000001600 rec /src/rec.go:42 (inline)
             0000000000001600 rec /src/rec.go:43
             0000000000001100 main /src/main.go:11
-----------+-------------------------------------------------------
pprof::base:  true
         0   0000000000001700 leaf /src/leaf.go:52
             0000000000001500 leaf /src/leaf.go:51
             0000000000001700 leaf /src/leaf.go:52
             0000000000001500 leaf /src/leaf.go:51
             0000000000001100 main /src/main.go:11
-----------+-------------------------------------------------------
pprof::base:  true
         0   0000000000001100 main /src/main.go:11
             0000000000001100 main /src/main.go:11
-----------+-------------------------------------------------------
--- dot call_tree=false Total()=39
digraph "zz" {
node [style=filled fillcolor="#f8f8f8"]
subgraph cluster_L { "File: prog" [shape=box fontsize=16 label="File: prog\lType: samples\lShowing nodes accounting for 35, 89.74% of 39 total\l\lSee https://git.io/JfYMW for how to read the graph\l" tooltip="zz"] }
N1 [label="0000000000001100\nmain\nmain.go:11\n0 of 27 (69.23%)" id="node1" fontsize=8 shape=box tooltip="0000000000001100 main /src/main.go:11 (27)" color="#b21200" fillcolor="#edd7d5"]
N2 [label="0000000000001500\nleaf\nleaf.go:51\n9 (23.08%)\nof 16 (41.03%)" id="node2" fontsize=24 shape=box tooltip="0000000000001500 leaf /src/leaf.go:51 (16)" color="#b22900" fillcolor="#eddad5"]
N2_0 [label = "k:v1\nk:v2" id="N2_0" fontsize=8 shape=box3d tooltip="6"]
N2 -> N2_0 [label=" 6" weight=100 tooltip="6" labeltooltip="6"]
NN2_0_0 [label = "64" id="NN2_0_0" fontsize=8 shape=box3d tooltip="6"]
N2_0 -> NN2_0_0 [label=" 6" weight=100 tooltip="6" labeltooltip="6"]
N3 [label="0000000000001200\ninner\ninner.go:31\n8 (20.51%)\nof 18 (46.15%)" id="node3" fontsize=24 shape=box tooltip="0000000000001200 inner /src/inner.go:31 (18)" color="#b22400" fillcolor="#eddad5"]
N4 [label="0000000000001200\nouter\nouter.go:21\n0 of 18 (46.15%)" id="node4" fontsize=8 shape=box tooltip="0000000000001200 outer /src/outer.go:21 (18)" color="#b22400" fillcolor="#eddad5"]
N5 [label="0000000000001700\nleaf\nleaf.go:52\n7 (17.95%)" id="node5" fontsize=23 shape=box tooltip="0000000000001700 leaf /src/leaf.go:52 (7)" color="#b25212" fillcolor="#ede0d7"]
N6 [label="0000000000001300\nrec\nrec.go:41\n3 (7.69%)\nof 5 (12.82%)" id="node6" fontsize=18 shape=box tooltip="0000000000001300 rec /src/rec.go:41 (5)" color="#b27440" fillcolor="#ede4dd"]
N7 [label="0000000000001400\n[prog]\n5 (12.82%)" id="node7" fontsize=20 shape=box tooltip="0000000000001400 [prog] (5)" color="#b27440" fillcolor="#ede4dd"]
N8 [label="0000000000001600\nrec\nrec.go:42\n3 (7.69%)" id="node8" fontsize=18 shape=box tooltip="0000000000001600 rec /src/rec.go:42 (3)" color="#b2926d" fillcolor="#ede8e4"]
N9 [label="0000000000001600\nrec\nrec.go:43\n0 of 3 (7.69%)" id="node9" fontsize=8 shape=box tooltip="0000000000001600 rec /src/rec.go:43 (3)" color="#b2926d" fillcolor="#ede8e4"]
N4 -> N3 [label=" 18\n (inline)" weight=47 penwidth=3 color="#b22400" tooltip="0000000000001200 outer /src/outer.go:21 -> 0000000000001200 inner /src/inner.go:31 (18)" labeltooltip="0000000000001200 outer /src/outer.go:21 -> 0000000000001200 inner /src/inner.go:31 (18)"]
N1 -> N4 [label=" 10" weight=26 penwidth=2 color="#b23b00" tooltip="0000000000001100 main /src/main.go:11 -> 0000000000001200 outer /src/outer.go:21 (10)" labeltooltip="0000000000001100 main /src/main.go:11 -> 0000000000001200 outer /src/outer.go:21 (10)"]
N3 -> N2 [label=" 9" weight=24 penwidth=2 color="#b23f00" tooltip="0000000000001200 inner /src/inner.go:31 -> 0000000000001500 leaf /src/leaf.go:51 (9)" labeltooltip="0000000000001200 inner /src/inner.go:31 -> 0000000000001500 leaf /src/leaf.go:51 (9)"]
N3 -> N4 [label=" 8" weight=21 penwidth=2 color="#b24300" tooltip="0000000000001200 inner /src/inner.go:31 -> 0000000000001200 outer /src/outer.go:21 (8)" labeltooltip="0000000000001200 inner /src/inner.go:31 -> 0000000000001200 outer /src/outer.go:21 (8)"]
N1 -> N2 [label=" 7" weight=18 color="#b25212" tooltip="0000000000001100 main /src/main.go:11 -> 0000000000001500 leaf /src/leaf.go:51 (7)" labeltooltip="0000000000001100 main /src/main.go:11 -> 0000000000001500 leaf /src/leaf.go:51 (7)"]
N2 -> N5 [label=" 7" weight=18 color="#b25212" tooltip="0000000000001500 leaf /src/leaf.go:51 -> 0000000000001700 leaf /src/leaf.go:52 (7)" labeltooltip="0000000000001500 leaf /src/leaf.go:51 -> 0000000000001700 leaf /src/leaf.go:52 (7)" minlen=2]
N5 -> N2 [label=" 7" weight=18 color="#b25212" tooltip="0000000000001700 leaf /src/leaf.go:52 -> 0000000000001500 leaf /src/leaf.go:51 (7)" labeltooltip="0000000000001700 leaf /src/leaf.go:52 -> 0000000000001500 leaf /src/leaf.go:51 (7)"]
N1 -> N7 [label=" 5" weight=13 color="#b27440" tooltip="0000000000001100 main /src/main.go:11 -> 0000000000001400 [prog] (5)" labeltooltip="0000000000001100 main /src/main.go:11 -> 0000000000001400 [prog] (5)"]
N1 -> N6 [label=" 4" weight=11 color="#b28456" tooltip="0000000000001100 main /src/main.go:11 -> 0000000000001300 rec /src/rec.go:41 (4)" labeltooltip="0000000000001100 main /src/main.go:11 -> 0000000000001300 rec /src/rec.go:41 (4)"]
N9 -> N8 [label=" 3\n (inline)" weight=8 color="#b2926d" tooltip="0000000000001600 rec /src/rec.go:43 -> 0000000000001600 rec /src/rec.go:42 (3)" labeltooltip="0000000000001600 rec /src/rec.go:43 -> 0000000000001600 rec /src/rec.go:42 (3)"]
N6 -> N9 [label=" 2" weight=6 color="#b29f84" tooltip="0000000000001300 rec /src/rec.go:41 -> 0000000000001600 rec /src/rec.go:43 (2)" labeltooltip="0000000000001300 rec /src/rec.go:41 -> 0000000000001600 rec /src/rec.go:43 (2)"]
N8 -> N9 [label=" 2" weight=6 color="#b29f84" tooltip="0000000000001600 rec /src/rec.go:42 -> 0000000000001600 rec /src/rec.go:43 (2)" labeltooltip="0000000000001600 rec /src/rec.go:42 -> 0000000000001600 rec /src/rec.go:43 (2)"]
N1 -> N9 [label=" 1" weight=3 color="#b2aa9b" tooltip="0000000000001100 main /src/main.go:11 -> 0000000000001600 rec /src/rec.go:43 (1)" labeltooltip="0000000000001100 main /src/main.go:11 -> 0000000000001600 rec /src/rec.go:43 (1)"]
N3 -> N6 [label=" 1" weight=3 color="#b2aa9b" tooltip="0000000000001200 inner /src/inner.go:31 -> 0000000000001300 rec /src/rec.go:41 (1)" labeltooltip="0000000000001200 inner /src/inner.go:31 -> 0000000000001300 rec /src/rec.go:41 (1)"]
N6 -> N4 [label=" 1" weight=3 color="#b2aa9b" tooltip="0000000000001300 rec /src/rec.go:41 -> 0000000000001200 outer /src/outer.go:21 (1)" labeltooltip="0000000000001300 rec /src/rec.go:41 -> 0000000000001200 outer /src/outer.go:21 (1)"]
}
--- callgrind call_tree=false Total()=39
positions: instr line
events: samples(count)

ob=(1) /bin/prog
fl=(1) /src/leaf.go
fn=(1) leaf
0x1500 51 9
cfl=(1)
cfn=(1)
calls=0 0x1700 52
* * 7

ob=(1)
fl=(2) /src/inner.go
fn=(2) inner
-768 31 8
cfl=(1)
cfn=(1)
calls=0 * 51
* * 9
cfl=(3) /src/outer.go
cfn=(3) outer
calls=0 -768 21
* * 8
cfl=(4) /src/rec.go
cfn=(4) rec
calls=0 -512 41
* * 1

ob=(1)
fl=(1)
fn=(1)
+1280 52 7
cfl=(1)
cfn=(1)
calls=0 +768 51
* * 7

ob=(1)
fl=
fn=
-768 0 5

ob=(1)
fl=(4)
fn=(4)
-256 41 3
cfl=(4)
cfn=(4)
calls=0 +512 43
* * 2
cfl=(3)
cfn=(3)
calls=0 -512 21
* * 1
+768 42 3
cfl=(4)
cfn=(4)
calls=0 +768 43
* * 2

ob=(1)
fl=(5) /src/main.go
fn=(5) main
-1280 11 0
cfl=(3)
cfn=(3)
calls=0 -1024 21
* * 10
cfl=(1)
cfn=(1)
calls=0 -256 51
* * 7
cfl=
cfn=
calls=0 -512 0
* * 5
cfl=(4)
cfn=(4)
calls=0 -768 41
* * 4
cfl=(4)
cfn=(4)
calls=0 * 43
* * 1

ob=(1)
fl=(3)
fn=(3)
+256 21 0
cfl=(2)
cfn=(2)
calls=0 +256 31
* * 18

ob=(1)
fl=(4)
fn=(4)
+1024 43 0
cfl=(4)
cfn=(4)
calls=0 +1024 42
* * 3
=== diff-zero-base idx=0 mean=true computeTotal=1
--- text call_tree=false Total()=1
File: prog
Type: samples
Showing nodes accounting for 6, 600.00% of 1 total
      flat  flat%   sum%        cum   cum%
         1   100%   100%          1   100%  0000000000001500 leaf /src/leaf.go:51
         1   100% 200.00%          1   100%  0000000000001200 inner /src/inner.go:31 (inline)
         1   100% 300.00%          1   100%  0000000000001700 leaf /src/leaf.go:52
         1   100% 400.00%          1   100%  0000000000001400 [prog]
         1   100% 500.00%          1   100%  0000000000001300 rec /src/rec.go:41
         1   100% 600.00%          1   100%  0000000000001600 rec /src/rec.go:42 (inline)
         0     0% 600.00%          1   100%  0000000000001100 main /src/main.go:11
         0     0% 600.00%          1   100%  0000000000001200 outer /src/outer.go:21
         0     0% 600.00%          1   100%  0000000000001600 rec /src/rec.go:43
--- tree call_tree=false Total()=1
File: prog
Type: samples
Showing nodes accounting for 6, 600.00% of 1 total
----------------------------------------------------------+-------------
      flat  flat%   sum%        cum   cum%   calls calls% + context 	 	 
----------------------------------------------------------+-------------
                                                 1   100% |   0000000000001200 inner /src/inner.go:31
                                                 1   100% |   0000000000001100 main /src/main.go:11
                                                 1   100% |   0000000000001700 leaf /src/leaf.go:52
         1   100%   100%          1   100%                | 0000000000001500 leaf /src/leaf.go:51
                                                 1   100% |   0000000000001700 leaf /src/leaf.go:52
----------------------------------------------------------+-------------
                                                 1   100% |   0000000000001200 outer /src/outer.go:21 (inline)
         1   100% 200.00%          1   100%                | 0000000000001200 inner /src/inner.go:31
                                                 1   100% |   0000000000001500 leaf /src/leaf.go:51
                                                 1   100% |   0000000000001200 outer /src/outer.go:21
                                                 1   100% |   0000000000001300 rec /src/rec.go:41
----------------------------------------------------------+-------------
                                                 1   100% |   0000000000001500 leaf /src/leaf.go:51
         1   100% 300.00%          1   100%                | 0000000000001700 leaf /src/leaf.go:52
                                                 1   100% |   0000000000001500 leaf /src/leaf.go:51
----------------------------------------------------------+-------------
                                                 1   100% |   0000000000001100 main /src/main.go:11
         1   100% 400.00%          1   100%                | 0000000000001400 [prog]
----------------------------------------------------------+-------------
                                                 1   100% |   0000000000001100 main /src/main.go:11
                                                 1   100% |   0000000000001200 inner /src/inner.go:31
         1   100% 500.00%          1   100%                | 0000000000001300 rec /src/rec.go:41
                                                 1   100% |   0000000000001600 rec /src/rec.go:43
                                                 1   100% |   0000000000001200 outer /src/outer.go:21
----------------------------------------------------------+-------------
                                                 1   100% |   0000000000001600 rec /src/rec.go:43 (inline)
         1   100% 600.00%          1   100%                | 0000000000001600 rec /src/rec.go:42
                                                 1   100% |   0000000000001600 rec /src/rec.go:43
----------------------------------------------------------+-------------
         0     0% 600.00%          1   100%                | 0000000000001100 main /src/main.go:11
                                                 1   100% |   0000000000001200 outer /src/outer.go:21
                                                 1   100% |   0000000000001500 leaf /src/leaf.go:51
                                                 1   100% |   0000000000001400 [prog]
                                                 1   100% |   0000000000001300 rec /src/rec.go:41
                                                 1   100% |   0000000000001600 rec /src/rec.go:43
----------------------------------------------------------+-------------
                                                 1   100% |   0000000000001100 main /src/main.go:11
                                                 1   100% |   0000000000001200 inner /src/inner.go:31
                                                 1   100% |   0000000000001300 rec /src/rec.go:41
         0     0% 600.00%          1   100%                | 0000000000001200 outer /src/outer.go:21
                                                 1   100% |   0000000000001200 inner /src/inner.go:31 (inline)
----------------------------------------------------------+-------------
                                                 1   100% |   0000000000001300 rec /src/rec.go:41
                                                 1   100% |   0000000000001600 rec /src/rec.go:42
                                                 1   100% |   0000000000001100 main /src/main.go:11
         0     0% 600.00%          1   100%                | 0000000000001600 rec /src/rec.go:43
                                                 1   100% |   0000000000001600 rec /src/rec.go:42 (inline)
----------------------------------------------------------+-------------
--- tree call_tree=true Total()=1
File: prog
Type: samples
Showing nodes accounting for 6, 600.00% of 1 total
----------------------------------------------------------+-------------
      flat  flat%   sum%        cum   cum%   calls calls% + context 	 	 
----------------------------------------------------------+-------------
                                                 1   100% |   0000000000001200 inner /src/inner.go:31
                                                 1   100% |   0000000000001100 main /src/main.go:11
                                                 1   100% |   0000000000001700 leaf /src/leaf.go:52
         1   100%   100%          1   100%                | 0000000000001500 leaf /src/leaf.go:51
                                                 1   100% |   0000000000001700 leaf /src/leaf.go:52
----------------------------------------------------------+-------------
                                                 1   100% |   0000000000001200 outer /src/outer.go:21 (inline)
         1   100% 200.00%          1   100%                | 0000000000001200 inner /src/inner.go:31
                                                 1   100% |   0000000000001500 leaf /src/leaf.go:51
                                                 1   100% |   0000000000001200 outer /src/outer.go:21
                                                 1   100% |   0000000000001300 rec /src/rec.go:41
----------------------------------------------------------+-------------
                                                 1   100% |   0000000000001500 leaf /src/leaf.go:51
         1   100% 300.00%          1   100%                | 0000000000001700 leaf /src/leaf.go:52
                                                 1   100% |   0000000000001500 leaf /src/leaf.go:51
----------------------------------------------------------+-------------
                                                 1   100% |   0000000000001100 main /src/main.go:11
         1   100% 400.00%          1   100%                | 0000000000001400 [prog]
----------------------------------------------------------+-------------
                                                 1   100% |   0000000000001100 main /src/main.go:11
                                                 1   100% |   0000000000001200 inner /src/inner.go:31
         1   100% 500.00%          1   100%                | 0000000000001300 rec /src/rec.go:41
                                                 1   100% |   0000000000001600 rec /src/rec.go:43
                                                 1   100% |   0000000000001200 outer /src/outer.go:21
----------------------------------------------------------+-------------
                                                 1   100% |   0000000000001600 rec /src/rec.go:43 (inline)
         1   100% 600.00%          1   100%                | 0000000000001600 rec /src/rec.go:42
                                                 1   100% |   0000000000001600 rec /src/rec.go:43
----------------------------------------------------------+-------------
         0     0% 600.00%          1   100%                | 0000000000001100 main /src/main.go:11
                                                 1   100% |   0000000000001200 outer /src/outer.go:21
                                                 1   100% |   0000000000001500 leaf /src/leaf.go:51
                                                 1   100% |   0000000000001400 [prog]
                                                 1   100% |   0000000000001300 rec /src/rec.go:41
                                                 1   100% |   0000000000001600 rec /src/rec.go:43
----------------------------------------------------------+-------------
                                                 1   100% |   0000000000001100 main /src/main.go:11
                                                 1   100% |   0000000000001200 inner /src/inner.go:31
                                                 1   100% |   0000000000001300 rec /src/rec.go:41
         0     0% 600.00%          1   100%                | 0000000000001200 outer /src/outer.go:21
                                                 1   100% |   0000000000001200 inner /src/inner.go:31 (inline)
----------------------------------------------------------+-------------
                                                 1   100% |   0000000000001300 rec /src/rec.go:41
                                                 1   100% |   0000000000001600 rec /src/rec.go:42
                                                 1   100% |   0000000000001100 main /src/main.go:11
         0     0% 600.00%          1   100%                | 0000000000001600 rec /src/rec.go:43
                                                 1   100% |   0000000000001600 rec /src/rec.go:42 (inline)
----------------------------------------------------------+-------------
--- traces call_tree=false Total()=1
File: prog
Type: samples
-----------+-------------------------------------------------------
         1   0000000000001500 leaf /src/leaf.go:51
             0000000000001200 inner /src/inner.go:31 (inline)
             0000000000001200 outer /src/outer.go:21
             0000000000001100 main /src/main.go:11
-----------+-------------------------------------------------------
         1   0000000000001300 rec /src/rec.go:41
             0000000000001300 rec /src/rec.go:41
             0000000000001300 rec /src/rec.go:41
             0000000000001100 main /src/main.go:11
-----------+-------------------------------------------------------
         1   0000000000001300 rec /src/rec.go:41
             0000000000001200 inner /src/inner.go:31 (inline)
             0000000000001200 outer /src/outer.go:21
             0000000000001300 rec /src/rec.go:41
             0000000000001200 inner /src/inner.go:31 (inline)
             0000000000001200 outer /src/outer.go:21
             0000000000001100 main /src/main.go:11
-----------+-------------------------------------------------------
         1   0000000000001400 [prog]
             0000000000001100 main /src/main.go:11
-----------+-------------------------------------------------------
         k:  v1 v2
     bytes:  64
         1   0000000000001500 leaf /src/leaf.go:51
             0000000000001200 inner /src/inner.go:31 (inline)
             0000000000001200 outer /src/outer.go:21
             0000000000001100 main /src/main.go:11
-----------+-------------------------------------------------------
         1   0000000000001600 rec /src/rec.go:42 (inline)
             0000000000001600 rec /src/rec.go:43
             0000000000001100 main /src/main.go:11
-----------+-------------------------------------------------------
         1   0000000000001600 rec /src/rec.go:42 (inline)
             0000000000001600 rec /src/rec.go:43
             0000000000001600 rec /src/rec.go:42 (inline)
             0000000000001600 rec /src/rec.go:43
             0000000000001300 rec /src/rec.go:41
             0000000000001100 main /src/main.go:11
-----------+-------------------------------------------------------
         1   0000000000001700 leaf /src/leaf.go:52
             0000000000001500 leaf /src/leaf.go:51
             0000000000001700 leaf /src/leaf.go:52
             0000000000001500 leaf /src/leaf.go:51
             0000000000001100 main /src/main.go:11
-----------+-------------------------------------------------------
         0   0000000000001500 leaf /src/leaf.go:51
             0000000000001100 main /src/main.go:11
-----------+-------------------------------------------------------
         0   0000000000001100 main /src/main.go:11
             0000000000001100 main /src/main.go:11
-----------+-------------------------------------------------------
         1   0000000000001200 inner /src/inner.go:31 (inline)
             0000000000001200 outer /src/outer.go:21
             0000000000001200 inner /src/inner.go:31 (inline)
             0000000000001200 outer /src/outer.go:21
-----------+-------------------------------------------------------
pprof::base:  true
         0   0000000000001500 leaf /src/leaf.go:51
             0000000000001200 inner /src/inner.go:31 (inline)
             0000000000001200 outer /src/outer.go:21
             0000000000001100 main /src/main.go:11
-----------+-------------------------------------------------------
pprof::base:  true
         0   0000000000001300 rec /src/rec.go:41
             0000000000001200 inner /src/inner.go:31 (inline)
             0000000000001200 outer /src/outer.go:21
             0000000000001300 rec /src/rec.go:41
             0000000000001200 inner /src/inner.go:31 (inline)
             0000000000001200 outer /src/outer.go:21
             0000000000001100 main /src/main.go:11
-----------+-------------------------------------------------------
pprof::base:  true
         0   0000000000001400 [prog]
             0000000000001100 main /src/main.go:11
-----------+-------------------------------------------------------
pprof::base:  true
         0   0000000000001600 rec /src/rec.go:42 (inline)
             0000000000001600 rec /src/rec.go:43
             0000000000001100 main /src/main.go:11
-----------+-------------------------------------------------------
pprof::base:  true
         0   0000000000001700 leaf /src/leaf.go:52
             0000000000001500 leaf /src/leaf.go:51
             0000000000001700 leaf /src/leaf.go:52
             0000000000001500 leaf /src/leaf.go:51
             0000000000001100 main /src/main.go:11
-----------+-------------------------------------------------------
pprof::base:  true
         0   0000000000001100 main /src/main.go:11
             0000000000001100 main /src/main.go:11
-----------+-------------------------------------------------------
--- dot call_tree=false Total()=1
digraph "zz" {
node [style=filled fillcolor="#f8f8f8"]
subgraph cluster_L { "File: prog" [shape=box fontsize=16 label="File: prog\lType: samples\lShowing nodes accounting for 6, 600.00% of 1 total\l\lSee https://git.io/JfYMW for how to read the graph\l" tooltip="zz"] }
N1 [label="0000000000001100\nmain\nmain.go:11\n0 of 1 (100%)" id="node1" fontsize=8 shape=box tooltip="0000000000001100 main /src/main.go:11 (1)" color="#b20000" fillcolor="#edd5d5"]
N2 [label="0000000000001500\nleaf\nleaf.go:51\n1 (100%)" id="node2" fontsize=24 shape=box tooltip="0000000000001500 leaf /src/leaf.go:51 (1)" color="#b20000" fillcolor="#edd5d5"]
N2_0 [label = "k:v1\nk:v2" id="N2_0" fontsize=8 shape=box3d tooltip="1"]
N2 -> N2_0 [label=" 1" weight=100 tooltip="1" labeltooltip="1"]
NN2_0_0 [label = "64" id="NN2_0_0" fontsize=8 shape=box3d tooltip="1"]
N2_0 -> NN2_0_0 [label=" 1" weight=100 tooltip="1" labeltooltip="1"]
N3 [label="0000000000001200\ninner\ninner.go:31\n1 (100%)" id="node3" fontsize=24 shape=box tooltip="0000000000001200 inner /src/inner.go:31 (1)" color="#b20000" fillcolor="#edd5d5"]
N4 [label="0000000000001200\nouter\nouter.go:21\n0 of 1 (100%)" id="node4" fontsize=8 shape=box tooltip="0000000000001200 outer /src/outer.go:21 (1)" color="#b20000" fillcolor="#edd5d5"]
N5 [label="0000000000001700\nleaf\nleaf.go:52\n1 (100%)" id="node5" fontsize=24 shape=box tooltip="0000000000001700 leaf /src/leaf.go:52 (1)" color="#b20000" fillcolor="#edd5d5"]
N6 [label="0000000000001300\nrec\nrec.go:41\n1 (100%)" id="node6" fontsize=24 shape=box tooltip="0000000000001300 rec /src/rec.go:41 (1)" color="#b20000" fillcolor="#edd5d5"]
N7 [label="0000000000001400\n[prog]\n1 (100%)" id="node7" fontsize=24 shape=box tooltip="0000000000001400 [prog] (1)" color="#b20000" fillcolor="#edd5d5"]
N8 [label="0000000000001600\nrec\nrec.go:42\n1 (100%)" id="node8" fontsize=24 shape=box tooltip="0000000000001600 rec /src/rec.go:42 (1)" color="#b20000" fillcolor="#edd5d5"]
N9 [label="0000000000001600\nrec\nrec.go:43\n0 of 1 (100%)" id="node9" fontsize=8 shape=box tooltip="0000000000001600 rec /src/rec.go:43 (1)" color="#b20000" fillcolor="#edd5d5"]
N4 -> N3 [label=" 1\n (inline)" weight=101 penwidth=6 color="#b20000" tooltip="0000000000001200 outer /src/outer.go:21 -> 0000000000001200 inner /src/inner.go:31 (1)" labeltooltip="0000000000001200 outer /src/outer.go:21 -> 0000000000001200 inner /src/inner.go:31 (1)"]
N1 -> N4 [label=" 1" weight=101 penwidth=6 color="#b20000" tooltip="0000000000001100 main /src/main.go:11 -> 0000000000001200 outer /src/outer.go:21 (1)" labeltooltip="0000000000001100 main /src/main.go:11 -> 0000000000001200 outer /src/outer.go:21 (1)"]
N3 -> N2 [label=" 1" weight=101 penwidth=6 color="#b20000" tooltip="0000000000001200 inner /src/inner.go:31 -> 0000000000001500 leaf /src/leaf.go:51 (1)" labeltooltip="0000000000001200 inner /src/inner.go:31 -> 0000000000001500 leaf /src/leaf.go:51 (1)"]
N3 -> N4 [label=" 1" weight=101 penwidth=6 color="#b20000" tooltip="0000000000001200 inner /src/inner.go:31 -> 0000000000001200 outer /src/outer.go:21 (1)" labeltooltip="0000000000001200 inner /src/inner.go:31 -> 0000000000001200 outer /src/outer.go:21 (1)"]
N1 -> N2 [label=" 1" weight=101 penwidth=6 color="#b20000" tooltip="0000000000001100 main /src/main.go:11 -> 0000000000001500 leaf /src/leaf.go:51 (1)" labeltooltip="0000000000001100 main /src/main.go:11 -> 0000000000001500 leaf /src/leaf.go:51 (1)"]
N2 -> N5 [label=" 1" weight=101 penwidth=6 color="#b20000" tooltip="0000000000001500 leaf /src/leaf.go:51 -> 0000000000001700 leaf /src/leaf.go:52 (1)" labeltooltip="0000000000001500 leaf /src/leaf.go:51 -> 0000000000001700 leaf /src/leaf.go:52 (1)" minlen=2]
N5 -> N2 [label=" 1" weight=101 penwidth=6 color="#b20000" tooltip="0000000000001700 leaf /src/leaf.go:52 -> 0000000000001500 leaf /src/leaf.go:51 (1)" labeltooltip="0000000000001700 leaf /src/leaf.go:52 -> 0000000000001500 leaf /src/leaf.go:51 (1)"]
N1 -> N7 [label=" 1" weight=101 penwidth=6 color="#b20000" tooltip="0000000000001100 main /src/main.go:11 -> 0000000000001400 [prog] (1)" labeltooltip="0000000000001100 main /src/main.go:11 -> 0000000000001400 [prog] (1)"]
N1 -> N6 [label=" 1" weight=101 penwidth=6 color="#b20000" tooltip="0000000000001100 main /src/main.go:11 -> 0000000000001300 rec /src/rec.go:41 (1)" labeltooltip="0000000000001100 main /src/main.go:11 -> 0000000000001300 rec /src/rec.go:41 (1)"]
N9 -> N8 [label=" 1\n (inline)" weight=101 penwidth=6 color="#b20000" tooltip="0000000000001600 rec /src/rec.go:43 -> 0000000000001600 rec /src/rec.go:42 (1)" labeltooltip="0000000000001600 rec /src/rec.go:43 -> 0000000000001600 rec /src/rec.go:42 (1)"]
N6 -> N9 [label=" 1" weight=101 penwidth=6 color="#b20000" tooltip="0000000000001300 rec /src/rec.go:41 -> 0000000000001600 rec /src/rec.go:43 (1)" labeltooltip="0000000000001300 rec /src/rec.go:41 -> 0000000000001600 rec /src/rec.go:43 (1)"]
N8 -> N9 [label=" 1" weight=101 penwidth=6 color="#b20000" tooltip="0000000000001600 rec /src/rec.go:42 -> 0000000000001600 rec /src/rec.go:43 (1)" labeltooltip="0000000000001600 rec /src/rec.go:42 -> 0000000000001600 rec /src/rec.go:43 (1)"]
N1 -> N9 [label=" 1" weight=101 penwidth=6 color="#b20000" tooltip="0000000000001100 main /src/main.go:11 -> 0000000000001600 rec /src/rec.go:43 (1)" labeltooltip="0000000000001100 main /src/main.go:11 -> 0000000000001600 rec /src/rec.go:43 (1)"]
N3 -> N6 [label=" 1" weight=101 penwidth=6 color="#b20000" tooltip="0000000000001200 inner /src/inner.go:31 -> 0000000000001300 rec /src/rec.go:41 (1)" labeltooltip="0000000000001200 inner /src/inner.go:31 -> 0000000000001300 rec /src/rec.go:41 (1)"]
N6 -> N4 [label=" 1" weight=101 penwidth=6 color="#b20000" tooltip="0000000000001300 rec /src/rec.go:41 -> 0000000000001200 outer /src/outer.go:21 (1)" labeltooltip="0000000000001300 rec /src/rec.go:41 -> 0000000000001200 outer /src/outer.go:21 (1)"]
}
--- callgrind call_tree=false Total()=1
positions: instr line
events: samples(count)

ob=(1) /bin/prog
fl=(1) /src/leaf.go
fn=(1) leaf
0x1500 51 1
cfl=(1)
cfn=(1)
calls=0 0x1700 52
* * 1

ob=(1)
fl=(2) /src/inner.go
fn=(2) inner
-768 31 1
cfl=(1)
cfn=(1)
calls=0 * 51
* * 1
cfl=(3) /src/outer.go
cfn=(3) outer
calls=0 -768 21
* * 1
cfl=(4) /src/rec.go
cfn=(4) rec
calls=0 -512 41
* * 1

ob=(1)
fl=(1)
fn=(1)
+1280 52 1
cfl=(1)
cfn=(1)
calls=0 +768 51
* * 1

ob=(1)
fl=
fn=
-768 0 1

ob=(1)
fl=(4)
fn=(4)
-256 41 1
cfl=(4)
cfn=(4)
calls=0 +512 43
* * 1
cfl=(3)
cfn=(3)
calls=0 -512 21
* * 1
+768 42 1
cfl=(4)
cfn=(4)
calls=0 +768 43
* * 1

ob=(1)
fl=(5) /src/main.go
fn=(5) main
-1280 11 0
cfl=(3)
cfn=(3)
calls=0 -1024 21
* * 1
cfl=(1)
cfn=(1)
calls=0 -256 51
* * 1
cfl=
cfn=
calls=0 -512 0
* * 1
cfl=(4)
cfn=(4)
calls=0 -768 41
* * 1
cfl=(4)
cfn=(4)
calls=0 * 43
* * 1

ob=(1)
fl=(3)
fn=(3)
+256 21 0
cfl=(2)
cfn=(2)
calls=0 +256 31
* * 1

ob=(1)
fl=(4)
fn=(4)
+1024 43 0
cfl=(4)
cfn=(4)
calls=0 +1024 42
* * 1
=== diff-zero-base idx=1 mean=false computeTotal=119
--- text call_tree=false Total()=119
File: prog
Type: cpu
Showing nodes accounting for 94ns, 78.99% of 119ns total
      flat  flat%   sum%        cum   cum%
      23ns 19.33% 19.33%       41ns 34.45%  0000000000001200 inner /src/inner.go:31 (inline)
      23ns 19.33% 38.66%       40ns 33.61%  0000000000001500 leaf /src/leaf.go:51
      19ns 15.97% 54.62%       71ns 59.66%  0000000000001100 main /src/main.go:11
      17ns 14.29% 68.91%       17ns 14.29%  0000000000001700 leaf /src/leaf.go:52
      11ns  9.24% 78.15%       11ns  9.24%  0000000000001400 [prog]
       2ns  1.68% 79.83%       -1ns  0.84%  0000000000001300 rec /src/rec.go:41
      -1ns  0.84% 78.99%       -1ns  0.84%  0000000000001600 rec /src/rec.go:42 (inline)
         0     0% 78.99%       41ns 34.45%  0000000000001200 outer /src/outer.go:21
         0     0% 78.99%       -1ns  0.84%  0000000000001600 rec /src/rec.go:43
--- tree call_tree=false Total()=119
File: prog
Type: cpu
Showing nodes accounting for 94ns, 78.99% of 119ns total
----------------------------------------------------------+-------------
      flat  flat%   sum%        cum   cum%   calls calls% + context 	 	 
----------------------------------------------------------+-------------
                                              41ns   100% |   0000000000001200 outer /src/outer.go:21 (inline)
      23ns 19.33% 19.33%       41ns 34.45%                | 0000000000001200 inner /src/inner.go:31
                                              23ns 56.10% |   0000000000001200 outer /src/outer.go:21
                                              23ns 56.10% |   0000000000001500 leaf /src/leaf.go:51
                                              -5ns 12.20% |   0000000000001300 rec /src/rec.go:41
----------------------------------------------------------+-------------
                                              23ns 57.50% |   0000000000001200 inner /src/inner.go:31
                                              17ns 42.50% |   0000000000001100 main /src/main.go:11
                                              17ns 42.50% |   0000000000001700 leaf /src/leaf.go:52
      23ns 19.33% 38.66%       40ns 33.61%                | 0000000000001500 leaf /src/leaf.go:51
                                              17ns 42.50% |   0000000000001700 leaf /src/leaf.go:52
----------------------------------------------------------+-------------
      19ns 15.97% 54.62%       71ns 59.66%                | 0000000000001100 main /src/main.go:11
                                              18ns 25.35% |   0000000000001200 outer /src/outer.go:21
                                              17ns 23.94% |   0000000000001500 leaf /src/leaf.go:51
                                              11ns 15.49% |   0000000000001400 [prog]
                                               4ns  5.63% |   0000000000001300 rec /src/rec.go:41
                                               2ns  2.82% |   0000000000001600 rec /src/rec.go:43
----------------------------------------------------------+-------------
                                              17ns   100% |   0000000000001500 leaf /src/leaf.go:51
      17ns 14.29% 68.91%       17ns 14.29%                | 0000000000001700 leaf /src/leaf.go:52
                                              17ns   100% |   0000000000001500 leaf /src/leaf.go:51
----------------------------------------------------------+-------------
                                              11ns   100% |   0000000000001100 main /src/main.go:11
      11ns  9.24% 78.15%       11ns  9.24%                | 0000000000001400 [prog]
----------------------------------------------------------+-------------
                                              -5ns 500.00% |   0000000000001200 inner /src/inner.go:31
                                               4ns 400.00% |   0000000000001100 main /src/main.go:11
       2ns  1.68% 79.83%       -1ns  0.84%                | 0000000000001300 rec /src/rec.go:41
                                              -5ns 500.00% |   0000000000001200 outer /src/outer.go:21
                                              -3ns 300.00% |   0000000000001600 rec /src/rec.go:43
----------------------------------------------------------+-------------
                                              -1ns   100% |   0000000000001600 rec /src/rec.go:43 (inline)
      -1ns  0.84% 78.99%       -1ns  0.84%                | 0000000000001600 rec /src/rec.go:42
                                              -3ns 300.00% |   0000000000001600 rec /src/rec.go:43
----------------------------------------------------------+-------------
                                              23ns 56.10% |   0000000000001200 inner /src/inner.go:31
                                              18ns 43.90% |   0000000000001100 main /src/main.go:11
                                              -5ns 12.20% |   0000000000001300 rec /src/rec.go:41
         0     0% 78.99%       41ns 34.45%                | 0000000000001200 outer /src/outer.go:21
                                              41ns   100% |   0000000000001200 inner /src/inner.go:31 (inline)
----------------------------------------------------------+-------------
                                              -3ns 300.00% |   0000000000001300 rec /src/rec.go:41
                                              -3ns 300.00% |   0000000000001600 rec /src/rec.go:42
                                               2ns 200.00% |   0000000000001100 main /src/main.go:11
         0     0% 78.99%       -1ns  0.84%                | 0000000000001600 rec /src/rec.go:43
                                              -1ns   100% |   0000000000001600 rec /src/rec.go:42 (inline)
----------------------------------------------------------+-------------
--- tree call_tree=true Total()=119
File: prog
Type: cpu
Showing nodes accounting for 94ns, 78.99% of 119ns total
----------------------------------------------------------+-------------
      flat  flat%   sum%        cum   cum%   calls calls% + context 	 	 
----------------------------------------------------------+-------------
                                              41ns   100% |   0000000000001200 outer /src/outer.go:21 (inline)
      23ns 19.33% 19.33%       41ns 34.45%                | 0000000000001200 inner /src/inner.go:31
                                              23ns 56.10% |   0000000000001200 outer /src/outer.go:21
                                              23ns 56.10% |   0000000000001500 leaf /src/leaf.go:51
                                              -5ns 12.20% |   0000000000001300 rec /src/rec.go:41
----------------------------------------------------------+-------------
                                              23ns 57.50% |   0000000000001200 inner /src/inner.go:31
                                              17ns 42.50% |   0000000000001100 main /src/main.go:11
                                              17ns 42.50% |   0000000000001700 leaf /src/leaf.go:52
      23ns 19.33% 38.66%       40ns 33.61%                | 0000000000001500 leaf /src/leaf.go:51
                                              17ns 42.50% |   0000000000001700 leaf /src/leaf.go:52
----------------------------------------------------------+-------------
      19ns 15.97% 54.62%       71ns 59.66%                | 0000000000001100 main /src/main.go:11
                                              18ns 25.35% |   0000000000001200 outer /src/outer.go:21
                                              17ns 23.94% |   0000000000001500 leaf /src/leaf.go:51
                                              11ns 15.49% |   0000000000001400 [prog]
                                               4ns  5.63% |   0000000000001300 rec /src/rec.go:41
                                               2ns  2.82% |   0000000000001600 rec /src/rec.go:43
----------------------------------------------------------+-------------
                                              17ns   100% |   0000000000001500 leaf /src/leaf.go:51
      17ns 14.29% 68.91%       17ns 14.29%                | 0000000000001700 leaf /src/leaf.go:52
                                              17ns   100% |   0000000000001500 leaf /src/leaf.go:51
----------------------------------------------------------+-------------
                                              11ns   100% |   0000000000001100 main /src/main.go:11
      11ns  9.24% 78.15%       11ns  9.24%                | 0000000000001400 [prog]
----------------------------------------------------------+-------------
                                              -5ns 500.00% |   0000000000001200 inner /src/inner.go:31
                                               4ns 400.00% |   0000000000001100 main /src/main.go:11
       2ns  1.68% 79.83%       -1ns  0.84%                | 0000000000001300 rec /src/rec.go:41
                                              -5ns 500.00% |   0000000000001200 outer /src/outer.go:21
                                              -3ns 300.00% |   0000000000001600 rec /src/rec.go:43
----------------------------------------------------------+-------------
                                              -1ns   100% |   0000000000001600 rec /src/rec.go:43 (inline)
      -1ns  0.84% 78.99%       -1ns  0.84%                | 0000000000001600 rec /src/rec.go:42
                                              -3ns 300.00% |   0000000000001600 rec /src/rec.go:43
----------------------------------------------------------+-------------
                                              23ns 56.10% |   0000000000001200 inner /src/inner.go:31
                                              18ns 43.90% |   0000000000001100 main /src/main.go:11
                                              -5ns 12.20% |   0000000000001300 rec /src/rec.go:41
         0     0% 78.99%       41ns 34.45%                | 0000000000001200 outer /src/outer.go:21
                                              41ns   100% |   0000000000001200 inner /src/inner.go:31 (inline)
----------------------------------------------------------+-------------
                                              -3ns 300.00% |   0000000000001300 rec /src/rec.go:41
                                              -3ns 300.00% |   0000000000001600 rec /src/rec.go:42
                                               2ns 200.00% |   0000000000001100 main /src/main.go:11
         0     0% 78.99%       -1ns  0.84%                | 0000000000001600 rec /src/rec.go:43
                                              -1ns   100% |   0000000000001600 rec /src/rec.go:42 (inline)
----------------------------------------------------------+-------------
--- traces call_tree=false Total()=119
File: prog
Type: cpu
-----------+-------------------------------------------------------
      10ns   0000000000001500 leaf /src/leaf.go:51
             0000000000001200 inner /src/inner.go:31 (inline)
             0000000000001200 outer /src/outer.go:21
             0000000000001100 main /src/main.go:11
-----------+-------------------------------------------------------
       7ns   0000000000001300 rec /src/rec.go:41
             0000000000001300 rec /src/rec.go:41
             0000000000001300 rec /src/rec.go:41
             0000000000001100 main /src/main.go:11
-----------+-------------------------------------------------------
      -5ns   0000000000001300 rec /src/rec.go:41
             0000000000001200 inner /src/inner.go:31 (inline)
             0000000000001200 outer /src/outer.go:21
             0000000000001300 rec /src/rec.go:41
             0000000000001200 inner /src/inner.go:31 (inline)
             0000000000001200 outer /src/outer.go:21
             0000000000001100 main /src/main.go:11
-----------+-------------------------------------------------------
      11ns   0000000000001400 [prog]
             0000000000001100 main /src/main.go:11
-----------+-------------------------------------------------------
         k:  v1 v2
     bytes:  64
      13ns   0000000000001500 leaf /src/leaf.go:51
             0000000000001200 inner /src/inner.go:31 (inline)
             0000000000001200 outer /src/outer.go:21
             0000000000001100 main /src/main.go:11
-----------+-------------------------------------------------------
       2ns   0000000000001600 rec /src/rec.go:42 (inline)
             0000000000001600 rec /src/rec.go:43
             0000000000001100 main /src/main.go:11
-----------+-------------------------------------------------------
      -3ns   0000000000001600 rec /src/rec.go:42 (inline)
             0000000000001600 rec /src/rec.go:43
             0000000000001600 rec /src/rec.go:42 (inline)
             0000000000001600 rec /src/rec.go:43
             0000000000001300 rec /src/rec.go:41
             0000000000001100 main /src/main.go:11
-----------+-------------------------------------------------------
      17ns   0000000000001700 leaf /src/leaf.go:52
             0000000000001500 leaf /src/leaf.go:51
             0000000000001700 leaf /src/leaf.go:52
             0000000000001500 leaf /src/leaf.go:51
             0000000000001100 main /src/main.go:11
-----------+-------------------------------------------------------
         0   0000000000001500 leaf /src/leaf.go:51
             0000000000001100 main /src/main.go:11
-----------+-------------------------------------------------------
      19ns   0000000000001100 main /src/main.go:11
             0000000000001100 main /src/main.go:11
-----------+-------------------------------------------------------
      23ns   0000000000001200 inner /src/inner.go:31 (inline)
             0000000000001200 outer /src/outer.go:21
             0000000000001200 inner /src/inner.go:31 (inline)
             0000000000001200 outer /src/outer.go:21
-----------+-------------------------------------------------------
pprof::base:  true
         0   0000000000001500 leaf /src/leaf.go:51
             0000000000001200 inner /src/inner.go:31 (inline)
             0000000000001200 outer /src/outer.go:21
             0000000000001100 main /src/main.go:11
-----------+-------------------------------------------------------
pprof::base:  true
         0   0000000000001300 rec /src/rec.go:41
             0000000000001200 inner /src/inner.go:31 (inline)
             0000000000001200 outer /src/outer.go:21
             0000000000001300 rec /src/rec.go:41
             0000000000001200 inner /src/inner.go:31 (inline)
             0000000000001200 outer /src/outer.go:21
             0000000000001100 main /src/main.go:11
-----------+-------------------------------------------------------
pprof::base:  true
         0   0000000000001400 [prog]
             0000000000001100 main /src/main.go:11
-----------+-------------------------------------------------------
pprof::base:  true
         0   0000000000001600 rec /src/rec.go:42 (inline)
             0000000000001600 rec /src/rec.go:43
             0000000000001100 main /src/main.go:11
-----------+-------------------------------------------------------
pprof::base:  true
         0   0000000000001700 leaf /src/leaf.go:52
             0000000000001500 leaf /src/leaf.go:51
             0000000000001700 leaf /src/leaf.go:52
             0000000000001500 leaf /src/leaf.go:51
             0000000000001100 main /src/main.go:11
-----------+-------------------------------------------------------
pprof::base:  true
         0   0000000000001100 main /src/main.go:11
             0000000000001100 main /src/main.go:11
-----------+-------------------------------------------------------
--- dot call_tree=false Total()=119
digraph "zz" {
node [style=filled fillcolor="#f8f8f8"]
subgraph cluster_L { "File: prog" [shape=box fontsize=16 label="File: prog\lType: cpu\lShowing nodes accounting for 94ns, 78.99% of 119ns total\l\lSee https://git.io/JfYMW for how to read the graph\l" tooltip="zz"] }
N1 [label="0000000000001600\nrec\nrec.go:42\n-1ns (0.84%)" id="node1" fontsize=12 shape=box tooltip="0000000000001600 rec /src/rec.go:42 (-1ns)" color="#b0b2ab" fillcolor="#ecedec"]
N2 [label="0000000000001100\nmain\nmain.go:11\n19ns (15.97%)\nof 71ns (59.66%)" id="node2" fontsize=23 shape=box tooltip="0000000000001100 main /src/main.go:11 (71ns)" color="#b21900" fillcolor="#edd8d5"]
N3 [label="0000000000001500\nleaf\nleaf.go:51\n23ns (19.33%)\nof 40ns (33.61%)" id="node3" fontsize=24 shape=box tooltip="0000000000001500 leaf /src/leaf.go:51 (40ns)" color="#b23100" fillcolor="#eddcd5"]
N3_0 [label = "k:v1\nk:v2" id="N3_0" fontsize=8 shape=box3d tooltip="13ns"]
N3 -> N3_0 [label=" 13ns" weight=100 tooltip="13ns" labeltooltip="13ns"]
NN3_0_0 [label = "64" id="NN3_0_0" fontsize=8 shape=box3d tooltip="13ns"]
N3_0 -> NN3_0_0 [label=" 13ns" weight=100 tooltip="13ns" labeltooltip="13ns"]
N4 [label="0000000000001200\ninner\ninner.go:31\n23ns (19.33%)\nof 41ns (34.45%)" id="node4" fontsize=24 shape=box tooltip="0000000000001200 inner /src/inner.go:31 (41ns)" color="#b23000" fillcolor="#eddbd5"]
N5 [label="0000000000001200\nouter\nouter.go:21\n0 of 41ns (34.45%)" id="node5" fontsize=8 shape=box tooltip="0000000000001200 outer /src/outer.go:21 (41ns)" color="#b23000" fillcolor="#eddbd5"]
N6 [label="0000000000001700\nleaf\nleaf.go:52\n17ns (14.29%)" id="node6" fontsize=22 shape=box tooltip="0000000000001700 leaf /src/leaf.go:52 (17ns)" color="#b26b33" fillcolor="#ede3dc"]
N7 [label="0000000000001400\n[prog]\n11ns (9.24%)" id="node7" fontsize=20 shape=box tooltip="0000000000001400 [prog] (11ns)" color="#b28a5f" fillcolor="#ede7e2"]
N8 [label="0000000000001300\nrec\nrec.go:41\n2ns (1.68%)\nof -1ns (0.84%)" id="node8" fontsize=13 shape=box tooltip="0000000000001300 rec /src/rec.go:41 (-1ns)" color="#b0b2ab" fillcolor="#ecedec"]
N9 [label="0000000000001600\nrec\nrec.go:43\n0 of -1ns (0.84%)" id="node9" fontsize=8 shape=box tooltip="0000000000001600 rec /src/rec.go:43 (-1ns)" color="#b0b2ab" fillcolor="#ecedec"]
N5 -> N4 [label=" 41ns\n (inline)" weight=35 penwidth=2 color="#b23000" tooltip="0000000000001200 outer /src/outer.go:21 -> 0000000000001200 inner /src/inner.go:31 (41ns)" labeltooltip="0000000000001200 outer /src/outer.go:21 -> 0000000000001200 inner /src/inner.go:31 (41ns)"]
N4 -> N5 [label=" 23ns" weight=20 color="#b24905" tooltip="0000000000001200 inner /src/inner.go:31 -> 0000000000001200 outer /src/outer.go:21 (23ns)" labeltooltip="0000000000001200 inner /src/inner.go:31 -> 0000000000001200 outer /src/outer.go:21 (23ns)"]
N4 -> N3 [label=" 23ns" weight=20 color="#b24905" tooltip="0000000000001200 inner /src/inner.go:31 -> 0000000000001500 leaf /src/leaf.go:51 (23ns)" labeltooltip="0000000000001200 inner /src/inner.go:31 -> 0000000000001500 leaf /src/leaf.go:51 (23ns)"]
N2 -> N5 [label=" 18ns" weight=16 color="#b2652b" tooltip="0000000000001100 main /src/main.go:11 -> 0000000000001200 outer /src/outer.go:21 (18ns)" labeltooltip="0000000000001100 main /src/main.go:11 -> 0000000000001200 outer /src/outer.go:21 (18ns)"]
N2 -> N3 [label=" 17ns" weight=15 color="#b26b33" tooltip="0000000000001100 main /src/main.go:11 -> 0000000000001500 leaf /src/leaf.go:51 (17ns)" labeltooltip="0000000000001100 main /src/main.go:11 -> 0000000000001500 leaf /src/leaf.go:51 (17ns)"]
N3 -> N6 [label=" 17ns" weight=15 color="#b26b33" tooltip="0000000000001500 leaf /src/leaf.go:51 -> 0000000000001700 leaf /src/leaf.go:52 (17ns)" labeltooltip="0000000000001500 leaf /src/leaf.go:51 -> 0000000000001700 leaf /src/leaf.go:52 (17ns)" minlen=2]
N6 -> N3 [label=" 17ns" weight=15 color="#b26b33" tooltip="0000000000001700 leaf /src/leaf.go:52 -> 0000000000001500 leaf /src/leaf.go:51 (17ns)" labeltooltip="0000000000001700 leaf /src/leaf.go:52 -> 0000000000001500 leaf /src/leaf.go:51 (17ns)"]
N2 -> N7 [label=" 11ns" weight=10 color="#b28a5f" tooltip="0000000000001100 main /src/main.go:11 -> 0000000000001400 [prog] (11ns)" labeltooltip="0000000000001100 main /src/main.go:11 -> 0000000000001400 [prog] (11ns)"]
N4 -> N8 [label=" -5ns" weight=5 color="#a4b28c" tooltip="0000000000001200 inner /src/inner.go:31 -> 0000000000001300 rec /src/rec.go:41 (-5ns)" labeltooltip="0000000000001200 inner /src/inner.go:31 -> 0000000000001300 rec /src/rec.go:41 (-5ns)"]
N8 -> N5 [label=" -5ns" weight=5 color="#a4b28c" tooltip="0000000000001300 rec /src/rec.go:41 -> 0000000000001200 outer /src/outer.go:21 (-5ns)" labeltooltip="0000000000001300 rec /src/rec.go:41 -> 0000000000001200 outer /src/outer.go:21 (-5ns)"]
N2 -> N8 [label=" 4ns" weight=4 color="#b2a794" tooltip="0000000000001100 main /src/main.go:11 -> 0000000000001300 rec /src/rec.go:41 (4ns)" labeltooltip="0000000000001100 main /src/main.go:11 -> 0000000000001300 rec /src/rec.go:41 (4ns)"]
N8 -> N9 [label=" -3ns" weight=3 color="#abb29b" tooltip="0000000000001300 rec /src/rec.go:41 -> 0000000000001600 rec /src/rec.go:43 (-3ns)" labeltooltip="0000000000001300 rec /src/rec.go:41 -> 0000000000001600 rec /src/rec.go:43 (-3ns)"]
N1 -> N9 [label=" -3ns" weight=3 color="#abb29b" tooltip="0000000000001600 rec /src/rec.go:42 -> 0000000000001600 rec /src/rec.go:43 (-3ns)" labeltooltip="0000000000001600 rec /src/rec.go:42 -> 0000000000001600 rec /src/rec.go:43 (-3ns)"]
N2 -> N9 [label=" 2ns" weight=2 color="#b2aea3" tooltip="0000000000001100 main /src/main.go:11 -> 0000000000001600 rec /src/rec.go:43 (2ns)" labeltooltip="0000000000001100 main /src/main.go:11 -> 0000000000001600 rec /src/rec.go:43 (2ns)"]
N9 -> N1 [label=" -1ns\n (inline)" color="#b0b2ab" tooltip="0000000000001600 rec /src/rec.go:43 -> 0000000000001600 rec /src/rec.go:42 (-1ns)" labeltooltip="0000000000001600 rec /src/rec.go:43 -> 0000000000001600 rec /src/rec.go:42 (-1ns)"]
}
--- callgrind call_tree=false Total()=119
positions: instr line
events: cpu(ns)

ob=(1) /bin/prog
fl=(1) /src/inner.go
fn=(1) inner
0x1200 31 23
cfl=(2) /src/outer.go
cfn=(2) outer
calls=0 0x1200 21
* * 23
cfl=(3) /src/leaf.go
cfn=(3) leaf
calls=0 0x1500 51
* * 23
cfl=(4) /src/rec.go
cfn=(4) rec
calls=0 0x1300 41
* * -5

ob=(1)
fl=(3)
fn=(3)
+768 51 23
cfl=(3)
cfn=(3)
calls=0 +1280 52
* * 17

ob=(1)
fl=(5) /src/main.go
fn=(5) main
-1024 11 19
cfl=(2)
cfn=(2)
calls=0 -768 21
* * 18
cfl=(3)
cfn=(3)
calls=0 * 51
* * 17
cfl=
cfn=
calls=0 -256 0
* * 11
cfl=(4)
cfn=(4)
calls=0 -512 41
* * 4
cfl=(4)
cfn=(4)
calls=0 +256 43
* * 2

ob=(1)
fl=(3)
fn=(3)
+1536 52 17
cfl=(3)
cfn=(3)
calls=0 +1024 51
* * 17

ob=(1)
fl=
fn=
-768 0 11

ob=(1)
fl=(4)
fn=(4)
-256 41 2
cfl=(2)
cfn=(2)
calls=0 -512 21
* * -5
cfl=(4)
cfn=(4)
calls=0 +512 43
* * -3
+768 42 -1
cfl=(4)
cfn=(4)
calls=0 +768 43
* * -3

ob=(1)
fl=(2)
fn=(2)
-1024 21 0
cfl=(1)
cfn=(1)
calls=0 -1024 31
* * 41

ob=(1)
fl=(4)
fn=(4)
+1024 43 0
cfl=(4)
cfn=(4)
calls=0 +1024 42
* * -1
=== diff-zero-base idx=1 mean=true computeTotal=3
--- text call_tree=false Total()=3
File: prog
Type: cpu
Showing nodes accounting for 27ns, 900.00% of 3ns total
      flat  flat%   sum%        cum   cum%
       2ns 66.67% 66.67%        2ns 66.67%  0000000000001200 inner /src/inner.go:31 (inline)
       2ns 66.67% 133.33%        2ns 66.67%  0000000000001500 leaf /src/leaf.go:51
      19ns 633.33% 766.67%        2ns 66.67%  0000000000001100 main /src/main.go:11
       2ns 66.67% 833.33%        2ns 66.67%  0000000000001700 leaf /src/leaf.go:52
       2ns 66.67% 900.00%        2ns 66.67%  0000000000001400 [prog]
         0     0% 900.00%          0     0%  0000000000001300 rec /src/rec.go:41
         0     0% 900.00%          0     0%  0000000000001600 rec /src/rec.go:42 (inline)
         0     0% 900.00%        2ns 66.67%  0000000000001200 outer /src/outer.go:21
         0     0% 900.00%          0     0%  0000000000001600 rec /src/rec.go:43
--- tree call_tree=false Total()=3
File: prog
Type: cpu
Showing nodes accounting for 27ns, 900.00% of 3ns total
----------------------------------------------------------+-------------
      flat  flat%   sum%        cum   cum%   calls calls% + context 	 	 
----------------------------------------------------------+-------------
                                               2ns   100% |   0000000000001200 outer /src/outer.go:21 (inline)
       2ns 66.67% 66.67%        2ns 66.67%                | 0000000000001200 inner /src/inner.go:31
                                               2ns   100% |   0000000000001200 outer /src/outer.go:21
                                               2ns   100% |   0000000000001500 leaf /src/leaf.go:51
                                              -5ns 250.00% |   0000000000001300 rec /src/rec.go:41
----------------------------------------------------------+-------------
                                               2ns   100% |   0000000000001200 inner /src/inner.go:31
                                               2ns   100% |   0000000000001100 main /src/main.go:11
                                               2ns   100% |   0000000000001700 leaf /src/leaf.go:52
       2ns 66.67% 133.33%        2ns 66.67%                | 0000000000001500 leaf /src/leaf.go:51
                                               2ns   100% |   0000000000001700 leaf /src/leaf.go:52
----------------------------------------------------------+-------------
      19ns 633.33% 766.67%        2ns 66.67%                | 0000000000001100 main /src/main.go:11
                                               1ns 50.00% |   0000000000001200 outer /src/outer.go:21
                                               2ns   100% |   0000000000001500 leaf /src/leaf.go:51
                                               2ns   100% |   0000000000001400 [prog]
                                               1ns 50.00% |   0000000000001300 rec /src/rec.go:41
                                               2ns   100% |   0000000000001600 rec /src/rec.go:43
----------------------------------------------------------+-------------
                                               2ns   100% |   0000000000001500 leaf /src/leaf.go:51
       2ns 66.67% 833.33%        2ns 66.67%                | 0000000000001700 leaf /src/leaf.go:52
                                               2ns   100% |   0000000000001500 leaf /src/leaf.go:51
----------------------------------------------------------+-------------
                                               2ns   100% |   0000000000001100 main /src/main.go:11
       2ns 66.67% 900.00%        2ns 66.67%                | 0000000000001400 [prog]
----------------------------------------------------------+-------------
                                              -5ns     0% |   0000000000001200 inner /src/inner.go:31
                                               1ns     0% |   0000000000001100 main /src/main.go:11
         0     0% 900.00%          0     0%                | 0000000000001300 rec /src/rec.go:41
                                              -5ns     0% |   0000000000001200 outer /src/outer.go:21
                                              -1ns     0% |   0000000000001600 rec /src/rec.go:43
----------------------------------------------------------+-------------
                                                 0     0% |   0000000000001600 rec /src/rec.go:43 (inline)
         0     0% 900.00%          0     0%                | 0000000000001600 rec /src/rec.go:42
                                              -1ns     0% |   0000000000001600 rec /src/rec.go:43
----------------------------------------------------------+-------------
                                               2ns   100% |   0000000000001200 inner /src/inner.go:31
                                               1ns 50.00% |   0000000000001100 main /src/main.go:11
                                              -5ns 250.00% |   0000000000001300 rec /src/rec.go:41
         0     0% 900.00%        2ns 66.67%                | 0000000000001200 outer /src/outer.go:21
                                               2ns   100% |   0000000000001200 inner /src/inner.go:31 (inline)
----------------------------------------------------------+-------------
                                              -1ns     0% |   0000000000001300 rec /src/rec.go:41
                                              -1ns     0% |   0000000000001600 rec /src/rec.go:42
                                               2ns     0% |   0000000000001100 main /src/main.go:11
         0     0% 900.00%          0     0%                | 0000000000001600 rec /src/rec.go:43
                                                 0     0% |   0000000000001600 rec /src/rec.go:42 (inline)
----------------------------------------------------------+-------------
--- tree call_tree=true Total()=3
File: prog
Type: cpu
Showing nodes accounting for 27ns, 900.00% of 3ns total
----------------------------------------------------------+-------------
      flat  flat%   sum%        cum   cum%   calls calls% + context 	 	 
----------------------------------------------------------+-------------
                                               2ns   100% |   0000000000001200 outer /src/outer.go:21 (inline)
       2ns 66.67% 66.67%        2ns 66.67%                | 0000000000001200 inner /src/inner.go:31
                                               2ns   100% |   0000000000001200 outer /src/outer.go:21
                                               2ns   100% |   0000000000001500 leaf /src/leaf.go:51
                                              -5ns 250.00% |   0000000000001300 rec /src/rec.go:41
----------------------------------------------------------+-------------
                                               2ns   100% |   0000000000001200 inner /src/inner.go:31
                                               2ns   100% |   0000000000001100 main /src/main.go:11
                                               2ns   100% |   0000000000001700 leaf /src/leaf.go:52
       2ns 66.67% 133.33%        2ns 66.67%                | 0000000000001500 leaf /src/leaf.go:51
                                               2ns   100% |   0000000000001700 leaf /src/leaf.go:52
----------------------------------------------------------+-------------
      19ns 633.33% 766.67%        2ns 66.67%                | 0000000000001100 main /src/main.go:11
                                               1ns 50.00% |   0000000000001200 outer /src/outer.go:21
                                               2ns   100% |   0000000000001500 leaf /src/leaf.go:51
                                               2ns   100% |   0000000000001400 [prog]
                                               1ns 50.00% |   0000000000001300 rec /src/rec.go:41
                                               2ns   100% |   0000000000001600 rec /src/rec.go:43
----------------------------------------------------------+-------------
                                               2ns   100% |   0000000000001500 leaf /src/leaf.go:51
       2ns 66.67% 833.33%        2ns 66.67%                | 0000000000001700 leaf /src/leaf.go:52
                                               2ns   100% |   0000000000001500 leaf /src/leaf.go:51
----------------------------------------------------------+-------------
                                               2ns   100% |   0000000000001100 main /src/main.go:11
       2ns 66.67% 900.00%        2ns 66.67%                | 0000000000001400 [prog]
----------------------------------------------------------+-------------
                                              -5ns     0% |   0000000000001200 inner /src/inner.go:31
                                               1ns     0% |   0000000000001100 main /src/main.go:11
         0     0% 900.00%          0     0%                | 0000000000001300 rec /src/rec.go:41
                                              -5ns     0% |   0000000000001200 outer /src/outer.go:21
                                              -1ns     0% |   0000000000001600 rec /src/rec.go:43
----------------------------------------------------------+-------------
                                                 0     0% |   0000000000001600 rec /src/rec.go:43 (inline)
         0     0% 900.00%          0     0%                | 0000000000001600 rec /src/rec.go:42
                                              -1ns     0% |   0000000000001600 rec /src/rec.go:43
----------------------------------------------------------+-------------
                                               2ns   100% |   0000000000001200 inner /src/inner.go:31
                                               1ns 50.00% |   0000000000001100 main /src/main.go:11
                                              -5ns 250.00% |   0000000000001300 rec /src/rec.go:41
         0     0% 900.00%        2ns 66.67%                | 0000000000001200 outer /src/outer.go:21
                                               2ns   100% |   0000000000001200 inner /src/inner.go:31 (inline)
----------------------------------------------------------+-------------
                                              -1ns     0% |   0000000000001300 rec /src/rec.go:41
                                              -1ns     0% |   0000000000001600 rec /src/rec.go:42
                                               2ns     0% |   0000000000001100 main /src/main.go:11
         0     0% 900.00%          0     0%                | 0000000000001600 rec /src/rec.go:43
                                                 0     0% |   0000000000001600 rec /src/rec.go:42 (inline)
----------------------------------------------------------+-------------
--- traces call_tree=false Total()=3
File: prog
Type: cpu
-----------+-------------------------------------------------------
       3ns   0000000000001500 leaf /src/leaf.go:51
             0000000000001200 inner /src/inner.go:31 (inline)
             0000000000001200 outer /src/outer.go:21
             0000000000001100 main /src/main.go:11
-----------+-------------------------------------------------------
       3ns   0000000000001300 rec /src/rec.go:41
             0000000000001300 rec /src/rec.go:41
             0000000000001300 rec /src/rec.go:41
             0000000000001100 main /src/main.go:11
-----------+-------------------------------------------------------
      -5ns   0000000000001300 rec /src/rec.go:41
             0000000000001200 inner /src/inner.go:31 (inline)
             0000000000001200 outer /src/outer.go:21
             0000000000001300 rec /src/rec.go:41
             0000000000001200 inner /src/inner.go:31 (inline)
             0000000000001200 outer /src/outer.go:21
             0000000000001100 main /src/main.go:11
-----------+-------------------------------------------------------
       2ns   0000000000001400 [prog]
             0000000000001100 main /src/main.go:11
-----------+-------------------------------------------------------
         k:  v1 v2
     bytes:  64
       2ns   0000000000001500 leaf /src/leaf.go:51
             0000000000001200 inner /src/inner.go:31 (inline)
             0000000000001200 outer /src/outer.go:21
             0000000000001100 main /src/main.go:11
-----------+-------------------------------------------------------
       2ns   0000000000001600 rec /src/rec.go:42 (inline)
             0000000000001600 rec /src/rec.go:43
             0000000000001100 main /src/main.go:11
-----------+-------------------------------------------------------
      -1ns   0000000000001600 rec /src/rec.go:42 (inline)
             0000000000001600 rec /src/rec.go:43
             0000000000001600 rec /src/rec.go:42 (inline)
             0000000000001600 rec /src/rec.go:43
             0000000000001300 rec /src/rec.go:41
             0000000000001100 main /src/main.go:11
-----------+-------------------------------------------------------
       2ns   0000000000001700 leaf /src/leaf.go:52
             0000000000001500 leaf /src/leaf.go:51
             0000000000001700 leaf /src/leaf.go:52
             0000000000001500 leaf /src/leaf.go:51
             0000000000001100 main /src/main.go:11
-----------+-------------------------------------------------------
         0   0000000000001500 leaf /src/leaf.go:51
             0000000000001100 main /src/main.go:11
-----------+-------------------------------------------------------
      19ns   0000000000001100 main /src/main.go:11
             0000000000001100 main /src/main.go:11
-----------+-------------------------------------------------------
       2ns   0000000000001200 inner /src/inner.go:31 (inline)
             0000000000001200 outer /src/outer.go:21
             0000000000001200 inner /src/inner.go:31 (inline)
             0000000000001200 outer /src/outer.go:21
-----------+-------------------------------------------------------
pprof::base:  true
         0   0000000000001500 leaf /src/leaf.go:51
             0000000000001200 inner /src/inner.go:31 (inline)
             0000000000001200 outer /src/outer.go:21
             0000000000001100 main /src/main.go:11
-----------+-------------------------------------------------------
pprof::base:  true
         0   0000000000001300 rec /src/rec.go:41
             0000000000001200 inner /src/inner.go:31 (inline)
             0000000000001200 outer /src/outer.go:21
             0000000000001300 rec /src/rec.go:41
             0000000000001200 inner /src/inner.go:31 (inline)
             0000000000001200 outer /src/outer.go:21
             0000000000001100 main /src/main.go:11
-----------+-------------------------------------------------------
pprof::base:  true
         0   0000000000001400 [prog]
             0000000000001100 main /src/main.go:11
-----------+-------------------------------------------------------
pprof::base:  true
         0   0000000000001600 rec /src/rec.go:42 (inline)
             0000000000001600 rec /src/rec.go:43
             0000000000001100 main /src/main.go:11
-----------+-------------------------------------------------------
pprof::base:  true
         0   0000000000001700 leaf /src/leaf.go:52
             0000000000001500 leaf /src/leaf.go:51
             0000000000001700 leaf /src/leaf.go:52
             0000000000001500 leaf /src/leaf.go:51
             0000000000001100 main /src/main.go:11
-----------+-------------------------------------------------------
pprof::base:  true
         0   0000000000001100 main /src/main.go:11
             0000000000001100 main /src/main.go:11
-----------+-------------------------------------------------------
--- dot call_tree=false Total()=3
digraph "zz" {
node [style=filled fillcolor="#f8f8f8"]
subgraph cluster_L { "File: prog" [shape=box fontsize=16 label="File: prog\lType: cpu\lShowing nodes accounting for 27ns, 900.00% of 3ns total\l\lSee https://git.io/JfYMW for how to read the graph\l" tooltip="zz"] }
N1 [label="0000000000001600\nrec\nrec.go:42\n0" id="node1" fontsize=8 shape=box tooltip="0000000000001600 rec /src/rec.go:42 (0)" color="#b2b2b2" fillcolor="#ededed"]
N2 [label="0000000000001100\nmain\nmain.go:11\n19ns (633.33%)\nof 2ns (66.67%)" id="node2" fontsize=24 shape=box tooltip="0000000000001100 main /src/main.go:11 (2ns)" color="#b21400" fillcolor="#edd8d5"]
N3 [label="0000000000001500\nleaf\nleaf.go:51\n2ns (66.67%)" id="node3" fontsize=14 shape=box tooltip="0000000000001500 leaf /src/leaf.go:51 (2ns)" color="#b21400" fillcolor="#edd8d5"]
N3_0 [label = "k:v1\nk:v2" id="N3_0" fontsize=8 shape=box3d tooltip="2ns"]
N3 -> N3_0 [label=" 2ns" weight=100 tooltip="2ns" labeltooltip="2ns"]
NN3_0_0 [label = "64" id="NN3_0_0" fontsize=8 shape=box3d tooltip="2ns"]
N3_0 -> NN3_0_0 [label=" 2ns" weight=100 tooltip="2ns" labeltooltip="2ns"]
N4 [label="0000000000001200\ninner\ninner.go:31\n2ns (66.67%)" id="node4" fontsize=14 shape=box tooltip="0000000000001200 inner /src/inner.go:31 (2ns)" color="#b21400" fillcolor="#edd8d5"]
N5 [label="0000000000001200\nouter\nouter.go:21\n0 of 2ns (66.67%)" id="node5" fontsize=8 shape=box tooltip="0000000000001200 outer /src/outer.go:21 (2ns)" color="#b21400" fillcolor="#edd8d5"]
N6 [label="0000000000001700\nleaf\nleaf.go:52\n2ns (66.67%)" id="node6" fontsize=14 shape=box tooltip="0000000000001700 leaf /src/leaf.go:52 (2ns)" color="#b21400" fillcolor="#edd8d5"]
N7 [label="0000000000001400\n[prog]\n2ns (66.67%)" id="node7" fontsize=14 shape=box tooltip="0000000000001400 [prog] (2ns)" color="#b21400" fillcolor="#edd8d5"]
N8 [label="0000000000001300\nrec\nrec.go:41\n0" id="node8" fontsize=8 shape=box tooltip="0000000000001300 rec /src/rec.go:41 (0)" color="#b2b2b2" fillcolor="#ededed"]
N9 [label="0000000000001600\nrec\nrec.go:43\n0" id="node9" fontsize=8 shape=box tooltip="0000000000001600 rec /src/rec.go:43 (0)" color="#b2b2b2" fillcolor="#ededed"]
N5 -> N4 [label=" 2ns\n (inline)" weight=67 penwidth=4 color="#b21400" tooltip="0000000000001200 outer /src/outer.go:21 -> 0000000000001200 inner /src/inner.go:31 (2ns)" labeltooltip="0000000000001200 outer /src/outer.go:21 -> 0000000000001200 inner /src/inner.go:31 (2ns)"]
N4 -> N5 [label=" 2ns" weight=67 penwidth=4 color="#b21400" tooltip="0000000000001200 inner /src/inner.go:31 -> 0000000000001200 outer /src/outer.go:21 (2ns)" labeltooltip="0000000000001200 inner /src/inner.go:31 -> 0000000000001200 outer /src/outer.go:21 (2ns)"]
N4 -> N3 [label=" 2ns" weight=67 penwidth=4 color="#b21400" tooltip="0000000000001200 inner /src/inner.go:31 -> 0000000000001500 leaf /src/leaf.go:51 (2ns)" labeltooltip="0000000000001200 inner /src/inner.go:31 -> 0000000000001500 leaf /src/leaf.go:51 (2ns)"]
N2 -> N5 [label=" 1ns" weight=34 penwidth=2 color="#b23200" tooltip="0000000000001100 main /src/main.go:11 -> 0000000000001200 outer /src/outer.go:21 (1ns)" labeltooltip="0000000000001100 main /src/main.go:11 -> 0000000000001200 outer /src/outer.go:21 (1ns)"]
N2 -> N3 [label=" 2ns" weight=67 penwidth=4 color="#b21400" tooltip="0000000000001100 main /src/main.go:11 -> 0000000000001500 leaf /src/leaf.go:51 (2ns)" labeltooltip="0000000000001100 main /src/main.go:11 -> 0000000000001500 leaf /src/leaf.go:51 (2ns)"]
N3 -> N6 [label=" 2ns" weight=67 penwidth=4 color="#b21400" tooltip="0000000000001500 leaf /src/leaf.go:51 -> 0000000000001700 leaf /src/leaf.go:52 (2ns)" labeltooltip="0000000000001500 leaf /src/leaf.go:51 -> 0000000000001700 leaf /src/leaf.go:52 (2ns)" minlen=2]
N6 -> N3 [label=" 2ns" weight=67 penwidth=4 color="#b21400" tooltip="0000000000001700 leaf /src/leaf.go:52 -> 0000000000001500 leaf /src/leaf.go:51 (2ns)" labeltooltip="0000000000001700 leaf /src/leaf.go:52 -> 0000000000001500 leaf /src/leaf.go:51 (2ns)"]
N2 -> N7 [label=" 2ns" weight=67 penwidth=4 color="#b21400" tooltip="0000000000001100 main /src/main.go:11 -> 0000000000001400 [prog] (2ns)" labeltooltip="0000000000001100 main /src/main.go:11 -> 0000000000001400 [prog] (2ns)"]
N4 -> N8 [label=" -5ns" weight=101 penwidth=6 color="#00b200" tooltip="0000000000001200 inner /src/inner.go:31 -> 0000000000001300 rec /src/rec.go:41 (-5ns)" labeltooltip="0000000000001200 inner /src/inner.go:31 -> 0000000000001300 rec /src/rec.go:41 (-5ns)"]
N8 -> N5 [label=" -5ns" weight=101 penwidth=6 color="#00b200" tooltip="0000000000001300 rec /src/rec.go:41 -> 0000000000001200 outer /src/outer.go:21 (-5ns)" labeltooltip="0000000000001300 rec /src/rec.go:41 -> 0000000000001200 outer /src/outer.go:21 (-5ns)"]
N2 -> N8 [label=" 1ns" weight=34 penwidth=2 color="#b23200" tooltip="0000000000001100 main /src/main.go:11 -> 0000000000001300 rec /src/rec.go:41 (1ns)" labeltooltip="0000000000001100 main /src/main.go:11 -> 0000000000001300 rec /src/rec.go:41 (1ns)"]
N8 -> N9 [label=" -1ns" weight=34 penwidth=2 color="#32b200" tooltip="0000000000001300 rec /src/rec.go:41 -> 0000000000001600 rec /src/rec.go:43 (-1ns)" labeltooltip="0000000000001300 rec /src/rec.go:41 -> 0000000000001600 rec /src/rec.go:43 (-1ns)"]
N1 -> N9 [label=" -1ns" weight=34 penwidth=2 color="#32b200" tooltip="0000000000001600 rec /src/rec.go:42 -> 0000000000001600 rec /src/rec.go:43 (-1ns)" labeltooltip="0000000000001600 rec /src/rec.go:42 -> 0000000000001600 rec /src/rec.go:43 (-1ns)"]
N2 -> N9 [label=" 2ns" weight=67 penwidth=4 color="#b21400" tooltip="0000000000001100 main /src/main.go:11 -> 0000000000001600 rec /src/rec.go:43 (2ns)" labeltooltip="0000000000001100 main /src/main.go:11 -> 0000000000001600 rec /src/rec.go:43 (2ns)"]
N9 -> N1 [label=" 0\n (inline)" color="#b2b2b2" tooltip="0000000000001600 rec /src/rec.go:43 -> 0000000000001600 rec /src/rec.go:42 (0)" labeltooltip="0000000000001600 rec /src/rec.go:43 -> 0000000000001600 rec /src/rec.go:42 (0)"]
}
--- callgrind call_tree=false Total()=3
positions: instr line
events: cpu(ns)

ob=(1) /bin/prog
fl=(1) /src/inner.go
fn=(1) inner
0x1200 31 2
cfl=(2) /src/outer.go
cfn=(2) outer
calls=0 0x1200 21
* * 2
cfl=(3) /src/leaf.go
cfn=(3) leaf
calls=0 0x1500 51
* * 2
cfl=(4) /src/rec.go
cfn=(4) rec
calls=0 0x1300 41
* * -5

ob=(1)
fl=(3)
fn=(3)
+768 51 2
cfl=(3)
cfn=(3)
calls=0 +1280 52
* * 2

ob=(1)
fl=(5) /src/main.go
fn=(5) main
-1024 11 19
cfl=(2)
cfn=(2)
calls=0 -768 21
* * 1
cfl=(3)
cfn=(3)
calls=0 * 51
* * 2
cfl=
cfn=
calls=0 -256 0
* * 2
cfl=(4)
cfn=(4)
calls=0 -512 41
* * 1
cfl=(4)
cfn=(4)
calls=0 +256 43
* * 2

ob=(1)
fl=(3)
fn=(3)
+1536 52 2
cfl=(3)
cfn=(3)
calls=0 +1024 51
* * 2

ob=(1)
fl=
fn=
-768 0 2

ob=(1)
fl=(4)
fn=(4)
-256 41 0
cfl=(2)
cfn=(2)
calls=0 -512 21
* * -5
cfl=(4)
cfn=(4)
calls=0 +512 43
* * -1
+768 42 0
cfl=(4)
cfn=(4)
calls=0 +768 43
* * -1

ob=(1)
fl=(2)
fn=(2)
-1024 21 0
cfl=(1)
cfn=(1)
calls=0 -1024 31
* * 2

ob=(1)
fl=(4)
fn=(4)
+1024 43 0
cfl=(4)
cfn=(4)
calls=0 +1024 42
* * 0
`
