package graph

// Equivalence demonstration for rewrite A (Nodes.Sort: score map replaced by
// a score slice permuted together with the nodes). The expected orders were
// computed on the UNCHANGED tree and hard-coded; the test passes both with and
// without the patch.

import (
	"fmt"
	"os"
	"strings"
	"testing"
)

// zzaNodes builds a deterministic pseudo-random set of nodes with many ties
// in cum, flat and name (including nodes that share one NodeInfo, as happens
// in call trees), negative values, and edges so that entropy scores differ.
func zzaNodes(count int, seed uint64) (Nodes, map[*Node]int) {
	next := func() uint64 {
		seed += 0x9e3779b97f4a7c15
		z := seed
		z = (z ^ (z >> 30)) * 0xbf58476d1ce4e5b9
		z = (z ^ (z >> 27)) * 0x94d049bb133111eb
		return z ^ (z >> 31)
	}
	names := []string{"main", "alpha", "beta", "gamma", "delta", "eps"}
	ns := make(Nodes, count)
	id := map[*Node]int{}
	for i := range ns {
		n := &Node{
			Info: NodeInfo{Name: names[next()%uint64(len(names))], Address: 0x1000 + 0x10*(next()%3), Lineno: int(next() % 2)},
			In:   EdgeMap{}, Out: EdgeMap{},
			LabelTags: TagMap{}, NumericTags: map[string]TagMap{},
		}
		n.Cum = int64(next()%5) * 100
		n.Flat = int64(next()%3) * 50
		if next()%7 == 0 {
			n.Cum, n.Flat = -n.Cum, -n.Flat
		}
		ns[i] = n
		id[n] = i
	}
	for k := 0; k < 2*count; k++ {
		a, b := ns[next()%uint64(count)], ns[next()%uint64(count)]
		if a == b {
			continue
		}
		a.AddToEdge(b, int64(next()%4)*25-10, next()%5 == 0, next()%4 == 0)
	}
	return ns, id
}

func zzaOrder(ns Nodes, id map[*Node]int) string {
	var parts []string
	for _, n := range ns {
		parts = append(parts, fmt.Sprint(id[n]))
	}
	return strings.Join(parts, " ")
}

func zzaResults(t *testing.T) map[string]string {
	got := map[string]string{}
	orders := []struct {
		name string
		o    NodeOrder
	}{
		{"flatname", FlatNameOrder}, {"flatcumname", FlatCumNameOrder}, {"cumname", CumNameOrder},
		{"name", NameOrder}, {"file", FileOrder}, {"address", AddressOrder}, {"entropy", EntropyOrder},
	}
	for _, size := range []int{0, 1, 2, 7, 13, 40, 200} {
		for _, o := range orders {
			ns, id := zzaNodes(size, uint64(size)*31+7)
			if err := ns.Sort(o.o); err != nil {
				t.Fatal(err)
			}
			got[fmt.Sprintf("%s/%d", o.name, size)] = zzaOrder(ns, id)
		}
	}
	// Through the exported entry points used by report trimming.
	for _, size := range []int{13, 40} {
		for _, mode := range []struct {
			name        string
			cum, visual bool
		}{{"flat", false, false}, {"cum", true, false}, {"visual", false, true}} {
			for _, max := range []int{1, 5, 1000} {
				ns, id := zzaNodes(size, uint64(size)*17+3)
				g := &Graph{Nodes: ns}
				g.SortNodes(mode.cum, mode.visual)
				top := g.selectTopNodes(max, mode.visual)
				got[fmt.Sprintf("top/%s/%d/%d", mode.name, size, max)] = zzaOrder(top, id)
			}
		}
	}
	if err := (Nodes{}).Sort(NodeOrder(99)); err == nil {
		t.Error("unknown order: want error")
	}
	return got
}

func TestZZEquivA(t *testing.T) {
	got := zzaResults(t)
	if os.Getenv("ZZ_PRINT") != "" {
		for k, v := range got {
			if len(v) > 120 {
				v = fmt.Sprintf("%d:%x", len(v), zzaSum(v))
			}
			fmt.Printf("\t%q: %q,\n", k, v)
		}
		return
	}
	if len(got) != len(zzaWant) {
		t.Errorf("got %d results, want %d", len(got), len(zzaWant))
	}
	for k, w := range zzaWant {
		g := got[k]
		if len(g) > 120 {
			g = fmt.Sprintf("%d:%x", len(g), zzaSum(g))
		}
		if g != w {
			t.Errorf("%s: got order %s, want %s (computed on the unchanged tree)", k, g, w)
		}
	}
}

// zzaSum is FNV-1a, to keep the 200-node expectations short.
func zzaSum(s string) uint64 {
	h := uint64(14695981039346656037)
	for i := 0; i < len(s); i++ {
		h ^= uint64(s[i])
		h *= 1099511628211
	}
	return h
}

var zzaWant = map[string]string{
	"address/0":          "",
	"address/1":          "0",
	"address/13":         "0 8 10 6 11 7 12 5 9 4 2 3 1",
	"address/2":          "0 1",
	"address/200":        "689:f04aeea061700999",
	"address/40":         "7 22 4 25 28 24 15 38 29 30 5 34 9 21 8 27 6 39 1 11 20 23 18 32 33 31 3 13 26 35 14 17 10 36 12 37 16 19 0 2",
	"address/7":          "5 3 6 1 4 0 2",
	"cumname/0":          "",
	"cumname/1":          "0",
	"cumname/13":         "9 2 10 6 12 0 8 7 3 1 11 5 4",
	"cumname/2":          "0 1",
	"cumname/200":        "689:ba362f96c235aced",
	"cumname/40":         "15 29 30 8 11 18 32 0 25 38 34 1 12 16 7 4 9 5 33 3 31 35 14 19 28 24 27 20 26 17 36 22 21 6 39 23 13 10 37 2",
	"cumname/7":          "5 3 1 0 2 6 4",
	"entropy/0":          "",
	"entropy/1":          "0",
	"entropy/13":         "8 7 9 12 10 2 3 6 0 4 11 1 5",
	"entropy/2":          "0 1",
	"entropy/200":        "689:b4aa7cd21a1bcb81",
	"entropy/40":         "30 29 11 18 8 34 38 7 12 0 15 14 25 19 9 4 3 31 32 33 35 5 36 27 17 16 26 28 1 20 22 21 6 23 13 24 39 10 37 2",
	"entropy/7":          "3 5 1 2 4 0 6",
	"file/0":             "",
	"file/1":             "0",
	"file/13":            "9 10 0 6 4 2 7 11 8 12 5 3 1",
	"file/2":             "1 0",
	"file/200":           "689:c766e78dc2866ccf",
	"file/40":            "11 20 7 22 25 4 32 18 23 33 12 37 28 24 15 31 3 35 26 13 16 29 38 30 14 17 19 9 5 34 21 8 10 36 27 6 1 39 0 2",
	"file/7":             "6 1 5 3 4 0 2",
	"flatcumname/0":      "",
	"flatcumname/1":      "0",
	"flatcumname/13":     "9 10 4 12 0 8 7 11 2 6 3 1 5",
	"flatcumname/2":      "1 0",
	"flatcumname/200":    "689:3f807de7c8c9892d",
	"flatcumname/40":     "29 30 38 9 33 3 35 15 11 18 34 12 16 7 4 5 14 19 28 27 20 17 22 21 6 23 13 8 32 0 25 1 31 24 26 36 39 10 37 2",
	"flatcumname/7":      "3 4 5 1 0 2 6",
	"flatname/0":         "",
	"flatname/1":         "0",
	"flatname/13":        "10 9 4 0 8 7 11 12 6 5 2 3 1",
	"flatname/2":         "1 0",
	"flatname/200":       "689:2407bc7e2f51a8e9",
	"flatname/40":        "29 38 30 9 33 3 35 7 4 22 28 15 34 5 21 27 6 11 20 18 23 13 14 17 12 16 19 25 24 8 1 39 32 31 26 10 36 37 0 2",
	"flatname/7":         "3 4 5 1 6 0 2",
	"name/0":             "",
	"name/1":             "0",
	"name/13":            "9 10 0 6 4 2 7 11 8 12 5 3 1",
	"name/2":             "1 0",
	"name/200":           "689:c766e78dc2866ccf",
	"name/40":            "11 20 7 22 25 4 32 18 23 33 12 37 28 24 15 31 3 35 26 13 16 29 38 30 14 17 19 9 5 34 21 8 10 36 27 6 1 39 0 2",
	"name/7":             "6 1 5 3 4 0 2",
	"top/cum/13/1":       "9",
	"top/cum/13/1000":    "9 11 5 8 3 1 12 0 7 2 10 6 4",
	"top/cum/13/5":       "9 11 5 8 3",
	"top/cum/40/1":       "11",
	"top/cum/40/1000":    "11 21 27 7 31 17 5 29 23 0 36 28 38 18 15 10 20 35 30 6 9 3 26 1 8 16 34 39 24 13 19 37 22 32 25 4 12 14 2 33",
	"top/cum/40/5":       "11 21 27 7 31",
	"top/flat/13/1":      "3",
	"top/flat/13/1000":   "3 9 4 12 5 1 11 7 10 6 0 8 2",
	"top/flat/13/5":      "3 9 4 12 5",
	"top/flat/40/1":      "11",
	"top/flat/40/1000":   "11 34 4 12 39 14 30 26 24 1 29 8 0 18 6 15 25 35 31 17 23 16 13 19 37 22 10 33 20 32 21 3 27 7 5 2 36 28 38 9",
	"top/flat/40/5":      "11 34 4 12 39",
	"top/visual/13/1":    "11",
	"top/visual/13/1000": "11 9 8 1 3 12 5 0 7 10 4 6 2",
	"top/visual/13/5":    "11 9 8 1 3",
	"top/visual/40/1":    "18",
	"top/visual/40/1000": "18 28 11 31 23 30 29 17 0 15 35 10 27 1 6 5 36 9 8 24 38 26 39 20 16 34 32 13 7 37 19 3 22 21 4 12 14 25 33 2",
	"top/visual/40/5":    "18 28 11 31 23",
}
