package driver

import (
	"crypto/sha256"
	"fmt"
	"net/http"
	"net/http/httptest"
	"os"
	"regexp"
	"strings"
	"sync"
	"testing"

	"github.com/google/pprof/internal/plugin"
	"github.com/google/pprof/profile"
)

// zzcUI records what the web handlers print to the terminal UI.
type zzcUI struct {
	mu   sync.Mutex
	errs []string
}

func (u *zzcUI) ReadLine(string) (string, error) { return "", fmt.Errorf("no input") }
func (u *zzcUI) Print(...interface{})            {}
func (u *zzcUI) PrintErr(args ...interface{}) {
	u.mu.Lock()
	defer u.mu.Unlock()
	u.errs = append(u.errs, strings.TrimSpace(fmt.Sprint(args...)))
}
func (u *zzcUI) IsTerminal() bool                    { return false }
func (u *zzcUI) WantBrowser() bool                   { return false }
func (u *zzcUI) SetAutoComplete(func(string) string) {}
func (u *zzcUI) take() []string {
	u.mu.Lock()
	defer u.mu.Unlock()
	out := u.errs
	u.errs = nil
	return out
}

type zzcObj struct{}

func (zzcObj) Open(file string, start, limit, offset uint64, rel string) (plugin.ObjFile, error) {
	return nil, fmt.Errorf("cannot open %q", file)
}
func (zzcObj) Disasm(string, uint64, uint64, bool) ([]plugin.Inst, error) {
	return nil, fmt.Errorf("no disasm")
}

// zzcProfile is a valid profile with odd strings, a one-character build id,
// extreme addresses and labels with unknown units.
func zzcProfile() *profile.Profile {
	m1 := &profile.Mapping{ID: 1, Start: 0x1000, Limit: 0x4000, File: "/bin/prog", BuildID: "x", HasFunctions: true}
	m2 := &profile.Mapping{ID: 2, Start: 0x8000000000000000, Limit: ^uint64(0), File: "", BuildID: ""}
	f1 := &profile.Function{ID: 1, Name: "main.work", SystemName: "main.work", Filename: "/src/a.go", StartLine: 3}
	f2 := &profile.Function{ID: 2, Name: "<&\"'\x00\xff>", SystemName: "odd", Filename: ""}
	f3 := &profile.Function{ID: 3, Name: "", SystemName: "", Filename: "a/../b.go"}
	l1 := &profile.Location{ID: 1, Mapping: m1, Address: 0x1234, Line: []profile.Line{{Function: f1, Line: 10}, {Function: f2, Line: -1}}}
	l2 := &profile.Location{ID: 2, Mapping: m1, Address: 0x2000, Line: []profile.Line{{Function: f3, Line: 1 << 40}}}
	l3 := &profile.Location{ID: 3, Mapping: m2, Address: ^uint64(0) - 1}
	return &profile.Profile{
		SampleType:        []*profile.ValueType{{Type: "samples", Unit: "count"}, {Type: "cpu", Unit: "parsecs"}},
		DefaultSampleType: "cpu",
		PeriodType:        &profile.ValueType{Type: "cpu", Unit: "parsecs"},
		Period:            1,
		Sample: []*profile.Sample{
			{Location: []*profile.Location{l1, l2, l3}, Value: []int64{1, 1000}, Label: map[string][]string{"k": {"v", ""}}},
			{Location: []*profile.Location{l2, l3}, Value: []int64{2, -500},
				NumLabel: map[string][]int64{"bytes": {1 << 62, -5}}, NumUnit: map[string][]string{"bytes": {"furlongs", ""}}},
			{Location: []*profile.Location{l3}, Value: []int64{0, 0}},
			{Location: []*profile.Location{l1}, Value: []int64{7, 1 << 50}},
		},
		Mapping:  []*profile.Mapping{m1, m2},
		Location: []*profile.Location{l1, l2, l3},
		Function: []*profile.Function{f1, f2, f3},
	}
}

var zzcRequests = []string{
	"/top",
	"/top?si=samples",
	"/top?si=nosuch",
	"/top?f=%5B", // invalid regexp "["
	"/top?f=main&i=zzz&h=odd&s=.&sf=main",
	"/top?n=abc",
	"/top?n=-5&nf=1e400&ef=NaN",
	"/top?n=99999999999999999999",
	"/top?tf=bytes%3D1%3A99999999999999999999kb",
	"/top?tf=bytes%3D-5%3A4furlongs&ti=k%3Dv",
	"/top?tf=%3A%3A%3A&ts=%5B",
	"/top?unit=parsecs&sort=cum&g=addresses",
	"/top?unit=&sort=sideways",
	"/top?g=nosuch",
	"/top?norm=maybe",
	"/top?%zz",
	"/top?f=%00%ff&f=second",
	"/peek?f=main",
	"/peek?f=%28",
	"/peek",
	"/source?f=main",
	"/source?f=%2A",
	"/source",
	"/disasm?f=main",
	"/disasm?f=%5Cq",
	"/disasm",
	"/flamegraph",
	"/flamegraph?g=lines&si=samples&f=work",
	"/flamegraph?si=bogus",
	"/flamegraph2?f=a%20b&x=y",
	"/flamegraphold",
	"/saveconfig",
	"/saveconfig?config=",
	"/saveconfig?config=one&f=main",
	"/saveconfig?config=two&n=abc",
	"/saveconfig?config=%00%2F..%2F&f=x",
	"/top?f=main", // after saveconfig: config menu now lists entries
	"/deleteconfig?config=nosuch",
	"/deleteconfig",
	"/deleteconfig?config=one",
	"/deleteconfig?config=one",
	"/download",
	"/top", // session still usable
}

func TestZZEquivC(t *testing.T) {
	cfgDir := t.TempDir()
	t.Setenv("XDG_CONFIG_HOME", cfgDir)
	t.Setenv("HOME", cfgDir)
	savedCfg, savedMode := currentConfig(), interactiveMode
	defer func() { setCurrentConfig(savedCfg); interactiveMode = savedMode }()
	setCurrentConfig(defaultConfig())

	ui := &zzcUI{}
	var handlers map[string]http.Handler
	err := serveWebInterface("localhost:1", zzcProfile(), &plugin.Options{
		Obj: zzcObj{},
		UI:  ui,
		HTTPServer: func(a *plugin.HTTPServerArgs) error {
			handlers = a.Handlers
			return nil
		},
	}, true)
	if err != nil {
		t.Fatal(err)
	}

	scrub := regexp.MustCompile(regexp.QuoteMeta(cfgDir))
	var out strings.Builder
	do := func(target string) string {
		req := httptest.NewRequest("GET", "http://localhost"+target, nil)
		h := handlers[req.URL.Path]
		if h == nil {
			return fmt.Sprintf("%s\n  no handler\n", target)
		}
		rec := httptest.NewRecorder()
		h.ServeHTTP(rec, req)
		body := rec.Body.String()
		desc := fmt.Sprintf("len=%d sha=%x", len(body), sha256.Sum256([]byte(body)))
		if rec.Code != http.StatusOK || len(body) < 200 {
			desc = fmt.Sprintf("%q", scrub.ReplaceAllString(body, "$DIR"))
		}
		if strings.Contains(rec.Header().Get("Content-Type"), "protobuf") {
			// Compressed bytes are not promised; the decoded content is.
			if p, err := profile.ParseData(rec.Body.Bytes()); err != nil {
				desc = "unparsable: " + err.Error()
			} else {
				desc = fmt.Sprintf("profile samples=%d locs=%d funcs=%d maps=%d valid=%v", len(p.Sample), len(p.Location), len(p.Function), len(p.Mapping), p.CheckValid() == nil)
			}
		}
		var sts []string
		for _, st := range []string{"samples", "cpu"} {
			if strings.Contains(body, `sample-value-`+st) || strings.Contains(body, `id="`+st+`"`) || strings.Contains(body, ">"+st+"<") {
				sts = append(sts, st)
			}
		}
		var printed []string
		for _, e := range ui.take() {
			printed = append(printed, scrub.ReplaceAllString(e, "$DIR"))
		}
		return fmt.Sprintf("%s\n  code=%d ctype=%q loc=%q sampletypes=%v\n  body: %s\n  ui=%q\n",
			target, rec.Code, rec.Header().Get("Content-Type"), rec.Header().Get("Location"), sts, desc, printed)
	}
	for _, target := range zzcRequests {
		out.WriteString(do(target))
	}

	// Concurrent requests must give the same answers as sequential ones
	// (the sample type list is shared between requests).
	want := map[string]string{}
	concurrent := []string{"/top", "/top?si=samples", "/flamegraph", "/peek?f=main", "/top?f=%5B", "/source?f=main"}
	for _, target := range concurrent {
		want[target] = do(target)
	}
	quiet := regexp.MustCompile(`(?m)^  ui=.*$`) // UI messages interleave between concurrent requests
	var wg sync.WaitGroup
	for i := 0; i < 4; i++ {
		for _, target := range concurrent {
			wg.Add(1)
			go func(target string) {
				defer wg.Done()
				if got := do(target); quiet.ReplaceAllString(got, "") != quiet.ReplaceAllString(want[target], "") {
					t.Errorf("concurrent %s:\n%s\nsequential:\n%s", target, got, want[target])
				}
			}(target)
		}
	}
	wg.Wait()

	// isLocalhost is used to restrict clients of the default web server.
	for _, h := range []string{"localhost", "127.0.0.1", "[::1]", "::1", "", "LOCALHOST", "127.0.0.2", "localhost.", "[::1", "0.0.0.0", "::"} {
		fmt.Fprintf(&out, "isLocalhost(%q)=%v\n", h, isLocalhost(h))
	}

	got := out.String()
	if os.Getenv("ZZ_PRINT") != "" {
		fmt.Print(got)
		return
	}
	if got != zzWantC {
		t.Errorf("transcript differs from the one recorded on the unchanged tree.\n--- got\n%s\n--- want\n%s", got, zzWantC)
	}
}

// zzWantC is the transcript produced by the unchanged tree.
const zzWantC = "" +
	"/top\n" +
	"  code=200 ctype=\"text/html\" loc=\"\" sampletypes=[samples cpu]\n" +
	"  body: len=29767 sha=3b726e921b7e2c3cd653000d5bd53e4ed217b051ac6d7202de1993baf96e9611\n" +
	"  ui=[]\n" +
	"/top?si=samples\n" +
	"  code=200 ctype=\"text/html\" loc=\"\" sampletypes=[samples cpu]\n" +
	"  body: len=29777 sha=e449a8aaf7a40b28880c945d6b240684d832b0c6dc4ad36ce7a1428ae186b500\n" +
	"  ui=[]\n" +
	"/top?si=nosuch\n" +
	"  code=400 ctype=\"text/plain; charset=utf-8\" loc=\"\" sampletypes=[]\n" +
	"  body: \"sample_index \\\"nosuch\\\" must be one of: [samples cpu]\\n\"\n" +
	"  ui=[\"sample_index \\\"nosuch\\\" must be one of: [samples cpu]\"]\n" +
	"/top?f=%5B\n" +
	"  code=400 ctype=\"text/plain; charset=utf-8\" loc=\"\" sampletypes=[]\n" +
	"  body: \"parsing focus regexp: error parsing regexp: missing closing ]: `[`\\n\"\n" +
	"  ui=[\"parsing focus regexp: error parsing regexp: missing closing ]: `[`\"]\n" +
	"/top?f=main&i=zzz&h=odd&s=.&sf=main\n" +
	"  code=200 ctype=\"text/html\" loc=\"\" sampletypes=[samples cpu]\n" +
	"  body: len=29711 sha=bb825c71b516adaec156fa3dfbd28fb1fcac35ee3f88bcea7247160caa809fdb\n" +
	"  ui=[\"Ignore expression matched no samples\" \"Hide expression matched no samples\"]\n" +
	"/top?n=abc\n" +
	"  code=400 ctype=\"text/plain; charset=utf-8\" loc=\"\" sampletypes=[]\n" +
	"  body: \"error setting config field nodecount: strconv.Atoi: parsing \\\"abc\\\": invalid syntax\\n\"\n" +
	"  ui=[\"error setting config field nodecount: strconv.Atoi: parsing \\\"abc\\\": invalid syntax\"]\n" +
	"/top?n=-5&nf=1e400&ef=NaN\n" +
	"  code=400 ctype=\"text/plain; charset=utf-8\" loc=\"\" sampletypes=[]\n" +
	"  body: \"error setting config field nodefraction: strconv.ParseFloat: parsing \\\"1e400\\\": value out of range\\n\"\n" +
	"  ui=[\"error setting config field nodefraction: strconv.ParseFloat: parsing \\\"1e400\\\": value out of range\"]\n" +
	"/top?n=99999999999999999999\n" +
	"  code=400 ctype=\"text/plain; charset=utf-8\" loc=\"\" sampletypes=[]\n" +
	"  body: \"error setting config field nodecount: strconv.Atoi: parsing \\\"99999999999999999999\\\": value out of range\\n\"\n" +
	"  ui=[\"error setting config field nodecount: strconv.Atoi: parsing \\\"99999999999999999999\\\": value out of range\"]\n" +
	"/top?tf=bytes%3D1%3A99999999999999999999kb\n" +
	"  code=400 ctype=\"text/plain; charset=utf-8\" loc=\"\" sampletypes=[]\n" +
	"  body: \"parsing tagfocus range: failed to parse int 99999999999999999999: strconv.ParseInt: parsing \\\"99999999999999999999\\\": value out of range\\n\"\n" +
	"  ui=[\"parsing tagfocus range: failed to parse int 99999999999999999999: strconv.ParseInt: parsing \\\"99999999999999999999\\\": value out of range\"]\n" +
	"/top?tf=bytes%3D-5%3A4furlongs&ti=k%3Dv\n" +
	"  code=200 ctype=\"text/html\" loc=\"\" sampletypes=[samples cpu]\n" +
	"  body: len=29718 sha=4f4cd85c705722753e5faa25d0bf7c9e28d662de1955663e01066e3ff24868fa\n" +
	"  ui=[\"tagfocus:Interpreted '-5:4furlongs' as range, not regexp\"]\n" +
	"/top?tf=%3A%3A%3A&ts=%5B\n" +
	"  code=400 ctype=\"text/plain; charset=utf-8\" loc=\"\" sampletypes=[]\n" +
	"  body: \"parsing tagshow regexp: error parsing regexp: missing closing ]: `[`\\n\"\n" +
	"  ui=[\"TagFocus expression matched no samples\" \"parsing tagshow regexp: error parsing regexp: missing closing ]: `[`\"]\n" +
	"/top?unit=parsecs&sort=cum&g=addresses\n" +
	"  code=200 ctype=\"text/html\" loc=\"\" sampletypes=[samples cpu]\n" +
	"  body: len=29829 sha=ee1123d7ccba6d6b53aecfdd5f8944504aea4b77ca08707ab445063e6fc184c4\n" +
	"  ui=[]\n" +
	"/top?unit=&sort=sideways\n" +
	"  code=400 ctype=\"text/plain; charset=utf-8\" loc=\"\" sampletypes=[]\n" +
	"  body: \"error setting config field sort: invalid \\\"sort\\\" value \\\"sideways\\\"\\n\"\n" +
	"  ui=[\"error setting config field sort: invalid \\\"sort\\\" value \\\"sideways\\\"\"]\n" +
	"/top?g=nosuch\n" +
	"  code=400 ctype=\"text/plain; charset=utf-8\" loc=\"\" sampletypes=[]\n" +
	"  body: \"error setting config field granularity: invalid \\\"granularity\\\" value \\\"nosuch\\\"\\n\"\n" +
	"  ui=[\"error setting config field granularity: invalid \\\"granularity\\\" value \\\"nosuch\\\"\"]\n" +
	"/top?norm=maybe\n" +
	"  code=400 ctype=\"text/plain; charset=utf-8\" loc=\"\" sampletypes=[]\n" +
	"  body: \"error setting config field normalize: illegal value \\\"maybe\\\" for bool variable\\n\"\n" +
	"  ui=[\"error setting config field normalize: illegal value \\\"maybe\\\" for bool variable\"]\n" +
	"/top?%zz\n" +
	"  code=200 ctype=\"text/html\" loc=\"\" sampletypes=[samples cpu]\n" +
	"  body: len=29772 sha=1811b75e56d291e54476c6fb26f2b08e62404ec83ee9209344e28dbd5c80d764\n" +
	"  ui=[]\n" +
	"/top?f=%00%ff&f=second\n" +
	"  code=400 ctype=\"text/plain; charset=utf-8\" loc=\"\" sampletypes=[]\n" +
	"  body: \"parsing focus regexp: error parsing regexp: invalid UTF-8: `\\xff`\\n\"\n" +
	"  ui=[\"parsing focus regexp: error parsing regexp: invalid UTF-8: `\\xff`\"]\n" +
	"/peek?f=main\n" +
	"  code=200 ctype=\"text/html\" loc=\"\" sampletypes=[samples cpu]\n" +
	"  body: len=27296 sha=53ac756bde6daf83f5c568c9f10a04bce6fe3a6cc8e072f0f11cc46b8a2d4893\n" +
	"  ui=[]\n" +
	"/peek?f=%28\n" +
	"  code=400 ctype=\"text/plain; charset=utf-8\" loc=\"\" sampletypes=[]\n" +
	"  body: \"parsing argument regexp (: error parsing regexp: missing closing ): `(`\\n\"\n" +
	"  ui=[\"parsing argument regexp (: error parsing regexp: missing closing ): `(`\"]\n" +
	"/peek\n" +
	"  code=200 ctype=\"text/html\" loc=\"\" sampletypes=[samples cpu]\n" +
	"  body: len=28235 sha=bdefe271630d897a665e48a68e55431f425a23affd254b44a3dd07759eb09236\n" +
	"  ui=[]\n" +
	"/source?f=main\n" +
	"  code=200 ctype=\"text/html\" loc=\"\" sampletypes=[samples cpu]\n" +
	"  body: len=27633 sha=6ef89dc0512e2b0935a7957e731b4e136a672a9a8ba21943a1d7a77eec895080\n" +
	"  ui=[]\n" +
	"/source?f=%2A\n" +
	"  code=400 ctype=\"text/plain; charset=utf-8\" loc=\"\" sampletypes=[]\n" +
	"  body: \"parsing argument regexp *: error parsing regexp: missing argument to repetition operator: `*`\\n\"\n" +
	"  ui=[\"parsing argument regexp *: error parsing regexp: missing argument to repetition operator: `*`\"]\n" +
	"/source\n" +
	"  code=200 ctype=\"text/html\" loc=\"\" sampletypes=[samples cpu]\n" +
	"  body: len=28412 sha=3725bcb90e00318f477a027d82a48a53aa4b2fd334db792f115093f993c4b387\n" +
	"  ui=[]\n" +
	"/disasm?f=main\n" +
	"  code=400 ctype=\"text/plain; charset=utf-8\" loc=\"\" sampletypes=[]\n" +
	"  body: \"no matches found for regexp main\\n\"\n" +
	"  ui=[\"no matches found for regexp main\"]\n" +
	"/disasm?f=%5Cq\n" +
	"  code=400 ctype=\"text/plain; charset=utf-8\" loc=\"\" sampletypes=[]\n" +
	"  body: \"parsing argument regexp \\\\q: error parsing regexp: invalid escape sequence: `\\\\q`\\n\"\n" +
	"  ui=[\"parsing argument regexp \\\\q: error parsing regexp: invalid escape sequence: `\\\\q`\"]\n" +
	"/disasm\n" +
	"  code=400 ctype=\"text/plain; charset=utf-8\" loc=\"\" sampletypes=[]\n" +
	"  body: \"no matches found for regexp \\n\"\n" +
	"  ui=[\"no matches found for regexp\"]\n" +
	"/flamegraph\n" +
	"  code=200 ctype=\"text/html\" loc=\"\" sampletypes=[samples cpu]\n" +
	"  body: len=46426 sha=d5080917a34ba38fe0a57929a22c0db04ad2870c82f81b164011fec422fe1d43\n" +
	"  ui=[]\n" +
	"/flamegraph?g=lines&si=samples&f=work\n" +
	"  code=200 ctype=\"text/html\" loc=\"\" sampletypes=[samples cpu]\n" +
	"  body: len=46350 sha=849d0446169fd907f1e357209352b212e06ff29c08e4d8ffa70ca5d9089fe4f5\n" +
	"  ui=[]\n" +
	"/flamegraph?si=bogus\n" +
	"  code=400 ctype=\"text/plain; charset=utf-8\" loc=\"\" sampletypes=[]\n" +
	"  body: \"sample_index \\\"bogus\\\" must be one of: [samples cpu]\\n\"\n" +
	"  ui=[\"sample_index \\\"bogus\\\" must be one of: [samples cpu]\"]\n" +
	"/flamegraph2?f=a%20b&x=y\n" +
	"  code=301 ctype=\"\" loc=\"flamegraph?f=a%20b&x=y\" sampletypes=[]\n" +
	"  body: \"\"\n" +
	"  ui=[]\n" +
	"/flamegraphold\n" +
	"  code=301 ctype=\"\" loc=\"flamegraph\" sampletypes=[]\n" +
	"  body: \"\"\n" +
	"  ui=[]\n" +
	"/saveconfig\n" +
	"  code=400 ctype=\"text/plain; charset=utf-8\" loc=\"\" sampletypes=[]\n" +
	"  body: \"invalid config name\\n\"\n" +
	"  ui=[\"invalid config name\"]\n" +
	"/saveconfig?config=\n" +
	"  code=400 ctype=\"text/plain; charset=utf-8\" loc=\"\" sampletypes=[]\n" +
	"  body: \"invalid config name\\n\"\n" +
	"  ui=[\"invalid config name\"]\n" +
	"/saveconfig?config=one&f=main\n" +
	"  code=200 ctype=\"\" loc=\"\" sampletypes=[]\n" +
	"  body: \"\"\n" +
	"  ui=[]\n" +
	"/saveconfig?config=two&n=abc\n" +
	"  code=400 ctype=\"text/plain; charset=utf-8\" loc=\"\" sampletypes=[]\n" +
	"  body: \"error setting config field nodecount: strconv.Atoi: parsing \\\"abc\\\": invalid syntax\\n\"\n" +
	"  ui=[\"error setting config field nodecount: strconv.Atoi: parsing \\\"abc\\\": invalid syntax\"]\n" +
	"/saveconfig?config=%00%2F..%2F&f=x\n" +
	"  code=200 ctype=\"\" loc=\"\" sampletypes=[]\n" +
	"  body: \"\"\n" +
	"  ui=[]\n" +
	"/top?f=main\n" +
	"  code=200 ctype=\"text/html\" loc=\"\" sampletypes=[samples cpu]\n" +
	"  body: len=30135 sha=fee0afbf0c2722ad4dbc8761f7c605612eee26a68f9863f2651cb92dfa967f16\n" +
	"  ui=[]\n" +
	"/deleteconfig?config=nosuch\n" +
	"  code=400 ctype=\"text/plain; charset=utf-8\" loc=\"\" sampletypes=[]\n" +
	"  body: \"config nosuch not found\\n\"\n" +
	"  ui=[\"config nosuch not found\"]\n" +
	"/deleteconfig\n" +
	"  code=400 ctype=\"text/plain; charset=utf-8\" loc=\"\" sampletypes=[]\n" +
	"  body: \"config  not found\\n\"\n" +
	"  ui=[\"config  not found\"]\n" +
	"/deleteconfig?config=one\n" +
	"  code=200 ctype=\"\" loc=\"\" sampletypes=[]\n" +
	"  body: \"\"\n" +
	"  ui=[]\n" +
	"/deleteconfig?config=one\n" +
	"  code=400 ctype=\"text/plain; charset=utf-8\" loc=\"\" sampletypes=[]\n" +
	"  body: \"config one not found\\n\"\n" +
	"  ui=[\"config one not found\"]\n" +
	"/download\n" +
	"  code=200 ctype=\"application/vnd.google.protobuf+gzip\" loc=\"\" sampletypes=[]\n" +
	"  body: profile samples=4 locs=3 funcs=3 maps=2 valid=true\n" +
	"  ui=[]\n" +
	"/top\n" +
	"  code=200 ctype=\"text/html\" loc=\"\" sampletypes=[samples cpu]\n" +
	"  body: len=29933 sha=b8acb95574951287f5079228b041fdd3f846de69b3b433313f63f10dd5ca3422\n" +
	"  ui=[]\n" +
	"isLocalhost(\"localhost\")=true\n" +
	"isLocalhost(\"127.0.0.1\")=true\n" +
	"isLocalhost(\"[::1]\")=true\n" +
	"isLocalhost(\"::1\")=true\n" +
	"isLocalhost(\"\")=false\n" +
	"isLocalhost(\"LOCALHOST\")=false\n" +
	"isLocalhost(\"127.0.0.2\")=false\n" +
	"isLocalhost(\"localhost.\")=false\n" +
	"isLocalhost(\"[::1\")=false\n" +
	"isLocalhost(\"0.0.0.0\")=false\n" +
	"isLocalhost(\"::\")=false\n"
