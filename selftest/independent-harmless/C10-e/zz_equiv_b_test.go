package driver

// Equivalence demonstration for change B (option-assignment parsing in the
// interactive loop: strings.Cut + assignOption helper).
//
// It runs an interactive session in which many shapes of option assignment
// (spaces, trailing "//:" comments, several '=', missing values, bad values,
// sample_index by name/number, choice names, shortcuts) are interleaved with
// report commands and the "o" command, and fingerprints every report written,
// every error printed and the option listing. The expected transcript was
// computed on the UNCHANGED tree and is hard-coded; the test passes with and
// without the change.
//
// Set ZZ_PRINT=1 to print the actual fingerprints.

import (
	"bytes"
	"crypto/sha256"
	"fmt"
	"io"
	"os"
	"strings"
	"testing"

	"github.com/google/pprof/internal/plugin"
	"github.com/google/pprof/profile"
)

func zzbProfile() *profile.Profile {
	m := []*profile.Mapping{
		{ID: 1, Start: 0x1000, Limit: 0x9000, File: "/bin/zzprog", HasFunctions: true, HasFilenames: true, HasLineNumbers: true, HasInlineFrames: true},
	}
	f := []*profile.Function{
		{ID: 1, Name: "main.main", SystemName: "main.main", Filename: "/src/app/main.go", StartLine: 10},
		{ID: 2, Name: "main.work", SystemName: "main.work", Filename: "/src/app/main.go", StartLine: 40},
		{ID: 3, Name: "lib.Encode", SystemName: "lib.Encode", Filename: "/src/lib/enc.go", StartLine: 5},
		{ID: 4, Name: "lib.inlined", SystemName: "lib.inlined", Filename: "/src/lib/enc.go", StartLine: 70},
		{ID: 5, Name: "lib.Encode", SystemName: "lib.Encode", Filename: "/src/lib/enc_other.go", StartLine: 5},
		{ID: 6, Name: "runtime.memmove", SystemName: "runtime.memmove", Filename: "/go/src/runtime/memmove.s", StartLine: 1},
	}
	l := []*profile.Location{
		{ID: 1, Mapping: m[0], Address: 0x1100, Line: []profile.Line{{Function: f[0], Line: 12, Column: 3}}},
		{ID: 2, Mapping: m[0], Address: 0x1200, Line: []profile.Line{{Function: f[1], Line: 44, Column: 7}}},
		{ID: 3, Mapping: m[0], Address: 0x1210, Line: []profile.Line{{Function: f[1], Line: 44, Column: 19}}},
		{ID: 4, Mapping: m[0], Address: 0x1300, Line: []profile.Line{{Function: f[3], Line: 72, Column: 2}, {Function: f[2], Line: 9, Column: 11}}},
		{ID: 5, Mapping: m[0], Address: 0x1310, Line: []profile.Line{{Function: f[2], Line: 9, Column: 30}}},
		{ID: 6, Mapping: m[0], Address: 0x1400, Line: []profile.Line{{Function: f[4], Line: 6, Column: 1}}},
		{ID: 7, Mapping: m[0], Address: 0x1500, Line: []profile.Line{{Function: f[5], Line: 100}}},
		{ID: 8, Mapping: m[0], Address: 0x1508, Line: []profile.Line{{Function: f[5], Line: 101}}},
	}
	s := func(v1, v2 int64, lbl string, locs ...int) *profile.Sample {
		smp := &profile.Sample{Value: []int64{v1, v2}}
		for _, i := range locs {
			smp.Location = append(smp.Location, l[i-1])
		}
		if lbl != "" {
			smp.Label = map[string][]string{"req": {lbl}}
			smp.NumLabel = map[string][]int64{"bytes": {int64(len(lbl)) * 64}}
			smp.NumUnit = map[string][]string{"bytes": {"bytes"}}
		}
		return smp
	}
	return &profile.Profile{
		SampleType:    []*profile.ValueType{{Type: "samples", Unit: "count"}, {Type: "cpu", Unit: "milliseconds"}},
		PeriodType:    &profile.ValueType{Type: "cpu", Unit: "milliseconds"},
		Period:        10,
		DurationNanos: 5e9,
		Sample: []*profile.Sample{
			s(10, 100, "a", 7, 4, 2, 1),
			s(20, 200, "b", 8, 4, 2, 1),
			s(5, 50, "a", 8, 5, 3, 1),
			s(7, 70, "", 6, 3, 1),
			s(3, 30, "b", 6, 2, 1),
			s(40, 400, "", 2, 1),
			s(1, 10, "c", 3, 1),
			s(2, 20, "", 1),
		},
		Location: l,
		Function: f,
		Mapping:  m,
	}
}

type zzbUI struct {
	in  []string
	log []string
}

func (u *zzbUI) ReadLine(string) (string, error) {
	if len(u.in) == 0 {
		return "", io.EOF
	}
	l := u.in[0]
	u.in = u.in[1:]
	return l, nil
}
func (u *zzbUI) Print(args ...interface{}) {
	u.log = append(u.log, "OUT "+zzbSum([]byte(fmt.Sprint(args...))))
}
func (u *zzbUI) PrintErr(args ...interface{})        { u.log = append(u.log, "ERR "+fmt.Sprint(args...)) }
func (u *zzbUI) IsTerminal() bool                    { return false }
func (u *zzbUI) WantBrowser() bool                   { return false }
func (u *zzbUI) SetAutoComplete(func(string) string) {}

type zzbFile struct {
	name string
	bytes.Buffer
}

func (f *zzbFile) Close() error { return nil }

type zzbWriter struct {
	files []*zzbFile
	ui    *zzbUI
}

func (w *zzbWriter) Open(name string) (io.WriteCloser, error) {
	f := &zzbFile{name: name}
	w.ui.log = append(w.ui.log, "OPEN "+name)
	w.files = append(w.files, f)
	return f, nil
}

func zzbSum(b []byte) string { return fmt.Sprintf("%x", sha256.Sum256(b))[:16] }

func TestZZEquivB(t *testing.T) {
	saved := currentConfig()
	defer setCurrentConfig(saved)
	savedShortcuts := pprofShortcuts
	defer func() { pprofShortcuts = savedShortcuts }()
	savedMode := interactiveMode
	defer func() { interactiveMode = savedMode }()
	savedHelp := configHelp["sample_index"]
	defer func() { configHelp["sample_index"] = savedHelp }()

	setCurrentConfig(defaultConfig())
	pprofShortcuts = shortcuts{":": pprofShortcuts[":"]}
	script := []string{
		"top 20 >o01",
		"focus=work",
		"top 20 >o02",
		"  nodecount =  3  ",
		"top >o03",
		"top 20 >o04 -memmove",
		"top >o05",
		"focus = Encode|memmove   //: [a regexp]",
		"top 20 >o06",
		"hide=runtime //: x //: y",
		"ignore=a=b",
		"top 20 >o07",
		"o",
		":",
		"top 20 >o08",
		"focus",
		"nodecount",
		"call_tree",
		"tree >o09",
		"call_tree=false",
		"cum",
		"cum=true",
		"top >o10",
		"flat = 1",
		"sort=nosuch",
		"nodecount=abc",
		"divide_by=0",
		"top >o11",
		"divide_by = 2.5 ",
		"sample_index=0",
		"top >o12",
		"sample_index=cpu",
		"sample_index=7",
		"sample_index=zzz",
		"sample_index=",
		"top >o13",
		"samples",
		"mean_cpu",
		"top >o14",
		"total_cpu",
		"=5",
		"top=5",
		"nosuch=1",
		"focus=//:only a comment",
		"tagfocus= req=a ",
		"top 20 >o15",
		"tagfocus=",
		"unit=seconds//:c",
		"top 20 >o16",
		"o",
		"nodecount=-1",
		"unit=minimum",
		"divide_by=1",
		"top 20 >o17",
	}
	ui := &zzbUI{in: script}
	w := &zzbWriter{ui: ui}
	o := setDefaults(&plugin.Options{UI: ui, Writer: w})
	if err := interactive(zzbProfile(), o); err != nil {
		t.Fatalf("interactive: %v", err)
	}
	var got []string
	for _, f := range w.files {
		got = append(got, fmt.Sprintf("file %s %d %s", f.name, f.Len(), zzbSum(f.Bytes())))
	}
	for _, l := range ui.log {
		if strings.HasPrefix(l, "ERR Generating report in ") {
			continue
		}
		got = append(got, l)
	}
	final := currentConfig()
	got = append(got, fmt.Sprintf("final %+v", final))

	actual := strings.Join(got, "\n")
	if os.Getenv("ZZ_PRINT") != "" {
		fmt.Printf("----BEGIN----\n%s\n----END----\n", actual)
	}
	if actual != zzbExpected {
		t.Errorf("behaviour differs from the unchanged tree:\n%s", zzbDiffLines(zzbExpected, actual))
	}
}

func zzbDiffLines(want, got string) string {
	w, g := strings.Split(want, "\n"), strings.Split(got, "\n")
	var b strings.Builder
	for i := 0; i < len(w) || i < len(g); i++ {
		var x, y string
		if i < len(w) {
			x = w[i]
		}
		if i < len(g) {
			y = g[i]
		}
		if x != y {
			fmt.Fprintf(&b, "line %d:\n  want %s\n  got  %s\n", i+1, x, y)
		}
	}
	return b.String()
}

const zzbExpected = `file o01 387 df71eb6dfc5bdbf6
file o02 419 0567d0707275a844
file o03 329 7cbd4f2c6f080139
file o04 312 f70d06bb822d6b42
file o05 329 7cbd4f2c6f080139
file o06 429 2786d27cf509cf6c
file o07 465 71268a4252e5ed25
file o08 387 df71eb6dfc5bdbf6
file o09 1038 2c868fd680427448
file o10 293 8342855b3c90c465
file o12 293 13e18af03de0b44f
file o13 299 43073515e14d0145
file o14 299 89251a3c5bc436f7
file o15 422 7c9f5db5534621c8
file o16 387 b258ee38a1e7c86e
file o17 387 df71eb6dfc5bdbf6
OUT 577982b83074b427
OUT f31109782bfcfa64
OPEN o01
OPEN o02
OPEN o03
OPEN o04
OPEN o05
OPEN o06
ERR Ignore expression matched no samples
ERR Hide expression matched no samples
OPEN o07
OUT 7716c01cbf5d1287
OPEN o08
ERR please specify a value, e.g. focus=<val>
ERR please specify a value, e.g. nodecount=<val>
OPEN o09
ERR unknown config field "cum"
OPEN o10
ERR invalid "sort" value "nosuch"
ERR strconv.Atoi: parsing "abc": invalid syntax
ERR zero divisor specified
OPEN o12
ERR sample_index 7 is outside the range [0..1]
ERR sample_index "zzz" must be one of: [samples cpu]
OPEN o13
OPEN o14
ERR unrecognized command: "="
ERR unrecognized command: "top="
ERR unrecognized command: "nosuch="
OPEN o15
OPEN o16
OUT ddeab4387f15315c
OPEN o17
final {Output: CallTree:false RelativePercentages:false Unit:minimum CompactLabels:true SourcePath: TrimPath: IntelSyntax:false Mean:false SampleIndex:cpu DivideBy:1 Normalize:false Sort:flat TagRoot: TagLeaf: DropNegative:false NodeCount:-1 NodeFraction:0.005 EdgeFraction:0.001 Trim:true Focus: Ignore: PruneFrom: Hide: Show: ShowFrom: TagFocus: TagIgnore: TagShow: TagHide: NoInlines:false ShowColumns:false Granularity:}`
