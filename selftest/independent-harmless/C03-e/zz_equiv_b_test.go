package profile

import (
	"crypto/sha256"
	"fmt"
	"sort"
	"strings"
	"testing"
)

// zzBProfile builds a valid profile with nLoc locations whose ids start at
// idBase and advance by idStep (so that ids may be dense, sparse or collide
// with those of other inputs), over nFn functions and two mappings of the
// same binaries loaded at mapBase.
func zzBProfile(tag string, nLoc int, idBase, idStep uint64, nFn int, mapBase uint64, val int64) *Profile {
	p := &Profile{
		SampleType: []*ValueType{{Type: "samples", Unit: "count"}, {Type: "cpu", Unit: "nanoseconds"}},
		PeriodType: &ValueType{Type: "cpu", Unit: "nanoseconds"},
		Period:     10,
	}
	m1 := &Mapping{ID: idBase + 7, Start: mapBase, Limit: mapBase + 0x10000, Offset: 0, File: "/bin/main", BuildID: "main-id", HasFunctions: true}
	m2 := &Mapping{ID: idBase + 3, Start: mapBase + 0x100000, Limit: mapBase + 0x108000, Offset: 0x2000, File: "/lib/libc.so", HasFunctions: true}
	p.Mapping = []*Mapping{m1, m2}
	for i := 0; i < nFn; i++ {
		p.Function = append(p.Function, &Function{
			ID:         idBase + uint64(nFn-i), // descending ids
			Name:       fmt.Sprintf("fn%d", i),
			SystemName: fmt.Sprintf("_Zfn%d", i),
			Filename:   fmt.Sprintf("file%d.go", i%3),
			StartLine:  int64(10 * i),
		})
	}
	for i := 0; i < nLoc; i++ {
		m := m1
		if i%3 == 2 {
			m = m2
		}
		l := &Location{
			ID:       idBase + uint64(i)*idStep,
			Mapping:  m,
			Address:  m.Start + 0x100 + uint64(i)*0x10,
			IsFolded: i%5 == 4,
		}
		l.Line = append(l.Line, Line{Function: p.Function[i%nFn], Line: int64(100 + i), Column: int64(i % 4)})
		if i%2 == 1 {
			// Inlined frame.
			l.Line = append(l.Line, Line{Function: p.Function[(i+1)%nFn], Line: int64(200 + i), Column: 1})
		}
		p.Location = append(p.Location, l)
	}
	for i := 0; i < nLoc; i++ {
		s := &Sample{Value: []int64{val, val * int64(i+1)}}
		for j := i; j < nLoc && j < i+3; j++ {
			s.Location = append(s.Location, p.Location[j])
		}
		switch i % 4 {
		case 1:
			s.Label = map[string][]string{"tag": {tag}, "k": {"v", "w"}}
		case 2:
			s.NumLabel = map[string][]int64{"bytes": {int64(i), 8}}
			s.NumUnit = map[string][]string{"bytes": {"kb", "b"}}
		case 3:
			s.Label = map[string][]string{"k": {"v"}}
		}
		p.Sample = append(p.Sample, s)
	}
	return p
}

// zzBCanon is an id-independent rendering of a profile's samples: every stack
// is written by the attributes of its frames, with its labels and values; the
// lines are sorted.
func zzBCanon(p *Profile) string {
	var out []string
	for _, s := range p.Sample {
		var b strings.Builder
		for _, l := range s.Location {
			if m := l.Mapping; m != nil {
				fmt.Fprintf(&b, "[%s|%s|%x|%x|+%x", m.File, m.BuildID, m.Limit-m.Start, m.Offset, l.Address-m.Start)
			} else {
				fmt.Fprintf(&b, "[nomap|%x", l.Address)
			}
			fmt.Fprintf(&b, "|folded=%v", l.IsFolded)
			for _, ln := range l.Line {
				f := ln.Function
				fmt.Fprintf(&b, "{%s %s %s %d:%d:%d}", f.Name, f.SystemName, f.Filename, f.StartLine, ln.Line, ln.Column)
			}
			b.WriteString("]")
		}
		b.WriteString(" " + labelsToString(s.Label) + " " + numLabelsToString(s.NumLabel, s.NumUnit))
		fmt.Fprintf(&b, " %v", s.Value)
		out = append(out, b.String())
	}
	sort.Strings(out)
	return strings.Join(out, "\n")
}

func zzBHash(s string) string { return fmt.Sprintf("%x", sha256.Sum256([]byte(s))) }

func zzBTotals(ps ...*Profile) []int64 {
	tot := make([]int64, 2)
	for _, p := range ps {
		for _, s := range p.Sample {
			for i, v := range s.Value {
				tot[i] += v
			}
		}
	}
	return tot
}

func TestZZEquivBMergeTables(t *testing.T) {
	type tc struct {
		name                     string
		srcs                     func() []*Profile
		nSample, nLoc, nFn, nMap int
		canonSum, dumpSum        string
	}
	cases := []tc{
		{
			// Big, small, big again: the per-input id tables shrink and grow, ids
			// of all inputs collide, and the same binaries sit at other addresses.
			name: "big-small-big-colliding-ids",
			srcs: func() []*Profile {
				return []*Profile{
					zzBProfile("a", 40, 1, 1, 7, 0x400000, 1),
					zzBProfile("b", 5, 1, 1, 3, 0x7f0000000000, 2),
					zzBProfile("c", 33, 1, 1, 5, 0x500000, 3),
				}
			},
			nSample: 75, nLoc: 70, nFn: 7, nMap: 2, canonSum: "9c8e6e0e6c152bf54dc92269984f5039b9f1a0cf53f7ca5a91fa46d117e85a41", dumpSum: "1f8a7aeacd36b3e21a043a75b5f122ab6aa97034dd6259046dd4f6b57c5d514d",
		},
		{
			// Sparse ids (beyond the number of locations) mixed with dense ones.
			name: "sparse-dense-sparse",
			srcs: func() []*Profile {
				return []*Profile{
					zzBProfile("a", 12, 1000, 17, 4, 0x400000, 1),
					zzBProfile("b", 30, 1, 1, 4, 0x400000, 1),
					zzBProfile("c", 12, 3, 2, 6, 0x600000, -1),
					zzBProfile("d", 50, 2, 1, 9, 0x400000, 4),
				}
			},
			nSample: 94, nLoc: 84, nFn: 9, nMap: 2, canonSum: "499ddbc187277febf1ef902baf87bd4dd4f4d8b07545610a1ca8db1417c1c60d", dumpSum: "af402a548873be4d1526b9e89b222e53789241edbe8cb20fa6b5e5e4b4531d97",
		},
		{
			// A profile and its negation cancel; what remains is the third input.
			name: "cancel",
			srcs: func() []*Profile {
				return []*Profile{
					zzBProfile("a", 20, 1, 1, 4, 0x400000, 2),
					zzBProfile("a", 20, 50, 3, 4, 0x900000, -2),
					zzBProfile("z", 6, 1, 1, 2, 0x400000, 1),
				}
			},
			nSample: 6, nLoc: 6, nFn: 2, nMap: 2, canonSum: "bcd294e73801ceb2d40b0c643214a1a2f2407d57ab181f37e56a115cdc33e723", dumpSum: "fc3e31012549c9fb8fc33793820a251d42ef0420c5404f8bfa2c70106ade750a",
		},
		{
			// Same input many times: every table entry is hit again and again.
			name: "self-times-5",
			srcs: func() []*Profile {
				p := zzBProfile("s", 25, 9, 4, 6, 0x400000, 1)
				return []*Profile{p, p, p, p, p}
			},
			nSample: 25, nLoc: 25, nFn: 6, nMap: 2, canonSum: "4683176498552f2d781ec5671bfadec2953092f7d5a8128999128cd088191aeb", dumpSum: "968f4463403c27538ecc5c74f628ea874374822f2d17955c9962860884bb3db0",
		},
	}
	for _, c := range cases {
		t.Run(c.name, func(t *testing.T) {
			srcs := c.srcs()
			before := make([]string, len(srcs))
			for i, s := range srcs {
				before[i] = s.String()
			}
			m, err := Merge(srcs)
			if err != nil {
				t.Fatal(err)
			}
			if err := m.CheckValid(); err != nil {
				t.Fatalf("merged profile invalid: %v", err)
			}
			for i, s := range srcs {
				if s.String() != before[i] {
					t.Errorf("input %d modified", i)
				}
			}
			if got, want := fmt.Sprint(zzBTotals(m)), fmt.Sprint(zzBTotals(srcs...)); got != want {
				t.Errorf("totals %s, want %s", got, want)
			}
			if got := fmt.Sprintf("%d/%d/%d/%d", len(m.Sample), len(m.Location), len(m.Function), len(m.Mapping)); got != fmt.Sprintf("%d/%d/%d/%d", c.nSample, c.nLoc, c.nFn, c.nMap) {
				t.Errorf("sizes samples/locations/functions/mappings = %s, want %d/%d/%d/%d", got, c.nSample, c.nLoc, c.nFn, c.nMap)
			}
			if got := zzBHash(zzBCanon(m)); got != c.canonSum {
				t.Errorf("canonical content hash = %s, want %s", got, c.canonSum)
			}
			if got := zzBHash(m.String()); got != c.dumpSum {
				t.Errorf("dump hash = %s, want %s", got, c.dumpSum)
			}
			// Compacting again changes nothing.
			if got := zzBHash(m.Compact().String()); got != c.dumpSum {
				t.Errorf("dump hash after Compact = %s, want %s", got, c.dumpSum)
			}
			// The reversed input list gives the same stacks and weights.
			rev := make([]*Profile, len(srcs))
			for i, s := range srcs {
				rev[len(srcs)-1-i] = s
			}
			mr, err := Merge(rev)
			if err != nil {
				t.Fatal(err)
			}
			if got := zzBHash(zzBCanon(mr)); got != c.canonSum {
				t.Errorf("canonical content hash of reversed merge = %s, want %s", got, c.canonSum)
			}
		})
	}
}
