package driver

import (
	"fmt"
	"os"
	"path/filepath"
	"sort"
	"sync"
	"testing"
)

// Equivalence demonstration for change A (tempfile.go). All expectations were
// computed on the unchanged tree and hard-coded.

func TestZZEquivATempNamesSequential(t *testing.T) {
	dir := t.TempDir()
	// Pre-existing file with index 2 must be skipped, not overwritten.
	pre := filepath.Join(dir, "pprof.bin.cpu.002.pb.gz")
	if err := os.WriteFile(pre, []byte("keep"), 0666); err != nil {
		t.Fatal(err)
	}
	var got []string
	for i := 0; i < 4; i++ {
		f, err := newTempFile(dir, "pprof.bin.cpu.", ".pb.gz")
		if err != nil {
			t.Fatal(err)
		}
		fmt.Fprintf(f, "n%d", i)
		f.Close()
		got = append(got, filepath.Base(f.Name()))
	}
	want := []string{"pprof.bin.cpu.001.pb.gz", "pprof.bin.cpu.003.pb.gz", "pprof.bin.cpu.004.pb.gz", "pprof.bin.cpu.005.pb.gz"}
	if fmt.Sprint(got) != fmt.Sprint(want) {
		t.Errorf("names: got %v, want %v", got, want)
	}
	if b, _ := os.ReadFile(pre); string(b) != "keep" {
		t.Errorf("pre-existing file was overwritten: %q", b)
	}
	// Prefixes containing formatting verbs and empty prefix/suffix.
	f, err := newTempFile(dir, "a%d%s-", "")
	if err != nil {
		t.Fatal(err)
	}
	f.Close()
	if got, want := filepath.Base(f.Name()), "a%d%s-001"; got != want {
		t.Errorf("got %q want %q", got, want)
	}
	f, err = newTempFile(dir, "", ".x")
	if err != nil {
		t.Fatal(err)
	}
	f.Close()
	if got, want := filepath.Base(f.Name()), "001.x"; got != want {
		t.Errorf("got %q want %q", got, want)
	}
	// Error other than "exists" is returned immediately.
	if _, err := newTempFile(filepath.Join(dir, "nonexistent"), "p", ".s"); err == nil || os.IsExist(err) || !os.IsNotExist(err) {
		t.Errorf("missing dir: got err %v, want not-exist error", err)
	}
}

func TestZZEquivATempNamesExhaust(t *testing.T) {
	dir := t.TempDir()
	// Occupy every candidate name except a few gaps; successive calls must
	// return exactly the gaps, in increasing order, then give up.
	gaps := []int{9, 10, 99, 100, 999, 1000, 9999}
	isGap := map[int]bool{}
	for _, g := range gaps {
		isGap[g] = true
	}
	for i := 1; i < 10000; i++ {
		if isGap[i] {
			continue
		}
		if err := os.WriteFile(filepath.Join(dir, fmt.Sprintf("pre%03d.suf", i)), []byte("x"), 0666); err != nil {
			t.Fatal(err)
		}
	}
	want := []string{"pre009.suf", "pre010.suf", "pre099.suf", "pre100.suf", "pre999.suf", "pre1000.suf", "pre9999.suf"}
	for i := range gaps {
		f, err := newTempFile(dir, "pre", ".suf")
		if err != nil {
			t.Fatalf("gap %d: %v", gaps[i], err)
		}
		f.Close()
		if got := filepath.Base(f.Name()); got != want[i] {
			t.Errorf("gap %d: got %q, want %q", gaps[i], got, want[i])
		}
	}
	_, err := newTempFile(dir, "pre", ".suf")
	if err == nil || err.Error() != "could not create file of the form pre001.suf" {
		t.Errorf("give-up error: got %v", err)
	}
	if b, _ := os.ReadFile(filepath.Join(dir, "pre001.suf")); string(b) != "x" {
		t.Errorf("occupied file overwritten: %q", b)
	}
}

func TestZZEquivATempNamesConcurrent(t *testing.T) {
	dir := t.TempDir()
	const workers, per = 8, 25
	var mu sync.Mutex
	content := map[string]string{}
	var wg sync.WaitGroup
	for w := 0; w < workers; w++ {
		wg.Add(1)
		go func(w int) {
			defer wg.Done()
			for i := 0; i < per; i++ {
				f, err := newTempFile(dir, "c.", ".pb.gz")
				if err != nil {
					t.Error(err)
					return
				}
				body := fmt.Sprintf("worker %d item %d", w, i)
				f.WriteString(body)
				f.Close()
				mu.Lock()
				if _, dup := content[f.Name()]; dup {
					t.Errorf("duplicate name %s", f.Name())
				}
				content[f.Name()] = body
				mu.Unlock()
			}
		}(w)
	}
	wg.Wait()
	if len(content) != workers*per {
		t.Fatalf("got %d distinct names, want %d", len(content), workers*per)
	}
	var names []string
	for n, body := range content {
		names = append(names, filepath.Base(n))
		if b, err := os.ReadFile(n); err != nil || string(b) != body {
			t.Errorf("%s: content %q err %v, want %q", n, b, err, body)
		}
	}
	sort.Strings(names)
	for i, n := range names {
		if want := fmt.Sprintf("c.%03d.pb.gz", i+1); n != want {
			t.Fatalf("name[%d] = %q, want %q", i, n, want)
		}
	}
}

func TestZZEquivACleanupConcurrent(t *testing.T) {
	if err := cleanupTempFiles(); err != nil {
		t.Logf("initial cleanup: %v", err)
	}
	dir := t.TempDir()
	const workers, per = 6, 30
	var wg sync.WaitGroup
	var cleanErrMu sync.Mutex
	var cleanErrs []error
	for w := 0; w < workers; w++ {
		wg.Add(1)
		go func(w int) {
			defer wg.Done()
			for i := 0; i < per; i++ {
				f, err := newTempFile(dir, "d.", ".tmp")
				if err != nil {
					t.Error(err)
					return
				}
				f.Close()
				deferDeleteTempFile(f.Name())
				if i%10 == 9 {
					if err := cleanupTempFiles(); err != nil {
						cleanErrMu.Lock()
						cleanErrs = append(cleanErrs, err)
						cleanErrMu.Unlock()
					}
				}
			}
		}(w)
	}
	wg.Wait()
	if err := cleanupTempFiles(); err != nil {
		cleanErrs = append(cleanErrs, err)
	}
	if len(cleanErrs) != 0 {
		t.Errorf("cleanup errors: %v", cleanErrs)
	}
	if len(tempFiles) != 0 {
		t.Errorf("tempFiles not empty after cleanup: %v", tempFiles)
	}
	ents, err := os.ReadDir(dir)
	if err != nil {
		t.Fatal(err)
	}
	if len(ents) != 0 {
		t.Errorf("%d files survived cleanup", len(ents))
	}

	// A missing file makes cleanup report the (last) error, still removes the
	// others and still empties the list.
	f, err := newTempFile(dir, "e.", ".tmp")
	if err != nil {
		t.Fatal(err)
	}
	f.Close()
	deferDeleteTempFile(filepath.Join(dir, "does-not-exist"))
	deferDeleteTempFile(f.Name())
	err = cleanupTempFiles()
	if err == nil || !os.IsNotExist(err) {
		t.Errorf("cleanup with missing file: err = %v, want not-exist", err)
	}
	if _, serr := os.Stat(f.Name()); !os.IsNotExist(serr) {
		t.Errorf("%s not removed", f.Name())
	}
	if len(tempFiles) != 0 {
		t.Errorf("tempFiles not emptied: %v", tempFiles)
	}
	if err := cleanupTempFiles(); err != nil {
		t.Errorf("cleanup of empty list: %v", err)
	}
}
