package profile

// Equivalence demonstration for change A (FilterSamplesByName keeps one
// per-location flag map instead of two boolean maps). Passes on the tree with
// and without the change: it compares Profile.FilterSamplesByName against (1)
// signatures computed on the unchanged tree and hard-coded below, and (2) a
// verbatim copy of the unchanged implementation on pseudo-random profiles.

import (
	"fmt"
	"math/rand"
	"regexp"
	"sort"
	"strings"
	"testing"
)

// zzRefFilterSamplesByName is a verbatim copy of the unchanged implementation.
func zzRefFilterSamplesByName(p *Profile, focus, ignore, hide, show *regexp.Regexp) (fm, im, hm, hnm bool) {
	if focus == nil && ignore == nil && hide == nil && show == nil {
		fm = true // Missing focus implies a match
		return
	}
	focusOrIgnore := make(map[uint64]bool)
	hidden := make(map[uint64]bool)
	for _, l := range p.Location {
		unsymbolized := len(l.Line) == 0
		if ignore != nil && l.matchesName(ignore) {
			im = true
			focusOrIgnore[l.ID] = false
		} else if focus == nil || l.matchesName(focus) {
			fm = true
			focusOrIgnore[l.ID] = true
		}

		if hide != nil && l.matchesName(hide) {
			hm = true
			l.Line = l.unmatchedLines(hide)
			if len(l.Line) == 0 {
				hidden[l.ID] = true
			}
		}
		if show != nil {
			l.Line = l.matchedLines(show)
			if len(l.Line) == 0 && !(unsymbolized && l.matchesName(show)) {
				hidden[l.ID] = true
			} else {
				hnm = true
			}
		}
	}

	s := make([]*Sample, 0, len(p.Sample))
	for _, sample := range p.Sample {
		if zzRefFocusedAndNotIgnored(sample.Location, focusOrIgnore) || (focus == nil && len(sample.Location) == 0) {
			if len(hidden) > 0 {
				var locs []*Location
				for _, loc := range sample.Location {
					if !hidden[loc.ID] {
						locs = append(locs, loc)
					}
				}
				if len(locs) == 0 {
					continue
				}
				sample.Location = locs
			}
			s = append(s, sample)
		}
	}
	p.Sample = s
	return
}

func zzRefFocusedAndNotIgnored(locs []*Location, m map[uint64]bool) bool {
	var f bool
	for _, loc := range locs {
		if focus, focusOrIgnore := m[loc.ID]; focusOrIgnore {
			if focus {
				f = true
			} else {
				return false
			}
		}
	}
	return f
}

// zzSig renders everything observable about a filtered profile.
func zzSig(p *Profile, flags ...bool) string {
	var b strings.Builder
	fmt.Fprintf(&b, "flags=%v\n", flags)
	locSig := func(l *Location) string {
		var fs []string
		for _, ln := range l.Line {
			if ln.Function != nil {
				fs = append(fs, fmt.Sprintf("%s@%d", ln.Function.Name, ln.Line))
			} else {
				fs = append(fs, fmt.Sprintf("?@%d", ln.Line))
			}
		}
		return fmt.Sprintf("%d[%s]", l.ID, strings.Join(fs, ","))
	}
	for _, l := range p.Location {
		fmt.Fprintf(&b, "L %s\n", locSig(l))
	}
	for _, s := range p.Sample {
		var ls []string
		for _, l := range s.Location {
			ls = append(ls, locSig(l))
		}
		var labs []string
		for k, v := range s.Label {
			labs = append(labs, fmt.Sprintf("%s=%v", k, v))
		}
		for k, v := range s.NumLabel {
			labs = append(labs, fmt.Sprintf("%s#%v", k, v))
		}
		sort.Strings(labs)
		fmt.Fprintf(&b, "S %v %v %s\n", s.Value, labs, strings.Join(ls, " "))
	}
	return b.String()
}

// zzFixedProfile has shared locations, inlined frames spanning several
// functions, an unsymbolized location and a sample without locations.
func zzFixedProfile() *Profile {
	m1 := &Mapping{ID: 1, Start: 0x1000, Limit: 0x2000, File: "/bin/app"}
	m2 := &Mapping{ID: 2, Start: 0x3000, Limit: 0x4000, File: "/lib/libfoo.so"}
	fn := func(id uint64, name, file string) *Function {
		return &Function{ID: id, Name: name, SystemName: name, Filename: file}
	}
	fMain := fn(1, "main", "main.go")
	fFoo := fn(2, "foo", "foo.go")
	fBar := fn(3, "bar", "bar.go")
	fFooBar := fn(4, "foobar", "foo.go")
	fLib := fn(5, "lib_call", "lib.c")
	l1 := &Location{ID: 1, Mapping: m1, Address: 0x1001, Line: []Line{{Function: fMain, Line: 1}}}
	l2 := &Location{ID: 2, Mapping: m1, Address: 0x1002, Line: []Line{{Function: fBar, Line: 2}, {Function: fFoo, Line: 3}}}
	l3 := &Location{ID: 3, Mapping: m1, Address: 0x1003, Line: []Line{{Function: fFooBar, Line: 4}, {Function: fBar, Line: 5}, {Function: fMain, Line: 6}}}
	l4 := &Location{ID: 4, Mapping: m2, Address: 0x3001, Line: []Line{{Function: fLib, Line: 7}}}
	l5 := &Location{ID: 5, Mapping: m2, Address: 0x3002} // unsymbolized
	l6 := &Location{ID: 6, Address: 0x5000}              // no mapping, no lines
	l7 := &Location{ID: 7, Mapping: m1, Address: 0x1007, Line: []Line{{Line: 8}, {Function: fFoo, Line: 9}}}
	return &Profile{
		SampleType: []*ValueType{{Type: "samples", Unit: "count"}, {Type: "cpu", Unit: "ns"}},
		Mapping:    []*Mapping{m1, m2},
		Function:   []*Function{fMain, fFoo, fBar, fFooBar, fLib},
		Location:   []*Location{l1, l2, l3, l4, l5, l6, l7},
		Sample: []*Sample{
			{Value: []int64{1, 10}, Location: []*Location{l2, l1}, Label: map[string][]string{"k": {"v1"}}},
			{Value: []int64{2, 20}, Location: []*Location{l3, l2, l1}},
			{Value: []int64{3, 30}, Location: []*Location{l4, l3, l1}, NumLabel: map[string][]int64{"bytes": {64}}},
			{Value: []int64{4, 40}, Location: []*Location{l5, l4, l1}},
			{Value: []int64{5, 50}, Location: []*Location{l6, l2}},
			{Value: []int64{6, 60}},
			{Value: []int64{7, 70}, Location: []*Location{l7, l7, l1}},
			{Value: []int64{8, 80}, Location: []*Location{l5}},
			{Value: []int64{9, 90}, Location: []*Location{l2, l1}, Label: map[string][]string{"k": {"v2"}}},
		},
	}
}

func zzRx(s string) *regexp.Regexp {
	if s == "" {
		return nil
	}
	return regexp.MustCompile(s)
}

type zzCfg struct{ focus, ignore, hide, show string }

var zzFixedCfgs = []zzCfg{
	{"", "", "", ""},
	{"foo", "", "", ""},
	{"", "foo", "", ""},
	{"bar", "lib", "", ""},
	{"", "", "foo", ""},
	{"", "", "", "foo"},
	{"main", "", "bar", ""},
	{"foo", "libfoo", "main", "bar|lib"},
	{"", "", "app", ""},
	{"", "", "", "libfoo"},
	{"^foo$", "", "^bar$", "main|foo"},
	{"nomatch", "", "", ""},
	{"", "nomatch", "nomatch", "nomatch"},
	{"lib\\.c", "", "", "\\.go$"},
	{"", "app", "", ""},
	{"foo|bar", "foobar", "foo", "bar"},
}

func TestZZEquivA_Fixed(t *testing.T) {
	for i, c := range zzFixedCfgs {
		p := zzFixedProfile()
		fm, im, hm, hnm := p.FilterSamplesByName(zzRx(c.focus), zzRx(c.ignore), zzRx(c.hide), zzRx(c.show))
		got := zzSig(p, fm, im, hm, hnm)
		r := zzFixedProfile()
		rfm, rim, rhm, rhnm := zzRefFilterSamplesByName(r, zzRx(c.focus), zzRx(c.ignore), zzRx(c.hide), zzRx(c.show))
		if want := zzSig(r, rfm, rim, rhm, rhnm); got != want {
			t.Errorf("cfg %d %+v: differs from reference copy\n got:\n%s\nwant:\n%s", i, c, got, want)
		}
		if i < len(zzFixedWant) {
			if got != zzFixedWant[i] {
				t.Errorf("cfg %d %+v: differs from hard-coded expectation\n got:\n%s\nwant:\n%s", i, c, got, zzFixedWant[i])
			}
		} else {
			t.Errorf("no hard-coded expectation for cfg %d:\n%q", i, got)
		}
	}
}

// The focus=R and ignore=R results partition the samples and their totals add up.
func TestZZEquivA_Partition(t *testing.T) {
	for _, r := range []string{"foo", "bar", "main", "lib", "app", "libfoo", "nomatch", "^foo$", "\\.go$", "lib_call|foobar"} {
		all := zzFixedProfile()
		f := zzFixedProfile()
		f.FilterSamplesByName(zzRx(r), nil, nil, nil)
		g := zzFixedProfile()
		g.FilterSamplesByName(nil, zzRx(r), nil, nil)
		var tot, tf, tg int64
		for _, s := range all.Sample {
			tot += s.Value[1]
		}
		seen := map[int64]int{}
		for _, s := range f.Sample {
			tf += s.Value[1]
			seen[s.Value[0]]++
		}
		for _, s := range g.Sample {
			tg += s.Value[1]
			seen[s.Value[0]]++
		}
		// The location-less sample (value 6) matches neither focus nor ignore:
		// it is kept by ignore=R and dropped by focus=R.
		if tf+tg != tot {
			t.Errorf("%q: focus total %d + ignore total %d != %d", r, tf, tg, tot)
		}
		for _, s := range all.Sample {
			if seen[s.Value[0]] != 1 {
				t.Errorf("%q: sample %d seen %d times", r, s.Value[0], seen[s.Value[0]])
			}
		}
	}
}

func zzRandomProfile(rnd *rand.Rand) *Profile {
	names := []string{"alpha", "beta", "gamma", "delta", "alphabet", "betamax"}
	files := []string{"a.go", "b.go", "c.cc"}
	maps := []*Mapping{
		{ID: 1, Start: 0x1000, Limit: 0x2000, File: "/bin/alpha"},
		{ID: 2, Start: 0x3000, Limit: 0x4000, File: "/lib/libdelta.so"},
	}
	p := &Profile{SampleType: []*ValueType{{Type: "s", Unit: "count"}}, Mapping: maps}
	for i, n := range names {
		p.Function = append(p.Function, &Function{ID: uint64(i + 1), Name: n, Filename: files[rnd.Intn(len(files))]})
	}
	nloc := 3 + rnd.Intn(6)
	for i := 0; i < nloc; i++ {
		l := &Location{ID: uint64(i + 1), Address: uint64(0x1000 + i)}
		if rnd.Intn(5) > 0 {
			l.Mapping = maps[rnd.Intn(len(maps))]
		}
		for j, n := 0, rnd.Intn(4); j < n; j++ {
			ln := Line{Line: int64(j + 1)}
			if rnd.Intn(8) > 0 {
				ln.Function = p.Function[rnd.Intn(len(p.Function))]
			}
			l.Line = append(l.Line, ln)
		}
		p.Location = append(p.Location, l)
	}
	nsamp := 2 + rnd.Intn(8)
	for i := 0; i < nsamp; i++ {
		s := &Sample{Value: []int64{int64(i + 1)}}
		for j, n := 0, rnd.Intn(5); j < n; j++ {
			s.Location = append(s.Location, p.Location[rnd.Intn(len(p.Location))])
		}
		if rnd.Intn(2) == 0 {
			s.Label = map[string][]string{"k": {fmt.Sprint("v", i)}}
		}
		p.Sample = append(p.Sample, s)
	}
	return p
}

func TestZZEquivA_Random(t *testing.T) {
	exprs := []string{"", "", "alpha", "beta", "gamma", "delta", "^alpha$", "a\\.go", "c\\.cc", "lib", "/bin/", "bet", "alpha|delta", "zzz"}
	rnd := rand.New(rand.NewSource(6))
	for i := 0; i < 4000; i++ {
		seed := rnd.Int63()
		c := zzCfg{exprs[rnd.Intn(len(exprs))], exprs[rnd.Intn(len(exprs))], exprs[rnd.Intn(len(exprs))], exprs[rnd.Intn(len(exprs))]}
		p := zzRandomProfile(rand.New(rand.NewSource(seed)))
		r := zzRandomProfile(rand.New(rand.NewSource(seed)))
		fm, im, hm, hnm := p.FilterSamplesByName(zzRx(c.focus), zzRx(c.ignore), zzRx(c.hide), zzRx(c.show))
		rfm, rim, rhm, rhnm := zzRefFilterSamplesByName(r, zzRx(c.focus), zzRx(c.ignore), zzRx(c.hide), zzRx(c.show))
		if got, want := zzSig(p, fm, im, hm, hnm), zzSig(r, rfm, rim, rhm, rhnm); got != want {
			t.Fatalf("iteration %d cfg %+v:\n got:\n%s\nwant:\n%s", i, c, got, want)
		}
	}
}

// zzFixedWant was computed on the unchanged tree.
var zzFixedWant = []string{
	"flags=[true false false false]\nL 1[main@1]\nL 2[bar@2,foo@3]\nL 3[foobar@4,bar@5,main@6]\nL 4[lib_call@7]\nL 5[]\nL 6[]\nL 7[?@8,foo@9]\nS [1 10] [k=[v1]] 2[bar@2,foo@3] 1[main@1]\nS [2 20] [] 3[foobar@4,bar@5,main@6] 2[bar@2,foo@3] 1[main@1]\nS [3 30] [bytes#[64]] 4[lib_call@7] 3[foobar@4,bar@5,main@6] 1[main@1]\nS [4 40] [] 5[] 4[lib_call@7] 1[main@1]\nS [5 50] [] 6[] 2[bar@2,foo@3]\nS [6 60] [] \nS [7 70] [] 7[?@8,foo@9] 7[?@8,foo@9] 1[main@1]\nS [8 80] [] 5[]\nS [9 90] [k=[v2]] 2[bar@2,foo@3] 1[main@1]\n",
	"flags=[true false false false]\nL 1[main@1]\nL 2[bar@2,foo@3]\nL 3[foobar@4,bar@5,main@6]\nL 4[lib_call@7]\nL 5[]\nL 6[]\nL 7[?@8,foo@9]\nS [1 10] [k=[v1]] 2[bar@2,foo@3] 1[main@1]\nS [2 20] [] 3[foobar@4,bar@5,main@6] 2[bar@2,foo@3] 1[main@1]\nS [3 30] [bytes#[64]] 4[lib_call@7] 3[foobar@4,bar@5,main@6] 1[main@1]\nS [4 40] [] 5[] 4[lib_call@7] 1[main@1]\nS [5 50] [] 6[] 2[bar@2,foo@3]\nS [7 70] [] 7[?@8,foo@9] 7[?@8,foo@9] 1[main@1]\nS [8 80] [] 5[]\nS [9 90] [k=[v2]] 2[bar@2,foo@3] 1[main@1]\n",
	"flags=[true true false false]\nL 1[main@1]\nL 2[bar@2,foo@3]\nL 3[foobar@4,bar@5,main@6]\nL 4[lib_call@7]\nL 5[]\nL 6[]\nL 7[?@8,foo@9]\nS [6 60] [] \n",
	"flags=[true true false false]\nL 1[main@1]\nL 2[bar@2,foo@3]\nL 3[foobar@4,bar@5,main@6]\nL 4[lib_call@7]\nL 5[]\nL 6[]\nL 7[?@8,foo@9]\nS [1 10] [k=[v1]] 2[bar@2,foo@3] 1[main@1]\nS [2 20] [] 3[foobar@4,bar@5,main@6] 2[bar@2,foo@3] 1[main@1]\nS [5 50] [] 6[] 2[bar@2,foo@3]\nS [9 90] [k=[v2]] 2[bar@2,foo@3] 1[main@1]\n",
	"flags=[true false true false]\nL 1[main@1]\nL 2[bar@2]\nL 3[bar@5,main@6]\nL 4[]\nL 5[]\nL 6[]\nL 7[?@8]\nS [1 10] [k=[v1]] 2[bar@2] 1[main@1]\nS [2 20] [] 3[bar@5,main@6] 2[bar@2] 1[main@1]\nS [3 30] [bytes#[64]] 3[bar@5,main@6] 1[main@1]\nS [4 40] [] 1[main@1]\nS [5 50] [] 6[] 2[bar@2]\nS [7 70] [] 7[?@8] 7[?@8] 1[main@1]\nS [9 90] [k=[v2]] 2[bar@2] 1[main@1]\n",
	"flags=[true false false true]\nL 1[]\nL 2[foo@3]\nL 3[foobar@4]\nL 4[lib_call@7]\nL 5[]\nL 6[]\nL 7[?@8,foo@9]\nS [1 10] [k=[v1]] 2[foo@3]\nS [2 20] [] 3[foobar@4] 2[foo@3]\nS [3 30] [bytes#[64]] 4[lib_call@7] 3[foobar@4]\nS [4 40] [] 5[] 4[lib_call@7]\nS [5 50] [] 2[foo@3]\nS [7 70] [] 7[?@8,foo@9] 7[?@8,foo@9]\nS [8 80] [] 5[]\nS [9 90] [k=[v2]] 2[foo@3]\n",
	"flags=[true false true false]\nL 1[main@1]\nL 2[foo@3]\nL 3[main@6]\nL 4[lib_call@7]\nL 5[]\nL 6[]\nL 7[?@8,foo@9]\nS [1 10] [k=[v1]] 2[foo@3] 1[main@1]\nS [2 20] [] 3[main@6] 2[foo@3] 1[main@1]\nS [3 30] [bytes#[64]] 4[lib_call@7] 3[main@6] 1[main@1]\nS [4 40] [] 5[] 4[lib_call@7] 1[main@1]\nS [7 70] [] 7[?@8,foo@9] 7[?@8,foo@9] 1[main@1]\nS [9 90] [k=[v2]] 2[foo@3] 1[main@1]\n",
	"flags=[true true true true]\nL 1[]\nL 2[bar@2]\nL 3[foobar@4,bar@5]\nL 4[lib_call@7]\nL 5[]\nL 6[]\nL 7[?@8]\nS [1 10] [k=[v1]] 2[bar@2]\nS [2 20] [] 3[foobar@4,bar@5] 2[bar@2]\nS [5 50] [] 2[bar@2]\nS [7 70] [] 7[?@8] 7[?@8]\nS [9 90] [k=[v2]] 2[bar@2]\n",
	"flags=[true false true false]\nL 1[]\nL 2[]\nL 3[]\nL 4[lib_call@7]\nL 5[]\nL 6[]\nL 7[]\nS [3 30] [bytes#[64]] 4[lib_call@7]\nS [4 40] [] 5[] 4[lib_call@7]\nS [5 50] [] 6[]\nS [8 80] [] 5[]\n",
	"flags=[true false false true]\nL 1[]\nL 2[]\nL 3[]\nL 4[lib_call@7]\nL 5[]\nL 6[]\nL 7[?@8]\nS [3 30] [bytes#[64]] 4[lib_call@7]\nS [4 40] [] 5[] 4[lib_call@7]\nS [7 70] [] 7[?@8] 7[?@8]\nS [8 80] [] 5[]\n",
	"flags=[true false true true]\nL 1[main@1]\nL 2[foo@3]\nL 3[foobar@4,main@6]\nL 4[lib_call@7]\nL 5[]\nL 6[]\nL 7[?@8,foo@9]\nS [1 10] [k=[v1]] 2[foo@3] 1[main@1]\nS [2 20] [] 3[foobar@4,main@6] 2[foo@3] 1[main@1]\nS [5 50] [] 2[foo@3]\nS [7 70] [] 7[?@8,foo@9] 7[?@8,foo@9] 1[main@1]\nS [9 90] [k=[v2]] 2[foo@3] 1[main@1]\n",
	"flags=[false false false false]\nL 1[main@1]\nL 2[bar@2,foo@3]\nL 3[foobar@4,bar@5,main@6]\nL 4[lib_call@7]\nL 5[]\nL 6[]\nL 7[?@8,foo@9]\n",
	"flags=[true false false true]\nL 1[]\nL 2[]\nL 3[]\nL 4[]\nL 5[]\nL 6[]\nL 7[?@8]\nS [7 70] [] 7[?@8] 7[?@8]\n",
	"flags=[true false false true]\nL 1[main@1]\nL 2[bar@2,foo@3]\nL 3[foobar@4,bar@5,main@6]\nL 4[]\nL 5[]\nL 6[]\nL 7[?@8,foo@9]\nS [3 30] [bytes#[64]] 3[foobar@4,bar@5,main@6] 1[main@1]\nS [4 40] [] 1[main@1]\n",
	"flags=[true true false false]\nL 1[main@1]\nL 2[bar@2,foo@3]\nL 3[foobar@4,bar@5,main@6]\nL 4[lib_call@7]\nL 5[]\nL 6[]\nL 7[?@8,foo@9]\nS [6 60] [] \nS [8 80] [] 5[]\n",
	"flags=[true true true true]\nL 1[]\nL 2[bar@2]\nL 3[bar@5]\nL 4[]\nL 5[]\nL 6[]\nL 7[?@8]\nS [1 10] [k=[v1]] 2[bar@2]\nS [5 50] [] 2[bar@2]\nS [7 70] [] 7[?@8] 7[?@8]\nS [9 90] [k=[v2]] 2[bar@2]\n",
}
