package driver

// Equivalence demonstration harness for property C16 (multi-source fetch merges
// whatever succeeded, independent of timing). It drives the fetch pipeline of
// internal/driver/fetch.go with synthetic sources of several kinds (in-memory
// through a plugin.Fetcher, HTTP through a fake RoundTripper, files on disk),
// a chosen set of failing sources and a chosen completion order, and reduces
// everything observable (merged profile text, mapping sources, save flag,
// returned error, messages printed through the UI) to a digest. The expected
// digests below were computed on the unchanged tree.

import (
	"bytes"
	"crypto/sha256"
	"fmt"
	"io"
	"math/rand"
	"net/http"
	"os"
	"path/filepath"
	"sort"
	"strconv"
	"strings"
	"sync"
	"testing"
	"time"

	"github.com/google/pprof/internal/plugin"
	"github.com/google/pprof/profile"
)

// ---- UI recorder -----------------------------------------------------------

type zzBUI struct {
	mu   sync.Mutex
	errs []string
}

func (u *zzBUI) ReadLine(string) (string, error)     { return "", io.EOF }
func (u *zzBUI) Print(...interface{})                {}
func (u *zzBUI) IsTerminal() bool                    { return false }
func (u *zzBUI) WantBrowser() bool                   { return false }
func (u *zzBUI) SetAutoComplete(func(string) string) {}
func (u *zzBUI) PrintErr(args ...interface{}) {
	u.mu.Lock()
	defer u.mu.Unlock()
	u.errs = append(u.errs, fmt.Sprint(args...))
}

// ---- object tool that never finds a binary ---------------------------------

type zzBObj struct{}

func (zzBObj) Open(string, uint64, uint64, uint64, string) (plugin.ObjFile, error) {
	return nil, fmt.Errorf("no binaries in this test")
}
func (zzBObj) Disasm(string, uint64, uint64, bool) ([]plugin.Inst, error) {
	return nil, fmt.Errorf("no disasm in this test")
}

// ---- symbolizer stub -------------------------------------------------------

type zzBSym struct {
	mode string
	msrc plugin.MappingSources
}

func (s *zzBSym) Symbolize(mode string, srcs plugin.MappingSources, _ *profile.Profile) error {
	s.mode, s.msrc = mode, srcs
	return nil
}

// ---- synthetic profiles ----------------------------------------------------

// zzBProfile builds a small, valid, symbolized profile that depends on i:
// shared and per-source functions, one or two mappings, sometimes an extra
// sample type (dropped by CompatibilizeSampleTypes) and sometimes a coarser
// time unit (rescaled by ScaleProfiles).
func zzBProfile(i int) *profile.Profile {
	unit := "nanoseconds"
	mult := int64(1000)
	if i%6 == 2 {
		unit, mult = "microseconds", 1
	}
	p := &profile.Profile{
		SampleType: []*profile.ValueType{
			{Type: "samples", Unit: "count"},
			{Type: "cpu", Unit: unit},
		},
		PeriodType:    &profile.ValueType{Type: "cpu", Unit: unit},
		Period:        10 * mult,
		TimeNanos:     int64(1000 + i),
		DurationNanos: int64(10 + i),
		Comments:      []string{"c" + strconv.Itoa(i%3)},
	}
	extra := i%4 == 1
	if extra {
		p.SampleType = append(p.SampleType, &profile.ValueType{Type: "extra", Unit: "count"})
	}
	m1 := &profile.Mapping{ID: 1, Start: 0x1000, Limit: 0x9000, File: "/bin/app", BuildID: "build-app", HasFunctions: true}
	p.Mapping = []*profile.Mapping{m1}
	var m2 *profile.Mapping
	if i%2 == 0 {
		m2 = &profile.Mapping{ID: 2, Start: 0x10000 + uint64(i%3)*0x1000, Limit: 0x20000, File: "/lib/lib" + strconv.Itoa(i%3) + ".so", HasFunctions: true}
		p.Mapping = append(p.Mapping, m2)
	}
	fCommon := &profile.Function{ID: 1, Name: "common", SystemName: "common", Filename: "common.go"}
	fShared := &profile.Function{ID: 2, Name: "fn" + strconv.Itoa(i%7), SystemName: "fn" + strconv.Itoa(i%7), Filename: "fn.go"}
	fUniq := &profile.Function{ID: 3, Name: "uniq" + strconv.Itoa(i), SystemName: "uniq" + strconv.Itoa(i), Filename: "uniq.go"}
	p.Function = []*profile.Function{fCommon, fShared, fUniq}
	l1 := &profile.Location{ID: 1, Mapping: m1, Address: 0x1100, Line: []profile.Line{{Function: fCommon, Line: 10}}}
	l2 := &profile.Location{ID: 2, Mapping: m1, Address: 0x1200 + uint64(i%7)*0x10, Line: []profile.Line{{Function: fShared, Line: int64(20 + i%7)}}}
	l3 := &profile.Location{ID: 3, Mapping: m1, Address: 0x2000 + uint64(i)*0x10, Line: []profile.Line{{Function: fUniq, Line: int64(30 + i)}}}
	if m2 != nil {
		l3.Mapping = m2
		l3.Address = m2.Start + 0x100 + uint64(i)*0x10
	}
	p.Location = []*profile.Location{l1, l2, l3}
	vals := func(n, t int64) []int64 {
		v := []int64{n, t * mult}
		if extra {
			v = append(v, 7*n)
		}
		return v
	}
	p.Sample = []*profile.Sample{
		{Location: []*profile.Location{l2, l1}, Value: vals(int64(i+1), int64(i+1))},
		{Location: []*profile.Location{l3}, Value: vals(1, int64(10*i+5))},
	}
	if i%5 == 0 {
		p.Sample[1].Label = map[string][]string{"src": {strconv.Itoa(i)}}
	}
	return p
}

func zzBEncode(p *profile.Profile) []byte {
	var b bytes.Buffer
	if err := p.Write(&b); err != nil {
		panic(err)
	}
	return b.Bytes()
}

// ---- source kinds ----------------------------------------------------------

type zzBKind int

const (
	zzBMem           zzBKind = iota // served by the plugin.Fetcher, no source URL
	zzBHTTP                         // served over fake HTTP from the test host (local)
	zzBRemote                       // served over fake HTTP from a remote host (save=true)
	zzBFile                         // file on disk
	zzBFetcherURL                   // served by the plugin.Fetcher with a source URL
	zzBFailMissing                  // missing file
	zzBFailStatus                   // HTTP 500
	zzBFailPprof                    // HTTP 503 from a pprof endpoint, with a text body
	zzBFailGarbage                  // HTTP 200 with a garbage body
	zzBFailGarbageF                 // garbage file on disk
	zzBFailInvalid                  // fetcher returns a profile failing CheckValid
	zzBFailFetcher                  // fetcher returns an error
	zzBFailTransport                // RoundTripper returns an error
)

func (k zzBKind) fails() bool { return k >= zzBFailMissing }

type zzBSpec struct {
	kind  zzBKind
	idx   int           // profile number
	delay time.Duration // how long the fetch takes
}

// zzBWorld holds the behaviour of every source address of a scenario and
// implements plugin.Fetcher and http.RoundTripper.
type zzBWorld struct {
	dir    string
	byAddr map[string]zzBSpec // for fetcher-served and file kinds
	byPath map[string]zzBSpec // for HTTP kinds, keyed by URL path
	// gate, if non-nil, enforces a strict completion order: a fetch with
	// rank r returns only after the fetches with ranks < r have returned.
	gate *zzBGate
	rank map[string]int
}

type zzBGate struct {
	mu   sync.Mutex
	cond *sync.Cond
	next int
	log  []int
}

func zzBNewGate() *zzBGate {
	g := &zzBGate{}
	g.cond = sync.NewCond(&g.mu)
	return g
}

func (g *zzBGate) pass(rank int) {
	g.mu.Lock()
	for g.next != rank {
		g.cond.Wait()
	}
	g.log = append(g.log, rank)
	g.next++
	g.cond.Broadcast()
	g.mu.Unlock()
}

func (w *zzBWorld) wait(key string, sp zzBSpec) {
	if w.gate != nil {
		w.gate.pass(w.rank[key])
		return
	}
	time.Sleep(sp.delay)
}

func (w *zzBWorld) Fetch(src string, _, _ time.Duration) (*profile.Profile, string, error) {
	sp, ok := w.byAddr[src]
	if !ok {
		return nil, "", nil // not ours: fall through to file / HTTP
	}
	switch sp.kind {
	case zzBMem:
		w.wait(src, sp)
		return zzBProfile(sp.idx), "", nil
	case zzBFetcherURL:
		w.wait(src, sp)
		return zzBProfile(sp.idx), "http://" + testSourceAddress + "/fetched/" + src, nil
	case zzBFailInvalid:
		w.wait(src, sp)
		p := zzBProfile(sp.idx)
		p.Sample[0].Value = p.Sample[0].Value[:1]
		return p, "", nil
	case zzBFailFetcher:
		w.wait(src, sp)
		return nil, "", fmt.Errorf("fetcher refused #%d", sp.idx)
	}
	return nil, "", nil // file kinds
}

func (w *zzBWorld) RoundTrip(req *http.Request) (*http.Response, error) {
	sp, ok := w.byPath[req.URL.Path]
	if !ok {
		return nil, fmt.Errorf("unexpected URL %s", req.URL)
	}
	w.wait(req.URL.Path, sp)
	resp := &http.Response{
		Status: "200 OK", StatusCode: 200, Proto: "HTTP/1.1", ProtoMajor: 1, ProtoMinor: 1,
		Header: http.Header{}, Request: req,
	}
	body := []byte{}
	switch sp.kind {
	case zzBHTTP, zzBRemote:
		body = zzBEncode(zzBProfile(sp.idx))
	case zzBFailStatus:
		resp.Status, resp.StatusCode = "500 Internal Server Error", 500
		body = []byte("boom")
	case zzBFailPprof:
		resp.Status, resp.StatusCode = "503 Service Unavailable", 503
		resp.Header.Set("X-Go-Pprof", "1")
		resp.Header.Set("Content-Type", "text/plain; charset=utf-8")
		body = []byte("profiling busy #" + strconv.Itoa(sp.idx))
	case zzBFailGarbage:
		body = []byte("this is not a profile at all, #" + strconv.Itoa(sp.idx))
	case zzBFailTransport:
		return nil, fmt.Errorf("connection refused #%d", sp.idx)
	}
	resp.Body = io.NopCloser(bytes.NewReader(body))
	resp.ContentLength = int64(len(body))
	return resp, nil
}

// add registers a source and returns its command-line address. tag ("s" or
// "b") and pos make the address unique; every address contains "/tag/" or
// "-tag-" so printed messages can be attributed to the list they belong to.
func (w *zzBWorld) add(t *testing.T, tag string, pos int, sp zzBSpec) string {
	id := tag + "/" + strconv.Itoa(pos)
	switch sp.kind {
	case zzBMem, zzBFetcherURL, zzBFailInvalid, zzBFailFetcher:
		addr := "mem-" + tag + "-" + strconv.Itoa(pos)
		w.byAddr[addr] = sp
		return addr
	case zzBHTTP, zzBFailStatus, zzBFailPprof, zzBFailGarbage, zzBFailTransport:
		w.byPath["/"+id] = sp
		return "http://" + testSourceAddress + "/" + id + "?n=" + strconv.Itoa(pos)
	case zzBRemote:
		w.byPath["/"+id] = sp
		return "remote.example:8080/" + id // scheme-less: adjustURL must add http://
	case zzBFile, zzBFailGarbageF:
		name := filepath.Join(w.dir, "file-"+tag+"-"+strconv.Itoa(pos)+".prof")
		data := []byte("garbage file #" + strconv.Itoa(sp.idx))
		if sp.kind == zzBFile {
			data = zzBEncode(zzBProfile(sp.idx))
		}
		if err := os.WriteFile(name, data, 0o644); err != nil {
			t.Fatal(err)
		}
		return name
	case zzBFailMissing:
		return filepath.Join(w.dir, "missing-"+tag+"-"+strconv.Itoa(pos))
	}
	t.Fatalf("bad kind %d", sp.kind)
	return ""
}

// rankKey returns the key under which the gate rank of an address is stored.
func (w *zzBWorld) rankKey(tag string, pos int, sp zzBSpec) string {
	switch sp.kind {
	case zzBMem, zzBFetcherURL, zzBFailInvalid, zzBFailFetcher:
		return "mem-" + tag + "-" + strconv.Itoa(pos)
	}
	return "/" + tag + "/" + strconv.Itoa(pos)
}

func zzBNewWorld(t *testing.T) *zzBWorld {
	// Keep locateBinaries away from the real environment.
	t.Setenv("PPROF_BINARY_PATH", t.TempDir())
	return &zzBWorld{dir: t.TempDir(), byAddr: map[string]zzBSpec{}, byPath: map[string]zzBSpec{}, rank: map[string]int{}}
}

// ---- rendering -------------------------------------------------------------

func zzBMsrc(m plugin.MappingSources) string {
	if m == nil {
		return "<nil>"
	}
	keys := make([]string, 0, len(m))
	for k := range m {
		keys = append(keys, k)
	}
	sort.Strings(keys)
	var b strings.Builder
	for _, k := range keys {
		fmt.Fprintf(&b, "%s:", k)
		for _, s := range m[k] {
			fmt.Fprintf(&b, " (%s,%#x)", s.Source, s.Start)
		}
		b.WriteString("\n")
	}
	return b.String()
}

func zzBProf(p *profile.Profile) string {
	if p == nil {
		return "<nil>"
	}
	return p.String()
}

// zzBMessages renders the UI error lines. Lines about sources keep their
// relative order, and so do lines about bases; the interleaving of the two
// groups is a genuine race in the code under test and is not recorded.
func zzBMessages(w *zzBWorld, ui *zzBUI) string {
	ui.mu.Lock()
	defer ui.mu.Unlock()
	var src, base, other []string
	for _, e := range ui.errs {
		e = strings.ReplaceAll(e, w.dir, "$DIR")
		switch {
		case strings.Contains(e, "/s/") || strings.Contains(e, "-s-"):
			src = append(src, e)
		case strings.Contains(e, "/b/") || strings.Contains(e, "-b-"):
			base = append(base, e)
		default:
			other = append(other, e)
		}
	}
	return "SRC:\n" + strings.Join(src, "\n") + "\nBASE:\n" + strings.Join(base, "\n") + "\nOTHER:\n" + strings.Join(other, "\n") + "\n"
}

func zzBDigest(s string) string {
	return fmt.Sprintf("%x", sha256.Sum256([]byte(s)))[:20]
}

// ---- scenarios -------------------------------------------------------------

type zzBScenario struct {
	name  string
	nsrc  int
	nbase int
	// kindOf picks the kind of the source at position pos of list tag.
	kindOf func(tag string, pos int) zzBKind
	seed   int64 // completion-order seed
}

var zzBOKKinds = []zzBKind{zzBMem, zzBHTTP, zzBFile, zzBFetcherURL, zzBMem, zzBHTTP}
var zzBBadKinds = []zzBKind{zzBFailMissing, zzBFailStatus, zzBFailPprof, zzBFailGarbage, zzBFailGarbageF, zzBFailInvalid, zzBFailFetcher, zzBFailTransport}

// zzBMix: source pos fails iff failing(pos); kinds rotate.
func zzBMix(failing func(tag string, pos int) bool) func(string, int) zzBKind {
	return func(tag string, pos int) zzBKind {
		if failing(tag, pos) {
			return zzBBadKinds[pos%len(zzBBadKinds)]
		}
		return zzBOKKinds[pos%len(zzBOKKinds)]
	}
}

func zzBScenarios() []zzBScenario {
	none := func(string, int) bool { return false }
	all := func(string, int) bool { return true }
	return []zzBScenario{
		{name: "single", nsrc: 1, kindOf: zzBMix(none)},
		{name: "single-remote", nsrc: 1, kindOf: func(string, int) zzBKind { return zzBRemote }},
		{name: "five-none-fail", nsrc: 5, kindOf: zzBMix(none)},
		{name: "nine-every-third-fails", nsrc: 9, kindOf: zzBMix(func(_ string, p int) bool { return p%3 == 0 })},
		{name: "first-and-last-fail", nsrc: 12, kindOf: zzBMix(func(_ string, p int) bool { return p == 0 || p == 11 })},
		{name: "only-last-succeeds", nsrc: 10, kindOf: zzBMix(func(_ string, p int) bool { return p != 9 })},
		{name: "all-fail", nsrc: 8, kindOf: zzBMix(all)},
		{name: "remote-in-the-middle", nsrc: 6, kindOf: func(_ string, p int) zzBKind {
			if p == 3 {
				return zzBRemote
			}
			return zzBMix(func(_ string, p int) bool { return p == 1 })("", p)
		}},
		{name: "128-exact", nsrc: 128, kindOf: zzBMix(func(_ string, p int) bool { return p%10 == 7 })},
		{name: "129-boundary", nsrc: 129, kindOf: zzBMix(func(_ string, p int) bool { return p == 127 })},
		{name: "129-last-chunk-fails", nsrc: 129, kindOf: zzBMix(func(_ string, p int) bool { return p == 128 })},
		{name: "130-first-chunk-all-fail", nsrc: 130, kindOf: zzBMix(func(_ string, p int) bool { return p < 128 })},
		{name: "257-middle-chunk-all-fail", nsrc: 257, kindOf: zzBMix(func(_ string, p int) bool { return p >= 128 && p < 256 })},
		{name: "300-many-fail", nsrc: 300, kindOf: zzBMix(func(_ string, p int) bool { return p%4 == 2 || p%9 == 0 })},
		{name: "300-remote-in-third-chunk", nsrc: 300, kindOf: func(_ string, p int) zzBKind {
			if p == 290 {
				return zzBRemote
			}
			return zzBMix(func(_ string, p int) bool { return p%50 == 49 })("", p)
		}},
		{name: "300-all-fail", nsrc: 300, kindOf: zzBMix(all)},
		{name: "bases-ok", nsrc: 4, nbase: 3, kindOf: zzBMix(func(tag string, p int) bool { return tag == "b" && p == 1 })},
		{name: "bases-all-fail", nsrc: 4, nbase: 3, kindOf: zzBMix(func(tag string, _ int) bool { return tag == "b" })},
		{name: "sources-all-fail-bases-ok", nsrc: 3, nbase: 2, kindOf: zzBMix(func(tag string, _ int) bool { return tag == "s" })},
		{name: "bases-cross-chunk", nsrc: 140, nbase: 131, kindOf: zzBMix(func(tag string, p int) bool { return (tag == "b" && p%7 == 3) || (tag == "s" && p%13 == 5) })},
		{name: "remote-base", nsrc: 2, nbase: 2, kindOf: func(tag string, p int) zzBKind {
			if tag == "b" && p == 1 {
				return zzBRemote
			}
			return zzBMem
		}},
	}
}

// build creates the world and the two source lists for a scenario; the
// completion order is a pseudo-random permutation driven by seed.
func (sc zzBScenario) build(t *testing.T, seed int64) (*zzBWorld, []string, []string) {
	w := zzBNewWorld(t)
	rng := rand.New(rand.NewSource(seed))
	mk := func(tag string, n, base int) []string {
		addrs := make([]string, n)
		for pos := 0; pos < n; pos++ {
			sp := zzBSpec{kind: sc.kindOf(tag, pos), idx: base + pos, delay: time.Duration(rng.Intn(2000)) * time.Microsecond}
			addrs[pos] = w.add(t, tag, pos, sp)
		}
		return addrs
	}
	return w, mk("s", sc.nsrc, 0), mk("b", sc.nbase, 1000)
}

func zzBSources(addrs []string, s *source) []profileSource {
	out := make([]profileSource, 0, len(addrs))
	for _, a := range addrs {
		out = append(out, profileSource{addr: a, source: s})
	}
	return out
}

// zzBRunGrab runs grabSourcesAndBases on a scenario and renders everything.
func zzBRunGrab(t *testing.T, sc zzBScenario, seed int64) string {
	w, srcs, bases := sc.build(t, seed)
	ui := &zzBUI{}
	s := &source{Sources: srcs, Base: bases}
	p, pbase, m, mbase, save, err := grabSourcesAndBases(zzBSources(srcs, s), zzBSources(bases, s), w, zzBObj{}, ui, w)
	return fmt.Sprintf("P:\n%s\nPBASE:\n%s\nM:\n%s\nMBASE:\n%s\nSAVE: %v\nERR: %v\n%s",
		zzBProf(p), zzBProf(pbase), zzBMsrc(m), zzBMsrc(mbase), save, err, zzBMessages(w, ui))
}

// zzBRunFetch runs fetchProfiles end to end on a scenario.
func zzBRunFetch(t *testing.T, sc zzBScenario, seed int64, diffBase, normalize bool) string {
	w, srcs, bases := sc.build(t, seed)
	t.Setenv("PPROF_TMPDIR", t.TempDir())
	ui := &zzBUI{}
	sym := &zzBSym{}
	s := &source{Sources: srcs, Base: bases, DiffBase: diffBase, Normalize: normalize, Symbolize: "none", Comment: "zz"}
	o := &plugin.Options{Fetch: w, Obj: zzBObj{}, UI: ui, HTTPTransport: w, Sym: sym}
	p, err := fetchProfiles(s, o)
	msgs := zzBMessages(w, ui)
	// The saved-profile temp file name is not part of the contract.
	if i := strings.Index(msgs, "Saved profile in "); i >= 0 {
		j := strings.Index(msgs[i:], "\n")
		msgs = msgs[:i] + "Saved profile in <tmp>" + msgs[i+j:]
	}
	return fmt.Sprintf("P:\n%s\nSYM: %s\n%s\nERR: %v\n%s", zzBProf(p), sym.mode, zzBMsrc(sym.msrc), err, msgs)
}

// zzBCheck compares got against the expected digest, or against the first
// run of the same scenario when checking schedule independence.
func zzBCheck(t *testing.T, want map[string]string, key, got string) {
	t.Helper()
	d := zzBDigest(got)
	w, ok := want[key]
	if !ok {
		t.Errorf("no expected digest for %q; got %q", key, d)
		if os.Getenv("ZZ_DUMP") != "" {
			t.Logf("%s:\n%s", key, got)
		}
		return
	}
	if d != w {
		t.Errorf("%s: digest %s, want %s", key, d, w)
		if os.Getenv("ZZ_DUMP") != "" {
			t.Logf("%s:\n%s", key, got)
		}
	}
}

// ---- tests common to all three demonstrations ------------------------------

func TestZZBEquivGrabSourcesAndBases(t *testing.T) {
	for _, sc := range zzBScenarios() {
		sc := sc
		t.Run(sc.name, func(t *testing.T) {
			first := zzBRunGrab(t, sc, 1)
			zzBCheck(t, zzBWantGrab, sc.name, first)
			// Same report whatever order the fetches complete in.
			for seed := int64(2); seed <= 4; seed++ {
				if again := zzBRunGrab(t, sc, seed); again != first {
					t.Errorf("seed %d: result differs from seed 1", seed)
				}
			}
		})
	}
}

func TestZZBEquivFetchProfiles(t *testing.T) {
	pick := map[string]bool{"single": true, "nine-every-third-fails": true, "all-fail": true, "129-boundary": true,
		"300-many-fail": true, "300-remote-in-third-chunk": true, "bases-ok": true, "bases-all-fail": true,
		"sources-all-fail-bases-ok": true, "bases-cross-chunk": true, "remote-base": true}
	for _, sc := range zzBScenarios() {
		if !pick[sc.name] {
			continue
		}
		sc := sc
		for _, mode := range []struct {
			name            string
			diff, normalize bool
		}{{"base", false, false}, {"diffbase-normalize", true, true}} {
			if mode.diff && sc.nbase == 0 {
				continue
			}
			mode := mode
			t.Run(sc.name+"/"+mode.name, func(t *testing.T) {
				first := zzBRunFetch(t, sc, 1, mode.diff, mode.normalize)
				zzBCheck(t, zzBWantFetch, sc.name+"/"+mode.name, first)
				if again := zzBRunFetch(t, sc, 7, mode.diff, mode.normalize); again != first {
					t.Errorf("seed 7: result differs from seed 1")
				}
			})
		}
	}
}

// ---- focus of demonstration B: chunkedGrab around the 128-source boundary --

func zzBRunChunked(t *testing.T, n int, kindOf func(string, int) zzBKind, seed int64) string {
	sc := zzBScenario{nsrc: n, kindOf: kindOf}
	w, addrs, _ := sc.build(t, seed)
	ui := &zzBUI{}
	s := &source{Sources: addrs}
	p, msrc, save, count, err := chunkedGrab(zzBSources(addrs, s), w, zzBObj{}, ui, w)
	return fmt.Sprintf("P:\n%s\nM:\n%s\nSAVE: %v\nCOUNT: %d\nERR: %v\n%s", zzBProf(p), zzBMsrc(msrc), save, count, err, zzBMessages(w, ui))
}

func TestZZBEquivChunkedGrabBoundaries(t *testing.T) {
	remoteAt := func(at int, failing func(int) bool) func(string, int) zzBKind {
		return func(_ string, p int) zzBKind {
			if p == at {
				return zzBRemote
			}
			return zzBMix(func(_ string, p int) bool { return failing(p) })("", p)
		}
	}
	none := func(int) bool { return false }
	cases := []struct {
		name   string
		n      int
		kindOf func(string, int) zzBKind
	}{
		{"n0", 0, remoteAt(-1, none)},
		{"n1", 1, remoteAt(-1, none)},
		{"n127", 127, remoteAt(-1, func(p int) bool { return p%5 == 0 })},
		{"n128", 128, remoteAt(-1, func(p int) bool { return p%5 == 0 })},
		{"n129", 129, remoteAt(-1, func(p int) bool { return p%5 == 0 })},
		{"n129-remote-first-chunk", 129, remoteAt(5, none)},
		{"n129-remote-second-chunk", 129, remoteAt(128, none)},
		{"n129-second-chunk-fails", 129, remoteAt(-1, func(p int) bool { return p == 128 })},
		{"n255", 255, remoteAt(-1, func(p int) bool { return p == 127 || p == 128 })},
		{"n256-first-chunk-empty", 256, remoteAt(200, func(p int) bool { return p < 128 })},
		{"n257-middle-chunk-empty", 257, remoteAt(0, func(p int) bool { return p >= 128 && p < 256 })},
		{"n257-only-last-ok", 257, remoteAt(-1, func(p int) bool { return p != 256 })},
		{"n300-remote-in-empty-first-chunk", 300, remoteAt(-1, func(p int) bool { return p < 128 || p%3 == 0 })},
		{"n300-all-fail", 300, remoteAt(-1, func(int) bool { return true })},
		{"n300-none-fail", 300, remoteAt(299, none)},
	}
	for _, c := range cases {
		c := c
		t.Run(c.name, func(t *testing.T) {
			first := zzBRunChunked(t, c.n, c.kindOf, 1)
			zzBCheck(t, zzBWantChunked, c.name, first)
			if again := zzBRunChunked(t, c.n, c.kindOf, 5); again != first {
				t.Errorf("seed 5: result differs from seed 1")
			}
		})
	}
}

// ---- expected digests, computed on the unchanged tree -----------------------

var zzBWantGrab = map[string]string{
	"single":                    "61b26e749c5f7526b3da",
	"single-remote":             "471ed26f22835788e33d",
	"five-none-fail":            "2befb5f5f8521242d9f3",
	"nine-every-third-fails":    "c6674022e9b5a4c0bb23",
	"first-and-last-fail":       "8a0fe6176d56bf845548",
	"only-last-succeeds":        "cb03ef2e14917aeeb3ec",
	"all-fail":                  "adc5b784e8f67626a33a",
	"remote-in-the-middle":      "666fa8696010ca318f68",
	"128-exact":                 "8762a36aef6001edb1d8",
	"129-boundary":              "4e0497647379f69c1f00",
	"129-last-chunk-fails":      "35fd5fca57f99c51fd46",
	"130-first-chunk-all-fail":  "87458eaad6514e6faadf",
	"257-middle-chunk-all-fail": "0e7bb2d1966f93ccd523",
	"300-many-fail":             "37e3993cb4c01b6dcd60",
	"300-remote-in-third-chunk": "14579a6a2674ba33a366",
	"300-all-fail":              "1abefa36b9b6e398d7e3",
	"bases-ok":                  "bd27dd400ce118f7e39d",
	"bases-all-fail":            "a19b54db4d9b740f16c4",
	"sources-all-fail-bases-ok": "7162b0a7034204a57b9e",
	"bases-cross-chunk":         "deb0363bf1ad7cf2943e",
	"remote-base":               "e8517bbf6fcf7c8ef581",
}

var zzBWantFetch = map[string]string{
	"single/base":                                  "5b505cd411b45d35b952",
	"nine-every-third-fails/base":                  "db475e90ac8a55439b25",
	"all-fail/base":                                "ab2b5263ec654d56e84d",
	"129-boundary/base":                            "c3502908e46887bf1529",
	"300-many-fail/base":                           "7434446bc36bf561d96e",
	"300-remote-in-third-chunk/base":               "e6de3174fb8562e3c5a0",
	"bases-ok/base":                                "068224f0a1f3e814d757",
	"bases-ok/diffbase-normalize":                  "ada38885da2f30fbf3db",
	"bases-all-fail/base":                          "00722fa26ece07278f18",
	"bases-all-fail/diffbase-normalize":            "00722fa26ece07278f18",
	"sources-all-fail-bases-ok/base":               "70317ef0191bc4f3829d",
	"sources-all-fail-bases-ok/diffbase-normalize": "70317ef0191bc4f3829d",
	"bases-cross-chunk/base":                       "2b451529e373f3fbb32a",
	"bases-cross-chunk/diffbase-normalize":         "1a0516a85ccc2cf573d3",
	"remote-base/base":                             "622ac9364d139bfbd7b3",
	"remote-base/diffbase-normalize":               "1cb10802419227bce9fc",
}

var zzBWantChunked = map[string]string{
	"n0":                               "0d94746816da932f71bd",
	"n1":                               "9e42e02a7aa9f258979f",
	"n127":                             "d8882c3a2e24df036bdf",
	"n128":                             "e4c94de2c00771aaeaf6",
	"n129":                             "51d1612d2f122039383b",
	"n129-remote-first-chunk":          "58e5a893bcc29e6c134d",
	"n129-remote-second-chunk":         "b598aa52a136e6913495",
	"n129-second-chunk-fails":          "6d076f02ee41a91aefab",
	"n255":                             "b87377f30125518ccbc0",
	"n256-first-chunk-empty":           "2e319ab7c0d6c5e73378",
	"n257-middle-chunk-empty":          "7a7339eeaa1b5e250ada",
	"n257-only-last-ok":                "69d1ecb1aa5ab6e6bd95",
	"n300-remote-in-empty-first-chunk": "444d3d5625f29cdd5aa5",
	"n300-all-fail":                    "e37214de3171cb9b679e",
	"n300-none-fail":                   "f1a1cedb2cedcedd4d76",
}
