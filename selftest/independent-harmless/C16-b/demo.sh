#!/bin/bash
# usage: demo.sh <worktree root>
# Copies the equivalence test into internal/driver, runs it, removes it.
# Exits 0 iff the test passes.
set -u
root=${1:?usage: demo.sh <worktree root>}
here=$(cd "$(dirname "$0")" && pwd)
export GOFLAGS=-mod=mod GOPROXY=off GOSUMDB=off GOTOOLCHAIN=local
dst="$root/internal/driver/zz_equiv_b_test.go"
cp "$here/zz_equiv_b_test.go" "$dst" || exit 2
(cd "$root" && go test -vet=off -count=1 -run 'TestZZBEquiv' ./internal/driver/)
rc=$?
rm -f "$dst"
exit $rc
