package driver

import (
	"crypto/sha256"
	"fmt"
	"sort"
	"strconv"
	"strings"
	"sync"
	"testing"
	"time"

	"github.com/google/pprof/internal/plugin"
	"github.com/google/pprof/profile"
)

// zzProfile builds the n-th synthetic profile. Ids collide between profiles,
// neighbouring profiles share stacks, and the binary moves around.
func zzProfile(n int) *profile.Profile {
	base := uint64(0x400000 + 0x10000*(n%3))
	m := &profile.Mapping{ID: 1, Start: base, Limit: base + 0x8000, File: "/bin/prog", BuildID: "prog-id", HasFunctions: true}
	lib := &profile.Mapping{ID: 2, Start: base + 0x100000, Limit: base + 0x104000, Offset: 0x1000, File: "/lib/x.so", HasFunctions: true}
	p := &profile.Profile{
		SampleType:    []*profile.ValueType{{Type: "samples", Unit: "count"}, {Type: "cpu", Unit: "nanoseconds"}},
		PeriodType:    &profile.ValueType{Type: "cpu", Unit: "nanoseconds"},
		Period:        int64(10 + n%4),
		DurationNanos: int64(n),
		Comments:      []string{"c" + strconv.Itoa(n%5)},
		Mapping:       []*profile.Mapping{m, lib},
	}
	for i := 0; i < 4; i++ {
		k := (n + i) % 6
		p.Function = append(p.Function, &profile.Function{ID: uint64(i + 1), Name: fmt.Sprintf("f%d", k), SystemName: fmt.Sprintf("f%d", k), Filename: "a.go", StartLine: int64(k)})
	}
	for i := 0; i < 4; i++ {
		k := (n + i) % 6
		mm := m
		if k%2 == 1 {
			mm = lib
		}
		l := &profile.Location{ID: uint64(i + 1), Mapping: mm, Address: mm.Start + uint64(0x10*k), Line: []profile.Line{{Function: p.Function[i], Line: int64(100 + k)}}}
		if k == 4 {
			l.Line = append(l.Line, profile.Line{Function: p.Function[(i+1)%4], Line: 7, Column: 3})
		}
		p.Location = append(p.Location, l)
	}
	sign := int64(1)
	if n%7 == 6 {
		sign = -1
	}
	for i := 0; i < 4; i++ {
		s := &profile.Sample{Location: p.Location[i:], Value: []int64{sign, sign * int64(n+i+1)}}
		if i == 2 {
			s.Label = map[string][]string{"who": {strconv.Itoa(n % 2)}}
		}
		if i == 3 {
			s.NumLabel = map[string][]int64{"bytes": {int64(n % 3)}}
			s.NumUnit = map[string][]string{"bytes": {"kb"}}
		}
		p.Sample = append(p.Sample, s)
	}
	return p
}

// zzFetcher serves "p<n>[,local|,remote|,nosrc]" and fails on "fail<n>". Later
// sources answer sooner, so completion order differs from request order.
type zzFetcher struct{ total int }

func (f zzFetcher) Fetch(src string, d, t time.Duration) (*profile.Profile, string, error) {
	name, kind, _ := strings.Cut(src, ",")
	if strings.HasPrefix(name, "fail") {
		n, _ := strconv.Atoi(name[4:])
		time.Sleep(time.Duration(n%5) * time.Millisecond)
		return nil, "", fmt.Errorf("cannot fetch %s", name)
	}
	n, err := strconv.Atoi(strings.TrimPrefix(name, "p"))
	if err != nil {
		return nil, "", err
	}
	time.Sleep(time.Duration((f.total-n)%9) * time.Millisecond)
	switch kind {
	case "remote":
		return zzProfile(n), "http://remote.example/" + name, nil
	case "local":
		return zzProfile(n), "http://" + testSourceAddress + "/" + name, nil
	}
	return zzProfile(n), "", nil
}

type zzObj struct{}

func (zzObj) Open(file string, start, limit, offset uint64, relocationSymbol string) (plugin.ObjFile, error) {
	return nil, fmt.Errorf("no such file %s", file)
}
func (zzObj) Disasm(file string, start, end uint64, intelSyntax bool) ([]plugin.Inst, error) {
	return nil, fmt.Errorf("unimplemented")
}

type zzUI struct {
	mu   sync.Mutex
	errs []string
}

func (u *zzUI) ReadLine(string) (string, error) { return "", fmt.Errorf("no input") }
func (u *zzUI) Print(...interface{})            {}
func (u *zzUI) PrintErr(args ...interface{}) {
	u.mu.Lock()
	defer u.mu.Unlock()
	u.errs = append(u.errs, fmt.Sprint(args...))
}
func (u *zzUI) IsTerminal() bool                    { return false }
func (u *zzUI) WantBrowser() bool                   { return false }
func (u *zzUI) SetAutoComplete(func(string) string) {}

func zzSources(specs ...string) []profileSource {
	s := &source{}
	var out []profileSource
	for _, sp := range specs {
		out = append(out, profileSource{addr: sp, source: s})
	}
	return out
}

func zzHash(p *profile.Profile) string {
	if p == nil {
		return "nil"
	}
	var keep []string
	for _, ln := range strings.Split(p.String(), "\n") {
		if !strings.HasPrefix(ln, "Time: ") {
			keep = append(keep, ln)
		}
	}
	return fmt.Sprintf("%x", sha256.Sum256([]byte(strings.Join(keep, "\n"))))[:16]
}

func zzMsrc(ms plugin.MappingSources) string {
	var keys []string
	for k := range ms {
		keys = append(keys, k)
	}
	sort.Strings(keys)
	var b strings.Builder
	for _, k := range keys {
		fmt.Fprintf(&b, "%s=", k)
		for _, s := range ms[k] {
			fmt.Fprintf(&b, "(%s,%x)", s.Source, s.Start)
		}
		b.WriteString(";")
	}
	return fmt.Sprintf("%d:%x", len(b.String()), sha256.Sum256([]byte(b.String())))[:20]
}

func zzErrs(u *zzUI) string {
	u.mu.Lock()
	defer u.mu.Unlock()
	e := append([]string(nil), u.errs...)
	sort.Strings(e)
	return strings.Join(e, " | ")
}

func zzMany(n int) []string {
	var specs []string
	for i := 0; i < n; i++ {
		switch {
		case i%41 == 40:
			specs = append(specs, fmt.Sprintf("fail%d", i))
		case i%10 == 3:
			specs = append(specs, fmt.Sprintf("p%d,local", i))
		default:
			specs = append(specs, fmt.Sprintf("p%d", i))
		}
	}
	return specs
}

func TestZZEquivCGrab(t *testing.T) {
	t.Setenv("PPROF_BINARY_PATH", t.TempDir())

	type tc struct {
		name  string
		specs []string
		want  string
	}
	cases := []tc{
		{"three", []string{"p0", "p1", "p2"}, "p=233df76046c9e4e0 msrc=0:e3b0c44298fc1c149a save=false count=3 err=<nil> ui=[]"},
		{"order-matters-for-header", []string{"p5,local", "p3", "p9,remote", "p4"}, "p=c9f6ba37de69925b msrc=154:f1cb94a5e479127e save=true count=4 err=<nil> ui=[]"},
		{"with-failures", []string{"fail1", "p2,remote", "fail3", "p6", "p7,local", "fail9"}, "p=b849aea2325d29cd msrc=154:bc2d345d4b1afa5e save=true count=3 err=<nil> ui=[fail1: cannot fetch fail1 | fail3: cannot fetch fail3 | fail9: cannot fetch fail9]"},
		{"all-fail", []string{"fail1", "fail2"}, "p=nil msrc=0:e3b0c44298fc1c149a save=false count=0 err=<nil> ui=[fail1: cannot fetch fail1 | fail2: cannot fetch fail2]"},
		{"single", []string{"p8,remote"}, "p=8621b8ff9353c895 msrc=86:aeca569de738f2335 save=true count=1 err=<nil> ui=[]"},
		{"cancelling", []string{"p6", "p13", "p6", "p13", "p20"}, "p=70af513130f4e972 msrc=0:e3b0c44298fc1c149a save=false count=5 err=<nil> ui=[]"},
		{"none", nil, "p=nil msrc=0:e3b0c44298fc1c149a save=false count=0 err=<nil> ui=[]"},
	}
	for _, c := range cases {
		t.Run("concurrentGrab/"+c.name, func(t *testing.T) {
			ui := &zzUI{}
			srcs := zzSources(c.specs...)
			p, msrc, save, count, err := concurrentGrab(srcs, zzFetcher{len(srcs)}, zzObj{}, ui, nil)
			if p != nil {
				if verr := p.CheckValid(); verr != nil {
					t.Errorf("invalid merged profile: %v", verr)
				}
			}
			got := fmt.Sprintf("p=%s msrc=%s save=%v count=%d err=%v ui=[%s]", zzHash(p), zzMsrc(msrc), save, count, err, zzErrs(ui))
			if got != c.want {
				t.Errorf("\n got %s\nwant %s", got, c.want)
			}
			// Slots of the fetched profiles are released, failed ones keep their error.
			for i := range srcs {
				failed := strings.HasPrefix(c.specs[i], "fail")
				if failed != (srcs[i].err != nil) || srcs[i].p != nil && !failed {
					t.Errorf("slot %d (%s): err=%v p=%v", i, c.specs[i], srcs[i].err, srcs[i].p != nil)
				}
			}
		})
	}

	big := []tc{
		{"chunk-300", zzMany(300), "p=6865ed22b3dce62c msrc=2086:d2210b76b0ecdf5 save=false count=293 ui=2a77a2c723d522a42e2d37525a1134e6b8699eea83c34eb7dbfb1d9f7bd2601c"},
		{"chunk-129", zzMany(129), "p=9e3e7da54c430949 msrc=934:df3ad5637a79e802 save=false count=126 ui=be8db6ab5c2efc50dcc8bd27180ead880cd284fb3d0def5204f9a8c4f66f5b53"},
		{"chunk-128", zzMany(128), "p=c8ff6f12e319576b msrc=934:df3ad5637a79e802 save=false count=125 ui=be8db6ab5c2efc50dcc8bd27180ead880cd284fb3d0def5204f9a8c4f66f5b53"},
	}
	for _, c := range big {
		t.Run("chunkedGrab/"+c.name, func(t *testing.T) {
			ui := &zzUI{}
			srcs := zzSources(c.specs...)
			p, msrc, save, count, err := chunkedGrab(srcs, zzFetcher{len(srcs)}, zzObj{}, ui, nil)
			if err != nil {
				t.Fatal(err)
			}
			if verr := p.CheckValid(); verr != nil {
				t.Errorf("invalid merged profile: %v", verr)
			}
			// Per-type totals are those of the fetched inputs.
			var want, have [2]int64
			for i, sp := range c.specs {
				if strings.HasPrefix(sp, "fail") {
					continue
				}
				for _, s := range zzProfile(i).Sample {
					want[0] += s.Value[0]
					want[1] += s.Value[1]
				}
			}
			for _, s := range p.Sample {
				have[0] += s.Value[0]
				have[1] += s.Value[1]
			}
			if want != have {
				t.Errorf("totals %v, want %v", have, want)
			}
			got := fmt.Sprintf("p=%s msrc=%s save=%v count=%d ui=%x", zzHash(p), zzMsrc(msrc), save, count, sha256.Sum256([]byte(zzErrs(ui))))
			if got != c.want {
				t.Errorf("\n got %s\nwant %s", got, c.want)
			}
		})
	}

	t.Run("grabSourcesAndBases", func(t *testing.T) {
		ui := &zzUI{}
		srcs := zzSources("p1", "fail2", "p3,remote", "p4")
		bases := zzSources("p3", "p1,local", "fail5")
		p, pb, m, mb, save, err := grabSourcesAndBases(srcs, bases, zzFetcher{4}, zzObj{}, ui, nil)
		got := fmt.Sprintf("p=%s pb=%s m=%s mb=%s save=%v err=%v ui=[%s]", zzHash(p), zzHash(pb), zzMsrc(m), zzMsrc(mb), save, err, zzErrs(ui))
		if want := "p=b90e61d000379360 pb=508097193040d796 m=86:d696df8103ec8327c mb=88:4edf9cdff37e7683e save=true err=<nil> ui=[Fetched 2 base profiles out of 3 | Fetched 3 source profiles out of 4 | fail2: cannot fetch fail2 | fail5: cannot fetch fail5]"; got != want {
			t.Errorf("\n got %s\nwant %s", got, want)
		}
	})
}
