#!/bin/sh
# Usage: demo.sh <worktree root>. Copies the equivalence test into place, runs it, removes it.
set -u
root="${1:?usage: demo.sh <worktree root>}"
here="$(cd "$(dirname "$0")" && pwd)"
export GOFLAGS=-mod=mod GOPROXY=off GOSUMDB=off GOTOOLCHAIN=local
cp "$here/zz_equiv_c_test.go" "$root/internal/driver/zz_equiv_c_test.go" || exit 1
(cd "$root" && go test -vet=off -count=1 -run 'ZZEquivC' ./internal/driver/)
rc=$?
rm -f "$root/internal/driver/zz_equiv_c_test.go"
exit $rc
