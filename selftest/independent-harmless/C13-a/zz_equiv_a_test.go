package elfexec

import (
	"crypto/sha256"
	"debug/elf"
	"fmt"
	"math/rand"
	"testing"
)

// refProgramHeadersForMapping is a verbatim copy of ProgramHeadersForMapping as
// it stood before change A. It returns indices instead of pointers.
func refProgramHeadersForMapping(phdrs []elf.ProgHeader, mapOff, mapSz uint64) []int {
	const (
		pageSize       = 4096
		pageOffsetMask = pageSize - 1
	)
	mapLimit := mapOff + mapSz
	var headers []int
	for i := range phdrs {
		p := &phdrs[i]
		if p.Filesz == 0 {
			continue
		}
		segLimit := p.Off + p.Memsz
		if p.Type == elf.PT_LOAD && mapOff < segLimit && p.Off < mapLimit {
			alignedSegOffset := uint64(0)
			if p.Off > (p.Vaddr & pageOffsetMask) {
				alignedSegOffset = p.Off - (p.Vaddr & pageOffsetMask)
			}
			if mapOff < alignedSegOffset {
				continue
			}
			if mapOff > p.Off && (segLimit < mapOff+pageSize) && (mapLimit >= segLimit+pageSize) {
				continue
			}
			headers = append(headers, i)
		}
	}
	return headers
}

func idxOf(phdrs []elf.ProgHeader, hs []*elf.ProgHeader) []int {
	var out []int
	for _, h := range hs {
		found := -1
		for i := range phdrs {
			if h == &phdrs[i] {
				found = i
			}
		}
		out = append(out, found)
	}
	return out
}

// genLayout builds a linker-like layout of 1..4 PT_LOAD segments (plus some
// non-LOAD noise) with offset and vaddr congruent modulo the page size.
func genLayout(r *rand.Rand) []elf.ProgHeader {
	const page = 4096
	aligns := []uint64{page, 0x10000, 0x200000}
	align := aligns[r.Intn(len(aligns))]
	n := 1 + r.Intn(4)
	vaddr := uint64(r.Intn(3)) * 0x200000 // sometimes zero first vaddr
	if r.Intn(2) == 0 {
		vaddr += 0x400000
	}
	off := uint64(0)
	var phdrs []elf.ProgHeader
	if r.Intn(2) == 0 {
		phdrs = append(phdrs, elf.ProgHeader{Type: elf.PT_PHDR, Flags: elf.PF_R, Off: 0x40, Vaddr: vaddr + 0x40, Filesz: 0x1f8, Memsz: 0x1f8, Align: 8})
	}
	for i := 0; i < n; i++ {
		filesz := uint64(r.Intn(0x5000))
		if r.Intn(6) == 0 {
			filesz = 0
		}
		memsz := filesz
		if r.Intn(3) == 0 {
			memsz += uint64(r.Intn(0x3000)) // bss
		}
		flags := elf.PF_R
		switch i % 3 {
		case 0:
			flags |= elf.PF_X
		case 1:
			flags |= elf.PF_W
		}
		phdrs = append(phdrs, elf.ProgHeader{Type: elf.PT_LOAD, Flags: flags, Off: off, Vaddr: vaddr, Paddr: vaddr, Filesz: filesz, Memsz: memsz, Align: align})
		// Next segment: file offset continues (possibly same page), vaddr jumps
		// by the alignment but stays congruent to the offset modulo page size.
		off += filesz
		if r.Intn(3) == 0 {
			off = (off + page - 1) &^ (page - 1)
		} else {
			off += uint64(r.Intn(64))
		}
		vaddr = ((vaddr + memsz + align - 1) &^ (align - 1)) + off%align
		if r.Intn(8) == 0 { // zero file size segment with junk offset
			phdrs = append(phdrs, elf.ProgHeader{Type: elf.PT_LOAD, Flags: elf.PF_R | elf.PF_W, Off: uint64(r.Int63()), Vaddr: vaddr, Filesz: 0, Memsz: 0x1000, Align: align})
		}
	}
	if r.Intn(2) == 0 {
		phdrs = append(phdrs, elf.ProgHeader{Type: elf.PT_GNU_STACK, Flags: elf.PF_R | elf.PF_W, Align: 16})
		phdrs = append(phdrs, elf.ProgHeader{Type: elf.PT_NOTE, Flags: elf.PF_R, Off: 0x238, Vaddr: 0x238, Filesz: 0x44, Memsz: 0x44, Align: 4})
	}
	return phdrs
}

func TestZZEquivA(t *testing.T) {
	const page = 4096
	r := rand.New(rand.NewSource(13))
	h := sha256.New()
	cases := 0
	for it := 0; it < 4000; it++ {
		phdrs := genLayout(r)
		// Mapping splits the loader would produce, plus perturbations.
		var maps [][2]uint64
		for _, p := range phdrs {
			if p.Type != elf.PT_LOAD {
				continue
			}
			start := p.Off &^ (page - 1)
			fileEnd := (p.Off + p.Filesz + page - 1) &^ (page - 1)
			memEnd := (p.Off + p.Memsz + page - 1) &^ (page - 1)
			maps = append(maps, [2]uint64{start, fileEnd - start}, [2]uint64{start, memEnd - start}, [2]uint64{p.Off, p.Memsz})
			if fileEnd-start > page {
				cut := start + page*uint64(1+r.Intn(int((fileEnd-start)/page)))
				maps = append(maps, [2]uint64{start, cut - start}, [2]uint64{cut, fileEnd - cut}, [2]uint64{cut, memEnd + page - cut})
			}
			maps = append(maps, [2]uint64{start + page, 2 * page}, [2]uint64{start, 0x200000})
		}
		maps = append(maps, [2]uint64{uint64(r.Intn(0x8000)), uint64(r.Intn(0x8000))}, [2]uint64{0, 0}, [2]uint64{0, ^uint64(0)}, [2]uint64{^uint64(0) - 0xfff, 0x2000})
		for _, m := range maps {
			got := idxOf(phdrs, ProgramHeadersForMapping(phdrs, m[0], m[1]))
			want := refProgramHeadersForMapping(phdrs, m[0], m[1])
			if fmt.Sprint(got) != fmt.Sprint(want) {
				t.Fatalf("phdrs=%#v mapOff=%#x mapSz=%#x: got %v want %v", phdrs, m[0], m[1], got, want)
			}
			if (got == nil) != (want == nil) {
				t.Fatalf("nil-ness differs for mapOff=%#x mapSz=%#x", m[0], m[1])
			}
			fmt.Fprintf(h, "%x/%x:%v;", m[0], m[1], got)
			cases++
		}
	}
	digest := fmt.Sprintf("%x", h.Sum(nil))
	t.Logf("cases=%d digest=%s", cases, digest)
	const wantDigest = "5d7c54f52eaad2d6ee99d08da9b26dd35fb848ff346dcc712e56741c428d5773"
	if digest != wantDigest {
		t.Errorf("digest over all results = %s, want %s (computed on the unchanged tree)", digest, wantDigest)
	}

	// A few fixed cases with hard-coded expectations computed on the unchanged tree
	// (exe_linux_64-like two segment layout and a three segment PIE layout).
	two := []elf.ProgHeader{
		{Type: elf.PT_LOAD, Flags: elf.PF_R | elf.PF_X, Off: 0, Vaddr: 0x400000, Filesz: 0x6fc, Memsz: 0x6fc, Align: 0x200000},
		{Type: elf.PT_LOAD, Flags: elf.PF_R | elf.PF_W, Off: 0xe10, Vaddr: 0x600e10, Filesz: 0x230, Memsz: 0x238, Align: 0x200000},
	}
	pie := []elf.ProgHeader{
		{Type: elf.PT_LOAD, Flags: elf.PF_R, Off: 0, Vaddr: 0, Filesz: 0x8a4, Memsz: 0x8a4, Align: 0x1000},
		{Type: elf.PT_LOAD, Flags: elf.PF_R | elf.PF_X, Off: 0x8b0, Vaddr: 0x18b0, Filesz: 0x7d0, Memsz: 0x7d0, Align: 0x1000},
		{Type: elf.PT_LOAD, Flags: elf.PF_R | elf.PF_W, Off: 0x1080, Vaddr: 0x3080, Filesz: 0x2b8, Memsz: 0x2d0, Align: 0x1000},
	}
	for _, tc := range []struct {
		phdrs         []elf.ProgHeader
		mapOff, mapSz uint64
		want          string
	}{
		{two, 0x0, 0x1000, "[0 1]"},
		{two, 0x0, 0x2000, "[0 1]"},
		{two, 0xe00, 0x1200, "[1]"},
		{two, 0x2000, 0x2000, "[]"},
		{two, 0x0, 0x3000, "[0 1]"},
		{two, 0x1000, 0x1000, "[1]"},
		{pie, 0x0, 0x1000, "[0 1]"},
		{pie, 0x0, 0x2000, "[0 1]"},
		{pie, 0x1000, 0x1000, "[1 2]"},
		{pie, 0x1000, 0x2000, "[2]"},
		{pie, 0x0, 0x1000000, "[0 1]"},
		{pie, 0x800, 0x1000, "[0 1]"},
	} {
		got := fmt.Sprint(idxOf(tc.phdrs, ProgramHeadersForMapping(tc.phdrs, tc.mapOff, tc.mapSz)))
		if got != tc.want {
			t.Errorf("mapOff=%#x mapSz=%#x: got %s want %s", tc.mapOff, tc.mapSz, got, tc.want)
		}
	}
}
