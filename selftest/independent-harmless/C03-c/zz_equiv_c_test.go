package profile

import (
	"crypto/sha256"
	"fmt"
	"os"
	"sort"
	"strings"
	"testing"
)

// Equivalence demonstration for change C (mapSample maps the stack's
// locations once and hands the mapped slice both to the key computation and
// to the new sample, instead of sampleKey and mapSample each calling
// mapLocation for every frame).
//
// The inputs stress sample identity: same stack / different label sets,
// labels differing only in value multiplicity or only in unit, string label
// vs. numeric label of the same name, stacks that are prefixes / permutations
// of each other, recursive stacks (same location repeated), the empty stack,
// a nil entry in Sample.Location, colliding ids across inputs, and the same
// binary mapped at another address. Expected values were computed on the
// unchanged tree.

// zzcDump prints a profile without relying on Profile.String (which cannot
// print nil locations) and without sorting, so that sample and table order
// are pinned as well.
func zzcDump(p *Profile) string {
	var b strings.Builder
	for _, s := range p.Sample {
		fmt.Fprintf(&b, "S %v @", s.Value)
		for _, l := range s.Location {
			if l == nil {
				b.WriteString(" nil")
			} else {
				fmt.Fprintf(&b, " %d", l.ID)
			}
		}
		var ks []string
		for k := range s.Label {
			ks = append(ks, k)
		}
		sort.Strings(ks)
		for _, k := range ks {
			fmt.Fprintf(&b, " L[%s]=%q", k, s.Label[k])
		}
		ks = nil
		for k := range s.NumLabel {
			ks = append(ks, k)
		}
		sort.Strings(ks)
		for _, k := range ks {
			fmt.Fprintf(&b, " N[%s]=%v/%q", k, s.NumLabel[k], s.NumUnit[k])
		}
		if len(s.NumUnit) != len(s.NumLabel) {
			fmt.Fprintf(&b, " numunit-keys=%d", len(s.NumUnit))
		}
		b.WriteByte('\n')
	}
	for _, l := range p.Location {
		fmt.Fprintf(&b, "L %d addr=%#x folded=%v", l.ID, l.Address, l.IsFolded)
		if l.Mapping != nil {
			fmt.Fprintf(&b, " M=%d", l.Mapping.ID)
		}
		for _, ln := range l.Line {
			fmt.Fprintf(&b, " [%d %d:%d]", ln.Function.ID, ln.Line, ln.Column)
		}
		b.WriteByte('\n')
	}
	for _, f := range p.Function {
		fmt.Fprintf(&b, "F %d %s %s %s %d\n", f.ID, f.Name, f.SystemName, f.Filename, f.StartLine)
	}
	for _, m := range p.Mapping {
		fmt.Fprintf(&b, "M %d %#x-%#x %s %s\n", m.ID, m.Start, m.Limit, m.File, m.BuildID)
	}
	return b.String()
}

func zzcProfile(idBase, mapStart uint64, mul int64, withNil bool) *Profile {
	m := &Mapping{ID: idBase + 1, Start: mapStart, Limit: mapStart + 0x2000, File: "prog", BuildID: "prog-id", HasFunctions: true}
	var fns []*Function
	var locs []*Location
	for i, name := range []string{"main", "run", "step", "leaf"} {
		f := &Function{ID: idBase + uint64(i) + 1, Name: name, SystemName: name, Filename: "prog.go", StartLine: int64(100 * (i + 1))}
		fns = append(fns, f)
		locs = append(locs, &Location{
			// Location ids run in the opposite direction to function ids.
			ID: idBase + uint64(4-i), Mapping: m, Address: mapStart + uint64(0x40*(i+1)),
			Line: []Line{{Function: f, Line: int64(100*(i+1) + 7), Column: int64(i)}},
		})
	}
	lMain, lRun, lStep, lLeaf := locs[0], locs[1], locs[2], locs[3]
	p := &Profile{
		SampleType: []*ValueType{{Type: "contentions", Unit: "count"}, {Type: "delay", Unit: "nanoseconds"}},
		PeriodType: &ValueType{Type: "contentions", Unit: "count"},
		Period:     1,
		Mapping:    []*Mapping{m},
		Function:   fns,
		Location:   []*Location{locs[3], locs[2], locs[1], locs[0]},
	}
	n := int64(0)
	add := func(s *Sample) {
		n++
		s.Value = []int64{mul * n, mul * n * 1000}
		p.Sample = append(p.Sample, s)
	}
	full := []*Location{lLeaf, lStep, lRun, lMain}
	add(&Sample{Location: full})
	add(&Sample{Location: full}) // duplicate within one profile
	add(&Sample{Location: []*Location{lStep, lRun, lMain}})
	add(&Sample{Location: []*Location{lStep, lLeaf, lRun, lMain}})       // permutation
	add(&Sample{Location: []*Location{lLeaf, lStep, lStep, lRun, lMain}}) // recursion
	add(&Sample{Location: []*Location{lLeaf, lStep, lStep, lStep, lRun, lMain}})
	add(&Sample{}) // empty stack
	add(&Sample{Location: full, Label: map[string][]string{"k": {"v"}}})
	add(&Sample{Location: full, Label: map[string][]string{"k": {"v", "v"}}})
	add(&Sample{Location: full, Label: map[string][]string{"k": {"v"}, "k2": {}}})
	add(&Sample{Location: full, Label: map[string][]string{"k": {"v"}, "k2": {""}}})
	add(&Sample{Location: full, Label: map[string][]string{"kv": {""}}})
	add(&Sample{Location: full, Label: map[string][]string{"k": {"v", ""}}})
	add(&Sample{Location: full, NumLabel: map[string][]int64{"k": {1}}})
	add(&Sample{Location: full, NumLabel: map[string][]int64{"k": {1}}, NumUnit: map[string][]string{"k": {"bytes"}}})
	add(&Sample{Location: full, NumLabel: map[string][]int64{"k": {1}}, NumUnit: map[string][]string{"k": {"kilobytes"}}})
	add(&Sample{Location: full, NumLabel: map[string][]int64{"k": {1, 1}}, NumUnit: map[string][]string{"k": {"bytes", "bytes"}}})
	add(&Sample{Location: full, NumLabel: map[string][]int64{"k": {-1}}})
	add(&Sample{Location: full, NumLabel: map[string][]int64{"k": {1}, "j": {2}}})
	add(&Sample{Location: full, Label: map[string][]string{"k": {"v"}}, NumLabel: map[string][]int64{"k": {1}}})
	add(&Sample{Location: full, Label: map[string][]string{"k": {"v"}}}) // repeats sample 8
	if withNil {
		add(&Sample{Location: []*Location{lLeaf, nil, lMain}})
		add(&Sample{Location: []*Location{lLeaf, lMain}})
		add(&Sample{Location: []*Location{nil}})
	}
	return p
}

const zzcWant = "d588f83a845cc7ab59156eab00e9665f4417872ebcadfb66aba319291731b08f"

func TestZZEquivCSampleIdentity(t *testing.T) {
	p1 := zzcProfile(0, 0x400000, 1, false)
	p2 := zzcProfile(2, 0x7f0000, 10, false) // overlapping ids with other meaning, relocated binary
	p3 := zzcProfile(0, 0x400000, -1, false) // negation of p1
	n1 := zzcProfile(0, 0x400000, 1, true)
	n2 := zzcProfile(9, 0x500000, 5, true)
	for _, p := range []*Profile{p1, p2, p3} {
		if err := p.CheckValid(); err != nil {
			t.Fatalf("input invalid: %v", err)
		}
	}
	var dump string
	for i, in := range [][]*Profile{
		{p1}, {p1, p2}, {p2, p1}, {p1, p2, p3}, {p1, p1, p2}, {n1}, {n1, n2}, {n2, p1, n1},
	} {
		// Keep a textual snapshot of the inputs to show they are not modified.
		var before []string
		for _, p := range in {
			before = append(before, zzcDump(p))
		}
		got, err := Merge(in)
		if err != nil {
			t.Fatalf("case %d: Merge: %v", i, err)
		}
		for j, p := range in {
			if zzcDump(p) != before[j] {
				t.Errorf("case %d: input %d modified", i, j)
			}
		}
		// No aliasing of input locations or label slices.
		inLocs := map[*Location]bool{}
		for _, p := range in {
			for _, l := range p.Location {
				inLocs[l] = true
			}
		}
		for _, s := range got.Sample {
			for _, l := range s.Location {
				if l != nil && inLocs[l] {
					t.Errorf("case %d: output aliases an input location", i)
				}
			}
		}
		// Every sample location is an entry of the location table.
		for _, s := range got.Sample {
			for _, l := range s.Location {
				if l != nil && (l.ID == 0 || int(l.ID) > len(got.Location) || got.Location[l.ID-1] != l) {
					t.Errorf("case %d: sample refers to a location outside the table", i)
				}
			}
		}
		// Totals are conserved.
		var wantTot, gotTot [2]int64
		for _, p := range in {
			for _, s := range p.Sample {
				wantTot[0] += s.Value[0]
				wantTot[1] += s.Value[1]
			}
		}
		for _, s := range got.Sample {
			gotTot[0] += s.Value[0]
			gotTot[1] += s.Value[1]
		}
		if wantTot != gotTot {
			t.Errorf("case %d: totals %v, want %v", i, gotTot, wantTot)
		}
		dump += fmt.Sprintf("case %d\n%s=====\n", i, zzcDump(got))
	}
	if os.Getenv("ZZ_DUMP") != "" {
		fmt.Println(dump)
	}
	if got := fmt.Sprintf("%x", sha256.Sum256([]byte(dump))); got != zzcWant {
		t.Errorf("dump sha256 = %s, want %s", got, zzcWant)
	}
}
