package measurement

import (
	"fmt"
	"os"
	"sort"
	"strings"
	"testing"

	"github.com/google/pprof/profile"
)

func zzProf(types []string, period string, periodVal int64, stacks [][]string, vals [][]int64) *profile.Profile {
	p := &profile.Profile{Period: periodVal}
	if period != "" {
		tu := strings.SplitN(period, "/", 2)
		p.PeriodType = &profile.ValueType{Type: tu[0], Unit: tu[1]}
	}
	for _, t := range types {
		tu := strings.SplitN(t, "/", 2)
		p.SampleType = append(p.SampleType, &profile.ValueType{Type: tu[0], Unit: tu[1]})
	}
	m := &profile.Mapping{ID: 1, Start: 0x1000, Limit: 0x9000, File: "/bin/zz", HasFunctions: true}
	p.Mapping = []*profile.Mapping{m}
	fns := map[string]*profile.Function{}
	locs := map[string]*profile.Location{}
	for i, st := range stacks {
		s := &profile.Sample{Value: append([]int64(nil), vals[i]...)}
		for _, name := range st {
			l := locs[name]
			if l == nil {
				f := &profile.Function{ID: uint64(len(fns) + 1), Name: name, SystemName: name, Filename: name + ".go"}
				fns[name] = f
				p.Function = append(p.Function, f)
				l = &profile.Location{ID: uint64(len(locs) + 1), Mapping: m, Address: 0x1000 + uint64(strings.Index("a,b,c,d,main", name))*16, Line: []profile.Line{{Function: f, Line: 7}}}
				locs[name] = l
				p.Location = append(p.Location, l)
			}
			s.Location = append(s.Location, l)
		}
		p.Sample = append(p.Sample, s)
	}
	return p
}

func zzDump(p *profile.Profile) string {
	var b strings.Builder
	if p.PeriodType != nil {
		fmt.Fprintf(&b, "period=%d %s/%s ", p.Period, p.PeriodType.Type, p.PeriodType.Unit)
	} else {
		fmt.Fprintf(&b, "period=%d <nil> ", p.Period)
	}
	b.WriteString("types=")
	for _, st := range p.SampleType {
		fmt.Fprintf(&b, "%s/%s,", st.Type, st.Unit)
	}
	b.WriteString("\n")
	var lines []string
	for _, s := range p.Sample {
		var names []string
		for _, l := range s.Location {
			for _, ln := range l.Line {
				names = append(names, ln.Function.Name)
			}
		}
		lines = append(lines, fmt.Sprintf("%s %v", strings.Join(names, ";"), s.Value))
	}
	sort.Strings(lines)
	b.WriteString(strings.Join(lines, "\n"))
	b.WriteString("\n")
	return b.String()
}

var zzStacks = [][]string{{"a", "b", "main"}, {"c", "main"}, {"a", "main"}, {"d"}}

type zzCase struct {
	name string
	mk   func() []*profile.Profile
	want string
}

func zzCases() []zzCase {
	return []zzCase{
		{"time-units-mixed", func() []*profile.Profile {
			return []*profile.Profile{
				zzProf([]string{"samples/count", "cpu/milliseconds"}, "cpu/milliseconds", 10, zzStacks,
					[][]int64{{1, 10}, {2, 0}, {0, 30}, {4, 40}}),
				zzProf([]string{"samples/count", "cpu/nanoseconds"}, "cpu/nanoseconds", 10000000, zzStacks,
					[][]int64{{5, 5000000}, {0, 0}, {7, 0}, {0, 1499999}}),
				zzProf([]string{"samples/count", "cpu/seconds"}, "cpu/s", 1, zzStacks[:3],
					[][]int64{{1, 2}, {3, 0}, {0, 0}}),
			}
		}, zzWantTime},
		{"memory-and-time", func() []*profile.Profile {
			return []*profile.Profile{
				zzProf([]string{"alloc_space/MB", "delay/us", "objects/count"}, "space/bytes", 524288, zzStacks,
					[][]int64{{1, 1, 1}, {0, 2, 5}, {3, 0, 0}, {0, 0, 8}}),
				zzProf([]string{"alloc_space/bytes", "delay/ms", "objects/count"}, "space/kB", 512, zzStacks,
					[][]int64{{1048576, 1, 1}, {7, 0, 0}, {0, 0, 9}, {0, 3, 0}}),
				zzProf([]string{"alloc_space/kB", "delay/microseconds", "objects/count"}, "space/MB", 1, zzStacks[1:],
					[][]int64{{1, 1, 0}, {0, 0, 1}, {-4, -5, -6}}),
			}
		}, zzWantMem},
		{"same-units-noop", func() []*profile.Profile {
			return []*profile.Profile{
				zzProf([]string{"samples/count", "cpu/nanoseconds"}, "cpu/nanoseconds", 100, zzStacks[:2], [][]int64{{1, 2}, {0, 4}}),
				zzProf([]string{"samples/count", "cpu/nanoseconds"}, "cpu/nanoseconds", 200, zzStacks[1:3], [][]int64{{5, 0}, {0, 0}}),
			}
		}, zzWantNoop},
		{"single-profile", func() []*profile.Profile {
			return []*profile.Profile{
				zzProf([]string{"samples/count", "cpu/ms"}, "cpu/ms", 7, zzStacks[:2], [][]int64{{1, 2}, {0, 0}}),
			}
		}, zzWantSingle},
		{"unknown-units", func() []*profile.Profile {
			return []*profile.Profile{
				zzProf([]string{"events/widgets", "cpu/ms"}, "cpu/ms", 7, zzStacks[:2], [][]int64{{1, 2}, {3, 0}}),
				zzProf([]string{"events/widgets", "cpu/us"}, "cpu/us", 7, zzStacks[:2], [][]int64{{10, 20}, {0, 30}}),
			}
		}, zzWantUnknown},
		{"plural-and-nil-period", func() []*profile.Profile {
			return []*profile.Profile{
				zzProf([]string{"sample/count", "cpu/seconds"}, "", 3, zzStacks[:3], [][]int64{{1, 2}, {3, 0}, {0, 0}}),
				zzProf([]string{"samples/count", "cpus/ms"}, "cpu/ms", 4, zzStacks[:3], [][]int64{{1, 2}, {3, 0}, {0, 0}}),
			}
		}, zzWantPlural},
		{"incompatible-units", func() []*profile.Profile {
			return []*profile.Profile{
				zzProf([]string{"cpu/ms"}, "cpu/ms", 7, zzStacks[:1], [][]int64{{1}}),
				zzProf([]string{"cpu/bytes"}, "cpu/ms", 7, zzStacks[:1], [][]int64{{1}}),
			}
		}, zzWantIncompatUnits},
		{"incompatible-types", func() []*profile.Profile {
			return []*profile.Profile{
				zzProf([]string{"cpu/ms"}, "cpu/ms", 7, zzStacks[:1], [][]int64{{1}}),
				zzProf([]string{"wall/ms"}, "cpu/ms", 7, zzStacks[:1], [][]int64{{1}}),
			}
		}, zzWantIncompatTypes},
		{"count-mismatch", func() []*profile.Profile {
			return []*profile.Profile{
				zzProf([]string{"cpu/ms"}, "cpu/ms", 7, zzStacks[:1], [][]int64{{1}}),
				zzProf([]string{"cpu/ms", "samples/count"}, "cpu/ms", 7, zzStacks[:1], [][]int64{{1, 2}}),
			}
		}, zzWantCount},
		{"period-mismatch", func() []*profile.Profile {
			return []*profile.Profile{
				zzProf([]string{"cpu/ms"}, "cpu/ms", 7, zzStacks[:1], [][]int64{{1}}),
				zzProf([]string{"cpu/ms"}, "space/bytes", 7, zzStacks[:1], [][]int64{{1}}),
			}
		}, zzWantPeriod},
	}
}

func zzRun(ps []*profile.Profile) string {
	var b strings.Builder
	if err := ScaleProfiles(ps); err != nil {
		fmt.Fprintf(&b, "scale error: %v\n", err)
		return b.String()
	}
	for i, p := range ps {
		fmt.Fprintf(&b, "-- input %d after ScaleProfiles\n%s", i, zzDump(p))
	}
	for _, p := range ps {
		if p.PeriodType == nil {
			return b.String() // Merge needs period types everywhere.
		}
	}
	m, err := profile.Merge(ps)
	if err != nil {
		fmt.Fprintf(&b, "merge error\n")
		return b.String()
	}
	fmt.Fprintf(&b, "-- merged\n%s", zzDump(m))
	last := ps[len(ps)-1].Copy()
	last.Scale(-1)
	d, err := profile.Merge([]*profile.Profile{m, last})
	if err != nil {
		fmt.Fprintf(&b, "diff error: %v\n", err)
		return b.String()
	}
	fmt.Fprintf(&b, "-- merged minus last\n%s", zzDump(d))
	return b.String()
}

func TestZZEquivB(t *testing.T) {
	if err := ScaleProfiles(nil); err != nil {
		t.Errorf("ScaleProfiles(nil) = %v", err)
	}
	for _, tc := range zzCases() {
		got := zzRun(tc.mk())
		if os.Getenv("ZZ_PRINT") != "" {
			fmt.Printf("=== %s\n%s", tc.name, got)
			continue
		}
		if got != tc.want {
			t.Errorf("%s: got\n%s\nwant\n%s", tc.name, got, tc.want)
		}
	}
}

// ---- golden outputs (computed on the unchanged tree) ----

const zzWantTime = `-- input 0 after ScaleProfiles
period=10000000 cpu/nanoseconds types=samples/count,cpu/nanoseconds,
a;b;main [1 10000000]
a;main [0 30000000]
d [4 40000000]
-- input 1 after ScaleProfiles
period=10000000 cpu/nanoseconds types=samples/count,cpu/nanoseconds,
a;b;main [5 5000000]
a;main [7 0]
c;main [0 0]
d [0 1499999]
-- input 2 after ScaleProfiles
period=1000000000 cpu/nanoseconds types=samples/count,cpu/nanoseconds,
a;b;main [1 2000000000]
-- merged
period=1000000000 cpu/nanoseconds types=samples/count,cpu/nanoseconds,
a;b;main [7 2015000000]
a;main [7 30000000]
d [4 41499999]
-- merged minus last
period=1000000000 cpu/nanoseconds types=samples/count,cpu/nanoseconds,
a;b;main [6 15000000]
a;main [7 30000000]
d [4 41499999]
`

const zzWantMem = `-- input 0 after ScaleProfiles
period=524288 space/bytes types=alloc_space/bytes,delay/us,objects/count,
a;b;main [1048576 1 1]
a;main [3145728 0 0]
-- input 1 after ScaleProfiles
period=524288 space/bytes types=alloc_space/bytes,delay/us,objects/count,
a;b;main [1048576 1000 1]
d [0 3000 0]
-- input 2 after ScaleProfiles
period=1048576 space/bytes types=alloc_space/bytes,delay/us,objects/count,
c;main [1024 1 0]
d [-4096 -5 -6]
-- merged
period=1048576 space/bytes types=alloc_space/bytes,delay/us,objects/count,
a;b;main [2097152 1001 2]
a;main [3145728 0 0]
c;main [1024 1 0]
d [-4096 2995 -6]
-- merged minus last
period=1048576 space/bytes types=alloc_space/bytes,delay/us,objects/count,
a;b;main [2097152 1001 2]
a;main [3145728 0 0]
d [0 3000 0]
`

const zzWantNoop = `-- input 0 after ScaleProfiles
period=100 cpu/nanoseconds types=samples/count,cpu/nanoseconds,
a;b;main [1 2]
c;main [0 4]
-- input 1 after ScaleProfiles
period=200 cpu/nanoseconds types=samples/count,cpu/nanoseconds,
a;main [0 0]
c;main [5 0]
-- merged
period=200 cpu/nanoseconds types=samples/count,cpu/nanoseconds,
a;b;main [1 2]
c;main [5 4]
-- merged minus last
period=200 cpu/nanoseconds types=samples/count,cpu/nanoseconds,
a;b;main [1 2]
c;main [0 4]
`

const zzWantSingle = `-- input 0 after ScaleProfiles
period=7 cpu/ms types=samples/count,cpu/ms,
a;b;main [1 2]
c;main [0 0]
-- merged
period=7 cpu/ms types=samples/count,cpu/ms,
a;b;main [1 2]
-- merged minus last
period=7 cpu/ms types=samples/count,cpu/ms,

`

const zzWantUnknown = `-- input 0 after ScaleProfiles
period=7000 cpu/us types=events/widgets,cpu/us,
a;b;main [1 2000]
-- input 1 after ScaleProfiles
period=7 cpu/us types=events/widgets,cpu/us,
a;b;main [10 20]
c;main [0 30]
-- merged
period=7000 cpu/us types=events/widgets,cpu/us,
a;b;main [11 2020]
c;main [0 30]
-- merged minus last
period=7000 cpu/us types=events/widgets,cpu/us,
a;b;main [1 2000]
`

const zzWantPlural = `-- input 0 after ScaleProfiles
period=3 <nil> types=sample/count,cpu/ms,
a;b;main [1 2000]
-- input 1 after ScaleProfiles
period=4 cpu/ms types=samples/count,cpus/ms,
a;b;main [1 2]
a;main [0 0]
c;main [3 0]
`

const zzWantIncompatUnits = `scale error: sample types: incompatible types: {cpu ms 0 0} {cpu bytes 0 0}
`

const zzWantIncompatTypes = `scale error: sample types: incompatible types: {cpu ms 0 0} {wall ms 0 0}
`

const zzWantCount = `scale error: inconsistent samples type count: 1 != 2
`

const zzWantPeriod = `scale error: period type: incompatible types: {cpu ms 0 0} {space bytes 0 0}
`

