package report

import (
	"bytes"
	"crypto/sha256"
	"fmt"
	"regexp"
	"sort"
	"strings"
	"testing"

	"github.com/google/pprof/profile"
)

// zzCProfile builds a profile with inlined frames, recursion, several roots,
// labels and a negative sample.
func zzCProfile() *profile.Profile {
	names := []string{"main", "a", "b", "c", "d", "e", "f", "g"}
	fn := map[string]*profile.Function{}
	loc := map[string]*profile.Location{}
	p := &profile.Profile{
		SampleType: []*profile.ValueType{{Type: "samples", Unit: "count"}, {Type: "cpu", Unit: "milliseconds"}},
		PeriodType: &profile.ValueType{Type: "cpu", Unit: "milliseconds"},
		Period:     1,
	}
	for i, n := range names {
		f := &profile.Function{ID: uint64(i + 1), Name: n, SystemName: n, Filename: "/src/" + n + ".go"}
		fn[n] = f
		p.Function = append(p.Function, f)
		l := &profile.Location{ID: uint64(i + 1), Line: []profile.Line{{Function: f, Line: int64(10 + i)}}}
		loc[n] = l
		p.Location = append(p.Location, l)
	}
	inl := func(id uint64, key string, fs ...string) {
		l := &profile.Location{ID: id}
		for _, f := range fs {
			l.Line = append(l.Line, profile.Line{Function: fn[f], Line: loc[f].Line[0].Line})
		}
		loc[key] = l
		p.Location = append(p.Location, l)
	}
	inl(20, "c<b", "c", "b")
	inl(21, "e<d<a", "e", "d", "a")
	add := func(v int64, label string, stack ...string) {
		s := &profile.Sample{Value: []int64{1, v}}
		if label != "" {
			s.Label = map[string][]string{"k": {label}}
			s.NumLabel = map[string][]int64{"bytes": {int64(len(label)) * 16}, "other": {3}}
			s.NumUnit = map[string][]string{"bytes": {"bytes"}, "other": {"x"}}
		}
		for _, k := range stack {
			s.Location = append(s.Location, loc[k])
		}
		p.Sample = append(p.Sample, s)
	}
	add(100, "", "c", "b", "a", "main")
	add(70, "x", "c<b", "a", "main")
	add(30, "", "d", "b", "a", "main")
	add(50, "yy", "e<d<a", "main")
	add(10, "", "f", "main")
	add(20, "", "g")
	add(40, "x", "a", "b", "a", "main")
	add(60, "", "e", "c", "b", "a", "main")
	add(10, "", "main")
	add(-80, "yy", "f", "g")
	add(90, "", "e", "c<b", "a", "main")
	add(25, "", "d", "e<d<a", "main")
	add(110, "", "c", "c", "b", "main")
	add(5, "", "e", "d", "g")
	return p
}

var zzCNodeID = regexp.MustCompile(`\bN+\d+(_\d+)*\b|id="node\d+"`)

// zzCNormalizeDot makes a DOT rendering of a call tree independent of the
// order in which sibling nodes with identical names and values are numbered
// (that order follows map iteration in the unchanged code as well): node ids
// are blanked and the lines are sorted. All labels, values and edge
// attributes are retained.
func zzCNormalizeDot(dot string) string {
	lines := strings.Split(zzCNodeID.ReplaceAllString(dot, "N"), "\n")
	sort.Strings(lines)
	return strings.Join(lines, "\n")
}

func zzCRun(t *testing.T, o Options) string {
	t.Helper()
	rpt := NewDefault(zzCProfile(), o)
	var buf bytes.Buffer
	if err := Generate(&buf, rpt, nil); err != nil {
		t.Fatalf("Generate(%+v): %v", o, err)
	}
	return buf.String()
}

func zzCCompute(t *testing.T) (hashes, text string, full map[string]string) {
	formats := []struct {
		name     string
		format   int
		callTree bool
	}{
		{"text", Text, false},
		{"tree", Tree, false},
		{"dot", Dot, false},
		{"dot-calltree", Dot, true},
		{"callgrind", Callgrind, false},
		{"callgrind-calltree", Callgrind, true},
	}
	var out []string
	full = map[string]string{}
	for _, f := range formats {
		for _, cum := range []bool{false, true} {
			for _, nc := range []int{0, 3, 6} {
				for _, nf := range []float64{0, 0.12, 0.5, 2} {
					for _, ef := range []float64{0, 0.3} {
						name := fmt.Sprintf("%s cum=%v nodecount=%d nodefraction=%v edgefraction=%v", f.name, cum, nc, nf, ef)
						got := zzCRun(t, Options{
							OutputFormat: f.format,
							CallTree:     f.callTree,
							CumSort:      cum,
							NodeCount:    nc,
							NodeFraction: nf,
							EdgeFraction: ef,
							OutputUnit:   "minimum",
						})
						if f.format == Dot && f.callTree {
							got = zzCNormalizeDot(got)
						}
						full[name] = got
						out = append(out, fmt.Sprintf("%s: %x", name, sha256.Sum256([]byte(got)))[:len(name)+2+16])
					}
				}
			}
		}
	}
	hashes = strings.Join(out, "\n") + "\n"

	// A few reports in full.
	var texts []string
	for _, o := range []Options{
		{OutputFormat: Text, NodeCount: 4, NodeFraction: 0.05, OutputUnit: "minimum"},
		{OutputFormat: Text, CumSort: true, NodeCount: 5, NodeFraction: 0.2, OutputUnit: "minimum"},
		{OutputFormat: Tree, NodeCount: 4, NodeFraction: 0.1, EdgeFraction: 0.15, OutputUnit: "minimum"},
		{OutputFormat: Dot, NodeCount: 4, NodeFraction: 0.1, EdgeFraction: 0.05, OutputUnit: "minimum"},
		{OutputFormat: Dot, CallTree: true, NodeCount: 5, NodeFraction: 0.1, EdgeFraction: 0.05, OutputUnit: "minimum"},
		{OutputFormat: Text, NodeFraction: 3, OutputUnit: "minimum"},
	} {
		texts = append(texts, fmt.Sprintf("== format=%d calltree=%v cum=%v nodecount=%d nodefraction=%v edgefraction=%v\n%s",
			o.OutputFormat, o.CallTree, o.CumSort, o.NodeCount, o.NodeFraction, o.EdgeFraction, zzCRun(t, o)))
	}
	return hashes, strings.Join(texts, ""), full
}

func TestZZEquivCTrimmedReports(t *testing.T) {
	got, gotText, full := zzCCompute(t)
	if got != zzCWantHashes {
		gl, wl := strings.Split(got, "\n"), strings.Split(zzCWantHashes, "\n")
		for i := range gl {
			if i >= len(wl) || gl[i] != wl[i] {
				name := strings.SplitN(gl[i], ": ", 2)[0]
				t.Errorf("report differs from the recorded baseline: %s\n%s", gl[i], full[name])
			}
		}
		if !t.Failed() {
			t.Errorf("hash table differs\n--- got ---\n%s", got)
		}
	}
	if gotText != zzCWantText {
		t.Errorf("full reports differ from the recorded baseline.\n--- got ---\n%s", gotText)
	}
}

// Recorded on the unchanged tree.
const zzCWantHashes = `text cum=false nodecount=0 nodefraction=0 edgefraction=0: 3229ce525e8b28d7
text cum=false nodecount=0 nodefraction=0 edgefraction=0.3: 66c8e8711c72270a
text cum=false nodecount=0 nodefraction=0.12 edgefraction=0: 13bf697d6b5cb29a
text cum=false nodecount=0 nodefraction=0.12 edgefraction=0.3: 64004f383f170473
text cum=false nodecount=0 nodefraction=0.5 edgefraction=0: 4bef4132744f1fe6
text cum=false nodecount=0 nodefraction=0.5 edgefraction=0.3: 4bef4132744f1fe6
text cum=false nodecount=0 nodefraction=2 edgefraction=0: 07dc6066102b7500
text cum=false nodecount=0 nodefraction=2 edgefraction=0.3: 07dc6066102b7500
text cum=false nodecount=3 nodefraction=0 edgefraction=0: 00ae39df4c17b3d0
text cum=false nodecount=3 nodefraction=0 edgefraction=0.3: 00ae39df4c17b3d0
text cum=false nodecount=3 nodefraction=0.12 edgefraction=0: ef35bfdf5216a784
text cum=false nodecount=3 nodefraction=0.12 edgefraction=0.3: ef35bfdf5216a784
text cum=false nodecount=3 nodefraction=0.5 edgefraction=0: 233a1fb107ca509d
text cum=false nodecount=3 nodefraction=0.5 edgefraction=0.3: 233a1fb107ca509d
text cum=false nodecount=3 nodefraction=2 edgefraction=0: 07dc6066102b7500
text cum=false nodecount=3 nodefraction=2 edgefraction=0.3: 07dc6066102b7500
text cum=false nodecount=6 nodefraction=0 edgefraction=0: 02d6bfa7c6167dee
text cum=false nodecount=6 nodefraction=0 edgefraction=0.3: 02d6bfa7c6167dee
text cum=false nodecount=6 nodefraction=0.12 edgefraction=0: cff7c6470e57be88
text cum=false nodecount=6 nodefraction=0.12 edgefraction=0.3: cff7c6470e57be88
text cum=false nodecount=6 nodefraction=0.5 edgefraction=0: 4bef4132744f1fe6
text cum=false nodecount=6 nodefraction=0.5 edgefraction=0.3: 4bef4132744f1fe6
text cum=false nodecount=6 nodefraction=2 edgefraction=0: 07dc6066102b7500
text cum=false nodecount=6 nodefraction=2 edgefraction=0.3: 07dc6066102b7500
text cum=true nodecount=0 nodefraction=0 edgefraction=0: d9ca8b7597aa319f
text cum=true nodecount=0 nodefraction=0 edgefraction=0.3: e0f0dec4866196ef
text cum=true nodecount=0 nodefraction=0.12 edgefraction=0: 2f097eaab66a7ff2
text cum=true nodecount=0 nodefraction=0.12 edgefraction=0.3: e60d76498ae80908
text cum=true nodecount=0 nodefraction=0.5 edgefraction=0: f2e82b6cc5253ec6
text cum=true nodecount=0 nodefraction=0.5 edgefraction=0.3: f2e82b6cc5253ec6
text cum=true nodecount=0 nodefraction=2 edgefraction=0: 07dc6066102b7500
text cum=true nodecount=0 nodefraction=2 edgefraction=0.3: 07dc6066102b7500
text cum=true nodecount=3 nodefraction=0 edgefraction=0: f832af7ae1de1fad
text cum=true nodecount=3 nodefraction=0 edgefraction=0.3: f832af7ae1de1fad
text cum=true nodecount=3 nodefraction=0.12 edgefraction=0: 1ddacf3935e9093f
text cum=true nodecount=3 nodefraction=0.12 edgefraction=0.3: 1ddacf3935e9093f
text cum=true nodecount=3 nodefraction=0.5 edgefraction=0: 049111174cc1fb58
text cum=true nodecount=3 nodefraction=0.5 edgefraction=0.3: 049111174cc1fb58
text cum=true nodecount=3 nodefraction=2 edgefraction=0: 07dc6066102b7500
text cum=true nodecount=3 nodefraction=2 edgefraction=0.3: 07dc6066102b7500
text cum=true nodecount=6 nodefraction=0 edgefraction=0: 5a708444a219d4f0
text cum=true nodecount=6 nodefraction=0 edgefraction=0.3: 4a3b6b363b9a8e88
text cum=true nodecount=6 nodefraction=0.12 edgefraction=0: fa832bbfd060acc5
text cum=true nodecount=6 nodefraction=0.12 edgefraction=0.3: ca910015f103888b
text cum=true nodecount=6 nodefraction=0.5 edgefraction=0: f2e82b6cc5253ec6
text cum=true nodecount=6 nodefraction=0.5 edgefraction=0.3: f2e82b6cc5253ec6
text cum=true nodecount=6 nodefraction=2 edgefraction=0: 07dc6066102b7500
text cum=true nodecount=6 nodefraction=2 edgefraction=0.3: 07dc6066102b7500
tree cum=false nodecount=0 nodefraction=0 edgefraction=0: ab2c83eddc0b2f2c
tree cum=false nodecount=0 nodefraction=0 edgefraction=0.3: c5e4163ed5bee80d
tree cum=false nodecount=0 nodefraction=0.12 edgefraction=0: 4c847a85556d2af8
tree cum=false nodecount=0 nodefraction=0.12 edgefraction=0.3: f0ffdab5db9f0e5d
tree cum=false nodecount=0 nodefraction=0.5 edgefraction=0: 453fcb0b2202b2d6
tree cum=false nodecount=0 nodefraction=0.5 edgefraction=0.3: 993bd7f19fbc14dc
tree cum=false nodecount=0 nodefraction=2 edgefraction=0: 5493964913815e7d
tree cum=false nodecount=0 nodefraction=2 edgefraction=0.3: 5493964913815e7d
tree cum=false nodecount=3 nodefraction=0 edgefraction=0: 76afa0828c6d7202
tree cum=false nodecount=3 nodefraction=0 edgefraction=0.3: bf84fb010b4aa1b9
tree cum=false nodecount=3 nodefraction=0.12 edgefraction=0: 5b1eef3a64edc0de
tree cum=false nodecount=3 nodefraction=0.12 edgefraction=0.3: 2d02fbbc3485e2ea
tree cum=false nodecount=3 nodefraction=0.5 edgefraction=0: dcbe2ec26367b30d
tree cum=false nodecount=3 nodefraction=0.5 edgefraction=0.3: 1fddc504914e6fd8
tree cum=false nodecount=3 nodefraction=2 edgefraction=0: 5493964913815e7d
tree cum=false nodecount=3 nodefraction=2 edgefraction=0.3: 5493964913815e7d
tree cum=false nodecount=6 nodefraction=0 edgefraction=0: 921361219b1d1e43
tree cum=false nodecount=6 nodefraction=0 edgefraction=0.3: c2f8a92b5aa8eada
tree cum=false nodecount=6 nodefraction=0.12 edgefraction=0: cadba1da048cc192
tree cum=false nodecount=6 nodefraction=0.12 edgefraction=0.3: d20cf79edbe5930a
tree cum=false nodecount=6 nodefraction=0.5 edgefraction=0: 453fcb0b2202b2d6
tree cum=false nodecount=6 nodefraction=0.5 edgefraction=0.3: 993bd7f19fbc14dc
tree cum=false nodecount=6 nodefraction=2 edgefraction=0: 5493964913815e7d
tree cum=false nodecount=6 nodefraction=2 edgefraction=0.3: 5493964913815e7d
tree cum=true nodecount=0 nodefraction=0 edgefraction=0: 74a0573614b3cfd8
tree cum=true nodecount=0 nodefraction=0 edgefraction=0.3: 0360a7a569b983af
tree cum=true nodecount=0 nodefraction=0.12 edgefraction=0: 5ddfa09fbe9380cb
tree cum=true nodecount=0 nodefraction=0.12 edgefraction=0.3: 84b68907b66a0fba
tree cum=true nodecount=0 nodefraction=0.5 edgefraction=0: aee46bdb29e412db
tree cum=true nodecount=0 nodefraction=0.5 edgefraction=0.3: 5317363f7aca7ed9
tree cum=true nodecount=0 nodefraction=2 edgefraction=0: 5493964913815e7d
tree cum=true nodecount=0 nodefraction=2 edgefraction=0.3: 5493964913815e7d
tree cum=true nodecount=3 nodefraction=0 edgefraction=0: 4804f19a53a7089b
tree cum=true nodecount=3 nodefraction=0 edgefraction=0.3: cb61d195f8a7ea8f
tree cum=true nodecount=3 nodefraction=0.12 edgefraction=0: b2dc7df60b5b24cc
tree cum=true nodecount=3 nodefraction=0.12 edgefraction=0.3: de18465bed5e4fcd
tree cum=true nodecount=3 nodefraction=0.5 edgefraction=0: cc90a5b49f1dac0e
tree cum=true nodecount=3 nodefraction=0.5 edgefraction=0.3: a6d9c2bb515808ef
tree cum=true nodecount=3 nodefraction=2 edgefraction=0: 5493964913815e7d
tree cum=true nodecount=3 nodefraction=2 edgefraction=0.3: 5493964913815e7d
tree cum=true nodecount=6 nodefraction=0 edgefraction=0: cd864ab73de3043f
tree cum=true nodecount=6 nodefraction=0 edgefraction=0.3: 27464a1fbd47d112
tree cum=true nodecount=6 nodefraction=0.12 edgefraction=0: 8bfbc33dceafc4f6
tree cum=true nodecount=6 nodefraction=0.12 edgefraction=0.3: c016cb330da5a215
tree cum=true nodecount=6 nodefraction=0.5 edgefraction=0: aee46bdb29e412db
tree cum=true nodecount=6 nodefraction=0.5 edgefraction=0.3: 5317363f7aca7ed9
tree cum=true nodecount=6 nodefraction=2 edgefraction=0: 5493964913815e7d
tree cum=true nodecount=6 nodefraction=2 edgefraction=0.3: 5493964913815e7d
dot cum=false nodecount=0 nodefraction=0 edgefraction=0: 8e3a7881ab82e49b
dot cum=false nodecount=0 nodefraction=0 edgefraction=0.3: 46d125abc6a01eed
dot cum=false nodecount=0 nodefraction=0.12 edgefraction=0: b205f6f8e636748c
dot cum=false nodecount=0 nodefraction=0.12 edgefraction=0.3: 751da30db3153ffc
dot cum=false nodecount=0 nodefraction=0.5 edgefraction=0: ec5f18fb5beebc92
dot cum=false nodecount=0 nodefraction=0.5 edgefraction=0.3: b552a05edcd7d92f
dot cum=false nodecount=0 nodefraction=2 edgefraction=0: 5d720e2a0129b12b
dot cum=false nodecount=0 nodefraction=2 edgefraction=0.3: 5d720e2a0129b12b
dot cum=false nodecount=3 nodefraction=0 edgefraction=0: 33422cd318f4b780
dot cum=false nodecount=3 nodefraction=0 edgefraction=0.3: 33422cd318f4b780
dot cum=false nodecount=3 nodefraction=0.12 edgefraction=0: f886d119ab547631
dot cum=false nodecount=3 nodefraction=0.12 edgefraction=0.3: 2fa1c0406bc9c607
dot cum=false nodecount=3 nodefraction=0.5 edgefraction=0: 8a274ea0dda6120e
dot cum=false nodecount=3 nodefraction=0.5 edgefraction=0.3: 8a274ea0dda6120e
dot cum=false nodecount=3 nodefraction=2 edgefraction=0: 5d720e2a0129b12b
dot cum=false nodecount=3 nodefraction=2 edgefraction=0.3: 5d720e2a0129b12b
dot cum=false nodecount=6 nodefraction=0 edgefraction=0: fcff564a58a17a95
dot cum=false nodecount=6 nodefraction=0 edgefraction=0.3: 88505009743b57ab
dot cum=false nodecount=6 nodefraction=0.12 edgefraction=0: 715cf21f8a35ae50
dot cum=false nodecount=6 nodefraction=0.12 edgefraction=0.3: b1348b6d96ec3163
dot cum=false nodecount=6 nodefraction=0.5 edgefraction=0: ec5f18fb5beebc92
dot cum=false nodecount=6 nodefraction=0.5 edgefraction=0.3: cb9e6a6d04ff0575
dot cum=false nodecount=6 nodefraction=2 edgefraction=0: 5d720e2a0129b12b
dot cum=false nodecount=6 nodefraction=2 edgefraction=0.3: 5d720e2a0129b12b
dot cum=true nodecount=0 nodefraction=0 edgefraction=0: 8e3a7881ab82e49b
dot cum=true nodecount=0 nodefraction=0 edgefraction=0.3: 46d125abc6a01eed
dot cum=true nodecount=0 nodefraction=0.12 edgefraction=0: b205f6f8e636748c
dot cum=true nodecount=0 nodefraction=0.12 edgefraction=0.3: 751da30db3153ffc
dot cum=true nodecount=0 nodefraction=0.5 edgefraction=0: ec5f18fb5beebc92
dot cum=true nodecount=0 nodefraction=0.5 edgefraction=0.3: b552a05edcd7d92f
dot cum=true nodecount=0 nodefraction=2 edgefraction=0: 5d720e2a0129b12b
dot cum=true nodecount=0 nodefraction=2 edgefraction=0.3: 5d720e2a0129b12b
dot cum=true nodecount=3 nodefraction=0 edgefraction=0: 33422cd318f4b780
dot cum=true nodecount=3 nodefraction=0 edgefraction=0.3: 33422cd318f4b780
dot cum=true nodecount=3 nodefraction=0.12 edgefraction=0: f886d119ab547631
dot cum=true nodecount=3 nodefraction=0.12 edgefraction=0.3: 2fa1c0406bc9c607
dot cum=true nodecount=3 nodefraction=0.5 edgefraction=0: 8a274ea0dda6120e
dot cum=true nodecount=3 nodefraction=0.5 edgefraction=0.3: 8a274ea0dda6120e
dot cum=true nodecount=3 nodefraction=2 edgefraction=0: 5d720e2a0129b12b
dot cum=true nodecount=3 nodefraction=2 edgefraction=0.3: 5d720e2a0129b12b
dot cum=true nodecount=6 nodefraction=0 edgefraction=0: fcff564a58a17a95
dot cum=true nodecount=6 nodefraction=0 edgefraction=0.3: 88505009743b57ab
dot cum=true nodecount=6 nodefraction=0.12 edgefraction=0: 715cf21f8a35ae50
dot cum=true nodecount=6 nodefraction=0.12 edgefraction=0.3: b1348b6d96ec3163
dot cum=true nodecount=6 nodefraction=0.5 edgefraction=0: ec5f18fb5beebc92
dot cum=true nodecount=6 nodefraction=0.5 edgefraction=0.3: cb9e6a6d04ff0575
dot cum=true nodecount=6 nodefraction=2 edgefraction=0: 5d720e2a0129b12b
dot cum=true nodecount=6 nodefraction=2 edgefraction=0.3: 5d720e2a0129b12b
dot-calltree cum=false nodecount=0 nodefraction=0 edgefraction=0: 98851c34a0cd284b
dot-calltree cum=false nodecount=0 nodefraction=0 edgefraction=0.3: 0da4a389c0d6bbc3
dot-calltree cum=false nodecount=0 nodefraction=0.12 edgefraction=0: 37df42127903a7a4
dot-calltree cum=false nodecount=0 nodefraction=0.12 edgefraction=0.3: 3afab2d9512e427e
dot-calltree cum=false nodecount=0 nodefraction=0.5 edgefraction=0: f7b6c48e0f3012f8
dot-calltree cum=false nodecount=0 nodefraction=0.5 edgefraction=0.3: f7b6c48e0f3012f8
dot-calltree cum=false nodecount=0 nodefraction=2 edgefraction=0: 0cf842574a1f2596
dot-calltree cum=false nodecount=0 nodefraction=2 edgefraction=0.3: 0cf842574a1f2596
dot-calltree cum=false nodecount=3 nodefraction=0 edgefraction=0: 817a9854c48e01b3
dot-calltree cum=false nodecount=3 nodefraction=0 edgefraction=0.3: 817a9854c48e01b3
dot-calltree cum=false nodecount=3 nodefraction=0.12 edgefraction=0: a44cf9c224f9b867
dot-calltree cum=false nodecount=3 nodefraction=0.12 edgefraction=0.3: a44cf9c224f9b867
dot-calltree cum=false nodecount=3 nodefraction=0.5 edgefraction=0: 660b8190cbc252e0
dot-calltree cum=false nodecount=3 nodefraction=0.5 edgefraction=0.3: 660b8190cbc252e0
dot-calltree cum=false nodecount=3 nodefraction=2 edgefraction=0: 0cf842574a1f2596
dot-calltree cum=false nodecount=3 nodefraction=2 edgefraction=0.3: 0cf842574a1f2596
dot-calltree cum=false nodecount=6 nodefraction=0 edgefraction=0: 4e564e3a7c8343f2
dot-calltree cum=false nodecount=6 nodefraction=0 edgefraction=0.3: 615a4c01aab2d3bd
dot-calltree cum=false nodecount=6 nodefraction=0.12 edgefraction=0: 1f01ca6d13090fda
dot-calltree cum=false nodecount=6 nodefraction=0.12 edgefraction=0.3: be327eaaec7c474b
dot-calltree cum=false nodecount=6 nodefraction=0.5 edgefraction=0: f7b6c48e0f3012f8
dot-calltree cum=false nodecount=6 nodefraction=0.5 edgefraction=0.3: f7b6c48e0f3012f8
dot-calltree cum=false nodecount=6 nodefraction=2 edgefraction=0: 0cf842574a1f2596
dot-calltree cum=false nodecount=6 nodefraction=2 edgefraction=0.3: 0cf842574a1f2596
dot-calltree cum=true nodecount=0 nodefraction=0 edgefraction=0: 98851c34a0cd284b
dot-calltree cum=true nodecount=0 nodefraction=0 edgefraction=0.3: 0da4a389c0d6bbc3
dot-calltree cum=true nodecount=0 nodefraction=0.12 edgefraction=0: 37df42127903a7a4
dot-calltree cum=true nodecount=0 nodefraction=0.12 edgefraction=0.3: 3afab2d9512e427e
dot-calltree cum=true nodecount=0 nodefraction=0.5 edgefraction=0: f7b6c48e0f3012f8
dot-calltree cum=true nodecount=0 nodefraction=0.5 edgefraction=0.3: f7b6c48e0f3012f8
dot-calltree cum=true nodecount=0 nodefraction=2 edgefraction=0: 0cf842574a1f2596
dot-calltree cum=true nodecount=0 nodefraction=2 edgefraction=0.3: 0cf842574a1f2596
dot-calltree cum=true nodecount=3 nodefraction=0 edgefraction=0: 817a9854c48e01b3
dot-calltree cum=true nodecount=3 nodefraction=0 edgefraction=0.3: 817a9854c48e01b3
dot-calltree cum=true nodecount=3 nodefraction=0.12 edgefraction=0: a44cf9c224f9b867
dot-calltree cum=true nodecount=3 nodefraction=0.12 edgefraction=0.3: a44cf9c224f9b867
dot-calltree cum=true nodecount=3 nodefraction=0.5 edgefraction=0: 660b8190cbc252e0
dot-calltree cum=true nodecount=3 nodefraction=0.5 edgefraction=0.3: 660b8190cbc252e0
dot-calltree cum=true nodecount=3 nodefraction=2 edgefraction=0: 0cf842574a1f2596
dot-calltree cum=true nodecount=3 nodefraction=2 edgefraction=0.3: 0cf842574a1f2596
dot-calltree cum=true nodecount=6 nodefraction=0 edgefraction=0: 4e564e3a7c8343f2
dot-calltree cum=true nodecount=6 nodefraction=0 edgefraction=0.3: 615a4c01aab2d3bd
dot-calltree cum=true nodecount=6 nodefraction=0.12 edgefraction=0: 1f01ca6d13090fda
dot-calltree cum=true nodecount=6 nodefraction=0.12 edgefraction=0.3: be327eaaec7c474b
dot-calltree cum=true nodecount=6 nodefraction=0.5 edgefraction=0: f7b6c48e0f3012f8
dot-calltree cum=true nodecount=6 nodefraction=0.5 edgefraction=0.3: f7b6c48e0f3012f8
dot-calltree cum=true nodecount=6 nodefraction=2 edgefraction=0: 0cf842574a1f2596
dot-calltree cum=true nodecount=6 nodefraction=2 edgefraction=0.3: 0cf842574a1f2596
callgrind cum=false nodecount=0 nodefraction=0 edgefraction=0: af3899a79834ace7
callgrind cum=false nodecount=0 nodefraction=0 edgefraction=0.3: af3899a79834ace7
callgrind cum=false nodecount=0 nodefraction=0.12 edgefraction=0: af3899a79834ace7
callgrind cum=false nodecount=0 nodefraction=0.12 edgefraction=0.3: af3899a79834ace7
callgrind cum=false nodecount=0 nodefraction=0.5 edgefraction=0: af3899a79834ace7
callgrind cum=false nodecount=0 nodefraction=0.5 edgefraction=0.3: af3899a79834ace7
callgrind cum=false nodecount=0 nodefraction=2 edgefraction=0: af3899a79834ace7
callgrind cum=false nodecount=0 nodefraction=2 edgefraction=0.3: af3899a79834ace7
callgrind cum=false nodecount=3 nodefraction=0 edgefraction=0: af3899a79834ace7
callgrind cum=false nodecount=3 nodefraction=0 edgefraction=0.3: af3899a79834ace7
callgrind cum=false nodecount=3 nodefraction=0.12 edgefraction=0: af3899a79834ace7
callgrind cum=false nodecount=3 nodefraction=0.12 edgefraction=0.3: af3899a79834ace7
callgrind cum=false nodecount=3 nodefraction=0.5 edgefraction=0: af3899a79834ace7
callgrind cum=false nodecount=3 nodefraction=0.5 edgefraction=0.3: af3899a79834ace7
callgrind cum=false nodecount=3 nodefraction=2 edgefraction=0: af3899a79834ace7
callgrind cum=false nodecount=3 nodefraction=2 edgefraction=0.3: af3899a79834ace7
callgrind cum=false nodecount=6 nodefraction=0 edgefraction=0: af3899a79834ace7
callgrind cum=false nodecount=6 nodefraction=0 edgefraction=0.3: af3899a79834ace7
callgrind cum=false nodecount=6 nodefraction=0.12 edgefraction=0: af3899a79834ace7
callgrind cum=false nodecount=6 nodefraction=0.12 edgefraction=0.3: af3899a79834ace7
callgrind cum=false nodecount=6 nodefraction=0.5 edgefraction=0: af3899a79834ace7
callgrind cum=false nodecount=6 nodefraction=0.5 edgefraction=0.3: af3899a79834ace7
callgrind cum=false nodecount=6 nodefraction=2 edgefraction=0: af3899a79834ace7
callgrind cum=false nodecount=6 nodefraction=2 edgefraction=0.3: af3899a79834ace7
callgrind cum=true nodecount=0 nodefraction=0 edgefraction=0: 049523c0e53ec304
callgrind cum=true nodecount=0 nodefraction=0 edgefraction=0.3: 049523c0e53ec304
callgrind cum=true nodecount=0 nodefraction=0.12 edgefraction=0: 049523c0e53ec304
callgrind cum=true nodecount=0 nodefraction=0.12 edgefraction=0.3: 049523c0e53ec304
callgrind cum=true nodecount=0 nodefraction=0.5 edgefraction=0: 049523c0e53ec304
callgrind cum=true nodecount=0 nodefraction=0.5 edgefraction=0.3: 049523c0e53ec304
callgrind cum=true nodecount=0 nodefraction=2 edgefraction=0: 049523c0e53ec304
callgrind cum=true nodecount=0 nodefraction=2 edgefraction=0.3: 049523c0e53ec304
callgrind cum=true nodecount=3 nodefraction=0 edgefraction=0: 049523c0e53ec304
callgrind cum=true nodecount=3 nodefraction=0 edgefraction=0.3: 049523c0e53ec304
callgrind cum=true nodecount=3 nodefraction=0.12 edgefraction=0: 049523c0e53ec304
callgrind cum=true nodecount=3 nodefraction=0.12 edgefraction=0.3: 049523c0e53ec304
callgrind cum=true nodecount=3 nodefraction=0.5 edgefraction=0: 049523c0e53ec304
callgrind cum=true nodecount=3 nodefraction=0.5 edgefraction=0.3: 049523c0e53ec304
callgrind cum=true nodecount=3 nodefraction=2 edgefraction=0: 049523c0e53ec304
callgrind cum=true nodecount=3 nodefraction=2 edgefraction=0.3: 049523c0e53ec304
callgrind cum=true nodecount=6 nodefraction=0 edgefraction=0: 049523c0e53ec304
callgrind cum=true nodecount=6 nodefraction=0 edgefraction=0.3: 049523c0e53ec304
callgrind cum=true nodecount=6 nodefraction=0.12 edgefraction=0: 049523c0e53ec304
callgrind cum=true nodecount=6 nodefraction=0.12 edgefraction=0.3: 049523c0e53ec304
callgrind cum=true nodecount=6 nodefraction=0.5 edgefraction=0: 049523c0e53ec304
callgrind cum=true nodecount=6 nodefraction=0.5 edgefraction=0.3: 049523c0e53ec304
callgrind cum=true nodecount=6 nodefraction=2 edgefraction=0: 049523c0e53ec304
callgrind cum=true nodecount=6 nodefraction=2 edgefraction=0.3: 049523c0e53ec304
callgrind-calltree cum=false nodecount=0 nodefraction=0 edgefraction=0: a1de0aabbbe1ee83
callgrind-calltree cum=false nodecount=0 nodefraction=0 edgefraction=0.3: a1de0aabbbe1ee83
callgrind-calltree cum=false nodecount=0 nodefraction=0.12 edgefraction=0: a1de0aabbbe1ee83
callgrind-calltree cum=false nodecount=0 nodefraction=0.12 edgefraction=0.3: a1de0aabbbe1ee83
callgrind-calltree cum=false nodecount=0 nodefraction=0.5 edgefraction=0: a1de0aabbbe1ee83
callgrind-calltree cum=false nodecount=0 nodefraction=0.5 edgefraction=0.3: a1de0aabbbe1ee83
callgrind-calltree cum=false nodecount=0 nodefraction=2 edgefraction=0: a1de0aabbbe1ee83
callgrind-calltree cum=false nodecount=0 nodefraction=2 edgefraction=0.3: a1de0aabbbe1ee83
callgrind-calltree cum=false nodecount=3 nodefraction=0 edgefraction=0: a1de0aabbbe1ee83
callgrind-calltree cum=false nodecount=3 nodefraction=0 edgefraction=0.3: a1de0aabbbe1ee83
callgrind-calltree cum=false nodecount=3 nodefraction=0.12 edgefraction=0: a1de0aabbbe1ee83
callgrind-calltree cum=false nodecount=3 nodefraction=0.12 edgefraction=0.3: a1de0aabbbe1ee83
callgrind-calltree cum=false nodecount=3 nodefraction=0.5 edgefraction=0: a1de0aabbbe1ee83
callgrind-calltree cum=false nodecount=3 nodefraction=0.5 edgefraction=0.3: a1de0aabbbe1ee83
callgrind-calltree cum=false nodecount=3 nodefraction=2 edgefraction=0: a1de0aabbbe1ee83
callgrind-calltree cum=false nodecount=3 nodefraction=2 edgefraction=0.3: a1de0aabbbe1ee83
callgrind-calltree cum=false nodecount=6 nodefraction=0 edgefraction=0: a1de0aabbbe1ee83
callgrind-calltree cum=false nodecount=6 nodefraction=0 edgefraction=0.3: a1de0aabbbe1ee83
callgrind-calltree cum=false nodecount=6 nodefraction=0.12 edgefraction=0: a1de0aabbbe1ee83
callgrind-calltree cum=false nodecount=6 nodefraction=0.12 edgefraction=0.3: a1de0aabbbe1ee83
callgrind-calltree cum=false nodecount=6 nodefraction=0.5 edgefraction=0: a1de0aabbbe1ee83
callgrind-calltree cum=false nodecount=6 nodefraction=0.5 edgefraction=0.3: a1de0aabbbe1ee83
callgrind-calltree cum=false nodecount=6 nodefraction=2 edgefraction=0: a1de0aabbbe1ee83
callgrind-calltree cum=false nodecount=6 nodefraction=2 edgefraction=0.3: a1de0aabbbe1ee83
callgrind-calltree cum=true nodecount=0 nodefraction=0 edgefraction=0: b592252dd4b4e67c
callgrind-calltree cum=true nodecount=0 nodefraction=0 edgefraction=0.3: b592252dd4b4e67c
callgrind-calltree cum=true nodecount=0 nodefraction=0.12 edgefraction=0: b592252dd4b4e67c
callgrind-calltree cum=true nodecount=0 nodefraction=0.12 edgefraction=0.3: b592252dd4b4e67c
callgrind-calltree cum=true nodecount=0 nodefraction=0.5 edgefraction=0: b592252dd4b4e67c
callgrind-calltree cum=true nodecount=0 nodefraction=0.5 edgefraction=0.3: b592252dd4b4e67c
callgrind-calltree cum=true nodecount=0 nodefraction=2 edgefraction=0: b592252dd4b4e67c
callgrind-calltree cum=true nodecount=0 nodefraction=2 edgefraction=0.3: b592252dd4b4e67c
callgrind-calltree cum=true nodecount=3 nodefraction=0 edgefraction=0: b592252dd4b4e67c
callgrind-calltree cum=true nodecount=3 nodefraction=0 edgefraction=0.3: b592252dd4b4e67c
callgrind-calltree cum=true nodecount=3 nodefraction=0.12 edgefraction=0: b592252dd4b4e67c
callgrind-calltree cum=true nodecount=3 nodefraction=0.12 edgefraction=0.3: b592252dd4b4e67c
callgrind-calltree cum=true nodecount=3 nodefraction=0.5 edgefraction=0: b592252dd4b4e67c
callgrind-calltree cum=true nodecount=3 nodefraction=0.5 edgefraction=0.3: b592252dd4b4e67c
callgrind-calltree cum=true nodecount=3 nodefraction=2 edgefraction=0: b592252dd4b4e67c
callgrind-calltree cum=true nodecount=3 nodefraction=2 edgefraction=0.3: b592252dd4b4e67c
callgrind-calltree cum=true nodecount=6 nodefraction=0 edgefraction=0: b592252dd4b4e67c
callgrind-calltree cum=true nodecount=6 nodefraction=0 edgefraction=0.3: b592252dd4b4e67c
callgrind-calltree cum=true nodecount=6 nodefraction=0.12 edgefraction=0: b592252dd4b4e67c
callgrind-calltree cum=true nodecount=6 nodefraction=0.12 edgefraction=0.3: b592252dd4b4e67c
callgrind-calltree cum=true nodecount=6 nodefraction=0.5 edgefraction=0: b592252dd4b4e67c
callgrind-calltree cum=true nodecount=6 nodefraction=0.5 edgefraction=0.3: b592252dd4b4e67c
callgrind-calltree cum=true nodecount=6 nodefraction=2 edgefraction=0: b592252dd4b4e67c
callgrind-calltree cum=true nodecount=6 nodefraction=2 edgefraction=0.3: b592252dd4b4e67c
`

const zzCWantText = `== format=8 calltree=false cum=false nodecount=4 nodefraction=0.05 edgefraction=0
Type: cpu
Showing nodes accounting for 470ms, 67.14% of 700ms total
Showing top 4 nodes out of 8
      flat  flat%   sum%        cum   cum%
     280ms 40.00% 40.00%      430ms 61.43%  c /src/c.go:13
     205ms 29.29% 69.29%      230ms 32.86%  e /src/e.go:15
     -70ms 10.00% 59.29%      -70ms 10.00%  f /src/f.go:16
      55ms  7.86% 67.14%      110ms 15.71%  d /src/d.go:14
== format=8 calltree=false cum=true nodecount=5 nodefraction=0.2 edgefraction=0
Type: cpu
Showing nodes accounting for 535ms, 76.43% of 700ms total
Dropped 2 nodes (cum <= 140ms)
Showing top 5 nodes out of 6
      flat  flat%   sum%        cum   cum%
      10ms  1.43%  1.43%      595ms 85.00%  main /src/main.go:10
         0     0%  1.43%      500ms 71.43%  b /src/b.go:12
      40ms  5.71%  7.14%      465ms 66.43%  a /src/a.go:11
     280ms 40.00% 47.14%      430ms 61.43%  c /src/c.go:13
     205ms 29.29% 76.43%      230ms 32.86%  e /src/e.go:15 (partial-inline)
== format=11 calltree=false cum=false nodecount=4 nodefraction=0.1 edgefraction=0.15
Type: cpu
Showing nodes accounting for 470ms, 67.14% of 700ms total
Showing top 4 nodes out of 8
----------------------------------------------------------+-------------
      flat  flat%   sum%        cum   cum%   calls calls% + context 	 	 
----------------------------------------------------------+-------------
     280ms 40.00% 40.00%      430ms 61.43%                | c /src/c.go:13
                                             150ms 34.88% |   e /src/e.go:15
----------------------------------------------------------+-------------
                                             150ms 65.22% |   c /src/c.go:13
     205ms 29.29% 69.29%      230ms 32.86%                | e /src/e.go:15
----------------------------------------------------------+-------------
     -70ms 10.00% 59.29%      -70ms 10.00%                | f /src/f.go:16
----------------------------------------------------------+-------------
      55ms  7.86% 67.14%      110ms 15.71%                | d /src/d.go:14
----------------------------------------------------------+-------------
== format=3 calltree=false cum=false nodecount=4 nodefraction=0.1 edgefraction=0.05
digraph "unnamed" {
node [style=filled fillcolor="#f8f8f8"]
subgraph cluster_L { "Type: cpu" [shape=box fontsize=16 label="Type: cpu\lShowing nodes accounting for -60ms, 8.57% of 700ms total\lDropped 1 edge (freq <= 35ms)\lShowing top 2 nodes out of 8\l\lSee https://git.io/JfYMW for how to read the graph\l"] }
N1 [label="main\nmain.go:10\n10ms (1.43%)\nof 595ms (85.00%)" id="node1" fontsize=15 shape=box tooltip="main /src/main.go:10 (595ms)" color="#b20800" fillcolor="#edd6d5"]
N1_0 [label = "k:x" id="N1_0" fontsize=8 shape=box3d tooltip="110ms"]
N1 -> N1_0 [label=" 110ms" weight=100 tooltip="110ms" labeltooltip="110ms"]
NN1_0_0 [label = "16" id="NN1_0_0" fontsize=8 shape=box3d tooltip="110ms"]
N1_0 -> NN1_0_0 [label=" 110ms" weight=100 tooltip="110ms" labeltooltip="110ms" style="dotted"]
N2 [label="f\nf.go:16\n-70ms (10.00%)" id="node2" fontsize=24 shape=box tooltip="f /src/f.go:16 (-70ms)" color="#85b259" fillcolor="#e7ede1"]
N2_0 [label = "k:yy" id="N2_0" fontsize=8 shape=box3d tooltip="-80ms"]
N2 -> N2_0 [label=" -80ms" weight=100 tooltip="-80ms" labeltooltip="-80ms"]
NN2_0_0 [label = "32" id="NN2_0_0" fontsize=8 shape=box3d tooltip="-80ms"]
N2_0 -> NN2_0_0 [label=" -80ms" weight=100 tooltip="-80ms" labeltooltip="-80ms"]
}
== format=3 calltree=true cum=false nodecount=5 nodefraction=0.1 edgefraction=0.05
digraph "unnamed" {
node [style=filled fillcolor="#f8f8f8"]
subgraph cluster_L { "Type: cpu" [shape=box fontsize=16 label="Type: cpu\lShowing nodes accounting for 200ms, 28.57% of 700ms total\lDropped 6 nodes (cum <= 70ms)\lShowing top 3 nodes out of 12\l\lSee https://git.io/JfYMW for how to read the graph\l"] }
N1 [label="main\nmain.go:10\n10ms (1.43%)\nof 595ms (85.00%)" id="node1" fontsize=12 shape=box tooltip="main /src/main.go:10 (595ms)" color="#b20800" fillcolor="#edd6d5"]
N2 [label="c\nc.go:13\n170ms (24.29%)\nof 320ms (45.71%)" id="node2" fontsize=24 shape=box tooltip="c /src/c.go:13 (320ms)" color="#b22500" fillcolor="#eddad5"]
N2_0 [label = "k:x" id="N2_0" fontsize=8 shape=box3d tooltip="70ms"]
N2 -> N2_0 [label=" 70ms" weight=100 tooltip="70ms" labeltooltip="70ms"]
NN2_0_0 [label = "16" id="NN2_0_0" fontsize=8 shape=box3d tooltip="70ms"]
N2_0 -> NN2_0_0 [label=" 70ms" weight=100 tooltip="70ms" labeltooltip="70ms"]
N3 [label="g\ng.go:17\n20ms (2.86%)\nof -55ms (7.86%)" id="node3" fontsize=14 shape=box tooltip="g /src/g.go:17 (-55ms)" color="#91b26c" fillcolor="#e8ede3"]
N3_0 [label = "k:yy" id="N3_0" fontsize=8 shape=box3d tooltip="-80ms"]
N3 -> N3_0 [label=" -80ms" weight=100 tooltip="-80ms" labeltooltip="-80ms"]
NN3_0_0 [label = "32" id="NN3_0_0" fontsize=8 shape=box3d tooltip="-80ms"]
N3_0 -> NN3_0_0 [label=" -80ms" weight=100 tooltip="-80ms" labeltooltip="-80ms" style="dotted"]
N1 -> N2 [label=" 320ms" weight=46 penwidth=3 color="#b22500" tooltip="main /src/main.go:10 ... c /src/c.go:13 (320ms)" labeltooltip="main /src/main.go:10 ... c /src/c.go:13 (320ms)" style="dotted"]
}
== format=8 calltree=false cum=false nodecount=0 nodefraction=3 edgefraction=0
Type: cpu
Showing nodes accounting for 0, 0% of 700ms total
Dropped 8 nodes (cum <= 2.10s)
      flat  flat%   sum%        cum   cum%
`
