package driver

import (
	"fmt"
	"io"
	"os"
	"strings"
	"testing"

	"github.com/google/pprof/internal/plugin"
	"github.com/google/pprof/profile"
)

// zzEquivBUI is a scripted plugin.UI that records everything printed.
type zzEquivBUI struct {
	lines []string
	log   *strings.Builder
}

func (u *zzEquivBUI) ReadLine(string) (string, error) {
	if len(u.lines) == 0 {
		return "", io.EOF
	}
	l := u.lines[0]
	u.lines = u.lines[1:]
	fmt.Fprintf(u.log, "> %q\n", l)
	return l, nil
}
func (u *zzEquivBUI) Print(args ...interface{}) {}
func (u *zzEquivBUI) PrintErr(args ...interface{}) {
	fmt.Fprintf(u.log, "  err: %q\n", fmt.Sprint(args...))
}
func (u *zzEquivBUI) IsTerminal() bool                    { return false }
func (u *zzEquivBUI) WantBrowser() bool                   { return false }
func (u *zzEquivBUI) SetAutoComplete(func(string) string) {}

var zzEquivBLines = []string{
	"top", "top10", "top 10", "top010", "top0", "top-5", "top+5", "top10 20", "top10 main", "top10 -foo >out",
	"top99999999999", "top2147483648", "top2147483647", "text5", "tree3 -cum", "tree3 --cum", "list5", "list 5",
	"list5 6", "list", "peek12 x", "disasm0", "weblist7", "weblist", "tags3 a -b", "tags", "tags 5 k:v -k:w > f",
	"traces1", "raw2", "dot1", "svg20 >x.svg", "proto3 >", "proto >", "proto > p.pb", "web123abc", "web123 abc",
	"x9", "9", "123", "0", "top१०", "top１０", "top10x", "top1_0", "top1.5", "top10\u00a0", "nodecount5",
	"nodecount", "nodecount 7", "focus9 a", "focus", "sort3", "cum3", "unknown", "unknown12", "12unknown34",
	"TOP10", "Top", "topproto5", "top_5", "o1", "help2", "quit1", "callgrind0001", "ps2pdf", "ps2", "gv 0 -x -y z",
	"top - -- ---", "top > >", "top >a >b", "top 1 2 3", "top -1", "top -0", "top --5", "top a|b (", "=", "top=",
	"\x00top1", "top1\x00", "top\xff9", "kcachegrind42 f -g", "eog7", "evince007", "gif9 >g.gif", "png", "pdf1 x",
	"comments9", "comments",
}

func zzEquivBDigest(t *testing.T) string {
	saved := currentConfig()
	defer setCurrentConfig(saved)
	setCurrentConfig(defaultConfig())

	var b strings.Builder
	for _, line := range zzEquivBLines {
		tokens := strings.Fields(line)
		if len(tokens) == 0 {
			continue
		}
		in := append([]string{}, tokens...)
		cmd, cfg, err := parseCommandLine(in)
		fmt.Fprintf(&b, "%q -> ", line)
		if err != nil {
			fmt.Fprintf(&b, "cmd=%q err=%q", cmd, err.Error())
		} else {
			fmt.Fprintf(&b, "cmd=%q n=%d out=%q sort=%q f=%q i=%q tf=%q ti=%q", cmd,
				cfg.NodeCount, cfg.Output, cfg.Sort, cfg.Focus, cfg.Ignore, cfg.TagFocus, cfg.TagIgnore)
		}
		// parseCommandLine may rewrite its input in place (top10 -> top).
		fmt.Fprintf(&b, " in=%q\n", in)
	}

	// A scripted interactive session: every line must be answered with either
	// a report request or an error, and the loop must reach "quit".
	savedHelp, savedMode, savedWrapper := configHelp["sample_index"], interactiveMode, generateReportWrapper
	defer func() {
		configHelp["sample_index"], interactiveMode, generateReportWrapper = savedHelp, savedMode, savedWrapper
	}()
	generateReportWrapper = func(p *profile.Profile, cmd []string, cfg config, o *plugin.Options) error {
		fmt.Fprintf(&b, "  report: cmd=%q n=%d f=%q i=%q\n", cmd, cfg.NodeCount, cfg.Focus, cfg.Ignore)
		return nil
	}
	fn := &profile.Function{ID: 1, Name: "main", SystemName: "main", Filename: "main.go"}
	loc := &profile.Location{ID: 1, Address: 0x1000, Line: []profile.Line{{Function: fn, Line: 3}}}
	p := &profile.Profile{
		SampleType: []*profile.ValueType{{Type: "samples", Unit: "count"}, {Type: "cpu", Unit: "nanoseconds"}},
		Sample:     []*profile.Sample{{Location: []*profile.Location{loc}, Value: []int64{1, 1000}}},
		Location:   []*profile.Location{loc},
		Function:   []*profile.Function{fn},
	}
	ui := &zzEquivBUI{log: &b}
	ui.lines = append(ui.lines, zzEquivBLines...)
	ui.lines = append(ui.lines, "nodecount=3", "top", "top7", "samples", "quit", "top-after-quit")
	o := &plugin.Options{UI: ui}
	err := interactive(p, o)
	fmt.Fprintf(&b, "interactive returned %v, unread=%q\n", err, ui.lines)
	return b.String()
}

func TestZZEquivB(t *testing.T) {
	got := zzEquivBDigest(t)
	if out := os.Getenv("ZZ_EQUIV_WRITE"); out != "" {
		if err := os.WriteFile(out, []byte(got), 0o644); err != nil {
			t.Fatal(err)
		}
		return
	}
	if got != zzEquivBWant {
		gl, wl := strings.Split(got, "\n"), strings.Split(zzEquivBWant, "\n")
		for i := 0; i < len(gl) && i < len(wl); i++ {
			if gl[i] != wl[i] {
				t.Errorf("line %d:\n got  %s\n want %s", i, gl[i], wl[i])
			}
		}
		t.Fatalf("digest differs (got %d lines, want %d)", len(gl), len(wl))
	}
}

// Expected digest, computed on the unchanged tree.
var zzEquivBWant = strings.Join([]string{
	"\"top\" -> cmd=[\"top\"] n=10 out=\"\" sort=\"flat\" f=\"\" i=\"\" tf=\"\" ti=\"\" in=[\"top\"]",
	"\"top10\" -> cmd=[\"top\"] n=10 out=\"\" sort=\"flat\" f=\"\" i=\"\" tf=\"\" ti=\"\" in=[\"top\"]",
	"\"top 10\" -> cmd=[\"top\"] n=10 out=\"\" sort=\"flat\" f=\"\" i=\"\" tf=\"\" ti=\"\" in=[\"top\" \"10\"]",
	"\"top010\" -> cmd=[\"top\"] n=10 out=\"\" sort=\"flat\" f=\"\" i=\"\" tf=\"\" ti=\"\" in=[\"top\"]",
	"\"top0\" -> cmd=[\"top\"] n=0 out=\"\" sort=\"flat\" f=\"\" i=\"\" tf=\"\" ti=\"\" in=[\"top\"]",
	"\"top-5\" -> cmd=[] err=\"unrecognized command: \\\"top-\\\"\" in=[\"top-\"]",
	"\"top+5\" -> cmd=[] err=\"unrecognized command: \\\"top+\\\"\" in=[\"top+\"]",
	"\"top10 20\" -> cmd=[\"top\"] n=20 out=\"\" sort=\"flat\" f=\"\" i=\"\" tf=\"\" ti=\"\" in=[\"top\" \"20\"]",
	"\"top10 main\" -> cmd=[\"top\"] n=10 out=\"\" sort=\"flat\" f=\"main\" i=\"\" tf=\"\" ti=\"\" in=[\"top\" \"main\"]",
	"\"top10 -foo >out\" -> cmd=[\"top\"] n=10 out=\"out\" sort=\"flat\" f=\"\" i=\"foo\" tf=\"\" ti=\"\" in=[\"top\" \"-foo\" \">out\"]",
	"\"top99999999999\" -> cmd=[\"top\"] n=10 out=\"\" sort=\"flat\" f=\"99999999999\" i=\"\" tf=\"\" ti=\"\" in=[\"top\"]",
	"\"top2147483648\" -> cmd=[\"top\"] n=10 out=\"\" sort=\"flat\" f=\"2147483648\" i=\"\" tf=\"\" ti=\"\" in=[\"top\"]",
	"\"top2147483647\" -> cmd=[\"top\"] n=2147483647 out=\"\" sort=\"flat\" f=\"\" i=\"\" tf=\"\" ti=\"\" in=[\"top\"]",
	"\"text5\" -> cmd=[\"text\"] n=5 out=\"\" sort=\"flat\" f=\"\" i=\"\" tf=\"\" ti=\"\" in=[\"text\"]",
	"\"tree3 -cum\" -> cmd=[\"tree\"] n=3 out=\"\" sort=\"cum\" f=\"\" i=\"\" tf=\"\" ti=\"\" in=[\"tree\" \"-cum\"]",
	"\"tree3 --cum\" -> cmd=[\"tree\"] n=3 out=\"\" sort=\"cum\" f=\"\" i=\"\" tf=\"\" ti=\"\" in=[\"tree\" \"--cum\"]",
	"\"list5\" -> cmd=[\"list\" \"5\"] n=-1 out=\"\" sort=\"flat\" f=\"\" i=\"\" tf=\"\" ti=\"\" in=[\"list\"]",
	"\"list 5\" -> cmd=[\"list\" \"5\"] n=-1 out=\"\" sort=\"flat\" f=\"\" i=\"\" tf=\"\" ti=\"\" in=[\"list\" \"5\"]",
	"\"list5 6\" -> cmd=[\"list\" \"5\"] n=6 out=\"\" sort=\"flat\" f=\"\" i=\"\" tf=\"\" ti=\"\" in=[\"list\" \"5\"]",
	"\"list\" -> cmd=[] err=\"command list requires an argument\" in=[\"list\"]",
	"\"peek12 x\" -> cmd=[\"peek\" \"12\"] n=-1 out=\"\" sort=\"flat\" f=\"x\" i=\"\" tf=\"\" ti=\"\" in=[\"peek\" \"12\"]",
	"\"disasm0\" -> cmd=[\"disasm\" \"0\"] n=-1 out=\"\" sort=\"flat\" f=\"\" i=\"\" tf=\"\" ti=\"\" in=[\"disasm\"]",
	"\"weblist7\" -> cmd=[\"weblist\" \"7\"] n=-1 out=\"\" sort=\"flat\" f=\"\" i=\"\" tf=\"\" ti=\"\" in=[\"weblist\"]",
	"\"weblist\" -> cmd=[] err=\"command weblist requires an argument\" in=[\"weblist\"]",
	"\"tags3 a -b\" -> cmd=[\"tags\"] n=3 out=\"\" sort=\"flat\" f=\"\" i=\"\" tf=\"a\" ti=\"b\" in=[\"tags\" \"a\" \"-b\"]",
	"\"tags\" -> cmd=[\"tags\"] n=-1 out=\"\" sort=\"flat\" f=\"\" i=\"\" tf=\"\" ti=\"\" in=[\"tags\"]",
	"\"tags 5 k:v -k:w > f\" -> cmd=[\"tags\"] n=5 out=\"f\" sort=\"flat\" f=\"\" i=\"\" tf=\"k:v\" ti=\"k:w\" in=[\"tags\" \"5\" \"k:v\" \"-k:w\" \">\" \"f\"]",
	"\"traces1\" -> cmd=[\"traces\"] n=1 out=\"\" sort=\"flat\" f=\"\" i=\"\" tf=\"\" ti=\"\" in=[\"traces\"]",
	"\"raw2\" -> cmd=[\"raw\"] n=2 out=\"\" sort=\"flat\" f=\"\" i=\"\" tf=\"\" ti=\"\" in=[\"raw\"]",
	"\"dot1\" -> cmd=[\"dot\"] n=1 out=\"\" sort=\"flat\" f=\"\" i=\"\" tf=\"\" ti=\"\" in=[\"dot\"]",
	"\"svg20 >x.svg\" -> cmd=[\"svg\"] n=20 out=\"x.svg\" sort=\"flat\" f=\"\" i=\"\" tf=\"\" ti=\"\" in=[\"svg\" \">x.svg\"]",
	"\"proto3 >\" -> cmd=[] err=\"unexpected end of line after >\" in=[\"proto\" \">\"]",
	"\"proto >\" -> cmd=[] err=\"unexpected end of line after >\" in=[\"proto\" \">\"]",
	"\"proto > p.pb\" -> cmd=[\"proto\"] n=-1 out=\"p.pb\" sort=\"flat\" f=\"\" i=\"\" tf=\"\" ti=\"\" in=[\"proto\" \">\" \"p.pb\"]",
	"\"web123abc\" -> cmd=[] err=\"unrecognized command: \\\"web123abc\\\"\" in=[\"web123abc\"]",
	"\"web123 abc\" -> cmd=[\"web\"] n=123 out=\"\" sort=\"flat\" f=\"abc\" i=\"\" tf=\"\" ti=\"\" in=[\"web\" \"abc\"]",
	"\"x9\" -> cmd=[] err=\"unrecognized command: \\\"x\\\"\" in=[\"x\"]",
	"\"9\" -> cmd=[] err=\"unrecognized command: \\\"9\\\"\" in=[\"9\"]",
	"\"123\" -> cmd=[] err=\"unrecognized command: \\\"123\\\"\" in=[\"123\"]",
	"\"0\" -> cmd=[] err=\"unrecognized command: \\\"0\\\"\" in=[\"0\"]",
	"\"top\u0967\u0966\" -> cmd=[] err=\"unrecognized command: \\\"top\u0967\u0966\\\"\" in=[\"top\u0967\u0966\"]",
	"\"top\uff11\uff10\" -> cmd=[] err=\"unrecognized command: \\\"top\uff11\uff10\\\"\" in=[\"top\uff11\uff10\"]",
	"\"top10x\" -> cmd=[] err=\"unrecognized command: \\\"top10x\\\"\" in=[\"top10x\"]",
	"\"top1_0\" -> cmd=[] err=\"unrecognized command: \\\"top1_\\\"\" in=[\"top1_\"]",
	"\"top1.5\" -> cmd=[] err=\"unrecognized command: \\\"top1.\\\"\" in=[\"top1.\"]",
	"\"top10\\u00a0\" -> cmd=[\"top\"] n=10 out=\"\" sort=\"flat\" f=\"\" i=\"\" tf=\"\" ti=\"\" in=[\"top\"]",
	"\"nodecount5\" -> cmd=[] err=\"did you mean: nodecount=5\" in=[\"nodecount\"]",
	"\"nodecount\" -> cmd=[] err=\"did you mean: nodecount=<val>\" in=[\"nodecount\"]",
	"\"nodecount 7\" -> cmd=[] err=\"did you mean: nodecount=7\" in=[\"nodecount\" \"7\"]",
	"\"focus9 a\" -> cmd=[] err=\"did you mean: focus=9\" in=[\"focus\" \"a\"]",
	"\"focus\" -> cmd=[] err=\"did you mean: focus=<val>\" in=[\"focus\"]",
	"\"sort3\" -> cmd=[] err=\"unrecognized command: \\\"sort\\\"\" in=[\"sort\"]",
	"\"cum3\" -> cmd=[] err=\"did you mean: cum=3\" in=[\"cum\"]",
	"\"unknown\" -> cmd=[] err=\"unrecognized command: \\\"unknown\\\"\" in=[\"unknown\"]",
	"\"unknown12\" -> cmd=[] err=\"unrecognized command: \\\"unknown\\\"\" in=[\"unknown\"]",
	"\"12unknown34\" -> cmd=[] err=\"unrecognized command: \\\"12unknown\\\"\" in=[\"12unknown\"]",
	"\"TOP10\" -> cmd=[] err=\"unrecognized command: \\\"TOP\\\"\" in=[\"TOP\"]",
	"\"Top\" -> cmd=[] err=\"unrecognized command: \\\"Top\\\"\" in=[\"Top\"]",
	"\"topproto5\" -> cmd=[\"topproto\"] n=5 out=\"\" sort=\"flat\" f=\"\" i=\"\" tf=\"\" ti=\"\" in=[\"topproto\"]",
	"\"top_5\" -> cmd=[] err=\"unrecognized command: \\\"top_\\\"\" in=[\"top_\"]",
	"\"o1\" -> cmd=[] err=\"unrecognized command: \\\"o\\\"\" in=[\"o\"]",
	"\"help2\" -> cmd=[] err=\"unrecognized command: \\\"help\\\"\" in=[\"help\"]",
	"\"quit1\" -> cmd=[] err=\"unrecognized command: \\\"quit\\\"\" in=[\"quit\"]",
	"\"callgrind0001\" -> cmd=[\"callgrind\"] n=1 out=\"\" sort=\"flat\" f=\"\" i=\"\" tf=\"\" ti=\"\" in=[\"callgrind\"]",
	"\"ps2pdf\" -> cmd=[] err=\"unrecognized command: \\\"ps2pdf\\\"\" in=[\"ps2pdf\"]",
	"\"ps2\" -> cmd=[\"ps\"] n=2 out=\"\" sort=\"flat\" f=\"\" i=\"\" tf=\"\" ti=\"\" in=[\"ps\"]",
	"\"gv 0 -x -y z\" -> cmd=[\"gv\"] n=0 out=\"\" sort=\"flat\" f=\"z\" i=\"x|y\" tf=\"\" ti=\"\" in=[\"gv\" \"0\" \"-x\" \"-y\" \"z\"]",
	"\"top - -- ---\" -> cmd=[\"top\"] n=10 out=\"\" sort=\"flat\" f=\"\" i=\"-|--\" tf=\"\" ti=\"\" in=[\"top\" \"-\" \"--\" \"---\"]",
	"\"top > >\" -> cmd=[\"top\"] n=10 out=\">\" sort=\"flat\" f=\"\" i=\"\" tf=\"\" ti=\"\" in=[\"top\" \">\" \">\"]",
	"\"top >a >b\" -> cmd=[\"top\"] n=10 out=\"b\" sort=\"flat\" f=\"\" i=\"\" tf=\"\" ti=\"\" in=[\"top\" \">a\" \">b\"]",
	"\"top 1 2 3\" -> cmd=[\"top\"] n=3 out=\"\" sort=\"flat\" f=\"\" i=\"\" tf=\"\" ti=\"\" in=[\"top\" \"1\" \"2\" \"3\"]",
	"\"top -1\" -> cmd=[\"top\"] n=10 out=\"\" sort=\"flat\" f=\"\" i=\"\" tf=\"\" ti=\"\" in=[\"top\" \"-1\"]",
	"\"top -0\" -> cmd=[\"top\"] n=0 out=\"\" sort=\"flat\" f=\"\" i=\"\" tf=\"\" ti=\"\" in=[\"top\" \"-0\"]",
	"\"top --5\" -> cmd=[\"top\"] n=10 out=\"\" sort=\"flat\" f=\"\" i=\"-5\" tf=\"\" ti=\"\" in=[\"top\" \"--5\"]",
	"\"top a|b (\" -> cmd=[\"top\"] n=10 out=\"\" sort=\"flat\" f=\"a|b|(\" i=\"\" tf=\"\" ti=\"\" in=[\"top\" \"a|b\" \"(\"]",
	"\"=\" -> cmd=[] err=\"unrecognized command: \\\"=\\\"\" in=[\"=\"]",
	"\"top=\" -> cmd=[] err=\"unrecognized command: \\\"top=\\\"\" in=[\"top=\"]",
	"\"\\x00top1\" -> cmd=[] err=\"unrecognized command: \\\"\\\\x00top\\\"\" in=[\"\\x00top\"]",
	"\"top1\\x00\" -> cmd=[] err=\"unrecognized command: \\\"top1\\\\x00\\\"\" in=[\"top1\\x00\"]",
	"\"top\\xff9\" -> cmd=[] err=\"unrecognized command: \\\"top\\\\xff\\\"\" in=[\"top\\xff\"]",
	"\"kcachegrind42 f -g\" -> cmd=[\"kcachegrind\"] n=42 out=\"\" sort=\"flat\" f=\"f\" i=\"g\" tf=\"\" ti=\"\" in=[\"kcachegrind\" \"f\" \"-g\"]",
	"\"eog7\" -> cmd=[\"eog\"] n=7 out=\"\" sort=\"flat\" f=\"\" i=\"\" tf=\"\" ti=\"\" in=[\"eog\"]",
	"\"evince007\" -> cmd=[\"evince\"] n=7 out=\"\" sort=\"flat\" f=\"\" i=\"\" tf=\"\" ti=\"\" in=[\"evince\"]",
	"\"gif9 >g.gif\" -> cmd=[\"gif\"] n=9 out=\"g.gif\" sort=\"flat\" f=\"\" i=\"\" tf=\"\" ti=\"\" in=[\"gif\" \">g.gif\"]",
	"\"png\" -> cmd=[\"png\"] n=-1 out=\"\" sort=\"flat\" f=\"\" i=\"\" tf=\"\" ti=\"\" in=[\"png\"]",
	"\"pdf1 x\" -> cmd=[\"pdf\"] n=1 out=\"\" sort=\"flat\" f=\"x\" i=\"\" tf=\"\" ti=\"\" in=[\"pdf\" \"x\"]",
	"\"comments9\" -> cmd=[\"comments\"] n=9 out=\"\" sort=\"flat\" f=\"\" i=\"\" tf=\"\" ti=\"\" in=[\"comments\"]",
	"\"comments\" -> cmd=[\"comments\"] n=-1 out=\"\" sort=\"flat\" f=\"\" i=\"\" tf=\"\" ti=\"\" in=[\"comments\"]",
	"> \"top\"",
	"  report: cmd=[\"top\"] n=10 f=\"\" i=\"\"",
	"> \"top10\"",
	"  report: cmd=[\"top\"] n=10 f=\"\" i=\"\"",
	"> \"top 10\"",
	"  report: cmd=[\"top\"] n=10 f=\"\" i=\"\"",
	"> \"top010\"",
	"  report: cmd=[\"top\"] n=10 f=\"\" i=\"\"",
	"> \"top0\"",
	"  report: cmd=[\"top\"] n=0 f=\"\" i=\"\"",
	"> \"top-5\"",
	"  err: \"unrecognized command: \\\"top-\\\"\"",
	"> \"top+5\"",
	"  err: \"unrecognized command: \\\"top+\\\"\"",
	"> \"top10 20\"",
	"  report: cmd=[\"top\"] n=20 f=\"\" i=\"\"",
	"> \"top10 main\"",
	"  report: cmd=[\"top\"] n=10 f=\"main\" i=\"\"",
	"> \"top10 -foo >out\"",
	"  report: cmd=[\"top\"] n=10 f=\"\" i=\"foo\"",
	"> \"top99999999999\"",
	"  report: cmd=[\"top\"] n=10 f=\"99999999999\" i=\"\"",
	"> \"top2147483648\"",
	"  report: cmd=[\"top\"] n=10 f=\"2147483648\" i=\"\"",
	"> \"top2147483647\"",
	"  report: cmd=[\"top\"] n=2147483647 f=\"\" i=\"\"",
	"> \"text5\"",
	"  report: cmd=[\"text\"] n=5 f=\"\" i=\"\"",
	"> \"tree3 -cum\"",
	"  report: cmd=[\"tree\"] n=3 f=\"\" i=\"\"",
	"> \"tree3 --cum\"",
	"  report: cmd=[\"tree\"] n=3 f=\"\" i=\"\"",
	"> \"list5\"",
	"  report: cmd=[\"list\" \"5\"] n=-1 f=\"\" i=\"\"",
	"> \"list 5\"",
	"  report: cmd=[\"list\" \"5\"] n=-1 f=\"\" i=\"\"",
	"> \"list5 6\"",
	"  report: cmd=[\"list\" \"5\"] n=6 f=\"\" i=\"\"",
	"> \"list\"",
	"  err: \"command list requires an argument\"",
	"> \"peek12 x\"",
	"  report: cmd=[\"peek\" \"12\"] n=-1 f=\"x\" i=\"\"",
	"> \"disasm0\"",
	"  report: cmd=[\"disasm\" \"0\"] n=-1 f=\"\" i=\"\"",
	"> \"weblist7\"",
	"  report: cmd=[\"weblist\" \"7\"] n=-1 f=\"\" i=\"\"",
	"> \"weblist\"",
	"  err: \"command weblist requires an argument\"",
	"> \"tags3 a -b\"",
	"  report: cmd=[\"tags\"] n=3 f=\"\" i=\"\"",
	"> \"tags\"",
	"  report: cmd=[\"tags\"] n=-1 f=\"\" i=\"\"",
	"> \"tags 5 k:v -k:w > f\"",
	"  report: cmd=[\"tags\"] n=5 f=\"\" i=\"\"",
	"> \"traces1\"",
	"  report: cmd=[\"traces\"] n=1 f=\"\" i=\"\"",
	"> \"raw2\"",
	"  report: cmd=[\"raw\"] n=2 f=\"\" i=\"\"",
	"> \"dot1\"",
	"  report: cmd=[\"dot\"] n=1 f=\"\" i=\"\"",
	"> \"svg20 >x.svg\"",
	"  report: cmd=[\"svg\"] n=20 f=\"\" i=\"\"",
	"> \"proto3 >\"",
	"  err: \"unexpected end of line after >\"",
	"> \"proto >\"",
	"  err: \"unexpected end of line after >\"",
	"> \"proto > p.pb\"",
	"  report: cmd=[\"proto\"] n=-1 f=\"\" i=\"\"",
	"> \"web123abc\"",
	"  err: \"unrecognized command: \\\"web123abc\\\"\"",
	"> \"web123 abc\"",
	"  report: cmd=[\"web\"] n=123 f=\"abc\" i=\"\"",
	"> \"x9\"",
	"  err: \"unrecognized command: \\\"x\\\"\"",
	"> \"9\"",
	"  err: \"unrecognized command: \\\"9\\\"\"",
	"> \"123\"",
	"  err: \"unrecognized command: \\\"123\\\"\"",
	"> \"0\"",
	"  err: \"unrecognized command: \\\"0\\\"\"",
	"> \"top\u0967\u0966\"",
	"  err: \"unrecognized command: \\\"top\u0967\u0966\\\"\"",
	"> \"top\uff11\uff10\"",
	"  err: \"unrecognized command: \\\"top\uff11\uff10\\\"\"",
	"> \"top10x\"",
	"  err: \"unrecognized command: \\\"top10x\\\"\"",
	"> \"top1_0\"",
	"  err: \"unrecognized command: \\\"top1_\\\"\"",
	"> \"top1.5\"",
	"  err: \"unrecognized command: \\\"top1.\\\"\"",
	"> \"top10\\u00a0\"",
	"  report: cmd=[\"top\"] n=10 f=\"\" i=\"\"",
	"> \"nodecount5\"",
	"  err: \"did you mean: nodecount=5\"",
	"> \"nodecount\"",
	"  err: \"please specify a value, e.g. nodecount=<val>\"",
	"> \"nodecount 7\"",
	"  err: \"did you mean: nodecount=7\"",
	"> \"focus9 a\"",
	"  err: \"did you mean: focus=9\"",
	"> \"focus\"",
	"  err: \"please specify a value, e.g. focus=<val>\"",
	"> \"sort3\"",
	"  err: \"unrecognized command: \\\"sort\\\"\"",
	"> \"cum3\"",
	"  err: \"did you mean: cum=3\"",
	"> \"unknown\"",
	"  err: \"unrecognized command: \\\"unknown\\\"\"",
	"> \"unknown12\"",
	"  err: \"unrecognized command: \\\"unknown\\\"\"",
	"> \"12unknown34\"",
	"  err: \"unrecognized command: \\\"12unknown\\\"\"",
	"> \"TOP10\"",
	"  err: \"unrecognized command: \\\"TOP\\\"\"",
	"> \"Top\"",
	"  err: \"unrecognized command: \\\"Top\\\"\"",
	"> \"topproto5\"",
	"  report: cmd=[\"topproto\"] n=5 f=\"\" i=\"\"",
	"> \"top_5\"",
	"  err: \"unrecognized command: \\\"top_\\\"\"",
	"> \"o1\"",
	"  err: \"unrecognized command: \\\"o\\\"\"",
	"> \"help2\"",
	"  err: \"unrecognized command: \\\"help\\\"\"",
	"> \"quit1\"",
	"  err: \"unrecognized command: \\\"quit\\\"\"",
	"> \"callgrind0001\"",
	"  report: cmd=[\"callgrind\"] n=1 f=\"\" i=\"\"",
	"> \"ps2pdf\"",
	"  err: \"unrecognized command: \\\"ps2pdf\\\"\"",
	"> \"ps2\"",
	"  report: cmd=[\"ps\"] n=2 f=\"\" i=\"\"",
	"> \"gv 0 -x -y z\"",
	"  report: cmd=[\"gv\"] n=0 f=\"z\" i=\"x|y\"",
	"> \"top - -- ---\"",
	"  report: cmd=[\"top\"] n=10 f=\"\" i=\"-|--\"",
	"> \"top > >\"",
	"  report: cmd=[\"top\"] n=10 f=\"\" i=\"\"",
	"> \"top >a >b\"",
	"  report: cmd=[\"top\"] n=10 f=\"\" i=\"\"",
	"> \"top 1 2 3\"",
	"  report: cmd=[\"top\"] n=3 f=\"\" i=\"\"",
	"> \"top -1\"",
	"  report: cmd=[\"top\"] n=10 f=\"\" i=\"\"",
	"> \"top -0\"",
	"  report: cmd=[\"top\"] n=0 f=\"\" i=\"\"",
	"> \"top --5\"",
	"  report: cmd=[\"top\"] n=10 f=\"\" i=\"-5\"",
	"> \"top a|b (\"",
	"  report: cmd=[\"top\"] n=10 f=\"a|b|(\" i=\"\"",
	"> \"=\"",
	"  err: \"unrecognized command: \\\"=\\\"\"",
	"> \"top=\"",
	"  err: \"unrecognized command: \\\"top=\\\"\"",
	"> \"\\x00top1\"",
	"  err: \"unrecognized command: \\\"\\\\x00top\\\"\"",
	"> \"top1\\x00\"",
	"  err: \"unrecognized command: \\\"top1\\\\x00\\\"\"",
	"> \"top\\xff9\"",
	"  err: \"unrecognized command: \\\"top\\\\xff\\\"\"",
	"> \"kcachegrind42 f -g\"",
	"  report: cmd=[\"kcachegrind\"] n=42 f=\"f\" i=\"g\"",
	"> \"eog7\"",
	"  report: cmd=[\"eog\"] n=7 f=\"\" i=\"\"",
	"> \"evince007\"",
	"  report: cmd=[\"evince\"] n=7 f=\"\" i=\"\"",
	"> \"gif9 >g.gif\"",
	"  report: cmd=[\"gif\"] n=9 f=\"\" i=\"\"",
	"> \"png\"",
	"  report: cmd=[\"png\"] n=-1 f=\"\" i=\"\"",
	"> \"pdf1 x\"",
	"  report: cmd=[\"pdf\"] n=1 f=\"x\" i=\"\"",
	"> \"comments9\"",
	"  report: cmd=[\"comments\"] n=9 f=\"\" i=\"\"",
	"> \"comments\"",
	"  report: cmd=[\"comments\"] n=-1 f=\"\" i=\"\"",
	"> \"nodecount=3\"",
	"> \"top\"",
	"  report: cmd=[\"top\"] n=3 f=\"\" i=\"\"",
	"> \"top7\"",
	"  report: cmd=[\"top\"] n=7 f=\"\" i=\"\"",
	"> \"samples\"",
	"> \"quit\"",
	"interactive returned <nil>, unread=[\"top-after-quit\"]",
	"",
}, "\n")
