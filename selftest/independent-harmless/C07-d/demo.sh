#!/bin/sh
# usage: demo.sh <worktree root>
set -u
root="$1"
here="$(cd "$(dirname "$0")" && pwd)"
export GOFLAGS=-mod=mod GOPROXY=off GOSUMDB=off GOTOOLCHAIN=local
cp "$here/zz_equiv_a_test.go" "$root/internal/driver/zz_equiv_a_test.go"
(cd "$root" && go test -vet=off -count=1 -run 'TestZZEquivA$' ./internal/driver/)
rc=$?
rm -f "$root/internal/driver/zz_equiv_a_test.go"
exit $rc
