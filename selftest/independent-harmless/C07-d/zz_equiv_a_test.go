package driver

import (
	"fmt"
	"os"
	"path/filepath"
	"sort"
	"strings"
	"testing"

	"github.com/google/pprof/internal/plugin"
	"github.com/google/pprof/internal/proftest"
	"github.com/google/pprof/internal/transport"
	"github.com/google/pprof/profile"
)

type zzSample struct {
	stack []string // leaf first
	vals  []int64
}

// zzProfile builds a small symbolized profile. types is a list of {type, unit}.
func zzProfile(types [][2]string, samples []zzSample) *profile.Profile {
	p := &profile.Profile{
		PeriodType: &profile.ValueType{Type: "cpu", Unit: "nanoseconds"},
		Period:     1,
	}
	for _, t := range types {
		p.SampleType = append(p.SampleType, &profile.ValueType{Type: t[0], Unit: t[1]})
	}
	m := &profile.Mapping{ID: 1, Start: 0x1000, Limit: 0x9000, File: "/bin/zzprog", HasFunctions: true}
	p.Mapping = []*profile.Mapping{m}
	names := []string{"main", "a", "b", "c", "d"}
	locs := map[string]*profile.Location{}
	for i, n := range names {
		f := &profile.Function{ID: uint64(i + 1), Name: n, SystemName: n, Filename: n + ".go"}
		l := &profile.Location{ID: uint64(i + 1), Mapping: m, Address: uint64(0x1000 + 0x100*i),
			Line: []profile.Line{{Function: f, Line: int64(10 + i)}}}
		p.Function = append(p.Function, f)
		p.Location = append(p.Location, l)
		locs[n] = l
	}
	for _, s := range samples {
		ps := &profile.Sample{Value: append([]int64(nil), s.vals...)}
		for _, n := range s.stack {
			ps.Location = append(ps.Location, locs[n])
		}
		p.Sample = append(p.Sample, ps)
	}
	return p
}

func zzDigest(p *profile.Profile) string {
	var b strings.Builder
	for _, st := range p.SampleType {
		fmt.Fprintf(&b, "%s/%s ", st.Type, st.Unit)
	}
	b.WriteString("|")
	var lines []string
	for _, s := range p.Sample {
		var st []string
		for _, l := range s.Location {
			for _, ln := range l.Line {
				st = append(st, ln.Function.Name)
			}
		}
		base := ""
		if s.DiffBaseSample() {
			base = " base"
		}
		lines = append(lines, fmt.Sprintf("%s %v%s", strings.Join(st, "<"), s.Value, base))
	}
	sort.Strings(lines)
	b.WriteString(strings.Join(lines, ";"))
	return b.String()
}

func TestZZEquivA(t *testing.T) {
	dir := t.TempDir()
	write := func(name string, p *profile.Profile) string {
		path := filepath.Join(dir, name)
		f, err := os.Create(path)
		if err != nil {
			t.Fatal(err)
		}
		defer f.Close()
		if err := p.Write(f); err != nil {
			t.Fatal(err)
		}
		return path
	}
	p1 := write("p1.pb.gz", zzProfile([][2]string{{"samples", "count"}, {"cpu", "milliseconds"}}, []zzSample{
		{[]string{"b", "a", "main"}, []int64{3, 30}},
		{[]string{"a", "main"}, []int64{1, 5}},
		{[]string{"d", "main"}, []int64{2, 0}},
	}))
	p2 := write("p2.pb.gz", zzProfile([][2]string{{"cpu", "nanoseconds"}, {"samples", "count"}}, []zzSample{
		{[]string{"b", "a", "main"}, []int64{7000000, 1}},
		{[]string{"c", "main"}, []int64{2000000, 4}},
		{[]string{"d", "main"}, []int64{0, 6}},
	}))
	p3 := write("p3.pb.gz", zzProfile([][2]string{{"samples", "count"}, {"cpu", "microseconds"}, {"extra", "count"}}, []zzSample{
		{[]string{"b", "a", "main"}, []int64{1, 1000, 9}},
		{[]string{"c", "main"}, []int64{1, 500, 9}},
	}))
	p4 := write("p4.pb.gz", zzProfile([][2]string{{"samples", "count"}, {"cpu", "nanoseconds"}}, []zzSample{
		{[]string{"b", "a", "main"}, []int64{2, 9000000}},
		{[]string{"c", "main"}, []int64{1, 500000}},
		{[]string{"main"}, []int64{0, 1500000}},
	}))
	missing := filepath.Join(dir, "does-not-exist.pb.gz")

	cases := []struct {
		name                string
		sources, bases      []string
		diffBase, normalize bool
		want                string
	}{
		{"single", []string{p1}, nil, false, false, "samples/count cpu/milliseconds |a<main [1 5];b<a<main [3 30];d<main [2 0]"},
		{"sum12", []string{p1, p2}, nil, false, false, "samples/count cpu/nanoseconds |a<main [1 5000000];b<a<main [4 37000000];c<main [4 2000000];d<main [6 0]"},
		{"sum21", []string{p2, p1}, nil, false, false, "cpu/nanoseconds samples/count |a<main [5000000 1];b<a<main [37000000 4];c<main [2000000 4];d<main [0 6]"},
		{"sum1x2", []string{p1, missing, p2}, nil, false, false, "samples/count cpu/nanoseconds |a<main [1 5000000];b<a<main [4 37000000];c<main [4 2000000];d<main [6 0]"},
		{"sum123", []string{p1, p2, p3}, nil, false, false, "samples/count cpu/nanoseconds |a<main [1 5000000];b<a<main [5 38000000];c<main [5 2500000];d<main [6 0]"},
		{"base", []string{p1, p2}, []string{p3}, false, false, "samples/count cpu/nanoseconds |a<main [1 5000000];b<a<main [3 36000000];c<main [3 1500000];d<main [6 0]"},
		{"diffbase", []string{p1, p2}, []string{p3}, true, false, "samples/count cpu/nanoseconds |a<main [1 5000000];b<a<main [-1 -1000000] base;b<a<main [4 37000000];c<main [-1 -500000] base;c<main [4 2000000];d<main [6 0]"},
		{"base-normalize", []string{p1, p2}, []string{p4}, false, true, "samples/count cpu/nanoseconds |a<main [0 1250000];b<a<main [-1 250000];d<main [1 0];main [0 -1500000]"},
		{"diffbase-normalize", []string{p1, p2}, []string{p4, p4}, true, true, "samples/count cpu/nanoseconds |a<main [0 2500000];b<a<main [-4 -18000000] base;b<a<main [2 18500000];c<main [-2 -1000000] base;c<main [2 1000000];d<main [2 0];main [0 -3000000] base"},
		{"self", []string{p2, p1}, []string{p1, p2}, false, false, "cpu/nanoseconds samples/count |"},
		{"self-diff", []string{p3}, []string{p3}, true, false, "samples/count cpu/microseconds extra/count |b<a<main [-1 -1000 -9] base;b<a<main [1 1000 9];c<main [-1 -500 -9] base;c<main [1 500 9]"},
	}
	for i, tc := range cases {
		o := setDefaults(&plugin.Options{
			UI:            &proftest.TestUI{T: t, AllowRx: "does-not-exist|Fetched 2 source profiles out of 3|Local symbolization failed|Some binary filenames not available"},
			HTTPTransport: transport.New(nil),
		})
		src := &source{Sources: tc.sources, Base: tc.bases, DiffBase: tc.diffBase, Normalize: tc.normalize, Symbolize: "none"}
		p, err := fetchProfiles(src, o)
		if err != nil {
			t.Errorf("%s: %v", tc.name, err)
			continue
		}
		got := zzDigest(p)
		if os.Getenv("ZZ_PRINT") != "" {
			fmt.Printf("WANT%d %q\n", i, got)
			continue
		}
		if got != tc.want {
			t.Errorf("%s:\n got %s\nwant %s", tc.name, got, tc.want)
		}
	}

	// All sources failing is an error.
	o := setDefaults(&plugin.Options{
		UI:            &proftest.TestUI{T: t, AllowRx: "does-not-exist"},
		HTTPTransport: transport.New(nil),
	})
	if _, err := fetchProfiles(&source{Sources: []string{missing, missing}, Symbolize: "none"}, o); err == nil || err.Error() != "failed to fetch any source profiles" {
		t.Errorf("all-missing: got error %v", err)
	}
}
