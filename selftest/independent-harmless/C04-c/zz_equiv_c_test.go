package driver

import (
	"fmt"
	"os"
	"sort"
	"strings"
	"testing"

	"github.com/google/pprof/internal/graph"
	"github.com/google/pprof/profile"
)

// zzEquivProfile builds a profile with recursion, mutual recursion, inlined
// multi-line frames (including a location whose two lines are the same
// function), shared locations, an empty stack, an unsymbolized frame, negative
// values, labels and two sample types.
func zzEquivProfile() *profile.Profile {
	m := &profile.Mapping{ID: 1, Start: 0x1000, Limit: 0x9000, File: "/bin/prog", HasFunctions: true, HasFilenames: true, HasLineNumbers: true, HasInlineFrames: true}
	fn := func(id uint64, name string) *profile.Function {
		return &profile.Function{ID: id, Name: name, SystemName: name, Filename: "/src/" + name + ".go", StartLine: int64(id * 10)}
	}
	fMain, fOuter, fInner, fRec, fLeaf := fn(1, "main"), fn(2, "outer"), fn(3, "inner"), fn(4, "rec"), fn(5, "leaf")
	l1 := &profile.Location{ID: 1, Mapping: m, Address: 0x1100, Line: []profile.Line{{Function: fMain, Line: 11}}}
	l2 := &profile.Location{ID: 2, Mapping: m, Address: 0x1200, Line: []profile.Line{{Function: fInner, Line: 31}, {Function: fOuter, Line: 21}}}
	l3 := &profile.Location{ID: 3, Mapping: m, Address: 0x1300, Line: []profile.Line{{Function: fRec, Line: 41}}}
	l4 := &profile.Location{ID: 4, Mapping: m, Address: 0x1400}
	l5 := &profile.Location{ID: 5, Mapping: m, Address: 0x1500, Line: []profile.Line{{Function: fLeaf, Line: 51}}}
	l6 := &profile.Location{ID: 6, Mapping: m, Address: 0x1600, Line: []profile.Line{{Function: fRec, Line: 42}, {Function: fRec, Line: 43}}}
	l7 := &profile.Location{ID: 7, Mapping: m, Address: 0x1700, Line: []profile.Line{{Function: fLeaf, Line: 52}}}
	L := func(ls ...*profile.Location) []*profile.Location { return ls }
	p := &profile.Profile{
		SampleType: []*profile.ValueType{{Type: "samples", Unit: "count"}, {Type: "cpu", Unit: "nanoseconds"}},
		PeriodType: &profile.ValueType{Type: "cpu", Unit: "nanoseconds"},
		Period:     1,
		Mapping:    []*profile.Mapping{m},
		Function:   []*profile.Function{fMain, fOuter, fInner, fRec, fLeaf},
		Location:   []*profile.Location{l1, l2, l3, l4, l5, l6, l7},
		Sample: []*profile.Sample{
			{Location: L(l5, l2, l1), Value: []int64{3, 10}},
			{Location: L(l3, l3, l3, l1), Value: []int64{2, 7}, Label: map[string][]string{"k": {"v1"}, "tenant": {"t1"}}},
			{Location: L(l3, l2, l3, l2, l1), Value: []int64{1, -5}},
			{Location: nil, Value: []int64{4, 9}, Label: map[string][]string{"tenant": {"t2"}}, NumLabel: map[string][]int64{"bytes": {2048, 4096}}, NumUnit: map[string][]string{"bytes": {"bytes", "bytes"}}},
			{Location: L(l4, l1), Value: []int64{5, 11}, Label: map[string][]string{"tenant": {"t1"}}, NumLabel: map[string][]int64{"bytes": {64}, "k": {7}, "bad": {1, 2}}, NumUnit: map[string][]string{"bad": {"bytes"}}},
			{Location: L(l5, l2, l1), Value: []int64{6, 13}, Label: map[string][]string{"k": {"v1", "v2"}}, NumLabel: map[string][]int64{"bytes": {64}}, NumUnit: map[string][]string{"bytes": {"bytes"}}},
			{Location: L(l6, l1), Value: []int64{1, 2}, Label: map[string][]string{"tenant": {"t2"}, "bad": {"s"}}, NumLabel: map[string][]int64{"bad": {1, 2}}, NumUnit: map[string][]string{"bad": {"bytes"}}},
			{Location: L(l6, l6, l3, l1), Value: []int64{2, -3}},
			{Location: L(l7, l5, l7, l5, l1), Value: []int64{7, 17}},
			{Location: L(l5, l1), Value: []int64{0, 0}},
			{Location: L(l1, l1), Value: []int64{0, 19}},
			{Location: L(l2, l2), Value: []int64{8, 23}},
		},
	}
	if err := p.CheckValid(); err != nil {
		panic(err)
	}
	return p
}


func zzDumpProfile(p *profile.Profile) string {
	var b strings.Builder
	for _, f := range p.Function {
		fmt.Fprintf(&b, "F%d %q %q %q %d\n", f.ID, f.Name, f.SystemName, f.Filename, f.StartLine)
	}
	for _, l := range p.Location {
		fmt.Fprintf(&b, "L%d addr=%#x mapping=%v folded=%v", l.ID, l.Address, l.Mapping != nil, l.IsFolded)
		for _, ln := range l.Line {
			fmt.Fprintf(&b, " [F%d:%d:%d]", ln.Function.ID, ln.Line, ln.Column)
		}
		b.WriteString("\n")
	}
	for i, s := range p.Sample {
		fmt.Fprintf(&b, "S%d %v:", i, s.Value)
		for _, l := range s.Location {
			fmt.Fprintf(&b, " L%d", l.ID)
		}
		b.WriteString("\n")
	}
	return b.String()
}

func zzDumpGraph(g *graph.Graph) string {
	var lines []string
	for _, n := range g.Nodes {
		var es []string
		for _, e := range n.Out {
			es = append(es, fmt.Sprintf(" ->%s=%d", e.Dest.Info.PrintableName(), e.WeightValue()))
		}
		sort.Strings(es)
		lines = append(lines, fmt.Sprintf("N %s flat=%d cum=%d%s", n.Info.PrintableName(), n.FlatValue(), n.CumValue(), strings.Join(es, "")))
	}
	sort.Strings(lines)
	return strings.Join(lines, "\n") + "\n"
}

func zzAllC() string {
	var out strings.Builder
	cases := []struct {
		root, leaf []string
		unit       string
	}{
		{nil, nil, "minimum"},
		{[]string{"tenant"}, nil, "minimum"},
		{nil, []string{"tenant"}, "minimum"},
		{[]string{"tenant", "k"}, []string{"bytes"}, "minimum"},
		{[]string{"bytes", "tenant"}, []string{"k", "bad", "tenant"}, "kb"},
		{[]string{"nosuch"}, []string{"nosuch", "nosuch2"}, "minimum"},
		{[]string{"k", "k"}, []string{"k"}, "auto"},
		{[]string{"bad"}, []string{"bytes", "bytes"}, "mb"},
	}
	for _, c := range cases {
		p := zzEquivProfile()
		before := make([][]*profile.Location, len(p.Sample))
		for i, s := range p.Sample {
			before[i] = s.Location
		}
		rootm, leafm := addLabelNodes(p, c.root, c.leaf, c.unit)
		fmt.Fprintf(&out, "=== root=%q leaf=%q unit=%s -> rootm=%v leafm=%v valid=%v\n", c.root, c.leaf, c.unit, rootm, leafm, p.CheckValid())
		out.WriteString(zzDumpProfile(p))
		// The original stack must be preserved in the middle of the new stack.
		for i, s := range p.Sample {
			if len(s.Location) != len(before[i])+len(c.root)+len(c.leaf) && len(c.root)+len(c.leaf) > 0 {
				fmt.Fprintf(&out, "BAD LENGTH S%d\n", i)
			}
		}
		for idx := 0; idx < 2; idx++ {
			for _, mean := range []bool{false, true} {
				for _, tree := range []bool{false, true} {
					// Copy() cannot be used: the mismatched "bad" label does not encode.
					q := zzEquivProfile()
					addLabelNodes(q, c.root, c.leaf, c.unit)
					for _, s := range q.Sample {
						// graph.New panics on a unit/value count mismatch; the label has
						// served its purpose once the pseudo frames are in place.
						delete(s.NumLabel, "bad")
						delete(s.NumUnit, "bad")
					}
					if err := q.Aggregate(true, true, false, false, false, false); err != nil {
						panic(err)
					}
					idx := idx
					o := &graph.Options{SampleValue: func(v []int64) int64 { return v[idx] }, CallTree: tree}
					if mean {
						o.SampleMeanDivisor = func(v []int64) int64 { return v[0] }
					}
					fmt.Fprintf(&out, "--- functions idx=%d mean=%v call_tree=%v\n%s", idx, mean, tree, zzDumpGraph(graph.New(q, o)))
				}
			}
		}
	}
	return out.String()
}

func TestZZEquivC(t *testing.T) {
	got := zzAllC()
	if f := os.Getenv("ZZ_EQUIV_WRITE"); f != "" {
		if err := os.WriteFile(f, []byte(got), 0o644); err != nil {
			t.Fatal(err)
		}
		return
	}
	if got != zzWantC {
		gl, wl := strings.Split(got, "\n"), strings.Split(zzWantC, "\n")
		for i := 0; i < len(gl) && i < len(wl); i++ {
			if gl[i] != wl[i] {
				t.Fatalf("line %d differs:\n got: %s\nwant: %s", i+1, gl[i], wl[i])
			}
		}
		t.Fatalf("output length differs: got %d lines, want %d", len(gl), len(wl))
	}
	if strings.Contains(got, "BAD LENGTH") {
		t.Errorf("stack length wrong")
	}
}

// zzWantC was recorded on the unchanged tree.
const zzWantC = `=== root=[] leaf=[] unit=minimum -> rootm=false leafm=false valid=<nil>
F1 "main" "main" "/src/main.go" 10
F2 "outer" "outer" "/src/outer.go" 20
F3 "inner" "inner" "/src/inner.go" 30
F4 "rec" "rec" "/src/rec.go" 40
F5 "leaf" "leaf" "/src/leaf.go" 50
L1 addr=0x1100 mapping=true folded=false [F1:11:0]
L2 addr=0x1200 mapping=true folded=false [F3:31:0] [F2:21:0]
L3 addr=0x1300 mapping=true folded=false [F4:41:0]
L4 addr=0x1400 mapping=true folded=false
L5 addr=0x1500 mapping=true folded=false [F5:51:0]
L6 addr=0x1600 mapping=true folded=false [F4:42:0] [F4:43:0]
L7 addr=0x1700 mapping=true folded=false [F5:52:0]
S0 [3 10]: L5 L2 L1
S1 [2 7]: L3 L3 L3 L1
S2 [1 -5]: L3 L2 L3 L2 L1
S3 [4 9]:
S4 [5 11]: L4 L1
S5 [6 13]: L5 L2 L1
S6 [1 2]: L6 L1
S7 [2 -3]: L6 L6 L3 L1
S8 [7 17]: L7 L5 L7 L5 L1
S9 [0 0]: L5 L1
S10 [0 19]: L1 L1
S11 [8 23]: L2 L2
--- functions idx=0 mean=false call_tree=false
N [prog] flat=5 cum=5
N inner flat=8 cum=18 ->leaf=9 ->outer=8 ->rec=1
N leaf flat=16 cum=16
N main flat=0 cum=27 ->[prog]=5 ->leaf=7 ->outer=10 ->rec=5
N outer flat=0 cum=18 ->inner=18
N rec flat=6 cum=6 ->outer=1
--- functions idx=0 mean=false call_tree=true
N [prog] flat=5 cum=5
N inner flat=0 cum=1 ->rec=1
N inner flat=0 cum=10 ->leaf=9 ->rec=1
N inner flat=0 cum=8 ->outer=8
N inner flat=8 cum=8
N leaf flat=0 cum=7 ->leaf=7
N leaf flat=0 cum=7 ->leaf=7
N leaf flat=0 cum=7 ->leaf=7
N leaf flat=7 cum=7
N leaf flat=9 cum=9
N main flat=0 cum=27 ->[prog]=5 ->leaf=7 ->outer=10 ->rec=5
N outer flat=0 cum=1 ->inner=1
N outer flat=0 cum=10 ->inner=10
N outer flat=0 cum=8 ->inner=8
N outer flat=0 cum=8 ->inner=8
N rec flat=0 cum=1 ->outer=1
N rec flat=0 cum=2 ->rec=2
N rec flat=0 cum=5 ->rec=5
N rec flat=1 cum=1
N rec flat=1 cum=5 ->rec=4
N rec flat=2 cum=2
N rec flat=2 cum=4 ->rec=2
--- functions idx=0 mean=true call_tree=false
N [prog] flat=1 cum=1
N inner flat=1 cum=1 ->leaf=1 ->outer=1 ->rec=1
N leaf flat=1 cum=1
N main flat=0 cum=1 ->[prog]=1 ->leaf=1 ->outer=1 ->rec=1
N outer flat=0 cum=1 ->inner=1
N rec flat=1 cum=1 ->outer=1
--- functions idx=0 mean=true call_tree=true
N [prog] flat=1 cum=1
N inner flat=0 cum=1 ->leaf=1 ->rec=1
N inner flat=0 cum=1 ->outer=1
N inner flat=0 cum=1 ->rec=1
N inner flat=1 cum=1
N leaf flat=0 cum=1 ->leaf=1
N leaf flat=0 cum=1 ->leaf=1
N leaf flat=0 cum=1 ->leaf=1
N leaf flat=1 cum=1
N leaf flat=1 cum=1
N main flat=0 cum=1 ->[prog]=1 ->leaf=1 ->outer=1 ->rec=1
N outer flat=0 cum=1 ->inner=1
N outer flat=0 cum=1 ->inner=1
N outer flat=0 cum=1 ->inner=1
N outer flat=0 cum=1 ->inner=1
N rec flat=0 cum=1 ->outer=1
N rec flat=0 cum=1 ->rec=1
N rec flat=0 cum=1 ->rec=1
N rec flat=1 cum=1
N rec flat=1 cum=1
N rec flat=1 cum=1 ->rec=1
N rec flat=1 cum=1 ->rec=1
--- functions idx=1 mean=false call_tree=false
N [prog] flat=11 cum=11
N inner flat=23 cum=41 ->leaf=23 ->outer=23 ->rec=-5
N leaf flat=40 cum=40
N main flat=19 cum=71 ->[prog]=11 ->leaf=17 ->outer=18 ->rec=6
N outer flat=0 cum=41 ->inner=41
N rec flat=1 cum=1 ->outer=-5
--- functions idx=1 mean=false call_tree=true
N [prog] flat=11 cum=11
N inner flat=0 cum=-5 ->rec=-5
N inner flat=0 cum=18 ->leaf=23 ->rec=-5
N inner flat=0 cum=23 ->outer=23
N inner flat=23 cum=23
N leaf flat=0 cum=17 ->leaf=17
N leaf flat=0 cum=17 ->leaf=17
N leaf flat=0 cum=17 ->leaf=17
N leaf flat=17 cum=17
N leaf flat=23 cum=23
N main flat=0 cum=71 ->[prog]=11 ->leaf=17 ->main=19 ->outer=18 ->rec=6
N main flat=19 cum=19
N outer flat=0 cum=-5 ->inner=-5
N outer flat=0 cum=18 ->inner=18
N outer flat=0 cum=23 ->inner=23
N outer flat=0 cum=23 ->inner=23
N rec flat=-3 cum=-3
N rec flat=-5 cum=-5
N rec flat=0 cum=-3 ->rec=-3
N rec flat=0 cum=-5 ->outer=-5
N rec flat=0 cum=6 ->rec=6
N rec flat=2 cum=6 ->rec=4
N rec flat=7 cum=4 ->rec=-3
--- functions idx=1 mean=true call_tree=false
N [prog] flat=2 cum=2
N inner flat=2 cum=2 ->leaf=2 ->outer=2 ->rec=-5
N leaf flat=2 cum=2
N main flat=19 cum=2 ->[prog]=2 ->leaf=2 ->outer=1 ->rec=1
N outer flat=0 cum=2 ->inner=2
N rec flat=0 cum=0 ->outer=-5
--- functions idx=1 mean=true call_tree=true
N [prog] flat=2 cum=2
N inner flat=0 cum=-5 ->rec=-5
N inner flat=0 cum=1 ->leaf=2 ->rec=-5
N inner flat=0 cum=2 ->outer=2
N inner flat=2 cum=2
N leaf flat=0 cum=2 ->leaf=2
N leaf flat=0 cum=2 ->leaf=2
N leaf flat=0 cum=2 ->leaf=2
N leaf flat=2 cum=2
N leaf flat=2 cum=2
N main flat=0 cum=2 ->[prog]=2 ->leaf=2 ->main=19 ->outer=1 ->rec=1
N main flat=19 cum=19
N outer flat=0 cum=-5 ->inner=-5
N outer flat=0 cum=1 ->inner=1
N outer flat=0 cum=2 ->inner=2
N outer flat=0 cum=2 ->inner=2
N rec flat=-1 cum=-1
N rec flat=-5 cum=-5
N rec flat=0 cum=-1 ->rec=-1
N rec flat=0 cum=-5 ->outer=-5
N rec flat=0 cum=1 ->rec=1
N rec flat=2 cum=1 ->rec=1
N rec flat=3 cum=1 ->rec=-1
=== root=["tenant"] leaf=[] unit=minimum -> rootm=true leafm=false valid=<nil>
F1 "main" "main" "/src/main.go" 10
F2 "outer" "outer" "/src/outer.go" 20
F3 "inner" "inner" "/src/inner.go" 30
F4 "rec" "rec" "/src/rec.go" 40
F5 "leaf" "leaf" "/src/leaf.go" 50
F6 "" "" "tenant" 0
F7 "t1" "" "tenant" 0
F8 "t2" "" "tenant" 0
L1 addr=0x1100 mapping=true folded=false [F1:11:0]
L2 addr=0x1200 mapping=true folded=false [F3:31:0] [F2:21:0]
L3 addr=0x1300 mapping=true folded=false [F4:41:0]
L4 addr=0x1400 mapping=true folded=false
L5 addr=0x1500 mapping=true folded=false [F5:51:0]
L6 addr=0x1600 mapping=true folded=false [F4:42:0] [F4:43:0]
L7 addr=0x1700 mapping=true folded=false [F5:52:0]
L8 addr=0x0 mapping=false folded=false [F6:0:0]
L9 addr=0x0 mapping=false folded=false [F7:0:0]
L10 addr=0x0 mapping=false folded=false [F8:0:0]
S0 [3 10]: L5 L2 L1 L8
S1 [2 7]: L3 L3 L3 L1 L9
S2 [1 -5]: L3 L2 L3 L2 L1 L8
S3 [4 9]: L10
S4 [5 11]: L4 L1 L9
S5 [6 13]: L5 L2 L1 L8
S6 [1 2]: L6 L1 L10
S7 [2 -3]: L6 L6 L3 L1 L8
S8 [7 17]: L7 L5 L7 L5 L1 L8
S9 [0 0]: L5 L1 L8
S10 [0 19]: L1 L1 L8
S11 [8 23]: L2 L2 L8
--- functions idx=0 mean=false call_tree=false
N <unknown> flat=0 cum=27 ->main=19 ->outer=8
N [prog] flat=5 cum=5
N inner flat=8 cum=18 ->leaf=9 ->outer=8 ->rec=1
N leaf flat=16 cum=16
N main flat=0 cum=27 ->[prog]=5 ->leaf=7 ->outer=10 ->rec=5
N outer flat=0 cum=18 ->inner=18
N rec flat=6 cum=6 ->outer=1
N t1 flat=0 cum=7 ->main=7
N t2 flat=4 cum=5 ->main=1
--- functions idx=0 mean=false call_tree=true
N <unknown> flat=0 cum=27 ->main=19 ->outer=8
N [prog] flat=5 cum=5
N inner flat=0 cum=1 ->rec=1
N inner flat=0 cum=10 ->leaf=9 ->rec=1
N inner flat=0 cum=8 ->outer=8
N inner flat=8 cum=8
N leaf flat=0 cum=7 ->leaf=7
N leaf flat=0 cum=7 ->leaf=7
N leaf flat=0 cum=7 ->leaf=7
N leaf flat=7 cum=7
N leaf flat=9 cum=9
N main flat=0 cum=1 ->rec=1
N main flat=0 cum=19 ->leaf=7 ->outer=10 ->rec=2
N main flat=0 cum=7 ->[prog]=5 ->rec=2
N outer flat=0 cum=1 ->inner=1
N outer flat=0 cum=10 ->inner=10
N outer flat=0 cum=8 ->inner=8
N outer flat=0 cum=8 ->inner=8
N rec flat=0 cum=1 ->outer=1
N rec flat=0 cum=1 ->rec=1
N rec flat=0 cum=2 ->rec=2
N rec flat=0 cum=2 ->rec=2
N rec flat=0 cum=2 ->rec=2
N rec flat=0 cum=2 ->rec=2
N rec flat=0 cum=2 ->rec=2
N rec flat=0 cum=2 ->rec=2
N rec flat=1 cum=1
N rec flat=1 cum=1
N rec flat=2 cum=2
N rec flat=2 cum=2
N t1 flat=0 cum=7 ->main=7
N t2 flat=4 cum=5 ->main=1
--- functions idx=0 mean=true call_tree=false
N <unknown> flat=0 cum=1 ->main=1 ->outer=1
N [prog] flat=1 cum=1
N inner flat=1 cum=1 ->leaf=1 ->outer=1 ->rec=1
N leaf flat=1 cum=1
N main flat=0 cum=1 ->[prog]=1 ->leaf=1 ->outer=1 ->rec=1
N outer flat=0 cum=1 ->inner=1
N rec flat=1 cum=1 ->outer=1
N t1 flat=0 cum=1 ->main=1
N t2 flat=1 cum=1 ->main=1
--- functions idx=0 mean=true call_tree=true
N <unknown> flat=0 cum=1 ->main=1 ->outer=1
N [prog] flat=1 cum=1
N inner flat=0 cum=1 ->leaf=1 ->rec=1
N inner flat=0 cum=1 ->outer=1
N inner flat=0 cum=1 ->rec=1
N inner flat=1 cum=1
N leaf flat=0 cum=1 ->leaf=1
N leaf flat=0 cum=1 ->leaf=1
N leaf flat=0 cum=1 ->leaf=1
N leaf flat=1 cum=1
N leaf flat=1 cum=1
N main flat=0 cum=1 ->[prog]=1 ->rec=1
N main flat=0 cum=1 ->leaf=1 ->outer=1 ->rec=1
N main flat=0 cum=1 ->rec=1
N outer flat=0 cum=1 ->inner=1
N outer flat=0 cum=1 ->inner=1
N outer flat=0 cum=1 ->inner=1
N outer flat=0 cum=1 ->inner=1
N rec flat=0 cum=1 ->outer=1
N rec flat=0 cum=1 ->rec=1
N rec flat=0 cum=1 ->rec=1
N rec flat=0 cum=1 ->rec=1
N rec flat=0 cum=1 ->rec=1
N rec flat=0 cum=1 ->rec=1
N rec flat=0 cum=1 ->rec=1
N rec flat=0 cum=1 ->rec=1
N rec flat=1 cum=1
N rec flat=1 cum=1
N rec flat=1 cum=1
N rec flat=1 cum=1
N t1 flat=0 cum=1 ->main=1
N t2 flat=1 cum=1 ->main=1
--- functions idx=1 mean=false call_tree=false
N <unknown> flat=0 cum=74 ->main=51 ->outer=23
N [prog] flat=11 cum=11
N inner flat=23 cum=41 ->leaf=23 ->outer=23 ->rec=-5
N leaf flat=40 cum=40
N main flat=19 cum=71 ->[prog]=11 ->leaf=17 ->outer=18 ->rec=6
N outer flat=0 cum=41 ->inner=41
N rec flat=1 cum=1 ->outer=-5
N t1 flat=0 cum=18 ->main=18
N t2 flat=9 cum=11 ->main=2
--- functions idx=1 mean=false call_tree=true
N <unknown> flat=0 cum=74 ->main=51 ->outer=23
N [prog] flat=11 cum=11
N inner flat=0 cum=-5 ->rec=-5
N inner flat=0 cum=18 ->leaf=23 ->rec=-5
N inner flat=0 cum=23 ->outer=23
N inner flat=23 cum=23
N leaf flat=0 cum=17 ->leaf=17
N leaf flat=0 cum=17 ->leaf=17
N leaf flat=0 cum=17 ->leaf=17
N leaf flat=17 cum=17
N leaf flat=23 cum=23
N main flat=0 cum=18 ->[prog]=11 ->rec=7
N main flat=0 cum=2 ->rec=2
N main flat=0 cum=51 ->leaf=17 ->main=19 ->outer=18 ->rec=-3
N main flat=19 cum=19
N outer flat=0 cum=-5 ->inner=-5
N outer flat=0 cum=18 ->inner=18
N outer flat=0 cum=23 ->inner=23
N outer flat=0 cum=23 ->inner=23
N rec flat=-3 cum=-3
N rec flat=-5 cum=-5
N rec flat=0 cum=-3 ->rec=-3
N rec flat=0 cum=-3 ->rec=-3
N rec flat=0 cum=-3 ->rec=-3
N rec flat=0 cum=-3 ->rec=-3
N rec flat=0 cum=-5 ->outer=-5
N rec flat=0 cum=2 ->rec=2
N rec flat=0 cum=7 ->rec=7
N rec flat=0 cum=7 ->rec=7
N rec flat=2 cum=2
N rec flat=7 cum=7
N t1 flat=0 cum=18 ->main=18
N t2 flat=9 cum=11 ->main=2
--- functions idx=1 mean=true call_tree=false
N <unknown> flat=0 cum=2 ->main=2 ->outer=2
N [prog] flat=2 cum=2
N inner flat=2 cum=2 ->leaf=2 ->outer=2 ->rec=-5
N leaf flat=2 cum=2
N main flat=19 cum=2 ->[prog]=2 ->leaf=2 ->outer=1 ->rec=1
N outer flat=0 cum=2 ->inner=2
N rec flat=0 cum=0 ->outer=-5
N t1 flat=0 cum=2 ->main=2
N t2 flat=2 cum=2 ->main=2
--- functions idx=1 mean=true call_tree=true
N <unknown> flat=0 cum=2 ->main=2 ->outer=2
N [prog] flat=2 cum=2
N inner flat=0 cum=-5 ->rec=-5
N inner flat=0 cum=1 ->leaf=2 ->rec=-5
N inner flat=0 cum=2 ->outer=2
N inner flat=2 cum=2
N leaf flat=0 cum=2 ->leaf=2
N leaf flat=0 cum=2 ->leaf=2
N leaf flat=0 cum=2 ->leaf=2
N leaf flat=2 cum=2
N leaf flat=2 cum=2
N main flat=0 cum=2 ->[prog]=2 ->rec=3
N main flat=0 cum=2 ->leaf=2 ->main=19 ->outer=1 ->rec=-1
N main flat=0 cum=2 ->rec=2
N main flat=19 cum=19
N outer flat=0 cum=-5 ->inner=-5
N outer flat=0 cum=1 ->inner=1
N outer flat=0 cum=2 ->inner=2
N outer flat=0 cum=2 ->inner=2
N rec flat=-1 cum=-1
N rec flat=-5 cum=-5
N rec flat=0 cum=-1 ->rec=-1
N rec flat=0 cum=-1 ->rec=-1
N rec flat=0 cum=-1 ->rec=-1
N rec flat=0 cum=-1 ->rec=-1
N rec flat=0 cum=-5 ->outer=-5
N rec flat=0 cum=2 ->rec=2
N rec flat=0 cum=3 ->rec=3
N rec flat=0 cum=3 ->rec=3
N rec flat=2 cum=2
N rec flat=3 cum=3
N t1 flat=0 cum=2 ->main=2
N t2 flat=2 cum=2 ->main=2
=== root=[] leaf=["tenant"] unit=minimum -> rootm=false leafm=true valid=<nil>
F1 "main" "main" "/src/main.go" 10
F2 "outer" "outer" "/src/outer.go" 20
F3 "inner" "inner" "/src/inner.go" 30
F4 "rec" "rec" "/src/rec.go" 40
F5 "leaf" "leaf" "/src/leaf.go" 50
F6 "" "" "tenant" 0
F7 "t1" "" "tenant" 0
F8 "t2" "" "tenant" 0
L1 addr=0x1100 mapping=true folded=false [F1:11:0]
L2 addr=0x1200 mapping=true folded=false [F3:31:0] [F2:21:0]
L3 addr=0x1300 mapping=true folded=false [F4:41:0]
L4 addr=0x1400 mapping=true folded=false
L5 addr=0x1500 mapping=true folded=false [F5:51:0]
L6 addr=0x1600 mapping=true folded=false [F4:42:0] [F4:43:0]
L7 addr=0x1700 mapping=true folded=false [F5:52:0]
L8 addr=0x0 mapping=false folded=false [F6:0:0]
L9 addr=0x0 mapping=false folded=false [F7:0:0]
L10 addr=0x0 mapping=false folded=false [F8:0:0]
S0 [3 10]: L8 L5 L2 L1
S1 [2 7]: L9 L3 L3 L3 L1
S2 [1 -5]: L8 L3 L2 L3 L2 L1
S3 [4 9]: L10
S4 [5 11]: L9 L4 L1
S5 [6 13]: L8 L5 L2 L1
S6 [1 2]: L10 L6 L1
S7 [2 -3]: L8 L6 L6 L3 L1
S8 [7 17]: L8 L7 L5 L7 L5 L1
S9 [0 0]: L8 L5 L1
S10 [0 19]: L8 L1 L1
S11 [8 23]: L8 L2 L2
--- functions idx=0 mean=false call_tree=false
N <unknown> flat=27 cum=27
N [prog] flat=0 cum=5 ->t1=5
N inner flat=0 cum=18 -><unknown>=8 ->leaf=9 ->outer=8 ->rec=1
N leaf flat=0 cum=16 -><unknown>=16
N main flat=0 cum=27 ->[prog]=5 ->leaf=7 ->outer=10 ->rec=5
N outer flat=0 cum=18 ->inner=18
N rec flat=0 cum=6 -><unknown>=3 ->outer=1 ->t1=2 ->t2=1
N t1 flat=7 cum=7
N t2 flat=5 cum=5
--- functions idx=0 mean=false call_tree=true
N <unknown> flat=1 cum=1
N <unknown> flat=2 cum=2
N <unknown> flat=7 cum=7
N <unknown> flat=8 cum=8
N <unknown> flat=9 cum=9
N [prog] flat=0 cum=5 ->t1=5
N inner flat=0 cum=1 ->rec=1
N inner flat=0 cum=10 ->leaf=9 ->rec=1
N inner flat=0 cum=8 -><unknown>=8
N inner flat=0 cum=8 ->outer=8
N leaf flat=0 cum=7 -><unknown>=7
N leaf flat=0 cum=7 ->leaf=7
N leaf flat=0 cum=7 ->leaf=7
N leaf flat=0 cum=7 ->leaf=7
N leaf flat=0 cum=9 -><unknown>=9
N main flat=0 cum=27 ->[prog]=5 ->leaf=7 ->outer=10 ->rec=5
N outer flat=0 cum=1 ->inner=1
N outer flat=0 cum=10 ->inner=10
N outer flat=0 cum=8 ->inner=8
N outer flat=0 cum=8 ->inner=8
N rec flat=0 cum=1 -><unknown>=1
N rec flat=0 cum=1 ->outer=1
N rec flat=0 cum=2 -><unknown>=2
N rec flat=0 cum=2 ->rec=2
N rec flat=0 cum=4 ->rec=2 ->t1=2
N rec flat=0 cum=5 ->rec=4 ->t2=1
N rec flat=0 cum=5 ->rec=5
N t1 flat=2 cum=2
N t1 flat=5 cum=5
N t2 flat=1 cum=1
N t2 flat=4 cum=4
--- functions idx=0 mean=true call_tree=false
N <unknown> flat=1 cum=1
N [prog] flat=0 cum=1 ->t1=1
N inner flat=0 cum=1 -><unknown>=1 ->leaf=1 ->outer=1 ->rec=1
N leaf flat=0 cum=1 -><unknown>=1
N main flat=0 cum=1 ->[prog]=1 ->leaf=1 ->outer=1 ->rec=1
N outer flat=0 cum=1 ->inner=1
N rec flat=0 cum=1 -><unknown>=1 ->outer=1 ->t1=1 ->t2=1
N t1 flat=1 cum=1
N t2 flat=1 cum=1
--- functions idx=0 mean=true call_tree=true
N <unknown> flat=1 cum=1
N <unknown> flat=1 cum=1
N <unknown> flat=1 cum=1
N <unknown> flat=1 cum=1
N <unknown> flat=1 cum=1
N [prog] flat=0 cum=1 ->t1=1
N inner flat=0 cum=1 -><unknown>=1
N inner flat=0 cum=1 ->leaf=1 ->rec=1
N inner flat=0 cum=1 ->outer=1
N inner flat=0 cum=1 ->rec=1
N leaf flat=0 cum=1 -><unknown>=1
N leaf flat=0 cum=1 -><unknown>=1
N leaf flat=0 cum=1 ->leaf=1
N leaf flat=0 cum=1 ->leaf=1
N leaf flat=0 cum=1 ->leaf=1
N main flat=0 cum=1 ->[prog]=1 ->leaf=1 ->outer=1 ->rec=1
N outer flat=0 cum=1 ->inner=1
N outer flat=0 cum=1 ->inner=1
N outer flat=0 cum=1 ->inner=1
N outer flat=0 cum=1 ->inner=1
N rec flat=0 cum=1 -><unknown>=1
N rec flat=0 cum=1 -><unknown>=1
N rec flat=0 cum=1 ->outer=1
N rec flat=0 cum=1 ->rec=1
N rec flat=0 cum=1 ->rec=1
N rec flat=0 cum=1 ->rec=1 ->t1=1
N rec flat=0 cum=1 ->rec=1 ->t2=1
N t1 flat=1 cum=1
N t1 flat=1 cum=1
N t2 flat=1 cum=1
N t2 flat=1 cum=1
--- functions idx=1 mean=false call_tree=false
N <unknown> flat=74 cum=74
N [prog] flat=0 cum=11 ->t1=11
N inner flat=0 cum=41 -><unknown>=23 ->leaf=23 ->outer=23 ->rec=-5
N leaf flat=0 cum=40 -><unknown>=40
N main flat=0 cum=71 -><unknown>=19 ->[prog]=11 ->leaf=17 ->outer=18 ->rec=6
N outer flat=0 cum=41 ->inner=41
N rec flat=0 cum=1 -><unknown>=-8 ->outer=-5 ->t1=7 ->t2=2
N t1 flat=18 cum=18
N t2 flat=11 cum=11
--- functions idx=1 mean=false call_tree=true
N <unknown> flat=-3 cum=-3
N <unknown> flat=-5 cum=-5
N <unknown> flat=17 cum=17
N <unknown> flat=19 cum=19
N <unknown> flat=23 cum=23
N <unknown> flat=23 cum=23
N [prog] flat=0 cum=11 ->t1=11
N inner flat=0 cum=-5 ->rec=-5
N inner flat=0 cum=18 ->leaf=23 ->rec=-5
N inner flat=0 cum=23 -><unknown>=23
N inner flat=0 cum=23 ->outer=23
N leaf flat=0 cum=17 -><unknown>=17
N leaf flat=0 cum=17 ->leaf=17
N leaf flat=0 cum=17 ->leaf=17
N leaf flat=0 cum=17 ->leaf=17
N leaf flat=0 cum=23 -><unknown>=23
N main flat=0 cum=19 -><unknown>=19
N main flat=0 cum=71 ->[prog]=11 ->leaf=17 ->main=19 ->outer=18 ->rec=6
N outer flat=0 cum=-5 ->inner=-5
N outer flat=0 cum=18 ->inner=18
N outer flat=0 cum=23 ->inner=23
N outer flat=0 cum=23 ->inner=23
N rec flat=0 cum=-3 -><unknown>=-3
N rec flat=0 cum=-3 ->rec=-3
N rec flat=0 cum=-5 -><unknown>=-5
N rec flat=0 cum=-5 ->outer=-5
N rec flat=0 cum=4 ->rec=-3 ->t1=7
N rec flat=0 cum=6 ->rec=4 ->t2=2
N rec flat=0 cum=6 ->rec=6
N t1 flat=11 cum=11
N t1 flat=7 cum=7
N t2 flat=2 cum=2
N t2 flat=9 cum=9
--- functions idx=1 mean=true call_tree=false
N <unknown> flat=2 cum=2
N [prog] flat=0 cum=2 ->t1=2
N inner flat=0 cum=2 -><unknown>=2 ->leaf=2 ->outer=2 ->rec=-5
N leaf flat=0 cum=2 -><unknown>=2
N main flat=0 cum=2 -><unknown>=19 ->[prog]=2 ->leaf=2 ->outer=1 ->rec=1
N outer flat=0 cum=2 ->inner=2
N rec flat=0 cum=0 -><unknown>=-2 ->outer=-5 ->t1=3 ->t2=2
N t1 flat=2 cum=2
N t2 flat=2 cum=2
--- functions idx=1 mean=true call_tree=true
N <unknown> flat=-1 cum=-1
N <unknown> flat=-5 cum=-5
N <unknown> flat=19 cum=19
N <unknown> flat=2 cum=2
N <unknown> flat=2 cum=2
N <unknown> flat=2 cum=2
N [prog] flat=0 cum=2 ->t1=2
N inner flat=0 cum=-5 ->rec=-5
N inner flat=0 cum=1 ->leaf=2 ->rec=-5
N inner flat=0 cum=2 -><unknown>=2
N inner flat=0 cum=2 ->outer=2
N leaf flat=0 cum=2 -><unknown>=2
N leaf flat=0 cum=2 -><unknown>=2
N leaf flat=0 cum=2 ->leaf=2
N leaf flat=0 cum=2 ->leaf=2
N leaf flat=0 cum=2 ->leaf=2
N main flat=0 cum=19 -><unknown>=19
N main flat=0 cum=2 ->[prog]=2 ->leaf=2 ->main=19 ->outer=1 ->rec=1
N outer flat=0 cum=-5 ->inner=-5
N outer flat=0 cum=1 ->inner=1
N outer flat=0 cum=2 ->inner=2
N outer flat=0 cum=2 ->inner=2
N rec flat=0 cum=-1 -><unknown>=-1
N rec flat=0 cum=-1 ->rec=-1
N rec flat=0 cum=-5 -><unknown>=-5
N rec flat=0 cum=-5 ->outer=-5
N rec flat=0 cum=1 ->rec=-1 ->t1=3
N rec flat=0 cum=1 ->rec=1
N rec flat=0 cum=1 ->rec=1 ->t2=2
N t1 flat=2 cum=2
N t1 flat=3 cum=3
N t2 flat=2 cum=2
N t2 flat=2 cum=2
=== root=["tenant" "k"] leaf=["bytes"] unit=minimum -> rootm=true leafm=true valid=<nil>
F1 "main" "main" "/src/main.go" 10
F2 "outer" "outer" "/src/outer.go" 20
F3 "inner" "inner" "/src/inner.go" 30
F4 "rec" "rec" "/src/rec.go" 40
F5 "leaf" "leaf" "/src/leaf.go" 50
F6 "" "" "k" 0
F7 "" "" "tenant" 0
F8 "" "" "bytes" 0
F9 "v1" "" "k" 0
F10 "t1" "" "tenant" 0
F11 "t2" "" "tenant" 0
F12 "2kB,4kB" "" "bytes" 0
F13 "7" "" "k" 0
F14 "64" "" "bytes" 0
F15 "v1,v2" "" "k" 0
F16 "64B" "" "bytes" 0
L1 addr=0x1100 mapping=true folded=false [F1:11:0]
L2 addr=0x1200 mapping=true folded=false [F3:31:0] [F2:21:0]
L3 addr=0x1300 mapping=true folded=false [F4:41:0]
L4 addr=0x1400 mapping=true folded=false
L5 addr=0x1500 mapping=true folded=false [F5:51:0]
L6 addr=0x1600 mapping=true folded=false [F4:42:0] [F4:43:0]
L7 addr=0x1700 mapping=true folded=false [F5:52:0]
L8 addr=0x0 mapping=false folded=false [F6:0:0]
L9 addr=0x0 mapping=false folded=false [F7:0:0]
L10 addr=0x0 mapping=false folded=false [F8:0:0]
L11 addr=0x0 mapping=false folded=false [F9:0:0]
L12 addr=0x0 mapping=false folded=false [F10:0:0]
L13 addr=0x0 mapping=false folded=false [F11:0:0]
L14 addr=0x0 mapping=false folded=false [F12:0:0]
L15 addr=0x0 mapping=false folded=false [F13:0:0]
L16 addr=0x0 mapping=false folded=false [F14:0:0]
L17 addr=0x0 mapping=false folded=false [F15:0:0]
L18 addr=0x0 mapping=false folded=false [F16:0:0]
S0 [3 10]: L10 L5 L2 L1 L8 L9
S1 [2 7]: L10 L3 L3 L3 L1 L11 L12
S2 [1 -5]: L10 L3 L2 L3 L2 L1 L8 L9
S3 [4 9]: L14 L8 L13
S4 [5 11]: L16 L4 L1 L15 L12
S5 [6 13]: L18 L5 L2 L1 L17 L9
S6 [1 2]: L10 L6 L1 L8 L13
S7 [2 -3]: L10 L6 L6 L3 L1 L8 L9
S8 [7 17]: L10 L7 L5 L7 L5 L1 L8 L9
S9 [0 0]: L10 L5 L1 L8 L9
S10 [0 19]: L10 L1 L1 L8 L9
S11 [8 23]: L10 L2 L2 L8 L9
--- functions idx=0 mean=false call_tree=false
N 2kB,4kB flat=4 cum=4
N 64 flat=5 cum=5
N 64B flat=6 cum=6
N 7 flat=0 cum=5 ->main=5
N <unknown> flat=24 cum=34 ->2kB,4kB=4 ->main=14 ->outer=8 ->v1,v2=6
N [prog] flat=0 cum=5 ->64=5
N inner flat=0 cum=18 -><unknown>=8 ->leaf=9 ->outer=8 ->rec=1
N leaf flat=0 cum=16 ->64B=6 -><unknown>=10
N main flat=0 cum=27 ->[prog]=5 ->leaf=7 ->outer=10 ->rec=5
N outer flat=0 cum=18 ->inner=18
N rec flat=0 cum=6 -><unknown>=6 ->outer=1
N t1 flat=0 cum=7 ->7=5 ->v1=2
N t2 flat=0 cum=5 -><unknown>=5
N v1 flat=0 cum=2 ->main=2
N v1,v2 flat=0 cum=6 ->main=6
--- functions idx=0 mean=false call_tree=true
N 2kB,4kB flat=4 cum=4
N 64 flat=5 cum=5
N 64B flat=6 cum=6
N 7 flat=0 cum=5 ->main=5
N <unknown> flat=0 cum=21 ->main=13 ->outer=8
N <unknown> flat=0 cum=27 -><unknown>=21 ->v1,v2=6
N <unknown> flat=0 cum=5 ->2kB,4kB=4 ->main=1
N <unknown> flat=1 cum=1
N <unknown> flat=1 cum=1
N <unknown> flat=2 cum=2
N <unknown> flat=2 cum=2
N <unknown> flat=3 cum=3
N <unknown> flat=7 cum=7
N <unknown> flat=8 cum=8
N [prog] flat=0 cum=5 ->64=5
N inner flat=0 cum=1 ->rec=1
N inner flat=0 cum=4 ->leaf=3 ->rec=1
N inner flat=0 cum=6 ->leaf=6
N inner flat=0 cum=8 -><unknown>=8
N inner flat=0 cum=8 ->outer=8
N leaf flat=0 cum=3 -><unknown>=3
N leaf flat=0 cum=6 ->64B=6
N leaf flat=0 cum=7 -><unknown>=7
N leaf flat=0 cum=7 ->leaf=7
N leaf flat=0 cum=7 ->leaf=7
N leaf flat=0 cum=7 ->leaf=7
N main flat=0 cum=1 ->rec=1
N main flat=0 cum=13 ->leaf=7 ->outer=4 ->rec=2
N main flat=0 cum=2 ->rec=2
N main flat=0 cum=5 ->[prog]=5
N main flat=0 cum=6 ->outer=6
N outer flat=0 cum=1 ->inner=1
N outer flat=0 cum=4 ->inner=4
N outer flat=0 cum=6 ->inner=6
N outer flat=0 cum=8 ->inner=8
N outer flat=0 cum=8 ->inner=8
N rec flat=0 cum=1 -><unknown>=1
N rec flat=0 cum=1 -><unknown>=1
N rec flat=0 cum=1 ->outer=1
N rec flat=0 cum=1 ->rec=1
N rec flat=0 cum=2 -><unknown>=2
N rec flat=0 cum=2 -><unknown>=2
N rec flat=0 cum=2 ->rec=2
N rec flat=0 cum=2 ->rec=2
N rec flat=0 cum=2 ->rec=2
N rec flat=0 cum=2 ->rec=2
N rec flat=0 cum=2 ->rec=2
N rec flat=0 cum=2 ->rec=2
N t1 flat=0 cum=7 ->7=5 ->v1=2
N t2 flat=0 cum=5 -><unknown>=5
N v1 flat=0 cum=2 ->main=2
N v1,v2 flat=0 cum=6 ->main=6
--- functions idx=0 mean=true call_tree=false
N 2kB,4kB flat=1 cum=1
N 64 flat=1 cum=1
N 64B flat=1 cum=1
N 7 flat=0 cum=1 ->main=1
N <unknown> flat=1 cum=1 ->2kB,4kB=1 ->main=1 ->outer=1 ->v1,v2=1
N [prog] flat=0 cum=1 ->64=1
N inner flat=0 cum=1 -><unknown>=1 ->leaf=1 ->outer=1 ->rec=1
N leaf flat=0 cum=1 ->64B=1 -><unknown>=1
N main flat=0 cum=1 ->[prog]=1 ->leaf=1 ->outer=1 ->rec=1
N outer flat=0 cum=1 ->inner=1
N rec flat=0 cum=1 -><unknown>=1 ->outer=1
N t1 flat=0 cum=1 ->7=1 ->v1=1
N t2 flat=0 cum=1 -><unknown>=1
N v1 flat=0 cum=1 ->main=1
N v1,v2 flat=0 cum=1 ->main=1
--- functions idx=0 mean=true call_tree=true
N 2kB,4kB flat=1 cum=1
N 64 flat=1 cum=1
N 64B flat=1 cum=1
N 7 flat=0 cum=1 ->main=1
N <unknown> flat=0 cum=1 ->2kB,4kB=1 ->main=1
N <unknown> flat=0 cum=1 -><unknown>=1 ->v1,v2=1
N <unknown> flat=0 cum=1 ->main=1 ->outer=1
N <unknown> flat=1 cum=1
N <unknown> flat=1 cum=1
N <unknown> flat=1 cum=1
N <unknown> flat=1 cum=1
N <unknown> flat=1 cum=1
N <unknown> flat=1 cum=1
N <unknown> flat=1 cum=1
N [prog] flat=0 cum=1 ->64=1
N inner flat=0 cum=1 -><unknown>=1
N inner flat=0 cum=1 ->leaf=1
N inner flat=0 cum=1 ->leaf=1 ->rec=1
N inner flat=0 cum=1 ->outer=1
N inner flat=0 cum=1 ->rec=1
N leaf flat=0 cum=1 ->64B=1
N leaf flat=0 cum=1 -><unknown>=1
N leaf flat=0 cum=1 -><unknown>=1
N leaf flat=0 cum=1 ->leaf=1
N leaf flat=0 cum=1 ->leaf=1
N leaf flat=0 cum=1 ->leaf=1
N main flat=0 cum=1 ->[prog]=1
N main flat=0 cum=1 ->leaf=1 ->outer=1 ->rec=1
N main flat=0 cum=1 ->outer=1
N main flat=0 cum=1 ->rec=1
N main flat=0 cum=1 ->rec=1
N outer flat=0 cum=1 ->inner=1
N outer flat=0 cum=1 ->inner=1
N outer flat=0 cum=1 ->inner=1
N outer flat=0 cum=1 ->inner=1
N outer flat=0 cum=1 ->inner=1
N rec flat=0 cum=1 -><unknown>=1
N rec flat=0 cum=1 -><unknown>=1
N rec flat=0 cum=1 -><unknown>=1
N rec flat=0 cum=1 -><unknown>=1
N rec flat=0 cum=1 ->outer=1
N rec flat=0 cum=1 ->rec=1
N rec flat=0 cum=1 ->rec=1
N rec flat=0 cum=1 ->rec=1
N rec flat=0 cum=1 ->rec=1
N rec flat=0 cum=1 ->rec=1
N rec flat=0 cum=1 ->rec=1
N rec flat=0 cum=1 ->rec=1
N t1 flat=0 cum=1 ->7=1 ->v1=1
N t2 flat=0 cum=1 -><unknown>=1
N v1 flat=0 cum=1 ->main=1
N v1,v2 flat=0 cum=1 ->main=1
--- functions idx=1 mean=false call_tree=false
N 2kB,4kB flat=9 cum=9
N 64 flat=11 cum=11
N 64B flat=13 cum=13
N 7 flat=0 cum=11 ->main=11
N <unknown> flat=70 cum=92 ->2kB,4kB=9 ->main=40 ->outer=23 ->v1,v2=13
N [prog] flat=0 cum=11 ->64=11
N inner flat=0 cum=41 -><unknown>=23 ->leaf=23 ->outer=23 ->rec=-5
N leaf flat=0 cum=40 ->64B=13 -><unknown>=27
N main flat=0 cum=71 -><unknown>=19 ->[prog]=11 ->leaf=17 ->outer=18 ->rec=6
N outer flat=0 cum=41 ->inner=41
N rec flat=0 cum=1 -><unknown>=1 ->outer=-5
N t1 flat=0 cum=18 ->7=11 ->v1=7
N t2 flat=0 cum=11 -><unknown>=11
N v1 flat=0 cum=7 ->main=7
N v1,v2 flat=0 cum=13 ->main=13
--- functions idx=1 mean=false call_tree=true
N 2kB,4kB flat=9 cum=9
N 64 flat=11 cum=11
N 64B flat=13 cum=13
N 7 flat=0 cum=11 ->main=11
N <unknown> flat=-3 cum=-3
N <unknown> flat=-5 cum=-5
N <unknown> flat=0 cum=11 ->2kB,4kB=9 ->main=2
N <unknown> flat=0 cum=61 ->main=38 ->outer=23
N <unknown> flat=0 cum=74 -><unknown>=61 ->v1,v2=13
N <unknown> flat=10 cum=10
N <unknown> flat=17 cum=17
N <unknown> flat=19 cum=19
N <unknown> flat=2 cum=2
N <unknown> flat=23 cum=23
N <unknown> flat=7 cum=7
N [prog] flat=0 cum=11 ->64=11
N inner flat=0 cum=-5 ->rec=-5
N inner flat=0 cum=13 ->leaf=13
N inner flat=0 cum=23 -><unknown>=23
N inner flat=0 cum=23 ->outer=23
N inner flat=0 cum=5 ->leaf=10 ->rec=-5
N leaf flat=0 cum=10 -><unknown>=10
N leaf flat=0 cum=13 ->64B=13
N leaf flat=0 cum=17 -><unknown>=17
N leaf flat=0 cum=17 ->leaf=17
N leaf flat=0 cum=17 ->leaf=17
N leaf flat=0 cum=17 ->leaf=17
N main flat=0 cum=11 ->[prog]=11
N main flat=0 cum=13 ->outer=13
N main flat=0 cum=19 -><unknown>=19
N main flat=0 cum=2 ->rec=2
N main flat=0 cum=38 ->leaf=17 ->main=19 ->outer=5 ->rec=-3
N main flat=0 cum=7 ->rec=7
N outer flat=0 cum=-5 ->inner=-5
N outer flat=0 cum=13 ->inner=13
N outer flat=0 cum=23 ->inner=23
N outer flat=0 cum=23 ->inner=23
N outer flat=0 cum=5 ->inner=5
N rec flat=0 cum=-3 -><unknown>=-3
N rec flat=0 cum=-3 ->rec=-3
N rec flat=0 cum=-3 ->rec=-3
N rec flat=0 cum=-3 ->rec=-3
N rec flat=0 cum=-3 ->rec=-3
N rec flat=0 cum=-5 -><unknown>=-5
N rec flat=0 cum=-5 ->outer=-5
N rec flat=0 cum=2 -><unknown>=2
N rec flat=0 cum=2 ->rec=2
N rec flat=0 cum=7 -><unknown>=7
N rec flat=0 cum=7 ->rec=7
N rec flat=0 cum=7 ->rec=7
N t1 flat=0 cum=18 ->7=11 ->v1=7
N t2 flat=0 cum=11 -><unknown>=11
N v1 flat=0 cum=7 ->main=7
N v1,v2 flat=0 cum=13 ->main=13
--- functions idx=1 mean=true call_tree=false
N 2kB,4kB flat=2 cum=2
N 64 flat=2 cum=2
N 64B flat=2 cum=2
N 7 flat=0 cum=2 ->main=2
N <unknown> flat=2 cum=2 ->2kB,4kB=2 ->main=2 ->outer=2 ->v1,v2=2
N [prog] flat=0 cum=2 ->64=2
N inner flat=0 cum=2 -><unknown>=2 ->leaf=2 ->outer=2 ->rec=-5
N leaf flat=0 cum=2 ->64B=2 -><unknown>=2
N main flat=0 cum=2 -><unknown>=19 ->[prog]=2 ->leaf=2 ->outer=1 ->rec=1
N outer flat=0 cum=2 ->inner=2
N rec flat=0 cum=0 -><unknown>=0 ->outer=-5
N t1 flat=0 cum=2 ->7=2 ->v1=3
N t2 flat=0 cum=2 -><unknown>=2
N v1 flat=0 cum=3 ->main=3
N v1,v2 flat=0 cum=2 ->main=2
--- functions idx=1 mean=true call_tree=true
N 2kB,4kB flat=2 cum=2
N 64 flat=2 cum=2
N 64B flat=2 cum=2
N 7 flat=0 cum=2 ->main=2
N <unknown> flat=-1 cum=-1
N <unknown> flat=-5 cum=-5
N <unknown> flat=0 cum=2 ->2kB,4kB=2 ->main=2
N <unknown> flat=0 cum=2 -><unknown>=2 ->v1,v2=2
N <unknown> flat=0 cum=2 ->main=2 ->outer=2
N <unknown> flat=19 cum=19
N <unknown> flat=2 cum=2
N <unknown> flat=2 cum=2
N <unknown> flat=2 cum=2
N <unknown> flat=3 cum=3
N <unknown> flat=3 cum=3
N [prog] flat=0 cum=2 ->64=2
N inner flat=0 cum=-5 ->rec=-5
N inner flat=0 cum=1 ->leaf=3 ->rec=-5
N inner flat=0 cum=2 -><unknown>=2
N inner flat=0 cum=2 ->leaf=2
N inner flat=0 cum=2 ->outer=2
N leaf flat=0 cum=2 ->64B=2
N leaf flat=0 cum=2 -><unknown>=2
N leaf flat=0 cum=2 ->leaf=2
N leaf flat=0 cum=2 ->leaf=2
N leaf flat=0 cum=2 ->leaf=2
N leaf flat=0 cum=3 -><unknown>=3
N main flat=0 cum=19 -><unknown>=19
N main flat=0 cum=2 ->[prog]=2
N main flat=0 cum=2 ->leaf=2 ->main=19 ->outer=1 ->rec=-1
N main flat=0 cum=2 ->outer=2
N main flat=0 cum=2 ->rec=2
N main flat=0 cum=3 ->rec=3
N outer flat=0 cum=-5 ->inner=-5
N outer flat=0 cum=1 ->inner=1
N outer flat=0 cum=2 ->inner=2
N outer flat=0 cum=2 ->inner=2
N outer flat=0 cum=2 ->inner=2
N rec flat=0 cum=-1 -><unknown>=-1
N rec flat=0 cum=-1 ->rec=-1
N rec flat=0 cum=-1 ->rec=-1
N rec flat=0 cum=-1 ->rec=-1
N rec flat=0 cum=-1 ->rec=-1
N rec flat=0 cum=-5 -><unknown>=-5
N rec flat=0 cum=-5 ->outer=-5
N rec flat=0 cum=2 -><unknown>=2
N rec flat=0 cum=2 ->rec=2
N rec flat=0 cum=3 -><unknown>=3
N rec flat=0 cum=3 ->rec=3
N rec flat=0 cum=3 ->rec=3
N t1 flat=0 cum=2 ->7=2 ->v1=3
N t2 flat=0 cum=2 -><unknown>=2
N v1 flat=0 cum=3 ->main=3
N v1,v2 flat=0 cum=2 ->main=2
=== root=["bytes" "tenant"] leaf=["k" "bad" "tenant"] unit=kb -> rootm=true leafm=true valid=<nil>
F1 "main" "main" "/src/main.go" 10
F2 "outer" "outer" "/src/outer.go" 20
F3 "inner" "inner" "/src/inner.go" 30
F4 "rec" "rec" "/src/rec.go" 40
F5 "leaf" "leaf" "/src/leaf.go" 50
F6 "" "" "tenant" 0
F7 "" "" "bytes" 0
F8 "" "" "bad" 0
F9 "" "" "k" 0
F10 "t1" "" "tenant" 0
F11 "v1" "" "k" 0
F12 "t2" "" "tenant" 0
F13 "2kB,4kB" "" "bytes" 0
F14 "64" "" "bytes" 0
F15 "7" "" "k" 0
F16 "0.06kB" "" "bytes" 0
F17 "v1,v2" "" "k" 0
F18 "s" "" "bad" 0
L1 addr=0x1100 mapping=true folded=false [F1:11:0]
L2 addr=0x1200 mapping=true folded=false [F3:31:0] [F2:21:0]
L3 addr=0x1300 mapping=true folded=false [F4:41:0]
L4 addr=0x1400 mapping=true folded=false
L5 addr=0x1500 mapping=true folded=false [F5:51:0]
L6 addr=0x1600 mapping=true folded=false [F4:42:0] [F4:43:0]
L7 addr=0x1700 mapping=true folded=false [F5:52:0]
L8 addr=0x0 mapping=false folded=false [F6:0:0]
L9 addr=0x0 mapping=false folded=false [F7:0:0]
L10 addr=0x0 mapping=false folded=false [F8:0:0]
L11 addr=0x0 mapping=false folded=false [F9:0:0]
L12 addr=0x0 mapping=false folded=false [F10:0:0]
L13 addr=0x0 mapping=false folded=false [F11:0:0]
L14 addr=0x0 mapping=false folded=false [F12:0:0]
L15 addr=0x0 mapping=false folded=false [F13:0:0]
L16 addr=0x0 mapping=false folded=false [F14:0:0]
L17 addr=0x0 mapping=false folded=false [F15:0:0]
L18 addr=0x0 mapping=false folded=false [F16:0:0]
L19 addr=0x0 mapping=false folded=false [F17:0:0]
L20 addr=0x0 mapping=false folded=false [F18:0:0]
S0 [3 10]: L8 L10 L11 L5 L2 L1 L8 L9
S1 [2 7]: L12 L10 L13 L3 L3 L3 L1 L12 L9
S2 [1 -5]: L8 L10 L11 L3 L2 L3 L2 L1 L8 L9
S3 [4 9]: L14 L10 L11 L14 L15
S4 [5 11]: L12 L10 L17 L4 L1 L12 L16
S5 [6 13]: L8 L10 L19 L5 L2 L1 L8 L18
S6 [1 2]: L14 L20 L11 L6 L1 L14 L9
S7 [2 -3]: L8 L10 L11 L6 L6 L3 L1 L8 L9
S8 [7 17]: L8 L10 L11 L7 L5 L7 L5 L1 L8 L9
S9 [0 0]: L8 L10 L11 L5 L1 L8 L9
S10 [0 19]: L8 L10 L11 L1 L1 L8 L9
S11 [8 23]: L8 L10 L11 L2 L2 L8 L9
--- functions idx=0 mean=false call_tree=false
N 0.06kB flat=0 cum=6 -><unknown>=6
N 2kB,4kB flat=0 cum=4 ->t2=4
N 64 flat=0 cum=5 ->t1=5
N 7 flat=0 cum=5 -><unknown>=5
N <unknown> flat=27 cum=39 ->main=19 ->outer=8 ->s=1 ->t1=7 ->t2=5
N [prog] flat=0 cum=5 ->7=5
N inner flat=0 cum=18 -><unknown>=8 ->leaf=9 ->outer=8 ->rec=1
N leaf flat=0 cum=16 -><unknown>=10 ->v1,v2=6
N main flat=0 cum=27 ->[prog]=5 ->leaf=7 ->outer=10 ->rec=5
N outer flat=0 cum=18 ->inner=18
N rec flat=0 cum=6 -><unknown>=4 ->outer=1 ->v1=2
N s flat=0 cum=1 ->t2=1
N t1 flat=7 cum=7 ->main=7
N t2 flat=5 cum=5 -><unknown>=4 ->main=1
N v1 flat=0 cum=2 -><unknown>=2
N v1,v2 flat=0 cum=6 -><unknown>=6
--- functions idx=0 mean=false call_tree=true
N 0.06kB flat=0 cum=6 -><unknown>=6
N 2kB,4kB flat=0 cum=4 ->t2=4
N 64 flat=0 cum=5 ->t1=5
N 7 flat=0 cum=5 -><unknown>=5
N <unknown> flat=0 cum=1 -><unknown>=1
N <unknown> flat=0 cum=1 -><unknown>=1
N <unknown> flat=0 cum=1 ->s=1
N <unknown> flat=0 cum=2 -><unknown>=2
N <unknown> flat=0 cum=2 -><unknown>=2
N <unknown> flat=0 cum=2 ->t1=2
N <unknown> flat=0 cum=21 ->main=13 ->outer=8
N <unknown> flat=0 cum=24 -><unknown>=21 ->t1=2 ->t2=1
N <unknown> flat=0 cum=3 -><unknown>=3
N <unknown> flat=0 cum=3 -><unknown>=3
N <unknown> flat=0 cum=4 -><unknown>=4
N <unknown> flat=0 cum=4 ->t2=4
N <unknown> flat=0 cum=5 ->t1=5
N <unknown> flat=0 cum=6 -><unknown>=6
N <unknown> flat=0 cum=6 ->main=6
N <unknown> flat=0 cum=7 -><unknown>=7
N <unknown> flat=0 cum=7 -><unknown>=7
N <unknown> flat=0 cum=8 -><unknown>=8
N <unknown> flat=0 cum=8 -><unknown>=8
N <unknown> flat=1 cum=1
N <unknown> flat=2 cum=2
N <unknown> flat=3 cum=3
N <unknown> flat=6 cum=6
N <unknown> flat=7 cum=7
N <unknown> flat=8 cum=8
N [prog] flat=0 cum=5 ->7=5
N inner flat=0 cum=1 ->rec=1
N inner flat=0 cum=4 ->leaf=3 ->rec=1
N inner flat=0 cum=6 ->leaf=6
N inner flat=0 cum=8 -><unknown>=8
N inner flat=0 cum=8 ->outer=8
N leaf flat=0 cum=3 -><unknown>=3
N leaf flat=0 cum=6 ->v1,v2=6
N leaf flat=0 cum=7 -><unknown>=7
N leaf flat=0 cum=7 ->leaf=7
N leaf flat=0 cum=7 ->leaf=7
N leaf flat=0 cum=7 ->leaf=7
N main flat=0 cum=1 ->rec=1
N main flat=0 cum=13 ->leaf=7 ->outer=4 ->rec=2
N main flat=0 cum=2 ->rec=2
N main flat=0 cum=5 ->[prog]=5
N main flat=0 cum=6 ->outer=6
N outer flat=0 cum=1 ->inner=1
N outer flat=0 cum=4 ->inner=4
N outer flat=0 cum=6 ->inner=6
N outer flat=0 cum=8 ->inner=8
N outer flat=0 cum=8 ->inner=8
N rec flat=0 cum=1 -><unknown>=1
N rec flat=0 cum=1 -><unknown>=1
N rec flat=0 cum=1 ->outer=1
N rec flat=0 cum=1 ->rec=1
N rec flat=0 cum=2 -><unknown>=2
N rec flat=0 cum=2 ->rec=2
N rec flat=0 cum=2 ->rec=2
N rec flat=0 cum=2 ->rec=2
N rec flat=0 cum=2 ->rec=2
N rec flat=0 cum=2 ->rec=2
N rec flat=0 cum=2 ->rec=2
N rec flat=0 cum=2 ->v1=2
N s flat=0 cum=1 ->t2=1
N t1 flat=0 cum=2 ->main=2
N t1 flat=0 cum=5 ->main=5
N t1 flat=2 cum=2
N t1 flat=5 cum=5
N t2 flat=0 cum=1 ->main=1
N t2 flat=0 cum=4 -><unknown>=4
N t2 flat=1 cum=1
N t2 flat=4 cum=4
N v1 flat=0 cum=2 -><unknown>=2
N v1,v2 flat=0 cum=6 -><unknown>=6
--- functions idx=0 mean=true call_tree=false
N 0.06kB flat=0 cum=1 -><unknown>=1
N 2kB,4kB flat=0 cum=1 ->t2=1
N 64 flat=0 cum=1 ->t1=1
N 7 flat=0 cum=1 -><unknown>=1
N <unknown> flat=1 cum=1 ->main=1 ->outer=1 ->s=1 ->t1=1 ->t2=1
N [prog] flat=0 cum=1 ->7=1
N inner flat=0 cum=1 -><unknown>=1 ->leaf=1 ->outer=1 ->rec=1
N leaf flat=0 cum=1 -><unknown>=1 ->v1,v2=1
N main flat=0 cum=1 ->[prog]=1 ->leaf=1 ->outer=1 ->rec=1
N outer flat=0 cum=1 ->inner=1
N rec flat=0 cum=1 -><unknown>=1 ->outer=1 ->v1=1
N s flat=0 cum=1 ->t2=1
N t1 flat=1 cum=1 ->main=1
N t2 flat=1 cum=1 -><unknown>=1 ->main=1
N v1 flat=0 cum=1 -><unknown>=1
N v1,v2 flat=0 cum=1 -><unknown>=1
--- functions idx=0 mean=true call_tree=true
N 0.06kB flat=0 cum=1 -><unknown>=1
N 2kB,4kB flat=0 cum=1 ->t2=1
N 64 flat=0 cum=1 ->t1=1
N 7 flat=0 cum=1 -><unknown>=1
N <unknown> flat=0 cum=1 -><unknown>=1
N <unknown> flat=0 cum=1 -><unknown>=1
N <unknown> flat=0 cum=1 -><unknown>=1
N <unknown> flat=0 cum=1 -><unknown>=1
N <unknown> flat=0 cum=1 -><unknown>=1
N <unknown> flat=0 cum=1 -><unknown>=1
N <unknown> flat=0 cum=1 -><unknown>=1
N <unknown> flat=0 cum=1 -><unknown>=1
N <unknown> flat=0 cum=1 -><unknown>=1
N <unknown> flat=0 cum=1 -><unknown>=1
N <unknown> flat=0 cum=1 -><unknown>=1
N <unknown> flat=0 cum=1 -><unknown>=1
N <unknown> flat=0 cum=1 -><unknown>=1 ->t1=1 ->t2=1
N <unknown> flat=0 cum=1 ->main=1
N <unknown> flat=0 cum=1 ->main=1 ->outer=1
N <unknown> flat=0 cum=1 ->s=1
N <unknown> flat=0 cum=1 ->t1=1
N <unknown> flat=0 cum=1 ->t1=1
N <unknown> flat=0 cum=1 ->t2=1
N <unknown> flat=1 cum=1
N <unknown> flat=1 cum=1
N <unknown> flat=1 cum=1
N <unknown> flat=1 cum=1
N <unknown> flat=1 cum=1
N <unknown> flat=1 cum=1
N [prog] flat=0 cum=1 ->7=1
N inner flat=0 cum=1 -><unknown>=1
N inner flat=0 cum=1 ->leaf=1
N inner flat=0 cum=1 ->leaf=1 ->rec=1
N inner flat=0 cum=1 ->outer=1
N inner flat=0 cum=1 ->rec=1
N leaf flat=0 cum=1 -><unknown>=1
N leaf flat=0 cum=1 -><unknown>=1
N leaf flat=0 cum=1 ->leaf=1
N leaf flat=0 cum=1 ->leaf=1
N leaf flat=0 cum=1 ->leaf=1
N leaf flat=0 cum=1 ->v1,v2=1
N main flat=0 cum=1 ->[prog]=1
N main flat=0 cum=1 ->leaf=1 ->outer=1 ->rec=1
N main flat=0 cum=1 ->outer=1
N main flat=0 cum=1 ->rec=1
N main flat=0 cum=1 ->rec=1
N outer flat=0 cum=1 ->inner=1
N outer flat=0 cum=1 ->inner=1
N outer flat=0 cum=1 ->inner=1
N outer flat=0 cum=1 ->inner=1
N outer flat=0 cum=1 ->inner=1
N rec flat=0 cum=1 -><unknown>=1
N rec flat=0 cum=1 -><unknown>=1
N rec flat=0 cum=1 -><unknown>=1
N rec flat=0 cum=1 ->outer=1
N rec flat=0 cum=1 ->rec=1
N rec flat=0 cum=1 ->rec=1
N rec flat=0 cum=1 ->rec=1
N rec flat=0 cum=1 ->rec=1
N rec flat=0 cum=1 ->rec=1
N rec flat=0 cum=1 ->rec=1
N rec flat=0 cum=1 ->rec=1
N rec flat=0 cum=1 ->v1=1
N s flat=0 cum=1 ->t2=1
N t1 flat=0 cum=1 ->main=1
N t1 flat=0 cum=1 ->main=1
N t1 flat=1 cum=1
N t1 flat=1 cum=1
N t2 flat=0 cum=1 -><unknown>=1
N t2 flat=0 cum=1 ->main=1
N t2 flat=1 cum=1
N t2 flat=1 cum=1
N v1 flat=0 cum=1 -><unknown>=1
N v1,v2 flat=0 cum=1 -><unknown>=1
--- functions idx=1 mean=false call_tree=false
N 0.06kB flat=0 cum=13 -><unknown>=13
N 2kB,4kB flat=0 cum=9 ->t2=9
N 64 flat=0 cum=11 ->t1=11
N 7 flat=0 cum=11 -><unknown>=11
N <unknown> flat=74 cum=103 ->main=51 ->outer=23 ->s=2 ->t1=18 ->t2=11
N [prog] flat=0 cum=11 ->7=11
N inner flat=0 cum=41 -><unknown>=23 ->leaf=23 ->outer=23 ->rec=-5
N leaf flat=0 cum=40 -><unknown>=27 ->v1,v2=13
N main flat=0 cum=71 -><unknown>=19 ->[prog]=11 ->leaf=17 ->outer=18 ->rec=6
N outer flat=0 cum=41 ->inner=41
N rec flat=0 cum=1 -><unknown>=-6 ->outer=-5 ->v1=7
N s flat=0 cum=2 ->t2=2
N t1 flat=18 cum=18 ->main=18
N t2 flat=11 cum=11 -><unknown>=9 ->main=2
N v1 flat=0 cum=7 -><unknown>=7
N v1,v2 flat=0 cum=13 -><unknown>=13
--- functions idx=1 mean=false call_tree=true
N 0.06kB flat=0 cum=13 -><unknown>=13
N 2kB,4kB flat=0 cum=9 ->t2=9
N 64 flat=0 cum=11 ->t1=11
N 7 flat=0 cum=11 -><unknown>=11
N <unknown> flat=-3 cum=-3
N <unknown> flat=-5 cum=-5
N <unknown> flat=0 cum=-3 -><unknown>=-3
N <unknown> flat=0 cum=-3 -><unknown>=-3
N <unknown> flat=0 cum=-5 -><unknown>=-5
N <unknown> flat=0 cum=-5 -><unknown>=-5
N <unknown> flat=0 cum=10 -><unknown>=10
N <unknown> flat=0 cum=10 -><unknown>=10
N <unknown> flat=0 cum=11 ->t1=11
N <unknown> flat=0 cum=13 -><unknown>=13
N <unknown> flat=0 cum=13 ->main=13
N <unknown> flat=0 cum=17 -><unknown>=17
N <unknown> flat=0 cum=17 -><unknown>=17
N <unknown> flat=0 cum=19 -><unknown>=19
N <unknown> flat=0 cum=19 -><unknown>=19
N <unknown> flat=0 cum=2 ->s=2
N <unknown> flat=0 cum=23 -><unknown>=23
N <unknown> flat=0 cum=23 -><unknown>=23
N <unknown> flat=0 cum=61 ->main=38 ->outer=23
N <unknown> flat=0 cum=7 ->t1=7
N <unknown> flat=0 cum=70 -><unknown>=61 ->t1=7 ->t2=2
N <unknown> flat=0 cum=9 -><unknown>=9
N <unknown> flat=0 cum=9 ->t2=9
N <unknown> flat=10 cum=10
N <unknown> flat=13 cum=13
N <unknown> flat=17 cum=17
N <unknown> flat=19 cum=19
N <unknown> flat=23 cum=23
N [prog] flat=0 cum=11 ->7=11
N inner flat=0 cum=-5 ->rec=-5
N inner flat=0 cum=13 ->leaf=13
N inner flat=0 cum=23 -><unknown>=23
N inner flat=0 cum=23 ->outer=23
N inner flat=0 cum=5 ->leaf=10 ->rec=-5
N leaf flat=0 cum=10 -><unknown>=10
N leaf flat=0 cum=13 ->v1,v2=13
N leaf flat=0 cum=17 -><unknown>=17
N leaf flat=0 cum=17 ->leaf=17
N leaf flat=0 cum=17 ->leaf=17
N leaf flat=0 cum=17 ->leaf=17
N main flat=0 cum=11 ->[prog]=11
N main flat=0 cum=13 ->outer=13
N main flat=0 cum=19 -><unknown>=19
N main flat=0 cum=2 ->rec=2
N main flat=0 cum=38 ->leaf=17 ->main=19 ->outer=5 ->rec=-3
N main flat=0 cum=7 ->rec=7
N outer flat=0 cum=-5 ->inner=-5
N outer flat=0 cum=13 ->inner=13
N outer flat=0 cum=23 ->inner=23
N outer flat=0 cum=23 ->inner=23
N outer flat=0 cum=5 ->inner=5
N rec flat=0 cum=-3 -><unknown>=-3
N rec flat=0 cum=-3 ->rec=-3
N rec flat=0 cum=-3 ->rec=-3
N rec flat=0 cum=-3 ->rec=-3
N rec flat=0 cum=-3 ->rec=-3
N rec flat=0 cum=-5 -><unknown>=-5
N rec flat=0 cum=-5 ->outer=-5
N rec flat=0 cum=2 -><unknown>=2
N rec flat=0 cum=2 ->rec=2
N rec flat=0 cum=7 ->rec=7
N rec flat=0 cum=7 ->rec=7
N rec flat=0 cum=7 ->v1=7
N s flat=0 cum=2 ->t2=2
N t1 flat=0 cum=11 ->main=11
N t1 flat=0 cum=7 ->main=7
N t1 flat=11 cum=11
N t1 flat=7 cum=7
N t2 flat=0 cum=2 ->main=2
N t2 flat=0 cum=9 -><unknown>=9
N t2 flat=2 cum=2
N t2 flat=9 cum=9
N v1 flat=0 cum=7 -><unknown>=7
N v1,v2 flat=0 cum=13 -><unknown>=13
--- functions idx=1 mean=true call_tree=false
N 0.06kB flat=0 cum=2 -><unknown>=2
N 2kB,4kB flat=0 cum=2 ->t2=2
N 64 flat=0 cum=2 ->t1=2
N 7 flat=0 cum=2 -><unknown>=2
N <unknown> flat=2 cum=2 ->main=2 ->outer=2 ->s=2 ->t1=2 ->t2=2
N [prog] flat=0 cum=2 ->7=2
N inner flat=0 cum=2 -><unknown>=2 ->leaf=2 ->outer=2 ->rec=-5
N leaf flat=0 cum=2 -><unknown>=2 ->v1,v2=2
N main flat=0 cum=2 -><unknown>=19 ->[prog]=2 ->leaf=2 ->outer=1 ->rec=1
N outer flat=0 cum=2 ->inner=2
N rec flat=0 cum=0 -><unknown>=-1 ->outer=-5 ->v1=3
N s flat=0 cum=2 ->t2=2
N t1 flat=2 cum=2 ->main=2
N t2 flat=2 cum=2 -><unknown>=2 ->main=2
N v1 flat=0 cum=3 -><unknown>=3
N v1,v2 flat=0 cum=2 -><unknown>=2
--- functions idx=1 mean=true call_tree=true
N 0.06kB flat=0 cum=2 -><unknown>=2
N 2kB,4kB flat=0 cum=2 ->t2=2
N 64 flat=0 cum=2 ->t1=2
N 7 flat=0 cum=2 -><unknown>=2
N <unknown> flat=-1 cum=-1
N <unknown> flat=-5 cum=-5
N <unknown> flat=0 cum=-1 -><unknown>=-1
N <unknown> flat=0 cum=-1 -><unknown>=-1
N <unknown> flat=0 cum=-5 -><unknown>=-5
N <unknown> flat=0 cum=-5 -><unknown>=-5
N <unknown> flat=0 cum=19 -><unknown>=19
N <unknown> flat=0 cum=19 -><unknown>=19
N <unknown> flat=0 cum=2 -><unknown>=2
N <unknown> flat=0 cum=2 -><unknown>=2
N <unknown> flat=0 cum=2 -><unknown>=2
N <unknown> flat=0 cum=2 -><unknown>=2
N <unknown> flat=0 cum=2 -><unknown>=2
N <unknown> flat=0 cum=2 -><unknown>=2
N <unknown> flat=0 cum=2 -><unknown>=2 ->t1=3 ->t2=2
N <unknown> flat=0 cum=2 ->main=2
N <unknown> flat=0 cum=2 ->main=2 ->outer=2
N <unknown> flat=0 cum=2 ->s=2
N <unknown> flat=0 cum=2 ->t1=2
N <unknown> flat=0 cum=2 ->t2=2
N <unknown> flat=0 cum=3 -><unknown>=3
N <unknown> flat=0 cum=3 -><unknown>=3
N <unknown> flat=0 cum=3 ->t1=3
N <unknown> flat=19 cum=19
N <unknown> flat=2 cum=2
N <unknown> flat=2 cum=2
N <unknown> flat=2 cum=2
N <unknown> flat=3 cum=3
N [prog] flat=0 cum=2 ->7=2
N inner flat=0 cum=-5 ->rec=-5
N inner flat=0 cum=1 ->leaf=3 ->rec=-5
N inner flat=0 cum=2 -><unknown>=2
N inner flat=0 cum=2 ->leaf=2
N inner flat=0 cum=2 ->outer=2
N leaf flat=0 cum=2 -><unknown>=2
N leaf flat=0 cum=2 ->leaf=2
N leaf flat=0 cum=2 ->leaf=2
N leaf flat=0 cum=2 ->leaf=2
N leaf flat=0 cum=2 ->v1,v2=2
N leaf flat=0 cum=3 -><unknown>=3
N main flat=0 cum=19 -><unknown>=19
N main flat=0 cum=2 ->[prog]=2
N main flat=0 cum=2 ->leaf=2 ->main=19 ->outer=1 ->rec=-1
N main flat=0 cum=2 ->outer=2
N main flat=0 cum=2 ->rec=2
N main flat=0 cum=3 ->rec=3
N outer flat=0 cum=-5 ->inner=-5
N outer flat=0 cum=1 ->inner=1
N outer flat=0 cum=2 ->inner=2
N outer flat=0 cum=2 ->inner=2
N outer flat=0 cum=2 ->inner=2
N rec flat=0 cum=-1 -><unknown>=-1
N rec flat=0 cum=-1 ->rec=-1
N rec flat=0 cum=-1 ->rec=-1
N rec flat=0 cum=-1 ->rec=-1
N rec flat=0 cum=-1 ->rec=-1
N rec flat=0 cum=-5 -><unknown>=-5
N rec flat=0 cum=-5 ->outer=-5
N rec flat=0 cum=2 -><unknown>=2
N rec flat=0 cum=2 ->rec=2
N rec flat=0 cum=3 ->rec=3
N rec flat=0 cum=3 ->rec=3
N rec flat=0 cum=3 ->v1=3
N s flat=0 cum=2 ->t2=2
N t1 flat=0 cum=2 ->main=2
N t1 flat=0 cum=3 ->main=3
N t1 flat=2 cum=2
N t1 flat=3 cum=3
N t2 flat=0 cum=2 -><unknown>=2
N t2 flat=0 cum=2 ->main=2
N t2 flat=2 cum=2
N t2 flat=2 cum=2
N v1 flat=0 cum=3 -><unknown>=3
N v1,v2 flat=0 cum=2 -><unknown>=2
=== root=["nosuch"] leaf=["nosuch" "nosuch2"] unit=minimum -> rootm=false leafm=false valid=<nil>
F1 "main" "main" "/src/main.go" 10
F2 "outer" "outer" "/src/outer.go" 20
F3 "inner" "inner" "/src/inner.go" 30
F4 "rec" "rec" "/src/rec.go" 40
F5 "leaf" "leaf" "/src/leaf.go" 50
F6 "" "" "nosuch" 0
F7 "" "" "nosuch2" 0
L1 addr=0x1100 mapping=true folded=false [F1:11:0]
L2 addr=0x1200 mapping=true folded=false [F3:31:0] [F2:21:0]
L3 addr=0x1300 mapping=true folded=false [F4:41:0]
L4 addr=0x1400 mapping=true folded=false
L5 addr=0x1500 mapping=true folded=false [F5:51:0]
L6 addr=0x1600 mapping=true folded=false [F4:42:0] [F4:43:0]
L7 addr=0x1700 mapping=true folded=false [F5:52:0]
L8 addr=0x0 mapping=false folded=false [F6:0:0]
L9 addr=0x0 mapping=false folded=false [F7:0:0]
S0 [3 10]: L9 L8 L5 L2 L1 L8
S1 [2 7]: L9 L8 L3 L3 L3 L1 L8
S2 [1 -5]: L9 L8 L3 L2 L3 L2 L1 L8
S3 [4 9]: L9 L8 L8
S4 [5 11]: L9 L8 L4 L1 L8
S5 [6 13]: L9 L8 L5 L2 L1 L8
S6 [1 2]: L9 L8 L6 L1 L8
S7 [2 -3]: L9 L8 L6 L6 L3 L1 L8
S8 [7 17]: L9 L8 L7 L5 L7 L5 L1 L8
S9 [0 0]: L9 L8 L5 L1 L8
S10 [0 19]: L9 L8 L1 L1 L8
S11 [8 23]: L9 L8 L2 L2 L8
--- functions idx=0 mean=false call_tree=false
N <unknown> flat=39 cum=39 ->main=27 ->outer=8
N [prog] flat=0 cum=5 -><unknown>=5
N inner flat=0 cum=18 -><unknown>=8 ->leaf=9 ->outer=8 ->rec=1
N leaf flat=0 cum=16 -><unknown>=16
N main flat=0 cum=27 ->[prog]=5 ->leaf=7 ->outer=10 ->rec=5
N outer flat=0 cum=18 ->inner=18
N rec flat=0 cum=6 -><unknown>=6 ->outer=1
--- functions idx=0 mean=false call_tree=true
N <unknown> flat=0 cum=1 -><unknown>=1
N <unknown> flat=0 cum=1 -><unknown>=1
N <unknown> flat=0 cum=2 -><unknown>=2
N <unknown> flat=0 cum=2 -><unknown>=2
N <unknown> flat=0 cum=39 -><unknown>=4 ->main=27 ->outer=8
N <unknown> flat=0 cum=4 -><unknown>=4
N <unknown> flat=0 cum=5 -><unknown>=5
N <unknown> flat=0 cum=7 -><unknown>=7
N <unknown> flat=0 cum=8 -><unknown>=8
N <unknown> flat=0 cum=9 -><unknown>=9
N <unknown> flat=1 cum=1
N <unknown> flat=1 cum=1
N <unknown> flat=2 cum=2
N <unknown> flat=2 cum=2
N <unknown> flat=4 cum=4
N <unknown> flat=5 cum=5
N <unknown> flat=7 cum=7
N <unknown> flat=8 cum=8
N <unknown> flat=9 cum=9
N [prog] flat=0 cum=5 -><unknown>=5
N inner flat=0 cum=1 ->rec=1
N inner flat=0 cum=10 ->leaf=9 ->rec=1
N inner flat=0 cum=8 -><unknown>=8
N inner flat=0 cum=8 ->outer=8
N leaf flat=0 cum=7 -><unknown>=7
N leaf flat=0 cum=7 ->leaf=7
N leaf flat=0 cum=7 ->leaf=7
N leaf flat=0 cum=7 ->leaf=7
N leaf flat=0 cum=9 -><unknown>=9
N main flat=0 cum=27 ->[prog]=5 ->leaf=7 ->outer=10 ->rec=5
N outer flat=0 cum=1 ->inner=1
N outer flat=0 cum=10 ->inner=10
N outer flat=0 cum=8 ->inner=8
N outer flat=0 cum=8 ->inner=8
N rec flat=0 cum=1 -><unknown>=1
N rec flat=0 cum=1 ->outer=1
N rec flat=0 cum=2 -><unknown>=2
N rec flat=0 cum=2 ->rec=2
N rec flat=0 cum=4 -><unknown>=2 ->rec=2
N rec flat=0 cum=5 -><unknown>=1 ->rec=4
N rec flat=0 cum=5 ->rec=5
--- functions idx=0 mean=true call_tree=false
N <unknown> flat=1 cum=1 ->main=1 ->outer=1
N [prog] flat=0 cum=1 -><unknown>=1
N inner flat=0 cum=1 -><unknown>=1 ->leaf=1 ->outer=1 ->rec=1
N leaf flat=0 cum=1 -><unknown>=1
N main flat=0 cum=1 ->[prog]=1 ->leaf=1 ->outer=1 ->rec=1
N outer flat=0 cum=1 ->inner=1
N rec flat=0 cum=1 -><unknown>=1 ->outer=1
--- functions idx=0 mean=true call_tree=true
N <unknown> flat=0 cum=1 -><unknown>=1
N <unknown> flat=0 cum=1 -><unknown>=1
N <unknown> flat=0 cum=1 -><unknown>=1
N <unknown> flat=0 cum=1 -><unknown>=1
N <unknown> flat=0 cum=1 -><unknown>=1
N <unknown> flat=0 cum=1 -><unknown>=1
N <unknown> flat=0 cum=1 -><unknown>=1
N <unknown> flat=0 cum=1 -><unknown>=1
N <unknown> flat=0 cum=1 -><unknown>=1
N <unknown> flat=0 cum=1 -><unknown>=1 ->main=1 ->outer=1
N <unknown> flat=1 cum=1
N <unknown> flat=1 cum=1
N <unknown> flat=1 cum=1
N <unknown> flat=1 cum=1
N <unknown> flat=1 cum=1
N <unknown> flat=1 cum=1
N <unknown> flat=1 cum=1
N <unknown> flat=1 cum=1
N <unknown> flat=1 cum=1
N [prog] flat=0 cum=1 -><unknown>=1
N inner flat=0 cum=1 -><unknown>=1
N inner flat=0 cum=1 ->leaf=1 ->rec=1
N inner flat=0 cum=1 ->outer=1
N inner flat=0 cum=1 ->rec=1
N leaf flat=0 cum=1 -><unknown>=1
N leaf flat=0 cum=1 -><unknown>=1
N leaf flat=0 cum=1 ->leaf=1
N leaf flat=0 cum=1 ->leaf=1
N leaf flat=0 cum=1 ->leaf=1
N main flat=0 cum=1 ->[prog]=1 ->leaf=1 ->outer=1 ->rec=1
N outer flat=0 cum=1 ->inner=1
N outer flat=0 cum=1 ->inner=1
N outer flat=0 cum=1 ->inner=1
N outer flat=0 cum=1 ->inner=1
N rec flat=0 cum=1 -><unknown>=1
N rec flat=0 cum=1 -><unknown>=1
N rec flat=0 cum=1 -><unknown>=1 ->rec=1
N rec flat=0 cum=1 -><unknown>=1 ->rec=1
N rec flat=0 cum=1 ->outer=1
N rec flat=0 cum=1 ->rec=1
N rec flat=0 cum=1 ->rec=1
--- functions idx=1 mean=false call_tree=false
N <unknown> flat=103 cum=103 ->main=71 ->outer=23
N [prog] flat=0 cum=11 -><unknown>=11
N inner flat=0 cum=41 -><unknown>=23 ->leaf=23 ->outer=23 ->rec=-5
N leaf flat=0 cum=40 -><unknown>=40
N main flat=0 cum=71 -><unknown>=19 ->[prog]=11 ->leaf=17 ->outer=18 ->rec=6
N outer flat=0 cum=41 ->inner=41
N rec flat=0 cum=1 -><unknown>=1 ->outer=-5
--- functions idx=1 mean=false call_tree=true
N <unknown> flat=-3 cum=-3
N <unknown> flat=-5 cum=-5
N <unknown> flat=0 cum=-3 -><unknown>=-3
N <unknown> flat=0 cum=-5 -><unknown>=-5
N <unknown> flat=0 cum=103 -><unknown>=9 ->main=71 ->outer=23
N <unknown> flat=0 cum=11 -><unknown>=11
N <unknown> flat=0 cum=17 -><unknown>=17
N <unknown> flat=0 cum=19 -><unknown>=19
N <unknown> flat=0 cum=2 -><unknown>=2
N <unknown> flat=0 cum=23 -><unknown>=23
N <unknown> flat=0 cum=23 -><unknown>=23
N <unknown> flat=0 cum=7 -><unknown>=7
N <unknown> flat=0 cum=9 -><unknown>=9
N <unknown> flat=11 cum=11
N <unknown> flat=17 cum=17
N <unknown> flat=19 cum=19
N <unknown> flat=2 cum=2
N <unknown> flat=23 cum=23
N <unknown> flat=23 cum=23
N <unknown> flat=7 cum=7
N <unknown> flat=9 cum=9
N [prog] flat=0 cum=11 -><unknown>=11
N inner flat=0 cum=-5 ->rec=-5
N inner flat=0 cum=18 ->leaf=23 ->rec=-5
N inner flat=0 cum=23 -><unknown>=23
N inner flat=0 cum=23 ->outer=23
N leaf flat=0 cum=17 -><unknown>=17
N leaf flat=0 cum=17 ->leaf=17
N leaf flat=0 cum=17 ->leaf=17
N leaf flat=0 cum=17 ->leaf=17
N leaf flat=0 cum=23 -><unknown>=23
N main flat=0 cum=19 -><unknown>=19
N main flat=0 cum=71 ->[prog]=11 ->leaf=17 ->main=19 ->outer=18 ->rec=6
N outer flat=0 cum=-5 ->inner=-5
N outer flat=0 cum=18 ->inner=18
N outer flat=0 cum=23 ->inner=23
N outer flat=0 cum=23 ->inner=23
N rec flat=0 cum=-3 -><unknown>=-3
N rec flat=0 cum=-3 ->rec=-3
N rec flat=0 cum=-5 -><unknown>=-5
N rec flat=0 cum=-5 ->outer=-5
N rec flat=0 cum=4 -><unknown>=7 ->rec=-3
N rec flat=0 cum=6 -><unknown>=2 ->rec=4
N rec flat=0 cum=6 ->rec=6
--- functions idx=1 mean=true call_tree=false
N <unknown> flat=2 cum=2 ->main=2 ->outer=2
N [prog] flat=0 cum=2 -><unknown>=2
N inner flat=0 cum=2 -><unknown>=2 ->leaf=2 ->outer=2 ->rec=-5
N leaf flat=0 cum=2 -><unknown>=2
N main flat=0 cum=2 -><unknown>=19 ->[prog]=2 ->leaf=2 ->outer=1 ->rec=1
N outer flat=0 cum=2 ->inner=2
N rec flat=0 cum=0 -><unknown>=0 ->outer=-5
--- functions idx=1 mean=true call_tree=true
N <unknown> flat=-1 cum=-1
N <unknown> flat=-5 cum=-5
N <unknown> flat=0 cum=-1 -><unknown>=-1
N <unknown> flat=0 cum=-5 -><unknown>=-5
N <unknown> flat=0 cum=19 -><unknown>=19
N <unknown> flat=0 cum=2 -><unknown>=2
N <unknown> flat=0 cum=2 -><unknown>=2
N <unknown> flat=0 cum=2 -><unknown>=2
N <unknown> flat=0 cum=2 -><unknown>=2
N <unknown> flat=0 cum=2 -><unknown>=2
N <unknown> flat=0 cum=2 -><unknown>=2
N <unknown> flat=0 cum=2 -><unknown>=2 ->main=2 ->outer=2
N <unknown> flat=0 cum=3 -><unknown>=3
N <unknown> flat=19 cum=19
N <unknown> flat=2 cum=2
N <unknown> flat=2 cum=2
N <unknown> flat=2 cum=2
N <unknown> flat=2 cum=2
N <unknown> flat=2 cum=2
N <unknown> flat=2 cum=2
N <unknown> flat=3 cum=3
N [prog] flat=0 cum=2 -><unknown>=2
N inner flat=0 cum=-5 ->rec=-5
N inner flat=0 cum=1 ->leaf=2 ->rec=-5
N inner flat=0 cum=2 -><unknown>=2
N inner flat=0 cum=2 ->outer=2
N leaf flat=0 cum=2 -><unknown>=2
N leaf flat=0 cum=2 -><unknown>=2
N leaf flat=0 cum=2 ->leaf=2
N leaf flat=0 cum=2 ->leaf=2
N leaf flat=0 cum=2 ->leaf=2
N main flat=0 cum=19 -><unknown>=19
N main flat=0 cum=2 ->[prog]=2 ->leaf=2 ->main=19 ->outer=1 ->rec=1
N outer flat=0 cum=-5 ->inner=-5
N outer flat=0 cum=1 ->inner=1
N outer flat=0 cum=2 ->inner=2
N outer flat=0 cum=2 ->inner=2
N rec flat=0 cum=-1 -><unknown>=-1
N rec flat=0 cum=-1 ->rec=-1
N rec flat=0 cum=-5 -><unknown>=-5
N rec flat=0 cum=-5 ->outer=-5
N rec flat=0 cum=1 -><unknown>=2 ->rec=1
N rec flat=0 cum=1 -><unknown>=3 ->rec=-1
N rec flat=0 cum=1 ->rec=1
=== root=["k" "k"] leaf=["k"] unit=auto -> rootm=true leafm=true valid=<nil>
F1 "main" "main" "/src/main.go" 10
F2 "outer" "outer" "/src/outer.go" 20
F3 "inner" "inner" "/src/inner.go" 30
F4 "rec" "rec" "/src/rec.go" 40
F5 "leaf" "leaf" "/src/leaf.go" 50
F6 "" "" "k" 0
F7 "v1" "" "k" 0
F8 "7" "" "k" 0
F9 "v1,v2" "" "k" 0
L1 addr=0x1100 mapping=true folded=false [F1:11:0]
L2 addr=0x1200 mapping=true folded=false [F3:31:0] [F2:21:0]
L3 addr=0x1300 mapping=true folded=false [F4:41:0]
L4 addr=0x1400 mapping=true folded=false
L5 addr=0x1500 mapping=true folded=false [F5:51:0]
L6 addr=0x1600 mapping=true folded=false [F4:42:0] [F4:43:0]
L7 addr=0x1700 mapping=true folded=false [F5:52:0]
L8 addr=0x0 mapping=false folded=false [F6:0:0]
L9 addr=0x0 mapping=false folded=false [F7:0:0]
L10 addr=0x0 mapping=false folded=false [F8:0:0]
L11 addr=0x0 mapping=false folded=false [F9:0:0]
S0 [3 10]: L8 L5 L2 L1 L8 L8
S1 [2 7]: L9 L3 L3 L3 L1 L9 L9
S2 [1 -5]: L8 L3 L2 L3 L2 L1 L8 L8
S3 [4 9]: L8 L8 L8
S4 [5 11]: L10 L4 L1 L10 L10
S5 [6 13]: L11 L5 L2 L1 L11 L11
S6 [1 2]: L8 L6 L1 L8 L8
S7 [2 -3]: L8 L6 L6 L3 L1 L8 L8
S8 [7 17]: L8 L7 L5 L7 L5 L1 L8 L8
S9 [0 0]: L8 L5 L1 L8 L8
S10 [0 19]: L8 L1 L1 L8 L8
S11 [8 23]: L8 L2 L2 L8 L8
--- functions idx=0 mean=false call_tree=false
N 7 flat=5 cum=5 ->main=5
N <unknown> flat=26 cum=26 ->main=14 ->outer=8
N [prog] flat=0 cum=5 ->7=5
N inner flat=0 cum=18 -><unknown>=8 ->leaf=9 ->outer=8 ->rec=1
N leaf flat=0 cum=16 -><unknown>=10 ->v1,v2=6
N main flat=0 cum=27 ->[prog]=5 ->leaf=7 ->outer=10 ->rec=5
N outer flat=0 cum=18 ->inner=18
N rec flat=0 cum=6 -><unknown>=4 ->outer=1 ->v1=2
N v1 flat=2 cum=2 ->main=2
N v1,v2 flat=6 cum=6 ->main=6
--- functions idx=0 mean=false call_tree=true
N 7 flat=0 cum=5 ->7=5
N 7 flat=0 cum=5 ->main=5
N 7 flat=5 cum=5
N <unknown> flat=0 cum=26 -><unknown>=26
N <unknown> flat=0 cum=26 -><unknown>=4 ->main=14 ->outer=8
N <unknown> flat=1 cum=1
N <unknown> flat=1 cum=1
N <unknown> flat=2 cum=2
N <unknown> flat=3 cum=3
N <unknown> flat=4 cum=4
N <unknown> flat=7 cum=7
N <unknown> flat=8 cum=8
N [prog] flat=0 cum=5 ->7=5
N inner flat=0 cum=1 ->rec=1
N inner flat=0 cum=4 ->leaf=3 ->rec=1
N inner flat=0 cum=6 ->leaf=6
N inner flat=0 cum=8 -><unknown>=8
N inner flat=0 cum=8 ->outer=8
N leaf flat=0 cum=3 -><unknown>=3
N leaf flat=0 cum=6 ->v1,v2=6
N leaf flat=0 cum=7 -><unknown>=7
N leaf flat=0 cum=7 ->leaf=7
N leaf flat=0 cum=7 ->leaf=7
N leaf flat=0 cum=7 ->leaf=7
N main flat=0 cum=14 ->leaf=7 ->outer=4 ->rec=3
N main flat=0 cum=2 ->rec=2
N main flat=0 cum=5 ->[prog]=5
N main flat=0 cum=6 ->outer=6
N outer flat=0 cum=1 ->inner=1
N outer flat=0 cum=4 ->inner=4
N outer flat=0 cum=6 ->inner=6
N outer flat=0 cum=8 ->inner=8
N outer flat=0 cum=8 ->inner=8
N rec flat=0 cum=1 -><unknown>=1
N rec flat=0 cum=1 ->outer=1
N rec flat=0 cum=2 -><unknown>=2
N rec flat=0 cum=2 ->rec=2
N rec flat=0 cum=2 ->rec=2
N rec flat=0 cum=2 ->rec=2
N rec flat=0 cum=2 ->rec=2
N rec flat=0 cum=2 ->v1=2
N rec flat=0 cum=3 -><unknown>=1 ->rec=2
N rec flat=0 cum=3 ->rec=3
N v1 flat=0 cum=2 ->main=2
N v1 flat=0 cum=2 ->v1=2
N v1 flat=2 cum=2
N v1,v2 flat=0 cum=6 ->main=6
N v1,v2 flat=0 cum=6 ->v1,v2=6
N v1,v2 flat=6 cum=6
--- functions idx=0 mean=true call_tree=false
N 7 flat=1 cum=1 ->main=1
N <unknown> flat=1 cum=1 ->main=1 ->outer=1
N [prog] flat=0 cum=1 ->7=1
N inner flat=0 cum=1 -><unknown>=1 ->leaf=1 ->outer=1 ->rec=1
N leaf flat=0 cum=1 -><unknown>=1 ->v1,v2=1
N main flat=0 cum=1 ->[prog]=1 ->leaf=1 ->outer=1 ->rec=1
N outer flat=0 cum=1 ->inner=1
N rec flat=0 cum=1 -><unknown>=1 ->outer=1 ->v1=1
N v1 flat=1 cum=1 ->main=1
N v1,v2 flat=1 cum=1 ->main=1
--- functions idx=0 mean=true call_tree=true
N 7 flat=0 cum=1 ->7=1
N 7 flat=0 cum=1 ->main=1
N 7 flat=1 cum=1
N <unknown> flat=0 cum=1 -><unknown>=1
N <unknown> flat=0 cum=1 -><unknown>=1 ->main=1 ->outer=1
N <unknown> flat=1 cum=1
N <unknown> flat=1 cum=1
N <unknown> flat=1 cum=1
N <unknown> flat=1 cum=1
N <unknown> flat=1 cum=1
N <unknown> flat=1 cum=1
N <unknown> flat=1 cum=1
N [prog] flat=0 cum=1 ->7=1
N inner flat=0 cum=1 -><unknown>=1
N inner flat=0 cum=1 ->leaf=1
N inner flat=0 cum=1 ->leaf=1 ->rec=1
N inner flat=0 cum=1 ->outer=1
N inner flat=0 cum=1 ->rec=1
N leaf flat=0 cum=1 -><unknown>=1
N leaf flat=0 cum=1 -><unknown>=1
N leaf flat=0 cum=1 ->leaf=1
N leaf flat=0 cum=1 ->leaf=1
N leaf flat=0 cum=1 ->leaf=1
N leaf flat=0 cum=1 ->v1,v2=1
N main flat=0 cum=1 ->[prog]=1
N main flat=0 cum=1 ->leaf=1 ->outer=1 ->rec=1
N main flat=0 cum=1 ->outer=1
N main flat=0 cum=1 ->rec=1
N outer flat=0 cum=1 ->inner=1
N outer flat=0 cum=1 ->inner=1
N outer flat=0 cum=1 ->inner=1
N outer flat=0 cum=1 ->inner=1
N outer flat=0 cum=1 ->inner=1
N rec flat=0 cum=1 -><unknown>=1
N rec flat=0 cum=1 -><unknown>=1
N rec flat=0 cum=1 -><unknown>=1 ->rec=1
N rec flat=0 cum=1 ->outer=1
N rec flat=0 cum=1 ->rec=1
N rec flat=0 cum=1 ->rec=1
N rec flat=0 cum=1 ->rec=1
N rec flat=0 cum=1 ->rec=1
N rec flat=0 cum=1 ->rec=1
N rec flat=0 cum=1 ->v1=1
N v1 flat=0 cum=1 ->main=1
N v1 flat=0 cum=1 ->v1=1
N v1 flat=1 cum=1
N v1,v2 flat=0 cum=1 ->main=1
N v1,v2 flat=0 cum=1 ->v1,v2=1
N v1,v2 flat=1 cum=1
--- functions idx=1 mean=false call_tree=false
N 7 flat=11 cum=11 ->main=11
N <unknown> flat=72 cum=72 ->main=40 ->outer=23
N [prog] flat=0 cum=11 ->7=11
N inner flat=0 cum=41 -><unknown>=23 ->leaf=23 ->outer=23 ->rec=-5
N leaf flat=0 cum=40 -><unknown>=27 ->v1,v2=13
N main flat=0 cum=71 -><unknown>=19 ->[prog]=11 ->leaf=17 ->outer=18 ->rec=6
N outer flat=0 cum=41 ->inner=41
N rec flat=0 cum=1 -><unknown>=-6 ->outer=-5 ->v1=7
N v1 flat=7 cum=7 ->main=7
N v1,v2 flat=13 cum=13 ->main=13
--- functions idx=1 mean=false call_tree=true
N 7 flat=0 cum=11 ->7=11
N 7 flat=0 cum=11 ->main=11
N 7 flat=11 cum=11
N <unknown> flat=-3 cum=-3
N <unknown> flat=-5 cum=-5
N <unknown> flat=0 cum=72 -><unknown>=72
N <unknown> flat=0 cum=72 -><unknown>=9 ->main=40 ->outer=23
N <unknown> flat=10 cum=10
N <unknown> flat=17 cum=17
N <unknown> flat=19 cum=19
N <unknown> flat=2 cum=2
N <unknown> flat=23 cum=23
N <unknown> flat=9 cum=9
N [prog] flat=0 cum=11 ->7=11
N inner flat=0 cum=-5 ->rec=-5
N inner flat=0 cum=13 ->leaf=13
N inner flat=0 cum=23 -><unknown>=23
N inner flat=0 cum=23 ->outer=23
N inner flat=0 cum=5 ->leaf=10 ->rec=-5
N leaf flat=0 cum=10 -><unknown>=10
N leaf flat=0 cum=13 ->v1,v2=13
N leaf flat=0 cum=17 -><unknown>=17
N leaf flat=0 cum=17 ->leaf=17
N leaf flat=0 cum=17 ->leaf=17
N leaf flat=0 cum=17 ->leaf=17
N main flat=0 cum=11 ->[prog]=11
N main flat=0 cum=13 ->outer=13
N main flat=0 cum=19 -><unknown>=19
N main flat=0 cum=40 ->leaf=17 ->main=19 ->outer=5 ->rec=-1
N main flat=0 cum=7 ->rec=7
N outer flat=0 cum=-5 ->inner=-5
N outer flat=0 cum=13 ->inner=13
N outer flat=0 cum=23 ->inner=23
N outer flat=0 cum=23 ->inner=23
N outer flat=0 cum=5 ->inner=5
N rec flat=0 cum=-1 -><unknown>=2 ->rec=-3
N rec flat=0 cum=-1 ->rec=-1
N rec flat=0 cum=-3 -><unknown>=-3
N rec flat=0 cum=-3 ->rec=-3
N rec flat=0 cum=-3 ->rec=-3
N rec flat=0 cum=-5 -><unknown>=-5
N rec flat=0 cum=-5 ->outer=-5
N rec flat=0 cum=7 ->rec=7
N rec flat=0 cum=7 ->rec=7
N rec flat=0 cum=7 ->v1=7
N v1 flat=0 cum=7 ->main=7
N v1 flat=0 cum=7 ->v1=7
N v1 flat=7 cum=7
N v1,v2 flat=0 cum=13 ->main=13
N v1,v2 flat=0 cum=13 ->v1,v2=13
N v1,v2 flat=13 cum=13
--- functions idx=1 mean=true call_tree=false
N 7 flat=2 cum=2 ->main=2
N <unknown> flat=2 cum=2 ->main=2 ->outer=2
N [prog] flat=0 cum=2 ->7=2
N inner flat=0 cum=2 -><unknown>=2 ->leaf=2 ->outer=2 ->rec=-5
N leaf flat=0 cum=2 -><unknown>=2 ->v1,v2=2
N main flat=0 cum=2 -><unknown>=19 ->[prog]=2 ->leaf=2 ->outer=1 ->rec=1
N outer flat=0 cum=2 ->inner=2
N rec flat=0 cum=0 -><unknown>=-1 ->outer=-5 ->v1=3
N v1 flat=3 cum=3 ->main=3
N v1,v2 flat=2 cum=2 ->main=2
--- functions idx=1 mean=true call_tree=true
N 7 flat=0 cum=2 ->7=2
N 7 flat=0 cum=2 ->main=2
N 7 flat=2 cum=2
N <unknown> flat=-1 cum=-1
N <unknown> flat=-5 cum=-5
N <unknown> flat=0 cum=2 -><unknown>=2
N <unknown> flat=0 cum=2 -><unknown>=2 ->main=2 ->outer=2
N <unknown> flat=19 cum=19
N <unknown> flat=2 cum=2
N <unknown> flat=2 cum=2
N <unknown> flat=2 cum=2
N <unknown> flat=2 cum=2
N <unknown> flat=3 cum=3
N [prog] flat=0 cum=2 ->7=2
N inner flat=0 cum=-5 ->rec=-5
N inner flat=0 cum=1 ->leaf=3 ->rec=-5
N inner flat=0 cum=2 -><unknown>=2
N inner flat=0 cum=2 ->leaf=2
N inner flat=0 cum=2 ->outer=2
N leaf flat=0 cum=2 -><unknown>=2
N leaf flat=0 cum=2 ->leaf=2
N leaf flat=0 cum=2 ->leaf=2
N leaf flat=0 cum=2 ->leaf=2
N leaf flat=0 cum=2 ->v1,v2=2
N leaf flat=0 cum=3 -><unknown>=3
N main flat=0 cum=19 -><unknown>=19
N main flat=0 cum=2 ->[prog]=2
N main flat=0 cum=2 ->leaf=2 ->main=19 ->outer=1 ->rec=0
N main flat=0 cum=2 ->outer=2
N main flat=0 cum=3 ->rec=3
N outer flat=0 cum=-5 ->inner=-5
N outer flat=0 cum=1 ->inner=1
N outer flat=0 cum=2 ->inner=2
N outer flat=0 cum=2 ->inner=2
N outer flat=0 cum=2 ->inner=2
N rec flat=0 cum=-1 -><unknown>=-1
N rec flat=0 cum=-1 ->rec=-1
N rec flat=0 cum=-1 ->rec=-1
N rec flat=0 cum=-5 -><unknown>=-5
N rec flat=0 cum=-5 ->outer=-5
N rec flat=0 cum=0 -><unknown>=2 ->rec=-1
N rec flat=0 cum=0 ->rec=0
N rec flat=0 cum=3 ->rec=3
N rec flat=0 cum=3 ->rec=3
N rec flat=0 cum=3 ->v1=3
N v1 flat=0 cum=3 ->main=3
N v1 flat=0 cum=3 ->v1=3
N v1 flat=3 cum=3
N v1,v2 flat=0 cum=2 ->main=2
N v1,v2 flat=0 cum=2 ->v1,v2=2
N v1,v2 flat=2 cum=2
=== root=["bad"] leaf=["bytes" "bytes"] unit=mb -> rootm=true leafm=true valid=<nil>
F1 "main" "main" "/src/main.go" 10
F2 "outer" "outer" "/src/outer.go" 20
F3 "inner" "inner" "/src/inner.go" 30
F4 "rec" "rec" "/src/rec.go" 40
F5 "leaf" "leaf" "/src/leaf.go" 50
F6 "" "" "bad" 0
F7 "" "" "bytes" 0
F8 "0,0" "" "bytes" 0
F9 "64" "" "bytes" 0
F10 "0" "" "bytes" 0
F11 "s" "" "bad" 0
L1 addr=0x1100 mapping=true folded=false [F1:11:0]
L2 addr=0x1200 mapping=true folded=false [F3:31:0] [F2:21:0]
L3 addr=0x1300 mapping=true folded=false [F4:41:0]
L4 addr=0x1400 mapping=true folded=false
L5 addr=0x1500 mapping=true folded=false [F5:51:0]
L6 addr=0x1600 mapping=true folded=false [F4:42:0] [F4:43:0]
L7 addr=0x1700 mapping=true folded=false [F5:52:0]
L8 addr=0x0 mapping=false folded=false [F6:0:0]
L9 addr=0x0 mapping=false folded=false [F7:0:0]
L10 addr=0x0 mapping=false folded=false [F8:0:0]
L11 addr=0x0 mapping=false folded=false [F9:0:0]
L12 addr=0x0 mapping=false folded=false [F10:0:0]
L13 addr=0x0 mapping=false folded=false [F11:0:0]
S0 [3 10]: L9 L9 L5 L2 L1 L8
S1 [2 7]: L9 L9 L3 L3 L3 L1 L8
S2 [1 -5]: L9 L9 L3 L2 L3 L2 L1 L8
S3 [4 9]: L10 L10 L8
S4 [5 11]: L11 L11 L4 L1 L8
S5 [6 13]: L12 L12 L5 L2 L1 L8
S6 [1 2]: L9 L9 L6 L1 L13
S7 [2 -3]: L9 L9 L6 L6 L3 L1 L8
S8 [7 17]: L9 L9 L7 L5 L7 L5 L1 L8
S9 [0 0]: L9 L9 L5 L1 L8
S10 [0 19]: L9 L9 L1 L1 L8
S11 [8 23]: L9 L9 L2 L2 L8
--- functions idx=0 mean=false call_tree=false
N 0 flat=6 cum=6
N 0,0 flat=4 cum=4
N 64 flat=5 cum=5
N <unknown> flat=24 cum=39 ->0,0=4 ->main=26 ->outer=8
N [prog] flat=0 cum=5 ->64=5
N inner flat=0 cum=18 -><unknown>=8 ->leaf=9 ->outer=8 ->rec=1
N leaf flat=0 cum=16 ->0=6 -><unknown>=10
N main flat=0 cum=27 ->[prog]=5 ->leaf=7 ->outer=10 ->rec=5
N outer flat=0 cum=18 ->inner=18
N rec flat=0 cum=6 -><unknown>=6 ->outer=1
N s flat=0 cum=1 ->main=1
--- functions idx=0 mean=false call_tree=true
N 0 flat=0 cum=6 ->0=6
N 0 flat=6 cum=6
N 0,0 flat=0 cum=4 ->0,0=4
N 0,0 flat=4 cum=4
N 64 flat=0 cum=5 ->64=5
N 64 flat=5 cum=5
N <unknown> flat=0 cum=1 -><unknown>=1
N <unknown> flat=0 cum=1 -><unknown>=1
N <unknown> flat=0 cum=2 -><unknown>=2
N <unknown> flat=0 cum=2 -><unknown>=2
N <unknown> flat=0 cum=3 -><unknown>=3
N <unknown> flat=0 cum=38 ->0,0=4 ->main=26 ->outer=8
N <unknown> flat=0 cum=7 -><unknown>=7
N <unknown> flat=0 cum=8 -><unknown>=8
N <unknown> flat=1 cum=1
N <unknown> flat=1 cum=1
N <unknown> flat=2 cum=2
N <unknown> flat=2 cum=2
N <unknown> flat=3 cum=3
N <unknown> flat=7 cum=7
N <unknown> flat=8 cum=8
N [prog] flat=0 cum=5 ->64=5
N inner flat=0 cum=1 ->rec=1
N inner flat=0 cum=10 ->leaf=9 ->rec=1
N inner flat=0 cum=8 -><unknown>=8
N inner flat=0 cum=8 ->outer=8
N leaf flat=0 cum=7 -><unknown>=7
N leaf flat=0 cum=7 ->leaf=7
N leaf flat=0 cum=7 ->leaf=7
N leaf flat=0 cum=7 ->leaf=7
N leaf flat=0 cum=9 ->0=6 -><unknown>=3
N main flat=0 cum=1 ->rec=1
N main flat=0 cum=26 ->[prog]=5 ->leaf=7 ->outer=10 ->rec=4
N outer flat=0 cum=1 ->inner=1
N outer flat=0 cum=10 ->inner=10
N outer flat=0 cum=8 ->inner=8
N outer flat=0 cum=8 ->inner=8
N rec flat=0 cum=1 -><unknown>=1
N rec flat=0 cum=1 -><unknown>=1
N rec flat=0 cum=1 ->outer=1
N rec flat=0 cum=1 ->rec=1
N rec flat=0 cum=2 -><unknown>=2
N rec flat=0 cum=2 ->rec=2
N rec flat=0 cum=4 -><unknown>=2 ->rec=2
N rec flat=0 cum=4 ->rec=4
N rec flat=0 cum=4 ->rec=4
N s flat=0 cum=1 ->main=1
--- functions idx=0 mean=true call_tree=false
N 0 flat=1 cum=1
N 0,0 flat=1 cum=1
N 64 flat=1 cum=1
N <unknown> flat=1 cum=1 ->0,0=1 ->main=1 ->outer=1
N [prog] flat=0 cum=1 ->64=1
N inner flat=0 cum=1 -><unknown>=1 ->leaf=1 ->outer=1 ->rec=1
N leaf flat=0 cum=1 ->0=1 -><unknown>=1
N main flat=0 cum=1 ->[prog]=1 ->leaf=1 ->outer=1 ->rec=1
N outer flat=0 cum=1 ->inner=1
N rec flat=0 cum=1 -><unknown>=1 ->outer=1
N s flat=0 cum=1 ->main=1
--- functions idx=0 mean=true call_tree=true
N 0 flat=0 cum=1 ->0=1
N 0 flat=1 cum=1
N 0,0 flat=0 cum=1 ->0,0=1
N 0,0 flat=1 cum=1
N 64 flat=0 cum=1 ->64=1
N 64 flat=1 cum=1
N <unknown> flat=0 cum=1 ->0,0=1 ->main=1 ->outer=1
N <unknown> flat=0 cum=1 -><unknown>=1
N <unknown> flat=0 cum=1 -><unknown>=1
N <unknown> flat=0 cum=1 -><unknown>=1
N <unknown> flat=0 cum=1 -><unknown>=1
N <unknown> flat=0 cum=1 -><unknown>=1
N <unknown> flat=0 cum=1 -><unknown>=1
N <unknown> flat=0 cum=1 -><unknown>=1
N <unknown> flat=1 cum=1
N <unknown> flat=1 cum=1
N <unknown> flat=1 cum=1
N <unknown> flat=1 cum=1
N <unknown> flat=1 cum=1
N <unknown> flat=1 cum=1
N <unknown> flat=1 cum=1
N [prog] flat=0 cum=1 ->64=1
N inner flat=0 cum=1 -><unknown>=1
N inner flat=0 cum=1 ->leaf=1 ->rec=1
N inner flat=0 cum=1 ->outer=1
N inner flat=0 cum=1 ->rec=1
N leaf flat=0 cum=1 ->0=1 -><unknown>=1
N leaf flat=0 cum=1 -><unknown>=1
N leaf flat=0 cum=1 ->leaf=1
N leaf flat=0 cum=1 ->leaf=1
N leaf flat=0 cum=1 ->leaf=1
N main flat=0 cum=1 ->[prog]=1 ->leaf=1 ->outer=1 ->rec=1
N main flat=0 cum=1 ->rec=1
N outer flat=0 cum=1 ->inner=1
N outer flat=0 cum=1 ->inner=1
N outer flat=0 cum=1 ->inner=1
N outer flat=0 cum=1 ->inner=1
N rec flat=0 cum=1 -><unknown>=1
N rec flat=0 cum=1 -><unknown>=1
N rec flat=0 cum=1 -><unknown>=1
N rec flat=0 cum=1 -><unknown>=1 ->rec=1
N rec flat=0 cum=1 ->outer=1
N rec flat=0 cum=1 ->rec=1
N rec flat=0 cum=1 ->rec=1
N rec flat=0 cum=1 ->rec=1
N rec flat=0 cum=1 ->rec=1
N s flat=0 cum=1 ->main=1
--- functions idx=1 mean=false call_tree=false
N 0 flat=13 cum=13
N 0,0 flat=9 cum=9
N 64 flat=11 cum=11
N <unknown> flat=70 cum=103 ->0,0=9 ->main=69 ->outer=23
N [prog] flat=0 cum=11 ->64=11
N inner flat=0 cum=41 -><unknown>=23 ->leaf=23 ->outer=23 ->rec=-5
N leaf flat=0 cum=40 ->0=13 -><unknown>=27
N main flat=0 cum=71 -><unknown>=19 ->[prog]=11 ->leaf=17 ->outer=18 ->rec=6
N outer flat=0 cum=41 ->inner=41
N rec flat=0 cum=1 -><unknown>=1 ->outer=-5
N s flat=0 cum=2 ->main=2
--- functions idx=1 mean=false call_tree=true
N 0 flat=0 cum=13 ->0=13
N 0 flat=13 cum=13
N 0,0 flat=0 cum=9 ->0,0=9
N 0,0 flat=9 cum=9
N 64 flat=0 cum=11 ->64=11
N 64 flat=11 cum=11
N <unknown> flat=-3 cum=-3
N <unknown> flat=-5 cum=-5
N <unknown> flat=0 cum=-3 -><unknown>=-3
N <unknown> flat=0 cum=-5 -><unknown>=-5
N <unknown> flat=0 cum=10 -><unknown>=10
N <unknown> flat=0 cum=101 ->0,0=9 ->main=69 ->outer=23
N <unknown> flat=0 cum=17 -><unknown>=17
N <unknown> flat=0 cum=19 -><unknown>=19
N <unknown> flat=0 cum=2 -><unknown>=2
N <unknown> flat=0 cum=23 -><unknown>=23
N <unknown> flat=0 cum=7 -><unknown>=7
N <unknown> flat=10 cum=10
N <unknown> flat=17 cum=17
N <unknown> flat=19 cum=19
N <unknown> flat=2 cum=2
N <unknown> flat=23 cum=23
N <unknown> flat=7 cum=7
N [prog] flat=0 cum=11 ->64=11
N inner flat=0 cum=-5 ->rec=-5
N inner flat=0 cum=18 ->leaf=23 ->rec=-5
N inner flat=0 cum=23 -><unknown>=23
N inner flat=0 cum=23 ->outer=23
N leaf flat=0 cum=17 -><unknown>=17
N leaf flat=0 cum=17 ->leaf=17
N leaf flat=0 cum=17 ->leaf=17
N leaf flat=0 cum=17 ->leaf=17
N leaf flat=0 cum=23 ->0=13 -><unknown>=10
N main flat=0 cum=19 -><unknown>=19
N main flat=0 cum=2 ->rec=2
N main flat=0 cum=69 ->[prog]=11 ->leaf=17 ->main=19 ->outer=18 ->rec=4
N outer flat=0 cum=-5 ->inner=-5
N outer flat=0 cum=18 ->inner=18
N outer flat=0 cum=23 ->inner=23
N outer flat=0 cum=23 ->inner=23
N rec flat=0 cum=-3 -><unknown>=-3
N rec flat=0 cum=-3 ->rec=-3
N rec flat=0 cum=-5 -><unknown>=-5
N rec flat=0 cum=-5 ->outer=-5
N rec flat=0 cum=2 -><unknown>=2
N rec flat=0 cum=2 ->rec=2
N rec flat=0 cum=4 -><unknown>=7 ->rec=-3
N rec flat=0 cum=4 ->rec=4
N rec flat=0 cum=4 ->rec=4
N s flat=0 cum=2 ->main=2
--- functions idx=1 mean=true call_tree=false
N 0 flat=2 cum=2
N 0,0 flat=2 cum=2
N 64 flat=2 cum=2
N <unknown> flat=2 cum=2 ->0,0=2 ->main=2 ->outer=2
N [prog] flat=0 cum=2 ->64=2
N inner flat=0 cum=2 -><unknown>=2 ->leaf=2 ->outer=2 ->rec=-5
N leaf flat=0 cum=2 ->0=2 -><unknown>=2
N main flat=0 cum=2 -><unknown>=19 ->[prog]=2 ->leaf=2 ->outer=1 ->rec=1
N outer flat=0 cum=2 ->inner=2
N rec flat=0 cum=0 -><unknown>=0 ->outer=-5
N s flat=0 cum=2 ->main=2
--- functions idx=1 mean=true call_tree=true
N 0 flat=0 cum=2 ->0=2
N 0 flat=2 cum=2
N 0,0 flat=0 cum=2 ->0,0=2
N 0,0 flat=2 cum=2
N 64 flat=0 cum=2 ->64=2
N 64 flat=2 cum=2
N <unknown> flat=-1 cum=-1
N <unknown> flat=-5 cum=-5
N <unknown> flat=0 cum=-1 -><unknown>=-1
N <unknown> flat=0 cum=-5 -><unknown>=-5
N <unknown> flat=0 cum=19 -><unknown>=19
N <unknown> flat=0 cum=2 ->0,0=2 ->main=2 ->outer=2
N <unknown> flat=0 cum=2 -><unknown>=2
N <unknown> flat=0 cum=2 -><unknown>=2
N <unknown> flat=0 cum=2 -><unknown>=2
N <unknown> flat=0 cum=3 -><unknown>=3
N <unknown> flat=0 cum=3 -><unknown>=3
N <unknown> flat=19 cum=19
N <unknown> flat=2 cum=2
N <unknown> flat=2 cum=2
N <unknown> flat=2 cum=2
N <unknown> flat=3 cum=3
N <unknown> flat=3 cum=3
N [prog] flat=0 cum=2 ->64=2
N inner flat=0 cum=-5 ->rec=-5
N inner flat=0 cum=1 ->leaf=2 ->rec=-5
N inner flat=0 cum=2 -><unknown>=2
N inner flat=0 cum=2 ->outer=2
N leaf flat=0 cum=2 ->0=2 -><unknown>=3
N leaf flat=0 cum=2 -><unknown>=2
N leaf flat=0 cum=2 ->leaf=2
N leaf flat=0 cum=2 ->leaf=2
N leaf flat=0 cum=2 ->leaf=2
N main flat=0 cum=19 -><unknown>=19
N main flat=0 cum=2 ->[prog]=2 ->leaf=2 ->main=19 ->outer=1 ->rec=1
N main flat=0 cum=2 ->rec=2
N outer flat=0 cum=-5 ->inner=-5
N outer flat=0 cum=1 ->inner=1
N outer flat=0 cum=2 ->inner=2
N outer flat=0 cum=2 ->inner=2
N rec flat=0 cum=-1 -><unknown>=-1
N rec flat=0 cum=-1 ->rec=-1
N rec flat=0 cum=-5 -><unknown>=-5
N rec flat=0 cum=-5 ->outer=-5
N rec flat=0 cum=1 -><unknown>=3 ->rec=-1
N rec flat=0 cum=1 ->rec=1
N rec flat=0 cum=1 ->rec=1
N rec flat=0 cum=2 -><unknown>=2
N rec flat=0 cum=2 ->rec=2
N s flat=0 cum=2 ->main=2
`
