package driver

import (
	"bytes"
	"crypto/sha256"
	"encoding/json"
	"fmt"
	"html/template"
	"os"
	"strings"
	"sync"
	"testing"

	"github.com/google/pprof/internal/measurement"
	"github.com/google/pprof/internal/report"
	"github.com/google/pprof/profile"
)

// zzEvil is a string with the metacharacters of HTML, JS, DOT and callgrind.
const zzEvil = "</script><script>alert('x')</script> \"q\" \\b <b>&amp; ünï\ncode (1) `t` ${u}"

func zzEquivBReport() *report.Report {
	fn := &profile.Function{ID: 1, Name: "f" + zzEvil, SystemName: "f", Filename: "file" + zzEvil + ".go"}
	m := &profile.Mapping{ID: 1, Start: 0x1000, Limit: 0x2000, File: "/bin/" + zzEvil}
	loc := &profile.Location{ID: 1, Mapping: m, Address: 0x1100, Line: []profile.Line{{Function: fn, Line: 7}}}
	p := &profile.Profile{
		SampleType: []*profile.ValueType{{Type: "cpu" + zzEvil, Unit: "ms"}},
		Sample:     []*profile.Sample{{Location: []*profile.Location{loc}, Value: []int64{1234}}},
		Mapping:    []*profile.Mapping{m},
		Location:   []*profile.Location{loc},
		Function:   []*profile.Function{fn},
		Comments:   []string{"comment " + zzEvil},
		DocURL:     "https://example.com/doc?a=\"<b>\"&c='d'",
	}
	return report.New(p, &report.Options{
		OutputFormat: report.Text,
		SampleValue:  func(v []int64) int64 { return v[0] },
		SampleType:   "cpu" + zzEvil,
		SampleUnit:   "ms",
		OutputUnit:   "ms",
	})
}

func zzEquivBArgs(t *testing.T) webArgs {
	js, err := json.Marshal(map[string]interface{}{"name": zzEvil, "list": []string{zzEvil, "x"}})
	if err != nil {
		t.Fatal(err)
	}
	return webArgs{
		SampleTypes: []string{"cpu" + zzEvil, "alloc<space>", "plain"},
		Standalone:  false,
		Help: map[string]string{
			"top": "top " + zzEvil, "graph": "graph \"help\"", "focus": "<focus>", "save_config": "save & go",
		},
		Nodes:    []string{"", "node " + zzEvil, "n<2>", `n"3"\`},
		HTMLBody: template.HTML(`<svg><g id="graph0"><text>already &lt;escaped&gt;</text></g></svg>`),
		TextBody: "text body " + zzEvil + "\n  second line <i>",
		Top: []report.TextItem{
			{Name: "item " + zzEvil, InlineLabel: "(inline) <x>", Flat: 10, Cum: 20, FlatFormat: "10<ms>", CumFormat: "20\"ms\""},
			{Name: "plain", Flat: -3, Cum: 4, FlatFormat: "-3ms", CumFormat: "4ms"},
		},
		Listing: report.WebListData{
			Total: "1.23s " + zzEvil,
			Files: []report.WebListFile{{Funcs: []report.WebListFunc{{
				Name: "fn " + zzEvil, File: "file " + zzEvil, Flat: "1<s>", Cumulative: "2\"s\"", Percent: "50%&",
				Lines: []report.WebListLine{
					{SrcLine: "if a < b && c > \"d\" { // " + zzEvil, HTMLClass: "livesrc", Line: 12, Flat: "1<s>", Cumulative: "2s",
						Instructions: []report.WebListInstruction{
							{NewBlock: true, Flat: "1<s>", Cumulative: "2s", Address: 0x1100, Disasm: "mov <a>, \"b\" " + zzEvil, FileLine: "f<i>le.go:12",
								InlinedCalls: []report.WebListCall{{SrcLine: "call(<x>, \"y\")", FileBase: "b<a>se.go", Line: 3}}},
							{Synthetic: true, Flat: ".", Cumulative: ".", Address: 0x1108, Disasm: "nop"},
						}},
					{SrcLine: "}", HTMLClass: "nop", Line: 13, Flat: ".", Cumulative: "."},
				},
			}}}},
		},
		Stacks: template.JS(js),
		Configs: []configMenuEntry{
			{Name: "Default", URL: "?", Current: true},
			{Name: "cfg " + zzEvil, URL: "?focus=" + zzEvil, UserConfig: true},
		},
		UnitDefs: measurement.UnitTypes,
	}
}

func zzEquivBRender(t *testing.T, tmpl string, standalone bool) string {
	t.Helper()
	rpt := zzEquivBReport()
	args := zzEquivBArgs(t)
	args.Standalone = standalone
	legend := []string{"File: bin" + zzEvil, "Type: cpu" + zzEvil, "legend <line> \"3\"", zzEvil}
	errList := []string{"error " + zzEvil, "second <error>"}
	var buf bytes.Buffer
	if err := renderHTML(&buf, tmpl, rpt, errList, legend, args); err != nil {
		t.Fatalf("renderHTML(%s): %v", tmpl, err)
	}
	return buf.String()
}

var zzEquivBViews = []string{"graph", "top", "plaintext", "sourcelisting", "stacks"}

func TestZZEquivBRender(t *testing.T) {
	for _, standalone := range []bool{false, true} {
		for _, tmpl := range zzEquivBViews {
			key := fmt.Sprintf("%s/%v", tmpl, standalone)
			out := zzEquivBRender(t, tmpl, standalone)
			// The property itself: profile-derived text never appears raw.
			for _, raw := range []string{"<script>alert('x')", "<b>&amp; ünï", "<focus>", "second <error>", "<line>"} {
				if strings.Contains(out, raw) {
					t.Errorf("%s: output contains unescaped %q", key, raw)
				}
			}
			if !strings.Contains(out, "</html>") || len(out) < 1000 {
				t.Errorf("%s: output is not a complete page (%d bytes)", key, len(out))
			}
			sum := fmt.Sprintf("%d:%x", len(out), sha256.Sum256([]byte(out)))
			if os.Getenv("ZZ_PRINT") != "" {
				fmt.Printf("GOLDEN\t%q: %q,\n", key, sum)
				continue
			}
			if want := zzEquivBGolden[key]; sum != want {
				t.Errorf("%s: rendered page differs from the unchanged tree: got %s, want %s", key, sum, want)
			}
		}
	}
}

// The set of templates is initialized once and shared, also under concurrency.
func TestZZEquivBConcurrentInit(t *testing.T) {
	var wg sync.WaitGroup
	got := make([]*template.Template, 16)
	outs := make([]string, 16)
	for i := range got {
		wg.Add(1)
		go func(i int) {
			defer wg.Done()
			got[i] = getHTMLTemplates()
			outs[i] = zzEquivBRender(t, zzEquivBViews[i%len(zzEquivBViews)], false)
		}(i)
	}
	wg.Wait()
	for i := range got {
		if got[i] == nil || got[i] != got[0] {
			t.Errorf("getHTMLTemplates returned different template sets")
		}
		if j := i % len(zzEquivBViews); outs[i] != outs[j] {
			t.Errorf("view %s rendered differently by two goroutines", zzEquivBViews[j])
		}
	}
	want := []string{"css", "graph", "graph_css", "header", "plaintext", "script", "sourcelisting",
		"stacks", "stacks_css", "stacks_js", "top", "weblistcss", "weblistjs"}
	for _, name := range want {
		if got[0].Lookup(name) == nil {
			t.Errorf("template %q is not defined", name)
		}
	}
}

// Length and SHA-256 of the pages rendered by the unchanged tree.
var zzEquivBGolden = map[string]string{
	"graph/false":         "28527:3c9b66931427cf031e59a916b4362a4c7bd087608395e6cba72d6840a888867e",
	"top/false":           "31294:4f050ba8ee9df3ee21e1c36f0e1a7f230aec097312c14d942fb4b030c096a5c7",
	"plaintext/false":     "28373:8ed06befacd02dd49743303f58b93775386c7f8631605cc274f6f8a2beb296bf",
	"sourcelisting/false": "30174:0a1353c6540efccc93b4e43e45ed9e4b508795ae227f39dc50d84b11b4dee074",
	"stacks/false":        "46375:31ec7b300cc7362d3e62a982a2dbb2d86f5ce1d3aff4e9b99155d139c10f3806",
	"graph/true":          "28527:3c9b66931427cf031e59a916b4362a4c7bd087608395e6cba72d6840a888867e",
	"top/true":            "31294:4f050ba8ee9df3ee21e1c36f0e1a7f230aec097312c14d942fb4b030c096a5c7",
	"plaintext/true":      "28373:8ed06befacd02dd49743303f58b93775386c7f8631605cc274f6f8a2beb296bf",
	"sourcelisting/true":  "2915:5bfe0092e6757a987562814b286f7f39061864e17a74fccbd3ab1bee557697c1",
	"stacks/true":         "46375:31ec7b300cc7362d3e62a982a2dbb2d86f5ce1d3aff4e9b99155d139c10f3806",
}
