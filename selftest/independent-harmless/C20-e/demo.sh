#!/bin/sh
# usage: demo.sh <worktree root>
set -u
root="$1"
here="$(cd "$(dirname "$0")" && pwd)"
export GOFLAGS=-mod=mod GOPROXY=off GOSUMDB=off GOTOOLCHAIN=local
cp "$here/zz_equiv_b_test.go" "$root/internal/driver/zz_equiv_b_test.go"
log="$(mktemp)"
(cd "$root" && go test -vet=off -count=3 -race -run 'TestZZEquivB$' -v ./internal/driver/) >"$log" 2>&1
rc=$?
cat "$log"
# A skipped or missing test must not count as a pass.
grep -q '^--- PASS: TestZZEquivB' "$log" || rc=1
rm -f "$log" "$root/internal/driver/zz_equiv_b_test.go"
exit $rc
