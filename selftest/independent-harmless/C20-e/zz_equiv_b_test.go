package driver

import (
	"bytes"
	"crypto/sha256"
	"fmt"
	"io"
	"net/http"
	"sort"
	"strings"
	"sync"
	"testing"

	"github.com/google/pprof/profile"
)

// Response digests computed on the unchanged tree.
var zzGoldenB = map[string]string{
	"/top":                "200|text/html|||29623|567a1b7efe16c0a0",
	"/top?si=samples":     "200|text/html|||29607|5cb782c16f45393e",
	"/peek?f=F%5B12%5D":   "200|text/html|||27652|957b91bc2175d46e",
	"/disasm?f=F%5B12%5D": "200|text/html|||27352|71a3dc30aa72395a",
	"/source?f=F%5B12%5D": "200|text/html|||28226|a20b967a04dcce11",
	"/flamegraph":         "200|text/html|||46159|7ec7f76e068d9ae0",
	"/flamegraph2?f=F1":   "301|||flamegraph?f=F1|0|e3b0c44298fc1c14",
	"/download":           "200|application/vnd.google.protobuf+gzip|attachment;filename=profile.pb.gz||227|e4ac9ad6a3f058ed",
	"/top?f=F2&hide=F3":   "200|text/html|||29638|cb5a1f40e42d418d",
}

type zzResp struct {
	status int
	ctype  string
	cdisp  string
	loc    string
	body   []byte
}

func (r zzResp) digest() string {
	h := sha256.Sum256(r.body)
	return fmt.Sprintf("%d|%s|%s|%s|%d|%x", r.status, r.ctype, r.cdisp, r.loc, len(r.body), h[:8])
}

func zzGet(t *testing.T, client *http.Client, u string) zzResp {
	res, err := client.Get(u)
	if err != nil {
		t.Errorf("GET %s: %v", u, err)
		return zzResp{}
	}
	defer res.Body.Close()
	body, err := io.ReadAll(res.Body)
	if err != nil {
		t.Errorf("GET %s: %v", u, err)
	}
	return zzResp{res.StatusCode, res.Header.Get("Content-Type"), res.Header.Get("Content-Disposition"), res.Header.Get("Location"), body}
}

func TestZZEquivB(t *testing.T) {
	// Two sample types, so that the sample type menu is rendered.
	prof := makeFakeProfile()
	prof.SampleType = []*profile.ValueType{{Type: "samples", Unit: "count"}, {Type: "cpu", Unit: "milliseconds"}}
	for _, s := range prof.Sample {
		s.Value = []int64{s.Value[0] / 10, s.Value[0]}
	}
	server := makeTestServer(t, prof)
	client := &http.Client{CheckRedirect: func(*http.Request, []*http.Request) error { return http.ErrUseLastResponse }}

	var paths []string
	for p := range zzGoldenB {
		paths = append(paths, p)
	}
	sort.Strings(paths)

	// One at a time.
	serial := map[string]zzResp{}
	for _, p := range paths {
		r := zzGet(t, client, server.URL+p)
		serial[p] = r
		if got := r.digest(); got != zzGoldenB[p] {
			t.Errorf("%s: digest %q, want %q", p, got, zzGoldenB[p])
		}
	}

	// Spot checks of the data that the page gets from the shared UI state.
	top := string(serial["/top"].body)
	for _, want := range []string{
		`"Name":"F2","InlineLabel":"","Flat":200,"Cum":300`,
		"Show the entire profile",                                     // help["reset"]
		"Save current settings",                                       // help["save_config"]
		"Display profile as a directed graph",                         // help["graph"]
		`title="Outputs top entries in text form"`,                    // a pprofCommands entry
		`title="Output callers/callees of functions matching regexp"`, // a pprofCommands entry
		"Restricts to samples going through a node matching regexp",   // a configHelp entry
		`<a href="?si=samples" id="sampletype-samples">samples</a>`,   // sample type menu
		`<a href="?si=cpu" id="sampletype-cpu">cpu</a>`,
	} {
		if !strings.Contains(top, want) {
			t.Errorf("/top lacks %q", want)
		}
	}
	if i, j := strings.Index(top, `?si=samples`), strings.Index(top, `?si=cpu`); i < 0 || j < 0 || i > j {
		t.Errorf("sample types not listed in profile order: samples@%d cpu@%d", i, j)
	}

	// The download is the served profile.
	got, err := profile.Parse(bytes.NewReader(serial["/download"].body))
	if err != nil {
		t.Fatalf("download does not parse: %v", err)
	}
	if got.String() != prof.String() {
		t.Errorf("downloaded profile differs:\n%s\nwant\n%s", got, prof)
	}

	// Any mix of requests at once gives the same responses as one at a time.
	var wg sync.WaitGroup
	var mu sync.Mutex
	for round := 0; round < 4; round++ {
		for _, p := range paths {
			wg.Add(1)
			go func(p string) {
				defer wg.Done()
				r := zzGet(t, client, server.URL+p)
				if d := r.digest(); d != zzGoldenB[p] {
					mu.Lock()
					t.Errorf("concurrent %s: digest %q, want %q", p, d, zzGoldenB[p])
					mu.Unlock()
				}
			}(p)
		}
	}
	wg.Wait()
}
