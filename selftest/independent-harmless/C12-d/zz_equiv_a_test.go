package symbolizer

import (
	"bytes"
	"fmt"
	"io"
	"net/http"
	"os"
	"regexp"
	"strings"
	"testing"

	"github.com/google/pprof/internal/plugin"
	"github.com/google/pprof/profile"
)

// zzUI records every error message.
type zzUI struct{ errs []string }

func (u *zzUI) ReadLine(string) (string, error)     { return "", io.EOF }
func (u *zzUI) Print(args ...interface{})           {}
func (u *zzUI) PrintErr(args ...interface{})        { u.errs = append(u.errs, fmt.Sprint(args...)) }
func (u *zzUI) IsTerminal() bool                    { return false }
func (u *zzUI) WantBrowser() bool                   { return false }
func (u *zzUI) SetAutoComplete(func(string) string) {}

// zzModeTrace runs Symbolize(mode) with the three stages tapped and returns
// which stages ran with which flags, the number of ui errors and the result.
func zzModeTrace(mode string, remoteErr error) string {
	oldL, oldS, oldD := localSymbolize, symbolzSymbolize, demangleFunction
	defer func() { localSymbolize, symbolzSymbolize, demangleFunction = oldL, oldS, oldD }()
	var tr []string
	localSymbolize = func(p *profile.Profile, fast, force bool, obj plugin.ObjTool, ui plugin.UI) error {
		tr = append(tr, fmt.Sprintf("local(fast=%v,force=%v)", fast, force))
		return fmt.Errorf("local failed")
	}
	symbolzSymbolize = func(p *profile.Profile, force bool, sources plugin.MappingSources, syms func(string, string) ([]byte, error), ui plugin.UI) error {
		tr = append(tr, fmt.Sprintf("remote(force=%v)", force))
		return remoteErr
	}
	demangleFunction = func(p *profile.Profile, force bool, mode string) {
		tr = append(tr, fmt.Sprintf("demangle(force=%v,mode=%q)", force, mode))
	}
	ui := &zzUI{}
	s := &Symbolizer{UI: ui}
	err := s.Symbolize(mode, nil, &profile.Profile{})
	for _, e := range ui.errs {
		switch {
		case strings.HasPrefix(e, "ignoring unrecognized symbolization option: "+mode):
			tr = append(tr, "E:ignoring")
		case strings.HasPrefix(e, "expecting -symbolize="):
			tr = append(tr, "E:expecting")
		case e == "local symbolization: local failed":
			tr = append(tr, "E:local")
		default:
			tr = append(tr, "E:?"+e)
		}
	}
	return fmt.Sprintf("%s -> err=%v", strings.Join(tr, " "), err)
}

var zzModeWant = map[string]string{
	"":                         `local(fast=false,force=false) remote(force=false) demangle(force=false,mode="") E:local -> err=<nil>`,
	"none":                     ` -> err=<nil>`,
	"no":                       ` -> err=<nil>`,
	"local":                    `local(fast=false,force=false) demangle(force=false,mode="") E:local -> err=<nil>`,
	"fastlocal":                `local(fast=true,force=false) demangle(force=false,mode="") E:local -> err=<nil>`,
	"remote":                   `remote(force=false) demangle(force=false,mode="") -> err=<nil>`,
	"force":                    `local(fast=false,force=true) remote(force=true) demangle(force=true,mode="") E:local -> err=<nil>`,
	"local:force":              `local(fast=false,force=true) demangle(force=true,mode="") E:local -> err=<nil>`,
	"REMOTE:Force":             `remote(force=true) demangle(force=true,mode="") -> err=<nil>`,
	"fastlocal:remote":         `remote(force=false) demangle(force=false,mode="") -> err=<nil>`,
	"remote:fastlocal":         `local(fast=true,force=false) demangle(force=false,mode="") E:local -> err=<nil>`,
	"fastlocal:remote:local":   `local(fast=true,force=false) demangle(force=false,mode="") E:local -> err=<nil>`,
	"demangle=full":            `local(fast=false,force=true) remote(force=true) demangle(force=true,mode="full") E:local -> err=<nil>`,
	"demangle=none":            `local(fast=false,force=true) remote(force=true) demangle(force=true,mode="none") E:local -> err=<nil>`,
	"local:demangle=templates": `local(fast=false,force=true) demangle(force=true,mode="templates") E:local -> err=<nil>`,
	"demangle=default":         `local(fast=false,force=false) remote(force=false) demangle(force=false,mode="") E:local -> err=<nil>`,
	"default":                  `local(fast=false,force=false) remote(force=false) demangle(force=false,mode="") E:local -> err=<nil>`,
	"full":                     `local(fast=false,force=true) remote(force=true) demangle(force=true,mode="full") E:local -> err=<nil>`,
	"templates:remote":         `remote(force=true) demangle(force=true,mode="templates") -> err=<nil>`,
	"demangle=full:demangle=none:demangle=default": `local(fast=false,force=true) remote(force=true) demangle(force=true,mode="none") E:local -> err=<nil>`,
	"demangle=bogus":    `local(fast=false,force=false) remote(force=false) demangle(force=false,mode="") E:ignoring E:expecting E:local -> err=<nil>`,
	"demangle=":         `local(fast=false,force=false) remote(force=false) demangle(force=false,mode="") E:ignoring E:expecting E:local -> err=<nil>`,
	"bogus":             `local(fast=false,force=false) remote(force=false) demangle(force=false,mode="") E:ignoring E:expecting E:local -> err=<nil>`,
	"bogus:local:other": `local(fast=false,force=false) demangle(force=false,mode="") E:ignoring E:expecting E:ignoring E:expecting E:local -> err=<nil>`,
	"bogus:none":        `E:ignoring E:expecting -> err=<nil>`,
	"none:bogus":        ` -> err=<nil>`,
	"force:no:local":    ` -> err=<nil>`,
	":::":               `local(fast=false,force=false) remote(force=false) demangle(force=false,mode="") E:local -> err=<nil>`,
	":local::force:":    `local(fast=false,force=true) demangle(force=true,mode="") E:local -> err=<nil>`,
	"local ":            `local(fast=false,force=false) remote(force=false) demangle(force=false,mode="") E:ignoring E:expecting E:local -> err=<nil>`,
}

func TestZZEquivASymbolizeModes(t *testing.T) {
	for mode, want := range zzModeWant {
		got := zzModeTrace(mode, nil)
		if got != want {
			t.Errorf("mode %q:\n got %s\nwant %s", mode, got, want)
		}
	}
	// A failing remote stage is returned and demangling is skipped.
	for mode, want := range map[string]string{
		"":             `local(fast=false,force=false) remote(force=false) E:local -> err=remote failed`,
		"remote:force": `remote(force=true) -> err=remote failed`,
		"local":        `local(fast=false,force=false) demangle(force=false,mode="") E:local -> err=<nil>`,
	} {
		if got := zzModeTrace(mode, fmt.Errorf("remote failed")); got != want {
			t.Errorf("mode %q with failing remote:\n got %s\nwant %s", mode, got, want)
		}
	}
}

// ---- end to end: real local + remote + demangle stages against fake plug-ins.

type zzObjTool struct{}

func (zzObjTool) Open(file string, start, limit, offset uint64, relocationSymbol string) (plugin.ObjFile, error) {
	if strings.Contains(file, "missing") {
		return nil, fmt.Errorf("no such file")
	}
	return zzObjFile{file}, nil
}
func (zzObjTool) Disasm(string, uint64, uint64, bool) ([]plugin.Inst, error) {
	return nil, fmt.Errorf("unimplemented")
}

type zzObjFile struct{ name string }

func (f zzObjFile) Name() string                      { return f.name }
func (zzObjFile) ObjAddr(addr uint64) (uint64, error) { return addr, nil }
func (f zzObjFile) BuildID() string {
	if strings.Contains(f.name, "mismatch") {
		return "otherid"
	}
	return ""
}
func (zzObjFile) SourceLine(addr uint64) ([]plugin.Frame, error) {
	switch addr % 4 {
	case 0:
		return nil, fmt.Errorf("cannot read")
	case 1:
		return nil, nil
	case 2:
		return []plugin.Frame{{Func: "_ZN3foo3barEv", File: "foo.cc", Line: int(addr), StartLine: 3}}, nil
	}
	return []plugin.Frame{
		{Func: "inl<int>(char)", File: "", Line: 0},
		{Func: "_ZN3foo3barEv", File: "foo.cc", Line: 7, StartLine: 3, Column: 2},
	}, nil
}
func (zzObjFile) Symbols(*regexp.Regexp, uint64) ([]*plugin.Sym, error) { return nil, nil }
func (zzObjFile) Close() error                                          { return nil }

type zzTransport struct{ posts []string }

func (tr *zzTransport) RoundTrip(req *http.Request) (*http.Response, error) {
	body, _ := io.ReadAll(req.Body)
	tr.posts = append(tr.posts, req.URL.String()+" "+string(body))
	var out bytes.Buffer
	for i, a := range strings.Split(string(body), "+") {
		if i%3 == 2 {
			continue // partial answer
		}
		fmt.Fprintf(&out, "%s _Z3sym%dv\n", a, i%2)
	}
	return &http.Response{StatusCode: 200, Status: "200 OK", Body: io.NopCloser(&out), Header: http.Header{}}, nil
}

func zzProfile() *profile.Profile {
	m := []*profile.Mapping{
		{ID: 1, Start: 0x1000, Limit: 0x2000, File: "/bin/a"},
		{ID: 2, Start: 0x2000, Limit: 0x3000, File: "/lib/missing.so"},
		{ID: 5, Start: 0x3000, Limit: 0x4000, File: "/lib/mismatch.so", BuildID: "abc"},
		{ID: 7, Start: 0x4000, Limit: 0x5000, File: "/lib/done.so", HasFunctions: true},
		{ID: 9, Start: 0x5000, Limit: 0x6000, File: "[vdso]"},
	}
	fn := []*profile.Function{
		{ID: 4, Name: "done", SystemName: "_Z4donev", Filename: "d.cc"},
		{ID: 40, Name: "", SystemName: "_ZN1a1bEv"},
	}
	var locs []*profile.Location
	id := uint64(10)
	for _, mm := range m {
		for _, off := range []uint64{0, 1, 2, 3, 0xfff} {
			id += 3
			l := &profile.Location{ID: id, Mapping: mm, Address: mm.Start + off}
			if mm.ID == 7 {
				l.Line = []profile.Line{{Function: fn[int(off)%2], Line: int64(off)}}
			}
			locs = append(locs, l)
		}
	}
	p := &profile.Profile{
		SampleType: []*profile.ValueType{{Type: "cpu", Unit: "ns"}, {Type: "n", Unit: "count"}},
		PeriodType: &profile.ValueType{Type: "cpu", Unit: "ns"},
		Period:     10,
		Mapping:    m,
		Location:   locs,
		Function:   fn,
	}
	for i := 0; i+2 < len(locs); i += 2 {
		p.Sample = append(p.Sample, &profile.Sample{
			Location: []*profile.Location{locs[i], locs[i+2], locs[(i*7)%len(locs)]},
			Value:    []int64{int64(i) * 11, int64(i) - 3},
			Label:    map[string][]string{"k": {fmt.Sprint(i)}},
			NumLabel: map[string][]int64{"bytes": {int64(i)}},
		})
	}
	return p
}

// zzSamples renders everything symbolization must not touch.
func zzSamples(p *profile.Profile) string {
	var b strings.Builder
	for _, s := range p.Sample {
		fmt.Fprintf(&b, "%v %v %v %v:", s.Value, s.Label, s.NumLabel, s.NumUnit)
		for _, l := range s.Location {
			fmt.Fprintf(&b, " %d@%#x/M%d", l.ID, l.Address, l.Mapping.ID)
		}
		b.WriteString("\n")
	}
	for _, m := range p.Mapping {
		fmt.Fprintf(&b, "M%d %#x-%#x+%#x %s %s\n", m.ID, m.Start, m.Limit, m.Offset, m.File, m.BuildID)
	}
	return b.String()
}

// zzDump renders what symbolization may change.
func zzDump(p *profile.Profile) string {
	var b strings.Builder
	for _, l := range p.Location {
		fmt.Fprintf(&b, "L%d %#x M%d folded=%v:", l.ID, l.Address, l.Mapping.ID, l.IsFolded)
		for _, ln := range l.Line {
			fmt.Fprintf(&b, " F%d@%d:%d", ln.Function.ID, ln.Line, ln.Column)
		}
		b.WriteString("\n")
	}
	for _, m := range p.Mapping {
		fmt.Fprintf(&b, "M%d fn=%v file=%v line=%v inl=%v\n", m.ID, m.HasFunctions, m.HasFilenames, m.HasLineNumbers, m.HasInlineFrames)
	}
	for _, f := range p.Function {
		fmt.Fprintf(&b, "F%d %q %q %q %d\n", f.ID, f.Name, f.SystemName, f.Filename, f.StartLine)
	}
	return b.String()
}

var zzE2EWant = map[string]string{
	"": `err=<nil>
ui=["Local symbolization failed for missing.so: no such file" "Local symbolization failed for mismatch.so (build ID abc): build ID mismatch" "Some binary filenames not available. Symbolization may be incomplete.\nTry setting PPROF_BINARY_PATH to the search path for local binaries."]
posts=["http://host:80/debug/pprof/symbol 0x2010+0x2011+0x2012+0x2013+0x300f" "http://host:80/debug/pprof/symbol 0x3010+0x3011+0x3012+0x3013+0x400f" "http://host:80/debug/pprof/symbol 0x5010+0x5011+0x5012+0x5013+0x600f"]
L13 0x1000 M1 folded=false:
L16 0x1001 M1 folded=false:
L19 0x1002 M1 folded=false: F41@4098:0
L22 0x1003 M1 folded=false: F42@0:0 F41@7:2
L25 0x1fff M1 folded=false: F42@0:0 F41@7:2
L28 0x2000 M2 folded=false: F43@0:0
L31 0x2001 M2 folded=false: F44@0:0
L34 0x2002 M2 folded=false:
L37 0x2003 M2 folded=false: F44@0:0
L40 0x2fff M2 folded=false: F43@0:0
L43 0x3000 M5 folded=false: F45@0:0
L46 0x3001 M5 folded=false: F46@0:0
L49 0x3002 M5 folded=false:
L52 0x3003 M5 folded=false: F46@0:0
L55 0x3fff M5 folded=false: F45@0:0
L58 0x4000 M7 folded=false: F4@0:0
L61 0x4001 M7 folded=false: F40@1:0
L64 0x4002 M7 folded=false: F4@2:0
L67 0x4003 M7 folded=false: F40@3:0
L70 0x4fff M7 folded=false: F40@4095:0
L73 0x5000 M9 folded=false: F47@0:0
L76 0x5001 M9 folded=false: F48@0:0
L79 0x5002 M9 folded=false:
L82 0x5003 M9 folded=false: F48@0:0
L85 0x5fff M9 folded=false: F47@0:0
M1 fn=true file=true line=true inl=true
M2 fn=true file=false line=false inl=false
M5 fn=true file=false line=false inl=false
M7 fn=true file=false line=false inl=false
M9 fn=true file=false line=false inl=false
F4 "done" "_Z4donev" "d.cc" 0
F40 "a::b" "_ZN1a1bEv" "" 0
F41 "foo::bar" "_ZN3foo3barEv" "foo.cc" 3
F42 "inl" "inl<int>(char)" "" 0
F43 "sym" "_Z3sym0v" "" 0
F44 "sym" "_Z3sym1v" "" 0
F45 "sym" "_Z3sym0v" "" 0
F46 "sym" "_Z3sym1v" "" 0
F47 "sym" "_Z3sym0v" "" 0
F48 "sym" "_Z3sym1v" "" 0
`,
	"local": `err=<nil>
ui=["Local symbolization failed for missing.so: no such file" "Local symbolization failed for mismatch.so (build ID abc): build ID mismatch" "Some binary filenames not available. Symbolization may be incomplete.\nTry setting PPROF_BINARY_PATH to the search path for local binaries."]
posts=[]
L13 0x1000 M1 folded=false:
L16 0x1001 M1 folded=false:
L19 0x1002 M1 folded=false: F41@4098:0
L22 0x1003 M1 folded=false: F42@0:0 F41@7:2
L25 0x1fff M1 folded=false: F42@0:0 F41@7:2
L28 0x2000 M2 folded=false:
L31 0x2001 M2 folded=false:
L34 0x2002 M2 folded=false:
L37 0x2003 M2 folded=false:
L40 0x2fff M2 folded=false:
L43 0x3000 M5 folded=false:
L46 0x3001 M5 folded=false:
L49 0x3002 M5 folded=false:
L52 0x3003 M5 folded=false:
L55 0x3fff M5 folded=false:
L58 0x4000 M7 folded=false: F4@0:0
L61 0x4001 M7 folded=false: F40@1:0
L64 0x4002 M7 folded=false: F4@2:0
L67 0x4003 M7 folded=false: F40@3:0
L70 0x4fff M7 folded=false: F40@4095:0
L73 0x5000 M9 folded=false:
L76 0x5001 M9 folded=false:
L79 0x5002 M9 folded=false:
L82 0x5003 M9 folded=false:
L85 0x5fff M9 folded=false:
M1 fn=true file=true line=true inl=true
M2 fn=false file=false line=false inl=false
M5 fn=false file=false line=false inl=false
M7 fn=true file=false line=false inl=false
M9 fn=false file=false line=false inl=false
F4 "done" "_Z4donev" "d.cc" 0
F40 "a::b" "_ZN1a1bEv" "" 0
F41 "foo::bar" "_ZN3foo3barEv" "foo.cc" 3
F42 "inl" "inl<int>(char)" "" 0
`,
	"remote:force": `err=<nil>
ui=[]
posts=["http://host:80/debug/pprof/symbol 0x1010+0x1011+0x1012+0x1013+0x200f" "http://host:80/debug/pprof/symbol 0x2010+0x2011+0x2012+0x2013+0x300f" "http://host:80/debug/pprof/symbol 0x3010+0x3011+0x3012+0x3013+0x400f" "http://host:80/debug/pprof/symbol 0x5010+0x5011+0x5012+0x5013+0x600f"]
L13 0x1000 M1 folded=false: F41@0:0
L16 0x1001 M1 folded=false: F42@0:0
L19 0x1002 M1 folded=false:
L22 0x1003 M1 folded=false: F42@0:0
L25 0x1fff M1 folded=false: F41@0:0
L28 0x2000 M2 folded=false: F43@0:0
L31 0x2001 M2 folded=false: F44@0:0
L34 0x2002 M2 folded=false:
L37 0x2003 M2 folded=false: F44@0:0
L40 0x2fff M2 folded=false: F43@0:0
L43 0x3000 M5 folded=false: F45@0:0
L46 0x3001 M5 folded=false: F46@0:0
L49 0x3002 M5 folded=false:
L52 0x3003 M5 folded=false: F46@0:0
L55 0x3fff M5 folded=false: F45@0:0
L58 0x4000 M7 folded=false: F4@0:0
L61 0x4001 M7 folded=false: F40@1:0
L64 0x4002 M7 folded=false: F4@2:0
L67 0x4003 M7 folded=false: F40@3:0
L70 0x4fff M7 folded=false: F40@4095:0
L73 0x5000 M9 folded=false: F47@0:0
L76 0x5001 M9 folded=false: F48@0:0
L79 0x5002 M9 folded=false:
L82 0x5003 M9 folded=false: F48@0:0
L85 0x5fff M9 folded=false: F47@0:0
M1 fn=true file=false line=false inl=false
M2 fn=true file=false line=false inl=false
M5 fn=true file=false line=false inl=false
M7 fn=true file=false line=false inl=false
M9 fn=true file=false line=false inl=false
F4 "done" "_Z4donev" "d.cc" 0
F40 "a::b" "_ZN1a1bEv" "" 0
F41 "sym" "_Z3sym0v" "" 0
F42 "sym" "_Z3sym1v" "" 0
F43 "sym" "_Z3sym0v" "" 0
F44 "sym" "_Z3sym1v" "" 0
F45 "sym" "_Z3sym0v" "" 0
F46 "sym" "_Z3sym1v" "" 0
F47 "sym" "_Z3sym0v" "" 0
F48 "sym" "_Z3sym1v" "" 0
`,
	"force:demangle=full": `err=<nil>
ui=["Local symbolization failed for missing.so: no such file" "Local symbolization failed for mismatch.so (build ID abc): build ID mismatch" "Some binary filenames not available. Symbolization may be incomplete.\nTry setting PPROF_BINARY_PATH to the search path for local binaries."]
posts=["http://host:80/debug/pprof/symbol 0x1010+0x1011" "http://host:80/debug/pprof/symbol 0x2010+0x2011+0x2012+0x2013+0x300f" "http://host:80/debug/pprof/symbol 0x3010+0x3011+0x3012+0x3013+0x400f" "http://host:80/debug/pprof/symbol 0x5010+0x5011+0x5012+0x5013+0x600f"]
L13 0x1000 M1 folded=false: F43@0:0
L16 0x1001 M1 folded=false: F44@0:0
L19 0x1002 M1 folded=false: F41@4098:0
L22 0x1003 M1 folded=false: F42@0:0 F41@7:2
L25 0x1fff M1 folded=false: F42@0:0 F41@7:2
L28 0x2000 M2 folded=false: F45@0:0
L31 0x2001 M2 folded=false: F46@0:0
L34 0x2002 M2 folded=false:
L37 0x2003 M2 folded=false: F46@0:0
L40 0x2fff M2 folded=false: F45@0:0
L43 0x3000 M5 folded=false: F47@0:0
L46 0x3001 M5 folded=false: F48@0:0
L49 0x3002 M5 folded=false:
L52 0x3003 M5 folded=false: F48@0:0
L55 0x3fff M5 folded=false: F47@0:0
L58 0x4000 M7 folded=false: F4@0:0
L61 0x4001 M7 folded=false: F40@1:0
L64 0x4002 M7 folded=false: F41@16386:0
L67 0x4003 M7 folded=false: F42@0:0 F41@7:2
L70 0x4fff M7 folded=false: F42@0:0 F41@7:2
L73 0x5000 M9 folded=false: F49@0:0
L76 0x5001 M9 folded=false: F50@0:0
L79 0x5002 M9 folded=false:
L82 0x5003 M9 folded=false: F50@0:0
L85 0x5fff M9 folded=false: F49@0:0
M1 fn=true file=true line=true inl=true
M2 fn=true file=false line=false inl=false
M5 fn=true file=false line=false inl=false
M7 fn=true file=true line=true inl=true
M9 fn=true file=false line=false inl=false
F4 "done()" "_Z4donev" "d.cc" 0
F40 "a::b()" "_ZN1a1bEv" "" 0
F41 "foo::bar()" "_ZN3foo3barEv" "foo.cc" 3
F42 "inl<int>(char)" "inl<int>(char)" "" 0
F43 "_Z3sym0v" "_Z3sym0v" "" 0
F44 "sym(v)" "_Z3sym1v" "" 0
F45 "_Z3sym0v" "_Z3sym0v" "" 0
F46 "sym(v)" "_Z3sym1v" "" 0
F47 "_Z3sym0v" "_Z3sym0v" "" 0
F48 "sym(v)" "_Z3sym1v" "" 0
F49 "_Z3sym0v" "_Z3sym0v" "" 0
F50 "sym(v)" "_Z3sym1v" "" 0
`,
	"none": `err=<nil>
ui=[]
posts=[]
L13 0x1000 M1 folded=false:
L16 0x1001 M1 folded=false:
L19 0x1002 M1 folded=false:
L22 0x1003 M1 folded=false:
L25 0x1fff M1 folded=false:
L28 0x2000 M2 folded=false:
L31 0x2001 M2 folded=false:
L34 0x2002 M2 folded=false:
L37 0x2003 M2 folded=false:
L40 0x2fff M2 folded=false:
L43 0x3000 M5 folded=false:
L46 0x3001 M5 folded=false:
L49 0x3002 M5 folded=false:
L52 0x3003 M5 folded=false:
L55 0x3fff M5 folded=false:
L58 0x4000 M7 folded=false: F4@0:0
L61 0x4001 M7 folded=false: F40@1:0
L64 0x4002 M7 folded=false: F4@2:0
L67 0x4003 M7 folded=false: F40@3:0
L70 0x4fff M7 folded=false: F40@4095:0
L73 0x5000 M9 folded=false:
L76 0x5001 M9 folded=false:
L79 0x5002 M9 folded=false:
L82 0x5003 M9 folded=false:
L85 0x5fff M9 folded=false:
M1 fn=false file=false line=false inl=false
M2 fn=false file=false line=false inl=false
M5 fn=false file=false line=false inl=false
M7 fn=true file=false line=false inl=false
M9 fn=false file=false line=false inl=false
F4 "done" "_Z4donev" "d.cc" 0
F40 "" "_ZN1a1bEv" "" 0
`,
	"bogus:demangle=templates": `err=<nil>
ui=["ignoring unrecognized symbolization option: bogus:demangle=templates" "expecting -symbolize=[local|fastlocal|remote|none][:force][:demangle=[none|full|templates|default]" "Local symbolization failed for missing.so: no such file" "Local symbolization failed for mismatch.so (build ID abc): build ID mismatch" "Some binary filenames not available. Symbolization may be incomplete.\nTry setting PPROF_BINARY_PATH to the search path for local binaries."]
posts=["http://host:80/debug/pprof/symbol 0x1010+0x1011" "http://host:80/debug/pprof/symbol 0x2010+0x2011+0x2012+0x2013+0x300f" "http://host:80/debug/pprof/symbol 0x3010+0x3011+0x3012+0x3013+0x400f" "http://host:80/debug/pprof/symbol 0x5010+0x5011+0x5012+0x5013+0x600f"]
L13 0x1000 M1 folded=false: F43@0:0
L16 0x1001 M1 folded=false: F44@0:0
L19 0x1002 M1 folded=false: F41@4098:0
L22 0x1003 M1 folded=false: F42@0:0 F41@7:2
L25 0x1fff M1 folded=false: F42@0:0 F41@7:2
L28 0x2000 M2 folded=false: F45@0:0
L31 0x2001 M2 folded=false: F46@0:0
L34 0x2002 M2 folded=false:
L37 0x2003 M2 folded=false: F46@0:0
L40 0x2fff M2 folded=false: F45@0:0
L43 0x3000 M5 folded=false: F47@0:0
L46 0x3001 M5 folded=false: F48@0:0
L49 0x3002 M5 folded=false:
L52 0x3003 M5 folded=false: F48@0:0
L55 0x3fff M5 folded=false: F47@0:0
L58 0x4000 M7 folded=false: F4@0:0
L61 0x4001 M7 folded=false: F40@1:0
L64 0x4002 M7 folded=false: F41@16386:0
L67 0x4003 M7 folded=false: F42@0:0 F41@7:2
L70 0x4fff M7 folded=false: F42@0:0 F41@7:2
L73 0x5000 M9 folded=false: F49@0:0
L76 0x5001 M9 folded=false: F50@0:0
L79 0x5002 M9 folded=false:
L82 0x5003 M9 folded=false: F50@0:0
L85 0x5fff M9 folded=false: F49@0:0
M1 fn=true file=true line=true inl=true
M2 fn=true file=false line=false inl=false
M5 fn=true file=false line=false inl=false
M7 fn=true file=true line=true inl=true
M9 fn=true file=false line=false inl=false
F4 "done" "_Z4donev" "d.cc" 0
F40 "a::b" "_ZN1a1bEv" "" 0
F41 "foo::bar" "_ZN3foo3barEv" "foo.cc" 3
F42 "inl<int>" "inl<int>(char)" "" 0
F43 "sym" "_Z3sym0v" "" 0
F44 "sym" "_Z3sym1v" "" 0
F45 "sym" "_Z3sym0v" "" 0
F46 "sym" "_Z3sym1v" "" 0
F47 "sym" "_Z3sym0v" "" 0
F48 "sym" "_Z3sym1v" "" 0
F49 "sym" "_Z3sym0v" "" 0
F50 "sym" "_Z3sym1v" "" 0
`,
}

func TestZZEquivAEndToEnd(t *testing.T) {
	for _, mode := range []string{"", "local", "remote:force", "force:demangle=full", "none", "bogus:demangle=templates"} {
		p := zzProfile()
		ui := &zzUI{}
		tr := &zzTransport{}
		s := &Symbolizer{Obj: zzObjTool{}, UI: ui, Transport: tr}
		sources := plugin.MappingSources{}
		for _, m := range p.Mapping {
			sources[m.File] = append(sources[m.File], struct {
				Source string
				Start  uint64
			}{"http://host:80/debug/pprof/profile", m.Start + 0x10})
		}
		err := s.Symbolize(mode, sources, p)
		if cerr := p.CheckValid(); cerr != nil {
			t.Errorf("mode %q: invalid result: %v", mode, cerr)
		}
		if got, want := zzSamples(p), zzSamples(zzProfile()); got != want {
			t.Errorf("mode %q: samples changed:\n got %s\nwant %s", mode, got, want)
		}
		got := fmt.Sprintf("err=%v\nui=%q\nposts=%q\n%s", err, ui.errs, tr.posts, zzDump(p))
		if out := os.Getenv("ZZ_PRINT"); out != "" {
			f, _ := os.OpenFile(out, os.O_APPEND|os.O_CREATE|os.O_WRONLY, 0644)
			fmt.Fprintf(f, "\t%q: `%s`,\n", mode, got)
			f.Close()
		}
		if want := zzE2EWant[mode]; got != want {
			t.Errorf("mode %q:\n got:\n%s\nwant:\n%s", mode, got, want)
		}
	}
}
