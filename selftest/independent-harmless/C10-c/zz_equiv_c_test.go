package driver

import (
	"crypto/sha256"
	"fmt"
	"io"
	"net/http"
	"net/http/httptest"
	"os"
	"regexp"
	"strings"
	"sync"
	"testing"

	"github.com/google/pprof/internal/plugin"
	"github.com/google/pprof/internal/proftest"
)

// zzCUI records the messages sent to the terminal UI.
type zzCUI struct {
	proftest.TestUI
	mu  sync.Mutex
	log []string
}

func (*zzCUI) Print(args ...interface{}) {}
func (u *zzCUI) PrintErr(args ...interface{}) {
	u.mu.Lock()
	u.log = append(u.log, fmt.Sprint(args...))
	u.mu.Unlock()
}
func (u *zzCUI) drain() []string {
	u.mu.Lock()
	defer u.mu.Unlock()
	l := u.log
	u.log = nil
	return l
}

var zzCItemRE = regexp.MustCompile(`\{"Name":"([^"]*)","InlineLabel":"[^"]*","Flat":(-?\d+),"Cum":(-?\d+)`)

type zzCResp struct {
	summary string
	body    string
}

func zzCFetch(t *testing.T, url string) zzCResp {
	res, err := http.Get(url)
	if err != nil {
		t.Fatal(err)
	}
	defer res.Body.Close()
	data, err := io.ReadAll(res.Body)
	if err != nil {
		t.Fatal(err)
	}
	var items []string
	for _, m := range zzCItemRE.FindAllStringSubmatch(string(data), -1) {
		items = append(items, m[1]+":"+m[2]+"/"+m[3])
	}
	s := fmt.Sprintf("%d %s len=%d sha=%x items=%v", res.StatusCode, res.Header.Get("Content-Type"), len(data), sha256.Sum256(data), items)
	if res.StatusCode != 200 {
		s += fmt.Sprintf(" body=%q", data)
	}
	return zzCResp{s, string(data)}
}

// TestZZEquivCWebHistory replays a history of web requests (good ones, ones
// with bad URL parameters, ones whose report generation fails) interleaved
// with option assignments, and records status, content type, body digest and
// terminal messages of every step. It also checks the history-independence
// directly: the same request gives the same bytes wherever it occurs, handler
// specific config edits (nodecount of /top, granularity of /peek, call_tree of
// /flamegraph) never reach the persistent config, and concurrent mixes agree
// with sequential answers.
func TestZZEquivCWebHistory(t *testing.T) {
	t.Setenv("HOME", t.TempDir())
	t.Setenv("XDG_CONFIG_HOME", t.TempDir())
	saved := currentConfig()
	defer setCurrentConfig(saved)
	setCurrentConfig(defaultConfig())
	savedMode := interactiveMode
	defer func() { interactiveMode = savedMode }()

	var server *httptest.Server
	created := make(chan bool)
	creator := func(a *plugin.HTTPServerArgs) error {
		server = httptest.NewServer(http.HandlerFunc(func(w http.ResponseWriter, r *http.Request) {
			if h := a.Handlers[r.URL.Path]; h != nil {
				h.ServeHTTP(w, r)
			}
		}))
		created <- true
		return nil
	}
	ui := &zzCUI{}
	ui.T = t
	go serveWebInterface("unused:1234", makeFakeProfile(), &plugin.Options{
		Obj: fakeObjTool{}, UI: ui, HTTPServer: creator,
	}, false)
	<-created
	defer server.Close()
	ui.drain()

	var sb strings.Builder
	seen := map[string]string{} // path + persistent config -> summary
	get := func(path string) {
		persistent := currentConfig()
		r := zzCFetch(t, server.URL+path)
		fmt.Fprintf(&sb, "GET %s -> %s\n", path, r.summary)
		for _, m := range ui.drain() {
			fmt.Fprintf(&sb, "    UI: %s\n", m)
		}
		if after := currentConfig(); after != persistent {
			t.Errorf("GET %s changed the persistent config:\n%+v\n%+v", path, persistent, after)
		}
		key := fmt.Sprintf("%s %+v", path, persistent)
		if prev, ok := seen[key]; ok && prev != r.summary {
			t.Errorf("GET %s depends on the history:\n%s\n%s", path, prev, r.summary)
		}
		seen[key] = r.summary
	}
	set := func(n, v string) {
		fmt.Fprintf(&sb, "SET %s=%q err=%v\n", n, v, configure(n, v))
	}

	history := []string{
		"/top",
		"/top?n=1",       // /top always forces nodecount=500
		"/top?f=F3",
		"/top",
		"/top?n=abc",     // bad URL parameter
		"/top?sort=bad",  // bad choice
		"/top?nf=x",
		"/top?calltree=maybe",
		"/top",
		"/flamegraph",
		"/flamegraph?i=F3&g=lines",
		"/flamegraph?g=bogus",
		"/flamegraph",
		"/peek?f=F2",
		"/peek?f=(",       // bad regexp as command argument and as focus
		"/peek?f=nomatch",
		"/peek?f=F2",
		"/disasm?f=F1",
		"/disasm?f=nomatch",
		"/disasm?f=F1",
		"/source?f=F[12]",
		"/source?f=nomatch",
		"/source?f=F[12]",
		"/top?h=F2&s=F",
		"/top?ti=x&tf=y",
		"/top",
		"SET focus=F3",
		"/top",
		"/peek?f=F2",
		"/flamegraph",
		"/top?f=F1&i=F3",
		"/top",
		"SET nodecount=1",
		"SET granularity=files",
		"/top",
		"/peek?f=F2",
		"/flamegraph",
		"/top?g=lines&n=2",
		"/top",
		"SET focus=",
		"SET nodecount=-1",
		"RESET", // granularity cannot be assigned "" again; restore the defaults wholesale
		"/top",
		"/flamegraph",
		"/peek?f=F2",
		"/disasm?f=F1",
		"/source?f=F[12]",
	}
	for _, h := range history {
		if h == "RESET" {
			setCurrentConfig(defaultConfig())
			fmt.Fprintf(&sb, "RESET\n")
			continue
		}
		if strings.HasPrefix(h, "SET ") {
			kv := strings.SplitN(strings.TrimPrefix(h, "SET "), "=", 2)
			set(kv[0], kv[1])
			continue
		}
		get(h)
	}
	if c := currentConfig(); c != defaultConfig() {
		t.Errorf("persistent config is not back to the defaults: %+v", c)
	}

	// Concurrent mix, including failing requests: every response must equal
	// the sequential answer for the same URL.
	paths := []string{"/top", "/top?f=F3", "/top?n=abc", "/flamegraph", "/flamegraph?i=F3&g=lines",
		"/peek?f=F2", "/peek?f=(", "/disasm?f=F1", "/source?f=F[12]", "/source?f=nomatch", "/top?h=F2&s=F"}
	seq := map[string]string{}
	for _, p := range paths {
		seq[p] = zzCFetch(t, server.URL+p).summary
	}
	var wg sync.WaitGroup
	for round := 0; round < 4; round++ {
		for _, p := range paths {
			wg.Add(1)
			go func(p string) {
				defer wg.Done()
				if r := zzCFetch(t, server.URL+p).summary; r != seq[p] {
					t.Errorf("concurrent %s differs from sequential:\n%s\n%s", p, seq[p], r)
				}
			}(p)
		}
	}
	wg.Wait()
	ui.drain()
	get("/top")
	get("/peek?f=F2")

	// The golden transcript lives in a raw string literal: no backquotes.
	got := strings.ReplaceAll(sb.String(), "`", "'")
	if os.Getenv("ZZ_PRINT") != "" {
		fmt.Printf("=== history ===\n%s=== end ===\n", got)
		return
	}
	if got != zzCWantHistory {
		t.Errorf("transcript differs from the one recorded on the unchanged tree\n--- got ---\n%s--- want ---\n%s", got, zzCWantHistory)
	}
}

const zzCWantHistory = `GET /top -> 200 text/html len=29304 sha=7e378671646a0d30c49a476852d0dc9706acfd78e55bf8678cdc63b948de2a59 items=[F2:200/300 F3:100/100 F1:0/300]
GET /top?n=1 -> 200 text/html len=29264 sha=0cf22cbfcc2bc67ad99213cbd4a2dfb79e67a093078765789eddd405a240fa8d items=[F2:200/300 F3:100/100 F1:0/300]
GET /top?f=F3 -> 200 text/html len=29308 sha=161531c2ee2556a396aeec5edaf44c157b1871af84122969aa5eeaaf41cb2a47 items=[F3:100/100 F1:0/100 F2:0/100]
GET /top -> 200 text/html len=29304 sha=7e378671646a0d30c49a476852d0dc9706acfd78e55bf8678cdc63b948de2a59 items=[F2:200/300 F3:100/100 F1:0/300]
GET /top?n=abc -> 400 text/plain; charset=utf-8 len=82 sha=8a213cfc1e60c60b9f8d36e09ec8d59139cb44a6d4d15be7c5c4728605cac289 items=[] body="error setting config field nodecount: strconv.Atoi: parsing \"abc\": invalid syntax\n"
    UI: error setting config field nodecount: strconv.Atoi: parsing "abc": invalid syntax
GET /top?sort=bad -> 400 text/plain; charset=utf-8 len=60 sha=8a6efc9c7302c0cc2e7888f0b2a6e8ad8a81960bd3e3ec64447381a365b2a0ae items=[] body="error setting config field sort: invalid \"sort\" value \"bad\"\n"
    UI: error setting config field sort: invalid "sort" value "bad"
GET /top?nf=x -> 400 text/plain; charset=utf-8 len=89 sha=b7cad650ee24c86423c2194ab65414a85fceef9cc6c1656f87c50bbe94010e58 items=[] body="error setting config field nodefraction: strconv.ParseFloat: parsing \"x\": invalid syntax\n"
    UI: error setting config field nodefraction: strconv.ParseFloat: parsing "x": invalid syntax
GET /top?calltree=maybe -> 400 text/plain; charset=utf-8 len=78 sha=d10f7bd2b318e244b9c3353eb6dc84e727e7171b478f72bb3b4d333e13fc8bcc items=[] body="error setting config field call_tree: illegal value \"maybe\" for bool variable\n"
    UI: error setting config field call_tree: illegal value "maybe" for bool variable
GET /top -> 200 text/html len=29304 sha=7e378671646a0d30c49a476852d0dc9706acfd78e55bf8678cdc63b948de2a59 items=[F2:200/300 F3:100/100 F1:0/300]
GET /flamegraph -> 200 text/html len=45840 sha=8da0247b06a2c45966f66265c4080c182017510c6ba305750b135d15491c718d items=[]
GET /flamegraph?i=F3&g=lines -> 200 text/html len=45613 sha=3f241f11c1071472c880afde7f0fee2ec83afaf45b075be2c357074b3f3f62e4 items=[]
GET /flamegraph?g=bogus -> 400 text/plain; charset=utf-8 len=76 sha=48b0d24c2c624d3ebf08f27293c1a7e6a647503fd9b226c95adaaa69bc00cecc items=[] body="error setting config field granularity: invalid \"granularity\" value \"bogus\"\n"
    UI: error setting config field granularity: invalid "granularity" value "bogus"
GET /flamegraph -> 200 text/html len=45840 sha=8da0247b06a2c45966f66265c4080c182017510c6ba305750b135d15491c718d items=[]
GET /peek?f=F2 -> 200 text/html len=27075 sha=fa58c68a233fbbc6095a01ef5c248b56c93b7379c93abf677aa5c37d3a20220b items=[]
GET /peek?f=( -> 400 text/plain; charset=utf-8 len=72 sha=61d48a58043f9e9e3ca8d41604f9643b4b38aa060b198cc3167f708f37e931f7 items=[] body="parsing argument regexp (: error parsing regexp: missing closing ): '('\n"
    UI: parsing argument regexp (: error parsing regexp: missing closing ): '('
GET /peek?f=nomatch -> 400 text/plain; charset=utf-8 len=37 sha=b2637f7a30bb6ba506a3b5f23f070ec8fc8b9450729af06b50db2d82257f7f95 items=[] body="no matches found for regexp: nomatch\n"
    UI: Focus expression matched no samples
    UI: no matches found for regexp: nomatch
GET /peek?f=F2 -> 200 text/html len=27075 sha=fa58c68a233fbbc6095a01ef5c248b56c93b7379c93abf677aa5c37d3a20220b items=[]
GET /disasm?f=F1 -> 200 text/html len=27033 sha=14f5faab6df8609a3b9438e4975993819f1bbb6fab8a10bbba79572f1029fe5f items=[]
GET /disasm?f=nomatch -> 400 text/plain; charset=utf-8 len=36 sha=692b66e5161e70a34f1275d516ebb7e114a648892bbe9cade6cbe4f430532e97 items=[] body="no matches found for regexp nomatch\n"
    UI: Focus expression matched no samples
    UI: no matches found for regexp nomatch
GET /disasm?f=F1 -> 200 text/html len=27033 sha=14f5faab6df8609a3b9438e4975993819f1bbb6fab8a10bbba79572f1029fe5f items=[]
GET /source?f=F[12] -> 200 text/html len=27907 sha=6dbf0f809ff631fd41297c0fdab3f51d60feca3643e62d43d59e68c367132f5e items=[]
GET /source?f=nomatch -> 400 text/plain; charset=utf-8 len=37 sha=b2637f7a30bb6ba506a3b5f23f070ec8fc8b9450729af06b50db2d82257f7f95 items=[] body="no matches found for regexp: nomatch\n"
    UI: Focus expression matched no samples
    UI: no matches found for regexp: nomatch
GET /source?f=F[12] -> 200 text/html len=27907 sha=6dbf0f809ff631fd41297c0fdab3f51d60feca3643e62d43d59e68c367132f5e items=[]
GET /top?h=F2&s=F -> 200 text/html len=29239 sha=ca016ee02223d1319ddeb7cc31feccb8337857cf541fe81d8f4cdb880f77b496 items=[F1:200/300 F3:100/100]
GET /top?ti=x&tf=y -> 200 text/html len=29154 sha=ac484bce4367824c446469b3431d29436bfdde8e076fda73c8977c3242b6b7dd items=[]
    UI: TagFocus expression matched no samples
    UI: TagIgnore expression matched no samples
GET /top -> 200 text/html len=29304 sha=7e378671646a0d30c49a476852d0dc9706acfd78e55bf8678cdc63b948de2a59 items=[F2:200/300 F3:100/100 F1:0/300]
SET focus="F3" err=<nil>
GET /top -> 200 text/html len=29348 sha=4dc54422f24a7012e1cbc46bd4301cf982e3817091761834f5e9030394936aba items=[F3:100/100 F1:0/100 F2:0/100]
GET /peek?f=F2 -> 200 text/html len=27075 sha=fa58c68a233fbbc6095a01ef5c248b56c93b7379c93abf677aa5c37d3a20220b items=[]
GET /flamegraph -> 200 text/html len=45794 sha=c2220f275c03ed0b8e67b7def6683aef6850b399b3e1925a64d9d5064b45809f items=[]
GET /top?f=F1&i=F3 -> 200 text/html len=29239 sha=12aeb1cc1bd205680fbb4e280a25be7113ebe9c2739ec48165ddec5d1bee4a0a items=[F2:200/200 F1:0/200]
GET /top -> 200 text/html len=29348 sha=4dc54422f24a7012e1cbc46bd4301cf982e3817091761834f5e9030394936aba items=[F3:100/100 F1:0/100 F2:0/100]
SET nodecount="1" err=<nil>
SET granularity="files" err=<nil>
GET /top -> 200 text/html len=29462 sha=b76a73044b65a92503e49a7cd0b167d43f78ad03638a14fa6531fdbef3acad64 items=[testdata/file1000.src:100/100 testdata/file1000.src:0/100 testdata/file1000.src:0/100]
GET /peek?f=F2 -> 200 text/html len=27075 sha=fa58c68a233fbbc6095a01ef5c248b56c93b7379c93abf677aa5c37d3a20220b items=[]
GET /flamegraph -> 200 text/html len=45557 sha=2b070d77d25fbeda063dfc17f6338b87431167bed918dd9af55a35c93f4e0e32 items=[]
GET /top?g=lines&n=2 -> 200 text/html len=29458 sha=fa357a9f950219c3da187329fa4d7c0cbde158687a285539d34e8f0a8f4abdd6 items=[F3 testdata/file1000.src:33:100/100 F1 testdata/file1000.src:11:0/100 F2 testdata/file1000.src:22:0/100]
GET /top -> 200 text/html len=29462 sha=b76a73044b65a92503e49a7cd0b167d43f78ad03638a14fa6531fdbef3acad64 items=[testdata/file1000.src:100/100 testdata/file1000.src:0/100 testdata/file1000.src:0/100]
SET focus="" err=<nil>
SET nodecount="-1" err=<nil>
RESET
GET /top -> 200 text/html len=29304 sha=7e378671646a0d30c49a476852d0dc9706acfd78e55bf8678cdc63b948de2a59 items=[F2:200/300 F3:100/100 F1:0/300]
GET /flamegraph -> 200 text/html len=45840 sha=8da0247b06a2c45966f66265c4080c182017510c6ba305750b135d15491c718d items=[]
GET /peek?f=F2 -> 200 text/html len=27075 sha=fa58c68a233fbbc6095a01ef5c248b56c93b7379c93abf677aa5c37d3a20220b items=[]
GET /disasm?f=F1 -> 200 text/html len=27033 sha=14f5faab6df8609a3b9438e4975993819f1bbb6fab8a10bbba79572f1029fe5f items=[]
GET /source?f=F[12] -> 200 text/html len=27907 sha=6dbf0f809ff631fd41297c0fdab3f51d60feca3643e62d43d59e68c367132f5e items=[]
GET /top -> 200 text/html len=29304 sha=7e378671646a0d30c49a476852d0dc9706acfd78e55bf8678cdc63b948de2a59 items=[F2:200/300 F3:100/100 F1:0/300]
GET /peek?f=F2 -> 200 text/html len=27075 sha=fa58c68a233fbbc6095a01ef5c248b56c93b7379c93abf677aa5c37d3a20220b items=[]
`
