#!/bin/sh
# Usage: demo.sh <worktree-root>. Runs the equivalence tests for rewrite C against
# whatever source state the worktree is in (with or without c/patch.diff applied).
set -u
wt=${1:?usage: demo.sh <worktree root>}
here=$(cd "$(dirname "$0")" && pwd)
export GOFLAGS=-mod=mod GOPROXY=off GOSUMDB=off GOTOOLCHAIN=local
cp "$here/zz_equiv_c_test.go" "$wt/internal/graph/zz_equiv_c_test.go"
cp "$here/zz_equiv_c_report_test.go" "$wt/internal/report/zz_equiv_c_report_test.go"
(cd "$wt" && go test -vet=off -count=1 -run 'TestZZEquivC' ./internal/graph/ ./internal/report/)
rc=$?
rm -f "$wt/internal/graph/zz_equiv_c_test.go" "$wt/internal/report/zz_equiv_c_report_test.go"
exit $rc
