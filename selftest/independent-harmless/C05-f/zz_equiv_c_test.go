package graph

// Equivalence demonstration for rewrite C (keep-set construction for
// trimming: DiscardLowFrequencyNodes/NodePtrs, SelectTopNodes/NodePtrs,
// selectTopNodes). Expected kept sets were computed on the UNCHANGED tree and
// hard-coded; the test passes both with and without the patch.

import (
	"fmt"
	"math"
	"os"
	"sort"
	"strings"
	"testing"
)

func zzcNodes() (Nodes, map[*Node]int) {
	cums := []int64{1000, -900, 500, 500, 120, 100, 99, -100, 40, 5, 0, math.MinInt64, math.MaxInt64, 1, -1, 250}
	ns := make(Nodes, len(cums))
	id := map[*Node]int{}
	for i, c := range cums {
		n := &Node{
			Info: NodeInfo{Name: fmt.Sprintf("f%02d", i), Address: uint64(0x1000 + i)},
			Cum:  c, Flat: c / 3,
			In: EdgeMap{}, Out: EdgeMap{},
			LabelTags: TagMap{}, NumericTags: map[string]TagMap{},
		}
		// i%7 label tags, of which those with odd index have non-zero flat;
		// plus numeric tags on some nodes. Exercises the nodelet accounting
		// of the visual top-N selection (capped at maxNodelets per node).
		for k := 0; k < i%7; k++ {
			n.LabelTags[fmt.Sprintf("l%d", k)] = &Tag{Name: fmt.Sprintf("l%d", k), Flat: int64(k % 2), Cum: 1}
		}
		if i%3 == 0 {
			n.NumericTags[""] = TagMap{}
			for k := 0; k < i; k++ {
				n.NumericTags[""][fmt.Sprintf("n%d", k)] = &Tag{Name: fmt.Sprintf("n%d", k), Unit: "bytes", Value: int64(k), Flat: int64(k), Cum: int64(k)}
			}
		}
		ns[i] = n
		id[n] = i
	}
	return ns, id
}

func zzcIDs(ids []int) string {
	sort.Ints(ids)
	var parts []string
	for _, i := range ids {
		parts = append(parts, fmt.Sprint(i))
	}
	return strings.Join(parts, ",")
}

func zzcResults(t *testing.T) map[string]string {
	got := map[string]string{}
	ns, id := zzcNodes()
	byInfo := map[NodeInfo]int{}
	for n, i := range id {
		byInfo[n.Info] = i
	}
	infoIDs := func(s NodeSet) string {
		var ids []int
		for info, v := range s {
			if !v {
				t.Errorf("set holds a false entry for %v", info)
			}
			ids = append(ids, byInfo[info])
		}
		return zzcIDs(ids)
	}
	ptrIDs := func(s NodePtrSet) string {
		var ids []int
		for n, v := range s {
			if !v {
				t.Errorf("set holds a false entry for %v", n.Info)
			}
			ids = append(ids, id[n])
		}
		return zzcIDs(ids)
	}
	g := &Graph{Nodes: ns}
	for _, cutoff := range []int64{0, 1, 2, 41, 100, 101, 500, 501, 1000, 1001, math.MaxInt64} {
		a, b := infoIDs(g.DiscardLowFrequencyNodes(cutoff)), ptrIDs(g.DiscardLowFrequencyNodePtrs(cutoff))
		if a != b {
			t.Errorf("cutoff %d: info set %s, pointer set %s", cutoff, a, b)
		}
		got[fmt.Sprintf("cutoff/%d", cutoff)] = a
	}
	for _, visual := range []bool{false, true} {
		for max := 1; max <= len(ns)+40; max += 1 + max/6 {
			a, b := infoIDs(g.SelectTopNodes(max, visual)), ptrIDs(g.SelectTopNodePtrs(max, visual))
			// (The two differ for the node with Cum == math.MinInt64, whose
			// abs64 is negative: SelectTopNodes filters with cutoff 0.)
			got[fmt.Sprintf("top/visual=%v/%d", visual, max)] = a + "|" + b
		}
	}
	// Empty graph.
	e := &Graph{}
	got["empty"] = fmt.Sprint(len(e.DiscardLowFrequencyNodes(5)), len(e.DiscardLowFrequencyNodePtrs(5)),
		len(e.SelectTopNodes(3, false)), len(e.SelectTopNodePtrs(3, true)), len(e.SelectTopNodes(3, true)))
	// The sets are fresh maps: mutating one must not affect the graph.
	s := g.DiscardLowFrequencyNodePtrs(0)
	for n := range s {
		delete(s, n)
	}
	got["nodes-after"] = fmt.Sprint(len(g.Nodes))
	return got
}

func TestZZEquivC(t *testing.T) {
	got := zzcResults(t)
	if os.Getenv("ZZ_PRINT") != "" {
		for k, v := range got {
			fmt.Printf("\t%q: %q,\n", k, v)
		}
		return
	}
	if len(got) != len(zzcWant) {
		t.Errorf("got %d results, want %d", len(got), len(zzcWant))
	}
	for k, w := range zzcWant {
		if got[k] != w {
			t.Errorf("%s: got %s, want %s (computed on the unchanged tree)", k, got[k], w)
		}
	}
}

var zzcWant = map[string]string{
	"cutoff/0":                   "0,1,2,3,4,5,6,7,8,9,10,12,13,14,15",
	"cutoff/1":                   "0,1,2,3,4,5,6,7,8,9,12,13,14,15",
	"cutoff/100":                 "0,1,2,3,4,5,7,12,15",
	"cutoff/1000":                "0,12",
	"cutoff/1001":                "12",
	"cutoff/101":                 "0,1,2,3,4,12,15",
	"cutoff/2":                   "0,1,2,3,4,5,6,7,8,9,12,15",
	"cutoff/41":                  "0,1,2,3,4,5,6,7,12,15",
	"cutoff/500":                 "0,1,2,3,12",
	"cutoff/501":                 "0,1,12",
	"cutoff/9223372036854775807": "12",
	"empty":                      "0 0 0 0 0",
	"nodes-after":                "16",
	"top/visual=false/1":         "0|0",
	"top/visual=false/10":        "0,1,2,3,4,5,6,7,8,9|0,1,2,3,4,5,6,7,8,9",
	"top/visual=false/12":        "0,1,2,3,4,5,6,7,8,9,10|0,1,2,3,4,5,6,7,8,9,10,11",
	"top/visual=false/15":        "0,1,2,3,4,5,6,7,8,9,10,12,13,14|0,1,2,3,4,5,6,7,8,9,10,11,12,13,14",
	"top/visual=false/18":        "0,1,2,3,4,5,6,7,8,9,10,12,13,14,15|0,1,2,3,4,5,6,7,8,9,10,11,12,13,14,15",
	"top/visual=false/2":         "0,1|0,1",
	"top/visual=false/22":        "0,1,2,3,4,5,6,7,8,9,10,12,13,14,15|0,1,2,3,4,5,6,7,8,9,10,11,12,13,14,15",
	"top/visual=false/26":        "0,1,2,3,4,5,6,7,8,9,10,12,13,14,15|0,1,2,3,4,5,6,7,8,9,10,11,12,13,14,15",
	"top/visual=false/3":         "0,1,2|0,1,2",
	"top/visual=false/31":        "0,1,2,3,4,5,6,7,8,9,10,12,13,14,15|0,1,2,3,4,5,6,7,8,9,10,11,12,13,14,15",
	"top/visual=false/37":        "0,1,2,3,4,5,6,7,8,9,10,12,13,14,15|0,1,2,3,4,5,6,7,8,9,10,11,12,13,14,15",
	"top/visual=false/4":         "0,1,2,3|0,1,2,3",
	"top/visual=false/44":        "0,1,2,3,4,5,6,7,8,9,10,12,13,14,15|0,1,2,3,4,5,6,7,8,9,10,11,12,13,14,15",
	"top/visual=false/5":         "0,1,2,3,4|0,1,2,3,4",
	"top/visual=false/52":        "0,1,2,3,4,5,6,7,8,9,10,12,13,14,15|0,1,2,3,4,5,6,7,8,9,10,11,12,13,14,15",
	"top/visual=false/6":         "0,1,2,3,4,5|0,1,2,3,4,5",
	"top/visual=false/8":         "0,1,2,3,4,5,6,7|0,1,2,3,4,5,6,7",
	"top/visual=true/1":          "0|0",
	"top/visual=true/10":         "0,1,2,3,4|0,1,2,3,4",
	"top/visual=true/12":         "0,1,2,3,4,5|0,1,2,3,4,5",
	"top/visual=true/15":         "0,1,2,3,4,5,6|0,1,2,3,4,5,6",
	"top/visual=true/18":         "0,1,2,3,4,5,6|0,1,2,3,4,5,6",
	"top/visual=true/2":          "0,1|0,1",
	"top/visual=true/22":         "0,1,2,3,4,5,6,7,8,9|0,1,2,3,4,5,6,7,8,9",
	"top/visual=true/26":         "0,1,2,3,4,5,6,7,8,9|0,1,2,3,4,5,6,7,8,9",
	"top/visual=true/3":          "0,1,2|0,1,2",
	"top/visual=true/31":         "0,1,2,3,4,5,6,7,8,9,10|0,1,2,3,4,5,6,7,8,9,10,11",
	"top/visual=true/37":         "0,1,2,3,4,5,6,7,8,9,10,12,13|0,1,2,3,4,5,6,7,8,9,10,11,12,13",
	"top/visual=true/4":          "0,1,2|0,1,2",
	"top/visual=true/44":         "0,1,2,3,4,5,6,7,8,9,10,12,13,14,15|0,1,2,3,4,5,6,7,8,9,10,11,12,13,14,15",
	"top/visual=true/5":          "0,1,2,3|0,1,2,3",
	"top/visual=true/52":         "0,1,2,3,4,5,6,7,8,9,10,12,13,14,15|0,1,2,3,4,5,6,7,8,9,10,11,12,13,14,15",
	"top/visual=true/6":          "0,1,2,3|0,1,2,3",
	"top/visual=true/8":          "0,1,2,3|0,1,2,3",
}
