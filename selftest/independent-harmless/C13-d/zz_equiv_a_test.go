package elfexec

// Equivalence demonstration for change A (GetBase/kernelBase restructuring).
// It passes both on the unchanged tree and with the patch applied:
//   - a verbatim copy of the ORIGINAL GetBase/kernelBase is kept below as the
//     reference and compared with the package's GetBase on a structured sweep
//     and on a deterministic pseudo-random sweep that reaches every branch;
//   - a handful of results computed on the unchanged tree are hard-coded.

import (
	"debug/elf"
	"fmt"
	"testing"
)

func zzOrigKernelBase(loadSegment *elf.ProgHeader, stextOffset *uint64, start, limit, offset uint64) (uint64, bool) {
	const (
		pageOffsetPpc64 = 0xc000000000000000
		pageSize        = 4096
	)

	if loadSegment.Vaddr == start-offset {
		return offset, true
	}
	if start == 0 && limit != 0 && stextOffset != nil {
		return start - *stextOffset, true
	}
	if start >= 0x8000000000000000 && limit > start && (offset == 0 || offset == pageOffsetPpc64 || offset == start) {
		if stextOffset != nil && (start%pageSize) == (*stextOffset%pageSize) {
			return start - *stextOffset, true
		}

		return start - loadSegment.Vaddr, true
	}
	if start%pageSize != 0 && stextOffset != nil && *stextOffset%pageSize == start%pageSize {
		return start - *stextOffset, true
	}
	return 0, false
}

func zzOrigGetBase(fh *elf.FileHeader, loadSegment *elf.ProgHeader, stextOffset *uint64, start, limit, offset uint64) (uint64, error) {
	if start == 0 && offset == 0 && (limit == ^uint64(0) || limit == 0) {
		return 0, nil
	}

	switch fh.Type {
	case elf.ET_EXEC:
		if loadSegment == nil {
			return 0, nil
		}
		if stextOffset == nil && start > 0 && start < 0x8000000000000000 {
			return start - offset + loadSegment.Off - loadSegment.Vaddr, nil
		}
		if base, match := zzOrigKernelBase(loadSegment, stextOffset, start, limit, offset); match {
			return base, nil
		}
		if start == 0 && limit != 0 && stextOffset == nil {
			return start - loadSegment.Vaddr, nil
		}

		return 0, fmt.Errorf("don't know how to handle EXEC segment: %v start=0x%x limit=0x%x offset=0x%x", *loadSegment, start, limit, offset)
	case elf.ET_REL:
		if offset != 0 {
			return 0, fmt.Errorf("don't know how to handle mapping.Offset")
		}
		return start, nil
	case elf.ET_DYN:
		if loadSegment == nil {
			return start - offset, nil
		}
		if base, match := zzOrigKernelBase(loadSegment, stextOffset, start, limit, offset); match {
			return base, nil
		}
		return start - offset + loadSegment.Off - loadSegment.Vaddr, nil
	}
	return 0, fmt.Errorf("don't know how to handle FileHeader.Type %v", fh.Type)
}

type zzRng uint64

func (r *zzRng) next() uint64 {
	*r += 0x9e3779b97f4a7c15
	z := uint64(*r)
	z = (z ^ (z >> 30)) * 0xbf58476d1ce4e5b9
	z = (z ^ (z >> 27)) * 0x94d049bb133111eb
	return z ^ (z >> 31)
}

func zzCompare(t *testing.T, counts map[string]int, typ elf.Type, ph *elf.ProgHeader, stext *uint64, start, limit, offset uint64) {
	t.Helper()
	fh := &elf.FileHeader{Type: typ}
	var phCopy *elf.ProgHeader
	if ph != nil {
		c := *ph
		phCopy = &c
	}
	var stextCopy *uint64
	if stext != nil {
		c := *stext
		stextCopy = &c
	}
	got, gotErr := GetBase(fh, ph, stext, start, limit, offset)
	want, wantErr := zzOrigGetBase(fh, phCopy, stextCopy, start, limit, offset)
	desc := fmt.Sprintf("type=%v ph=%+v stext=%v start=%#x limit=%#x offset=%#x", typ, ph, stext, start, limit, offset)
	if stext != nil {
		desc += fmt.Sprintf(" *stext=%#x", *stext)
	}
	if (gotErr != nil) != (wantErr != nil) {
		t.Fatalf("%s: got err %v, reference err %v", desc, gotErr, wantErr)
	}
	if gotErr != nil {
		if gotErr.Error() != wantErr.Error() {
			t.Fatalf("%s: got err %q, reference err %q", desc, gotErr, wantErr)
		}
		counts["err"]++
		return
	}
	if got != want {
		t.Fatalf("%s: got base %#x, reference base %#x", desc, got, want)
	}
	counts["ok"]++
	if ph != nil {
		if _, m := zzOrigKernelBase(phCopy, stextCopy, start, limit, offset); m {
			counts["kernelBase-match"]++
		}
	}
}

func TestZZEquivAGetBaseSweep(t *testing.T) {
	counts := map[string]int{}
	types := []elf.Type{elf.ET_EXEC, elf.ET_DYN, elf.ET_REL, elf.ET_NONE, elf.ET_CORE}
	vaddrs := []uint64{0, 0x1000, 0x400000, 0x400040, 0x200c80, 0xffffffff80200000, 0xffffffff81000000, 0xc000000000000000, 0xffff000010080000}
	offs := []uint64{0, 0x40, 0xc80, 0x1000, 0x200000}
	starts := []uint64{0, 0x198, 0x1000, 0x400000, 0x5400000, 0x7f0000001000, 0x7fffffffffffffff, 0x8000000000000000, 0xffffffff80200000, 0xffffffff80200198, 0xffffffff83200000, 0xc000000000000000, 0xffff000020081000}
	sizes := []uint64{0, 0x1000, 0x2000, 0x2f9fffff, ^uint64(0)}
	mapOffs := []uint64{0, 0x1000, 0xc80, 0xc000000000000000, 1 /* replaced by start */}
	stexts := []*uint64{nil}
	for _, v := range []uint64{0, 0x198, 0xffffffff80200198, 0xffffffff80200000, 0xffffffff81000198, 0xffff000010081000} {
		v := v
		stexts = append(stexts, &v)
	}
	for _, typ := range types {
		for _, start := range starts {
			for _, sz := range sizes {
				limit := start + sz
				if sz == ^uint64(0) {
					limit = ^uint64(0)
				}
				for _, mo := range mapOffs {
					if mo == 1 {
						mo = start
					}
					for _, st := range stexts {
						zzCompare(t, counts, typ, nil, st, start, limit, mo)
						for _, va := range vaddrs {
							for _, po := range offs {
								ph := &elf.ProgHeader{Type: elf.PT_LOAD, Flags: elf.PF_R | elf.PF_X, Off: po, Vaddr: va, Filesz: 0x5000, Memsz: 0x6000}
								zzCompare(t, counts, typ, ph, st, start, limit, mo)
							}
						}
					}
				}
			}
		}
	}

	// Deterministic pseudo-random sweep: page-aligned biases, segments whose
	// offset and vaddr are congruent modulo the page size, mappings splitting them.
	r := zzRng(13)
	for i := 0; i < 200000; i++ {
		typ := types[r.next()%3]
		page := uint64(0x1000)
		va := (r.next() % 0x800) * page
		if r.next()%4 == 0 {
			va += 0xffffffff80000000
		}
		inPage := r.next() % page
		if r.next()%2 == 0 {
			inPage = 0
		}
		po := (r.next()%64)*page + inPage
		ph := &elf.ProgHeader{Type: elf.PT_LOAD, Flags: elf.PF_R | elf.PF_X, Off: po, Vaddr: va + inPage, Filesz: (1 + r.next()%16) * page, Memsz: (1 + r.next()%32) * page}
		bias := (r.next() % (1 << 35)) * page
		switch r.next() % 8 {
		case 0:
			bias = 0
		case 1:
			bias += 0x8000000000000000
		}
		k := r.next() % 8 // mapping starts k pages into the segment
		start := bias + va + k*page
		mo := po - inPage + k*page
		switch r.next() % 8 {
		case 0:
			mo = 0
		case 1:
			mo = start
		case 2:
			start += r.next() % page
		}
		limit := start + (1+r.next()%16)*page
		var st *uint64
		if r.next()%3 == 0 {
			v := va + inPage + r.next()%3*0x198
			if r.next()%2 == 0 {
				v = start - bias + r.next()%2*page
			}
			st = &v
		}
		zzCompare(t, counts, typ, ph, st, start, limit, mo)
	}
	t.Logf("compared: %v", counts)
	if counts["ok"] < 1000 || counts["err"] < 100 || counts["kernelBase-match"] < 1000 {
		t.Errorf("sweep too trivial: %v", counts)
	}
}

// Results computed on the unchanged tree.
func TestZZEquivAGetBaseHardCoded(t *testing.T) {
	u := func(v uint64) *uint64 { return &v }
	text := &elf.ProgHeader{Type: elf.PT_LOAD, Flags: elf.PF_R | elf.PF_X, Off: 0x1000, Vaddr: 0x401000, Filesz: 0x3000, Memsz: 0x3000}
	lib := &elf.ProgHeader{Type: elf.PT_LOAD, Flags: elf.PF_R | elf.PF_X, Off: 0x2c80, Vaddr: 0x203c80, Filesz: 0x3000, Memsz: 0x3000}
	kern := &elf.ProgHeader{Type: elf.PT_LOAD, Flags: elf.PF_R | elf.PF_X, Off: 0x200000, Vaddr: 0xffffffff80200000, Filesz: 0x1000000, Memsz: 0x1000000}
	for i, tc := range []struct {
		typ                  elf.Type
		ph                   *elf.ProgHeader
		stext                *uint64
		start, limit, offset uint64
		want                 uint64
		wantErr              bool
	}{
		// Non-PIE executable at its link address: bias 0.
		{elf.ET_EXEC, text, nil, 0x401000, 0x404000, 0x1000, 0, false},
		// Same executable loaded at bias 0x5000000 (e.g. remapped by a tool).
		{elf.ET_EXEC, text, nil, 0x5401000, 0x5404000, 0x1000, 0x5000000, false},
		// Shared object, mapping starts two pages into a segment whose offset is not page aligned.
		{elf.ET_DYN, lib, nil, 0x7f0000205000, 0x7f0000207000, 0x4000, 0x7f0000000000, false},
		// Shared object without a program header.
		{elf.ET_DYN, nil, nil, 0x7f0000205000, 0x7f0000207000, 0x4000, 0x7f0000201000, false},
		// Kernel, perf-style start at _stext.
		{elf.ET_EXEC, kern, u(0xffffffff80200198), 0xffffffff83200198, 0xffffffff84200000, 0, 0x3000000, false},
		// Kernel, start page aligned differently from _stext.
		{elf.ET_EXEC, kern, u(0xffffffff80200198), 0xffffffff83200000, 0xffffffff84200000, 0, 0x3000000, false},
		// ChromeOS kernel remapped to 0 with known _stext.
		{elf.ET_EXEC, kern, u(0xffffffff80200198), 0, 0x2f9fffff, 0, 0x7fdffe68, false},
		// ChromeOS kernel remapped to 0 + in-page offset.
		{elf.ET_DYN, kern, u(0xffffffff80200198), 0x198, 0x2f9fffff, 0, 0x7fe00000, false},
		// ChromeOS kernel remapped to 0 without _stext.
		{elf.ET_EXEC, kern, nil, 0, 0x2f9fffff, 0, 0x7fe00000, false},
		// Unidentifiable EXEC mapping: error, not a wrong base.
		{elf.ET_EXEC, kern, u(0xffffffff80200198), 0x400000, 0x500000, 0x1000, 0, true},
		// Relocatable with an offset: error.
		{elf.ET_REL, nil, nil, 0x400000, 0x500000, 0x1000, 0, true},
		{elf.ET_REL, nil, nil, 0x400000, 0x500000, 0, 0x400000, false},
	} {
		got, err := GetBase(&elf.FileHeader{Type: tc.typ}, tc.ph, tc.stext, tc.start, tc.limit, tc.offset)
		if (err != nil) != tc.wantErr {
			t.Errorf("case %d: got err %v, want error=%v", i, err, tc.wantErr)
			continue
		}
		if err == nil && got != tc.want {
			t.Errorf("case %d: got base %#x, want %#x", i, got, tc.want)
		}
	}
}
