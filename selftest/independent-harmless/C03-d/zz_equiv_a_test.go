package profile

import (
	"crypto/sha256"
	"fmt"
	"reflect"
	"strings"
	"testing"
)

// zzDumpHash hashes the text dump of p without its "Time:" line, which is
// printed in the local time zone.
func zzDumpHash(p *Profile) string {
	var keep []string
	for _, ln := range strings.Split(p.String(), "\n") {
		if !strings.HasPrefix(ln, "Time: ") {
			keep = append(keep, ln)
		}
	}
	return fmt.Sprintf("%x", sha256.Sum256([]byte(strings.Join(keep, "\n"))))
}

// zzHdrProfile builds a small valid profile whose header fields are given.
func zzHdrProfile(timeNanos, duration, period int64, comments []string, dst, doc, drop, keep string, val int64) *Profile {
	m := &Mapping{ID: 1, Start: 0x1000, Limit: 0x4000, File: "bin", BuildID: "bid", HasFunctions: true}
	f := &Function{ID: 1, Name: "main", SystemName: "main", Filename: "main.go", StartLine: 3}
	l := &Location{ID: 1, Mapping: m, Address: 0x1100, Line: []Line{{Function: f, Line: 7, Column: 2}}}
	return &Profile{
		SampleType:        []*ValueType{{Type: "samples", Unit: "count"}, {Type: "cpu", Unit: "nanoseconds"}},
		PeriodType:        &ValueType{Type: "cpu", Unit: "nanoseconds"},
		TimeNanos:         timeNanos,
		DurationNanos:     duration,
		Period:            period,
		Comments:          comments,
		DefaultSampleType: dst,
		DocURL:            doc,
		DropFrames:        drop,
		KeepFrames:        keep,
		Mapping:           []*Mapping{m},
		Function:          []*Function{f},
		Location:          []*Location{l},
		Sample:            []*Sample{{Location: []*Location{l}, Value: []int64{val, val * 10}}},
	}
}

func zzHdrString(p *Profile) string {
	return fmt.Sprintf("time=%d dur=%d period=%d pt=%s/%s comments=%q nilcomments=%v dst=%q doc=%q drop=%q keep=%q st=%s/%s,%s/%s",
		p.TimeNanos, p.DurationNanos, p.Period, p.PeriodType.Type, p.PeriodType.Unit, p.Comments, p.Comments == nil,
		p.DefaultSampleType, p.DocURL, p.DropFrames, p.KeepFrames,
		p.SampleType[0].Type, p.SampleType[0].Unit, p.SampleType[1].Type, p.SampleType[1].Unit)
}

func TestZZEquivACombineHeaders(t *testing.T) {
	type tc struct {
		name    string
		srcs    []*Profile
		want    string
		wantSum string
	}
	cases := []tc{
		{
			name: "three-mixed",
			srcs: []*Profile{
				zzHdrProfile(0, 10, 5, []string{"a", "b"}, "", "", "dropA", "keepA", 1),
				zzHdrProfile(500, 20, 9, []string{"b", "c", "a"}, "cpu", "http://x", "dropB", "keepB", 2),
				zzHdrProfile(300, 30, 7, []string{"d", "d"}, "samples", "http://y", "dropC", "keepC", 3),
			},
			want:    `time=300 dur=60 period=9 pt=cpu/nanoseconds comments=["a" "b" "c" "d"] nilcomments=false dst="cpu" doc="http://x" drop="dropA" keep="keepA" st=samples/count,cpu/nanoseconds`,
			wantSum: "52c913ae39162c581226a9146d3ea43cc08b96d851a9cd977755d866eb2fdf20",
		},
		{
			name: "negative-periods-and-times",
			srcs: []*Profile{
				zzHdrProfile(-4, -10, -5, nil, "", "", "", "", 1),
				zzHdrProfile(0, 3, 0, nil, "", "", "x", "y", -1),
				zzHdrProfile(-9, 3, -7, nil, "", "doc3", "", "", 5),
			},
			want:    `time=-9 dur=-4 period=-7 pt=cpu/nanoseconds comments=[] nilcomments=true dst="" doc="doc3" drop="" keep="" st=samples/count,cpu/nanoseconds`,
			wantSum: "1dc8066db6483de48f951f52c34f844e6b219ce2049351f01728bc05969abdf1",
		},
		{
			name: "single",
			srcs: []*Profile{
				zzHdrProfile(42, 7, 0, []string{"x", "x", ""}, "samples", "u", "d", "k", 4),
			},
			want:    `time=42 dur=7 period=0 pt=cpu/nanoseconds comments=["x" ""] nilcomments=false dst="samples" doc="u" drop="d" keep="k" st=samples/count,cpu/nanoseconds`,
			wantSum: "c4e1a792f634630c1884a19239f44734293d631de5abee96c0170c6781bc7179",
		},
		{
			name: "zero-then-later",
			srcs: []*Profile{
				zzHdrProfile(0, 0, 100, []string{}, "", "", "", "", 1),
				zzHdrProfile(0, 0, 100, []string{"only"}, "", "", "", "", 1),
				zzHdrProfile(77, 1, 99, nil, "late", "", "", "", 1),
				zzHdrProfile(78, 1, 100, []string{"only", "more"}, "later", "docU", "", "", 1),
			},
			want:    `time=77 dur=2 period=100 pt=cpu/nanoseconds comments=["only" "more"] nilcomments=false dst="late" doc="docU" drop="" keep="" st=samples/count,cpu/nanoseconds`,
			wantSum: "e28c439345f166c59e0d805b25eb5a3667e3168dcceb3bea8f9c5a84ffddbe7c",
		},
	}
	for _, c := range cases {
		t.Run(c.name, func(t *testing.T) {
			before := make([]string, len(c.srcs))
			for i, s := range c.srcs {
				before[i] = s.String()
			}
			h, err := combineHeaders(c.srcs)
			if err != nil {
				t.Fatalf("combineHeaders: %v", err)
			}
			if got := zzHdrString(h); got != c.want {
				t.Errorf("combineHeaders header\n got %s\nwant %s", got, c.want)
			}
			if len(h.Sample)+len(h.Location)+len(h.Function)+len(h.Mapping) != 0 {
				t.Errorf("combineHeaders result carries entities")
			}
			m, err := Merge(c.srcs)
			if err != nil {
				t.Fatalf("Merge: %v", err)
			}
			if err := m.CheckValid(); err != nil {
				t.Fatalf("merged profile invalid: %v", err)
			}
			if got := zzHdrString(m); got != c.want {
				t.Errorf("Merge header\n got %s\nwant %s", got, c.want)
			}
			if got := zzDumpHash(m); got != c.wantSum {
				t.Errorf("Merge dump hash = %s, want %s\n%s", got, c.wantSum, m.String())
			}
			// No aliasing of the value types, inputs unmodified.
			for i := range m.SampleType {
				if m.SampleType[i] == c.srcs[0].SampleType[i] {
					t.Errorf("SampleType[%d] aliased", i)
				}
			}
			if m.PeriodType == c.srcs[0].PeriodType {
				t.Errorf("PeriodType aliased")
			}
			m.Comments = append(m.Comments, "mutated")
			for i := range m.Comments {
				m.Comments[i] = "mutated"
			}
			for i, s := range c.srcs {
				if got := s.String(); got != before[i] {
					t.Errorf("input %d modified:\n%s\nwas\n%s", i, got, before[i])
				}
			}
		})
	}
}

func TestZZEquivACombineHeadersErrors(t *testing.T) {
	a := zzHdrProfile(1, 1, 1, nil, "", "", "", "", 1)
	b := zzHdrProfile(1, 1, 1, nil, "", "", "", "", 1)
	b.PeriodType = &ValueType{Type: "cpu", Unit: "ms"}
	c := zzHdrProfile(1, 1, 1, nil, "", "", "", "", 1)
	c.SampleType[1] = &ValueType{Type: "wall", Unit: "nanoseconds"}
	d := zzHdrProfile(1, 1, 1, nil, "", "", "", "", 1)
	d.SampleType = d.SampleType[:1]
	for i, bad := range []*Profile{b, c, d} {
		if _, err := combineHeaders([]*Profile{a, a, bad}); err == nil {
			t.Errorf("case %d: incompatible profile accepted by combineHeaders", i)
		}
		if _, err := Merge([]*Profile{a, bad}); err == nil {
			t.Errorf("case %d: incompatible profile accepted by Merge", i)
		}
	}
	if _, err := Merge(nil); err == nil {
		t.Errorf("Merge(nil) succeeded")
	}
	// A compatible later profile is fine even if first-only fields differ.
	e := zzHdrProfile(9, 9, 9, []string{"e"}, "cpu", "doc", "dd", "kk", 1)
	got, err := combineHeaders([]*Profile{a, e})
	if err != nil {
		t.Fatal(err)
	}
	if !reflect.DeepEqual(got.Comments, []string{"e"}) || got.DropFrames != "" || got.KeepFrames != "" || got.Period != 9 || got.TimeNanos != 1 {
		t.Errorf("unexpected combined header: %s", zzHdrString(got))
	}
}
