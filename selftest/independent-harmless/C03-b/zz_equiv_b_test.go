package profile

import (
	"crypto/sha256"
	"fmt"
	"os"
	"reflect"
	"strings"
	"testing"
)

// Equivalence demonstration for change B (Merge: the "re-merge to garbage
// collect zero samples" step becomes a loop around a single-pass helper
// instead of a recursive call to Merge).
//
// The inputs are chosen so that the second pass is exercised: stacks that
// cancel to zero across inputs (so their locations / functions / mappings
// must be collected and the surviving ids renumbered), inputs that already
// contain all-zero samples, a merge whose result is completely empty, and
// inputs where no second pass is needed. Header combination, the error paths
// and Compact idempotence are pinned too. Expected values were computed on
// the unchanged tree.

func zzbProfile(idBase uint64, mapStart uint64, vals [][]int64, hdr func(p *Profile)) *Profile {
	mMain := &Mapping{ID: idBase + 1, Start: mapStart, Limit: mapStart + 0x3000, File: "main", BuildID: "main-id", HasFunctions: true}
	mLib := &Mapping{ID: idBase + 2, Start: mapStart + 0x100000, Limit: mapStart + 0x101000, File: "libx.so", HasFunctions: true, HasLineNumbers: true}
	mOnlyZero := &Mapping{ID: idBase + 3, Start: mapStart + 0x200000, Limit: mapStart + 0x201000, File: "libzero.so"}
	fn := func(i uint64, name string) *Function {
		return &Function{ID: idBase + i, Name: name, SystemName: "_Z" + name, Filename: name + ".cc", StartLine: int64(10 * i)}
	}
	fMain, fWork, fInl, fLib, fZero := fn(1, "main"), fn(2, "work"), fn(3, "inlined"), fn(4, "libcall"), fn(5, "neverseen")
	lMain := &Location{ID: idBase + 1, Mapping: mMain, Address: mapStart + 0x10, Line: []Line{{Function: fMain, Line: 11}}}
	lWork := &Location{ID: idBase + 2, Mapping: mMain, Address: mapStart + 0x20, Line: []Line{{Function: fInl, Line: 31, Column: 4}, {Function: fWork, Line: 21}}}
	lLib := &Location{ID: idBase + 3, Mapping: mLib, Address: mLib.Start + 0x8, Line: []Line{{Function: fLib, Line: 41}}}
	lZero := &Location{ID: idBase + 4, Mapping: mOnlyZero, Address: mOnlyZero.Start + 0x8, Line: []Line{{Function: fZero, Line: 51}}}
	p := &Profile{
		SampleType: []*ValueType{{Type: "alloc_objects", Unit: "count"}, {Type: "alloc_space", Unit: "bytes"}},
		PeriodType: &ValueType{Type: "space", Unit: "bytes"},
		Mapping:    []*Mapping{mMain, mLib, mOnlyZero},
		Function:   []*Function{fMain, fWork, fInl, fLib, fZero},
		Location:   []*Location{lMain, lWork, lLib, lZero},
	}
	stacks := []*Sample{
		{Location: []*Location{lWork, lMain}},
		{Location: []*Location{lLib, lWork, lMain}},
		{Location: []*Location{lLib, lWork, lMain}, Label: map[string][]string{"tag": {"x"}}},
		{Location: []*Location{lLib, lWork, lMain}, NumLabel: map[string][]int64{"bytes": {64}}, NumUnit: map[string][]string{"bytes": {"bytes"}}},
		{Location: []*Location{lZero, lMain}},
		{Location: []*Location{lMain}},
	}
	for i, v := range vals {
		s := stacks[i]
		s.Value = v
		p.Sample = append(p.Sample, s)
	}
	if hdr != nil {
		hdr(p)
	}
	return p
}

func zzbSnapshot(ps []*Profile) []string {
	var out []string
	for _, p := range ps {
		out = append(out, p.String())
	}
	return out
}

const zzbWant = "40a6dff896558910a97ed06e54f489d7c06c033cbb283af45b82a144a73f68ae"

func TestZZEquivBMergeZeroGC(t *testing.T) {
	// a: all stacks present; stack 4 (the only user of libzero.so / neverseen) is all-zero in the input.
	a := zzbProfile(0, 0x400000, [][]int64{{1, 10}, {2, 20}, {3, 30}, {4, 40}, {0, 0}, {6, 60}}, func(p *Profile) {
		p.Period, p.TimeNanos, p.DurationNanos = 512, 2000, 10
		p.Comments = []string{"c1", "c2"}
		p.DropFrames, p.KeepFrames = "drop.*", "keep.*"
		p.DefaultSampleType = ""
	})
	// b: same binary elsewhere with colliding-but-shifted ids; cancels stacks 1 and 2 of a; partly cancels 3.
	b := zzbProfile(1, 0x7f0000, [][]int64{{5, 50}, {-2, -20}, {-3, -30}, {-4, 0}, {1, 1}, {0, 0}}, func(p *Profile) {
		p.Period, p.TimeNanos, p.DurationNanos = 1024, 1000, 5
		p.Comments = []string{"c2", "c3", "c3"}
		p.DropFrames = "otherdrop"
		p.DefaultSampleType = "alloc_space"
		p.DocURL = "http://b"
	})
	// c: exact negation of a.
	c := zzbProfile(100, 0x400000, [][]int64{{-1, -10}, {-2, -20}, {-3, -30}, {-4, -40}, {0, 0}, {-6, -60}}, func(p *Profile) {
		p.Period, p.TimeNanos, p.DurationNanos = 256, 0, 1
		p.Comments = []string{"c4", "c1"}
		p.DocURL = "http://c"
	})
	// d: no zero and nothing cancelling: single-pass only.
	d := zzbProfile(7, 0x10000, [][]int64{{1, 1}, {1, 1}}, nil)

	all := []*Profile{a, b, c, d}
	for _, p := range all {
		if err := p.CheckValid(); err != nil {
			t.Fatalf("input invalid: %v", err)
		}
	}
	before := zzbSnapshot(all)

	var dump string
	for i, in := range [][]*Profile{
		{a}, {b}, {d}, {a, b}, {b, a}, {a, c}, {c, a}, {a, b, c}, {c, b, a}, {a, a, c, c}, {d, a, b, c, d},
	} {
		got, err := Merge(in)
		if err != nil {
			t.Fatalf("case %d: Merge: %v", i, err)
		}
		if err := got.CheckValid(); err != nil {
			t.Fatalf("case %d: merged invalid: %v", i, err)
		}
		for _, s := range got.Sample {
			if isZeroSample(s) {
				t.Errorf("case %d: zero sample survived", i)
			}
		}
		// Everything left must be referenced (compaction happened).
		usedLoc, usedFn, usedMap := map[*Location]bool{}, map[*Function]bool{}, map[*Mapping]bool{}
		for _, s := range got.Sample {
			for _, l := range s.Location {
				usedLoc[l] = true
				usedMap[l.Mapping] = true
				for _, ln := range l.Line {
					usedFn[ln.Function] = true
				}
			}
		}
		if len(usedLoc) != len(got.Location) || len(usedFn) != len(got.Function) {
			t.Errorf("case %d: unreferenced locations/functions survived: %d/%d locs %d/%d funcs",
				i, len(usedLoc), len(got.Location), len(usedFn), len(got.Function))
		}
		for j, l := range got.Location {
			if l.ID != uint64(j+1) {
				t.Errorf("case %d: location ids not dense", i)
			}
		}
		// Compacting again changes nothing.
		again := got.Compact()
		if got.String() != again.String() {
			t.Errorf("case %d: Compact is not idempotent:\n%s\n---\n%s", i, got, again)
		}
		if again == got || (len(got.Sample) > 0 && again.Sample[0] == got.Sample[0]) {
			t.Errorf("case %d: Compact aliases its input", i)
		}
		dump += fmt.Sprintf("case %d drop=%q keep=%q default=%q doc=%q\n%s\n=====\n",
			i, got.DropFrames, got.KeepFrames, got.DefaultSampleType, got.DocURL, got.String())
	}

	if after := zzbSnapshot(all); !reflect.DeepEqual(before, after) {
		t.Errorf("Merge modified its inputs")
	}

	// a+c cancels completely.
	empty, err := Merge([]*Profile{a, c})
	if err != nil {
		t.Fatal(err)
	}
	if len(empty.Sample)+len(empty.Location)+len(empty.Function) != 0 {
		t.Errorf("a+(-a) not empty: %s", empty)
	}
	// The first mapping of the first profile is always carried over.
	if len(empty.Mapping) != 1 || empty.Mapping[0].File != "main" {
		t.Errorf("a+(-a): mappings = %v", empty.Mapping)
	}
	if empty.Period != 512 || empty.TimeNanos != 2000 || empty.DurationNanos != 11 ||
		!reflect.DeepEqual(empty.Comments, []string{"c1", "c2", "c4"}) {
		t.Errorf("a+(-a): bad header: %s", empty)
	}

	// Error paths.
	if _, err := Merge(nil); err == nil || err.Error() != "no profiles to merge" {
		t.Errorf("Merge(nil) error = %v", err)
	}
	if _, err := Merge([]*Profile{}); err == nil || err.Error() != "no profiles to merge" {
		t.Errorf("Merge(empty) error = %v", err)
	}
	bad := zzbProfile(0, 0x400000, [][]int64{{1, 10}}, nil)
	bad.SampleType[1].Unit = "kilobytes"
	_, err = Merge([]*Profile{a, bad})
	if err == nil || !strings.HasPrefix(err.Error(), "incompatible sample types ") {
		t.Errorf("incompatible merge: err = %v", err)
	}

	if os.Getenv("ZZ_DUMP") != "" {
		fmt.Println(dump)
	}
	if got := fmt.Sprintf("%x", sha256.Sum256([]byte(dump))); got != zzbWant {
		t.Errorf("dump sha256 = %s, want %s", got, zzbWant)
	}
}
