package profile

import (
	"crypto/sha256"
	"encoding/hex"
	"os"
	"path/filepath"
	"strings"
	"testing"
)

// Equivalence demonstration for change B (line iteration in the legacy
// java profile parser). Expected values were computed on the unchanged tree.

func zzbOutcome(data []byte) string {
	p, err := ParseData(data)
	if err != nil {
		return "ERR " + err.Error()
	}
	if err := p.CheckValid(); err != nil {
		return "INVALID " + err.Error()
	}
	h := sha256.Sum256([]byte(p.String()))
	return "OK " + hex.EncodeToString(h[:8])
}

var zzbInputs = []struct{ name, in string }{
	{"heap-basic", "--- heapz 1 ---\nformat = java\nresolution=bytes\n" +
		"  1  1024 @ 0x10 0x20\n 2 4096 @ 0x20 0x30 0x10\n" +
		"0x10 foo.Bar (Bar.java:12)\n0x20 baz (/usr/lib/libjvm.so)\n0x30 GC\n"},
	{"heap-no-final-newline", "--- heapz 1 ---\nformat = java\nresolution=bytes\n" +
		"1 1024 @ 0x10 0x20\n" +
		"0x10 foo.Bar (Bar.java:12)\n0x20 [generated stub/JIT]"},
	{"heap-blank-lines-crlf", "--- heapz 1 ---\r\n\r\nformat = java\r\n\nresolution=bytes\r\n\n\n" +
		"1 1024 @ 0x10 0x20\r\n\r\n3 300 @ 0x10\r\n\n" +
		"  0x10   foo.Bar (Bar.java:-5)  \r\n\n0x20 x (a b)\r\n0x99 unused (U.java:1)\r\nnot a location\n"},
	{"heap-samples-unterminated", "--- heapz 1 ---\nformat=java\nresolution=bytes\n1 1024 @ 0x10 0x20"},
	{"heap-header-only-unterminated", "--- heapz 1 ---\nformat=java"},
	{"heap-zero-count", "--- heapz 1 ---\nformat=java\nresolution=bytes\n1024 0 @ 0x10\n"},
	{"heap-bad-format", "--- heapz 1 ---\nformat=cpp\nresolution=bytes\n"},
	{"heap-unknown-attr", "--- heapz 1 ---\nformat=java\ncolour=blue\n"},
	{"heap-no-sampletype", "--- heapz 1 ---\nformat=java\n1 1024 @ 0x10\n0x10 f (F.java:1)\n"},
	{"heap-bad-addr", "--- heapz 1 ---\nformat=java\nresolution=bytes\n1 1024 @ 0x10 0xfffffffffffffffff\n"},
	{"heap-huge-value", "--- heapz 1 ---\nformat=java\nresolution=bytes\n1 99999999999999999999 @ 0x10\n"},
	{"heap-loc-addr-overflow", "--- heapz 1 ---\nformat=java\nresolution=bytes\n1 1024 @ 0x10\n0xfffffffffffffffff f (F.java:1)\n"},
	{"heap-empty-stack", "--- heapz 1 ---\nformat=java\nresolution=bytes\n1 1024 @ \n7 7000 @\n"},
	{"heap-dup-functions", "--- heapz 1 ---\nformat=java\nresolution=bytes\n1 10 @ 0x1 0x2 0x3 0x1\n" +
		"0x1 f (F.java:1)\n0x2 f (G.java:2)\n0x3 VM\n0x1 g (H.java:9)\n"},
	{"contention-basic", "--- contentionz 1 ---\nformat = java\nresolution = microseconds\nsampling period = 100\nms since reset = 6000\n" +
		"  100 2 @ 0xa 0xb\n 7 1 @ 0xb\n0xa lock.Wait (Lock.java:77)\n0xb run (libfoo.so.1)\n"},
	{"contention-bad-period", "--- contentionz 1 ---\nformat = java\nsampling period = 1x\n"},
	{"contention-bad-ms", "--- contentionz 1 ---\nformat = java\nms since reset = zz\n"},
	{"contention-hex-period", "--- contentionz 1 ---\nformat = java\nresolution = nanoseconds\nsampling period = 0x10\n5 1 @ 0xa\n"},
	{"contention-trailing-garbage", "--- contentionz 1 ---\nformat = java\nresolution = nanoseconds\n5 1 @ 0xa\ngarbage without newline"},
	{"header-only", "--- heapz 1 ---\n"},
	{"header-no-newline", "--- heapz 1 ---"},
	{"wrong-header", "--- heapz 2 ---\nformat=java\n"},
	{"only-newlines", "--- contentionz 1 ---\n\n\n\n"},
}

var zzbWant = map[string]string{
	"heap-basic":                    "OK 3f8bbf2ca0c90201",
	"heap-no-final-newline":         "OK 1f6dde1021142138",
	"heap-blank-lines-crlf":         "OK 9bc8537ecd49cd08",
	"heap-samples-unterminated":     "OK fb83aa6eb3aab3cf",
	"heap-header-only-unterminated": "OK d2b1b5346623a787",
	"heap-zero-count":               "ERR parsing profile: parsing sample 1024 0 @ 0x10: second value must be non-zero",
	"heap-bad-format":               "ERR parsing profile: unrecognized profile format",
	"heap-unknown-attr":             "ERR parsing profile: unrecognized profile format",
	"heap-no-sampletype":            "ERR parsing profile: missing sample type information",
	"heap-bad-addr":                 "ERR parsing profile: malformed sample: 1 1024 @ 0x10 0xfffffffffffffffff: failed to parse as hex 64-bit number: 0xfffffffffffffffff",
	"heap-huge-value":               "ERR parsing profile: parsing sample 1 99999999999999999999 @ 0x10: strconv.ParseInt: parsing \"99999999999999999999\": value out of range",
	"heap-loc-addr-overflow":        "ERR parsing profile: parsing sample 0xfffffffffffffffff f (F.java:1): strconv.ParseUint: parsing \"fffffffffffffffff\": value out of range",
	"heap-empty-stack":              "OK fb83aa6eb3aab3cf",
	"heap-dup-functions":            "OK 5cb6735469bc06bf",
	"contention-basic":              "OK d028595f37f432b2",
	"contention-bad-period":         "ERR parsing profile: failed to parse attribute sampling period = 1x: strconv.ParseInt: parsing \"1x\": invalid syntax",
	"contention-bad-ms":             "ERR parsing profile: failed to parse attribute ms since reset = zz: strconv.ParseInt: parsing \"zz\": invalid syntax",
	"contention-hex-period":         "OK 963226242ed472f0",
	"contention-trailing-garbage":   "OK 3cd008abbdba2376",
	"header-only":                   "OK d2b1b5346623a787",
	"header-no-newline":             "ERR parsing profile: unrecognized profile format",
	"wrong-header":                  "ERR parsing profile: unrecognized profile format",
	"only-newlines":                 "OK d7b407933010c03f",
}

func TestZZEquivB(t *testing.T) {
	for _, tc := range zzbInputs {
		got := zzbOutcome([]byte(tc.in))
		if want := zzbWant[tc.name]; got != want {
			t.Errorf("%s: got %q, want %q", tc.name, got, want)
		}
	}
	// Every prefix of a well-formed input: parsing is total and the outcome
	// sequence is unchanged.
	full := zzbInputs[2].in + zzbInputs[14].in
	var all strings.Builder
	for i := 0; i <= len(full); i++ {
		all.WriteString(zzbOutcome([]byte(full[:i])))
		all.WriteByte('\n')
	}
	h := sha256.Sum256([]byte(all.String()))
	if got, want := hex.EncodeToString(h[:8]), "12c6fbffbd86d86a"; got != want {
		t.Errorf("prefix outcomes digest %s, want %s", got, want)
	}

	// The remainders handed from one section parser to the next.
	p := &Profile{PeriodType: &ValueType{}}
	rest, err := parseJavaHeader("heap", []byte("format=java\n\nresolution=bytes\n 1 2 @ 0x1\ntail"), p)
	if err != nil || string(rest) != " 1 2 @ 0x1\ntail" {
		t.Errorf("parseJavaHeader rest %q err %v", rest, err)
	}
	rest, err = parseJavaHeader("heap", []byte("format=java\nresolution=bytes"), p)
	if err != nil || string(rest) != "resolution=bytes" {
		t.Errorf("parseJavaHeader unterminated rest %q err %v", rest, err)
	}
	rest, locs, err := parseJavaSamples("heap", []byte("1 2 @ 0x1 0x2\n\n 3 4 @ 0x2\n0x1 f\n5 6 @ 0x3"), p)
	if err != nil || string(rest) != "0x1 f\n5 6 @ 0x3" || len(locs) != 2 || len(p.Sample) != 2 || len(p.Location) != 2 {
		t.Errorf("parseJavaSamples rest %q locs %d samples %d err %v", rest, len(locs), len(p.Sample), err)
	}
	rest, locs, err = parseJavaSamples("heap", []byte("1 2 @ 0x1"), p)
	if err != nil || string(rest) != "1 2 @ 0x1" || len(locs) != 0 {
		t.Errorf("parseJavaSamples unterminated rest %q locs %d err %v", rest, len(locs), err)
	}

	// The checked-in java profiles.
	for name, want := range map[string]string{
		"java.heap":       "OK 89b2b7ce523fbcea",
		"java.contention": "OK 20a50f0fdd595761",
		"java.cpu":        "OK 1c543a46e4c5c6e7",
	} {
		data, err := os.ReadFile(filepath.Join("testdata", name))
		if err != nil {
			t.Fatal(err)
		}
		if got := zzbOutcome(data); got != want {
			t.Errorf("%s: got %q want %q", name, got, want)
		}
	}
}
