#!/bin/sh
# usage: demo.sh <worktree root>
set -u
root="$1"
here="$(cd "$(dirname "$0")" && pwd)"
export GOFLAGS=-mod=mod GOPROXY=off GOSUMDB=off GOTOOLCHAIN=local
cp "$here/zz_equiv_b_test.go" "$root/profile/zz_equiv_b_test.go"
(cd "$root" && go test -vet=off -count=1 -run 'TestZZEquivB$' ./profile/)
rc=$?
rm -f "$root/profile/zz_equiv_b_test.go"
exit $rc
