package profile

import (
	"fmt"
	"os"
	"strings"
	"testing"
)

func zzProfB(types []string, vals [][]int64) *Profile {
	p := &Profile{PeriodType: &ValueType{Type: "cpu", Unit: "ns"}, Period: 1}
	for _, t := range types {
		p.SampleType = append(p.SampleType, &ValueType{Type: t, Unit: "count"})
	}
	m := &Mapping{ID: 1, Start: 0x1000, Limit: 0x9000, File: "/bin/zz", HasFunctions: true}
	p.Mapping = []*Mapping{m}
	for i, v := range vals {
		f := &Function{ID: uint64(i + 1), Name: fmt.Sprintf("f%d", i), SystemName: fmt.Sprintf("f%d", i), Filename: "f.go"}
		l := &Location{ID: uint64(i + 1), Mapping: m, Address: uint64(0x1000 + 16*i), Line: []Line{{Function: f, Line: int64(i + 1)}}}
		p.Function = append(p.Function, f)
		p.Location = append(p.Location, l)
		p.Sample = append(p.Sample, &Sample{Location: []*Location{l}, Value: append([]int64(nil), v...)})
	}
	return p
}

func zzDigestB(p *Profile) string {
	var out []string
	for _, s := range p.Sample {
		base := ""
		if s.DiffBaseSample() {
			base = "b"
		}
		out = append(out, fmt.Sprintf("%s%v%s", s.Location[0].Line[0].Function.Name, s.Value, base))
	}
	return strings.Join(out, ";")
}

func TestZZEquivB(t *testing.T) {
	vals := [][]int64{
		{3, 30, 7},
		{0, 5, 0},   // zero in column 0
		{2, 0, 0},   // zero in columns 1, 2
		{0, 0, 9},   // only last column
		{-4, 1, -1}, // negatives
		{1, 3, 5},   // rounding .5
		{0, 0, 0},   // all zero
		{1 << 40, -(1 << 41), 12345678901},
	}
	types := []string{"a", "b", "c"}
	cases := []struct {
		name   string
		ratios []float64
	}{
		{"ones", []float64{1, 1, 1}},
		{"col1", []float64{1, 1000, 1}},
		{"col0-half", []float64{0.5, 1, 1}},
		{"col02", []float64{2, 1, 0.1}},
		{"all-diff", []float64{1e6, 1e3, 0.25}},
		{"neg", []float64{-1, -1, -1}},
		{"zero-col", []float64{0, 1, 2}},
		{"all-zero", []float64{0, 0, 0}},
		{"last", []float64{1, 1, 1.5}},
	}
	n := 0
	check := func(name, got string) {
		if os.Getenv("ZZ_PRINT") != "" {
			fmt.Printf("\t\t%q,\n", got)
		} else if n >= len(zzWantB) || got != zzWantB[n] {
			t.Errorf("%s (#%d):\n got %s", name, n, got)
		}
		n++
	}
	for _, tc := range cases {
		p := zzProfB(types, vals)
		if err := p.ScaleN(tc.ratios); err != nil {
			t.Fatalf("%s: %v", tc.name, err)
		}
		check(tc.name, zzDigestB(p))
	}

	// Mismatched ratio count is an error and leaves the profile alone.
	p := zzProfB(types, vals)
	if err := p.ScaleN([]float64{2, 2}); err == nil {
		t.Errorf("mismatched ratios: no error")
	}
	check("mismatch", zzDigestB(p))

	// Samples with fewer values than sample types.
	p = zzProfB(types, [][]int64{{1, 2}, {0}, {5, 0, 0}, {}})
	if err := p.ScaleN([]float64{1, 3, 3}); err != nil {
		t.Fatal(err)
	}
	check("short", zzDigestB(p))

	// No samples, nil sample slice.
	p = zzProfB(types, nil)
	if err := p.ScaleN([]float64{2, 2, 2}); err != nil || len(p.Sample) != 0 {
		t.Errorf("empty: %v %d", err, len(p.Sample))
	}

	// Scale.
	for _, r := range []float64{1, -1, 0.5, 3, 0} {
		p = zzProfB(types, vals)
		p.Scale(r)
		check(fmt.Sprint("scale", r), zzDigestB(p))
	}

	// Normalize then subtract (the -normalize -base path).
	src := zzProfB(types, vals[:6])
	base := zzProfB(types, [][]int64{{1, 10, 2}, {0, 0, 0}, {4, 0, 1}, {0, 2, 0}})
	if err := src.Normalize(base); err != nil {
		t.Fatal(err)
	}
	check("normalize", zzDigestB(src))
	base.SetLabel("pprof::base", []string{"true"})
	base.Scale(-1)
	m, err := Merge([]*Profile{src, base})
	if err != nil {
		t.Fatal(err)
	}
	check("normalize-diff", zzDigestB(m))

	// A profile minus itself is empty.
	x, y := zzProfB(types, vals), zzProfB(types, vals)
	y.Scale(-1)
	m, err = Merge([]*Profile{x, y})
	if err != nil {
		t.Fatal(err)
	}
	check("self", zzDigestB(m))
}

var zzWantB = []string{
	"f0[3 30 7];f1[0 5 0];f2[2 0 0];f3[0 0 9];f4[-4 1 -1];f5[1 3 5];f6[0 0 0];f7[1099511627776 -2199023255552 12345678901]",
	"f0[3 30000 7];f1[0 5000 0];f4[-4 1000 -1];f5[1 3000 5];f7[1099511627776 -2199023255552000 12345678901]",
	"f0[2 30 7];f2[1 0 0];f4[-2 1 -1];f5[1 3 5];f7[549755813888 -2199023255552 12345678901]",
	"f0[6 30 1];f2[4 0 0];f3[0 0 1];f4[-8 1 0];f5[2 3 1];f7[2199023255552 -2199023255552 1234567890]",
	"f0[3000000 30000 2];f1[0 5000 0];f2[2000000 0 0];f3[0 0 2];f4[-4000000 1000 0];f5[1000000 3000 1];f7[1099511627776000000 -2199023255552000 3086419725]",
	"f0[-3 -30 -7];f1[0 -5 0];f2[-2 0 0];f3[0 0 -9];f4[4 -1 1];f5[-1 -3 -5];f7[-1099511627776 2199023255552 -12345678901]",
	"f0[0 30 14];f3[0 0 18];f4[0 1 -2];f5[0 3 10];f7[0 -2199023255552 24691357802]",
	"",
	"f0[3 30 11];f3[0 0 14];f4[-4 1 -2];f5[1 3 8];f7[1099511627776 -2199023255552 18518518352]",
	"f0[3 30 7];f1[0 5 0];f2[2 0 0];f3[0 0 9];f4[-4 1 -1];f5[1 3 5];f6[0 0 0];f7[1099511627776 -2199023255552 12345678901]",
	"f0[1 6]",
	"f0[3 30 7];f1[0 5 0];f2[2 0 0];f3[0 0 9];f4[-4 1 -1];f5[1 3 5];f6[0 0 0];f7[1099511627776 -2199023255552 12345678901]",
	"f0[-3 -30 -7];f1[0 -5 0];f2[-2 0 0];f3[0 0 -9];f4[4 -1 1];f5[-1 -3 -5];f7[-1099511627776 2199023255552 -12345678901]",
	"f0[2 15 4];f1[0 3 0];f2[1 0 0];f3[0 0 5];f4[-2 1 -1];f5[1 2 3];f7[549755813888 -1099511627776 6172839451]",
	"f0[9 90 21];f1[0 15 0];f2[6 0 0];f3[0 0 27];f4[-12 3 -3];f5[3 9 15];f7[3298534883328 -6597069766656 37037036703]",
	"",
	"f0[8 9 1];f1[0 2 0];f2[5 0 0];f3[0 0 1];f4[-10 0 0];f5[3 1 1]",
	"f0[8 9 1];f1[0 2 0];f2[5 0 0];f3[0 0 1];f4[-10 0 0];f5[3 1 1];f0[-1 -10 -2]b;f2[-4 0 -1]b;f3[0 -2 0]b",
	"",
}
