package driver

import (
	"crypto/sha256"
	"errors"
	"fmt"
	"sort"
	"strings"
	"sync"
	"testing"
	"time"

	"github.com/google/pprof/internal/plugin"
	"github.com/google/pprof/profile"
)

// zzUI records the messages printed through PrintErr.
type zzUI struct {
	mu   sync.Mutex
	errs []string
}

func (u *zzUI) ReadLine(string) (string, error) { return "", errors.New("no input") }
func (u *zzUI) Print(...interface{})            {}
func (u *zzUI) PrintErr(args ...interface{}) {
	u.mu.Lock()
	defer u.mu.Unlock()
	u.errs = append(u.errs, fmt.Sprint(args...))
}
func (u *zzUI) IsTerminal() bool                    { return false }
func (u *zzUI) WantBrowser() bool                   { return false }
func (u *zzUI) SetAutoComplete(func(string) string) {}

// zzObj finds no local binaries.
type zzObj struct{}

func (zzObj) Open(string, uint64, uint64, uint64, string) (plugin.ObjFile, error) {
	return nil, errors.New("not found")
}
func (zzObj) Disasm(string, uint64, uint64, bool) ([]plugin.Inst, error) {
	return nil, errors.New("unsupported")
}

// zzFetcher serves synthetic profiles by name, each after its own delay, so
// that the order in which the concurrent fetches complete can be chosen.
type zzFetcher struct {
	delay func(src string) time.Duration
}

func (f zzFetcher) Fetch(src string, _, _ time.Duration) (*profile.Profile, string, error) {
	time.Sleep(f.delay(src))
	var kind string
	var n int
	if _, err := fmt.Sscanf(src, "%1s%d", &kind, &n); err != nil {
		return nil, "", err
	}
	switch kind {
	case "e": // fetch error
		return nil, "", fmt.Errorf("cannot fetch %s", src)
	case "r": // remote profile: has a source URL
		return zzProfile(n, "samples"), "http://remote.example/" + src, nil
	case "o": // profile with another first sample type
		return zzProfile(n, "objects"), "", nil
	case "x": // profile without any sample type in common with the others
		p := zzProfile(n, "alloc")
		p.SampleType = p.SampleType[:1]
		for _, s := range p.Sample {
			s.Value = s.Value[:1]
		}
		return p, "", nil
	default: // local profile
		return zzProfile(n, "samples"), "", nil
	}
}

// zzProfile returns the n-th synthetic profile. Profiles share the functions
// "main" and "common" (so that merging has something to merge, with weights that
// cancel between sources and bases) and have one function of their own.
func zzProfile(n int, sampleType string) *profile.Profile {
	m := &profile.Mapping{ID: 1, Start: 0x1000, Limit: 0x9000, File: "/bin/zz", BuildID: fmt.Sprintf("build%d", n%2)}
	names := []string{"main", "common", fmt.Sprintf("own%d", n)}
	var fns []*profile.Function
	var locs []*profile.Location
	for i, name := range names {
		fn := &profile.Function{ID: uint64(i + 1), Name: name, SystemName: name, Filename: "/src/" + name + ".go"}
		fns = append(fns, fn)
		locs = append(locs, &profile.Location{ID: uint64(i + 1), Mapping: m, Address: uint64(0x1000 + 0x10*i + 0x100*(n%3)),
			Line: []profile.Line{{Function: fn, Line: int64(i + 1)}}})
	}
	return &profile.Profile{
		SampleType: []*profile.ValueType{{Type: sampleType, Unit: "count"}, {Type: "cpu", Unit: "milliseconds"}},
		PeriodType: &profile.ValueType{Type: "cpu", Unit: "milliseconds"},
		Period:     10,
		Mapping:    []*profile.Mapping{m},
		Function:   fns,
		Location:   locs,
		Sample: []*profile.Sample{
			{Value: []int64{10, 100}, Location: []*profile.Location{locs[1], locs[0]}},
			{Value: []int64{int64(n + 1), int64(10 * (n + 1))}, Location: []*profile.Location{locs[2], locs[1], locs[0]},
				Label: map[string][]string{"src": {fmt.Sprint(n % 2)}}},
			{Value: []int64{10, 100}, Location: []*profile.Location{locs[0]}, NumLabel: map[string][]int64{"bytes": {int64(64 << uint(n%3))}}},
		},
	}
}

func zzSources(names string) []profileSource {
	var srcs []profileSource
	for _, n := range strings.Fields(names) {
		srcs = append(srcs, profileSource{addr: n, source: &source{}})
	}
	return srcs
}

// zzGrab runs grabSourcesAndBases and renders everything it returns or prints.
func zzGrab(sources, bases string, delay func(string) time.Duration) string {
	ui := &zzUI{}
	p, pbase, m, mbase, save, err := grabSourcesAndBases(zzSources(sources), zzSources(bases), zzFetcher{delay}, zzObj{}, ui, nil)
	var b strings.Builder
	prof := func(name string, p *profile.Profile, m plugin.MappingSources) {
		if p == nil {
			fmt.Fprintf(&b, "%s: nil profile\n", name)
		} else {
			fmt.Fprintf(&b, "%s:\n%s", name, p.String())
		}
		var keys []string
		for k := range m {
			keys = append(keys, k)
		}
		sort.Strings(keys)
		for _, k := range keys {
			fmt.Fprintf(&b, "%s mapping source %q: %v\n", name, k, m[k])
		}
	}
	prof("src", p, m)
	prof("base", pbase, mbase)
	fmt.Fprintf(&b, "save=%v err=%v\n", save, err)
	// Sources and bases are fetched concurrently: the messages of the two
	// groups may interleave, compare them as a multiset.
	sort.Strings(ui.errs)
	for _, e := range ui.errs {
		fmt.Fprintf(&b, "ui: %s\n", e)
	}
	return b.String()
}

func TestZZEquivC(t *testing.T) {
	var many []string
	for i := 0; i < 131; i++ { // more than one chunk of 128
		many = append(many, fmt.Sprintf("p%d", i))
	}
	schedules := map[string]func(string) time.Duration{
		"no-delay":      func(string) time.Duration { return 0 },
		"sources-first": func(s string) time.Duration { return time.Duration(len(s)-1) * 3 * time.Millisecond },
		"bases-first":   func(s string) time.Duration { return time.Duration(4-len(s)) * 3 * time.Millisecond },
		"scattered": func(s string) time.Duration {
			return time.Duration(sha256.Sum256([]byte(s))[0]%8) * time.Millisecond
		},
	}
	for _, tc := range []struct {
		name, sources, bases, want string
	}{
		// Bases have two-digit numbers: with "sources-first" they complete after the sources, with "bases-first" before.
		{"all-ok", "p1 r2 p3", "p10 r11", zzEquivCWant["all-ok"]},
		{"no-base", "r4 p5", "", zzEquivCWant["no-base"]},
		{"partial", "p1 e2 p3 e4", "e10 p11", zzEquivCWant["partial"]},
		{"no-source-fetched", "e1 e2", "p10", zzEquivCWant["no-source-fetched"]},
		{"no-base-fetched", "p1 p2", "e10 e11", zzEquivCWant["no-base-fetched"]},
		{"mixed-types", "p1 o2", "o10 o11", zzEquivCWant["mixed-types"]},
		{"incompatible-sources", "p1 x2 r3", "p10", zzEquivCWant["incompatible-sources"]},
		{"incompatible-bases", "p1 r3", "x10 p11", zzEquivCWant["incompatible-bases"]},
		{"chunked", strings.Join(many, " "), "p10 p12", zzEquivCWant["chunked"]},
	} {
		for sched, delay := range schedules {
			got := zzGrab(tc.sources, tc.bases, delay)
			if sum := fmt.Sprintf("%x", sha256.Sum256([]byte(got))); sum != tc.want {
				t.Errorf("%s/%s: sha256 %s, want %s\n%s", tc.name, sched, sum, tc.want, got)
			}
		}
	}
}

// Expected sha256 of the rendered results, computed on the unchanged tree
// (identical for all four completion schedules).
var zzEquivCWant = map[string]string{
	"all-ok":               "2ff791f1bca114fe7514d0619b31af0beaea21d3b1ccabfa9c745b9b5a33e9bc",
	"no-base":              "8d127350c83ae082f3af168a95f440cc65f7cc38a1737fd3cbf7c32e281b87d8",
	"partial":              "53f0d8ecae183b73777f240bdaca091b0486757f33bbaf17fd0cf18c4d070444",
	"no-source-fetched":    "396a3d21ae5077d792626688c145d2a52eada4223e0b378177bc83f3c6682d99",
	"no-base-fetched":      "087c458d43e2eee53a7c2aa2d4dd10fc9ffc2631947ed555bb51b5dddaae974c",
	"mixed-types":          "1006a40db1d4f4f8801d95b83a38153909bf0381eb6efc3554290a67142b6cab",
	"incompatible-sources": "ad4bf18331b4dd2ea067cb3ded004ddbe552c0392204bfb8cd495f63036c80d7",
	"incompatible-bases":   "1412a46039981205f42a00e1ede10e2d4eb0cc23087c9473ce395a89ae797098",
	"chunked":              "e0904e7d74122b69accbba1890b0b784780a8ec605323d7c36eafb6de43fdf9d",
}
