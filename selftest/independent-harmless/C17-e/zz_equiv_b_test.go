package report

// Equivalence demonstration for property C17 (change B). The expected
// digests below were computed on the unchanged tree; the test must pass both
// with and without the change.

import (
	"crypto/sha256"
	"encoding/hex"
	"encoding/json"
	"fmt"
	"os"
	"testing"

	"github.com/google/pprof/profile"
)

type zzCaseB struct {
	name string
	prof *profile.Profile
	opts Options
}

func zzFnB(id uint64, name, file string) *profile.Function {
	return &profile.Function{ID: id, Name: name, SystemName: name, Filename: file}
}

func zzLocB(id uint64, lines ...profile.Line) *profile.Location {
	return &profile.Location{ID: id, Address: 0x1000 * id, Line: lines}
}

func zzProfB(fns []*profile.Function, locs []*profile.Location, samples ...*profile.Sample) *profile.Profile {
	return &profile.Profile{
		SampleType: []*profile.ValueType{{Type: "samples", Unit: "count"}, {Type: "cpu", Unit: "nanoseconds"}},
		Sample:     samples,
		Location:   locs,
		Function:   fns,
	}
}

func zzSampleB(v int64, locs ...*profile.Location) *profile.Sample {
	return &profile.Sample{Value: []int64{1, v}, Location: locs}
}

func zzCasesB() []zzCaseB {
	fMain := zzFnB(1, "main.main", "/src/app/main.go")
	fFoo := zzFnB(2, "example.com/pkg/foo.(*T).Run", "/src/pkg/foo/foo.go")
	fBar := zzFnB(3, "ns::Klass<int>::bar(int, char)", "/src/cc/bar.cc")
	fBar2 := zzFnB(4, "ns::Klass<int>::bar(int, char)", "/src/other/bar.cc") // same name, other file
	fDot := zzFnB(5, "a..b:::c.", "dir//x/../y.go")
	fFile := zzFnB(6, "", "/proc/self/cwd/lib/util/file.go") // file granularity
	fFile2 := zzFnB(7, "", "")
	fUni := zzFnB(8, "pkg/été.Fünc::op.\xff.x", "rép/f.go")
	fns := []*profile.Function{fMain, fFoo, fBar, fBar2, fDot, fFile, fFile2, fUni}

	ln := func(f *profile.Function, line, col int64) profile.Line {
		return profile.Line{Function: f, Line: line, Column: col}
	}
	lMain := zzLocB(1, ln(fMain, 10, 0))
	lFoo := zzLocB(2, ln(fFoo, 20, 3))
	lInl := zzLocB(3, ln(fBar, 31, 0), ln(fFoo, 22, 0), ln(fMain, 12, 7)) // bar inlined in foo inlined in main
	lBar2 := zzLocB(4, ln(fBar2, 31, 0))
	lNoFn := zzLocB(5, profile.Line{Line: 5})
	lNoLine := zzLocB(6)
	lDot := zzLocB(7, ln(fDot, 0, 0))
	lFile := zzLocB(8, ln(fFile, 0, 0), ln(fFile2, 0, 0))
	lUni := zzLocB(9, ln(fUni, 1, 1), ln(nil, 0, 0))
	lFoo0 := zzLocB(10, ln(fFoo, 0, 0))
	locs := []*profile.Location{lMain, lFoo, lInl, lBar2, lNoFn, lNoLine, lDot, lFile, lUni, lFoo0}

	mixed := func() *profile.Profile {
		return zzProfB(fns, locs,
			zzSampleB(100, lInl, lFoo, lMain),
			zzSampleB(-40, lFoo, lFoo, lInl, lFoo, lMain), // recursion incl. through inlining
			zzSampleB(7),          // empty stack
			zzSampleB(5, lNoLine), // location without lines
			zzSampleB(11, lNoFn, lMain),
			zzSampleB(13, lNoFn, lNoFn, lMain),
			zzSampleB(17, lBar2, lInl, lMain), // equal names, different files
			zzSampleB(19, lDot, lFile, lUni, lFoo0, lMain),
			zzSampleB(0, lFile, lFile),
			zzSampleB(23, lMain),
			zzSampleB(100, lInl, lFoo, lMain), // duplicate stack
		)
	}

	// Deterministic pseudo-random profile with many stack shapes.
	rnd := func(seed uint64, nSamples int) *profile.Profile {
		next := func() uint64 {
			seed += 0x9e3779b97f4a7c15
			z := seed
			z = (z ^ (z >> 30)) * 0xbf58476d1ce4e5b9
			z = (z ^ (z >> 27)) * 0x94d049bb133111eb
			return z ^ (z >> 31)
		}
		var samples []*profile.Sample
		for i := 0; i < nSamples; i++ {
			depth := int(next() % 9)
			var st []*profile.Location
			for d := 0; d < depth; d++ {
				st = append(st, locs[next()%uint64(len(locs))])
			}
			samples = append(samples, zzSampleB(int64(next()%2001)-1000, st...))
		}
		return zzProfB(fns, locs, samples...)
	}

	base := Options{OutputFormat: Tree, CallTree: true}
	trim := base
	trim.TrimPath = "/src"
	search := base
	search.SourcePath = "/home/me/pkg:/x/cc"
	ratio := base
	ratio.Ratio = 0.25
	return []zzCaseB{
		{"mixed", mixed(), base},
		{"mixed-trim", mixed(), trim},
		{"mixed-search", mixed(), search},
		{"mixed-ratio", mixed(), ratio},
		{"empty", zzProfB(fns, locs), base},
		{"rnd1", rnd(1, 60), base},
		{"rnd2", rnd(2, 200), trim},
		{"rnd3", rnd(3, 25), search},
	}
}

var zzWantB = map[string]string{
	"mixed":                 "98a529f8b46036ee3352c02e9126d9e4344f8c9a76ce9cb3c36b794a84969cc8",
	"mixed-trim":            "63946f52acb054108a2ed4e16d05a4f011188797bb7a7c0d12c40d4a9f37adbd",
	"mixed-search":          "377be167538203a8d183a7e11f8f517ce0ca66521d640ef56170f405b4b0f821",
	"mixed-ratio":           "c43c7b248f769464fea804ea55fa0dcb9b2cbff1efe22595d7825489c75d65d4",
	"empty":                 "f1387b2eac319003541b6231f71fe4a2c89f88c6112f742f4a47cefe92e580f1",
	"rnd1":                  "7ff98127b9a2278474478694c79ed2ee428ba74b297bfbbcd9e01fabe4a74ed3",
	"rnd2":                  "06a979b4ee513282eab39d5d77584f34df61fe055b657390b9b6fcefd9ca06b4",
	"rnd3":                  "ec5ffe87eed0e5bb4060e167eb021eb97f371e2264652de6aacb019e1d076326",
	"k:":                    "307427 307427",
	"k:.":                   "963789 963789",
	"k:main":                "28173 28173",
	"k:example.com/pkg/foo": "501380 501380",
	"k:ns":                  "457595 457595",
	"k:/src/cc":             "76887 76887",
	"k:lib/util":            "1025234 1025234",
	"k:rép":                 "346800 346800",
	"k:a\xffb":              "183809 183809",
}

// zzCheckInvariantsB checks the C17 statement directly on the result.
func zzCheckInvariantsB(t *testing.T, c zzCaseB, s StackSet) {
	t.Helper()
	if s.Stacks == nil || s.Sources == nil {
		t.Fatalf("nil top-level slice")
	}
	if len(s.Stacks) != len(c.prof.Sample) {
		t.Fatalf("got %d stacks for %d samples", len(s.Stacks), len(c.prof.Sample))
	}
	var total int64
	self := make([]int64, len(s.Sources))
	places := make([][]StackSlot, len(s.Sources))
	for i, st := range s.Stacks {
		total += st.Value
		if len(st.Sources) == 0 || st.Sources[0] != 0 {
			t.Fatalf("stack %d not rooted: %v", i, st.Sources)
		}
		n := 0
		for _, l := range c.prof.Sample[i].Location {
			n += len(l.Line)
		}
		if len(st.Sources) != n+1 {
			t.Fatalf("stack %d has %d frames, want %d", i, len(st.Sources)-1, n)
		}
		seen := map[int]bool{}
		for j, src := range st.Sources {
			if src < 0 || src >= len(s.Sources) {
				t.Fatalf("stack %d pos %d: source %d out of range", i, j, src)
			}
			if !seen[src] {
				seen[src] = true
				places[src] = append(places[src], StackSlot{i, j})
			}
		}
		self[st.Sources[len(st.Sources)-1]] += st.Value
	}
	var signed int64
	for _, sm := range c.prof.Sample {
		signed += sm.Value[1]
	}
	if total != signed {
		t.Errorf("stack values sum to %d, want %d", total, signed)
	}
	for i, src := range s.Sources {
		if src.Places == nil || src.Display == nil || len(src.Display) == 0 {
			t.Errorf("source %d: nil/empty slice: %+v", i, src)
		}
		if src.Self != self[i] {
			t.Errorf("source %d: self %d, want %d", i, src.Self, self[i])
		}
		if fmt.Sprint(src.Places) != fmt.Sprint(append([]StackSlot{}, places[i]...)) {
			t.Errorf("source %d: places %v, want %v", i, src.Places, places[i])
		}
	}
}

func TestZZEquivB(t *testing.T) {
	print := os.Getenv("ZZ_PRINT") != ""
	for _, c := range zzCasesB() {
		rpt := NewDefault(c.prof, c.opts)
		s := rpt.Stacks()
		zzCheckInvariantsB(t, c, s)
		b, err := json.Marshal(s)
		if err != nil {
			t.Fatal(err)
		}
		sum := sha256.Sum256(b)
		got := hex.EncodeToString(sum[:])
		if print {
			fmt.Printf("\t%q: %q,\n", c.name, got)
			continue
		}
		if got != zzWantB[c.name] {
			t.Errorf("%s: StackSet JSON digest %s, want %s\n%s", c.name, got, zzWantB[c.name], b)
		}
	}
	for _, in := range zzKeysB {
		got := fmt.Sprint(pickColor(in), pickColor(in))
		if print {
			fmt.Printf("\t%q: %q,\n", "k:"+in, got)
			continue
		}
		if got != zzWantB["k:"+in] {
			t.Errorf("pickColor(%q) = %s, want %s", in, got, zzWantB["k:"+in])
		}
	}
	// Repeated calls on the same report must give identical results, and the
	// colour of every function-named source is the colour of its package.
	c := zzCasesB()[0]
	rpt := NewDefault(c.prof, c.opts)
	s1, s2 := rpt.Stacks(), rpt.Stacks()
	j1, _ := json.Marshal(s1)
	j2, _ := json.Marshal(s2)
	if string(j1) != string(j2) {
		t.Errorf("two Stacks() calls on one report differ")
	}
	checked := 0
	for _, fn := range c.prof.Function {
		if fn.Name == "" {
			continue
		}
		for _, src := range s1.Sources[1:] {
			if src.FullName == fn.Name || (len(src.FullName) > len(fn.Name) && src.FullName[:len(fn.Name)+1] == fn.Name+":") {
				checked++
				if want := pickColor(packageName(fn.Name)); src.Color != want {
					t.Errorf("source %q: color %d, want %d", src.FullName, src.Color, want)
				}
			}
		}
	}
	if checked < 8 {
		t.Errorf("only %d colours checked", checked)
	}
}

var zzKeysB = []string{"", ".", "main", "example.com/pkg/foo", "ns", "/src/cc", "lib/util", "rép", "a\xffb"}
