package driver

import (
	"fmt"
	"os"
	"sort"
	"strings"
	"sync"
	"testing"
	"time"

	"github.com/google/pprof/internal/plugin"
	"github.com/google/pprof/profile"
)

// zzUI records PrintErr messages (sorted when read: sources and bases are
// fetched concurrently so their relative order is not promised).
type zzUI struct {
	mu   sync.Mutex
	errs []string
}

func (u *zzUI) ReadLine(string) (string, error) { return "", fmt.Errorf("no input") }
func (u *zzUI) Print(...interface{})            {}
func (u *zzUI) PrintErr(args ...interface{}) {
	u.mu.Lock()
	defer u.mu.Unlock()
	u.errs = append(u.errs, strings.TrimSpace(fmt.Sprint(args...)))
}
func (u *zzUI) IsTerminal() bool                { return false }
func (u *zzUI) WantBrowser() bool               { return false }
func (u *zzUI) SetAutoComplete(func(string) string) {}
func (u *zzUI) sorted() []string {
	u.mu.Lock()
	defer u.mu.Unlock()
	out := append([]string(nil), u.errs...)
	sort.Strings(out)
	return out
}

type zzObj struct{}

func (zzObj) Open(file string, start, limit, offset uint64, rel string) (plugin.ObjFile, error) {
	return nil, fmt.Errorf("no such file %q", file)
}
func (zzObj) Disasm(string, uint64, uint64, bool) ([]plugin.Inst, error) {
	return nil, fmt.Errorf("no disasm")
}

type zzSym struct{}

func (zzSym) Symbolize(string, plugin.MappingSources, *profile.Profile) error { return nil }

// zzProfile builds a small valid profile whose contents depend on kind.
func zzProfile(kind string, n int64) *profile.Profile {
	st := []*profile.ValueType{{Type: "samples", Unit: "count"}, {Type: "cpu", Unit: "nanoseconds"}}
	buildID, file, fname := "abcdef", "/bin/prog", "main.work"
	switch kind {
	case "odd":
		// one-character build id, odd strings, huge address.
		buildID, file, fname = "x", "", "\x00<>&\"'%s\xff"
	case "other":
		st = []*profile.ValueType{{Type: "alloc", Unit: "weird-unit"}}
	}
	m := &profile.Mapping{ID: 1, Start: 0x1000, Limit: ^uint64(0), File: file, BuildID: buildID}
	f := &profile.Function{ID: 7, Name: fname, SystemName: fname, Filename: "a/../b.go"}
	l1 := &profile.Location{ID: 3, Mapping: m, Address: 0x1000 + uint64(n), Line: []profile.Line{{Function: f, Line: n}}}
	l2 := &profile.Location{ID: 9, Mapping: m, Address: ^uint64(0) - 1}
	vals := func(v int64) []int64 {
		out := make([]int64, len(st))
		for i := range out {
			out[i] = v * int64(i+1)
		}
		return out
	}
	return &profile.Profile{
		SampleType: st,
		PeriodType: &profile.ValueType{Type: "cpu", Unit: "nanoseconds"},
		Period:     1,
		Sample: []*profile.Sample{
			{Location: []*profile.Location{l1, l2}, Value: vals(n), Label: map[string][]string{"k": {kind}}},
			{Location: []*profile.Location{l2}, Value: vals(10), NumLabel: map[string][]int64{"bytes": {n}}, NumUnit: map[string][]string{"bytes": {"kb"}}},
		},
		Mapping:  []*profile.Mapping{m},
		Location: []*profile.Location{l1, l2},
		Function: []*profile.Function{f},
	}
}

// zzFetcher serves synthetic profiles by source name:
// "ok<N>", "odd<N>", "other<N>", "url<N>" (reports a source URL), "bad<N>" (error).
type zzFetcher struct {
	mu    sync.Mutex
	calls int
}

func (f *zzFetcher) Fetch(src string, duration, timeout time.Duration) (*profile.Profile, string, error) {
	f.mu.Lock()
	f.calls++
	f.mu.Unlock()
	var n int64
	kind := strings.TrimRight(src, "0123456789")
	fmt.Sscanf(src[len(kind):], "%d", &n)
	switch kind {
	case "bad":
		return nil, "", fmt.Errorf("boom %d", n)
	case "url":
		return zzProfile("ok", n), "http://" + testSourceAddress + "/p" + src, nil
	case "ok", "odd", "other":
		return zzProfile(kind, n), "", nil
	}
	return nil, "", fmt.Errorf("unknown source %q", src)
}

func zzSummary(p *profile.Profile) string {
	if p == nil {
		return "nil"
	}
	tot := make([]int64, len(p.SampleType))
	for _, s := range p.Sample {
		for i, v := range s.Value {
			tot[i] += v
		}
	}
	var types []string
	for _, st := range p.SampleType {
		types = append(types, st.Type+"/"+st.Unit)
	}
	var maps []string
	for _, m := range p.Mapping {
		maps = append(maps, fmt.Sprintf("%q:%q", m.File, m.BuildID))
	}
	return fmt.Sprintf("types=%v samples=%d locs=%d funcs=%d maps=%v totals=%v comments=%q",
		types, len(p.Sample), len(p.Location), len(p.Function), maps, tot, p.Comments)
}

func zzMsrc(m plugin.MappingSources) string {
	var keys []string
	for k, v := range m {
		keys = append(keys, fmt.Sprintf("%q*%d", k, len(v)))
	}
	sort.Strings(keys)
	return strings.Join(keys, ",")
}

func zzMany(prefix string, n int) []string {
	var out []string
	for i := 1; i <= n; i++ {
		out = append(out, fmt.Sprintf("%s%d", prefix, i))
	}
	return out
}

func TestZZEquivA(t *testing.T) {
	cases := []struct {
		name    string
		sources []string
		bases   []string
		diff    bool
		norm    bool
	}{
		{"single", []string{"ok5"}, nil, false, false},
		{"single-odd", []string{"odd3"}, nil, false, false},
		{"single-bad", []string{"bad1"}, nil, false, false},
		{"partial", []string{"ok1", "bad2", "odd3"}, nil, false, false},
		{"all-bad", []string{"bad1", "bad2"}, nil, false, false},
		{"base-bad", []string{"ok1"}, []string{"bad9"}, false, false},
		{"base-partial", []string{"ok1", "ok2"}, []string{"bad9", "ok4"}, false, false},
		{"diffbase", []string{"ok8", "ok2"}, []string{"ok2"}, true, false},
		{"normalize", []string{"ok8", "odd2"}, []string{"ok2", "ok3"}, false, true},
		{"incompatible-src", []string{"ok1", "other2"}, nil, false, false},
		{"incompatible-base", []string{"ok1"}, []string{"other2"}, false, false},
		{"src-and-base-err", []string{"ok1", "other2"}, []string{"other2", "ok1"}, false, false},
		{"url", []string{"url4", "ok1"}, []string{"url2"}, false, false},
		{"two-chunks", append(zzMany("ok", 130), "bad7", "odd200"), zzMany("ok", 3), true, false},
		{"unknown", []string{"wat"}, []string{"wat"}, false, false},
	}
	var out strings.Builder
	for _, tc := range cases {
		// Level 1: grabSourcesAndBases.
		ui := &zzUI{}
		fetcher := &zzFetcher{}
		mk := func(addrs []string) []profileSource {
			var ps []profileSource
			for _, a := range addrs {
				ps = append(ps, profileSource{addr: a, source: &source{}})
			}
			return ps
		}
		p, pb, m, mb, save, err := grabSourcesAndBases(mk(tc.sources), mk(tc.bases), fetcher, zzObj{}, ui, nil)
		fmt.Fprintf(&out, "== %s\ngrab: err=%v save=%v calls=%d\n  p: %s\n  pbase: %s\n  msrc=%s mbase=%s\n  ui=%q\n",
			tc.name, err, save, fetcher.calls, zzSummary(p), zzSummary(pb), zzMsrc(m), zzMsrc(mb), ui.sorted())

		// Level 2: fetchProfiles (the caller).
		ui = &zzUI{}
		o := &plugin.Options{Fetch: &zzFetcher{}, Obj: zzObj{}, UI: ui, Sym: zzSym{}}
		s := &source{Sources: tc.sources, Base: tc.bases, DiffBase: tc.diff, Normalize: tc.norm, Comment: "c:" + tc.name}
		fp, err := fetchProfiles(s, o)
		fmt.Fprintf(&out, "fetch: err=%v\n  p: %s\n  ui=%q\n", err, zzSummary(fp), ui.sorted())
	}
	got := out.String()
	if os.Getenv("ZZ_PRINT") != "" {
		fmt.Print(got)
		return
	}
	if got != zzWantA {
		t.Errorf("transcript differs from the one recorded on the unchanged tree.\n--- got\n%s\n--- want\n%s", got, zzWantA)
	}
}

// zzWantA is the transcript produced by the unchanged tree.
const zzWantA = `== single
grab: err=<nil> save=false calls=1
  p: types=[samples/count cpu/nanoseconds] samples=2 locs=2 funcs=1 maps=["/bin/prog":"abcdef"] totals=[15 30] comments=[]
  pbase: nil
  msrc= mbase=
  ui=[]
fetch: err=<nil>
  p: types=[samples/count cpu/nanoseconds] samples=2 locs=2 funcs=1 maps=["/bin/prog":"abcdef"] totals=[15 30] comments=["c:single"]
  ui=[]
== single-odd
grab: err=<nil> save=false calls=1
  p: types=[samples/count cpu/nanoseconds] samples=2 locs=2 funcs=1 maps=["":"x"] totals=[13 26] comments=[]
  pbase: nil
  msrc= mbase=
  ui=[]
fetch: err=<nil>
  p: types=[samples/count cpu/nanoseconds] samples=2 locs=2 funcs=1 maps=["":"x"] totals=[13 26] comments=["c:single-odd"]
  ui=[]
== single-bad
grab: err=failed to fetch any source profiles save=false calls=1
  p: nil
  pbase: nil
  msrc= mbase=
  ui=["bad1: boom 1"]
fetch: err=failed to fetch any source profiles
  p: nil
  ui=["bad1: boom 1"]
== partial
grab: err=<nil> save=false calls=3
  p: types=[samples/count cpu/nanoseconds] samples=4 locs=4 funcs=2 maps=["/bin/prog":"abcdef" "":"x"] totals=[24 48] comments=[]
  pbase: nil
  msrc= mbase=
  ui=["Fetched 2 source profiles out of 3" "bad2: boom 2"]
fetch: err=<nil>
  p: types=[samples/count cpu/nanoseconds] samples=4 locs=4 funcs=2 maps=["/bin/prog":"abcdef" "":"x"] totals=[24 48] comments=["c:partial"]
  ui=["Fetched 2 source profiles out of 3" "bad2: boom 2"]
== all-bad
grab: err=failed to fetch any source profiles save=false calls=2
  p: nil
  pbase: nil
  msrc= mbase=
  ui=["bad1: boom 1" "bad2: boom 2"]
fetch: err=failed to fetch any source profiles
  p: nil
  ui=["bad1: boom 1" "bad2: boom 2"]
== base-bad
grab: err=failed to fetch any base profiles save=false calls=2
  p: nil
  pbase: nil
  msrc= mbase=
  ui=["bad9: boom 9"]
fetch: err=failed to fetch any base profiles
  p: nil
  ui=["bad9: boom 9"]
== base-partial
grab: err=<nil> save=false calls=4
  p: types=[samples/count cpu/nanoseconds] samples=4 locs=3 funcs=1 maps=["/bin/prog":"abcdef"] totals=[23 46] comments=[]
  pbase: types=[samples/count cpu/nanoseconds] samples=2 locs=2 funcs=1 maps=["/bin/prog":"abcdef"] totals=[14 28] comments=[]
  msrc= mbase=
  ui=["Fetched 1 base profiles out of 2" "bad9: boom 9"]
fetch: err=<nil>
  p: types=[samples/count cpu/nanoseconds] samples=6 locs=4 funcs=1 maps=["/bin/prog":"abcdef"] totals=[9 18] comments=["c:base-partial"]
  ui=["Fetched 1 base profiles out of 2" "bad9: boom 9"]
== diffbase
grab: err=<nil> save=false calls=3
  p: types=[samples/count cpu/nanoseconds] samples=4 locs=3 funcs=1 maps=["/bin/prog":"abcdef"] totals=[30 60] comments=[]
  pbase: types=[samples/count cpu/nanoseconds] samples=2 locs=2 funcs=1 maps=["/bin/prog":"abcdef"] totals=[12 24] comments=[]
  msrc= mbase=
  ui=[]
fetch: err=<nil>
  p: types=[samples/count cpu/nanoseconds] samples=6 locs=3 funcs=1 maps=["/bin/prog":"abcdef"] totals=[18 36] comments=["c:diffbase"]
  ui=[]
== normalize
grab: err=<nil> save=false calls=4
  p: types=[samples/count cpu/nanoseconds] samples=4 locs=4 funcs=2 maps=["/bin/prog":"abcdef" "":"x"] totals=[30 60] comments=[]
  pbase: types=[samples/count cpu/nanoseconds] samples=4 locs=3 funcs=1 maps=["/bin/prog":"abcdef"] totals=[25 50] comments=[]
  msrc= mbase=
  ui=[]
fetch: err=<nil>
  p: types=[samples/count cpu/nanoseconds] samples=8 locs=6 funcs=2 maps=["/bin/prog":"abcdef" "":"x"] totals=[0 0] comments=["c:normalize"]
  ui=[]
== incompatible-src
grab: err=problem fetching source profiles: profiles have empty common sample type list save=false calls=2
  p: nil
  pbase: nil
  msrc= mbase=
  ui=[]
fetch: err=problem fetching source profiles: profiles have empty common sample type list
  p: nil
  ui=[]
== incompatible-base
grab: err=<nil> save=false calls=2
  p: types=[samples/count cpu/nanoseconds] samples=2 locs=2 funcs=1 maps=["/bin/prog":"abcdef"] totals=[11 22] comments=[]
  pbase: types=[alloc/weird-unit] samples=2 locs=2 funcs=1 maps=["/bin/prog":"abcdef"] totals=[12] comments=[]
  msrc= mbase=
  ui=[]
fetch: err=profiles have empty common sample type list
  p: nil
  ui=[]
== src-and-base-err
grab: err=problem fetching source profiles: profiles have empty common sample type list save=false calls=4
  p: nil
  pbase: nil
  msrc= mbase=
  ui=[]
fetch: err=problem fetching source profiles: profiles have empty common sample type list
  p: nil
  ui=[]
== url
grab: err=<nil> save=false calls=3
  p: types=[samples/count cpu/nanoseconds] samples=4 locs=3 funcs=1 maps=["/bin/prog":"abcdef"] totals=[25 50] comments=[]
  pbase: types=[samples/count cpu/nanoseconds] samples=2 locs=2 funcs=1 maps=["/bin/prog":"abcdef"] totals=[12 24] comments=[]
  msrc="abcdef"*1 mbase="abcdef"*1
  ui=[]
fetch: err=<nil>
  p: types=[samples/count cpu/nanoseconds] samples=6 locs=4 funcs=1 maps=["/bin/prog":"abcdef"] totals=[13 26] comments=["c:url"]
  ui=[]
== two-chunks
grab: err=<nil> save=false calls=135
  p: types=[samples/count cpu/nanoseconds] samples=262 locs=133 funcs=2 maps=["/bin/prog":"abcdef" "":"x"] totals=[10025 20050] comments=[]
  pbase: types=[samples/count cpu/nanoseconds] samples=6 locs=4 funcs=1 maps=["/bin/prog":"abcdef"] totals=[36 72] comments=[]
  msrc= mbase=
  ui=["Fetched 131 source profiles out of 132" "bad7: boom 7"]
fetch: err=<nil>
  p: types=[samples/count cpu/nanoseconds] samples=268 locs=133 funcs=2 maps=["/bin/prog":"abcdef" "":"x"] totals=[9989 19978] comments=["c:two-chunks"]
  ui=["Fetched 131 source profiles out of 132" "bad7: boom 7"]
== unknown
grab: err=failed to fetch any source profiles save=false calls=2
  p: nil
  pbase: nil
  msrc= mbase=
  ui=["wat: unknown source \"wat\"" "wat: unknown source \"wat\""]
fetch: err=failed to fetch any source profiles
  p: nil
  ui=["wat: unknown source \"wat\"" "wat: unknown source \"wat\""]
`
