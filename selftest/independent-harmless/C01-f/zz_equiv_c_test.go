package driver

import (
	"bytes"
	"compress/gzip"
	"crypto/sha256"
	"encoding/hex"
	"errors"
	"fmt"
	"io"
	"os"
	"path/filepath"
	"strings"
	"testing"

	"github.com/google/pprof/internal/binutils"
	"github.com/google/pprof/internal/plugin"
	"github.com/google/pprof/internal/proftest"
	"github.com/google/pprof/internal/report"
	"github.com/google/pprof/profile"
)

// Equivalence demonstration for change C (generateReport split into
// renderReport / writeReportFile in internal/driver/driver.go).
// Expected values were computed on the unchanged tree and hard-coded.

func zzcHash(b []byte) string {
	h := sha256.Sum256(b)
	return hex.EncodeToString(h[:8])
}

func zzcProfile(k int) *profile.Profile {
	p := &profile.Profile{
		TimeNanos:     99,
		DurationNanos: 1 << 40,
		Period:        -3,
		PeriodType:    &profile.ValueType{Type: "cpu", Unit: "ns"},
		Comments:      []string{"c1", "c2", "c1"},
		DocURL:        "http://doc/\xff",
	}
	for i := 0; i < k; i++ {
		p.SampleType = append(p.SampleType, &profile.ValueType{Type: fmt.Sprintf("t%d", i), Unit: "count"})
	}
	m := &profile.Mapping{ID: 1 << 50, Start: 1, Limit: 1<<64 - 1, File: "/bin/x", HasFunctions: true, HasFilenames: true, HasLineNumbers: true, HasInlineFrames: true}
	f := &profile.Function{ID: 9, Name: "f", SystemName: "f", Filename: "f.go", StartLine: 1 << 33}
	g := &profile.Function{ID: 1<<64 - 1, Name: "g\xc0", SystemName: "g"}
	p.Mapping = []*profile.Mapping{m}
	p.Function = []*profile.Function{f, g}
	l1 := &profile.Location{ID: 5, Mapping: m, Address: 16, Line: []profile.Line{{Function: g, Line: 1, Column: 1}, {Function: f, Line: 2}}}
	l2 := &profile.Location{ID: 1 << 63, Mapping: m, Address: 1 << 63, Line: []profile.Line{{Function: f, Line: 7}}}
	l3 := &profile.Location{ID: 6, Mapping: m, Address: 32, Line: []profile.Line{{Function: g, Line: 3}}}
	p.Location = []*profile.Location{l1, l2, l3}
	for si, st := range [][]*profile.Location{{l2}, {l1, l2}, {l3, l1, l2}, {l3, l3, l1, l2}} {
		s := &profile.Sample{Location: st}
		for v := 0; v < k; v++ {
			s.Value = append(s.Value, []int64{1 << 40, 5, 7, -2}[(si+v)%4])
		}
		if si == 0 {
			s.Label = map[string][]string{"k": {"b", "a", "b"}}
			s.NumLabel = map[string][]int64{"n": {4, -1, 8}, "m": {3}}
			s.NumUnit = map[string][]string{"n": {"x", "", ""}, "m": {"y"}}
		}
		p.Sample = append(p.Sample, s)
	}
	return p
}

type zzcFile struct {
	bytes.Buffer
	writeErr, closeErr error
	closed             int
}

func (f *zzcFile) Write(b []byte) (int, error) {
	if f.writeErr != nil {
		return 0, f.writeErr
	}
	return f.Buffer.Write(b)
}
func (f *zzcFile) Close() error { f.closed++; return f.closeErr }

type zzcWriter struct {
	openErr error
	file    *zzcFile
	opened  []string
}

func (w *zzcWriter) Open(name string) (io.WriteCloser, error) {
	w.opened = append(w.opened, name)
	if w.openErr != nil {
		return nil, w.openErr
	}
	return w.file, nil
}

func zzcGunzip(t *testing.T, b []byte) []byte {
	zr, err := gzip.NewReader(bytes.NewReader(b))
	if err != nil {
		t.Fatal(err)
	}
	out, err := io.ReadAll(zr)
	if err != nil {
		t.Fatal(err)
	}
	return out
}

var zzcWant = map[string]string{
	"k=1 proto":    "ef368fc74a2bc58e 91af09f82151afc6",
	"k=1 topproto": "4b2ad378b902d5d2 8a69ca341e2aace4",
	"k=1 raw":      "91af09f82151afc6",
	"k=2 proto":    "6c8351504f85316f 6824da83dfe627fe",
	"k=2 topproto": "2485ef93ebc7b0b7 56d33a03860d8172",
	"k=2 raw":      "6824da83dfe627fe",
	"k=3 proto":    "a52d52efb5a3b9c7 3decea25779284ce",
	"k=3 topproto": "2675171befd2866e 278540de3b74b595",
	"k=3 raw":      "3decea25779284ce",
	"realfile":     "6824da83dfe627fe",
}

func zzcCheck(t *testing.T, name, got string) {
	if os.Getenv("ZZ_PRINT") != "" {
		fmt.Printf("\t%q: %q,\n", name, got)
		return
	}
	if want, ok := zzcWant[name]; !ok || got != want {
		t.Errorf("%s: got %q want %q", name, got, want)
	}
}

func TestZZEquivC_ProtoOutput(t *testing.T) {
	for _, k := range []int{1, 2, 3} {
		orig := zzcProfile(k)
		copier := makeProfileCopier(orig)
		if a, b := copier.newCopy().String(), copier.newCopy().String(); a != b {
			t.Fatalf("k=%d: two copies differ", k)
		}
		for _, cmd := range []string{"proto", "topproto", "raw"} {
			name := fmt.Sprintf("k=%d %s", k, cmd)
			ui := &proftest.TestUI{T: t, AllowRx: "^Generating report in zzout$"}
			w := &zzcWriter{file: &zzcFile{}}
			o := &plugin.Options{UI: ui, Writer: w, Obj: &binutils.Binutils{}}
			cfg := defaultConfig()
			cfg.Output = "zzout"
			cfg.Granularity = "addresses"
			if err := generateReport(copier.newCopy(), []string{cmd}, cfg, o); err != nil {
				t.Fatalf("%s: %v", name, err)
			}
			if ui.NumAllowRxMatches != 1 || len(w.opened) != 1 || w.opened[0] != "zzout" || w.file.closed != 1 {
				t.Errorf("%s: messages=%d opened=%v closed=%d", name, ui.NumAllowRxMatches, w.opened, w.file.closed)
			}
			out := w.file.Bytes()
			if cmd == "raw" {
				zzcCheck(t, name, zzcHash(out))
				continue
			}
			raw := zzcGunzip(t, out)
			p, err := profile.ParseData(out)
			if err != nil {
				t.Fatalf("%s: parse output: %v", name, err)
			}
			if cmd == "proto" && p.String() != copier.newCopy().String() {
				t.Errorf("%s: -proto output differs from the input profile:\n%s\nvs\n%s", name, p.String(), copier.newCopy().String())
			}
			// What was parsed re-serializes to the same bytes.
			var again bytes.Buffer
			p.WriteUncompressed(&again)
			if !bytes.Equal(again.Bytes(), raw) {
				t.Errorf("%s: output does not re-serialize to identical bytes", name)
			}
			zzcCheck(t, name, zzcHash(raw)+" "+zzcHash([]byte(p.String())))
		}
	}
}

func TestZZEquivC_RealFile(t *testing.T) {
	orig := zzcProfile(2)
	path := filepath.Join(t.TempDir(), "out.pb.gz")
	ui := &proftest.TestUI{T: t, AllowRx: "^Generating report in "}
	o := &plugin.Options{UI: ui, Writer: oswriter{}, Obj: &binutils.Binutils{}}
	cfg := defaultConfig()
	cfg.Output = path
	cfg.Granularity = "addresses"
	if err := generateReport(makeProfileCopier(orig).newCopy(), []string{"proto"}, cfg, o); err != nil {
		t.Fatal(err)
	}
	f, err := os.Open(path)
	if err != nil {
		t.Fatal(err)
	}
	defer f.Close()
	p, err := profile.Parse(f)
	if err != nil {
		t.Fatal(err)
	}
	zzcCheck(t, "realfile", zzcHash([]byte(p.String())))
}

func TestZZEquivC_ErrorsAndHooks(t *testing.T) {
	copier := makeProfileCopier(zzcProfile(2))
	errOpen, errWrite, errClose, errPost := errors.New("zz open"), errors.New("zz write"), errors.New("zz close"), errors.New("zz post")

	run := func(cmd string, w *zzcWriter, output string) (error, *proftest.TestUI) {
		ui := &proftest.TestUI{T: t, AllowRx: "^Generating report in zzout$"}
		o := &plugin.Options{UI: ui, Writer: w, Obj: &binutils.Binutils{}}
		cfg := defaultConfig()
		cfg.Output = output
		cfg.Granularity = "addresses"
		return generateReport(copier.newCopy(), []string{cmd}, cfg, o), ui
	}

	w := &zzcWriter{openErr: errOpen}
	if err, ui := run("proto", w, "zzout"); err != errOpen || ui.NumAllowRxMatches != 1 {
		t.Errorf("open error: got %v (messages %d)", err, ui.NumAllowRxMatches)
	}
	w = &zzcWriter{file: &zzcFile{writeErr: errWrite, closeErr: errClose}}
	if err, _ := run("proto", w, "zzout"); err != errWrite || w.file.closed != 1 {
		t.Errorf("write error: got %v closed=%d", err, w.file.closed)
	}
	w = &zzcWriter{file: &zzcFile{closeErr: errClose}}
	if err, _ := run("proto", w, "zzout"); err != errClose || w.file.closed != 1 || w.file.Len() == 0 {
		t.Errorf("close error: got %v closed=%d len=%d", err, w.file.closed, w.file.Len())
	}

	// A command with a post-processing step and a visualizer.
	var visualized []byte
	post := func(in io.Reader, out io.Writer, ui plugin.UI) error {
		b, err := io.ReadAll(in)
		if err != nil {
			return err
		}
		if _, err := profile.ParseData(b); err != nil {
			return fmt.Errorf("post-processor got unparsable input: %v", err)
		}
		_, err = out.Write(append([]byte("POST:"), b...))
		return err
	}
	pprofCommands["zzpost"] = &command{format: report.Proto, postProcess: post,
		visualizer: func(in io.Reader, _ io.Writer, _ plugin.UI) error {
			b, err := io.ReadAll(in)
			visualized = b
			return err
		}}
	pprofCommands["zzpostfail"] = &command{format: report.Proto, postProcess: func(io.Reader, io.Writer, plugin.UI) error { return errPost }}
	defer delete(pprofCommands, "zzpost")
	defer delete(pprofCommands, "zzpostfail")

	w = &zzcWriter{file: &zzcFile{}}
	if err, _ := run("zzpost", w, "zzout"); err != nil {
		t.Fatal(err)
	}
	fileOut := append([]byte{}, w.file.Bytes()...)
	if !bytes.HasPrefix(fileOut, []byte("POST:")) {
		t.Fatalf("post-processed output missing prefix")
	}
	p, err := profile.ParseData(fileOut[len("POST:"):])
	if err != nil {
		t.Fatal(err)
	}
	if p.String() != copier.newCopy().String() {
		t.Errorf("post-processed proto differs from input")
	}
	w = &zzcWriter{file: &zzcFile{}}
	if err, ui := run("zzpost", w, ""); err != nil || len(w.opened) != 0 || ui.NumAllowRxMatches != 0 {
		t.Errorf("visualizer path: err=%v opened=%v messages=%d", err, w.opened, ui.NumAllowRxMatches)
	}
	if !bytes.Equal(visualized, fileOut) {
		t.Errorf("visualizer saw different bytes than the file output")
	}
	w = &zzcWriter{file: &zzcFile{}}
	if err, ui := run("zzpostfail", w, "zzout"); err != errPost || len(w.opened) != 0 || ui.NumAllowRxMatches != 0 {
		t.Errorf("post error: err=%v opened=%v messages=%d", err, w.opened, ui.NumAllowRxMatches)
	}
	// Errors from report generation are passed through before anything is opened.
	w = &zzcWriter{file: &zzcFile{}}
	ui := &proftest.TestUI{T: t}
	o := &plugin.Options{UI: ui, Writer: w, Obj: &binutils.Binutils{}}
	cfg := defaultConfig()
	cfg.Output = "zzout"
	err = generateReport(copier.newCopy(), []string{"list", "nomatch_zz"}, cfg, o)
	if err == nil || !strings.Contains(err.Error(), "no matches found") || len(w.opened) != 0 {
		t.Errorf("list error: err=%v opened=%v", err, w.opened)
	}
}
