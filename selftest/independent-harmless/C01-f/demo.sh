#!/bin/sh
# usage: demo.sh <worktree root>; exits 0 iff the equivalence test passes on that tree.
set -u
root="${1:?worktree root}"
here="$(cd "$(dirname "$0")" && pwd)"
export GOFLAGS=-mod=mod GOPROXY=off GOSUMDB=off GOTOOLCHAIN=local
cp "$here/zz_equiv_c_test.go" "$root/internal/driver/zz_equiv_c_test.go" || exit 2
(cd "$root" && go test -vet=off -count=1 -run 'ZZEquivC' ./internal/driver/)
rc=$?
rm -f "$root/internal/driver/zz_equiv_c_test.go"
exit $rc
