package profile

// Equivalence demonstration for change A (proto.go: decodeVarint rewritten as a
// range loop with a running shift; packed-varint loops of decodeInt64s and
// decodeUint64s merged into decodePacked).
//
// The expectations below were computed on the UNCHANGED tree and hard-coded.
// The test passes both with and without the change.

import (
	"bytes"
	"crypto/sha256"
	"encoding/hex"
	"fmt"
	"regexp"
	"strings"
	"testing"
)

// refVarintA is a verbatim copy of the pre-change decodeVarint.
func refVarintA(data []byte) (uint64, []byte, error) {
	var u uint64
	for i := 0; ; i++ {
		if i >= 10 || i >= len(data) {
			return 0, nil, fmt.Errorf("bad varint")
		}
		u |= uint64(data[i]&0x7F) << uint(7*i)
		if data[i]&0x80 == 0 {
			return u, data[i+1:], nil
		}
	}
}

func TestZZEquivA_Varint(t *testing.T) {
	type tc struct {
		in   []byte
		u    uint64
		rest int // len of remaining data, -1 on error
	}
	ff := func(n int, last byte, tail ...byte) []byte {
		b := bytes.Repeat([]byte{0xff}, n)
		b = append(b, last)
		return append(b, tail...)
	}
	cases := []tc{
		{nil, 0, -1},
		{[]byte{}, 0, -1},
		{[]byte{0}, 0, 0},
		{[]byte{1, 2, 3}, 1, 2},
		{[]byte{0x7f}, 127, 0},
		{[]byte{0x80}, 0, -1},
		{[]byte{0x80, 0x01}, 128, 0},
		{[]byte{0xac, 0x02, 0xff}, 300, 1},
		{[]byte{0x80, 0x80, 0x80, 0x00}, 0, 0}, // non-canonical zero
		{ff(8, 0x7f), 1<<63 - 1, 0},
		{ff(9, 0x01), ^uint64(0), 0},
		{ff(9, 0x01, 9, 9), ^uint64(0), 2},
		{ff(9, 0x7f), ^uint64(0), 0},        // overflow bits of 10th byte are dropped
		{ff(9, 0x7e, 5), ^uint64(0) >> 1, 1}, // 10th byte contributes only bit 0
		{ff(9, 0x81), 0, -1},                 // 10 bytes, all with continuation
		{ff(10, 0x01), 0, -1},                // 11-byte varint
		{ff(3, 0xff), 0, -1},                 // truncated
	}
	for i, c := range cases {
		u, rest, err := decodeVarint(c.in)
		ru, rrest, rerr := refVarintA(c.in)
		if (err != nil) != (rerr != nil) || u != ru || !bytes.Equal(rest, rrest) || (rest == nil) != (rrest == nil) {
			t.Errorf("case %d: decodeVarint(%x) = %d,%x,%v; reference %d,%x,%v", i, c.in, u, rest, err, ru, rrest, rerr)
		}
		if c.rest < 0 {
			if err == nil || err.Error() != "bad varint" || u != 0 || rest != nil {
				t.Errorf("case %d: decodeVarint(%x) = %d,%x,%v; want bad varint", i, c.in, u, rest, err)
			}
			continue
		}
		if err != nil || u != c.u || len(rest) != c.rest {
			t.Errorf("case %d: decodeVarint(%x) = %d,len %d,%v; want %d,len %d", i, c.in, u, len(rest), err, c.u, c.rest)
		}
	}
	// exhaustive-ish differential sweep over short strings of interesting bytes
	alpha := []byte{0x00, 0x01, 0x7f, 0x80, 0x81, 0xff}
	var rec func(prefix []byte, depth int)
	n := 0
	rec = func(prefix []byte, depth int) {
		u, rest, err := decodeVarint(prefix)
		ru, rrest, rerr := refVarintA(prefix)
		n++
		if (err != nil) != (rerr != nil) || u != ru || !bytes.Equal(rest, rrest) {
			t.Fatalf("decodeVarint(%x) = %d,%x,%v; reference %d,%x,%v", prefix, u, rest, err, ru, rrest, rerr)
		}
		if depth == 0 {
			return
		}
		for _, a := range alpha {
			rec(append(prefix[:len(prefix):len(prefix)], a), depth-1)
		}
	}
	rec(nil, 5)
	// long runs
	for l := 6; l <= 13; l++ {
		for _, last := range alpha {
			rec(ff(l-1, last), 0)
			rec(append(bytes.Repeat([]byte{0x80}, l-1), last, 0x55), 0)
		}
	}
	if n < 9000 {
		t.Fatalf("sweep too small: %d", n)
	}
}

func TestZZEquivA_Packed(t *testing.T) {
	type tc struct {
		typ     int
		u64     uint64
		data    []byte
		wantI   string
		wantU   string
		wantErr string
	}
	cases := []tc{
		{2, 0, nil, "[7]", "[7]", ""},
		{2, 0, []byte{1, 2, 3}, "[7 1 2 3]", "[7 1 2 3]", ""},
		{2, 0, []byte{0xac, 0x02, 0x00, 0x7f}, "[7 300 0 127]", "[7 300 0 127]", ""},
		{2, 0, append(bytes.Repeat([]byte{0xff}, 9), 0x01, 0x05), "[7 -1 5]", "[7 18446744073709551615 5]", ""},
		// error after two good elements: the good ones have already been appended
		{2, 0, []byte{1, 2, 0x80}, "[7 1 2]", "[7 1 2]", "bad varint"},
		{2, 0, append([]byte{9}, bytes.Repeat([]byte{0x80}, 11)...), "[7 9]", "[7 9]", "bad varint"},
		{0, 42, nil, "[7 42]", "[7 42]", ""},
		{0, ^uint64(0), []byte{1, 2}, "[7 -1]", "[7 18446744073709551615]", ""},
		{1, 42, nil, "[7]", "[7]", "type mismatch"},
		{5, 42, nil, "[7]", "[7]", "type mismatch"},
	}
	for i, c := range cases {
		b := &buffer{typ: c.typ, u64: c.u64, data: c.data}
		xi := []int64{7}
		err := decodeInt64s(b, &xi)
		if got := fmt.Sprint(xi); got != c.wantI || errStrA(err) != c.wantErr {
			t.Errorf("case %d: decodeInt64s = %s, %v; want %s, %q", i, got, err, c.wantI, c.wantErr)
		}
		xu := []uint64{7}
		err = decodeUint64s(b, &xu)
		if got := fmt.Sprint(xu); got != c.wantU || errStrA(err) != c.wantErr {
			t.Errorf("case %d: decodeUint64s = %s, %v; want %s, %q", i, got, err, c.wantU, c.wantErr)
		}
	}
}

func errStrA(err error) string {
	if err == nil {
		return ""
	}
	return err.Error()
}

var ptrRxA = regexp.MustCompile(`0x[0-9a-f]+`)

// outcomeA parses data and renders the outcome (error text or profile text);
// on success it also drives the returned profile through the operations the
// property promises cannot crash.
func outcomeA(t *testing.T, data []byte) string {
	p, err := ParseData(data)
	if err != nil {
		if p != nil {
			t.Errorf("ParseData returned both a profile and an error")
		}
		return "E:" + ptrRxA.ReplaceAllString(err.Error(), "PTR")
	}
	if err := p.CheckValid(); err != nil {
		t.Errorf("parsed profile is not valid: %v", err)
	}
	for _, s := range p.Sample {
		if len(s.Value) != len(p.SampleType) {
			t.Errorf("sample with %d values for %d types", len(s.Value), len(p.SampleType))
		}
	}
	var buf bytes.Buffer
	if err := p.Write(&buf); err != nil {
		t.Errorf("Write: %v", err)
	}
	q := p.Copy()
	r := p.Compact()
	return "P:" + p.String() + "\nC:" + q.String() + "\nK:" + r.String()
}

func seedProfileA() *Profile {
	m1 := &Mapping{ID: 1, Start: 0x1000, Limit: 0x4000, File: "/bin/app", BuildID: "abc", HasFunctions: true}
	m2 := &Mapping{ID: 300, Start: 0x7000, Limit: 0x9000, Offset: 0x100, File: "[kernel.kallsyms]_stext"}
	f1 := &Function{ID: 1, Name: "main", SystemName: "main", Filename: "main.go", StartLine: 3}
	f2 := &Function{ID: 2, Name: "foo", SystemName: "_foo", Filename: "foo.go"}
	f3 := &Function{ID: 200, Name: "bar", Filename: "bar.go"}
	l1 := &Location{ID: 1, Mapping: m1, Address: 0x1100, Line: []Line{{Function: f2, Line: 10, Column: 2}, {Function: f1, Line: 20}}}
	l2 := &Location{ID: 2, Mapping: m1, Address: 0x1200, Line: []Line{{Function: f1, Line: 21}}}
	l3 := &Location{ID: 129, Mapping: m2, Address: 0x7100, Line: []Line{{Function: f3, Line: 7}}, IsFolded: true}
	l4 := &Location{ID: 4, Address: 0x1}
	return &Profile{
		SampleType:        []*ValueType{{Type: "samples", Unit: "count"}, {Type: "cpu", Unit: "nanoseconds"}},
		DefaultSampleType: "cpu",
		PeriodType:        &ValueType{Type: "cpu", Unit: "nanoseconds"},
		Period:            10000000,
		TimeNanos:         12345,
		DurationNanos:     1 << 40,
		Comments:          []string{"c1", "c2", "c3", "c4"},
		DropFrames:        "drop.*",
		KeepFrames:        "keep.*",
		DocURL:            "http://example.com/doc",
		Sample: []*Sample{
			{Location: []*Location{l1, l2, l3, l4}, Value: []int64{1, -300}, Label: map[string][]string{"k": {"v1", "v2"}}},
			{Location: []*Location{l2}, Value: []int64{1 << 40, 7}, NumLabel: map[string][]int64{"bytes": {16, 4096, 1 << 33}}, NumUnit: map[string][]string{"bytes": {"b", "b", "b"}}},
			{Location: []*Location{l3, l1, l3}, Value: []int64{0, 0}},
			{Value: []int64{5, 6}},
		},
		Mapping:  []*Mapping{m1, m2},
		Location: []*Location{l1, l2, l3, l4},
		Function: []*Function{f1, f2, f3},
	}
}

func digestSweepA(t *testing.T, seed []byte) (string, int, int) {
	h := sha256.New()
	okCount, errCount := 0, 0
	emit := func(tag string, data []byte) {
		o := outcomeA(t, data)
		if strings.HasPrefix(o, "P:") {
			okCount++
		} else {
			errCount++
		}
		fmt.Fprintf(h, "%s\x00%s\x00", tag, o)
	}
	emit("seed", seed)
	// every truncation
	for i := 0; i < len(seed); i++ {
		emit(fmt.Sprintf("trunc%d", i), seed[:i])
	}
	// every single-byte substitution by a few interesting values
	for i := 0; i < len(seed); i++ {
		for _, v := range []byte{0x00, 0x01, 0x7f, 0x80, 0xff, seed[i] ^ 0x08, seed[i] + 1} {
			if v == seed[i] {
				continue
			}
			d := append([]byte(nil), seed...)
			d[i] = v
			emit(fmt.Sprintf("sub%d_%d", i, v), d)
		}
	}
	// every single-byte deletion and a varint-continuation insertion
	for i := 0; i < len(seed); i++ {
		d := append(append([]byte(nil), seed[:i]...), seed[i+1:]...)
		emit(fmt.Sprintf("del%d", i), d)
		d = append(append(append([]byte(nil), seed[:i]...), 0xff), seed[i:]...)
		emit(fmt.Sprintf("ins%d", i), d)
	}
	// concatenation with itself
	emit("concat", append(append([]byte(nil), seed...), seed...))
	return hex.EncodeToString(h.Sum(nil)), okCount, errCount
}

func TestZZEquivA_ParseSweep(t *testing.T) {
	var buf bytes.Buffer
	if err := seedProfileA().WriteUncompressed(&buf); err != nil {
		t.Fatal(err)
	}
	seed := buf.Bytes()
	const wantSeedHash = "8ffb1814c38828d1f64ec723bf2fbb33a3f4a7d60d4d346b65e3d7b78c85d581"
	sh := sha256.Sum256(seed)
	if got := hex.EncodeToString(sh[:]); got != wantSeedHash {
		t.Errorf("seed encoding hash = %s, want %s (len %d)", got, wantSeedHash, len(seed))
	}
	got, ok, bad := digestSweepA(t, seed)
	const want = "ee4a37190fd1d155d0018e8042b8b96dc738b6ccee8d644ec4ca2b89d35c98a5"
	const wantOK, wantBad = 1623, 3048
	if got != want || ok != wantOK || bad != wantBad {
		t.Errorf("sweep digest = %s (ok %d, err %d); want %s (ok %d, err %d)", got, ok, bad, want, wantOK, wantBad)
	}
}
