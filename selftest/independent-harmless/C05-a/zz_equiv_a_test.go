package graph

import (
	"fmt"
	"sort"
	"strings"
	"testing"

	"github.com/google/pprof/profile"
)

// zzAProfile builds a profile with inlined frames, recursion, several roots,
// and a negative sample.
func zzAProfile() *profile.Profile {
	names := []string{"main", "a", "b", "c", "d", "e", "f", "g"}
	fn := map[string]*profile.Function{}
	loc := map[string]*profile.Location{}
	p := &profile.Profile{
		SampleType: []*profile.ValueType{{Type: "samples", Unit: "count"}, {Type: "cpu", Unit: "ms"}},
	}
	for i, n := range names {
		f := &profile.Function{ID: uint64(i + 1), Name: n, SystemName: n, Filename: n + ".go"}
		fn[n] = f
		p.Function = append(p.Function, f)
		l := &profile.Location{ID: uint64(i + 1), Line: []profile.Line{{Function: f, Line: int64(10 + i)}}}
		loc[n] = l
		p.Location = append(p.Location, l)
	}
	inl := func(id uint64, key string, fs ...string) {
		l := &profile.Location{ID: id}
		for i, f := range fs {
			l.Line = append(l.Line, profile.Line{Function: fn[f], Line: int64(100*int(id) + i)})
		}
		loc[key] = l
		p.Location = append(p.Location, l)
	}
	inl(20, "c<b", "c", "b")
	inl(21, "e<d<a", "e", "d", "a")
	add := func(v int64, stack ...string) {
		s := &profile.Sample{Value: []int64{v, v * 10}}
		for _, k := range stack {
			s.Location = append(s.Location, loc[k])
		}
		p.Sample = append(p.Sample, s)
	}
	add(10, "c", "b", "a", "main")
	add(7, "c<b", "a", "main")
	add(3, "d", "b", "a", "main")
	add(5, "e<d<a", "main")
	add(1, "f", "main")
	add(2, "g")
	add(4, "a", "b", "a", "main")
	add(6, "e", "c", "b", "a", "main")
	add(1, "main")
	add(-8, "f", "g")
	add(9, "e", "c<b", "a", "main")
	add(2, "d", "e<d<a", "main")
	return p
}

func zzAPath(n *Node) string {
	var parts []string
	for cur := n; cur != nil; {
		parts = append(parts, fmt.Sprintf("%s:%d", cur.Info.Name, cur.Info.Lineno))
		var next *Node
		for _, e := range cur.In {
			next = e.Src
		}
		if len(cur.In) > 1 {
			parts = append(parts, "MULTIPARENT")
			break
		}
		cur = next
	}
	for i, j := 0, len(parts)-1; i < j; i, j = i+1, j-1 {
		parts[i], parts[j] = parts[j], parts[i]
	}
	return strings.Join(parts, "/")
}

func zzADump(g *Graph) string {
	var lines []string
	for _, n := range g.Nodes {
		l := fmt.Sprintf("%s flat=%d cum=%d", zzAPath(n), n.Flat, n.Cum)
		for src, e := range n.In {
			if e.Src != src || e.Dest != n || src.Out[n] != e {
				l += " BROKEN-IN"
			}
			l += fmt.Sprintf(" in[w=%d res=%v inl=%v]", e.Weight, e.Residual, e.Inline)
		}
		var outs []string
		for dst, e := range n.Out {
			if e.Src != n || e.Dest != dst || dst.In[n] != e {
				l += " BROKEN-OUT"
			}
			outs = append(outs, fmt.Sprintf("%s:%d(w=%d)", dst.Info.Name, dst.Info.Lineno, e.Weight))
		}
		sort.Strings(outs)
		l += " out=" + strings.Join(outs, ",")
		lines = append(lines, l)
	}
	sort.Strings(lines)
	return strings.Join(lines, "\n")
}

func TestZZEquivATrimTree(t *testing.T) {
	type tc struct {
		name string
		keep func(g *Graph) NodePtrSet
	}
	byPred := func(pred func(n *Node) bool) func(g *Graph) NodePtrSet {
		return func(g *Graph) NodePtrSet {
			s := NodePtrSet{}
			for _, n := range g.Nodes {
				if pred(n) {
					s[n] = true
				}
			}
			return s
		}
	}
	cases := []tc{
		{"all", byPred(func(n *Node) bool { return true })},
		{"none", byPred(func(n *Node) bool { return false })},
		{"drop-leaves", byPred(func(n *Node) bool { return len(n.Out) > 0 })},
		{"drop-roots", byPred(func(n *Node) bool { return len(n.In) > 0 })},
		{"drop-b", byPred(func(n *Node) bool { return n.Info.Name != "b" })},
		{"drop-b-c", byPred(func(n *Node) bool { return n.Info.Name != "b" && n.Info.Name != "c" })},
		{"drop-a-d", byPred(func(n *Node) bool { return n.Info.Name != "a" && n.Info.Name != "d" })},
		{"drop-d", byPred(func(n *Node) bool { return n.Info.Name != "d" })},
		{"only-e", byPred(func(n *Node) bool { return n.Info.Name == "e" })},
		{"cutoff-8", func(g *Graph) NodePtrSet { return g.DiscardLowFrequencyNodePtrs(8) }},
		{"cutoff-20", func(g *Graph) NodePtrSet { return g.DiscardLowFrequencyNodePtrs(20) }},
		{"top5-cum", func(g *Graph) NodePtrSet { g.SortNodes(true, false); return g.SelectTopNodePtrs(5, false) }},
		{"top4-flat", func(g *Graph) NodePtrSet { g.SortNodes(false, false); return g.SelectTopNodePtrs(4, false) }},
	}
	var out []string
	for _, c := range cases {
		g := New(zzAProfile(), &Options{
			CallTree:    true,
			SampleValue: func(v []int64) int64 { return v[0] },
		})
		kept := c.keep(g)
		g.TrimTree(kept)
		if len(g.Nodes) != len(kept) {
			t.Errorf("%s: %d nodes, kept %d", c.name, len(g.Nodes), len(kept))
		}
		for _, n := range g.Nodes {
			if !kept[n] {
				t.Errorf("%s: unkept node %s present", c.name, zzAPath(n))
			}
			for src := range n.In {
				if !kept[src] {
					t.Errorf("%s: edge from removed node", c.name)
				}
			}
			for dst := range n.Out {
				if !kept[dst] {
					t.Errorf("%s: edge to removed node", c.name)
				}
			}
		}
		out = append(out, "== "+c.name+"\n"+zzADump(g))
	}
	got := strings.Join(out, "\n") + "\n"
	if got != zzAWant {
		t.Errorf("TrimTree output differs from the recorded baseline.\n--- got ---\n%s", got)
	}
}

const zzAWant = `== all
g:17 flat=2 cum=-6 out=f:16(w=-8)
g:17/f:16 flat=-8 cum=-8 in[w=-8 res=false inl=false] out=
main:10 flat=1 cum=48 out=a:11(w=39),a:2102(w=7),f:16(w=1)
main:10/a:11 flat=0 cum=39 in[w=39 res=false inl=false] out=b:12(w=23),b:2001(w=16)
main:10/a:11/b:12 flat=0 cum=23 in[w=23 res=false inl=false] out=a:11(w=4),c:13(w=16),d:14(w=3)
main:10/a:11/b:12/a:11 flat=4 cum=4 in[w=4 res=false inl=false] out=
main:10/a:11/b:12/c:13 flat=10 cum=16 in[w=16 res=false inl=false] out=e:15(w=6)
main:10/a:11/b:12/c:13/e:15 flat=6 cum=6 in[w=6 res=false inl=false] out=
main:10/a:11/b:12/d:14 flat=3 cum=3 in[w=3 res=false inl=false] out=
main:10/a:11/b:2001 flat=0 cum=16 in[w=16 res=false inl=false] out=c:2000(w=16)
main:10/a:11/b:2001/c:2000 flat=7 cum=16 in[w=16 res=false inl=true] out=e:15(w=9)
main:10/a:11/b:2001/c:2000/e:15 flat=9 cum=9 in[w=9 res=false inl=false] out=
main:10/a:2102 flat=0 cum=7 in[w=7 res=false inl=false] out=d:2101(w=7)
main:10/a:2102/d:2101 flat=0 cum=7 in[w=7 res=false inl=true] out=e:2100(w=7)
main:10/a:2102/d:2101/e:2100 flat=5 cum=7 in[w=7 res=false inl=true] out=d:14(w=2)
main:10/a:2102/d:2101/e:2100/d:14 flat=2 cum=2 in[w=2 res=false inl=false] out=
main:10/f:16 flat=1 cum=1 in[w=1 res=false inl=false] out=
== none

== drop-leaves
g:17 flat=2 cum=-6 out=
main:10 flat=1 cum=48 out=a:11(w=39),a:2102(w=7)
main:10/a:11 flat=0 cum=39 in[w=39 res=false inl=false] out=b:12(w=23),b:2001(w=16)
main:10/a:11/b:12 flat=0 cum=23 in[w=23 res=false inl=false] out=c:13(w=16)
main:10/a:11/b:12/c:13 flat=10 cum=16 in[w=16 res=false inl=false] out=
main:10/a:11/b:2001 flat=0 cum=16 in[w=16 res=false inl=false] out=c:2000(w=16)
main:10/a:11/b:2001/c:2000 flat=7 cum=16 in[w=16 res=false inl=true] out=
main:10/a:2102 flat=0 cum=7 in[w=7 res=false inl=false] out=d:2101(w=7)
main:10/a:2102/d:2101 flat=0 cum=7 in[w=7 res=false inl=true] out=e:2100(w=7)
main:10/a:2102/d:2101/e:2100 flat=5 cum=7 in[w=7 res=false inl=true] out=
== drop-roots
a:11 flat=0 cum=39 out=b:12(w=23),b:2001(w=16)
a:11/b:12 flat=0 cum=23 in[w=23 res=false inl=false] out=a:11(w=4),c:13(w=16),d:14(w=3)
a:11/b:12/a:11 flat=4 cum=4 in[w=4 res=false inl=false] out=
a:11/b:12/c:13 flat=10 cum=16 in[w=16 res=false inl=false] out=e:15(w=6)
a:11/b:12/c:13/e:15 flat=6 cum=6 in[w=6 res=false inl=false] out=
a:11/b:12/d:14 flat=3 cum=3 in[w=3 res=false inl=false] out=
a:11/b:2001 flat=0 cum=16 in[w=16 res=false inl=false] out=c:2000(w=16)
a:11/b:2001/c:2000 flat=7 cum=16 in[w=16 res=false inl=true] out=e:15(w=9)
a:11/b:2001/c:2000/e:15 flat=9 cum=9 in[w=9 res=false inl=false] out=
a:2102 flat=0 cum=7 out=d:2101(w=7)
a:2102/d:2101 flat=0 cum=7 in[w=7 res=false inl=true] out=e:2100(w=7)
a:2102/d:2101/e:2100 flat=5 cum=7 in[w=7 res=false inl=true] out=d:14(w=2)
a:2102/d:2101/e:2100/d:14 flat=2 cum=2 in[w=2 res=false inl=false] out=
f:16 flat=-8 cum=-8 out=
f:16 flat=1 cum=1 out=
== drop-b
g:17 flat=2 cum=-6 out=f:16(w=-8)
g:17/f:16 flat=-8 cum=-8 in[w=-8 res=false inl=false] out=
main:10 flat=1 cum=48 out=a:11(w=39),a:2102(w=7),f:16(w=1)
main:10/a:11 flat=0 cum=39 in[w=39 res=false inl=false] out=a:11(w=4),c:13(w=16),c:2000(w=16),d:14(w=3)
main:10/a:11/a:11 flat=4 cum=4 in[w=4 res=true inl=false] out=
main:10/a:11/c:13 flat=10 cum=16 in[w=16 res=true inl=false] out=e:15(w=6)
main:10/a:11/c:13/e:15 flat=6 cum=6 in[w=6 res=false inl=false] out=
main:10/a:11/c:2000 flat=7 cum=16 in[w=16 res=true inl=false] out=e:15(w=9)
main:10/a:11/c:2000/e:15 flat=9 cum=9 in[w=9 res=false inl=false] out=
main:10/a:11/d:14 flat=3 cum=3 in[w=3 res=true inl=false] out=
main:10/a:2102 flat=0 cum=7 in[w=7 res=false inl=false] out=d:2101(w=7)
main:10/a:2102/d:2101 flat=0 cum=7 in[w=7 res=false inl=true] out=e:2100(w=7)
main:10/a:2102/d:2101/e:2100 flat=5 cum=7 in[w=7 res=false inl=true] out=d:14(w=2)
main:10/a:2102/d:2101/e:2100/d:14 flat=2 cum=2 in[w=2 res=false inl=false] out=
main:10/f:16 flat=1 cum=1 in[w=1 res=false inl=false] out=
== drop-b-c
g:17 flat=2 cum=-6 out=f:16(w=-8)
g:17/f:16 flat=-8 cum=-8 in[w=-8 res=false inl=false] out=
main:10 flat=1 cum=48 out=a:11(w=39),a:2102(w=7),f:16(w=1)
main:10/a:11 flat=0 cum=39 in[w=39 res=false inl=false] out=a:11(w=4),d:14(w=3),e:15(w=6),e:15(w=9)
main:10/a:11/a:11 flat=4 cum=4 in[w=4 res=true inl=false] out=
main:10/a:11/d:14 flat=3 cum=3 in[w=3 res=true inl=false] out=
main:10/a:11/e:15 flat=6 cum=6 in[w=6 res=true inl=false] out=
main:10/a:11/e:15 flat=9 cum=9 in[w=9 res=true inl=false] out=
main:10/a:2102 flat=0 cum=7 in[w=7 res=false inl=false] out=d:2101(w=7)
main:10/a:2102/d:2101 flat=0 cum=7 in[w=7 res=false inl=true] out=e:2100(w=7)
main:10/a:2102/d:2101/e:2100 flat=5 cum=7 in[w=7 res=false inl=true] out=d:14(w=2)
main:10/a:2102/d:2101/e:2100/d:14 flat=2 cum=2 in[w=2 res=false inl=false] out=
main:10/f:16 flat=1 cum=1 in[w=1 res=false inl=false] out=
== drop-a-d
g:17 flat=2 cum=-6 out=f:16(w=-8)
g:17/f:16 flat=-8 cum=-8 in[w=-8 res=false inl=false] out=
main:10 flat=1 cum=48 out=b:12(w=23),b:2001(w=16),e:2100(w=7),f:16(w=1)
main:10/b:12 flat=0 cum=23 in[w=23 res=true inl=false] out=c:13(w=16)
main:10/b:12/c:13 flat=10 cum=16 in[w=16 res=false inl=false] out=e:15(w=6)
main:10/b:12/c:13/e:15 flat=6 cum=6 in[w=6 res=false inl=false] out=
main:10/b:2001 flat=0 cum=16 in[w=16 res=true inl=false] out=c:2000(w=16)
main:10/b:2001/c:2000 flat=7 cum=16 in[w=16 res=false inl=true] out=e:15(w=9)
main:10/b:2001/c:2000/e:15 flat=9 cum=9 in[w=9 res=false inl=false] out=
main:10/e:2100 flat=5 cum=7 in[w=7 res=true inl=false] out=
main:10/f:16 flat=1 cum=1 in[w=1 res=false inl=false] out=
== drop-d
g:17 flat=2 cum=-6 out=f:16(w=-8)
g:17/f:16 flat=-8 cum=-8 in[w=-8 res=false inl=false] out=
main:10 flat=1 cum=48 out=a:11(w=39),a:2102(w=7),f:16(w=1)
main:10/a:11 flat=0 cum=39 in[w=39 res=false inl=false] out=b:12(w=23),b:2001(w=16)
main:10/a:11/b:12 flat=0 cum=23 in[w=23 res=false inl=false] out=a:11(w=4),c:13(w=16)
main:10/a:11/b:12/a:11 flat=4 cum=4 in[w=4 res=false inl=false] out=
main:10/a:11/b:12/c:13 flat=10 cum=16 in[w=16 res=false inl=false] out=e:15(w=6)
main:10/a:11/b:12/c:13/e:15 flat=6 cum=6 in[w=6 res=false inl=false] out=
main:10/a:11/b:2001 flat=0 cum=16 in[w=16 res=false inl=false] out=c:2000(w=16)
main:10/a:11/b:2001/c:2000 flat=7 cum=16 in[w=16 res=false inl=true] out=e:15(w=9)
main:10/a:11/b:2001/c:2000/e:15 flat=9 cum=9 in[w=9 res=false inl=false] out=
main:10/a:2102 flat=0 cum=7 in[w=7 res=false inl=false] out=e:2100(w=7)
main:10/a:2102/e:2100 flat=5 cum=7 in[w=7 res=true inl=true] out=
main:10/f:16 flat=1 cum=1 in[w=1 res=false inl=false] out=
== only-e
e:15 flat=6 cum=6 out=
e:15 flat=9 cum=9 out=
e:2100 flat=5 cum=7 out=
== cutoff-8
f:16 flat=-8 cum=-8 out=
main:10 flat=1 cum=48 out=a:11(w=39)
main:10/a:11 flat=0 cum=39 in[w=39 res=false inl=false] out=b:12(w=23),b:2001(w=16)
main:10/a:11/b:12 flat=0 cum=23 in[w=23 res=false inl=false] out=c:13(w=16)
main:10/a:11/b:12/c:13 flat=10 cum=16 in[w=16 res=false inl=false] out=
main:10/a:11/b:2001 flat=0 cum=16 in[w=16 res=false inl=false] out=c:2000(w=16)
main:10/a:11/b:2001/c:2000 flat=7 cum=16 in[w=16 res=false inl=true] out=e:15(w=9)
main:10/a:11/b:2001/c:2000/e:15 flat=9 cum=9 in[w=9 res=false inl=false] out=
== cutoff-20
main:10 flat=1 cum=48 out=a:11(w=39)
main:10/a:11 flat=0 cum=39 in[w=39 res=false inl=false] out=b:12(w=23)
main:10/a:11/b:12 flat=0 cum=23 in[w=23 res=false inl=false] out=
== top5-cum
main:10 flat=1 cum=48 out=a:11(w=39)
main:10/a:11 flat=0 cum=39 in[w=39 res=false inl=false] out=b:12(w=23),b:2001(w=16)
main:10/a:11/b:12 flat=0 cum=23 in[w=23 res=false inl=false] out=c:13(w=16)
main:10/a:11/b:12/c:13 flat=10 cum=16 in[w=16 res=false inl=false] out=
main:10/a:11/b:2001 flat=0 cum=16 in[w=16 res=false inl=false] out=
== top4-flat
c:13 flat=10 cum=16 out=
c:2000 flat=7 cum=16 out=e:15(w=9)
c:2000/e:15 flat=9 cum=9 in[w=9 res=false inl=false] out=
f:16 flat=-8 cum=-8 out=
`
