package report

import (
	"bytes"
	"fmt"
	"os"
	"regexp"
	"strings"
	"testing"

	"github.com/google/pprof/internal/graph"
	"github.com/google/pprof/profile"
)

// zzEquivAProfile builds a profile whose function and file names contain the
// metacharacters of DOT, callgrind and HTML, with the same function reached
// through several call paths (so that call_tree creates several nodes with the
// same callgrind name).
func zzEquivAProfile() *profile.Profile {
	m := &profile.Mapping{ID: 1, Start: 0x1000, Limit: 0x9000, File: "/bin/a \"b\"\\c<d>", HasFunctions: true}
	names := []struct{ name, file string }{
		{"main", "main.go"},
		{"lib::f(\"x\")", "dir/a b.cc"},
		{"lib::g<int>\\n", "dir/a b.cc"},
		{"leaf (1)", "dir/q\"uote.go"},
		{"ünï\ncode", "dir/new\nline.go"},
		{"leaf (1)", "other/file.go"},
	}
	var fns []*profile.Function
	var locs []*profile.Location
	for i, n := range names {
		f := &profile.Function{ID: uint64(i + 1), Name: n.name, SystemName: n.name, Filename: n.file, StartLine: int64(i)}
		fns = append(fns, f)
		locs = append(locs, &profile.Location{
			ID: uint64(i + 1), Mapping: m, Address: uint64(0x1000 + 0x100*i),
			Line: []profile.Line{{Function: f, Line: int64(10 + i)}},
		})
	}
	l := func(ix ...int) []*profile.Location {
		var out []*profile.Location
		for _, i := range ix {
			out = append(out, locs[i])
		}
		return out
	}
	return &profile.Profile{
		SampleType:    []*profile.ValueType{{Type: "samples", Unit: "count"}, {Type: "cpu", Unit: "milliseconds"}},
		PeriodType:    &profile.ValueType{Type: "cpu", Unit: "milliseconds"},
		Period:        1,
		DurationNanos: 1e9,
		Mapping:       []*profile.Mapping{m},
		Function:      fns,
		Location:      locs,
		Sample: []*profile.Sample{
			{Location: l(3, 1, 0), Value: []int64{1, 1000}},
			{Location: l(3, 2, 0), Value: []int64{1, 700}},
			{Location: l(3, 2, 1, 0), Value: []int64{1, 410}},
			{Location: l(4, 3, 2, 0), Value: []int64{1, 230}},
			{Location: l(4, 1, 0), Value: []int64{1, 120}},
			{Location: l(5, 4, 2, 0), Value: []int64{1, 61}},
			{Location: l(5, 0), Value: []int64{1, 33}},
			{Location: l(0), Value: []int64{1, 17}},
		},
	}
}

func zzEquivACallgrind(t *testing.T, callTree bool) string {
	t.Helper()
	rpt := New(zzEquivAProfile(), &Options{
		OutputFormat: Callgrind,
		CallTree:     callTree,
		SampleValue:  func(v []int64) int64 { return v[1] },
		SampleType:   "cpu",
		SampleUnit:   "milliseconds",
		OutputUnit:   "milliseconds",
	})
	var buf bytes.Buffer
	if err := Generate(&buf, rpt, nil); err != nil {
		t.Fatal(err)
	}
	return buf.String()
}

var zzEquivARef = regexp.MustCompile(`^(ob|fl|fn|cfl|cfn|cob)=\((\d+)\)(?: (.*))?$`)

// zzEquivACheckGrammar checks the callgrind name compression grammar: a
// "(n) name" defines n once, a bare "(n)" refers to an earlier definition.
func zzEquivACheckGrammar(t *testing.T, out string) {
	t.Helper()
	defined := map[string]map[string]string{}
	table := map[string]string{"ob": "ob", "cob": "ob", "fl": "fl", "cfl": "fl", "fn": "fn", "cfn": "fn"}
	for i, line := range strings.Split(out, "\n") {
		eq := strings.Index(line, "=")
		if eq < 0 || table[line[:eq]] == "" || line[eq+1:] == "" {
			continue
		}
		m := zzEquivARef.FindStringSubmatch(line)
		if m == nil {
			t.Errorf("line %d: malformed name line %q", i+1, line)
			continue
		}
		tb := table[m[1]]
		if defined[tb] == nil {
			defined[tb] = map[string]string{}
		}
		if m[3] == "" {
			if _, ok := defined[tb][m[2]]; !ok {
				t.Errorf("line %d: %q refers to an undefined id", i+1, line)
			}
		} else {
			if _, ok := defined[tb][m[2]]; ok {
				t.Errorf("line %d: %q redefines an id", i+1, line)
			}
			defined[tb][m[2]] = m[3]
		}
	}
}

func TestZZEquivACallgrind(t *testing.T) {
	for _, callTree := range []bool{false, true} {
		for rep := 0; rep < 3; rep++ {
			got := zzEquivACallgrind(t, callTree)
			zzEquivACheckGrammar(t, got)
			if os.Getenv("ZZ_PRINT") != "" {
				fmt.Printf("GOLDEN callTree=%v: %q\n", callTree, got)
				break
			}
			if want := zzEquivAGolden[callTree]; got != want {
				t.Errorf("callTree=%v: callgrind output differs\n got: %q\nwant: %q", callTree, got, want)
			}
		}
	}
}

func TestZZEquivADisambiguatedNames(t *testing.T) {
	p1 := &graph.Node{Info: graph.NodeInfo{Name: "p\"1\""}}
	p2 := &graph.Node{Info: graph.NodeInfo{Name: "p<2>"}}
	p3 := &graph.Node{Info: graph.NodeInfo{Name: "p\\3\n"}}
	mk := func(name, file string, fn *graph.Node) *graph.Node {
		return &graph.Node{Info: graph.NodeInfo{Name: name, File: file}, Function: fn}
	}
	c := []*graph.Node{
		mk("c (1)", "f.go", p1), // 0: [1/3]
		mk("c (1)", "f.go", p2), // 1: [2/3]
		mk("c (1)", "g.go", p2), // 2: other file, alone
		mk("c (1)", "f.go", p1), // 3: [1/3]
		mk("c (1)", "f.go", p3), // 4: [3/3]
		mk("d\n", "f.go", nil),  // 5: [1/2] (nil Function is a value like any other)
		mk("d\n", "f.go", p3),   // 6: [2/2]
		mk("", "f.go", p1),      // 7: [1/2]
		mk("", "f.go", p2),      // 8: [2/2]
		mk("e [1/2]", "", p2),   // 9: alone
		mk("c (1)", "f.go", p2), // 10: [2/3]
	}
	want := []string{"c (1) [1/3]", "c (1) [2/3]", "c (1)", "c (1) [1/3]", "c (1) [3/3]",
		"d\n [1/2]", "d\n [2/2]", " [1/2]", " [2/2]", "e [1/2]", "c (1) [2/3]"}
	g := &graph.Graph{Nodes: append(graph.Nodes{p1, p2, p3}, c...)}
	names := getDisambiguatedNames(g)
	if len(names) != len(g.Nodes) {
		t.Errorf("got %d names, want %d", len(names), len(g.Nodes))
	}
	for _, p := range []*graph.Node{p1, p2, p3} {
		if names[p] != p.Info.Name {
			t.Errorf("name of %q: got %q", p.Info.Name, names[p])
		}
	}
	for i, n := range c {
		if names[n] != want[i] {
			t.Errorf("node %d: got %q, want %q", i, names[n], want[i])
		}
	}
}

// Outputs of the unchanged tree.
var zzEquivAGolden = map[bool]string{
	false: "positions: instr line\nevents: cpu(milliseconds)\n\nob=(1) /bin/a \"b\"\\c<d>\nfl=(1) dir/q\"uote.go\nfn=(1) leaf (1)\n0x1300 13 2110\ncfl=(2) dir/new line.go\ncfn=(2) ünï code\ncalls=0 0x1400 14\n* * 230\n\nob=(1)\nfl=(2)\nfn=(2)\n+256 14 350\ncfl=(3) other/file.go\ncfn=(1)\ncalls=0 +512 15\n* * 61\n\nob=(1)\nfl=(3)\nfn=(1)\n+256 15 94\n\nob=(1)\nfl=(4) main.go\nfn=(3) main\n-1280 10 17\ncfl=(5) dir/a b.cc\ncfn=(4) lib::f(\"x\")\ncalls=0 -1024 11\n* * 1530\ncfl=(5)\ncfn=(5) lib::g<int>\\n\ncalls=0 -768 12\n* * 991\ncfl=(3)\ncfn=(1)\ncalls=0 * 15\n* * 33\n\nob=(1)\nfl=(5)\nfn=(4)\n+256 11 0\ncfl=(1)\ncfn=(1)\ncalls=0 +768 13\n* * 1000\ncfl=(5)\ncfn=(5)\ncalls=0 +512 12\n* * 410\ncfl=(2)\ncfn=(2)\ncalls=0 +1024 14\n* * 120\n\nob=(1)\nfl=(5)\nfn=(5)\n+256 12 0\ncfl=(1)\ncfn=(1)\ncalls=0 +512 13\n* * 1340\ncfl=(2)\ncfn=(2)\ncalls=0 +768 14\n* * 61\n",
	true:  "positions: instr line\nevents: cpu(milliseconds)\n\nob=(1) /bin/a \"b\"\\c<d>\nfl=(1) dir/q\"uote.go\nfn=(1) leaf (1)\n0x1300 13 1000\n* 13 700\ncfl=(2) dir/new line.go\ncfn=(2) ünï code [1/3]\ncalls=0 +256 14\n* * 230\n* 13 410\n\nob=(1)\nfl=(2)\nfn=(3) ünï code\n+256 14 230\n* 14 120\n\nob=(1)\nfl=(3) other/file.go\nfn=(1)\n+256 15 61\n* 15 33\n\nob=(1)\nfl=(4) main.go\nfn=(4) main\n-1280 10 17\ncfl=(5) dir/a b.cc\ncfn=(5) lib::f(\"x\")\ncalls=0 -1024 11\n* * 1530\ncfl=(5)\ncfn=(6) lib::g<int>\\n [1/2]\ncalls=0 -768 12\n* * 991\ncfl=(3)\ncfn=(7) leaf (1) [2/2]\ncalls=0 * 15\n* * 33\n\nob=(1)\nfl=(5)\nfn=(5)\n+256 11 0\ncfl=(1)\ncfn=(8) leaf (1) [1/3]\ncalls=0 +768 13\n* * 1000\ncfl=(5)\ncfn=(9) lib::g<int>\\n [2/2]\ncalls=0 +512 12\n* * 410\ncfl=(2)\ncfn=(10) ünï code [2/3]\ncalls=0 +1024 14\n* * 120\n\nob=(1)\nfl=(5)\nfn=(11) lib::g<int>\\n\n+256 12 0\ncfl=(1)\ncfn=(12) leaf (1) [2/3]\ncalls=0 +512 13\n* * 930\ncfl=(2)\ncfn=(13) ünï code [3/3]\ncalls=0 +768 14\n* * 61\n* 12 0\ncfl=(1)\ncfn=(14) leaf (1) [3/3]\ncalls=0 +256 13\n* * 410\n\nob=(1)\nfl=(2)\nfn=(3)\n+512 14 0\ncfl=(3)\ncfn=(15) leaf (1) [1/2]\ncalls=0 +768 15\n* * 61\n",
}
