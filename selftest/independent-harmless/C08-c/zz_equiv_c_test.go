package profile

import (
	"bytes"
	"crypto/sha256"
	"fmt"
	"os"
	"path/filepath"
	"reflect"
	"sort"
	"strconv"
	"strings"
	"testing"
)

// zzLabelled builds a profile whose samples carry many text and
// numeric labels (held in maps), with strings that repeat across
// different kinds of fields, and ties in the sample values.
func zzLabelled() *Profile {
	m1 := &Mapping{ID: 1, Start: 0x1000, Limit: 0x4000, File: "/bin/app", BuildID: "app"}
	m2 := &Mapping{ID: 2, Start: 0x4000, Limit: 0x8000, File: "app", BuildID: ""}
	var fns []*Function
	for i, n := range []string{"main", "app", "work", "work", "bytes", ""} {
		fns = append(fns, &Function{ID: uint64(i + 1), Name: n, SystemName: "_" + n, Filename: "f" + strconv.Itoa(i%2) + ".go", StartLine: int64(i)})
	}
	var locs []*Location
	for i := 0; i < 6; i++ {
		m := m1
		if i%2 == 1 {
			m = m2
		}
		l := &Location{ID: uint64(i + 1), Mapping: m, Address: 0x1000 + uint64(i)*0x800, Line: []Line{{Function: fns[i], Line: int64(i + 1), Column: int64(i % 3)}}}
		if i == 3 {
			l.Line = append(l.Line, Line{Function: fns[0], Line: 99})
		}
		if i == 5 {
			l.Line = nil
			l.Mapping = nil
		}
		locs = append(locs, l)
	}
	p := &Profile{
		SampleType:        []*ValueType{{Type: "samples", Unit: "count"}, {Type: "cpu", Unit: "nanoseconds"}},
		DefaultSampleType: "cpu",
		PeriodType:        &ValueType{Type: "cpu", Unit: "nanoseconds"},
		Period:            100,
		TimeNanos:         12345,
		DurationNanos:     678,
		DropFrames:        "work|main",
		KeepFrames:        "main",
		DocURL:            "http://example.com/doc",
		Comments:          []string{"first", "count", "first", ""},
		Mapping:           []*Mapping{m1, m2},
		Function:          fns,
		Location:          locs,
	}
	for i := 0; i < 12; i++ {
		s := &Sample{
			Location: []*Location{locs[i%6], locs[(i+1)%6], locs[(i*5+2)%6]},
			Value:    []int64{int64(i%3 - 1), int64(1 - i%3)},
			Label:    map[string][]string{},
			NumLabel: map[string][]int64{},
			NumUnit:  map[string][]string{},
		}
		for k := 0; k < 9; k++ {
			key := "key" + strconv.Itoa((k*7+i)%11)
			s.Label[key] = []string{"v" + strconv.Itoa(k%4), "samples", "v" + strconv.Itoa((k+i)%5)}
			nkey := "n" + strconv.Itoa((k*5+i)%13)
			s.NumLabel[nkey] = []int64{int64(k + 1), int64(-k - 1), int64(i + 1)}
			if k%2 == 0 {
				s.NumUnit[nkey] = []string{"bytes", "", "unit" + strconv.Itoa(k)}
			}
		}
		s.Label["bytes"] = []string{"main"}
		s.NumLabel["bytes"] = []int64{8, 16}
		s.NumUnit["bytes"] = []string{"bytes", "kilobytes"}
		if i == 7 {
			s.Label, s.NumLabel, s.NumUnit = nil, nil, nil
		}
		p.Sample = append(p.Sample, s)
	}
	return p
}

func zzSHA(b []byte) string { return fmt.Sprintf("%x", sha256.Sum256(b)) }

// zzEncode serializes p and describes the result: the bytes of the
// uncompressed encoding, the string table they carry, and the text
// form of the profile decoded back from them.
func zzEncode(t *testing.T, p *Profile) string {
	t.Helper()
	var raw bytes.Buffer
	if err := p.WriteUncompressed(&raw); err != nil {
		t.Fatal(err)
	}
	// Serializing a second time, and serializing a copy, give the same bytes.
	var again, cp bytes.Buffer
	if err := p.WriteUncompressed(&again); err != nil {
		t.Fatal(err)
	}
	if err := p.Copy().WriteUncompressed(&cp); err != nil {
		t.Fatal(err)
	}
	if !bytes.Equal(raw.Bytes(), again.Bytes()) || !bytes.Equal(raw.Bytes(), cp.Bytes()) {
		t.Fatalf("re-serialization differs")
	}
	var gz bytes.Buffer
	if err := p.Write(&gz); err != nil {
		t.Fatal(err)
	}
	back, err := ParseData(gz.Bytes())
	if err != nil {
		t.Fatal(err)
	}
	back2, err := ParseData(raw.Bytes())
	if err != nil {
		t.Fatal(err)
	}
	if back.String() != back2.String() {
		t.Fatalf("gzip and raw decode differently")
	}
	// Pull the string table (field 6) out of the raw message.
	var table []string
	msg := &Profile{}
	if err := unmarshal(raw.Bytes(), &zzTableGrabber{msg, &table}); err != nil {
		t.Fatal(err)
	}
	return fmt.Sprintf("raw:%s len:%d strings:%s n:%d text:%s", zzSHA(raw.Bytes()), raw.Len(), zzSHA([]byte(strings.Join(table, "\x00"))), len(table), zzSHA([]byte(back.String())))
}

// zzTableGrabber decodes only the string table of a profile message.
type zzTableGrabber struct {
	p     *Profile
	table *[]string
}

func (g *zzTableGrabber) decoder() []decoder {
	d := make([]decoder, 16)
	d[6] = func(b *buffer, m message) error {
		return decodeStrings(b, m.(*zzTableGrabber).table)
	}
	return d
}
func (g *zzTableGrabber) encode(*buffer) {}

func zzResults(t *testing.T) map[string]string {
	res := map[string]string{}
	res["labelled"] = zzEncode(t, zzLabelled())
	res["empty"] = zzEncode(t, &Profile{})
	neg := zzLabelled()
	neg.Scale(-1)
	merged, err := Merge([]*Profile{zzLabelled(), neg, zzLabelled()})
	if err != nil {
		t.Fatal(err)
	}
	res["merged"] = zzEncode(t, merged)
	files, err := filepath.Glob("testdata/*")
	if err != nil {
		t.Fatal(err)
	}
	for _, f := range files {
		if strings.HasSuffix(f, ".string") {
			continue
		}
		data, err := os.ReadFile(f)
		if err != nil {
			continue
		}
		p, err := ParseData(data)
		if err != nil {
			continue
		}
		res[filepath.Base(f)] = zzEncode(t, p)
	}
	return res
}

var zzWant = map[string]string{
	"cppbench.contention":  "raw:1124ad5b895fda9c8fb63cdc628f1d411e92a0ff6873326ab2f4e35c3586c0cb len:1609 strings:2f0d78d86fc17084b220f060caacd36493592382785f4f0a960f126843891c10 n:18 text:a552baca08d20d75945171f9d1ff08f5f9df12a0d7099ce88c9b894358015552",
	"cppbench.cpu":         "raw:46f3e08345a1c09e96398048ab24df24f29c40e021e6c33d597e2fa8cea4a799 len:3062 strings:e21b6b39b9c831095fc76166535a45d4eca01ffa328d24ad9bb674ec92970a8c n:18 text:1757ba5db4e248e958088478f15e20d035ef4ff843c36e65b9911f8ce871abed",
	"cppbench.growth":      "raw:643cd0b7c9e88ed12c959b5c6e8a093a93d4f32c68c972dfcd665f3a897d086c len:4800 strings:6eb997ec532adef86c7e9ac852b8095b595d1a5d5938b2f4d4dd0cffb0a1a251 n:19 text:cfb5aa14ca713e2e66a1278966a75157666185a5bcd30f3c54f2ce188d0d0196",
	"cppbench.heap":        "raw:c4db2c74d65b63b159d3d0ba6c42911915aec4f675801269cf86465ec92e97f0 len:4139 strings:5e7a7619f1f4058ebf096f1d9657d74065c01743ba75a0c159ccd3e2675a8caa n:19 text:14b1cb108b2a7950645a883b69ee6cbf2b4efa341e32f90fa08a99b2d85f0343",
	"cppbench.thread":      "raw:c1a656b3a19ef10becb6021d7f7d50b7eab08488c388170d16b41d892aba8089 len:843 strings:19c0ec0b8a15aefad0c80edb17b3834c3dcd9faa6a09370a94e1ae65c383d8fc n:16 text:cb221c92f5ac42c3b245f2fc72dfa3273cc429288dfd35c218238f5526e843f6",
	"cppbench.thread.all":  "raw:ff81aa717c23a08d5899d2f5baadc72103f61d24419f18aa086bb4ddbf908423 len:778 strings:19c0ec0b8a15aefad0c80edb17b3834c3dcd9faa6a09370a94e1ae65c383d8fc n:16 text:3f7abc0a6fa6a9c98f6bb166e19e54654c518bc70ab622dfba481f85c6b72b31",
	"cppbench.thread.none": "raw:9d2b911ec49b22535fee918afee5b9c9a2b1b0db3fc6f9a6252f110b7baa9e16 len:1060 strings:7ae6b677ee0546cec03c1583c4a2a2cab702217a3ede10b613e70106df67ddfc n:16 text:b7ca0302b521ba0ed0ef72a04a35957763a1c2d657c2b852fbf4f9a7e3a2b332",
	"empty":                "raw:70467b4faccc7758505869b5f0c3727d61416bf457df7c7de868346274e8e3c9 len:4 strings:e3b0c44298fc1c149afbf4c8996fb92427ae41e4649b934ca495991b7852b855 n:1 text:d2b1b5346623a787c3b1722e03ff24d6a2e450eba3f140f5e32b81394d379c5b",
	"go.crc32.cpu":         "raw:a85f5d097e288a3c8873f1a2bc65604b0c885c15362670271fb54937e3de0a2f len:1405 strings:6765edaa9a3ff2566c11162e11707389b3cae16eaffaa1f73600d3807db9e78b n:6 text:7a6189c5490ed6aa3c083ced544c31d55c33e45a62909caa2481283068455a16",
	"go.godoc.thread":      "raw:c77fd72c254c94e9f1c7f80bc923d797d330fca67e998640fce03a9722b97758 len:471 strings:5e8d27dacc6e93c87a3519ea0db4ba1be835f429dbde97b08dc0a4ef21db49fd n:4 text:14c67d5a2513ae229b1a02b17b1d52b8394e0349b261603248638a2f3d0405fb",
	"gobench.cpu":          "raw:908d4ae45d7d39b6100d04cc7194b9214d012d596ab9493bf4b1ac551fd6e273 len:5597 strings:6765edaa9a3ff2566c11162e11707389b3cae16eaffaa1f73600d3807db9e78b n:6 text:1a781d6b2c8b89e0e9006baf1575489fecfd234291c278ed25360d6204ffecd9",
	"gobench.heap":         "raw:ae5dd0845c1403b10075acb2f2cc16c252478c9612140f78731409a12ee07b0c len:2537 strings:bf3210f773b9551d87ee7f401bc12c47c28465e39f40306bae1634baacbe50b4 n:10 text:3018ff844ac7ec6609e580c0b1a05df21fe1e6830a008689e705fd0851f9b78e",
	"java.contention":      "raw:d36540ee712a51c2ca0a56af993f9eeb51e8187cf454179b535629cd1d14163a len:2041 strings:338974a7e4d87036a3f7cf719faf1a8af51eeae8b6435cf35ac36e29a6bd1370 n:39 text:20a50f0fdd595761ee5053a957090d24b2a9030ff7f242dd004ccb6b1cd0331d",
	"java.cpu":             "raw:419c74a4a7396257b6f10f8ddbbebde0bda87ad827d72a343bfb267599e1ba30 len:3068 strings:f52bc7cf7b4818436a639744b93f2635eae87cd8f04d858604f914216593a097 n:71 text:1c543a46e4c5c6e758e6289036cd4481ea7419c3c607089f2074a19a136d61c6",
	"java.heap":            "raw:9f1cfab74c04bc4da5788a6146cee2595b69e0ea697b7a39a41c8d3231e18e7f len:8651 strings:1588d7a64bbd30c63259fd32ea4cdf48989173262820242ac5e24686d5bcc671 n:245 text:89b2b7ce523fbcea59dd07b2a7d48d2f9b74f9cfdc34141df54f604516f6e12c",
	"labelled":             "raw:36eb2ce6f0b5cc79e858c5270805eae4ea94e904e566fda22102e35a132780fd len:5708 strings:cbf6799b4b4ba4d474747999a4c435ce9b8b08514e60f6cb1e6d75157134287f n:55 text:7d00e0b06c3776a5bf1246d3f30d52cb2efb1a8d1206184e14b4094723fc2827",
	"merged":               "raw:46fad2286b6ab298edfed6094d5bf9e62223b958b9cddefdf629dcebca7fdaff len:4306 strings:5920dc9c4ff950233d98051e3219d2fdfe418c86b7451efb9f0f2febc2475166 n:54 text:4d099cd9cb246abee3694aa16976a2f4c313630d09b9feb3dc9c360aac417a14",
}

func TestZZEquivC(t *testing.T) {
	if out := os.Getenv("ZZ_EQUIV_C_RECORD"); out != "" {
		res := zzResults(t)
		var keys []string
		for k := range res {
			keys = append(keys, k)
		}
		sort.Strings(keys)
		var b strings.Builder
		for _, k := range keys {
			fmt.Fprintf(&b, "\t%q: %q,\n", k, res[k])
		}
		os.WriteFile(out, []byte(b.String()), 0644)
		return
	}
	if len(zzWant) < 10 {
		t.Fatalf("only %d expectations", len(zzWant))
	}
	for run := 0; run < 5; run++ {
		if got := zzResults(t); !reflect.DeepEqual(got, zzWant) {
			for k, w := range zzWant {
				if got[k] != w {
					t.Errorf("run %d %s:\n got %s\nwant %s", run, k, got[k], w)
				}
			}
			t.Fatalf("run %d: got %d results, want %d", run, len(got), len(zzWant))
		}
	}
}
