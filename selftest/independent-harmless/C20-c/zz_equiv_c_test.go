package driver

import (
	"fmt"
	"sort"
	"strconv"
	"strings"
	"sync"
	"testing"
	"time"

	"github.com/google/pprof/internal/plugin"
	"github.com/google/pprof/profile"
)

// Equivalence demonstration for change C (fetch.go). The expected digests were
// computed on the unchanged tree and hard-coded.

type zzUI struct {
	mu   sync.Mutex
	errs []string
}

func (u *zzUI) ReadLine(string) (string, error) { return "", fmt.Errorf("no input") }
func (u *zzUI) Print(...interface{})            {}
func (u *zzUI) PrintErr(args ...interface{}) {
	u.mu.Lock()
	u.errs = append(u.errs, fmt.Sprint(args...))
	u.mu.Unlock()
}
func (u *zzUI) IsTerminal() bool                    { return false }
func (u *zzUI) WantBrowser() bool                   { return false }
func (u *zzUI) SetAutoComplete(func(string) string) {}

type zzObj struct{}

func (zzObj) Open(file string, start, limit, offset uint64, relocationSymbol string) (plugin.ObjFile, error) {
	return nil, fmt.Errorf("not found: %s", file)
}
func (zzObj) Disasm(string, uint64, uint64, bool) ([]plugin.Inst, error) { return nil, nil }

// zzProfile builds a small valid profile determined by n.
func zzProfile(n int, altTypes bool) *profile.Profile {
	m := &profile.Mapping{
		ID: 1, Start: uint64(0x1000 * (n%2 + 1)), Limit: uint64(0x1000*(n%2+1) + 0x800),
		File: fmt.Sprintf("/bin/app%d", n%2), BuildID: fmt.Sprintf("bid%d", n%2),
		HasFunctions: true,
	}
	fc := &profile.Function{ID: 1, Name: "common", SystemName: "common", Filename: "common.go"}
	fn := &profile.Function{ID: 2, Name: fmt.Sprintf("fn%d", n%4), SystemName: fmt.Sprintf("fn%d", n%4), Filename: "fn.go"}
	lc := &profile.Location{ID: 1, Mapping: m, Address: m.Start + 0x10, Line: []profile.Line{{Function: fc, Line: 7}}}
	ln := &profile.Location{ID: 2, Mapping: m, Address: m.Start + 0x20 + uint64(n%4), Line: []profile.Line{{Function: fn, Line: int64(10 + n%4)}}}
	st := []*profile.ValueType{{Type: "samples", Unit: "count"}, {Type: "cpu", Unit: "nanoseconds"}}
	if altTypes {
		st = []*profile.ValueType{{Type: "objects", Unit: "count"}, {Type: "space", Unit: "bytes"}}
	}
	return &profile.Profile{
		SampleType: st,
		PeriodType: &profile.ValueType{Type: "cpu", Unit: "nanoseconds"},
		Period:     1000,
		Sample: []*profile.Sample{
			{Location: []*profile.Location{ln, lc}, Value: []int64{int64(n + 1), int64((n + 1) * 10)}},
			{Location: []*profile.Location{lc}, Value: []int64{1, 100}},
		},
		Location: []*profile.Location{lc, ln},
		Function: []*profile.Function{fc, fn},
		Mapping:  []*profile.Mapping{m},
	}
}

// zzFetcher understands source names of the form <kind><n>:
//
//	l<n>  local profile n       r<n>  remote profile n
//	e<n>  fetch error           a<n>  local profile with other sample types
//
// If barrier > 0, every Fetch blocks until barrier fetches are in flight at
// the same time (or fails after a timeout).
type zzFetcher struct {
	barrier int
	mu      sync.Mutex
	inside  int
	release chan struct{}
	calls   []string
}

func (f *zzFetcher) Fetch(src string, duration, timeout time.Duration) (*profile.Profile, string, error) {
	f.mu.Lock()
	f.calls = append(f.calls, src)
	if f.barrier > 0 {
		f.inside++
		if f.inside == f.barrier {
			close(f.release)
		}
	}
	f.mu.Unlock()
	if f.barrier > 0 {
		select {
		case <-f.release:
		case <-time.After(10 * time.Second):
			return nil, "", fmt.Errorf("barrier timeout: fetches are not concurrent")
		}
	}
	n, err := strconv.Atoi(src[1:])
	if err != nil {
		return nil, "", err
	}
	switch src[0] {
	case 'l':
		return zzProfile(n, false), "", nil
	case 'r':
		return zzProfile(n, false), "http://remote.example/" + src, nil
	case 'a':
		return zzProfile(n, true), "", nil
	}
	return nil, "", fmt.Errorf("cannot fetch %s", src)
}

func zzDigestProfile(p *profile.Profile) string {
	if p == nil {
		return "<nil>"
	}
	var types []string
	for _, st := range p.SampleType {
		types = append(types, st.Type+"/"+st.Unit)
	}
	var samples []string
	for _, s := range p.Sample {
		var stack []string
		for _, l := range s.Location {
			for _, ln := range l.Line {
				stack = append(stack, fmt.Sprintf("%s:%d", ln.Function.Name, ln.Line))
			}
		}
		samples = append(samples, fmt.Sprintf("%s@%s=%v", strings.Join(stack, ";"), l0file(s), s.Value))
	}
	// Keep the sample order: it is part of the observable merge result.
	var maps []string
	for _, m := range p.Mapping {
		maps = append(maps, fmt.Sprintf("%d:%s:%s:%x", m.ID, m.File, m.BuildID, m.Start))
	}
	return fmt.Sprintf("types=%v samples=%v maps=%v nloc=%d nfn=%d", types, samples, maps, len(p.Location), len(p.Function))
}

func l0file(s *profile.Sample) string {
	if len(s.Location) == 0 || s.Location[0].Mapping == nil {
		return "?"
	}
	return s.Location[0].Mapping.File
}

func zzDigestMsrc(ms plugin.MappingSources) string {
	if ms == nil {
		return "<nil>"
	}
	var keys []string
	for k := range ms {
		keys = append(keys, k)
	}
	sort.Strings(keys)
	var out []string
	for _, k := range keys {
		var v []string
		for _, e := range ms[k] {
			v = append(v, fmt.Sprintf("%s@%x", e.Source, e.Start))
		}
		out = append(out, k+"=["+strings.Join(v, ",")+"]")
	}
	return strings.Join(out, " ")
}

func zzSources(names ...string) []profileSource {
	s := &source{}
	var out []profileSource
	for _, n := range names {
		out = append(out, profileSource{addr: n, source: s})
	}
	return out
}

func zzRange(kind string, from, to int) []string {
	var out []string
	for i := from; i < to; i++ {
		out = append(out, kind+strconv.Itoa(i))
	}
	return out
}

func zzRun(sources, bases []string, barrier int) string {
	ui := &zzUI{}
	f := &zzFetcher{barrier: barrier, release: make(chan struct{})}
	srcs, bs := zzSources(sources...), zzSources(bases...)
	p, pb, m, mb, save, err := grabSourcesAndBases(srcs, bs, f, zzObj{}, ui, nil)
	sort.Strings(ui.errs)
	sort.Strings(f.calls)
	var leftovers int
	for _, s := range append(srcs, bs...) {
		if s.p != nil {
			leftovers++
		}
	}
	errs := ui.errs
	calls := strings.Join(f.calls, ",")
	if len(calls) > 80 {
		calls = fmt.Sprintf("%d calls %s...%s", len(f.calls), f.calls[0], f.calls[len(f.calls)-1])
	}
	return fmt.Sprintf("err=%v\nsave=%v\nsrc: %s\nbase: %s\nmsrc: %s\nmbase: %s\nui=%q\ncalls=%s leftovers=%d",
		err, save, zzDigestProfile(p), zzDigestProfile(pb), zzDigestMsrc(m), zzDigestMsrc(mb), errs, calls, leftovers)
}

func TestZZEquivCGrab(t *testing.T) {
	big := append(zzRange("l", 0, 100), "e100", "r101")
	big = append(big, zzRange("l", 102, 131)...)
	cases := []struct {
		name           string
		sources, bases []string
		barrier        int
	}{
		{"three-local", []string{"l0", "l1", "l2"}, nil, 0},
		{"one-source", []string{"l5"}, nil, 0},
		{"one-remote-one-base", []string{"r3"}, []string{"l3"}, 0},
		{"mixed-with-errors", []string{"l0", "e1", "r2", "l3", "l4"}, []string{"r6", "e7", "l8"}, 0},
		{"all-sources-fail", []string{"e0", "e1"}, []string{"l2"}, 0},
		{"all-bases-fail", []string{"l0", "l1"}, []string{"e2", "e3"}, 0},
		{"nothing", nil, nil, 0},
		{"incompatible-sources", []string{"l0", "a1"}, []string{"l2"}, 0},
		{"incompatible-bases", []string{"l0"}, []string{"l1", "a2"}, 0},
		{"two-chunks", big, []string{"l1", "r2", "l3"}, 0},
		{"barrier-7", []string{"l0", "l1", "r2", "l3"}, []string{"l4", "l5", "l6"}, 7},
		{"barrier-2", []string{"l0"}, []string{"l1"}, 2},
		{"barrier-5-nobase", []string{"l0", "l1", "l2", "l3", "l4"}, nil, 5},
	}
	for _, c := range cases {
		got := zzRun(c.sources, c.bases, c.barrier)
		if testing.Verbose() {
			fmt.Printf("\t%q: %q,\n", c.name, got)
		}
		want, ok := zzWantC[c.name]
		if !ok {
			t.Errorf("no expectation for %s; got:\n%s", c.name, got)
			continue
		}
		if got != want {
			t.Errorf("%s:\n--- got\n%s\n--- want\n%s", c.name, got, want)
		}
		// Running the same thing again must give the same answer.
		if again := zzRun(c.sources, c.bases, c.barrier); again != got {
			t.Errorf("%s: not repeatable:\n%s\n---\n%s", c.name, got, again)
		}
	}
}

// Many grabs at once, as happens when several tool instances share a process.
func TestZZEquivCGrabParallelCallers(t *testing.T) {
	want := zzRun([]string{"l0", "e1", "r2", "l3", "l4"}, []string{"r6", "e7", "l8"}, 0)
	if want != zzWantC["mixed-with-errors"] {
		t.Fatalf("unexpected baseline:\n%s", want)
	}
	var wg sync.WaitGroup
	for i := 0; i < 8; i++ {
		wg.Add(1)
		go func() {
			defer wg.Done()
			for j := 0; j < 5; j++ {
				if got := zzRun([]string{"l0", "e1", "r2", "l3", "l4"}, []string{"r6", "e7", "l8"}, 0); got != want {
					t.Errorf("got\n%s\nwant\n%s", got, want)
				}
			}
		}()
	}
	wg.Wait()
}

var zzWantC = map[string]string{
	"three-local":          "err=<nil>\nsave=false\nsrc: types=[samples/count cpu/nanoseconds] samples=[fn0:10;common:7@/bin/app0=[1 10] common:7@/bin/app0=[2 200] fn1:11;common:7@/bin/app1=[2 20] common:7@/bin/app1=[1 100] fn2:12;common:7@/bin/app0=[3 30]] maps=[1:/bin/app0:bid0:1000 2:/bin/app1:bid1:2000] nloc=5 nfn=4\nbase: <nil>\nmsrc: \nmbase: <nil>\nui=[]\ncalls=l0,l1,l2 leftovers=0",
	"one-source":           "err=<nil>\nsave=false\nsrc: types=[samples/count cpu/nanoseconds] samples=[fn1:11;common:7@/bin/app1=[6 60] common:7@/bin/app1=[1 100]] maps=[1:/bin/app1:bid1:2000] nloc=2 nfn=2\nbase: <nil>\nmsrc: <nil>\nmbase: <nil>\nui=[]\ncalls=l5 leftovers=0",
	"one-remote-one-base":  "err=<nil>\nsave=true\nsrc: types=[samples/count cpu/nanoseconds] samples=[fn3:13;common:7@/bin/app1=[4 40] common:7@/bin/app1=[1 100]] maps=[1:/bin/app1:bid1:2000] nloc=2 nfn=2\nbase: types=[samples/count cpu/nanoseconds] samples=[fn3:13;common:7@/bin/app1=[4 40] common:7@/bin/app1=[1 100]] maps=[1:/bin/app1:bid1:2000] nloc=2 nfn=2\nmsrc: bid1=[http://remote.example/r3@2000]\nmbase: <nil>\nui=[]\ncalls=l3,r3 leftovers=0",
	"mixed-with-errors":    "err=<nil>\nsave=true\nsrc: types=[samples/count cpu/nanoseconds] samples=[fn0:10;common:7@/bin/app0=[6 60] common:7@/bin/app0=[3 300] fn2:12;common:7@/bin/app0=[3 30] fn3:13;common:7@/bin/app1=[4 40] common:7@/bin/app1=[1 100]] maps=[1:/bin/app0:bid0:1000 2:/bin/app1:bid1:2000] nloc=5 nfn=4\nbase: types=[samples/count cpu/nanoseconds] samples=[fn2:12;common:7@/bin/app0=[7 70] common:7@/bin/app0=[2 200] fn0:10;common:7@/bin/app0=[9 90]] maps=[1:/bin/app0:bid0:1000] nloc=3 nfn=3\nmsrc: bid0=[http://remote.example/r2@1000]\nmbase: bid0=[http://remote.example/r6@1000]\nui=[\"Fetched 2 base profiles out of 3\" \"Fetched 4 source profiles out of 5\" \"e1: cannot fetch e1\" \"e7: cannot fetch e7\"]\ncalls=e1,e7,l0,l3,l4,l8,r2,r6 leftovers=0",
	"all-sources-fail":     "err=failed to fetch any source profiles\nsave=false\nsrc: <nil>\nbase: <nil>\nmsrc: <nil>\nmbase: <nil>\nui=[\"e0: cannot fetch e0\" \"e1: cannot fetch e1\"]\ncalls=e0,e1,l2 leftovers=0",
	"all-bases-fail":       "err=failed to fetch any base profiles\nsave=false\nsrc: <nil>\nbase: <nil>\nmsrc: <nil>\nmbase: <nil>\nui=[\"e2: cannot fetch e2\" \"e3: cannot fetch e3\"]\ncalls=e2,e3,l0,l1 leftovers=0",
	"nothing":              "err=failed to fetch any source profiles\nsave=false\nsrc: <nil>\nbase: <nil>\nmsrc: <nil>\nmbase: <nil>\nui=[]\ncalls= leftovers=0",
	"incompatible-sources": "err=problem fetching source profiles: profiles have empty common sample type list\nsave=false\nsrc: <nil>\nbase: <nil>\nmsrc: <nil>\nmbase: <nil>\nui=[]\ncalls=a1,l0,l2 leftovers=0",
	"incompatible-bases":   "err=problem fetching base profiles: profiles have empty common sample type list,\nsave=false\nsrc: <nil>\nbase: <nil>\nmsrc: <nil>\nmbase: <nil>\nui=[]\ncalls=a2,l0,l1 leftovers=0",
	"two-chunks":           "err=<nil>\nsave=true\nsrc: types=[samples/count cpu/nanoseconds] samples=[fn0:10;common:7@/bin/app0=[2044 20440] common:7@/bin/app0=[65 6500] fn1:11;common:7@/bin/app1=[2178 21780] common:7@/bin/app1=[65 6500] fn2:12;common:7@/bin/app0=[2211 22110] fn3:13;common:7@/bin/app1=[2112 21120]] maps=[1:/bin/app0:bid0:1000 2:/bin/app1:bid1:2000] nloc=6 nfn=5\nbase: types=[samples/count cpu/nanoseconds] samples=[fn1:11;common:7@/bin/app1=[2 20] common:7@/bin/app1=[2 200] fn2:12;common:7@/bin/app0=[3 30] common:7@/bin/app0=[1 100] fn3:13;common:7@/bin/app1=[4 40]] maps=[1:/bin/app1:bid1:2000 2:/bin/app0:bid0:1000] nloc=5 nfn=4\nmsrc: bid1=[http://remote.example/r101@2000]\nmbase: bid0=[http://remote.example/r2@1000]\nui=[\"Fetched 130 source profiles out of 131\" \"e100: cannot fetch e100\"]\ncalls=134 calls e100...r2 leftovers=0",
	"barrier-7":            "err=<nil>\nsave=true\nsrc: types=[samples/count cpu/nanoseconds] samples=[fn0:10;common:7@/bin/app0=[1 10] common:7@/bin/app0=[2 200] fn1:11;common:7@/bin/app1=[2 20] common:7@/bin/app1=[2 200] fn2:12;common:7@/bin/app0=[3 30] fn3:13;common:7@/bin/app1=[4 40]] maps=[1:/bin/app0:bid0:1000 2:/bin/app1:bid1:2000] nloc=6 nfn=5\nbase: types=[samples/count cpu/nanoseconds] samples=[fn0:10;common:7@/bin/app0=[5 50] common:7@/bin/app0=[2 200] fn1:11;common:7@/bin/app1=[6 60] common:7@/bin/app1=[1 100] fn2:12;common:7@/bin/app0=[7 70]] maps=[1:/bin/app0:bid0:1000 2:/bin/app1:bid1:2000] nloc=5 nfn=4\nmsrc: bid0=[http://remote.example/r2@1000]\nmbase: \nui=[]\ncalls=l0,l1,l3,l4,l5,l6,r2 leftovers=0",
	"barrier-2":            "err=<nil>\nsave=false\nsrc: types=[samples/count cpu/nanoseconds] samples=[fn0:10;common:7@/bin/app0=[1 10] common:7@/bin/app0=[1 100]] maps=[1:/bin/app0:bid0:1000] nloc=2 nfn=2\nbase: types=[samples/count cpu/nanoseconds] samples=[fn1:11;common:7@/bin/app1=[2 20] common:7@/bin/app1=[1 100]] maps=[1:/bin/app1:bid1:2000] nloc=2 nfn=2\nmsrc: <nil>\nmbase: <nil>\nui=[]\ncalls=l0,l1 leftovers=0",
	"barrier-5-nobase":     "err=<nil>\nsave=false\nsrc: types=[samples/count cpu/nanoseconds] samples=[fn0:10;common:7@/bin/app0=[6 60] common:7@/bin/app0=[3 300] fn1:11;common:7@/bin/app1=[2 20] common:7@/bin/app1=[2 200] fn2:12;common:7@/bin/app0=[3 30] fn3:13;common:7@/bin/app1=[4 40]] maps=[1:/bin/app0:bid0:1000 2:/bin/app1:bid1:2000] nloc=6 nfn=5\nbase: <nil>\nmsrc: \nmbase: <nil>\nui=[]\ncalls=l0,l1,l2,l3,l4 leftovers=0",
}
