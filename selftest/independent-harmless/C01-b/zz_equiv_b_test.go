package profile

// Equivalence demonstration for a behaviour-preserving change (property C01:
// profile serialization round-trips without loss). The golden hashes below
// were computed on the UNCHANGED tree; the test must pass both with and
// without the patch. Set EQUIV_PRINT=1 to print the observed values.

import (
	"bytes"
	"crypto/sha256"
	"encoding/hex"
	"fmt"
	"math"
	"os"
	"path/filepath"
	"sort"
	"strings"
	"testing"
)

type rngEqB struct{ s uint64 }

func (r *rngEqB) next() uint64 {
	r.s += 0x9e3779b97f4a7c15
	z := r.s
	z = (z ^ (z >> 30)) * 0xbf58476d1ce4e5b9
	z = (z ^ (z >> 27)) * 0x94d049bb133111eb
	return z ^ (z >> 31)
}

func (r *rngEqB) intn(n int) int { return int(r.next() % uint64(n)) }

var strPoolEqB = []string{
	"", "a", "cpu", "nanoseconds", "\xff\xfe\x80", "日本語", "x\x00y",
	"[kernel.kallsyms]_stext", "/usr/lib/libc.so.6", "main.main", "bytes",
	strings.Repeat("long/", 60), "key", "unit", "https://example.com/doc?x=1",
}

var valPoolEqB = []int64{
	0, 1, -1, 2, 127, 128, -128, 16383, 16384, 1 << 35, -(1 << 35),
	math.MaxInt64, math.MinInt64, math.MaxInt32, math.MinInt32,
}

func (r *rngEqB) str() string { return strPoolEqB[r.intn(len(strPoolEqB))] }
func (r *rngEqB) val() int64  { return valPoolEqB[r.intn(len(valPoolEqB))] }
func (r *rngEqB) u64() uint64 {
	switch r.intn(4) {
	case 0:
		return 0
	case 1:
		return uint64(r.intn(300))
	case 2:
		return math.MaxUint64 - uint64(r.intn(3))
	}
	return r.next()
}

// ids returns n distinct non-zero ids mixing small/dense, boundary and
// sparse/huge values.
func (r *rngEqB) ids(n int) []uint64 {
	seen := map[uint64]bool{0: true}
	var out []uint64
	for len(out) < n {
		var id uint64
		switch r.intn(5) {
		case 0:
			id = uint64(len(out) + 1)
		case 1:
			id = uint64(n + r.intn(3)) // around the dense/sparse boundary
		case 2:
			id = uint64(1 + r.intn(2*n+2))
		case 3:
			id = math.MaxUint64 - uint64(r.intn(4))
		default:
			id = 1<<40 + r.next()>>20
		}
		if seen[id] {
			continue
		}
		seen[id] = true
		out = append(out, id)
	}
	return out
}

func genProfileEqB(seed uint64) *Profile {
	r := &rngEqB{s: seed * 7919}
	p := &Profile{}
	nST := r.intn(4)
	for i := 0; i < nST; i++ {
		p.SampleType = append(p.SampleType, &ValueType{Type: r.str(), Unit: r.str()})
	}
	for _, id := range r.ids(r.intn(4)) {
		p.Mapping = append(p.Mapping, &Mapping{
			ID: id, Start: r.u64(), Limit: r.u64(), Offset: r.u64(),
			File: r.str(), BuildID: r.str(),
			HasFunctions: r.intn(2) == 0, HasFilenames: r.intn(2) == 0,
			HasLineNumbers: r.intn(2) == 0, HasInlineFrames: r.intn(2) == 0,
		})
	}
	for _, id := range r.ids(r.intn(6)) {
		p.Function = append(p.Function, &Function{
			ID: id, Name: r.str(), SystemName: r.str(), Filename: r.str(), StartLine: r.val(),
		})
	}
	for _, id := range r.ids(r.intn(7)) {
		l := &Location{ID: id, Address: r.u64(), IsFolded: r.intn(3) == 0}
		if len(p.Mapping) > 0 && r.intn(3) != 0 {
			l.Mapping = p.Mapping[r.intn(len(p.Mapping))]
		}
		if len(p.Function) > 0 {
			for j, n := 0, r.intn(4); j < n; j++ {
				l.Line = append(l.Line, Line{
					Function: p.Function[r.intn(len(p.Function))],
					Line:     r.val(), Column: r.val(),
				})
			}
		}
		p.Location = append(p.Location, l)
	}
	if nST > 0 {
		for i, n := 0, r.intn(6); i < n; i++ {
			s := &Sample{}
			if len(p.Location) > 0 {
				for j, k := 0, r.intn(6); j < k; j++ {
					s.Location = append(s.Location, p.Location[r.intn(len(p.Location))])
				}
			}
			for j := 0; j < nST; j++ {
				s.Value = append(s.Value, r.val())
			}
			for j, k := 0, r.intn(3); j < k; j++ {
				if s.Label == nil {
					s.Label = map[string][]string{}
				}
				key := r.str()
				for v, nv := 0, 1+r.intn(3); v < nv; v++ {
					s.Label[key] = append(s.Label[key], r.str())
				}
			}
			for j, k := 0, r.intn(3); j < k; j++ {
				if s.NumLabel == nil {
					s.NumLabel = map[string][]int64{}
					s.NumUnit = map[string][]string{}
				}
				key := r.str()
				if _, dup := s.NumLabel[key]; dup {
					continue
				}
				nv := 1 + r.intn(4)
				withUnits := r.intn(2) == 0
				for v := 0; v < nv; v++ {
					s.NumLabel[key] = append(s.NumLabel[key], r.val())
					if withUnits {
						u := ""
						if r.intn(3) != 0 {
							u = r.str()
						}
						s.NumUnit[key] = append(s.NumUnit[key], u)
					}
				}
			}
			p.Sample = append(p.Sample, s)
		}
	}
	p.DropFrames, p.KeepFrames = r.str(), r.str()
	p.TimeNanos, p.DurationNanos, p.Period = r.val(), r.val(), r.val()
	switch r.intn(3) {
	case 0:
		p.PeriodType = &ValueType{}
	case 1:
		p.PeriodType = &ValueType{Type: r.str(), Unit: r.str()}
	}
	for i, n := 0, r.intn(5); i < n; i++ {
		p.Comments = append(p.Comments, r.str())
	}
	p.DefaultSampleType, p.DocURL = r.str(), r.str()
	return p
}

// dumpEqB renders every exported field of p; it is nil-safe and shows
// pointer sharing through table indices.
func dumpEqB(p *Profile) string {
	var b strings.Builder
	mi := map[*Mapping]int{}
	fi := map[*Function]int{}
	li := map[*Location]int{}
	for i, st := range p.SampleType {
		fmt.Fprintf(&b, "st%d %q %q\n", i, st.Type, st.Unit)
	}
	for i, m := range p.Mapping {
		mi[m] = i
		fmt.Fprintf(&b, "m%d id=%d %d %d %d %q %q %v %v %v %v krs=%q\n", i, m.ID, m.Start, m.Limit, m.Offset,
			m.File, m.BuildID, m.HasFunctions, m.HasFilenames, m.HasLineNumbers, m.HasInlineFrames, m.KernelRelocationSymbol)
	}
	for i, f := range p.Function {
		fi[f] = i
		fmt.Fprintf(&b, "f%d id=%d %q %q %q %d\n", i, f.ID, f.Name, f.SystemName, f.Filename, f.StartLine)
	}
	for i, l := range p.Location {
		li[l] = i
		fmt.Fprintf(&b, "l%d id=%d addr=%d folded=%v", i, l.ID, l.Address, l.IsFolded)
		if l.Mapping == nil {
			b.WriteString(" m=nil")
		} else if ix, ok := mi[l.Mapping]; ok {
			fmt.Fprintf(&b, " m=#%d", ix)
		} else {
			fmt.Fprintf(&b, " m=?%d", l.Mapping.ID)
		}
		fmt.Fprintf(&b, " nlines=%d(nil=%v)", len(l.Line), l.Line == nil)
		for _, ln := range l.Line {
			if ln.Function == nil {
				fmt.Fprintf(&b, " [nil %d %d]", ln.Line, ln.Column)
			} else if ix, ok := fi[ln.Function]; ok {
				fmt.Fprintf(&b, " [#%d %d %d]", ix, ln.Line, ln.Column)
			} else {
				fmt.Fprintf(&b, " [?%d %d %d]", ln.Function.ID, ln.Line, ln.Column)
			}
		}
		b.WriteString("\n")
	}
	for i, s := range p.Sample {
		fmt.Fprintf(&b, "s%d v=%v loc=", i, s.Value)
		for _, l := range s.Location {
			if l == nil {
				b.WriteString("nil,")
			} else if ix, ok := li[l]; ok {
				fmt.Fprintf(&b, "#%d,", ix)
			} else {
				fmt.Fprintf(&b, "?%d,", l.ID)
			}
		}
		var ks []string
		for k := range s.Label {
			ks = append(ks, k)
		}
		sort.Strings(ks)
		fmt.Fprintf(&b, " label(nil=%v)", s.Label == nil)
		for _, k := range ks {
			fmt.Fprintf(&b, " %q=%q", k, s.Label[k])
		}
		ks = nil
		for k := range s.NumLabel {
			ks = append(ks, k)
		}
		sort.Strings(ks)
		fmt.Fprintf(&b, " num(nil=%v)", s.NumLabel == nil)
		for _, k := range ks {
			fmt.Fprintf(&b, " %q=%v", k, s.NumLabel[k])
		}
		ks = nil
		for k := range s.NumUnit {
			ks = append(ks, k)
		}
		sort.Strings(ks)
		fmt.Fprintf(&b, " unit(nil=%v)", s.NumUnit == nil)
		for _, k := range ks {
			fmt.Fprintf(&b, " %q=%q", k, s.NumUnit[k])
		}
		b.WriteString("\n")
	}
	fmt.Fprintf(&b, "drop=%q keep=%q t=%d d=%d period=%d", p.DropFrames, p.KeepFrames, p.TimeNanos, p.DurationNanos, p.Period)
	if p.PeriodType == nil {
		b.WriteString(" pt=nil")
	} else {
		fmt.Fprintf(&b, " pt=%q/%q", p.PeriodType.Type, p.PeriodType.Unit)
	}
	fmt.Fprintf(&b, " comments=%q dst=%q doc=%q\n", p.Comments, p.DefaultSampleType, p.DocURL)
	return b.String()
}

func hashEqB(parts ...[]byte) string {
	h := sha256.New()
	for _, p := range parts {
		fmt.Fprintf(h, "%d:", len(p))
		h.Write(p)
	}
	return hex.EncodeToString(h.Sum(nil))[:16]
}

func checkGoldenEqB(t *testing.T, name string, got, want []string) {
	t.Helper()
	if os.Getenv("EQUIV_PRINT") != "" {
		fmt.Printf("var %s = []string{\n", name)
		for _, g := range got {
			fmt.Printf("\t%q,\n", g)
		}
		fmt.Printf("}\n")
		return
	}
	if len(got) != len(want) {
		t.Fatalf("%s: got %d entries, want %d", name, len(got), len(want))
	}
	for i := range got {
		if got[i] != want[i] {
			t.Errorf("%s[%d]: got %s, want %s", name, i, got[i], want[i])
		}
	}
}

// roundTripEqB writes p, parses it back, re-writes and re-parses, and checks
// the fixed-point requirements of the property. It returns a digest of the
// first encoding, the re-encoding and the parsed profile.
func roundTripEqB(t *testing.T, what string, p *Profile) string {
	t.Helper()
	b1 := serialize(p)
	p2, err := ParseUncompressed(b1)
	if err != nil {
		t.Fatalf("%s: parse(write(p)): %v", what, err)
	}
	if err := p2.CheckValid(); err != nil {
		t.Fatalf("%s: parsed profile invalid: %v", what, err)
	}
	d2 := dumpEqB(p2)
	b2 := serialize(p2)
	p3, err := ParseUncompressed(b2)
	if err != nil {
		t.Fatalf("%s: parse(write(parse(write(p)))): %v", what, err)
	}
	if d3 := dumpEqB(p3); d3 != d2 {
		t.Errorf("%s: parsed profile does not survive write-then-parse:\n%s\nvs\n%s", what, d2, d3)
	}
	if b3 := serialize(p3); !bytes.Equal(b2, b3) {
		t.Errorf("%s: re-serialization is not byte identical", what)
	}
	// Compressed path.
	var zbuf bytes.Buffer
	if err := p.Write(&zbuf); err != nil {
		t.Fatalf("%s: Write: %v", what, err)
	}
	if len(b1) > 0 {
		pz, err := ParseData(zbuf.Bytes())
		if err != nil {
			t.Fatalf("%s: ParseData(gz): %v", what, err)
		}
		if dz := dumpEqB(pz); dz != d2 {
			t.Errorf("%s: compressed and uncompressed round trips differ", what)
		}
	}
	return hashEqB(b1, b2, []byte(d2))
}

func TestEquivGeneratedEqB(t *testing.T) {
	var got []string
	for seed := uint64(1); seed <= 60; seed++ {
		p := genProfileEqB(seed)
		if err := p.CheckValid(); err != nil {
			t.Fatalf("seed %d: generator produced invalid profile: %v", seed, err)
		}
		got = append(got, roundTripEqB(t, fmt.Sprintf("seed %d", seed), p))
	}
	checkGoldenEqB(t, "goldenGeneratedEqB", got, goldenGeneratedEqB)
}

func TestEquivTestdataEqB(t *testing.T) {
	files, err := filepath.Glob(filepath.Join("testdata", "*"))
	if err != nil || len(files) == 0 {
		t.Fatalf("no testdata: %v", err)
	}
	sort.Strings(files)
	var got []string
	for _, f := range files {
		if strings.HasSuffix(f, ".string") {
			continue
		}
		data, err := os.ReadFile(f)
		if err != nil {
			t.Fatal(err)
		}
		p, err := ParseData(data)
		if err != nil {
			t.Fatalf("%s: %v", f, err)
		}
		got = append(got, filepath.Base(f)+":"+roundTripEqB(t, f, p))
	}
	checkGoldenEqB(t, "goldenTestdataEqB", got, goldenTestdataEqB)
}

// --- specific to change B: string table construction in preEncode ---

func TestEquivStringTableEqB(t *testing.T) {
	var got []string
	for seed := uint64(1); seed <= 25; seed++ {
		p := genProfileEqB(seed)
		p.preEncode()
		var idx []int64
		for _, st := range p.SampleType {
			idx = append(idx, st.typeX, st.unitX)
		}
		for _, s := range p.Sample {
			for _, l := range s.labelX {
				idx = append(idx, l.keyX, l.strX, l.numX, l.unitX)
			}
		}
		for _, m := range p.Mapping {
			idx = append(idx, m.fileX, m.buildIDX)
		}
		for _, f := range p.Function {
			idx = append(idx, f.nameX, f.systemNameX, f.filenameX)
		}
		idx = append(idx, p.dropFramesX, p.keepFramesX, p.defaultSampleTypeX, p.docURLX)
		if p.PeriodType != nil {
			idx = append(idx, p.PeriodType.typeX, p.PeriodType.unitX)
		}
		idx = append(idx, p.commentX...)
		if len(p.stringTable) == 0 || p.stringTable[0] != "" {
			t.Errorf("seed %d: string_table[0] must be \"\"", seed)
		}
		seen := map[string]bool{}
		for _, s := range p.stringTable {
			if seen[s] {
				t.Errorf("seed %d: duplicate string table entry %q", seed, s)
			}
			seen[s] = true
		}
		got = append(got, hashEqB([]byte(fmt.Sprintf("%q", p.stringTable)), []byte(fmt.Sprint(idx))))
	}

	// One hand-written case with the exact expected table.
	fn := &Function{ID: 7, Name: "main", SystemName: "main", Filename: "m.go"}
	mp := &Mapping{ID: 1, File: "bin", BuildID: "cafe"}
	loc := &Location{ID: 3, Mapping: mp, Line: []Line{{Function: fn, Line: 1}}}
	p := &Profile{
		SampleType: []*ValueType{{Type: "cpu", Unit: "ns"}, {Type: "ns", Unit: ""}},
		Sample: []*Sample{{
			Location: []*Location{loc}, Value: []int64{1, 2},
			Label:    map[string][]string{"z": {"cpu", "zz"}, "b": {""}},
			NumLabel: map[string][]int64{"bytes": {1, 2}, "a": {0}},
			NumUnit:  map[string][]string{"bytes": {"kb", ""}},
		}},
		Mapping: []*Mapping{mp}, Location: []*Location{loc}, Function: []*Function{fn},
		DropFrames: "drop", KeepFrames: "", PeriodType: &ValueType{Type: "cpu", Unit: "hz"},
		Comments: []string{"c1", "cpu", "c1"}, DefaultSampleType: "ns", DocURL: "url",
	}
	p.preEncode()
	want := []string{"", "cpu", "ns", "b", "z", "zz", "a", "bytes", "kb", "bin", "cafe", "main", "m.go", "drop", "hz", "c1", "url"}
	if fmt.Sprintf("%q", p.stringTable) != fmt.Sprintf("%q", want) {
		t.Errorf("string table:\n got %q\nwant %q", p.stringTable, want)
	}
	if fmt.Sprint(p.commentX) != "[15 1 15]" || p.defaultSampleTypeX != 2 || p.docURLX != 16 || p.keepFramesX != 0 {
		t.Errorf("unexpected indices: comments=%v dst=%d doc=%d keep=%d", p.commentX, p.defaultSampleTypeX, p.docURLX, p.keepFramesX)
	}
	// preEncode must be repeatable on the same profile (Write may be called twice).
	first := fmt.Sprintf("%q", p.stringTable)
	b1 := serialize(p)
	b2 := serialize(p)
	if !bytes.Equal(b1, b2) || fmt.Sprintf("%q", p.stringTable) != first {
		t.Errorf("serializing twice gives different results")
	}
	checkGoldenEqB(t, "goldenStringTableEqB", got, goldenStringTableEqB)
}

// Golden values computed on the unchanged tree.

var goldenGeneratedEqB = []string{
	"25d839337c0e6370",
	"ec319f016a4550aa",
	"ba99033f2fa2ce69",
	"4c2b45d9eddf3112",
	"059910944a13c20b",
	"a5c96d84a00b9615",
	"d7a269f73f185b88",
	"6ba9025336443830",
	"b0c5a81b74aa00f5",
	"799b39d5afdeb76a",
	"f7b2358b9fcaa077",
	"6f79415c1063d5c2",
	"95c6b1d87491e15b",
	"3910edebea6198ce",
	"62fc5d5c624d97a8",
	"5d8c49d4a8af15a2",
	"1fc1f8b0cb8d8e45",
	"74226fecddbe6ebe",
	"9db17cc90ee3b1a7",
	"b66305c0288755f1",
	"7d69035cd7557472",
	"8a0ac376f9a7c501",
	"48805345c9eb19fe",
	"a565a8ecac227a44",
	"9b0af04c26012ad1",
	"27a0ae483ea29bb6",
	"ddbb7d6df7697998",
	"1987006fc6723cb7",
	"45d485f497efc63c",
	"01967421f30fbf60",
	"3b11946db6fc4133",
	"879db9f6873fd8cf",
	"b55b6e6762469e86",
	"740decc22732d527",
	"f3c6627925a01ac2",
	"00411b58f0f87c9d",
	"ed64183e969dd89d",
	"64a36533bf26a385",
	"0782ceca5ec7500f",
	"4380ca08fc4d4bb8",
	"ccc6cd019794af76",
	"78e166c187e181bd",
	"e147d09d87d92f6d",
	"645eeb1f084c44d0",
	"dad30b0f37cedcb8",
	"401716fafb678f44",
	"6359c307b7df42c6",
	"11a1baae8f63a8b1",
	"f1991fbedfc44577",
	"7c3a41af74b809d1",
	"ebaeb41dea2417f7",
	"ffde7e7e40d3cb73",
	"887212156a82d10a",
	"ce905485a494f25c",
	"3ce4b94b456a5ca2",
	"9ff0d5085fc570fe",
	"aa827ea8cc78a4c5",
	"1290a58b8b1cfb17",
	"dac4c839d91688b4",
	"3ac51b959c7fec52",
}

var goldenTestdataEqB = []string{
	"cppbench.contention:e82d8fd1164a3324",
	"cppbench.cpu:8675b802ddadfed7",
	"cppbench.growth:c34ceccd77cd908a",
	"cppbench.heap:651bb8dbf1b61fd6",
	"cppbench.thread:e9a82412d273d773",
	"cppbench.thread.all:d2438cdfafb7aaea",
	"cppbench.thread.none:a6a1747c5b783031",
	"go.crc32.cpu:22da87728838df01",
	"go.godoc.thread:d6b39ec2db8ad9ed",
	"gobench.cpu:d9598b3dfc779bb9",
	"gobench.heap:b2fe6f999ab5a30d",
	"java.contention:d1f03852b5cea3b1",
	"java.cpu:bcdc63897d161302",
	"java.heap:056cdf4405ce350e",
}

var goldenStringTableEqB = []string{
	"05b63f8983f1b3c6",
	"48d629c139687599",
	"619fd547b69da8ef",
	"e8a82c6b21ac25aa",
	"d023e423bb32f9dd",
	"ad503c2c008b96a4",
	"46e790b3075545bb",
	"cc1f65f6b245e353",
	"fdd372277345b9b0",
	"5573ce708bdf3d53",
	"e9b0aaef426ef74d",
	"18fa76a9cfe432b1",
	"78f522bfceeb7395",
	"a42298d214a8634b",
	"61ddeb0f443bcacf",
	"b59a3a9b0463f347",
	"6a4fab5bc77d053e",
	"4118e701666b1e3b",
	"c789903ffc3264dc",
	"90f3884c7de2316d",
	"aeafe97fc05de670",
	"ef43767e4f2a26f9",
	"bcee6587d8eb2cc1",
	"fad4ed458253778f",
	"590b92710a572601",
}
