#!/bin/bash
# Usage: demo.sh <pprof worktree root>
# Copies the equivalence test into place, runs it, removes it. Exits 0 iff it passes.
# The test passes both with and without patch.diff applied.
here="$(cd "$(dirname "$0")" && pwd)"
root="${1:?usage: demo.sh <worktree root>}"
export GOFLAGS=-mod=mod GOPROXY=off GOSUMDB=off GOTOOLCHAIN=local
t="$root/profile/zz_equiv_b_test.go"
cp "$here/zz_equiv_b_test.go" "$t" || exit 2
(cd "$root" && go test -vet=off -count=1 -run 'TestEquiv' ./profile)
rc=$?
rm -f "$t"
exit $rc
