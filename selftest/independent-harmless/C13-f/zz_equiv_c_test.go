package binutils

// Equivalence demonstration for change C (fmt-based request formatting in the
// addr2line and llvm-symbolizer connections replaced by strconv/io code). All
// expected request lines and frames are hard-coded and were checked on the
// unchanged tree; the test passes with and without the patch.

import (
	"bytes"
	"path/filepath"
	"reflect"
	"runtime"
	"testing"

	"github.com/google/pprof/internal/plugin"
)

// zzRecorder is a lineReaderWriter that records requests and replays canned responses.
type zzRecorder struct {
	written []string
	replies []string
}

func (r *zzRecorder) write(s string) error { r.written = append(r.written, s); return nil }
func (r *zzRecorder) readLine() (string, error) {
	if len(r.replies) == 0 {
		return "", bytes.ErrTooLarge
	}
	s := r.replies[0]
	r.replies = r.replies[1:]
	return s, nil
}
func (r *zzRecorder) close() {}

// zzPipe is an io.WriteCloser that records every Write call separately.
type zzPipe struct{ writes []string }

func (p *zzPipe) Write(b []byte) (int, error) {
	p.writes = append(p.writes, string(b))
	return len(b), nil
}
func (p *zzPipe) Close() error { return nil }

func TestZZEquivCAddr2LineRequests(t *testing.T) {
	for _, tc := range []struct {
		base, addr uint64
		wantReq    string
	}{
		{0, 0x401000, "401000"},
		{0x5000000, 0x5400400, "400400"},
		{0x7f1234000000, 0x7f12346006fb, "6006fb"},
		{0x500, 0x500, "0"},
		{0x1000, 0xfff, "ffffffffffffffff"},                 // wraps around, as before
		{0xffffffff00000000, 0x1000, "100001000"},           // modular 64-bit arithmetic
		{0x3000000, 0xffffffff83200198, "ffffffff80200198"}, // kernel address
		{0, ^uint64(0) - 1, "fffffffffffffffe"},
	} {
		rec := &zzRecorder{replies: []string{
			"0x" + tc.wantReq,
			"inlined", "dir/file.h:7 (discriminator 3)",
			"outer", "dir/file.c:42",
			"0xffffffffffffffff", "??", "??:0",
		}}
		a := addr2Liner{rw: rec, base: tc.base}
		frames, err := a.addrInfo(tc.addr)
		if err != nil {
			t.Errorf("base %#x addr %#x: %v", tc.base, tc.addr, err)
			continue
		}
		if want := []string{tc.wantReq, "ffffffffffffffff"}; !reflect.DeepEqual(rec.written, want) {
			t.Errorf("base %#x addr %#x: wrote %q, want %q", tc.base, tc.addr, rec.written, want)
		}
		wantFrames := []plugin.Frame{{Func: "inlined", File: "dir/file.h", Line: 7}, {Func: "outer", File: "dir/file.c", Line: 42}}
		if !reflect.DeepEqual(frames, wantFrames) {
			t.Errorf("base %#x addr %#x: frames %v, want %v", tc.base, tc.addr, frames, wantFrames)
		}
		if len(rec.replies) != 0 {
			t.Errorf("base %#x addr %#x: %d reply lines left unread", tc.base, tc.addr, len(rec.replies))
		}
	}
}

func TestZZEquivCJobWrites(t *testing.T) {
	p := &zzPipe{}
	j := &addr2LinerJob{in: p}
	for _, s := range []string{"400400", "ffffffffffffffff", "", "100%x"} {
		if err := j.write(s); err != nil {
			t.Fatal(err)
		}
	}
	if want := []string{"400400\n", "ffffffffffffffff\n", "\n", "100%x\n"}; !reflect.DeepEqual(p.writes, want) {
		t.Errorf("addr2LinerJob wrote %q, want %q (one Write per request)", p.writes, want)
	}

	for _, tc := range []struct {
		symType, req, want string
	}{
		{"CODE", "/lib/libc.so.6 0x400400", "CODE /lib/libc.so.6 0x400400\n"},
		{"DATA", "/lib/libc.so.6 0x601040", "DATA /lib/libc.so.6 0x601040\n"},
		{"CODE", "my file%d 0x0", "CODE my file%d 0x0\n"},
		{"DATA", "", "DATA \n"},
	} {
		p := &zzPipe{}
		j := &llvmSymbolizerJob{in: p, symType: tc.symType}
		if err := j.write(tc.req); err != nil {
			t.Fatal(err)
		}
		if want := []string{tc.want}; !reflect.DeepEqual(p.writes, want) {
			t.Errorf("llvmSymbolizerJob wrote %q, want %q (one Write per request)", p.writes, want)
		}
	}
}

func TestZZEquivCLLVMRequestsAndFrames(t *testing.T) {
	const codeReply = `{"Address":"0x400400","ModuleName":"m","Symbol":[{"Column":3,"FileName":"a.h","FunctionName":"inl","Line":5,"StartLine":4},{"Column":1,"FileName":"a.c","FunctionName":"main","Line":20,"StartLine":18}]}`
	wantCode := []plugin.Frame{{Func: "inl", File: "a.h", Line: 5, Column: 3, StartLine: 4}, {Func: "main", File: "a.c", Line: 20, Column: 1, StartLine: 18}}
	for _, tc := range []struct {
		file       string
		base, addr uint64
		isData     bool
		reply      string
		wantReq    string
		wantFrames []plugin.Frame
		wantErr    bool
	}{
		{"/bin/exe", 0, 0x400400, false, codeReply, "/bin/exe 0x400400", wantCode, false},
		{"/bin/exe", 0x5000000, 0x5400400, false, codeReply, "/bin/exe 0x400400", wantCode, false},
		{"/lib/lib so%s.so", 0x7f1234000000, 0x7f1234000000, false, codeReply, "/lib/lib so%s.so 0x0", wantCode, false},
		{"x", 0x1000, 0xfff, false, codeReply, "x 0xffffffffffffffff", wantCode, false},
		{"x", 0xffffffff00000000, 0x1000, false, `{"Symbol":[]}`, "x 0x100001000", nil, false},
		{"/bin/exe", 0x5000000, 0x5601040, true, `{"Address":"0x601040","ModuleName":"m","Data":{"Name":"counter","Size":"0x8","Start":"0x601040"}}`,
			"/bin/exe 0x601040", []plugin.Frame{{Func: "counter", File: "0x601040 8"}}, false},
		{"/bin/exe", 0, 0x601040, true, `{"Data":{"Name":"buf","Size":"4096","Start":"0x601000"}}`,
			"/bin/exe 0x601040", []plugin.Frame{{Func: "buf", File: "0x601000 4096"}}, false},
		{"/bin/exe", 0, 0x601040, true, `{"Data":{"Name":"odd","Size":"-0x10","Start":""}}`,
			"/bin/exe 0x601040", []plugin.Frame{{Func: "odd", File: " -16"}}, false},
		{"/bin/exe", 0, 0x601040, true, `{"Data":{"Name":"big","Size":"0x7fffffffffffffff","Start":"0x1"}}`,
			"/bin/exe 0x601040", []plugin.Frame{{Func: "big", File: "0x1 9223372036854775807"}}, false},
		{"/bin/exe", 0, 0x601040, true, `{"Data":{"Name":"bad","Size":"","Start":"0x1"}}`, "/bin/exe 0x601040", nil, true},
	} {
		rec := &zzRecorder{replies: []string{tc.reply}}
		d := &llvmSymbolizer{filename: tc.file, rw: rec, base: tc.base, isData: tc.isData}
		frames, err := d.addrInfo(tc.addr)
		if (err != nil) != tc.wantErr {
			t.Errorf("%q base %#x addr %#x: err %v, want error=%v", tc.file, tc.base, tc.addr, err, tc.wantErr)
		}
		if want := []string{tc.wantReq}; !reflect.DeepEqual(rec.written, want) {
			t.Errorf("%q base %#x addr %#x: wrote %q, want %q", tc.file, tc.base, tc.addr, rec.written, want)
		}
		if !reflect.DeepEqual(frames, tc.wantFrames) {
			t.Errorf("%q base %#x addr %#x: frames %#v, want %#v", tc.file, tc.base, tc.addr, frames, tc.wantFrames)
		}
	}
}

// End to end through a real child process (the repository's fake llvm-symbolizer
// shell script echoes the module and address it was asked about).
func TestZZEquivCLLVMProcess(t *testing.T) {
	if runtime.GOOS != "linux" {
		t.Skip("testdata/fake-llvm-symbolizer has only been tested on linux")
	}
	cmd := filepath.Join("testdata", "fake-llvm-symbolizer")
	for _, tc := range []struct {
		base, addr uint64
		isData     bool
		want       []plugin.Frame
	}{
		{0x5000000, 0x5400400, false, []plugin.Frame{
			{Func: "Inlined_0x400400", File: "obj.h"},
			{Func: "Func_0x400400", File: "obj.c", Line: 2, Column: 1, StartLine: 2}}},
		{0x7f1234000000, 0x7f1234601040, true, []plugin.Frame{{Func: "obj_0x601040", File: "0x601040 8"}}},
		{0x1000, 0xfff, false, []plugin.Frame{
			{Func: "Inlined_0xffffffffffffffff", File: "obj.h"},
			{Func: "Func_0xffffffffffffffff", File: "obj.c", Line: 2, Column: 1, StartLine: 2}}},
	} {
		s, err := newLLVMSymbolizer(cmd, "obj", tc.base, tc.isData)
		if err != nil {
			t.Fatalf("newLLVMSymbolizer: %v", err)
		}
		// Two requests on the same connection, to check line framing.
		for i := 0; i < 2; i++ {
			frames, err := s.addrInfo(tc.addr)
			if err != nil {
				t.Errorf("base %#x addr %#x: %v", tc.base, tc.addr, err)
			}
			if !reflect.DeepEqual(frames, tc.want) {
				t.Errorf("base %#x addr %#x: frames %v, want %v", tc.base, tc.addr, frames, tc.want)
			}
		}
		s.rw.close()
	}
}
