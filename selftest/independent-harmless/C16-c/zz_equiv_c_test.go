package driver

// Equivalence demonstration harness for property C16 (multi-source fetch merges
// whatever succeeded, independent of timing). It drives the fetch pipeline of
// internal/driver/fetch.go with synthetic sources of several kinds (in-memory
// through a plugin.Fetcher, HTTP through a fake RoundTripper, files on disk),
// a chosen set of failing sources and a chosen completion order, and reduces
// everything observable (merged profile text, mapping sources, save flag,
// returned error, messages printed through the UI) to a digest. The expected
// digests below were computed on the unchanged tree.

import (
	"bytes"
	"crypto/sha256"
	"fmt"
	"io"
	"math/rand"
	"net/http"
	"os"
	"path/filepath"
	"sort"
	"strconv"
	"strings"
	"sync"
	"testing"
	"time"

	"github.com/google/pprof/internal/plugin"
	"github.com/google/pprof/profile"
)

// ---- UI recorder -----------------------------------------------------------

type zzCUI struct {
	mu   sync.Mutex
	errs []string
}

func (u *zzCUI) ReadLine(string) (string, error)     { return "", io.EOF }
func (u *zzCUI) Print(...interface{})                {}
func (u *zzCUI) IsTerminal() bool                    { return false }
func (u *zzCUI) WantBrowser() bool                   { return false }
func (u *zzCUI) SetAutoComplete(func(string) string) {}
func (u *zzCUI) PrintErr(args ...interface{}) {
	u.mu.Lock()
	defer u.mu.Unlock()
	u.errs = append(u.errs, fmt.Sprint(args...))
}

// ---- object tool that never finds a binary ---------------------------------

type zzCObj struct{}

func (zzCObj) Open(string, uint64, uint64, uint64, string) (plugin.ObjFile, error) {
	return nil, fmt.Errorf("no binaries in this test")
}
func (zzCObj) Disasm(string, uint64, uint64, bool) ([]plugin.Inst, error) {
	return nil, fmt.Errorf("no disasm in this test")
}

// ---- symbolizer stub -------------------------------------------------------

type zzCSym struct {
	mode string
	msrc plugin.MappingSources
}

func (s *zzCSym) Symbolize(mode string, srcs plugin.MappingSources, _ *profile.Profile) error {
	s.mode, s.msrc = mode, srcs
	return nil
}

// ---- synthetic profiles ----------------------------------------------------

// zzCProfile builds a small, valid, symbolized profile that depends on i:
// shared and per-source functions, one or two mappings, sometimes an extra
// sample type (dropped by CompatibilizeSampleTypes) and sometimes a coarser
// time unit (rescaled by ScaleProfiles).
func zzCProfile(i int) *profile.Profile {
	unit := "nanoseconds"
	mult := int64(1000)
	if i%6 == 2 {
		unit, mult = "microseconds", 1
	}
	p := &profile.Profile{
		SampleType: []*profile.ValueType{
			{Type: "samples", Unit: "count"},
			{Type: "cpu", Unit: unit},
		},
		PeriodType:    &profile.ValueType{Type: "cpu", Unit: unit},
		Period:        10 * mult,
		TimeNanos:     int64(1000 + i),
		DurationNanos: int64(10 + i),
		Comments:      []string{"c" + strconv.Itoa(i%3)},
	}
	extra := i%4 == 1
	if extra {
		p.SampleType = append(p.SampleType, &profile.ValueType{Type: "extra", Unit: "count"})
	}
	m1 := &profile.Mapping{ID: 1, Start: 0x1000, Limit: 0x9000, File: "/bin/app", BuildID: "build-app", HasFunctions: true}
	p.Mapping = []*profile.Mapping{m1}
	var m2 *profile.Mapping
	if i%2 == 0 {
		m2 = &profile.Mapping{ID: 2, Start: 0x10000 + uint64(i%3)*0x1000, Limit: 0x20000, File: "/lib/lib" + strconv.Itoa(i%3) + ".so", HasFunctions: true}
		p.Mapping = append(p.Mapping, m2)
	}
	fCommon := &profile.Function{ID: 1, Name: "common", SystemName: "common", Filename: "common.go"}
	fShared := &profile.Function{ID: 2, Name: "fn" + strconv.Itoa(i%7), SystemName: "fn" + strconv.Itoa(i%7), Filename: "fn.go"}
	fUniq := &profile.Function{ID: 3, Name: "uniq" + strconv.Itoa(i), SystemName: "uniq" + strconv.Itoa(i), Filename: "uniq.go"}
	p.Function = []*profile.Function{fCommon, fShared, fUniq}
	l1 := &profile.Location{ID: 1, Mapping: m1, Address: 0x1100, Line: []profile.Line{{Function: fCommon, Line: 10}}}
	l2 := &profile.Location{ID: 2, Mapping: m1, Address: 0x1200 + uint64(i%7)*0x10, Line: []profile.Line{{Function: fShared, Line: int64(20 + i%7)}}}
	l3 := &profile.Location{ID: 3, Mapping: m1, Address: 0x2000 + uint64(i)*0x10, Line: []profile.Line{{Function: fUniq, Line: int64(30 + i)}}}
	if m2 != nil {
		l3.Mapping = m2
		l3.Address = m2.Start + 0x100 + uint64(i)*0x10
	}
	p.Location = []*profile.Location{l1, l2, l3}
	vals := func(n, t int64) []int64 {
		v := []int64{n, t * mult}
		if extra {
			v = append(v, 7*n)
		}
		return v
	}
	p.Sample = []*profile.Sample{
		{Location: []*profile.Location{l2, l1}, Value: vals(int64(i+1), int64(i+1))},
		{Location: []*profile.Location{l3}, Value: vals(1, int64(10*i+5))},
	}
	if i%5 == 0 {
		p.Sample[1].Label = map[string][]string{"src": {strconv.Itoa(i)}}
	}
	return p
}

func zzCEncode(p *profile.Profile) []byte {
	var b bytes.Buffer
	if err := p.Write(&b); err != nil {
		panic(err)
	}
	return b.Bytes()
}

// ---- source kinds ----------------------------------------------------------

type zzCKind int

const (
	zzCMem           zzCKind = iota // served by the plugin.Fetcher, no source URL
	zzCHTTP                         // served over fake HTTP from the test host (local)
	zzCRemote                       // served over fake HTTP from a remote host (save=true)
	zzCFile                         // file on disk
	zzCFetcherURL                   // served by the plugin.Fetcher with a source URL
	zzCFailMissing                  // missing file
	zzCFailStatus                   // HTTP 500
	zzCFailPprof                    // HTTP 503 from a pprof endpoint, with a text body
	zzCFailGarbage                  // HTTP 200 with a garbage body
	zzCFailGarbageF                 // garbage file on disk
	zzCFailInvalid                  // fetcher returns a profile failing CheckValid
	zzCFailFetcher                  // fetcher returns an error
	zzCFailTransport                // RoundTripper returns an error
)

func (k zzCKind) fails() bool { return k >= zzCFailMissing }

type zzCSpec struct {
	kind  zzCKind
	idx   int           // profile number
	delay time.Duration // how long the fetch takes
}

// zzCWorld holds the behaviour of every source address of a scenario and
// implements plugin.Fetcher and http.RoundTripper.
type zzCWorld struct {
	dir    string
	byAddr map[string]zzCSpec // for fetcher-served and file kinds
	byPath map[string]zzCSpec // for HTTP kinds, keyed by URL path
	// gate, if non-nil, enforces a strict completion order: a fetch with
	// rank r returns only after the fetches with ranks < r have returned.
	gate *zzCGate
	rank map[string]int
}

type zzCGate struct {
	mu   sync.Mutex
	cond *sync.Cond
	next int
	log  []int
}

func zzCNewGate() *zzCGate {
	g := &zzCGate{}
	g.cond = sync.NewCond(&g.mu)
	return g
}

func (g *zzCGate) pass(rank int) {
	g.mu.Lock()
	for g.next != rank {
		g.cond.Wait()
	}
	g.log = append(g.log, rank)
	g.next++
	g.cond.Broadcast()
	g.mu.Unlock()
}

func (w *zzCWorld) wait(key string, sp zzCSpec) {
	if w.gate != nil {
		w.gate.pass(w.rank[key])
		return
	}
	time.Sleep(sp.delay)
}

func (w *zzCWorld) Fetch(src string, _, _ time.Duration) (*profile.Profile, string, error) {
	sp, ok := w.byAddr[src]
	if !ok {
		return nil, "", nil // not ours: fall through to file / HTTP
	}
	switch sp.kind {
	case zzCMem:
		w.wait(src, sp)
		return zzCProfile(sp.idx), "", nil
	case zzCFetcherURL:
		w.wait(src, sp)
		return zzCProfile(sp.idx), "http://" + testSourceAddress + "/fetched/" + src, nil
	case zzCFailInvalid:
		w.wait(src, sp)
		p := zzCProfile(sp.idx)
		p.Sample[0].Value = p.Sample[0].Value[:1]
		return p, "", nil
	case zzCFailFetcher:
		w.wait(src, sp)
		return nil, "", fmt.Errorf("fetcher refused #%d", sp.idx)
	}
	return nil, "", nil // file kinds
}

func (w *zzCWorld) RoundTrip(req *http.Request) (*http.Response, error) {
	sp, ok := w.byPath[req.URL.Path]
	if !ok {
		return nil, fmt.Errorf("unexpected URL %s", req.URL)
	}
	w.wait(req.URL.Path, sp)
	resp := &http.Response{
		Status: "200 OK", StatusCode: 200, Proto: "HTTP/1.1", ProtoMajor: 1, ProtoMinor: 1,
		Header: http.Header{}, Request: req,
	}
	body := []byte{}
	switch sp.kind {
	case zzCHTTP, zzCRemote:
		body = zzCEncode(zzCProfile(sp.idx))
	case zzCFailStatus:
		resp.Status, resp.StatusCode = "500 Internal Server Error", 500
		body = []byte("boom")
	case zzCFailPprof:
		resp.Status, resp.StatusCode = "503 Service Unavailable", 503
		resp.Header.Set("X-Go-Pprof", "1")
		resp.Header.Set("Content-Type", "text/plain; charset=utf-8")
		body = []byte("profiling busy #" + strconv.Itoa(sp.idx))
	case zzCFailGarbage:
		body = []byte("this is not a profile at all, #" + strconv.Itoa(sp.idx))
	case zzCFailTransport:
		return nil, fmt.Errorf("connection refused #%d", sp.idx)
	}
	resp.Body = io.NopCloser(bytes.NewReader(body))
	resp.ContentLength = int64(len(body))
	return resp, nil
}

// add registers a source and returns its command-line address. tag ("s" or
// "b") and pos make the address unique; every address contains "/tag/" or
// "-tag-" so printed messages can be attributed to the list they belong to.
func (w *zzCWorld) add(t *testing.T, tag string, pos int, sp zzCSpec) string {
	id := tag + "/" + strconv.Itoa(pos)
	switch sp.kind {
	case zzCMem, zzCFetcherURL, zzCFailInvalid, zzCFailFetcher:
		addr := "mem-" + tag + "-" + strconv.Itoa(pos)
		w.byAddr[addr] = sp
		return addr
	case zzCHTTP, zzCFailStatus, zzCFailPprof, zzCFailGarbage, zzCFailTransport:
		w.byPath["/"+id] = sp
		return "http://" + testSourceAddress + "/" + id + "?n=" + strconv.Itoa(pos)
	case zzCRemote:
		w.byPath["/"+id] = sp
		return "remote.example:8080/" + id // scheme-less: adjustURL must add http://
	case zzCFile, zzCFailGarbageF:
		name := filepath.Join(w.dir, "file-"+tag+"-"+strconv.Itoa(pos)+".prof")
		data := []byte("garbage file #" + strconv.Itoa(sp.idx))
		if sp.kind == zzCFile {
			data = zzCEncode(zzCProfile(sp.idx))
		}
		if err := os.WriteFile(name, data, 0o644); err != nil {
			t.Fatal(err)
		}
		return name
	case zzCFailMissing:
		return filepath.Join(w.dir, "missing-"+tag+"-"+strconv.Itoa(pos))
	}
	t.Fatalf("bad kind %d", sp.kind)
	return ""
}

// rankKey returns the key under which the gate rank of an address is stored.
func (w *zzCWorld) rankKey(tag string, pos int, sp zzCSpec) string {
	switch sp.kind {
	case zzCMem, zzCFetcherURL, zzCFailInvalid, zzCFailFetcher:
		return "mem-" + tag + "-" + strconv.Itoa(pos)
	}
	return "/" + tag + "/" + strconv.Itoa(pos)
}

func zzCNewWorld(t *testing.T) *zzCWorld {
	// Keep locateBinaries away from the real environment.
	t.Setenv("PPROF_BINARY_PATH", t.TempDir())
	return &zzCWorld{dir: t.TempDir(), byAddr: map[string]zzCSpec{}, byPath: map[string]zzCSpec{}, rank: map[string]int{}}
}

// ---- rendering -------------------------------------------------------------

func zzCMsrc(m plugin.MappingSources) string {
	if m == nil {
		return "<nil>"
	}
	keys := make([]string, 0, len(m))
	for k := range m {
		keys = append(keys, k)
	}
	sort.Strings(keys)
	var b strings.Builder
	for _, k := range keys {
		fmt.Fprintf(&b, "%s:", k)
		for _, s := range m[k] {
			fmt.Fprintf(&b, " (%s,%#x)", s.Source, s.Start)
		}
		b.WriteString("\n")
	}
	return b.String()
}

func zzCProf(p *profile.Profile) string {
	if p == nil {
		return "<nil>"
	}
	return p.String()
}

// zzCMessages renders the UI error lines. Lines about sources keep their
// relative order, and so do lines about bases; the interleaving of the two
// groups is a genuine race in the code under test and is not recorded.
func zzCMessages(w *zzCWorld, ui *zzCUI) string {
	ui.mu.Lock()
	defer ui.mu.Unlock()
	var src, base, other []string
	for _, e := range ui.errs {
		e = strings.ReplaceAll(e, w.dir, "$DIR")
		switch {
		case strings.Contains(e, "/s/") || strings.Contains(e, "-s-"):
			src = append(src, e)
		case strings.Contains(e, "/b/") || strings.Contains(e, "-b-"):
			base = append(base, e)
		default:
			other = append(other, e)
		}
	}
	return "SRC:\n" + strings.Join(src, "\n") + "\nBASE:\n" + strings.Join(base, "\n") + "\nOTHER:\n" + strings.Join(other, "\n") + "\n"
}

func zzCDigest(s string) string {
	return fmt.Sprintf("%x", sha256.Sum256([]byte(s)))[:20]
}

// ---- scenarios -------------------------------------------------------------

type zzCScenario struct {
	name  string
	nsrc  int
	nbase int
	// kindOf picks the kind of the source at position pos of list tag.
	kindOf func(tag string, pos int) zzCKind
	seed   int64 // completion-order seed
}

var zzCOKKinds = []zzCKind{zzCMem, zzCHTTP, zzCFile, zzCFetcherURL, zzCMem, zzCHTTP}
var zzCBadKinds = []zzCKind{zzCFailMissing, zzCFailStatus, zzCFailPprof, zzCFailGarbage, zzCFailGarbageF, zzCFailInvalid, zzCFailFetcher, zzCFailTransport}

// zzCMix: source pos fails iff failing(pos); kinds rotate.
func zzCMix(failing func(tag string, pos int) bool) func(string, int) zzCKind {
	return func(tag string, pos int) zzCKind {
		if failing(tag, pos) {
			return zzCBadKinds[pos%len(zzCBadKinds)]
		}
		return zzCOKKinds[pos%len(zzCOKKinds)]
	}
}

func zzCScenarios() []zzCScenario {
	none := func(string, int) bool { return false }
	all := func(string, int) bool { return true }
	return []zzCScenario{
		{name: "single", nsrc: 1, kindOf: zzCMix(none)},
		{name: "single-remote", nsrc: 1, kindOf: func(string, int) zzCKind { return zzCRemote }},
		{name: "five-none-fail", nsrc: 5, kindOf: zzCMix(none)},
		{name: "nine-every-third-fails", nsrc: 9, kindOf: zzCMix(func(_ string, p int) bool { return p%3 == 0 })},
		{name: "first-and-last-fail", nsrc: 12, kindOf: zzCMix(func(_ string, p int) bool { return p == 0 || p == 11 })},
		{name: "only-last-succeeds", nsrc: 10, kindOf: zzCMix(func(_ string, p int) bool { return p != 9 })},
		{name: "all-fail", nsrc: 8, kindOf: zzCMix(all)},
		{name: "remote-in-the-middle", nsrc: 6, kindOf: func(_ string, p int) zzCKind {
			if p == 3 {
				return zzCRemote
			}
			return zzCMix(func(_ string, p int) bool { return p == 1 })("", p)
		}},
		{name: "128-exact", nsrc: 128, kindOf: zzCMix(func(_ string, p int) bool { return p%10 == 7 })},
		{name: "129-boundary", nsrc: 129, kindOf: zzCMix(func(_ string, p int) bool { return p == 127 })},
		{name: "129-last-chunk-fails", nsrc: 129, kindOf: zzCMix(func(_ string, p int) bool { return p == 128 })},
		{name: "130-first-chunk-all-fail", nsrc: 130, kindOf: zzCMix(func(_ string, p int) bool { return p < 128 })},
		{name: "257-middle-chunk-all-fail", nsrc: 257, kindOf: zzCMix(func(_ string, p int) bool { return p >= 128 && p < 256 })},
		{name: "300-many-fail", nsrc: 300, kindOf: zzCMix(func(_ string, p int) bool { return p%4 == 2 || p%9 == 0 })},
		{name: "300-remote-in-third-chunk", nsrc: 300, kindOf: func(_ string, p int) zzCKind {
			if p == 290 {
				return zzCRemote
			}
			return zzCMix(func(_ string, p int) bool { return p%50 == 49 })("", p)
		}},
		{name: "300-all-fail", nsrc: 300, kindOf: zzCMix(all)},
		{name: "bases-ok", nsrc: 4, nbase: 3, kindOf: zzCMix(func(tag string, p int) bool { return tag == "b" && p == 1 })},
		{name: "bases-all-fail", nsrc: 4, nbase: 3, kindOf: zzCMix(func(tag string, _ int) bool { return tag == "b" })},
		{name: "sources-all-fail-bases-ok", nsrc: 3, nbase: 2, kindOf: zzCMix(func(tag string, _ int) bool { return tag == "s" })},
		{name: "bases-cross-chunk", nsrc: 140, nbase: 131, kindOf: zzCMix(func(tag string, p int) bool { return (tag == "b" && p%7 == 3) || (tag == "s" && p%13 == 5) })},
		{name: "remote-base", nsrc: 2, nbase: 2, kindOf: func(tag string, p int) zzCKind {
			if tag == "b" && p == 1 {
				return zzCRemote
			}
			return zzCMem
		}},
	}
}

// build creates the world and the two source lists for a scenario; the
// completion order is a pseudo-random permutation driven by seed.
func (sc zzCScenario) build(t *testing.T, seed int64) (*zzCWorld, []string, []string) {
	w := zzCNewWorld(t)
	rng := rand.New(rand.NewSource(seed))
	mk := func(tag string, n, base int) []string {
		addrs := make([]string, n)
		for pos := 0; pos < n; pos++ {
			sp := zzCSpec{kind: sc.kindOf(tag, pos), idx: base + pos, delay: time.Duration(rng.Intn(2000)) * time.Microsecond}
			addrs[pos] = w.add(t, tag, pos, sp)
		}
		return addrs
	}
	return w, mk("s", sc.nsrc, 0), mk("b", sc.nbase, 1000)
}

func zzCSources(addrs []string, s *source) []profileSource {
	out := make([]profileSource, 0, len(addrs))
	for _, a := range addrs {
		out = append(out, profileSource{addr: a, source: s})
	}
	return out
}

// zzCRunGrab runs grabSourcesAndBases on a scenario and renders everything.
func zzCRunGrab(t *testing.T, sc zzCScenario, seed int64) string {
	w, srcs, bases := sc.build(t, seed)
	ui := &zzCUI{}
	s := &source{Sources: srcs, Base: bases}
	p, pbase, m, mbase, save, err := grabSourcesAndBases(zzCSources(srcs, s), zzCSources(bases, s), w, zzCObj{}, ui, w)
	return fmt.Sprintf("P:\n%s\nPBASE:\n%s\nM:\n%s\nMBASE:\n%s\nSAVE: %v\nERR: %v\n%s",
		zzCProf(p), zzCProf(pbase), zzCMsrc(m), zzCMsrc(mbase), save, err, zzCMessages(w, ui))
}

// zzCRunFetch runs fetchProfiles end to end on a scenario.
func zzCRunFetch(t *testing.T, sc zzCScenario, seed int64, diffBase, normalize bool) string {
	w, srcs, bases := sc.build(t, seed)
	t.Setenv("PPROF_TMPDIR", t.TempDir())
	ui := &zzCUI{}
	sym := &zzCSym{}
	s := &source{Sources: srcs, Base: bases, DiffBase: diffBase, Normalize: normalize, Symbolize: "none", Comment: "zz"}
	o := &plugin.Options{Fetch: w, Obj: zzCObj{}, UI: ui, HTTPTransport: w, Sym: sym}
	p, err := fetchProfiles(s, o)
	msgs := zzCMessages(w, ui)
	// The saved-profile temp file name is not part of the contract.
	if i := strings.Index(msgs, "Saved profile in "); i >= 0 {
		j := strings.Index(msgs[i:], "\n")
		msgs = msgs[:i] + "Saved profile in <tmp>" + msgs[i+j:]
	}
	return fmt.Sprintf("P:\n%s\nSYM: %s\n%s\nERR: %v\n%s", zzCProf(p), sym.mode, zzCMsrc(sym.msrc), err, msgs)
}

// zzCCheck compares got against the expected digest, or against the first
// run of the same scenario when checking schedule independence.
func zzCCheck(t *testing.T, want map[string]string, key, got string) {
	t.Helper()
	d := zzCDigest(got)
	w, ok := want[key]
	if !ok {
		t.Errorf("no expected digest for %q; got %q", key, d)
		if os.Getenv("ZZ_DUMP") != "" {
			t.Logf("%s:\n%s", key, got)
		}
		return
	}
	if d != w {
		t.Errorf("%s: digest %s, want %s", key, d, w)
		if os.Getenv("ZZ_DUMP") != "" {
			t.Logf("%s:\n%s", key, got)
		}
	}
}

// ---- tests common to all three demonstrations ------------------------------

func TestZZCEquivGrabSourcesAndBases(t *testing.T) {
	for _, sc := range zzCScenarios() {
		sc := sc
		t.Run(sc.name, func(t *testing.T) {
			first := zzCRunGrab(t, sc, 1)
			zzCCheck(t, zzCWantGrab, sc.name, first)
			// Same report whatever order the fetches complete in.
			for seed := int64(2); seed <= 4; seed++ {
				if again := zzCRunGrab(t, sc, seed); again != first {
					t.Errorf("seed %d: result differs from seed 1", seed)
				}
			}
		})
	}
}

func TestZZCEquivFetchProfiles(t *testing.T) {
	pick := map[string]bool{"single": true, "nine-every-third-fails": true, "all-fail": true, "129-boundary": true,
		"300-many-fail": true, "300-remote-in-third-chunk": true, "bases-ok": true, "bases-all-fail": true,
		"sources-all-fail-bases-ok": true, "bases-cross-chunk": true, "remote-base": true}
	for _, sc := range zzCScenarios() {
		if !pick[sc.name] {
			continue
		}
		sc := sc
		for _, mode := range []struct {
			name            string
			diff, normalize bool
		}{{"base", false, false}, {"diffbase-normalize", true, true}} {
			if mode.diff && sc.nbase == 0 {
				continue
			}
			mode := mode
			t.Run(sc.name+"/"+mode.name, func(t *testing.T) {
				first := zzCRunFetch(t, sc, 1, mode.diff, mode.normalize)
				zzCCheck(t, zzCWantFetch, sc.name+"/"+mode.name, first)
				if again := zzCRunFetch(t, sc, 7, mode.diff, mode.normalize); again != first {
					t.Errorf("seed 7: result differs from seed 1")
				}
			})
		}
	}
}

// ---- focus of demonstration C: grabProfile on every kind of source ---------

func TestZZCEquivGrabProfileKinds(t *testing.T) {
	names := map[zzCKind]string{
		zzCMem: "mem", zzCHTTP: "http-local", zzCRemote: "http-remote", zzCFile: "file", zzCFetcherURL: "fetcher-url",
		zzCFailMissing: "missing", zzCFailStatus: "status-500", zzCFailPprof: "pprof-503", zzCFailGarbage: "garbage-body",
		zzCFailGarbageF: "garbage-file", zzCFailInvalid: "invalid", zzCFailFetcher: "fetcher-error", zzCFailTransport: "transport-error",
	}
	for k := zzCMem; k <= zzCFailTransport; k++ {
		k := k
		for _, withFetcher := range []bool{true, false} {
			withFetcher := withFetcher
			switch k {
			case zzCMem, zzCFetcherURL, zzCFailInvalid, zzCFailFetcher:
				if !withFetcher {
					continue // these kinds only exist through the fetcher
				}
			}
			for _, idx := range []int{0, 1, 2, 5} { // different profile shapes
				name := fmt.Sprintf("%s/fetcher=%v/%d", names[k], withFetcher, idx)
				t.Run(name, func(t *testing.T) {
					w := zzCNewWorld(t)
					addr := w.add(t, "s", idx, zzCSpec{kind: k, idx: idx})
					ui := &zzCUI{}
					var f plugin.Fetcher
					if withFetcher {
						f = w
					}
					s := &source{Sources: []string{addr}, ExecName: "", Seconds: 0, Timeout: 3}
					if idx == 5 {
						s.ExecName, s.BuildID = "/override/exe", "override-id"
					}
					p, msrc, remote, err := grabProfile(s, addr, f, zzCObj{}, ui, w)
					var got string
					if err != nil {
						// The other results are meaningless when err != nil.
						got = "ERR: " + strings.ReplaceAll(err.Error(), w.dir, "$DIR")
					} else {
						got = fmt.Sprintf("P:\n%s\nM:\n%s\nREMOTE: %v\n", zzCProf(p), zzCMsrc(msrc), remote)
					}
					got += zzCMessages(w, ui)
					if k.fails() != (err != nil) {
						t.Errorf("err = %v, want failure = %v", err, k.fails())
					}
					zzCCheck(t, zzCWantGrabProfile, name, got)
				})
			}
		}
	}
}

// ---- expected digests, computed on the unchanged tree -----------------------

var zzCWantGrab = map[string]string{
	"single":                    "61b26e749c5f7526b3da",
	"single-remote":             "471ed26f22835788e33d",
	"five-none-fail":            "2befb5f5f8521242d9f3",
	"nine-every-third-fails":    "c6674022e9b5a4c0bb23",
	"first-and-last-fail":       "8a0fe6176d56bf845548",
	"only-last-succeeds":        "cb03ef2e14917aeeb3ec",
	"all-fail":                  "adc5b784e8f67626a33a",
	"remote-in-the-middle":      "666fa8696010ca318f68",
	"128-exact":                 "8762a36aef6001edb1d8",
	"129-boundary":              "4e0497647379f69c1f00",
	"129-last-chunk-fails":      "35fd5fca57f99c51fd46",
	"130-first-chunk-all-fail":  "87458eaad6514e6faadf",
	"257-middle-chunk-all-fail": "0e7bb2d1966f93ccd523",
	"300-many-fail":             "37e3993cb4c01b6dcd60",
	"300-remote-in-third-chunk": "14579a6a2674ba33a366",
	"300-all-fail":              "1abefa36b9b6e398d7e3",
	"bases-ok":                  "bd27dd400ce118f7e39d",
	"bases-all-fail":            "a19b54db4d9b740f16c4",
	"sources-all-fail-bases-ok": "7162b0a7034204a57b9e",
	"bases-cross-chunk":         "deb0363bf1ad7cf2943e",
	"remote-base":               "e8517bbf6fcf7c8ef581",
}

var zzCWantFetch = map[string]string{
	"single/base":                                  "5b505cd411b45d35b952",
	"nine-every-third-fails/base":                  "db475e90ac8a55439b25",
	"all-fail/base":                                "ab2b5263ec654d56e84d",
	"129-boundary/base":                            "c3502908e46887bf1529",
	"300-many-fail/base":                           "7434446bc36bf561d96e",
	"300-remote-in-third-chunk/base":               "e6de3174fb8562e3c5a0",
	"bases-ok/base":                                "068224f0a1f3e814d757",
	"bases-ok/diffbase-normalize":                  "ada38885da2f30fbf3db",
	"bases-all-fail/base":                          "00722fa26ece07278f18",
	"bases-all-fail/diffbase-normalize":            "00722fa26ece07278f18",
	"sources-all-fail-bases-ok/base":               "70317ef0191bc4f3829d",
	"sources-all-fail-bases-ok/diffbase-normalize": "70317ef0191bc4f3829d",
	"bases-cross-chunk/base":                       "2b451529e373f3fbb32a",
	"bases-cross-chunk/diffbase-normalize":         "1a0516a85ccc2cf573d3",
	"remote-base/base":                             "622ac9364d139bfbd7b3",
	"remote-base/diffbase-normalize":               "1cb10802419227bce9fc",
}

var zzCWantGrabProfile = map[string]string{
	"mem/fetcher=true/0":              "8ca4d2b27de2305dbd44",
	"mem/fetcher=true/1":              "2ee7a94b6e1c277a6d5d",
	"mem/fetcher=true/2":              "2c0e72bb087c650fd536",
	"mem/fetcher=true/5":              "cb95a7726dd46da9a4de",
	"http-local/fetcher=true/0":       "672176c57d674ad063d9",
	"http-local/fetcher=true/1":       "1ae88997ebd713b5d83c",
	"http-local/fetcher=true/2":       "b35be9c56dece6bb10b2",
	"http-local/fetcher=true/5":       "28ed84e1c89682054c93",
	"http-local/fetcher=false/0":      "672176c57d674ad063d9",
	"http-local/fetcher=false/1":      "1ae88997ebd713b5d83c",
	"http-local/fetcher=false/2":      "b35be9c56dece6bb10b2",
	"http-local/fetcher=false/5":      "28ed84e1c89682054c93",
	"http-remote/fetcher=true/0":      "7e5eda2869de6bf386fd",
	"http-remote/fetcher=true/1":      "a19f0cbf592343492e63",
	"http-remote/fetcher=true/2":      "8b53e1a1643c264f7a30",
	"http-remote/fetcher=true/5":      "591ebf678a412c3abc8a",
	"http-remote/fetcher=false/0":     "7e5eda2869de6bf386fd",
	"http-remote/fetcher=false/1":     "a19f0cbf592343492e63",
	"http-remote/fetcher=false/2":     "8b53e1a1643c264f7a30",
	"http-remote/fetcher=false/5":     "591ebf678a412c3abc8a",
	"file/fetcher=true/0":             "8ca4d2b27de2305dbd44",
	"file/fetcher=true/1":             "2ee7a94b6e1c277a6d5d",
	"file/fetcher=true/2":             "2c0e72bb087c650fd536",
	"file/fetcher=true/5":             "cb95a7726dd46da9a4de",
	"file/fetcher=false/0":            "8ca4d2b27de2305dbd44",
	"file/fetcher=false/1":            "2ee7a94b6e1c277a6d5d",
	"file/fetcher=false/2":            "2c0e72bb087c650fd536",
	"file/fetcher=false/5":            "cb95a7726dd46da9a4de",
	"fetcher-url/fetcher=true/0":      "51d4b038611e5a2e1ec6",
	"fetcher-url/fetcher=true/1":      "d1dd9d9f56822e03c749",
	"fetcher-url/fetcher=true/2":      "6480e60b5d3fab0972a5",
	"fetcher-url/fetcher=true/5":      "c3b543bd748fdea63da2",
	"missing/fetcher=true/0":          "9f7470171ba326e54be1",
	"missing/fetcher=true/1":          "f5508a87d69551f90dae",
	"missing/fetcher=true/2":          "34536c713edb332409fa",
	"missing/fetcher=true/5":          "610309ca95b3d8f4056c",
	"missing/fetcher=false/0":         "9f7470171ba326e54be1",
	"missing/fetcher=false/1":         "f5508a87d69551f90dae",
	"missing/fetcher=false/2":         "34536c713edb332409fa",
	"missing/fetcher=false/5":         "610309ca95b3d8f4056c",
	"status-500/fetcher=true/0":       "0e8d45080598575336d9",
	"status-500/fetcher=true/1":       "0e8d45080598575336d9",
	"status-500/fetcher=true/2":       "0e8d45080598575336d9",
	"status-500/fetcher=true/5":       "0e8d45080598575336d9",
	"status-500/fetcher=false/0":      "0e8d45080598575336d9",
	"status-500/fetcher=false/1":      "0e8d45080598575336d9",
	"status-500/fetcher=false/2":      "0e8d45080598575336d9",
	"status-500/fetcher=false/5":      "0e8d45080598575336d9",
	"pprof-503/fetcher=true/0":        "6f0c29ac7a564ec7126c",
	"pprof-503/fetcher=true/1":        "aeef61124a1847055138",
	"pprof-503/fetcher=true/2":        "51f07aed634ed8164b0a",
	"pprof-503/fetcher=true/5":        "112ff0dc6094fc7a0aa4",
	"pprof-503/fetcher=false/0":       "6f0c29ac7a564ec7126c",
	"pprof-503/fetcher=false/1":       "aeef61124a1847055138",
	"pprof-503/fetcher=false/2":       "51f07aed634ed8164b0a",
	"pprof-503/fetcher=false/5":       "112ff0dc6094fc7a0aa4",
	"garbage-body/fetcher=true/0":     "ce3a0ab1dc0ff4516d88",
	"garbage-body/fetcher=true/1":     "ce3a0ab1dc0ff4516d88",
	"garbage-body/fetcher=true/2":     "ce3a0ab1dc0ff4516d88",
	"garbage-body/fetcher=true/5":     "ce3a0ab1dc0ff4516d88",
	"garbage-body/fetcher=false/0":    "ce3a0ab1dc0ff4516d88",
	"garbage-body/fetcher=false/1":    "ce3a0ab1dc0ff4516d88",
	"garbage-body/fetcher=false/2":    "ce3a0ab1dc0ff4516d88",
	"garbage-body/fetcher=false/5":    "ce3a0ab1dc0ff4516d88",
	"garbage-file/fetcher=true/0":     "ce3a0ab1dc0ff4516d88",
	"garbage-file/fetcher=true/1":     "ce3a0ab1dc0ff4516d88",
	"garbage-file/fetcher=true/2":     "ce3a0ab1dc0ff4516d88",
	"garbage-file/fetcher=true/5":     "ce3a0ab1dc0ff4516d88",
	"garbage-file/fetcher=false/0":    "ce3a0ab1dc0ff4516d88",
	"garbage-file/fetcher=false/1":    "ce3a0ab1dc0ff4516d88",
	"garbage-file/fetcher=false/2":    "ce3a0ab1dc0ff4516d88",
	"garbage-file/fetcher=false/5":    "ce3a0ab1dc0ff4516d88",
	"invalid/fetcher=true/0":          "44a0b734a77a48bb6c7d",
	"invalid/fetcher=true/1":          "75817e1fb53e01377adb",
	"invalid/fetcher=true/2":          "44a0b734a77a48bb6c7d",
	"invalid/fetcher=true/5":          "75817e1fb53e01377adb",
	"fetcher-error/fetcher=true/0":    "dae25c892e3f6aa72b5d",
	"fetcher-error/fetcher=true/1":    "8bb52abeffef6b93c8f7",
	"fetcher-error/fetcher=true/2":    "c51ec8d5547df43d2cff",
	"fetcher-error/fetcher=true/5":    "e2a59a09fcbdf0cea708",
	"transport-error/fetcher=true/0":  "93740f375f78dd3e8341",
	"transport-error/fetcher=true/1":  "623da8c44925bfb4421f",
	"transport-error/fetcher=true/2":  "c674430a34e1e7bb8f82",
	"transport-error/fetcher=true/5":  "d528aebf481ba805c2b6",
	"transport-error/fetcher=false/0": "93740f375f78dd3e8341",
	"transport-error/fetcher=false/1": "623da8c44925bfb4421f",
	"transport-error/fetcher=false/2": "c674430a34e1e7bb8f82",
	"transport-error/fetcher=false/5": "d528aebf481ba805c2b6",
}
