package driver

import (
	"fmt"
	"net/url"
	"os"
	"sort"
	"strings"
	"sync"
	"testing"
)

// zzEquivCDiff renders the fields of cfg that differ from the defaults.
func zzEquivCDiff(cfg config) string {
	def := defaultConfig()
	var parts []string
	for _, f := range configFields {
		if v := cfg.get(f); v != def.get(f) {
			parts = append(parts, fmt.Sprintf("%s=%q", f.name, v))
		}
	}
	sort.Strings(parts)
	return "{" + strings.Join(parts, " ") + "}"
}

var zzEquivCAssignments = [][2]string{
	{"nodecount", "5"}, {"nodecount", "-1"}, {"nodecount", ""}, {"nodecount", "1e3"}, {"nodecount", "99999999999999999999"},
	{"nodecount", "0x10"}, {"nodecount", " 7"}, {"nodecount", "+7"}, {"nodefraction", "0.5"}, {"nodefraction", "NaN"},
	{"nodefraction", "-Inf"}, {"nodefraction", "1e999"}, {"nodefraction", ""}, {"nodefraction", "0x1p-2"},
	{"edgefraction", "abc"}, {"divide_by", "0"}, {"divide_by", "-2.5"}, {"trim", "false"}, {"trim", "0"}, {"trim", "F"},
	{"trim", "no"}, {"trim", ""}, {"trim", "TRUE"}, {"trim", "tRuE"}, {"call_tree", "t"}, {"call_tree", "y"}, {"call_tree", "1"},
	{"call_tree", ""}, {"call_tree", "2"}, {"mean", "yes"}, {"sort", "cum"}, {"sort", "flat"}, {"sort", ""}, {"sort", "CUM"},
	{"sort", "functions"}, {"granularity", "lines"}, {"granularity", "cum"}, {"granularity", ""}, {"granularity", "addresses"},
	{"cum", "true"}, {"cum", "1"}, {"cum", "t"}, {"cum", "false"}, {"cum", ""}, {"cum", "yes"}, {"cum", "cum"}, {"flat", "true"},
	{"lines", "T"}, {"files", "0"}, {"filefunctions", "true"}, {"functions", "maybe"}, {"addresses", "TRUE"},
	{"focus", "a|b"}, {"focus", ""}, {"focus", "["}, {"focus", "\x00\xff"}, {"tagfocus", "1:99999999999999999999"},
	{"unit", "furlongs"}, {"unit", ""}, {"sample_index", "nope"}, {"output", "/dev/null"}, {"source_path", "a:b"},
	{"trim_path", ""}, {"tagroot", "k,"}, {"showcolumns", "true"}, {"noinlines", "f"}, {"intel_syntax", "x"},
	{"unknown", "1"}, {"", ""}, {"", "true"}, {"Nodecount", "5"}, {"node count", "5"}, {"nodecount ", "5"}, {"NodeCount", "5"},
	{"Output", "x"}, {"-", "x"}, {"json", "x"}, {"choices", "true"}, {"cum ", "true"}, {"relative_percentages", "True"},
	{"compact_labels", "false"}, {"drop_negative", "1"}, {"normalize", "t"}, {"prune_from", "x"}, {"hide", "h"}, {"show", "s"},
	{"show_from", "sf"}, {"tagignore", "ti"}, {"tagshow", "ts"}, {"taghide", "th"}, {"tagleaf", "tl"}, {"ignore", "i"},
}

var zzEquivCNames = []string{
	"", "nodecount", "trim", "cum", "flat", "sort", "granularity", "lines", "files", "functions", "filefunctions", "addresses",
	"focus", "call_tree", "mean", "divide_by", "output", "source_path", "trim_path", "sample_index", "unknown", "Trim", "trim ",
	"relative_percentages", "unit", "compact_labels", "intel_syntax", "normalize", "tagroot", "tagleaf", "drop_negative",
	"nodefraction", "edgefraction", "ignore", "prune_from", "hide", "show", "show_from", "tagfocus", "tagignore", "tagshow",
	"taghide", "noinlines", "showcolumns", "Output", "DivideBy", "-", "top", "o", "\x00",
}

var zzEquivCQueries = []string{
	"", "n=5", "n=abc", "n=", "n=5&n=6", "nf=0.1&ef=0.2", "nf=x", "f=a%7Cb&i=c", "f=%5B", "sort=cum", "sort=bogus", "g=lines",
	"g=cum", "trim=f", "trim=false", "trim=2", "calltree=t&rel=1&compact=true&intel=T&mean=1&norm=t&dropneg=t", "calltree=yes",
	"si=cpu", "si=", "unit=ms", "tf=1kb:&ti=k%3Dv&ts=a&th=b", "h=x&s=y&sf=z&prunefrom=p", "noinlines=t&showcolumns=1",
	"tagroot=a,b&tagleaf=c", "output=foo", "divide_by=0", "unknown=1&n=9", "N=5", "n=99999999999999999999", "n=-0", "nf=-1e400",
	"f=%00%FF", "n=5;nf=0.5", "%zz", "n=%zz", "n=+5", "n=%2B5", "ef=.5&ef=x",
}

func zzEquivCDigest(t *testing.T) string {
	saved := currentConfig()
	defer setCurrentConfig(saved)

	var b strings.Builder
	for _, a := range zzEquivCAssignments {
		setCurrentConfig(defaultConfig())
		err := configure(a[0], a[1])
		fmt.Fprintf(&b, "configure(%q,%q): err=%v cfg=%s\n", a[0], a[1], err, zzEquivCDiff(currentConfig()))
	}
	// Sequences: a failed assignment must leave earlier ones in place.
	setCurrentConfig(defaultConfig())
	for _, a := range [][2]string{{"nodecount", "7"}, {"nodecount", "x"}, {"cum", "true"}, {"cum", "false"}, {"sort", "bad"},
		{"lines", "1"}, {"granularity", "nope"}, {"files", "t"}, {"trim", "maybe"}, {"trim", "f"}, {"bogus", "1"}, {"focus", "x"}} {
		err := configure(a[0], a[1])
		fmt.Fprintf(&b, "seq configure(%q,%q): err=%v cfg=%s\n", a[0], a[1], err, zzEquivCDiff(currentConfig()))
	}
	for _, n := range zzEquivCNames {
		fmt.Fprintf(&b, "name %q: configurable=%v bool=%v\n", n, isConfigurable(n), isBoolConfig(n))
	}
	for _, p := range []string{"", "n", "no", "node", "nodec", "t", "tag", "tagf", "s", "so", "sort", "c", "cu", "cum", "f", "fi",
		"file", "files", "filef", "g", "l", "a", "x", "N", "-", "nodecount", "nodecountx", "sample", "o", "d", "dr", "di"} {
		got := completeConfig(p)
		sort.Strings(got)
		fmt.Fprintf(&b, "complete %q: %q match=%q\n", p, got, matchVariableOrCommand(p))
	}
	for _, q := range zzEquivCQueries {
		params, perr := url.ParseQuery(q)
		cfg := defaultConfig()
		err := cfg.applyURL(params)
		u, changed := cfg.makeURL(url.URL{Path: "/ui/", RawQuery: "keep=1&n=3"})
		fmt.Fprintf(&b, "query %q: parse=%v err=%v cfg=%s url=%s changed=%v\n", q, perr, err, zzEquivCDiff(cfg), u.String(), changed)
	}

	// Concurrent assignments and reads: no deadlock, and the final state is
	// one of the assigned values with nothing else disturbed.
	setCurrentConfig(defaultConfig())
	var wg sync.WaitGroup
	for i := 0; i < 16; i++ {
		wg.Add(2)
		go func(i int) {
			defer wg.Done()
			for j := 0; j < 200; j++ {
				if err := configure("nodecount", fmt.Sprint(100+i)); err != nil {
					t.Error(err)
				}
				configure("nodecount", "bad")
				configure("cum", "true")
				configure("nosuch", "1")
			}
		}(i)
		go func() {
			defer wg.Done()
			for j := 0; j < 200; j++ {
				if c := currentConfig(); c.NodeCount != -1 && (c.NodeCount < 100 || c.NodeCount > 115) {
					t.Errorf("unexpected nodecount %d", c.NodeCount)
				}
			}
		}()
	}
	wg.Wait()
	final := currentConfig()
	ok := final.NodeCount >= 100 && final.NodeCount <= 115
	final.NodeCount = -1
	fmt.Fprintf(&b, "concurrent: nodecount in range=%v rest=%s\n", ok, zzEquivCDiff(final))
	return b.String()
}

func TestZZEquivC(t *testing.T) {
	got := zzEquivCDigest(t)
	if out := os.Getenv("ZZ_EQUIV_WRITE"); out != "" {
		if err := os.WriteFile(out, []byte(got), 0o644); err != nil {
			t.Fatal(err)
		}
		return
	}
	if got != zzEquivCWant {
		gl, wl := strings.Split(got, "\n"), strings.Split(zzEquivCWant, "\n")
		for i := 0; i < len(gl) && i < len(wl); i++ {
			if gl[i] != wl[i] {
				t.Errorf("line %d:\n got  %s\n want %s", i, gl[i], wl[i])
			}
		}
		t.Fatalf("digest differs (got %d lines, want %d)", len(gl), len(wl))
	}
}

// Expected digest, computed on the unchanged tree.
var zzEquivCWant = strings.Join([]string{
	"configure(\"nodecount\",\"5\"): err=<nil> cfg={nodecount=\"5\"}",
	"configure(\"nodecount\",\"-1\"): err=<nil> cfg={}",
	"configure(\"nodecount\",\"\"): err=strconv.Atoi: parsing \"\": invalid syntax cfg={}",
	"configure(\"nodecount\",\"1e3\"): err=strconv.Atoi: parsing \"1e3\": invalid syntax cfg={}",
	"configure(\"nodecount\",\"99999999999999999999\"): err=strconv.Atoi: parsing \"99999999999999999999\": value out of range cfg={}",
	"configure(\"nodecount\",\"0x10\"): err=strconv.Atoi: parsing \"0x10\": invalid syntax cfg={}",
	"configure(\"nodecount\",\" 7\"): err=strconv.Atoi: parsing \" 7\": invalid syntax cfg={}",
	"configure(\"nodecount\",\"+7\"): err=<nil> cfg={nodecount=\"7\"}",
	"configure(\"nodefraction\",\"0.5\"): err=<nil> cfg={nodefraction=\"0.5\"}",
	"configure(\"nodefraction\",\"NaN\"): err=<nil> cfg={nodefraction=\"NaN\"}",
	"configure(\"nodefraction\",\"-Inf\"): err=<nil> cfg={nodefraction=\"-Inf\"}",
	"configure(\"nodefraction\",\"1e999\"): err=strconv.ParseFloat: parsing \"1e999\": value out of range cfg={}",
	"configure(\"nodefraction\",\"\"): err=strconv.ParseFloat: parsing \"\": invalid syntax cfg={}",
	"configure(\"nodefraction\",\"0x1p-2\"): err=<nil> cfg={nodefraction=\"0.25\"}",
	"configure(\"edgefraction\",\"abc\"): err=strconv.ParseFloat: parsing \"abc\": invalid syntax cfg={}",
	"configure(\"divide_by\",\"0\"): err=<nil> cfg={divide_by=\"0\"}",
	"configure(\"divide_by\",\"-2.5\"): err=<nil> cfg={divide_by=\"-2.5\"}",
	"configure(\"trim\",\"false\"): err=<nil> cfg={trim=\"false\"}",
	"configure(\"trim\",\"0\"): err=<nil> cfg={trim=\"false\"}",
	"configure(\"trim\",\"F\"): err=<nil> cfg={trim=\"false\"}",
	"configure(\"trim\",\"no\"): err=<nil> cfg={trim=\"false\"}",
	"configure(\"trim\",\"\"): err=<nil> cfg={}",
	"configure(\"trim\",\"TRUE\"): err=<nil> cfg={}",
	"configure(\"trim\",\"tRuE\"): err=<nil> cfg={}",
	"configure(\"call_tree\",\"t\"): err=<nil> cfg={call_tree=\"true\"}",
	"configure(\"call_tree\",\"y\"): err=<nil> cfg={call_tree=\"true\"}",
	"configure(\"call_tree\",\"1\"): err=<nil> cfg={call_tree=\"true\"}",
	"configure(\"call_tree\",\"\"): err=<nil> cfg={call_tree=\"true\"}",
	"configure(\"call_tree\",\"2\"): err=illegal value \"2\" for bool variable cfg={}",
	"configure(\"mean\",\"yes\"): err=<nil> cfg={mean=\"true\"}",
	"configure(\"sort\",\"cum\"): err=<nil> cfg={sort=\"cum\"}",
	"configure(\"sort\",\"flat\"): err=<nil> cfg={}",
	"configure(\"sort\",\"\"): err=invalid \"sort\" value \"\" cfg={}",
	"configure(\"sort\",\"CUM\"): err=invalid \"sort\" value \"CUM\" cfg={}",
	"configure(\"sort\",\"functions\"): err=invalid \"sort\" value \"functions\" cfg={}",
	"configure(\"granularity\",\"lines\"): err=<nil> cfg={granularity=\"lines\"}",
	"configure(\"granularity\",\"cum\"): err=invalid \"granularity\" value \"cum\" cfg={}",
	"configure(\"granularity\",\"\"): err=invalid \"granularity\" value \"\" cfg={}",
	"configure(\"granularity\",\"addresses\"): err=<nil> cfg={granularity=\"addresses\"}",
	"configure(\"cum\",\"true\"): err=<nil> cfg={sort=\"cum\"}",
	"configure(\"cum\",\"1\"): err=<nil> cfg={sort=\"cum\"}",
	"configure(\"cum\",\"t\"): err=<nil> cfg={sort=\"cum\"}",
	"configure(\"cum\",\"false\"): err=unknown config field \"cum\" cfg={}",
	"configure(\"cum\",\"\"): err=unknown config field \"cum\" cfg={}",
	"configure(\"cum\",\"yes\"): err=unknown config field \"cum\" cfg={}",
	"configure(\"cum\",\"cum\"): err=unknown config field \"cum\" cfg={}",
	"configure(\"flat\",\"true\"): err=<nil> cfg={}",
	"configure(\"lines\",\"T\"): err=<nil> cfg={granularity=\"lines\"}",
	"configure(\"files\",\"0\"): err=unknown config field \"files\" cfg={}",
	"configure(\"filefunctions\",\"true\"): err=<nil> cfg={granularity=\"filefunctions\"}",
	"configure(\"functions\",\"maybe\"): err=unknown config field \"functions\" cfg={}",
	"configure(\"addresses\",\"TRUE\"): err=<nil> cfg={granularity=\"addresses\"}",
	"configure(\"focus\",\"a|b\"): err=<nil> cfg={focus=\"a|b\"}",
	"configure(\"focus\",\"\"): err=<nil> cfg={}",
	"configure(\"focus\",\"[\"): err=<nil> cfg={focus=\"[\"}",
	"configure(\"focus\",\"\\x00\\xff\"): err=<nil> cfg={focus=\"\\x00\\xff\"}",
	"configure(\"tagfocus\",\"1:99999999999999999999\"): err=<nil> cfg={tagfocus=\"1:99999999999999999999\"}",
	"configure(\"unit\",\"furlongs\"): err=<nil> cfg={unit=\"furlongs\"}",
	"configure(\"unit\",\"\"): err=<nil> cfg={unit=\"\"}",
	"configure(\"sample_index\",\"nope\"): err=<nil> cfg={sample_index=\"nope\"}",
	"configure(\"output\",\"/dev/null\"): err=<nil> cfg={output=\"/dev/null\"}",
	"configure(\"source_path\",\"a:b\"): err=<nil> cfg={source_path=\"a:b\"}",
	"configure(\"trim_path\",\"\"): err=<nil> cfg={}",
	"configure(\"tagroot\",\"k,\"): err=<nil> cfg={tagroot=\"k,\"}",
	"configure(\"showcolumns\",\"true\"): err=<nil> cfg={showcolumns=\"true\"}",
	"configure(\"noinlines\",\"f\"): err=<nil> cfg={}",
	"configure(\"intel_syntax\",\"x\"): err=illegal value \"x\" for bool variable cfg={}",
	"configure(\"unknown\",\"1\"): err=unknown config field \"unknown\" cfg={}",
	"configure(\"\",\"\"): err=unknown config field \"\" cfg={}",
	"configure(\"\",\"true\"): err=unknown config field \"\" cfg={}",
	"configure(\"Nodecount\",\"5\"): err=unknown config field \"Nodecount\" cfg={}",
	"configure(\"node count\",\"5\"): err=unknown config field \"node count\" cfg={}",
	"configure(\"nodecount \",\"5\"): err=unknown config field \"nodecount \" cfg={}",
	"configure(\"NodeCount\",\"5\"): err=unknown config field \"NodeCount\" cfg={}",
	"configure(\"Output\",\"x\"): err=unknown config field \"Output\" cfg={}",
	"configure(\"-\",\"x\"): err=unknown config field \"-\" cfg={}",
	"configure(\"json\",\"x\"): err=unknown config field \"json\" cfg={}",
	"configure(\"choices\",\"true\"): err=unknown config field \"choices\" cfg={}",
	"configure(\"cum \",\"true\"): err=unknown config field \"cum \" cfg={}",
	"configure(\"relative_percentages\",\"True\"): err=<nil> cfg={relative_percentages=\"true\"}",
	"configure(\"compact_labels\",\"false\"): err=<nil> cfg={}",
	"configure(\"drop_negative\",\"1\"): err=<nil> cfg={drop_negative=\"true\"}",
	"configure(\"normalize\",\"t\"): err=<nil> cfg={normalize=\"true\"}",
	"configure(\"prune_from\",\"x\"): err=<nil> cfg={prune_from=\"x\"}",
	"configure(\"hide\",\"h\"): err=<nil> cfg={hide=\"h\"}",
	"configure(\"show\",\"s\"): err=<nil> cfg={show=\"s\"}",
	"configure(\"show_from\",\"sf\"): err=<nil> cfg={show_from=\"sf\"}",
	"configure(\"tagignore\",\"ti\"): err=<nil> cfg={tagignore=\"ti\"}",
	"configure(\"tagshow\",\"ts\"): err=<nil> cfg={tagshow=\"ts\"}",
	"configure(\"taghide\",\"th\"): err=<nil> cfg={taghide=\"th\"}",
	"configure(\"tagleaf\",\"tl\"): err=<nil> cfg={tagleaf=\"tl\"}",
	"configure(\"ignore\",\"i\"): err=<nil> cfg={ignore=\"i\"}",
	"seq configure(\"nodecount\",\"7\"): err=<nil> cfg={nodecount=\"7\"}",
	"seq configure(\"nodecount\",\"x\"): err=strconv.Atoi: parsing \"x\": invalid syntax cfg={nodecount=\"7\"}",
	"seq configure(\"cum\",\"true\"): err=<nil> cfg={nodecount=\"7\" sort=\"cum\"}",
	"seq configure(\"cum\",\"false\"): err=unknown config field \"cum\" cfg={nodecount=\"7\" sort=\"cum\"}",
	"seq configure(\"sort\",\"bad\"): err=invalid \"sort\" value \"bad\" cfg={nodecount=\"7\" sort=\"cum\"}",
	"seq configure(\"lines\",\"1\"): err=<nil> cfg={granularity=\"lines\" nodecount=\"7\" sort=\"cum\"}",
	"seq configure(\"granularity\",\"nope\"): err=invalid \"granularity\" value \"nope\" cfg={granularity=\"lines\" nodecount=\"7\" sort=\"cum\"}",
	"seq configure(\"files\",\"t\"): err=<nil> cfg={granularity=\"files\" nodecount=\"7\" sort=\"cum\"}",
	"seq configure(\"trim\",\"maybe\"): err=illegal value \"maybe\" for bool variable cfg={granularity=\"files\" nodecount=\"7\" sort=\"cum\"}",
	"seq configure(\"trim\",\"f\"): err=<nil> cfg={granularity=\"files\" nodecount=\"7\" sort=\"cum\" trim=\"false\"}",
	"seq configure(\"bogus\",\"1\"): err=unknown config field \"bogus\" cfg={granularity=\"files\" nodecount=\"7\" sort=\"cum\" trim=\"false\"}",
	"seq configure(\"focus\",\"x\"): err=<nil> cfg={focus=\"x\" granularity=\"files\" nodecount=\"7\" sort=\"cum\" trim=\"false\"}",
	"name \"\": configurable=false bool=false",
	"name \"nodecount\": configurable=true bool=false",
	"name \"trim\": configurable=true bool=true",
	"name \"cum\": configurable=true bool=true",
	"name \"flat\": configurable=true bool=true",
	"name \"sort\": configurable=true bool=false",
	"name \"granularity\": configurable=true bool=false",
	"name \"lines\": configurable=true bool=true",
	"name \"files\": configurable=true bool=true",
	"name \"functions\": configurable=true bool=true",
	"name \"filefunctions\": configurable=true bool=true",
	"name \"addresses\": configurable=true bool=true",
	"name \"focus\": configurable=true bool=false",
	"name \"call_tree\": configurable=true bool=true",
	"name \"mean\": configurable=true bool=true",
	"name \"divide_by\": configurable=true bool=false",
	"name \"output\": configurable=true bool=false",
	"name \"source_path\": configurable=true bool=false",
	"name \"trim_path\": configurable=true bool=false",
	"name \"sample_index\": configurable=true bool=false",
	"name \"unknown\": configurable=false bool=false",
	"name \"Trim\": configurable=false bool=false",
	"name \"trim \": configurable=false bool=false",
	"name \"relative_percentages\": configurable=true bool=true",
	"name \"unit\": configurable=true bool=false",
	"name \"compact_labels\": configurable=true bool=true",
	"name \"intel_syntax\": configurable=true bool=true",
	"name \"normalize\": configurable=true bool=true",
	"name \"tagroot\": configurable=true bool=false",
	"name \"tagleaf\": configurable=true bool=false",
	"name \"drop_negative\": configurable=true bool=true",
	"name \"nodefraction\": configurable=true bool=false",
	"name \"edgefraction\": configurable=true bool=false",
	"name \"ignore\": configurable=true bool=false",
	"name \"prune_from\": configurable=true bool=false",
	"name \"hide\": configurable=true bool=false",
	"name \"show\": configurable=true bool=false",
	"name \"show_from\": configurable=true bool=false",
	"name \"tagfocus\": configurable=true bool=false",
	"name \"tagignore\": configurable=true bool=false",
	"name \"tagshow\": configurable=true bool=false",
	"name \"taghide\": configurable=true bool=false",
	"name \"noinlines\": configurable=true bool=true",
	"name \"showcolumns\": configurable=true bool=true",
	"name \"Output\": configurable=false bool=false",
	"name \"DivideBy\": configurable=false bool=false",
	"name \"-\": configurable=false bool=false",
	"name \"top\": configurable=false bool=false",
	"name \"o\": configurable=false bool=false",
	"name \"\\x00\": configurable=false bool=false",
	"complete \"\": [\"addresses\" \"call_tree\" \"compact_labels\" \"cum\" \"divide_by\" \"drop_negative\" \"edgefraction\" \"filefunctions\" \"files\" \"flat\" \"focus\" \"functions\" \"granularity\" \"hide\" \"ignore\" \"intel_syntax\" \"lines\" \"mean\" \"nodecount\" \"nodefraction\" \"noinlines\" \"normalize\" \"output\" \"prune_from\" \"relative_percentages\" \"sample_index\" \"show\" \"show_from\" \"showcolumns\" \"sort\" \"source_path\" \"tagfocus\" \"taghide\" \"tagignore\" \"tagleaf\" \"tagroot\" \"tagshow\" \"trim\" \"trim_path\" \"unit\"] match=\"\"",
	"complete \"n\": [\"nodecount\" \"nodefraction\" \"noinlines\" \"normalize\"] match=\"\"",
	"complete \"no\": [\"nodecount\" \"nodefraction\" \"noinlines\" \"normalize\"] match=\"\"",
	"complete \"node\": [\"nodecount\" \"nodefraction\"] match=\"\"",
	"complete \"nodec\": [\"nodecount\"] match=\"nodecount\"",
	"complete \"t\": [\"tagfocus\" \"taghide\" \"tagignore\" \"tagleaf\" \"tagroot\" \"tagshow\" \"trim\" \"trim_path\"] match=\"\"",
	"complete \"tag\": [\"tagfocus\" \"taghide\" \"tagignore\" \"tagleaf\" \"tagroot\" \"tagshow\"] match=\"\"",
	"complete \"tagf\": [\"tagfocus\"] match=\"tagfocus\"",
	"complete \"s\": [\"sample_index\" \"show\" \"show_from\" \"showcolumns\" \"sort\" \"source_path\"] match=\"\"",
	"complete \"so\": [\"sort\" \"source_path\"] match=\"\"",
	"complete \"sort\": [\"sort\"] match=\"sort\"",
	"complete \"c\": [\"call_tree\" \"compact_labels\" \"cum\"] match=\"\"",
	"complete \"cu\": [\"cum\"] match=\"cum\"",
	"complete \"cum\": [\"cum\"] match=\"cum\"",
	"complete \"f\": [\"filefunctions\" \"files\" \"flat\" \"focus\" \"functions\"] match=\"\"",
	"complete \"fi\": [\"filefunctions\" \"files\"] match=\"\"",
	"complete \"file\": [\"filefunctions\" \"files\"] match=\"\"",
	"complete \"files\": [\"files\"] match=\"files\"",
	"complete \"filef\": [\"filefunctions\"] match=\"filefunctions\"",
	"complete \"g\": [\"granularity\"] match=\"\"",
	"complete \"l\": [\"lines\"] match=\"\"",
	"complete \"a\": [\"addresses\"] match=\"addresses\"",
	"complete \"x\": [] match=\"\"",
	"complete \"N\": [] match=\"\"",
	"complete \"-\": [] match=\"\"",
	"complete \"nodecount\": [\"nodecount\"] match=\"nodecount\"",
	"complete \"nodecountx\": [] match=\"\"",
	"complete \"sample\": [\"sample_index\"] match=\"sample_index\"",
	"complete \"o\": [\"output\"] match=\"output\"",
	"complete \"d\": [\"divide_by\" \"drop_negative\"] match=\"\"",
	"complete \"dr\": [\"drop_negative\"] match=\"drop_negative\"",
	"complete \"di\": [\"divide_by\"] match=\"\"",
	"query \"\": parse=<nil> err=<nil> cfg={} url=/ui/?keep=1 changed=true",
	"query \"n=5\": parse=<nil> err=<nil> cfg={nodecount=\"5\"} url=/ui/?keep=1&n=5 changed=true",
	"query \"n=abc\": parse=<nil> err=error setting config field nodecount: strconv.Atoi: parsing \"abc\": invalid syntax cfg={} url=/ui/?keep=1 changed=true",
	"query \"n=\": parse=<nil> err=<nil> cfg={} url=/ui/?keep=1 changed=true",
	"query \"n=5&n=6\": parse=<nil> err=<nil> cfg={nodecount=\"5\"} url=/ui/?keep=1&n=5 changed=true",
	"query \"nf=0.1&ef=0.2\": parse=<nil> err=<nil> cfg={edgefraction=\"0.2\" nodefraction=\"0.1\"} url=/ui/?ef=0.2&keep=1&nf=0.1 changed=true",
	"query \"nf=x\": parse=<nil> err=error setting config field nodefraction: strconv.ParseFloat: parsing \"x\": invalid syntax cfg={} url=/ui/?keep=1 changed=true",
	"query \"f=a%7Cb&i=c\": parse=<nil> err=<nil> cfg={focus=\"a|b\" ignore=\"c\"} url=/ui/?f=a%7Cb&i=c&keep=1 changed=true",
	"query \"f=%5B\": parse=<nil> err=<nil> cfg={focus=\"[\"} url=/ui/?f=%5B&keep=1 changed=true",
	"query \"sort=cum\": parse=<nil> err=<nil> cfg={sort=\"cum\"} url=/ui/?keep=1&sort=cum changed=true",
	"query \"sort=bogus\": parse=<nil> err=error setting config field sort: invalid \"sort\" value \"bogus\" cfg={} url=/ui/?keep=1 changed=true",
	"query \"g=lines\": parse=<nil> err=<nil> cfg={granularity=\"lines\"} url=/ui/?g=lines&keep=1 changed=true",
	"query \"g=cum\": parse=<nil> err=error setting config field granularity: invalid \"granularity\" value \"cum\" cfg={} url=/ui/?keep=1 changed=true",
	"query \"trim=f\": parse=<nil> err=<nil> cfg={trim=\"false\"} url=/ui/?keep=1&trim=f changed=true",
	"query \"trim=false\": parse=<nil> err=<nil> cfg={trim=\"false\"} url=/ui/?keep=1&trim=f changed=true",
	"query \"trim=2\": parse=<nil> err=error setting config field trim: illegal value \"2\" for bool variable cfg={} url=/ui/?keep=1 changed=true",
	"query \"calltree=t&rel=1&compact=true&intel=T&mean=1&norm=t&dropneg=t\": parse=<nil> err=<nil> cfg={call_tree=\"true\" compact_labels=\"true\" drop_negative=\"true\" intel_syntax=\"true\" mean=\"true\" normalize=\"true\" relative_percentages=\"true\"} url=/ui/?calltree=t&compact=t&dropneg=t&intel=t&keep=1&mean=t&norm=t&rel=t changed=true",
	"query \"calltree=yes\": parse=<nil> err=<nil> cfg={call_tree=\"true\"} url=/ui/?calltree=t&keep=1 changed=true",
	"query \"si=cpu\": parse=<nil> err=<nil> cfg={sample_index=\"cpu\"} url=/ui/?keep=1 changed=true",
	"query \"si=\": parse=<nil> err=<nil> cfg={} url=/ui/?keep=1 changed=true",
	"query \"unit=ms\": parse=<nil> err=<nil> cfg={unit=\"ms\"} url=/ui/?keep=1&unit=ms changed=true",
	"query \"tf=1kb:&ti=k%3Dv&ts=a&th=b\": parse=<nil> err=<nil> cfg={tagfocus=\"1kb:\" taghide=\"b\" tagignore=\"k=v\" tagshow=\"a\"} url=/ui/?keep=1&tf=1kb%3A&th=b&ti=k%3Dv&ts=a changed=true",
	"query \"h=x&s=y&sf=z&prunefrom=p\": parse=<nil> err=<nil> cfg={hide=\"x\" prune_from=\"p\" show=\"y\" show_from=\"z\"} url=/ui/?h=x&keep=1&prunefrom=p&s=y&sf=z changed=true",
	"query \"noinlines=t&showcolumns=1\": parse=<nil> err=<nil> cfg={noinlines=\"true\" showcolumns=\"true\"} url=/ui/?keep=1&noinlines=t&showcolumns=t changed=true",
	"query \"tagroot=a,b&tagleaf=c\": parse=<nil> err=<nil> cfg={tagleaf=\"c\" tagroot=\"a,b\"} url=/ui/?keep=1&tagleaf=c&tagroot=a%2Cb changed=true",
	"query \"output=foo\": parse=<nil> err=<nil> cfg={} url=/ui/?keep=1 changed=true",
	"query \"divide_by=0\": parse=<nil> err=<nil> cfg={} url=/ui/?keep=1 changed=true",
	"query \"unknown=1&n=9\": parse=<nil> err=<nil> cfg={nodecount=\"9\"} url=/ui/?keep=1&n=9 changed=true",
	"query \"N=5\": parse=<nil> err=<nil> cfg={} url=/ui/?keep=1 changed=true",
	"query \"n=99999999999999999999\": parse=<nil> err=error setting config field nodecount: strconv.Atoi: parsing \"99999999999999999999\": value out of range cfg={} url=/ui/?keep=1 changed=true",
	"query \"n=-0\": parse=<nil> err=<nil> cfg={nodecount=\"0\"} url=/ui/?keep=1&n=0 changed=true",
	"query \"nf=-1e400\": parse=<nil> err=error setting config field nodefraction: strconv.ParseFloat: parsing \"-1e400\": value out of range cfg={} url=/ui/?keep=1 changed=true",
	"query \"f=%00%FF\": parse=<nil> err=<nil> cfg={focus=\"\\x00\\xff\"} url=/ui/?f=%00%FF&keep=1 changed=true",
	"query \"n=5;nf=0.5\": parse=invalid semicolon separator in query err=<nil> cfg={} url=/ui/?keep=1 changed=true",
	"query \"%zz\": parse=invalid URL escape \"%zz\" err=<nil> cfg={} url=/ui/?keep=1 changed=true",
	"query \"n=%zz\": parse=invalid URL escape \"%zz\" err=<nil> cfg={} url=/ui/?keep=1 changed=true",
	"query \"n=+5\": parse=<nil> err=error setting config field nodecount: strconv.Atoi: parsing \" 5\": invalid syntax cfg={} url=/ui/?keep=1 changed=true",
	"query \"n=%2B5\": parse=<nil> err=<nil> cfg={nodecount=\"5\"} url=/ui/?keep=1&n=5 changed=true",
	"query \"ef=.5&ef=x\": parse=<nil> err=<nil> cfg={edgefraction=\"0.5\"} url=/ui/?ef=0.5&keep=1 changed=true",
	"concurrent: nodecount in range=true rest={sort=\"cum\"}",
	"",
}, "\n")
