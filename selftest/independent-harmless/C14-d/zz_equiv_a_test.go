package profile

// Equivalence demonstration for rewrite A (binary CPU profile word decoding
// and header probing). The expected strings below were produced on the
// UNCHANGED tree; the test must pass both with and without the patch.
//
// Only identifiers that exist in both versions are referenced (ParseData,
// parseCPU, Profile fields).

import (
	"bytes"
	"crypto/sha256"
	"encoding/binary"
	"fmt"
	"os"
	"sort"
	"strings"
	"testing"
)

type zzARec struct {
	count uint64
	stack []uint64
}

// zzADoc prints a profilez document: 5 header words, the records, the
// end-of-data marker (optional) and a text tail (memory map / java locations).
func zzADoc(order binary.ByteOrder, size int, kind, period uint64, recs []zzARec, eod bool, tail string) []byte {
	var buf bytes.Buffer
	put := func(v uint64) {
		if size == 4 {
			var w [4]byte
			order.PutUint32(w[:], uint32(v))
			buf.Write(w[:])
		} else {
			var w [8]byte
			order.PutUint64(w[:], v)
			buf.Write(w[:])
		}
	}
	for _, v := range []uint64{0, 3, kind, period, 0} {
		put(v)
	}
	for _, r := range recs {
		put(r.count)
		put(uint64(len(r.stack)))
		for _, a := range r.stack {
			put(a)
		}
	}
	if eod {
		put(0)
		put(1)
		put(0)
	}
	buf.WriteString(tail)
	return buf.Bytes()
}

// zzARender is a compact canonical rendering of what the property talks about.
func zzARender(p *Profile) string {
	var sb strings.Builder
	fmt.Fprintf(&sb, "period=%d/%s/%s types=", p.Period, p.PeriodType.Type, p.PeriodType.Unit)
	for _, st := range p.SampleType {
		fmt.Fprintf(&sb, "%s/%s,", st.Type, st.Unit)
	}
	fmt.Fprintf(&sb, " drop=%q keep=%q\n", p.DropFrames, p.KeepFrames)
	for _, s := range p.Sample {
		fmt.Fprintf(&sb, "S %v @", s.Value)
		for _, l := range s.Location {
			fmt.Fprintf(&sb, " %d:%#x", l.ID, l.Address)
			if l.Mapping != nil {
				fmt.Fprintf(&sb, "m%d", l.Mapping.ID)
			}
			for _, ln := range l.Line {
				fmt.Fprintf(&sb, "[%s %s:%d]", ln.Function.Name, ln.Function.Filename, ln.Line)
			}
		}
		var keys []string
		for k := range s.NumLabel {
			keys = append(keys, k)
		}
		sort.Strings(keys)
		for _, k := range keys {
			fmt.Fprintf(&sb, " %s=%v", k, s.NumLabel[k])
		}
		sb.WriteString("\n")
	}
	for _, m := range p.Mapping {
		fmt.Fprintf(&sb, "M %d %#x-%#x off=%#x file=%q build=%q\n", m.ID, m.Start, m.Limit, m.Offset, m.File, m.BuildID)
	}
	return sb.String()
}

const zzAProcMaps = `MAPPED_LIBRARIES:
00400000-00480000 r-xp 00000000 08:01 1234 /bin/prog
00480000-00490000 rw-p 00080000 08:01 1234 /bin/prog
7f0000000000-7f0000100000 r-xp 00002000 08:01 99 /lib/libc.so.6
`

const zzABriefMaps = `--- Memory map: ---
build=abcdef
0x400000-0x480000 /bin/prog (@0) $build
0x7f0000000000-0x7f0000100000 /lib/libfoo.so (@2000) 0123
`

const zzAJavaLocs = `0x1000 com.example.Foo.run (Foo.java:12)
0x2000 com.example.Bar.call (Bar.java:-1)
0x3000 memcpy (/lib/x86_64/libc.so.6)
0x4000 [generated stub/JIT]
0x5000 GC
0x9999 unused.Frame (U.java:1)
`

func zzACases() map[string][]byte {
	cases := map[string][]byte{}

	// 40 samples; 39 share the signal-handler frame 0x7f0000000501 at depth 1,
	// every third one also has a duplicated leaf.
	var many []zzARec
	for i := 0; i < 40; i++ {
		leaf := uint64(0x400100 + 0x10*i)
		st := []uint64{leaf}
		if i != 7 {
			st = append(st, 0x7f0000000501)
		}
		if i%3 == 0 {
			st = append(st, leaf)
		}
		st = append(st, 0x401000+uint64(i%5)*0x20, 0x402000)
		many = append(many, zzARec{uint64(i%4 + 1), st})
	}
	few := []zzARec{
		{3, []uint64{0x400123, 0x400200, 0x400300}},
		{1, []uint64{0x400123}},
		{7, []uint64{0x7f0000000010, 0x400200, 0x400300, 0x12}},
		{2, []uint64{0x400500, 0x400500, 0x400300}},
		{0, []uint64{0x400600, 0x400700}},
	}
	orders := []struct {
		name  string
		order binary.ByteOrder
		size  int
	}{
		{"32l", binary.LittleEndian, 4},
		{"32b", binary.BigEndian, 4},
		{"64l", binary.LittleEndian, 8},
		{"64b", binary.BigEndian, 8},
	}
	for _, o := range orders {
		manyO, fewO := many, few
		if o.size == 4 {
			// keep addresses within 32 bits
			manyO = nil
			for _, r := range many {
				var st []uint64
				for _, a := range r.stack {
					st = append(st, a&0xffffffff|0x100000)
				}
				manyO = append(manyO, zzARec{r.count, st})
			}
			fewO = nil
			for _, r := range few {
				var st []uint64
				for _, a := range r.stack {
					st = append(st, a&0xffffffff)
				}
				fewO = append(fewO, zzARec{r.count, st})
			}
		}
		cases["cpp-many-procmaps-"+o.name] = zzADoc(o.order, o.size, 0, 10000, manyO, true, zzAProcMaps)
		cases["cpp-few-brief-"+o.name] = zzADoc(o.order, o.size, 0, 2500, fewO, true, zzABriefMaps)
		cases["cpp-few-noeod-"+o.name] = zzADoc(o.order, o.size, 0, 1, fewO, false, "")
		cases["cpp-headeronly-"+o.name] = zzADoc(o.order, o.size, 0, 100, nil, false, "")
		cases["java-"+o.name] = zzADoc(o.order, o.size, 1, 10000, []zzARec{
			{5, []uint64{0x1000, 0x2000, 0x3000}},
			{2, []uint64{0x4000, 0x2000}},
			{1, []uint64{0x5000, 0x6000}},
			{9, []uint64{0x1000, 0x2000, 0x3000}},
		}, true, zzAJavaLocs)
		cases["badkind2-"+o.name] = zzADoc(o.order, o.size, 2, 100, fewO, true, zzAProcMaps)
		cases["period0-"+o.name] = zzADoc(o.order, o.size, 0, 0, fewO, true, zzAProcMaps)
		full := zzADoc(o.order, o.size, 0, 100, fewO, true, "")
		cases["hdr-minus-1-byte-"+o.name] = full[:5*o.size-1]
		cases["truncated-sample-"+o.name] = full[:5*o.size+3*o.size+1]
		cases["truncated-midword-"+o.name] = full[:len(full)-3*o.size-2]
	}
	// Non-zero padding word.
	bad := zzADoc(binary.LittleEndian, 8, 0, 100, few, true, "")
	bad[4*8] = 1
	cases["padding-nonzero-64l"] = bad
	cases["empty"] = nil
	cases["three-bytes"] = []byte{0, 0, 0}
	return cases
}

func zzAOutcome(data []byte) string {
	p, err := ParseData(data)
	if err != nil {
		return "ERR " + err.Error()
	}
	return fmt.Sprintf("%s#%x", zzARender(p), sha256.Sum256([]byte(p.String())))
}

func TestZZEquivA(t *testing.T) {
	cases := zzACases()
	var names []string
	for n := range cases {
		names = append(names, n)
	}
	sort.Strings(names)
	if os.Getenv("ZZ_PRINT") != "" {
		for _, n := range names {
			fmt.Printf("\t%q: %q,\n", n, zzAOutcome(cases[n]))
		}
		return
	}
	if len(names) != len(zzAWant) {
		t.Fatalf("have %d cases, %d expectations", len(names), len(zzAWant))
	}
	ok := 0
	for _, n := range names {
		got := zzAOutcome(cases[n])
		if got != zzAWant[n] {
			t.Errorf("case %s:\n got %q\nwant %q", n, got, zzAWant[n])
		}
		if !strings.HasPrefix(got, "ERR") {
			ok++
		}
		// parseCPU alone must classify the input the same way.
		_, err := parseCPU(cases[n])
		if (err == nil) != !strings.HasPrefix(got, "ERR") {
			t.Errorf("case %s: parseCPU err=%v but ParseData outcome %q", n, err, got)
		}
	}
	if ok < 20 {
		t.Errorf("only %d cases parsed successfully; the demonstration is too weak", ok)
	}
}

// zzAWant: outcomes recorded on the unchanged tree.
var zzAWant = map[string]string{
	"badkind2-32b":          "ERR parsing profile: unrecognized profile format",
	"badkind2-32l":          "ERR parsing profile: unrecognized profile format",
	"badkind2-64b":          "ERR parsing profile: unrecognized profile format",
	"badkind2-64l":          "ERR parsing profile: unrecognized profile format",
	"cpp-few-brief-32b":     "period=2500000/cpu/nanoseconds types=samples/count,cpu/nanoseconds, drop=\"ProfileData::Add|ProfileData::prof_handler|CpuProfiler::prof_handler|__pthread_sighandler|__restore\" keep=\"\"\nS [3 7500000] @ 1:0x400123m1 2:0x4001ffm1 3:0x4002ffm1\nS [1 2500000] @ 1:0x400123m1\nS [7 17500000] @ 4:0x10m3 2:0x4001ffm1 3:0x4002ffm1 5:0x11m3\nS [2 5000000] @ 6:0x400500m1 3:0x4002ffm1\nS [0 0] @ 8:0x400600m1 9:0x4006ffm1\nM 1 0x400000-0x480000 off=0x0 file=\"/bin/prog\" build=\"abcdef\"\nM 2 0x7f0000000000-0x7f0000100000 off=0x2000 file=\"/lib/libfoo.so\" build=\"0123\"\nM 3 0x0-0xffffffffffffffff off=0x0 file=\"\" build=\"\"\n#9df5479f9e4ad59238f0ffa60d7208aa5a1c50f60ace50f3cb7c4756598b06d8",
	"cpp-few-brief-32l":     "period=2500000/cpu/nanoseconds types=samples/count,cpu/nanoseconds, drop=\"ProfileData::Add|ProfileData::prof_handler|CpuProfiler::prof_handler|__pthread_sighandler|__restore\" keep=\"\"\nS [3 7500000] @ 1:0x400123m1 2:0x4001ffm1 3:0x4002ffm1\nS [1 2500000] @ 1:0x400123m1\nS [7 17500000] @ 4:0x10m3 2:0x4001ffm1 3:0x4002ffm1 5:0x11m3\nS [2 5000000] @ 6:0x400500m1 3:0x4002ffm1\nS [0 0] @ 8:0x400600m1 9:0x4006ffm1\nM 1 0x400000-0x480000 off=0x0 file=\"/bin/prog\" build=\"abcdef\"\nM 2 0x7f0000000000-0x7f0000100000 off=0x2000 file=\"/lib/libfoo.so\" build=\"0123\"\nM 3 0x0-0xffffffffffffffff off=0x0 file=\"\" build=\"\"\n#9df5479f9e4ad59238f0ffa60d7208aa5a1c50f60ace50f3cb7c4756598b06d8",
	"cpp-few-brief-64b":     "period=2500000/cpu/nanoseconds types=samples/count,cpu/nanoseconds, drop=\"ProfileData::Add|ProfileData::prof_handler|CpuProfiler::prof_handler|__pthread_sighandler|__restore\" keep=\"\"\nS [3 7500000] @ 1:0x400123m1 2:0x4001ffm1 3:0x4002ffm1\nS [1 2500000] @ 1:0x400123m1\nS [7 17500000] @ 4:0x7f0000000010m2 2:0x4001ffm1 3:0x4002ffm1 5:0x11m3\nS [2 5000000] @ 6:0x400500m1 3:0x4002ffm1\nS [0 0] @ 8:0x400600m1 9:0x4006ffm1\nM 1 0x400000-0x480000 off=0x0 file=\"/bin/prog\" build=\"abcdef\"\nM 2 0x7f0000000000-0x7f0000100000 off=0x2000 file=\"/lib/libfoo.so\" build=\"0123\"\nM 3 0x0-0xffffffffffffffff off=0x0 file=\"\" build=\"\"\n#d34d706d1e1b6e60b81bc3986a9c4738f41df2e0939c5d9b94bb8d6d63f4e342",
	"cpp-few-brief-64l":     "period=2500000/cpu/nanoseconds types=samples/count,cpu/nanoseconds, drop=\"ProfileData::Add|ProfileData::prof_handler|CpuProfiler::prof_handler|__pthread_sighandler|__restore\" keep=\"\"\nS [3 7500000] @ 1:0x400123m1 2:0x4001ffm1 3:0x4002ffm1\nS [1 2500000] @ 1:0x400123m1\nS [7 17500000] @ 4:0x7f0000000010m2 2:0x4001ffm1 3:0x4002ffm1 5:0x11m3\nS [2 5000000] @ 6:0x400500m1 3:0x4002ffm1\nS [0 0] @ 8:0x400600m1 9:0x4006ffm1\nM 1 0x400000-0x480000 off=0x0 file=\"/bin/prog\" build=\"abcdef\"\nM 2 0x7f0000000000-0x7f0000100000 off=0x2000 file=\"/lib/libfoo.so\" build=\"0123\"\nM 3 0x0-0xffffffffffffffff off=0x0 file=\"\" build=\"\"\n#d34d706d1e1b6e60b81bc3986a9c4738f41df2e0939c5d9b94bb8d6d63f4e342",
	"cpp-few-noeod-32b":     "period=1000/cpu/nanoseconds types=samples/count,cpu/nanoseconds, drop=\"ProfileData::Add|ProfileData::prof_handler|CpuProfiler::prof_handler|__pthread_sighandler|__restore\" keep=\"\"\nS [3 3000] @ 1:0x400123m1 2:0x4001ffm1 3:0x4002ffm1\nS [1 1000] @ 1:0x400123m1\nS [7 7000] @ 4:0x10m1 2:0x4001ffm1 3:0x4002ffm1 5:0x11m1\nS [2 2000] @ 6:0x400500m1 3:0x4002ffm1\nS [0 0] @ 8:0x400600m1 9:0x4006ffm1\nM 1 0x0-0xffffffffffffffff off=0x0 file=\"\" build=\"\"\n#645090e30a68852910dba86b09dba7482a3778cf54597542961a536c6d64659a",
	"cpp-few-noeod-32l":     "period=1000/cpu/nanoseconds types=samples/count,cpu/nanoseconds, drop=\"ProfileData::Add|ProfileData::prof_handler|CpuProfiler::prof_handler|__pthread_sighandler|__restore\" keep=\"\"\nS [3 3000] @ 1:0x400123m1 2:0x4001ffm1 3:0x4002ffm1\nS [1 1000] @ 1:0x400123m1\nS [7 7000] @ 4:0x10m1 2:0x4001ffm1 3:0x4002ffm1 5:0x11m1\nS [2 2000] @ 6:0x400500m1 3:0x4002ffm1\nS [0 0] @ 8:0x400600m1 9:0x4006ffm1\nM 1 0x0-0xffffffffffffffff off=0x0 file=\"\" build=\"\"\n#645090e30a68852910dba86b09dba7482a3778cf54597542961a536c6d64659a",
	"cpp-few-noeod-64b":     "period=1000/cpu/nanoseconds types=samples/count,cpu/nanoseconds, drop=\"ProfileData::Add|ProfileData::prof_handler|CpuProfiler::prof_handler|__pthread_sighandler|__restore\" keep=\"\"\nS [3 3000] @ 1:0x400123m1 2:0x4001ffm1 3:0x4002ffm1\nS [1 1000] @ 1:0x400123m1\nS [7 7000] @ 4:0x7f0000000010m1 2:0x4001ffm1 3:0x4002ffm1 5:0x11m1\nS [2 2000] @ 6:0x400500m1 3:0x4002ffm1\nS [0 0] @ 8:0x400600m1 9:0x4006ffm1\nM 1 0x0-0xffffffffffffffff off=0x0 file=\"\" build=\"\"\n#4a3dfe4649699212a4b237a2f02a1819c23ac87c4542ec7d466d5d02418f8186",
	"cpp-few-noeod-64l":     "period=1000/cpu/nanoseconds types=samples/count,cpu/nanoseconds, drop=\"ProfileData::Add|ProfileData::prof_handler|CpuProfiler::prof_handler|__pthread_sighandler|__restore\" keep=\"\"\nS [3 3000] @ 1:0x400123m1 2:0x4001ffm1 3:0x4002ffm1\nS [1 1000] @ 1:0x400123m1\nS [7 7000] @ 4:0x7f0000000010m1 2:0x4001ffm1 3:0x4002ffm1 5:0x11m1\nS [2 2000] @ 6:0x400500m1 3:0x4002ffm1\nS [0 0] @ 8:0x400600m1 9:0x4006ffm1\nM 1 0x0-0xffffffffffffffff off=0x0 file=\"\" build=\"\"\n#4a3dfe4649699212a4b237a2f02a1819c23ac87c4542ec7d466d5d02418f8186",
	"cpp-headeronly-32b":    "period=100000/cpu/nanoseconds types=samples/count,cpu/nanoseconds, drop=\"ProfileData::Add|ProfileData::prof_handler|CpuProfiler::prof_handler|__pthread_sighandler|__restore\" keep=\"\"\n#be12f01323a8ed12e90e893dd6c5e5bfb3ad092aca53b8d82870caf6b78dc61f",
	"cpp-headeronly-32l":    "period=100000/cpu/nanoseconds types=samples/count,cpu/nanoseconds, drop=\"ProfileData::Add|ProfileData::prof_handler|CpuProfiler::prof_handler|__pthread_sighandler|__restore\" keep=\"\"\n#be12f01323a8ed12e90e893dd6c5e5bfb3ad092aca53b8d82870caf6b78dc61f",
	"cpp-headeronly-64b":    "period=100000/cpu/nanoseconds types=samples/count,cpu/nanoseconds, drop=\"ProfileData::Add|ProfileData::prof_handler|CpuProfiler::prof_handler|__pthread_sighandler|__restore\" keep=\"\"\n#be12f01323a8ed12e90e893dd6c5e5bfb3ad092aca53b8d82870caf6b78dc61f",
	"cpp-headeronly-64l":    "period=100000/cpu/nanoseconds types=samples/count,cpu/nanoseconds, drop=\"ProfileData::Add|ProfileData::prof_handler|CpuProfiler::prof_handler|__pthread_sighandler|__restore\" keep=\"\"\n#be12f01323a8ed12e90e893dd6c5e5bfb3ad092aca53b8d82870caf6b78dc61f",
	"cpp-many-procmaps-32b": "period=10000000/cpu/nanoseconds types=samples/count,cpu/nanoseconds, drop=\"ProfileData::Add|ProfileData::prof_handler|CpuProfiler::prof_handler|__pthread_sighandler|__restore\" keep=\"\"\nS [1 10000000] @ 1:0x500100m3 3:0x500fffm3 4:0x501fffm3\nS [2 20000000] @ 5:0x500110m3 6:0x50101fm3 4:0x501fffm3\nS [3 30000000] @ 7:0x500120m3 8:0x50103fm3 4:0x501fffm3\nS [4 40000000] @ 9:0x500130m3 11:0x50105fm3 4:0x501fffm3\nS [1 10000000] @ 12:0x500140m3 13:0x50107fm3 4:0x501fffm3\nS [2 20000000] @ 14:0x500150m3 3:0x500fffm3 4:0x501fffm3\nS [3 30000000] @ 15:0x500160m3 6:0x50101fm3 4:0x501fffm3\nS [4 40000000] @ 17:0x500170m3 8:0x50103fm3 4:0x501fffm3\nS [1 10000000] @ 18:0x500180m3 11:0x50105fm3 4:0x501fffm3\nS [2 20000000] @ 19:0x500190m3 13:0x50107fm3 4:0x501fffm3\nS [3 30000000] @ 21:0x5001a0m3 3:0x500fffm3 4:0x501fffm3\nS [4 40000000] @ 22:0x5001b0m3 6:0x50101fm3 4:0x501fffm3\nS [1 10000000] @ 23:0x5001c0m3 8:0x50103fm3 4:0x501fffm3\nS [2 20000000] @ 25:0x5001d0m3 11:0x50105fm3 4:0x501fffm3\nS [3 30000000] @ 26:0x5001e0m3 13:0x50107fm3 4:0x501fffm3\nS [4 40000000] @ 27:0x5001f0m3 3:0x500fffm3 4:0x501fffm3\nS [1 10000000] @ 29:0x500200m3 6:0x50101fm3 4:0x501fffm3\nS [2 20000000] @ 30:0x500210m3 8:0x50103fm3 4:0x501fffm3\nS [3 30000000] @ 31:0x500220m3 11:0x50105fm3 4:0x501fffm3\nS [4 40000000] @ 33:0x500230m3 13:0x50107fm3 4:0x501fffm3\nS [1 10000000] @ 34:0x500240m3 3:0x500fffm3 4:0x501fffm3\nS [2 20000000] @ 35:0x500250m3 6:0x50101fm3 4:0x501fffm3\nS [3 30000000] @ 37:0x500260m3 8:0x50103fm3 4:0x501fffm3\nS [4 40000000] @ 38:0x500270m3 11:0x50105fm3 4:0x501fffm3\nS [1 10000000] @ 39:0x500280m3 13:0x50107fm3 4:0x501fffm3\nS [2 20000000] @ 41:0x500290m3 3:0x500fffm3 4:0x501fffm3\nS [3 30000000] @ 42:0x5002a0m3 6:0x50101fm3 4:0x501fffm3\nS [4 40000000] @ 43:0x5002b0m3 8:0x50103fm3 4:0x501fffm3\nS [1 10000000] @ 45:0x5002c0m3 11:0x50105fm3 4:0x501fffm3\nS [2 20000000] @ 46:0x5002d0m3 13:0x50107fm3 4:0x501fffm3\nS [3 30000000] @ 47:0x5002e0m3 3:0x500fffm3 4:0x501fffm3\nS [4 40000000] @ 49:0x5002f0m3 6:0x50101fm3 4:0x501fffm3\nS [1 10000000] @ 50:0x500300m3 8:0x50103fm3 4:0x501fffm3\nS [2 20000000] @ 51:0x500310m3 11:0x50105fm3 4:0x501fffm3\nS [3 30000000] @ 53:0x500320m3 13:0x50107fm3 4:0x501fffm3\nS [4 40000000] @ 54:0x500330m3 3:0x500fffm3 4:0x501fffm3\nS [1 10000000] @ 55:0x500340m3 6:0x50101fm3 4:0x501fffm3\nS [2 20000000] @ 57:0x500350m3 8:0x50103fm3 4:0x501fffm3\nS [3 30000000] @ 58:0x500360m3 11:0x50105fm3 4:0x501fffm3\nS [4 40000000] @ 59:0x500370m3 13:0x50107fm3 4:0x501fffm3\nM 1 0x400000-0x480000 off=0x0 file=\"/bin/prog\" build=\"\"\nM 2 0x7f0000000000-0x7f0000100000 off=0x2000 file=\"/lib/libc.so.6\" build=\"\"\nM 3 0x0-0xffffffffffffffff off=0x0 file=\"\" build=\"\"\n#7cccdf07117cc85f3dabf6844b297ef965e0baadf320f25100547ce4fc09b4f5",
	"cpp-many-procmaps-32l": "period=10000000/cpu/nanoseconds types=samples/count,cpu/nanoseconds, drop=\"ProfileData::Add|ProfileData::prof_handler|CpuProfiler::prof_handler|__pthread_sighandler|__restore\" keep=\"\"\nS [1 10000000] @ 1:0x500100m3 3:0x500fffm3 4:0x501fffm3\nS [2 20000000] @ 5:0x500110m3 6:0x50101fm3 4:0x501fffm3\nS [3 30000000] @ 7:0x500120m3 8:0x50103fm3 4:0x501fffm3\nS [4 40000000] @ 9:0x500130m3 11:0x50105fm3 4:0x501fffm3\nS [1 10000000] @ 12:0x500140m3 13:0x50107fm3 4:0x501fffm3\nS [2 20000000] @ 14:0x500150m3 3:0x500fffm3 4:0x501fffm3\nS [3 30000000] @ 15:0x500160m3 6:0x50101fm3 4:0x501fffm3\nS [4 40000000] @ 17:0x500170m3 8:0x50103fm3 4:0x501fffm3\nS [1 10000000] @ 18:0x500180m3 11:0x50105fm3 4:0x501fffm3\nS [2 20000000] @ 19:0x500190m3 13:0x50107fm3 4:0x501fffm3\nS [3 30000000] @ 21:0x5001a0m3 3:0x500fffm3 4:0x501fffm3\nS [4 40000000] @ 22:0x5001b0m3 6:0x50101fm3 4:0x501fffm3\nS [1 10000000] @ 23:0x5001c0m3 8:0x50103fm3 4:0x501fffm3\nS [2 20000000] @ 25:0x5001d0m3 11:0x50105fm3 4:0x501fffm3\nS [3 30000000] @ 26:0x5001e0m3 13:0x50107fm3 4:0x501fffm3\nS [4 40000000] @ 27:0x5001f0m3 3:0x500fffm3 4:0x501fffm3\nS [1 10000000] @ 29:0x500200m3 6:0x50101fm3 4:0x501fffm3\nS [2 20000000] @ 30:0x500210m3 8:0x50103fm3 4:0x501fffm3\nS [3 30000000] @ 31:0x500220m3 11:0x50105fm3 4:0x501fffm3\nS [4 40000000] @ 33:0x500230m3 13:0x50107fm3 4:0x501fffm3\nS [1 10000000] @ 34:0x500240m3 3:0x500fffm3 4:0x501fffm3\nS [2 20000000] @ 35:0x500250m3 6:0x50101fm3 4:0x501fffm3\nS [3 30000000] @ 37:0x500260m3 8:0x50103fm3 4:0x501fffm3\nS [4 40000000] @ 38:0x500270m3 11:0x50105fm3 4:0x501fffm3\nS [1 10000000] @ 39:0x500280m3 13:0x50107fm3 4:0x501fffm3\nS [2 20000000] @ 41:0x500290m3 3:0x500fffm3 4:0x501fffm3\nS [3 30000000] @ 42:0x5002a0m3 6:0x50101fm3 4:0x501fffm3\nS [4 40000000] @ 43:0x5002b0m3 8:0x50103fm3 4:0x501fffm3\nS [1 10000000] @ 45:0x5002c0m3 11:0x50105fm3 4:0x501fffm3\nS [2 20000000] @ 46:0x5002d0m3 13:0x50107fm3 4:0x501fffm3\nS [3 30000000] @ 47:0x5002e0m3 3:0x500fffm3 4:0x501fffm3\nS [4 40000000] @ 49:0x5002f0m3 6:0x50101fm3 4:0x501fffm3\nS [1 10000000] @ 50:0x500300m3 8:0x50103fm3 4:0x501fffm3\nS [2 20000000] @ 51:0x500310m3 11:0x50105fm3 4:0x501fffm3\nS [3 30000000] @ 53:0x500320m3 13:0x50107fm3 4:0x501fffm3\nS [4 40000000] @ 54:0x500330m3 3:0x500fffm3 4:0x501fffm3\nS [1 10000000] @ 55:0x500340m3 6:0x50101fm3 4:0x501fffm3\nS [2 20000000] @ 57:0x500350m3 8:0x50103fm3 4:0x501fffm3\nS [3 30000000] @ 58:0x500360m3 11:0x50105fm3 4:0x501fffm3\nS [4 40000000] @ 59:0x500370m3 13:0x50107fm3 4:0x501fffm3\nM 1 0x400000-0x480000 off=0x0 file=\"/bin/prog\" build=\"\"\nM 2 0x7f0000000000-0x7f0000100000 off=0x2000 file=\"/lib/libc.so.6\" build=\"\"\nM 3 0x0-0xffffffffffffffff off=0x0 file=\"\" build=\"\"\n#7cccdf07117cc85f3dabf6844b297ef965e0baadf320f25100547ce4fc09b4f5",
	"cpp-many-procmaps-64b": "period=10000000/cpu/nanoseconds types=samples/count,cpu/nanoseconds, drop=\"ProfileData::Add|ProfileData::prof_handler|CpuProfiler::prof_handler|__pthread_sighandler|__restore\" keep=\"\"\nS [1 10000000] @ 1:0x400100m1 3:0x400fffm1 4:0x401fffm1\nS [2 20000000] @ 5:0x400110m1 6:0x40101fm1 4:0x401fffm1\nS [3 30000000] @ 7:0x400120m1 8:0x40103fm1 4:0x401fffm1\nS [4 40000000] @ 9:0x400130m1 11:0x40105fm1 4:0x401fffm1\nS [1 10000000] @ 12:0x400140m1 13:0x40107fm1 4:0x401fffm1\nS [2 20000000] @ 14:0x400150m1 3:0x400fffm1 4:0x401fffm1\nS [3 30000000] @ 15:0x400160m1 6:0x40101fm1 4:0x401fffm1\nS [4 40000000] @ 17:0x400170m1 8:0x40103fm1 4:0x401fffm1\nS [1 10000000] @ 18:0x400180m1 11:0x40105fm1 4:0x401fffm1\nS [2 20000000] @ 19:0x400190m1 13:0x40107fm1 4:0x401fffm1\nS [3 30000000] @ 21:0x4001a0m1 3:0x400fffm1 4:0x401fffm1\nS [4 40000000] @ 22:0x4001b0m1 6:0x40101fm1 4:0x401fffm1\nS [1 10000000] @ 23:0x4001c0m1 8:0x40103fm1 4:0x401fffm1\nS [2 20000000] @ 25:0x4001d0m1 11:0x40105fm1 4:0x401fffm1\nS [3 30000000] @ 26:0x4001e0m1 13:0x40107fm1 4:0x401fffm1\nS [4 40000000] @ 27:0x4001f0m1 3:0x400fffm1 4:0x401fffm1\nS [1 10000000] @ 29:0x400200m1 6:0x40101fm1 4:0x401fffm1\nS [2 20000000] @ 30:0x400210m1 8:0x40103fm1 4:0x401fffm1\nS [3 30000000] @ 31:0x400220m1 11:0x40105fm1 4:0x401fffm1\nS [4 40000000] @ 33:0x400230m1 13:0x40107fm1 4:0x401fffm1\nS [1 10000000] @ 34:0x400240m1 3:0x400fffm1 4:0x401fffm1\nS [2 20000000] @ 35:0x400250m1 6:0x40101fm1 4:0x401fffm1\nS [3 30000000] @ 37:0x400260m1 8:0x40103fm1 4:0x401fffm1\nS [4 40000000] @ 38:0x400270m1 11:0x40105fm1 4:0x401fffm1\nS [1 10000000] @ 39:0x400280m1 13:0x40107fm1 4:0x401fffm1\nS [2 20000000] @ 41:0x400290m1 3:0x400fffm1 4:0x401fffm1\nS [3 30000000] @ 42:0x4002a0m1 6:0x40101fm1 4:0x401fffm1\nS [4 40000000] @ 43:0x4002b0m1 8:0x40103fm1 4:0x401fffm1\nS [1 10000000] @ 45:0x4002c0m1 11:0x40105fm1 4:0x401fffm1\nS [2 20000000] @ 46:0x4002d0m1 13:0x40107fm1 4:0x401fffm1\nS [3 30000000] @ 47:0x4002e0m1 3:0x400fffm1 4:0x401fffm1\nS [4 40000000] @ 49:0x4002f0m1 6:0x40101fm1 4:0x401fffm1\nS [1 10000000] @ 50:0x400300m1 8:0x40103fm1 4:0x401fffm1\nS [2 20000000] @ 51:0x400310m1 11:0x40105fm1 4:0x401fffm1\nS [3 30000000] @ 53:0x400320m1 13:0x40107fm1 4:0x401fffm1\nS [4 40000000] @ 54:0x400330m1 3:0x400fffm1 4:0x401fffm1\nS [1 10000000] @ 55:0x400340m1 6:0x40101fm1 4:0x401fffm1\nS [2 20000000] @ 57:0x400350m1 8:0x40103fm1 4:0x401fffm1\nS [3 30000000] @ 58:0x400360m1 11:0x40105fm1 4:0x401fffm1\nS [4 40000000] @ 59:0x400370m1 13:0x40107fm1 4:0x401fffm1\nM 1 0x400000-0x480000 off=0x0 file=\"/bin/prog\" build=\"\"\nM 2 0x7f0000000000-0x7f0000100000 off=0x2000 file=\"/lib/libc.so.6\" build=\"\"\n#b5875eb7138f1ff7c3193635a5a368bc2712bee3be185413061d2993f46be05a",
	"cpp-many-procmaps-64l": "period=10000000/cpu/nanoseconds types=samples/count,cpu/nanoseconds, drop=\"ProfileData::Add|ProfileData::prof_handler|CpuProfiler::prof_handler|__pthread_sighandler|__restore\" keep=\"\"\nS [1 10000000] @ 1:0x400100m1 3:0x400fffm1 4:0x401fffm1\nS [2 20000000] @ 5:0x400110m1 6:0x40101fm1 4:0x401fffm1\nS [3 30000000] @ 7:0x400120m1 8:0x40103fm1 4:0x401fffm1\nS [4 40000000] @ 9:0x400130m1 11:0x40105fm1 4:0x401fffm1\nS [1 10000000] @ 12:0x400140m1 13:0x40107fm1 4:0x401fffm1\nS [2 20000000] @ 14:0x400150m1 3:0x400fffm1 4:0x401fffm1\nS [3 30000000] @ 15:0x400160m1 6:0x40101fm1 4:0x401fffm1\nS [4 40000000] @ 17:0x400170m1 8:0x40103fm1 4:0x401fffm1\nS [1 10000000] @ 18:0x400180m1 11:0x40105fm1 4:0x401fffm1\nS [2 20000000] @ 19:0x400190m1 13:0x40107fm1 4:0x401fffm1\nS [3 30000000] @ 21:0x4001a0m1 3:0x400fffm1 4:0x401fffm1\nS [4 40000000] @ 22:0x4001b0m1 6:0x40101fm1 4:0x401fffm1\nS [1 10000000] @ 23:0x4001c0m1 8:0x40103fm1 4:0x401fffm1\nS [2 20000000] @ 25:0x4001d0m1 11:0x40105fm1 4:0x401fffm1\nS [3 30000000] @ 26:0x4001e0m1 13:0x40107fm1 4:0x401fffm1\nS [4 40000000] @ 27:0x4001f0m1 3:0x400fffm1 4:0x401fffm1\nS [1 10000000] @ 29:0x400200m1 6:0x40101fm1 4:0x401fffm1\nS [2 20000000] @ 30:0x400210m1 8:0x40103fm1 4:0x401fffm1\nS [3 30000000] @ 31:0x400220m1 11:0x40105fm1 4:0x401fffm1\nS [4 40000000] @ 33:0x400230m1 13:0x40107fm1 4:0x401fffm1\nS [1 10000000] @ 34:0x400240m1 3:0x400fffm1 4:0x401fffm1\nS [2 20000000] @ 35:0x400250m1 6:0x40101fm1 4:0x401fffm1\nS [3 30000000] @ 37:0x400260m1 8:0x40103fm1 4:0x401fffm1\nS [4 40000000] @ 38:0x400270m1 11:0x40105fm1 4:0x401fffm1\nS [1 10000000] @ 39:0x400280m1 13:0x40107fm1 4:0x401fffm1\nS [2 20000000] @ 41:0x400290m1 3:0x400fffm1 4:0x401fffm1\nS [3 30000000] @ 42:0x4002a0m1 6:0x40101fm1 4:0x401fffm1\nS [4 40000000] @ 43:0x4002b0m1 8:0x40103fm1 4:0x401fffm1\nS [1 10000000] @ 45:0x4002c0m1 11:0x40105fm1 4:0x401fffm1\nS [2 20000000] @ 46:0x4002d0m1 13:0x40107fm1 4:0x401fffm1\nS [3 30000000] @ 47:0x4002e0m1 3:0x400fffm1 4:0x401fffm1\nS [4 40000000] @ 49:0x4002f0m1 6:0x40101fm1 4:0x401fffm1\nS [1 10000000] @ 50:0x400300m1 8:0x40103fm1 4:0x401fffm1\nS [2 20000000] @ 51:0x400310m1 11:0x40105fm1 4:0x401fffm1\nS [3 30000000] @ 53:0x400320m1 13:0x40107fm1 4:0x401fffm1\nS [4 40000000] @ 54:0x400330m1 3:0x400fffm1 4:0x401fffm1\nS [1 10000000] @ 55:0x400340m1 6:0x40101fm1 4:0x401fffm1\nS [2 20000000] @ 57:0x400350m1 8:0x40103fm1 4:0x401fffm1\nS [3 30000000] @ 58:0x400360m1 11:0x40105fm1 4:0x401fffm1\nS [4 40000000] @ 59:0x400370m1 13:0x40107fm1 4:0x401fffm1\nM 1 0x400000-0x480000 off=0x0 file=\"/bin/prog\" build=\"\"\nM 2 0x7f0000000000-0x7f0000100000 off=0x2000 file=\"/lib/libc.so.6\" build=\"\"\n#b5875eb7138f1ff7c3193635a5a368bc2712bee3be185413061d2993f46be05a",
	"empty":                 "ERR parsing profile: empty input file",
	"hdr-minus-1-byte-32b":  "ERR parsing profile: unrecognized profile format",
	"hdr-minus-1-byte-32l":  "ERR parsing profile: unrecognized profile format",
	"hdr-minus-1-byte-64b":  "ERR parsing profile: unrecognized profile format",
	"hdr-minus-1-byte-64l":  "ERR parsing profile: unrecognized profile format",
	"java-32b":              "period=10000000/cpu/nanoseconds types=samples/count,cpu/nanoseconds, drop=\"ProfileData::Add|ProfileData::prof_handler|CpuProfiler::prof_handler|__pthread_sighandler|__restore\" keep=\"\"\nS [5 50000000] @ 1:0x0[com.example.Foo.run Foo.java:12] 2:0x0[com.example.Bar.call Bar.java:0] 3:0x0[memcpy libc.so.6:0]\nS [2 20000000] @ 4:0x0[STUB :0] 2:0x0[com.example.Bar.call Bar.java:0]\nS [1 10000000] @ 5:0x0[GC :0] 6:0x0m1\nS [9 90000000] @ 1:0x0[com.example.Foo.run Foo.java:12] 2:0x0[com.example.Bar.call Bar.java:0] 3:0x0[memcpy libc.so.6:0]\nM 1 0x0-0xffffffffffffffff off=0x0 file=\"\" build=\"\"\n#192c96158eecf4c210fcf61937198b068aacb7152c7c169dd12dd7307992bb71",
	"java-32l":              "period=10000000/cpu/nanoseconds types=samples/count,cpu/nanoseconds, drop=\"ProfileData::Add|ProfileData::prof_handler|CpuProfiler::prof_handler|__pthread_sighandler|__restore\" keep=\"\"\nS [5 50000000] @ 1:0x0[com.example.Foo.run Foo.java:12] 2:0x0[com.example.Bar.call Bar.java:0] 3:0x0[memcpy libc.so.6:0]\nS [2 20000000] @ 4:0x0[STUB :0] 2:0x0[com.example.Bar.call Bar.java:0]\nS [1 10000000] @ 5:0x0[GC :0] 6:0x0m1\nS [9 90000000] @ 1:0x0[com.example.Foo.run Foo.java:12] 2:0x0[com.example.Bar.call Bar.java:0] 3:0x0[memcpy libc.so.6:0]\nM 1 0x0-0xffffffffffffffff off=0x0 file=\"\" build=\"\"\n#192c96158eecf4c210fcf61937198b068aacb7152c7c169dd12dd7307992bb71",
	"java-64b":              "period=10000000/cpu/nanoseconds types=samples/count,cpu/nanoseconds, drop=\"ProfileData::Add|ProfileData::prof_handler|CpuProfiler::prof_handler|__pthread_sighandler|__restore\" keep=\"\"\nS [5 50000000] @ 1:0x0[com.example.Foo.run Foo.java:12] 2:0x0[com.example.Bar.call Bar.java:0] 3:0x0[memcpy libc.so.6:0]\nS [2 20000000] @ 4:0x0[STUB :0] 2:0x0[com.example.Bar.call Bar.java:0]\nS [1 10000000] @ 5:0x0[GC :0] 6:0x0m1\nS [9 90000000] @ 1:0x0[com.example.Foo.run Foo.java:12] 2:0x0[com.example.Bar.call Bar.java:0] 3:0x0[memcpy libc.so.6:0]\nM 1 0x0-0xffffffffffffffff off=0x0 file=\"\" build=\"\"\n#192c96158eecf4c210fcf61937198b068aacb7152c7c169dd12dd7307992bb71",
	"java-64l":              "period=10000000/cpu/nanoseconds types=samples/count,cpu/nanoseconds, drop=\"ProfileData::Add|ProfileData::prof_handler|CpuProfiler::prof_handler|__pthread_sighandler|__restore\" keep=\"\"\nS [5 50000000] @ 1:0x0[com.example.Foo.run Foo.java:12] 2:0x0[com.example.Bar.call Bar.java:0] 3:0x0[memcpy libc.so.6:0]\nS [2 20000000] @ 4:0x0[STUB :0] 2:0x0[com.example.Bar.call Bar.java:0]\nS [1 10000000] @ 5:0x0[GC :0] 6:0x0m1\nS [9 90000000] @ 1:0x0[com.example.Foo.run Foo.java:12] 2:0x0[com.example.Bar.call Bar.java:0] 3:0x0[memcpy libc.so.6:0]\nM 1 0x0-0xffffffffffffffff off=0x0 file=\"\" build=\"\"\n#192c96158eecf4c210fcf61937198b068aacb7152c7c169dd12dd7307992bb71",
	"padding-nonzero-64l":   "ERR parsing profile: unrecognized profile format",
	"period0-32b":           "ERR parsing profile: unrecognized profile format",
	"period0-32l":           "ERR parsing profile: unrecognized profile format",
	"period0-64b":           "ERR parsing profile: unrecognized profile format",
	"period0-64l":           "ERR parsing profile: unrecognized profile format",
	"three-bytes":           "ERR parsing profile: unrecognized profile format",
	"truncated-midword-32b": "ERR parsing profile: unrecognized profile format",
	"truncated-midword-32l": "ERR parsing profile: unrecognized profile format",
	"truncated-midword-64b": "period=100000/cpu/nanoseconds types=samples/count,cpu/nanoseconds, drop=\"ProfileData::Add|ProfileData::prof_handler|CpuProfiler::prof_handler|__pthread_sighandler|__restore\" keep=\"\"\nS [3 300000] @ 1:0x400123m1 2:0x4001ffm1 3:0x4002ffm1\nS [1 100000] @ 1:0x400123m1\nS [7 700000] @ 4:0x7f0000000010m1 2:0x4001ffm1 3:0x4002ffm1 5:0x11m1\nS [2 200000] @ 6:0x400500m1 3:0x4002ffm1\nS [0 0] @ 8:0x400600m1 9:0xffffffffffffffffm1\nM 1 0x0-0xffffffffffffffff off=0x0 file=\"\" build=\"\"\n#935d9c7e198e443151dafba25ee980a5474b07f7f9a7ddfed97ecbf8194c21ee",
	"truncated-midword-64l": "period=100000/cpu/nanoseconds types=samples/count,cpu/nanoseconds, drop=\"ProfileData::Add|ProfileData::prof_handler|CpuProfiler::prof_handler|__pthread_sighandler|__restore\" keep=\"\"\nS [3 300000] @ 1:0x400123m1 2:0x4001ffm1 3:0x4002ffm1\nS [1 100000] @ 1:0x400123m1\nS [7 700000] @ 4:0x7f0000000010m1 2:0x4001ffm1 3:0x4002ffm1 5:0x11m1\nS [2 200000] @ 6:0x400500m1 3:0x4002ffm1\nS [0 0] @ 8:0x400600m1 9:0xffffffffffffffffm1\nM 1 0x0-0xffffffffffffffff off=0x0 file=\"\" build=\"\"\n#935d9c7e198e443151dafba25ee980a5474b07f7f9a7ddfed97ecbf8194c21ee",
	"truncated-sample-32b":  "ERR parsing profile: unrecognized profile format",
	"truncated-sample-32l":  "ERR parsing profile: unrecognized profile format",
	"truncated-sample-64b":  "ERR parsing profile: unrecognized profile format",
	"truncated-sample-64l":  "ERR parsing profile: unrecognized profile format",
}
