#!/bin/sh
# usage: demo.sh <worktree root>; exits 0 iff the equivalence test passes.
set -e
here=$(cd "$(dirname "$0")" && pwd)
root=${1:?worktree root}
export GOFLAGS=-mod=mod GOPROXY=off GOSUMDB=off GOTOOLCHAIN=local
cp "$here/zz_equiv_a_test.go" "$root/profile/zz_equiv_a_test.go"
trap 'rm -f "$root/profile/zz_equiv_a_test.go"' EXIT
cd "$root"
go test -vet=off -count=1 -run 'TestZZEquivA$' ./profile/
