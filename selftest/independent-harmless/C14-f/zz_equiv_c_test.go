package profile

// Equivalence demonstration for rewrite C (line iteration in the Java
// heapz/contentionz/profilez parsers: attribute header, sample section and
// symbolised location section). The expected strings were produced on the
// UNCHANGED tree; the test must pass both with and without the patch.
// Only ParseData and exported Profile fields are used.

import (
	"bytes"
	"crypto/sha256"
	"encoding/binary"
	"fmt"
	"os"
	"sort"
	"strings"
	"testing"
)

func zzCRender(p *Profile) string {
	var sb strings.Builder
	fmt.Fprintf(&sb, "period=%d/%s/%s dur=%d types=", p.Period, p.PeriodType.Type, p.PeriodType.Unit, p.DurationNanos)
	for _, st := range p.SampleType {
		fmt.Fprintf(&sb, "%s/%s,", st.Type, st.Unit)
	}
	sb.WriteString("\n")
	for _, s := range p.Sample {
		fmt.Fprintf(&sb, "S %v @", s.Value)
		for _, l := range s.Location {
			fmt.Fprintf(&sb, " %d:%#x", l.ID, l.Address)
			if l.Mapping != nil {
				fmt.Fprintf(&sb, "m%d", l.Mapping.ID)
			}
			for _, ln := range l.Line {
				fmt.Fprintf(&sb, "[%d %s %s:%d]", ln.Function.ID, ln.Function.Name, ln.Function.Filename, ln.Line)
			}
		}
		var keys []string
		for k := range s.NumLabel {
			keys = append(keys, k)
		}
		sort.Strings(keys)
		for _, k := range keys {
			fmt.Fprintf(&sb, " %s=%v", k, s.NumLabel[k])
		}
		sb.WriteString("\n")
	}
	fmt.Fprintf(&sb, "F")
	for _, f := range p.Function {
		fmt.Fprintf(&sb, " %d:%s", f.ID, f.Name)
	}
	sb.WriteString("\n")
	for _, m := range p.Mapping {
		fmt.Fprintf(&sb, "M %d %#x-%#x off=%#x file=%q\n", m.ID, m.Start, m.Limit, m.Offset, m.File)
	}
	return sb.String()
}

const zzCHeapSamples = `          7048     1 @ 0x00000003 0x00000004 0x00000005 0x00000004 0x00000003
          4752     9 @ 0x0000002b 0x00000004
           240     5 @ 0x00000097
       1048576     2 @ 0x00000005 0x0000002b 0x000000aa 0x000000ab
`

const zzCLocs = ` 0x00000003 com.example.function003 (Source003.java:103)
 0x00000004 com.example.function004 (Source004.java:104)
   0x00000005   com.example.function005 (Source005.java:-1)
 0x0000002b libfoo (/usr/lib/libfoo.so)
 0x00000097 GC
 0x00000098 unused.fn (U.java:1)
 0x000000aa [generated stub/JIT] x
this line is not a location
 0x000000ab com.example.function003 (Other.java:7)
`

// zzCJavaCPU prints a little-endian 64-bit Java profilez document.
func zzCJavaCPU(tail string) string {
	var buf bytes.Buffer
	put := func(vs ...uint64) {
		for _, v := range vs {
			var w [8]byte
			binary.LittleEndian.PutUint64(w[:], v)
			buf.Write(w[:])
		}
	}
	put(0, 3, 1, 10000, 0)
	put(5, 3, 0x3, 0x4, 0x5)
	put(2, 2, 0x2b, 0x4)
	put(1, 2, 0x97, 0xab)
	put(0, 1, 0)
	buf.WriteString(tail)
	return buf.String()
}

func zzCCases() map[string]string {
	heapHdr := "--- heapz 1 ---\nformat = java\nresolution = bytes\n"
	contHdr := "--- contentionz 1 ---\nformat = java\nresolution = microseconds\nsampling period = 100\nms since reset = 6019923\n"
	contSamples := "            1     1 @ 0x00000003 0x00000004\n           14     1 @ 0x00000097 0x00000004 0x00000097\n            2     3 @ 0x0000002b\n"
	crlf := func(s string) string { return strings.ReplaceAll(s, "\n", "\r\n") }
	return map[string]string{
		"heapz":                  heapHdr + zzCHeapSamples + "\n\n" + zzCLocs,
		"heapz-blank-lines":      heapHdr + "\n  \n" + strings.ReplaceAll(zzCHeapSamples, "\n", "\n\n \t\n") + strings.ReplaceAll(zzCLocs, "\n", "\n\n"),
		"heapz-crlf":             crlf(heapHdr + zzCHeapSamples + "\n" + zzCLocs),
		"heapz-no-final-newline": heapHdr + zzCHeapSamples + "\n" + strings.TrimSuffix(zzCLocs, "\n"),
		// The last sample line is not newline-terminated: there is no location section.
		"heapz-unterminated-sample": heapHdr + strings.TrimSuffix(zzCHeapSamples, "\n"),
		"heapz-samples-only":        heapHdr + zzCHeapSamples,
		"heapz-header-only":         heapHdr,
		// Last header line not newline-terminated.
		"heapz-unterminated-header": strings.TrimSuffix(heapHdr, "\n"),
		"heapz-first-line-only":     "--- heapz 1 ---\n",
		"heapz-first-line-no-nl":    "--- heapz 1 ---",
		"heapz-form-feed-and-vt":    heapHdr + "\f\n\v\n" + zzCHeapSamples + "\v\n" + zzCLocs + "\f",
		"contentionz":               contHdr + contSamples + "\n\n" + zzCLocs,
		"contentionz-crlf":          crlf(contHdr + contSamples + "\n" + zzCLocs),
		"contentionz-period-last":   "--- contentionz 1 ---\nformat = java\nresolution = nanoseconds\n" + contSamples + "sampling period = 100\n" + zzCLocs,
		"contentionz-no-locations":  contHdr + contSamples,
		"javacpu":                   zzCJavaCPU(zzCLocs),
		"javacpu-no-final-newline":  zzCJavaCPU(strings.TrimSuffix(zzCLocs, "\n")),
		"javacpu-crlf":              zzCJavaCPU(crlf("\n" + zzCLocs)),
		"javacpu-empty-tail":        zzCJavaCPU(""),
		// Errors must stay errors.
		"heapz-format-cpp":      "--- heapz 1 ---\nformat = cpp\nresolution = bytes\n" + zzCHeapSamples,
		"heapz-unknown-attr":    "--- heapz 1 ---\nformat = java\ncolour = blue\n" + zzCHeapSamples,
		"heapz-zero-count":      heapHdr + "   100   0 @ 0x3\n" + zzCLocs,
		"heapz-huge-address":    heapHdr + "   100   1 @ 0x10000000000000000\n" + zzCLocs,
		"heapz-huge-loc-addr":   heapHdr + zzCHeapSamples + " 0x10000000000000000 f (F.java:1)\n",
		"contentionz-bad-value": "--- contentionz 1 ---\nformat = java\nresolution = ns\nsampling period = 1 0\n" + contSamples,
	}
}

func zzCOutcome(doc string) string {
	p, err := ParseData([]byte(doc))
	if err != nil {
		return "ERR " + err.Error()
	}
	return fmt.Sprintf("%s#%x", zzCRender(p), sha256.Sum256([]byte(p.String())))
}

func TestZZEquivC(t *testing.T) {
	cases := zzCCases()
	var names []string
	for n := range cases {
		names = append(names, n)
	}
	sort.Strings(names)
	if os.Getenv("ZZ_PRINT") != "" {
		for _, n := range names {
			fmt.Printf("\t%q: %q,\n", n, zzCOutcome(cases[n]))
		}
		return
	}
	if len(names) != len(zzCWant) {
		t.Fatalf("have %d cases, %d expectations", len(names), len(zzCWant))
	}
	ok := 0
	for _, n := range names {
		got := zzCOutcome(cases[n])
		if got != zzCWant[n] {
			t.Errorf("case %s:\n got %q\nwant %q", n, got, zzCWant[n])
		}
		if !strings.HasPrefix(got, "ERR") {
			ok++
		}
	}
	if ok < 14 {
		t.Errorf("only %d cases parsed successfully; the demonstration is too weak", ok)
	}
}

// zzCWant: outcomes recorded on the unchanged tree.
var zzCWant = map[string]string{
	"contentionz":               "period=100/contentions/count dur=6019923000000 types=contentions/count,delay/microseconds,\nS [100 100] @ 1:0x0[1 com.example.function003 Source003.java:103] 2:0x0[2 com.example.function004 Source004.java:104]\nS [100 1400] @ 3:0x0[3 GC :0] 2:0x0[2 com.example.function004 Source004.java:104] 3:0x0[3 GC :0]\nS [300 200] @ 4:0x0[4 libfoo libfoo.so:0]\nF 1:com.example.function003 2:com.example.function004 3:GC 4:libfoo\n#2c17611ed2cf2da71eba894cd985a0a0764f7a093b85ce11ffa7e2cbe75163de",
	"contentionz-bad-value":     "ERR parsing profile: failed to parse attribute sampling period = 1 0: strconv.ParseInt: parsing \"1 0\": invalid syntax",
	"contentionz-crlf":          "period=100/contentions/count dur=6019923000000 types=contentions/count,delay/microseconds,\nS [100 100] @ 1:0x0[1 com.example.function003 Source003.java:103] 2:0x0[2 com.example.function004 Source004.java:104]\nS [100 1400] @ 3:0x0[3 GC :0] 2:0x0[2 com.example.function004 Source004.java:104] 3:0x0[3 GC :0]\nS [300 200] @ 4:0x0[4 libfoo libfoo.so:0]\nF 1:com.example.function003 2:com.example.function004 3:GC 4:libfoo\n#2c17611ed2cf2da71eba894cd985a0a0764f7a093b85ce11ffa7e2cbe75163de",
	"contentionz-no-locations":  "period=100/contentions/count dur=6019923000000 types=contentions/count,delay/microseconds,\nS [100 100] @ 1:0x0m1 2:0x0m1\nS [100 1400] @ 3:0x0m1 2:0x0m1 3:0x0m1\nS [300 200] @ 4:0x0m1\nF\nM 1 0x0-0xffffffffffffffff off=0x0 file=\"\"\n#9981af6b3c64dd4227a1aa702c5aae18cd4e95e47eb5c1ef3c1bab6dd9e107d3",
	"contentionz-period-last":   "period=0// dur=0 types=contentions/count,delay/nanoseconds,\nS [1 1] @ 1:0x0[1 com.example.function003 Source003.java:103] 2:0x0[2 com.example.function004 Source004.java:104]\nS [1 14] @ 3:0x0[3 GC :0] 2:0x0[2 com.example.function004 Source004.java:104] 3:0x0[3 GC :0]\nS [3 2] @ 4:0x0[4 libfoo libfoo.so:0]\nF 1:com.example.function003 2:com.example.function004 3:GC 4:libfoo\n#bf9ba24111c1374d18edac53a9c652b1fc20287b47a7b8455725b32be54809ca",
	"heapz":                     "period=0// dur=0 types=inuse_objects/count,inuse_space/bytes,\nS [74 527819] @ 1:0x0[1 com.example.function003 Source003.java:103] 2:0x0[2 com.example.function004 Source004.java:104] 3:0x0[3 com.example.function005 Source005.java:0] 2:0x0[2 com.example.function004 Source004.java:104] 1:0x0[1 com.example.function003 Source003.java:103] bytes=[7048]\nS [8941 4720968] @ 4:0x0[4 libfoo libfoo.so:0] 2:0x0[2 com.example.function004 Source004.java:104] bytes=[528]\nS [54615 2621560] @ 5:0x0[5 GC :0] bytes=[48]\nS [3 1658822] @ 3:0x0[3 com.example.function005 Source005.java:0] 4:0x0[4 libfoo libfoo.so:0] 6:0x0[6 STUB :0] 7:0x0[1 com.example.function003 Source003.java:7] bytes=[524288]\nF 1:com.example.function003 2:com.example.function004 3:com.example.function005 4:libfoo 5:GC 6:STUB\n#4b895b38a8bb0756ad7aa59485174f59aebd04b6cf4d8d6b18dba9a3fa32be7a",
	"heapz-blank-lines":         "period=0// dur=0 types=inuse_objects/count,inuse_space/bytes,\nS [74 527819] @ 1:0x0[1 com.example.function003 Source003.java:103] 2:0x0[2 com.example.function004 Source004.java:104] 3:0x0[3 com.example.function005 Source005.java:0] 2:0x0[2 com.example.function004 Source004.java:104] 1:0x0[1 com.example.function003 Source003.java:103] bytes=[7048]\nS [8941 4720968] @ 4:0x0[4 libfoo libfoo.so:0] 2:0x0[2 com.example.function004 Source004.java:104] bytes=[528]\nS [54615 2621560] @ 5:0x0[5 GC :0] bytes=[48]\nS [3 1658822] @ 3:0x0[3 com.example.function005 Source005.java:0] 4:0x0[4 libfoo libfoo.so:0] 6:0x0[6 STUB :0] 7:0x0[1 com.example.function003 Source003.java:7] bytes=[524288]\nF 1:com.example.function003 2:com.example.function004 3:com.example.function005 4:libfoo 5:GC 6:STUB\n#4b895b38a8bb0756ad7aa59485174f59aebd04b6cf4d8d6b18dba9a3fa32be7a",
	"heapz-crlf":                "period=0// dur=0 types=inuse_objects/count,inuse_space/bytes,\nS [74 527819] @ 1:0x0[1 com.example.function003 Source003.java:103] 2:0x0[2 com.example.function004 Source004.java:104] 3:0x0[3 com.example.function005 Source005.java:0] 2:0x0[2 com.example.function004 Source004.java:104] 1:0x0[1 com.example.function003 Source003.java:103] bytes=[7048]\nS [8941 4720968] @ 4:0x0[4 libfoo libfoo.so:0] 2:0x0[2 com.example.function004 Source004.java:104] bytes=[528]\nS [54615 2621560] @ 5:0x0[5 GC :0] bytes=[48]\nS [3 1658822] @ 3:0x0[3 com.example.function005 Source005.java:0] 4:0x0[4 libfoo libfoo.so:0] 6:0x0[6 STUB :0] 7:0x0[1 com.example.function003 Source003.java:7] bytes=[524288]\nF 1:com.example.function003 2:com.example.function004 3:com.example.function005 4:libfoo 5:GC 6:STUB\n#4b895b38a8bb0756ad7aa59485174f59aebd04b6cf4d8d6b18dba9a3fa32be7a",
	"heapz-first-line-no-nl":    "ERR parsing profile: unrecognized profile format",
	"heapz-first-line-only":     "period=0// dur=0 types=\nF\n#d2b1b5346623a787c3b1722e03ff24d6a2e450eba3f140f5e32b81394d379c5b",
	"heapz-form-feed-and-vt":    "period=0// dur=0 types=inuse_objects/count,inuse_space/bytes,\nS [74 527819] @ 1:0x0[1 com.example.function003 Source003.java:103] 2:0x0[2 com.example.function004 Source004.java:104] 3:0x0[3 com.example.function005 Source005.java:0] 2:0x0[2 com.example.function004 Source004.java:104] 1:0x0[1 com.example.function003 Source003.java:103] bytes=[7048]\nS [8941 4720968] @ 4:0x0[4 libfoo libfoo.so:0] 2:0x0[2 com.example.function004 Source004.java:104] bytes=[528]\nS [54615 2621560] @ 5:0x0[5 GC :0] bytes=[48]\nS [3 1658822] @ 3:0x0[3 com.example.function005 Source005.java:0] 4:0x0[4 libfoo libfoo.so:0] 6:0x0[6 STUB :0] 7:0x0[1 com.example.function003 Source003.java:7] bytes=[524288]\nF 1:com.example.function003 2:com.example.function004 3:com.example.function005 4:libfoo 5:GC 6:STUB\n#4b895b38a8bb0756ad7aa59485174f59aebd04b6cf4d8d6b18dba9a3fa32be7a",
	"heapz-format-cpp":          "ERR parsing profile: unrecognized profile format",
	"heapz-header-only":         "period=0// dur=0 types=inuse_objects/count,inuse_space/bytes,\nF\n#fb83aa6eb3aab3cfdd509f151656faad180eb40cdbc74e1ab5a03c62c36a6611",
	"heapz-huge-address":        "ERR parsing profile: malformed sample: 100   1 @ 0x10000000000000000: failed to parse as hex 64-bit number: 0x10000000000000000",
	"heapz-huge-loc-addr":       "ERR parsing profile: parsing sample 0x10000000000000000 f (F.java:1): strconv.ParseUint: parsing \"10000000000000000\": value out of range",
	"heapz-no-final-newline":    "period=0// dur=0 types=inuse_objects/count,inuse_space/bytes,\nS [74 527819] @ 1:0x0[1 com.example.function003 Source003.java:103] 2:0x0[2 com.example.function004 Source004.java:104] 3:0x0[3 com.example.function005 Source005.java:0] 2:0x0[2 com.example.function004 Source004.java:104] 1:0x0[1 com.example.function003 Source003.java:103] bytes=[7048]\nS [8941 4720968] @ 4:0x0[4 libfoo libfoo.so:0] 2:0x0[2 com.example.function004 Source004.java:104] bytes=[528]\nS [54615 2621560] @ 5:0x0[5 GC :0] bytes=[48]\nS [3 1658822] @ 3:0x0[3 com.example.function005 Source005.java:0] 4:0x0[4 libfoo libfoo.so:0] 6:0x0[6 STUB :0] 7:0x0[1 com.example.function003 Source003.java:7] bytes=[524288]\nF 1:com.example.function003 2:com.example.function004 3:com.example.function005 4:libfoo 5:GC 6:STUB\n#4b895b38a8bb0756ad7aa59485174f59aebd04b6cf4d8d6b18dba9a3fa32be7a",
	"heapz-samples-only":        "period=0// dur=0 types=inuse_objects/count,inuse_space/bytes,\nS [74 527819] @ 1:0x0m1 2:0x0m1 3:0x0m1 2:0x0m1 1:0x0m1 bytes=[7048]\nS [8941 4720968] @ 4:0x0m1 2:0x0m1 bytes=[528]\nS [54615 2621560] @ 5:0x0m1 bytes=[48]\nS [3 1658822] @ 3:0x0m1 4:0x0m1 6:0x0m1 7:0x0m1 bytes=[524288]\nF\nM 1 0x0-0xffffffffffffffff off=0x0 file=\"\"\n#537ece19603a9198c4bf74193920e7f993ae9479f3058cdaf6fd52d133491f09",
	"heapz-unknown-attr":        "ERR parsing profile: unrecognized profile format",
	"heapz-unterminated-header": "period=0// dur=0 types=\nF\n#d2b1b5346623a787c3b1722e03ff24d6a2e450eba3f140f5e32b81394d379c5b",
	"heapz-unterminated-sample": "period=0// dur=0 types=inuse_objects/count,inuse_space/bytes,\nS [74 527819] @ 1:0x0m1 2:0x0m1 3:0x0m1 2:0x0m1 1:0x0m1 bytes=[7048]\nS [8941 4720968] @ 4:0x0m1 2:0x0m1 bytes=[528]\nS [54615 2621560] @ 5:0x0m1 bytes=[48]\nF\nM 1 0x0-0xffffffffffffffff off=0x0 file=\"\"\n#11e15eab83feafd93bb992ef9094f3760024a24e77477823a4c25b08a20ed623",
	"heapz-zero-count":          "ERR parsing profile: parsing sample 100   0 @ 0x3: second value must be non-zero",
	"javacpu":                   "period=10000000/cpu/nanoseconds dur=0 types=samples/count,cpu/nanoseconds,\nS [5 50000000] @ 1:0x0[1 com.example.function003 Source003.java:103] 2:0x0[2 com.example.function004 Source004.java:104] 3:0x0[3 com.example.function005 Source005.java:0]\nS [2 20000000] @ 4:0x0[4 libfoo libfoo.so:0] 2:0x0[2 com.example.function004 Source004.java:104]\nS [1 10000000] @ 5:0x0[5 GC :0] 6:0x0[1 com.example.function003 Source003.java:7]\nF 1:com.example.function003 2:com.example.function004 3:com.example.function005 4:libfoo 5:GC\n#6aa6ec2dae643a3425f78b3c2f1e613f36ceeded0d10716a4fb254be4cbf8a43",
	"javacpu-crlf":              "period=10000000/cpu/nanoseconds dur=0 types=samples/count,cpu/nanoseconds,\nS [5 50000000] @ 1:0x0[1 com.example.function003 Source003.java:103] 2:0x0[2 com.example.function004 Source004.java:104] 3:0x0[3 com.example.function005 Source005.java:0]\nS [2 20000000] @ 4:0x0[4 libfoo libfoo.so:0] 2:0x0[2 com.example.function004 Source004.java:104]\nS [1 10000000] @ 5:0x0[5 GC :0] 6:0x0[1 com.example.function003 Source003.java:7]\nF 1:com.example.function003 2:com.example.function004 3:com.example.function005 4:libfoo 5:GC\n#6aa6ec2dae643a3425f78b3c2f1e613f36ceeded0d10716a4fb254be4cbf8a43",
	"javacpu-empty-tail":        "period=10000000/cpu/nanoseconds dur=0 types=samples/count,cpu/nanoseconds,\nS [5 50000000] @ 1:0x0m1 2:0x0m1 3:0x0m1\nS [2 20000000] @ 4:0x0m1 2:0x0m1\nS [1 10000000] @ 5:0x0m1 6:0x0m1\nF\nM 1 0x0-0xffffffffffffffff off=0x0 file=\"\"\n#e761bc133c68470fc6c37e0d32ad1f0682ecb2f93f5f78d783d7eea09920110a",
	"javacpu-no-final-newline":  "period=10000000/cpu/nanoseconds dur=0 types=samples/count,cpu/nanoseconds,\nS [5 50000000] @ 1:0x0[1 com.example.function003 Source003.java:103] 2:0x0[2 com.example.function004 Source004.java:104] 3:0x0[3 com.example.function005 Source005.java:0]\nS [2 20000000] @ 4:0x0[4 libfoo libfoo.so:0] 2:0x0[2 com.example.function004 Source004.java:104]\nS [1 10000000] @ 5:0x0[5 GC :0] 6:0x0[1 com.example.function003 Source003.java:7]\nF 1:com.example.function003 2:com.example.function004 3:com.example.function005 4:libfoo 5:GC\n#6aa6ec2dae643a3425f78b3c2f1e613f36ceeded0d10716a4fb254be4cbf8a43",
}
