package profile

import (
	"fmt"
	"os"
	"regexp"
	"sort"
	"strings"
	"testing"
)

// zzEquivAProfile builds a profile with shared, inlined, unsymbolized and
// mapping-less locations whose IDs are neither dense nor ordered.
func zzEquivAProfile() *Profile {
	m1 := &Mapping{ID: 1, Start: 0x1000, Limit: 0x2000, File: "/bin/app"}
	m2 := &Mapping{ID: 2, Start: 0x8000, Limit: 0x9000, File: "/lib/libc.so"}
	fn := func(id uint64, name, file string) *Function {
		return &Function{ID: id, Name: name, SystemName: name, Filename: file}
	}
	fMain := fn(1, "main", "main.go")
	fFoo := fn(2, "foo", "foo.go")
	fBar := fn(3, "bar", "bar.go")
	fBaz := fn(4, "baz", "foo.go")
	fCpy := fn(5, "memcpy", "string.c")
	l1 := &Location{ID: 40, Mapping: m1, Address: 0x1010, Line: []Line{{Function: fMain, Line: 1}}}
	l2 := &Location{ID: 7, Mapping: m1, Address: 0x1020, Line: []Line{{Function: fBaz, Line: 2}, {Function: fFoo, Line: 3}}}
	l3 := &Location{ID: 23, Mapping: m1, Address: 0x1030, Line: []Line{{Function: fBar, Line: 4}}}
	l4 := &Location{ID: 100, Mapping: m2, Address: 0x8010, Line: []Line{{Function: fCpy, Line: 5}}}
	l5 := &Location{ID: 5, Mapping: m2, Address: 0x8020}
	l6 := &Location{ID: 61, Address: 0xdead}
	l7 := &Location{ID: 12, Mapping: m1, Address: 0x1040, Line: []Line{{Function: fFoo, Line: 6}, {Function: fBar, Line: 7}, {Function: fFoo, Line: 8}, {Function: fMain, Line: 9}}}
	p := &Profile{
		SampleType: []*ValueType{{Type: "samples", Unit: "count"}, {Type: "cpu", Unit: "nanoseconds"}},
		PeriodType: &ValueType{Type: "cpu", Unit: "nanoseconds"},
		Period:     1,
		Mapping:    []*Mapping{m1, m2},
		Function:   []*Function{fMain, fFoo, fBar, fBaz, fCpy},
		Location:   []*Location{l1, l2, l3, l4, l5, l6, l7},
		Sample: []*Sample{
			{Location: []*Location{l4, l3, l2, l1}, Value: []int64{1, 10}, Label: map[string][]string{"k": {"v1"}}},
			{Location: []*Location{l2, l1}, Value: []int64{2, 20}},
			{Location: []*Location{l3, l2, l3, l1}, Value: []int64{3, 30}, NumLabel: map[string][]int64{"bytes": {64}}, NumUnit: map[string][]string{"bytes": {"bytes"}}},
			{Location: []*Location{l5, l1}, Value: []int64{4, 40}},
			{Location: []*Location{l6}, Value: []int64{5, 50}},
			{Location: nil, Value: []int64{6, 60}},
			{Location: []*Location{l7, l4}, Value: []int64{7, 70}, Label: map[string][]string{"k": {"v2", "v3"}}},
			{Location: []*Location{l1, l7, l5, l6}, Value: []int64{-8, 80}},
		},
	}
	return p
}

func zzEquivADump(p *Profile) string {
	var b strings.Builder
	locStr := func(l *Location) string {
		var fns []string
		for _, ln := range l.Line {
			fns = append(fns, fmt.Sprintf("%s:%d", ln.Function.Name, ln.Line))
		}
		return fmt.Sprintf("%d[%s]", l.ID, strings.Join(fns, ","))
	}
	for _, s := range p.Sample {
		var locs []string
		for _, l := range s.Location {
			locs = append(locs, locStr(l))
		}
		var labs []string
		for k, v := range s.Label {
			labs = append(labs, k+"="+strings.Join(v, "+"))
		}
		for k, v := range s.NumLabel {
			labs = append(labs, fmt.Sprintf("%s=%v%v", k, v, s.NumUnit[k]))
		}
		sort.Strings(labs)
		fmt.Fprintf(&b, "S %v {%s} %s\n", s.Value, strings.Join(labs, ";"), strings.Join(locs, " "))
	}
	for _, l := range p.Location {
		fmt.Fprintf(&b, "L %s\n", locStr(l))
	}
	return b.String()
}

func TestZZEquivAShowFrom(t *testing.T) {
	exprs := []string{"", "main", "foo", "^bar$", "baz", "libc", "app", "foo\\.go", "memcpy|bar", "nomatch", "string\\.c|main\\.go", "."}
	var got strings.Builder
	for _, e := range exprs {
		p := zzEquivAProfile()
		var re *regexp.Regexp
		if e != "" {
			re = regexp.MustCompile(e)
		}
		m := p.ShowFrom(re)
		if err := p.CheckValid(); err != nil {
			t.Errorf("show_from=%q: invalid profile: %v", e, err)
		}
		fmt.Fprintf(&got, "== show_from=%q matched=%v\n%s", e, m, zzEquivADump(p))
	}
	if os.Getenv("ZZ_PRINT") != "" {
		os.WriteFile(os.Getenv("ZZ_PRINT"), []byte(got.String()), 0o644)
		return
	}
	if got.String() != zzEquivAWant {
		t.Errorf("ShowFrom output differs from the output recorded on the unchanged tree.\ngot:\n%s\nwant:\n%s", got.String(), zzEquivAWant)
	}
}

const zzEquivAWant = `== show_from="" matched=false
S [1 10] {k=v1} 100[memcpy:5] 23[bar:4] 7[baz:2,foo:3] 40[main:1]
S [2 20] {} 7[baz:2,foo:3] 40[main:1]
S [3 30] {bytes=[64][bytes]} 23[bar:4] 7[baz:2,foo:3] 23[bar:4] 40[main:1]
S [4 40] {} 5[] 40[main:1]
S [5 50] {} 61[]
S [6 60] {} 
S [7 70] {k=v2+v3} 12[foo:6,bar:7,foo:8,main:9] 100[memcpy:5]
S [-8 80] {} 40[main:1] 12[foo:6,bar:7,foo:8,main:9] 5[] 61[]
L 40[main:1]
L 7[baz:2,foo:3]
L 23[bar:4]
L 100[memcpy:5]
L 5[]
L 61[]
L 12[foo:6,bar:7,foo:8,main:9]
== show_from="main" matched=true
S [1 10] {k=v1} 100[memcpy:5] 23[bar:4] 7[baz:2,foo:3] 40[main:1]
S [2 20] {} 7[baz:2,foo:3] 40[main:1]
S [3 30] {bytes=[64][bytes]} 23[bar:4] 7[baz:2,foo:3] 23[bar:4] 40[main:1]
S [4 40] {} 5[] 40[main:1]
S [7 70] {k=v2+v3} 12[foo:6,bar:7,foo:8,main:9]
S [-8 80] {} 40[main:1] 12[foo:6,bar:7,foo:8,main:9]
L 40[main:1]
L 7[baz:2,foo:3]
L 23[bar:4]
L 100[memcpy:5]
L 5[]
L 61[]
L 12[foo:6,bar:7,foo:8,main:9]
== show_from="foo" matched=true
S [1 10] {k=v1} 100[memcpy:5] 23[bar:4] 7[baz:2,foo:3]
S [2 20] {} 7[baz:2,foo:3]
S [3 30] {bytes=[64][bytes]} 23[bar:4] 7[baz:2,foo:3]
S [7 70] {k=v2+v3} 12[foo:6,bar:7,foo:8]
S [-8 80] {} 40[main:1] 12[foo:6,bar:7,foo:8]
L 40[main:1]
L 7[baz:2,foo:3]
L 23[bar:4]
L 100[memcpy:5]
L 5[]
L 61[]
L 12[foo:6,bar:7,foo:8]
== show_from="^bar$" matched=true
S [1 10] {k=v1} 100[memcpy:5] 23[bar:4]
S [3 30] {bytes=[64][bytes]} 23[bar:4] 7[baz:2,foo:3] 23[bar:4]
S [7 70] {k=v2+v3} 12[foo:6,bar:7]
S [-8 80] {} 40[main:1] 12[foo:6,bar:7]
L 40[main:1]
L 7[baz:2,foo:3]
L 23[bar:4]
L 100[memcpy:5]
L 5[]
L 61[]
L 12[foo:6,bar:7]
== show_from="baz" matched=true
S [1 10] {k=v1} 100[memcpy:5] 23[bar:4] 7[baz:2]
S [2 20] {} 7[baz:2]
S [3 30] {bytes=[64][bytes]} 23[bar:4] 7[baz:2]
L 40[main:1]
L 7[baz:2]
L 23[bar:4]
L 100[memcpy:5]
L 5[]
L 61[]
L 12[foo:6,bar:7,foo:8,main:9]
== show_from="libc" matched=true
S [1 10] {k=v1} 100[memcpy:5]
S [4 40] {} 5[]
S [7 70] {k=v2+v3} 12[foo:6,bar:7,foo:8,main:9] 100[memcpy:5]
S [-8 80] {} 40[main:1] 12[foo:6,bar:7,foo:8,main:9] 5[]
L 40[main:1]
L 7[baz:2,foo:3]
L 23[bar:4]
L 100[memcpy:5]
L 5[]
L 61[]
L 12[foo:6,bar:7,foo:8,main:9]
== show_from="app" matched=true
S [1 10] {k=v1} 100[memcpy:5] 23[bar:4] 7[baz:2,foo:3] 40[main:1]
S [2 20] {} 7[baz:2,foo:3] 40[main:1]
S [3 30] {bytes=[64][bytes]} 23[bar:4] 7[baz:2,foo:3] 23[bar:4] 40[main:1]
S [4 40] {} 5[] 40[main:1]
S [7 70] {k=v2+v3} 12[foo:6,bar:7,foo:8,main:9]
S [-8 80] {} 40[main:1] 12[foo:6,bar:7,foo:8,main:9]
L 40[main:1]
L 7[baz:2,foo:3]
L 23[bar:4]
L 100[memcpy:5]
L 5[]
L 61[]
L 12[foo:6,bar:7,foo:8,main:9]
== show_from="foo\\.go" matched=true
S [1 10] {k=v1} 100[memcpy:5] 23[bar:4] 7[baz:2,foo:3]
S [2 20] {} 7[baz:2,foo:3]
S [3 30] {bytes=[64][bytes]} 23[bar:4] 7[baz:2,foo:3]
S [7 70] {k=v2+v3} 12[foo:6,bar:7,foo:8]
S [-8 80] {} 40[main:1] 12[foo:6,bar:7,foo:8]
L 40[main:1]
L 7[baz:2,foo:3]
L 23[bar:4]
L 100[memcpy:5]
L 5[]
L 61[]
L 12[foo:6,bar:7,foo:8]
== show_from="memcpy|bar" matched=true
S [1 10] {k=v1} 100[memcpy:5] 23[bar:4]
S [3 30] {bytes=[64][bytes]} 23[bar:4] 7[baz:2,foo:3] 23[bar:4]
S [7 70] {k=v2+v3} 12[foo:6,bar:7] 100[memcpy:5]
S [-8 80] {} 40[main:1] 12[foo:6,bar:7]
L 40[main:1]
L 7[baz:2,foo:3]
L 23[bar:4]
L 100[memcpy:5]
L 5[]
L 61[]
L 12[foo:6,bar:7]
== show_from="nomatch" matched=false
L 40[main:1]
L 7[baz:2,foo:3]
L 23[bar:4]
L 100[memcpy:5]
L 5[]
L 61[]
L 12[foo:6,bar:7,foo:8,main:9]
== show_from="string\\.c|main\\.go" matched=true
S [1 10] {k=v1} 100[memcpy:5] 23[bar:4] 7[baz:2,foo:3] 40[main:1]
S [2 20] {} 7[baz:2,foo:3] 40[main:1]
S [3 30] {bytes=[64][bytes]} 23[bar:4] 7[baz:2,foo:3] 23[bar:4] 40[main:1]
S [4 40] {} 5[] 40[main:1]
S [7 70] {k=v2+v3} 12[foo:6,bar:7,foo:8,main:9] 100[memcpy:5]
S [-8 80] {} 40[main:1] 12[foo:6,bar:7,foo:8,main:9]
L 40[main:1]
L 7[baz:2,foo:3]
L 23[bar:4]
L 100[memcpy:5]
L 5[]
L 61[]
L 12[foo:6,bar:7,foo:8,main:9]
== show_from="." matched=true
S [1 10] {k=v1} 100[memcpy:5] 23[bar:4] 7[baz:2,foo:3] 40[main:1]
S [2 20] {} 7[baz:2,foo:3] 40[main:1]
S [3 30] {bytes=[64][bytes]} 23[bar:4] 7[baz:2,foo:3] 23[bar:4] 40[main:1]
S [4 40] {} 5[] 40[main:1]
S [7 70] {k=v2+v3} 12[foo:6,bar:7,foo:8,main:9] 100[memcpy:5]
S [-8 80] {} 40[main:1] 12[foo:6,bar:7,foo:8,main:9] 5[]
L 40[main:1]
L 7[baz:2,foo:3]
L 23[bar:4]
L 100[memcpy:5]
L 5[]
L 61[]
L 12[foo:6,bar:7,foo:8,main:9]
`
