#!/bin/sh
# Usage: demo.sh <worktree root>. Runs the equivalence test for change A.
set -u
wt="$1"
here="$(cd "$(dirname "$0")" && pwd)"
export GOFLAGS=-mod=mod GOPROXY=off GOSUMDB=off GOTOOLCHAIN=local
cp "$here/zz_equiv_a_test.go" "$wt/profile/zz_equiv_a_test.go"
(cd "$wt" && go test -vet=off -count=1 -run 'TestZZEquivA' ./profile/)
rc=$?
rm -f "$wt/profile/zz_equiv_a_test.go"
exit $rc
