package graph

import (
	"bytes"
	"crypto/sha256"
	"fmt"
	"strings"
	"testing"

	"github.com/google/pprof/profile"
)

// zzEquivAProfile builds a tie-rich profile: equal-magnitude opposite-sign
// weights, many label tags and numeric tags per node (more than maxNodelets,
// so that both the truncation and the bucket collapsing are exercised), numeric
// tags nested under label tags and under the empty label, leaf and inner nodes.
func zzEquivAProfile() *profile.Profile {
	m := &profile.Mapping{ID: 1, Start: 0x1000, Limit: 0x9000, File: "/bin/zz"}
	var fns []*profile.Function
	var locs []*profile.Location
	for i, name := range []string{"main", "alpha", "beta", "beta", "leaf::one", "leaf.two"} {
		f := &profile.Function{ID: uint64(i + 1), Name: name, SystemName: name, Filename: "/src/" + name + ".go"}
		fns = append(fns, f)
		locs = append(locs, &profile.Location{ID: uint64(i + 1), Mapping: m, Address: uint64(0x1000 + 0x100*i),
			Line: []profile.Line{{Function: f, Line: int64(10 + i)}}})
	}
	p := &profile.Profile{
		SampleType: []*profile.ValueType{{Type: "samples", Unit: "count"}},
		PeriodType: &profile.ValueType{Type: "cpu", Unit: "nanoseconds"},
		Period:     1,
		Mapping:    []*profile.Mapping{m},
		Function:   fns,
		Location:   locs,
	}
	stack := func(ids ...int) []*profile.Location {
		var s []*profile.Location
		for _, id := range ids {
			s = append(s, locs[id-1])
		}
		return s
	}
	add := func(v int64, st []*profile.Location, lab map[string][]string, num map[string][]int64, unit map[string][]string) {
		p.Sample = append(p.Sample, &profile.Sample{Value: []int64{v}, Location: st, Label: lab, NumLabel: num, NumUnit: unit})
	}
	// Leaf 5 reached through 2: many label tags with ties, numeric tags nested in them.
	for i := 0; i < 7; i++ {
		w := int64(10)
		if i%2 == 1 {
			w = -10
		}
		add(w, stack(5, 2, 1), map[string][]string{"k": {fmt.Sprintf("v%d", i)}},
			map[string][]int64{"bytes": {int64(1 << (10 + uint(i))), int64(3 * (i + 1))}},
			map[string][]string{"bytes": {"bytes", "bytes"}})
	}
	// Leaf 6 reached through 3 and 4 (same name "beta" at different addresses): unlabelled numeric tags.
	for i := 0; i < 9; i++ {
		via := 3 + i%2
		add(int64(5+i%3), stack(6, via, 1), nil,
			map[string][]int64{"request": {int64(100 * (i + 1))}, "alignment": {int64(8 << uint(i%4))}}, nil)
	}
	// Inner node 2 also gets flat weight, with label "q\"x" needing escaping and equal weights.
	add(7, stack(2, 1), map[string][]string{"q\"x": {"a\\b"}, "k": {"v0"}}, map[string][]int64{"latency": {1500}}, map[string][]string{"latency": {"ms"}})
	add(-7, stack(2, 1), map[string][]string{"r": {"z"}}, map[string][]int64{"latency": {2500}}, map[string][]string{"latency": {"ms"}})
	add(7, stack(2, 1), map[string][]string{"s": {"z"}}, nil, nil)
	add(7, stack(2, 1), map[string][]string{"t": {"z"}}, nil, nil)
	add(7, stack(2, 1), map[string][]string{"u": {"z"}}, nil, nil)
	add(3, stack(1), nil, map[string][]int64{"bytes": {64, 64, 128}}, nil)
	return p
}

func zzEquivADot(callTree bool) string {
	p := zzEquivAProfile()
	g := New(p, &Options{
		SampleValue: func(v []int64) int64 { return v[0] },
		CallTree:    callTree,
		FormatTag:   func(v int64, u string) string { return fmt.Sprintf("%d%s", v, u) },
	})
	g.SortNodes(true, true)
	var buf bytes.Buffer
	ComposeDot(&buf, g, &DotAttributes{Nodes: map[*Node]*DotNodeAttributes{}}, &DotConfig{
		Title:       "zz",
		Labels:      []string{"legend one", "legend \"two\""},
		FormatValue: func(v int64) string { return fmt.Sprintf("%d\"u", v) },
		Total:       100,
	})
	return buf.String()
}

func TestZZEquivA(t *testing.T) {
	want := map[bool]string{
		false: zzEquivAWantGraph,
		true:  zzEquivAWantTree,
	}
	for _, callTree := range []bool{false, true} {
		for run := 0; run < 40; run++ {
			got := zzEquivADot(callTree)
			if strings.Count(got, "box3d") < 10 {
				t.Fatalf("callTree=%v: too few nodelets, test does not exercise the code:\n%s", callTree, got)
			}
			if sum := fmt.Sprintf("%x", sha256.Sum256([]byte(got))); sum != want[callTree] {
				t.Fatalf("callTree=%v run %d: sha256 %s, want %s\n%s", callTree, run, sum, want[callTree], got)
			}
		}
	}
}

// Expected sha256 of the DOT output, computed on the unchanged tree (identical over 40 runs each).
const (
	zzEquivAWantGraph = "81891b95f8a5f5c852d1c0fabef69adffba11f4dfe02df07176e492a1140d8ea"
	zzEquivAWantTree  = "7cf18f90cd9f9bdfec27b7d2d639c383c0a8f6cd4a529e4586cd43f74c1ab743"
)
