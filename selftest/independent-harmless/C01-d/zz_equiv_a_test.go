package profile

import (
	"bytes"
	"crypto/sha256"
	"encoding/hex"
	"fmt"
	"os"
	"reflect"
	"testing"
)

// Equivalence demonstration for change A (packed-varint decoding in proto.go).
// Expected values were computed on the unchanged tree and hard-coded.

func zzaHash(b []byte) string {
	h := sha256.Sum256(b)
	return hex.EncodeToString(h[:8])
}

func zzaProfiles() []*Profile {
	var out []*Profile
	out = append(out, &Profile{})

	// nLoc = number of frames per sample, straddling the packed threshold (>2).
	for _, k := range []int{0, 1, 2, 3} { // number of sample types
		p := &Profile{
			TimeNanos:     -5,
			DurationNanos: 1<<63 - 1,
			Period:        -1 << 63,
			PeriodType:    &ValueType{Type: "cpu\xff", Unit: ""},
			DropFrames:    "drop.*",
			KeepFrames:    "",
			DocURL:        "http://x/\x80",
		}
		for i := 0; i < k; i++ {
			p.SampleType = append(p.SampleType, &ValueType{Type: fmt.Sprintf("t%d", i), Unit: []string{"", "bytes", "ns"}[i%3]})
		}
		if k > 0 {
			p.DefaultSampleType = "t0"
		}
		for i := 0; i < k+1; i++ { // 1..4 comments: commentX packed when > 2
			p.Comments = append(p.Comments, fmt.Sprintf("c%d", i%2))
		}
		m1 := &Mapping{ID: 1, Start: 0x1000, Limit: 0x2000, Offset: 7, File: "/bin/a", BuildID: "abc", HasFunctions: true}
		m2 := &Mapping{ID: 1<<63 + 9, Start: 1 << 62, Limit: 1<<64 - 1, File: "[kernel.kallsyms]_stext", HasInlineFrames: true, HasLineNumbers: true}
		p.Mapping = []*Mapping{m1, m2}
		f1 := &Function{ID: 1, Name: "main", SystemName: "_main", Filename: "a.go", StartLine: 3}
		f2 := &Function{ID: 1 << 40, Name: "", SystemName: "\xfe\xff", Filename: "", StartLine: -4}
		f3 := &Function{ID: 3, Name: "unused"}
		p.Function = []*Function{f1, f2, f3}
		l1 := &Location{ID: 1, Mapping: m1, Address: 0x1234, Line: []Line{{Function: f1, Line: 10, Column: 2}}}
		l2 := &Location{ID: 1<<64 - 1, Mapping: m2, Address: 1<<64 - 2, IsFolded: true,
			Line: []Line{{Function: f2, Line: -1}, {Function: f1, Line: 1 << 40, Column: -7}, {Function: f3, Line: 5}}}
		l3 := &Location{ID: 77} // no mapping, no lines, sparse id
		l4 := &Location{ID: 2, Mapping: m1, Line: []Line{{Function: f3}}}
		p.Location = []*Location{l1, l2, l3, l4}
		if k > 0 {
			stacks := [][]*Location{{}, {l1}, {l2, l1}, {l1, l2, l3}, {l3, l3, l1, l2, l1, l2, l1}}
			for si, st := range stacks {
				s := &Sample{Location: st}
				for v := 0; v < k; v++ {
					s.Value = append(s.Value, []int64{0, -1, 1<<63 - 1, -1 << 63, 300}[(si+v)%5])
				}
				switch si {
				case 1:
					s.Label = map[string][]string{"k": {"v1", "v2", ""}, "": {"x"}}
				case 2:
					s.NumLabel = map[string][]int64{"n": {0, 5, -9}, "z": {0}}
					s.NumUnit = map[string][]string{"n": {"", "bytes", ""}}
				case 3:
					s.Label = map[string][]string{"a": {"\xff"}}
					s.NumLabel = map[string][]int64{"a": {1 << 62}, "b": {0, 0}}
					s.NumUnit = map[string][]string{"a": {""}, "b": {"u", ""}}
				}
				p.Sample = append(p.Sample, s)
			}
		}
		out = append(out, p)
	}
	return out
}

var zzaWant = []string{
	// per profile: hash(first bytes) hash(String after parse) hash(stable bytes)
	"70467b4faccc7758 d2b1b5346623a787 70467b4faccc7758",
	"81131a5b4234a8cd 60cbc9325ab8ea4d 81131a5b4234a8cd",
	"9fd1139f92661ac9 55d538e8bb87c9a2 a107b7455ae816f7",
	"932c9ac5c599bbf3 96354a75eb0f809b dc049fcaa83cc038",
	"659beeece6748067 a4ad5625b00f7049 1cfa974159ac4512",
}

func TestZZEquivA_RoundTrip(t *testing.T) {
	print := os.Getenv("ZZ_PRINT") != ""
	for i, p := range zzaProfiles() {
		if err := p.CheckValid(); err != nil {
			t.Fatalf("profile %d not valid: %v", i, err)
		}
		var b1 bytes.Buffer
		if err := p.WriteUncompressed(&b1); err != nil {
			t.Fatal(err)
		}
		p2, err := ParseData(b1.Bytes())
		if err != nil {
			t.Fatalf("profile %d: parse: %v", i, err)
		}
		var gz bytes.Buffer
		if err := p.Write(&gz); err != nil {
			t.Fatal(err)
		}
		p2z, err := ParseData(gz.Bytes())
		if err != nil {
			t.Fatalf("profile %d: parse gz: %v", i, err)
		}
		if p2.String() != p2z.String() {
			t.Errorf("profile %d: compressed and uncompressed parse differ", i)
		}
		var b2, b3 bytes.Buffer
		p2.WriteUncompressed(&b2)
		p3, err := ParseData(b2.Bytes())
		if err != nil {
			t.Fatalf("profile %d: reparse: %v", i, err)
		}
		p3.WriteUncompressed(&b3)
		if !bytes.Equal(b2.Bytes(), b3.Bytes()) {
			t.Errorf("profile %d: parsed profile does not re-serialize to identical bytes", i)
		}
		if p2.String() != p3.String() {
			t.Errorf("profile %d: parsed profile changed after write+parse", i)
		}
		got := zzaHash(b1.Bytes()) + " " + zzaHash([]byte(p2.String())) + " " + zzaHash(b2.Bytes())
		if print {
			fmt.Printf("ZZA%d %q\n", i, got)
			continue
		}
		if got != zzaWant[i] {
			t.Errorf("profile %d: got %q want %q", i, got, zzaWant[i])
		}
	}
}

func TestZZEquivA_PackedDecode(t *testing.T) {
	ff9 := bytes.Repeat([]byte{0xff}, 9)
	type tc struct {
		name    string
		typ     int
		u64     uint64
		data    []byte
		pre     []uint64
		want    []uint64
		wantErr string
	}
	cases := []tc{
		{name: "empty packed keeps nil", typ: 2, data: nil, want: nil},
		{name: "packed small", typ: 2, data: []byte{0x01, 0xac, 0x02, 0x00}, want: []uint64{1, 300, 0}},
		{name: "packed 10-byte max", typ: 2, data: append(append([]byte{}, ff9...), 0x01), want: []uint64{1<<64 - 1}},
		{name: "packed 10-byte overflow bits dropped", typ: 2, data: append(append([]byte{0x05}, ff9...), 0x7f), want: []uint64{5, 1<<64 - 1}},
		{name: "packed 11-byte varint", typ: 2, data: append(append([]byte{0x05}, ff9...), 0xff, 0x01), want: []uint64{5}, wantErr: "bad varint"},
		{name: "packed truncated", typ: 2, data: []byte{0x07, 0x08, 0x80}, want: []uint64{7, 8}, wantErr: "bad varint"},
		{name: "packed appended to existing", typ: 2, data: []byte{0x80, 0x01, 0x02}, pre: []uint64{9, 9}, want: []uint64{9, 9, 128, 2}},
		{name: "single varint", typ: 0, u64: 1 << 63, pre: []uint64{4}, want: []uint64{4, 1 << 63}},
		{name: "wrong wire type", typ: 1, u64: 3, want: nil, wantErr: "type mismatch"},
	}
	for _, c := range cases {
		// uint64 flavour
		b := &buffer{typ: c.typ, u64: c.u64, data: c.data}
		var x []uint64
		if c.pre != nil {
			x = append(x, c.pre...)
		}
		err := decodeUint64s(b, &x)
		if es := fmt.Sprint(err); (c.wantErr == "" && err != nil) || (c.wantErr != "" && es != c.wantErr) {
			t.Errorf("%s: uint64s err = %v, want %q", c.name, err, c.wantErr)
		}
		if !reflect.DeepEqual(x, c.want) {
			t.Errorf("%s: uint64s = %#v, want %#v", c.name, x, c.want)
		}
		// int64 flavour
		b = &buffer{typ: c.typ, u64: c.u64, data: c.data}
		var y, wantY []int64
		for _, v := range c.pre {
			y = append(y, int64(v))
		}
		for _, v := range c.want {
			wantY = append(wantY, int64(v))
		}
		err = decodeInt64s(b, &y)
		if es := fmt.Sprint(err); (c.wantErr == "" && err != nil) || (c.wantErr != "" && es != c.wantErr) {
			t.Errorf("%s: int64s err = %v, want %q", c.name, err, c.wantErr)
		}
		if !reflect.DeepEqual(y, wantY) {
			t.Errorf("%s: int64s = %#v, want %#v", c.name, y, wantY)
		}
	}

	// decodeVarint directly: value, number of bytes consumed, error.
	vcases := []struct {
		in      []byte
		want    uint64
		used    int
		wantErr bool
	}{
		{[]byte{}, 0, 0, true},
		{[]byte{0x00, 0xff}, 0, 1, false},
		{[]byte{0xac, 0x02, 0x80}, 300, 2, false},
		{append(append([]byte{}, ff9...), 0x01, 0x55), 1<<64 - 1, 10, false},
		{append(append([]byte{}, ff9...), 0x02), 1<<63 - 1, 10, false}, // bit 64 silently dropped
		{append(append([]byte{}, ff9...), 0x80, 0x00), 0, 0, true},
		{[]byte{0x80, 0x80}, 0, 0, true},
	}
	for i, c := range vcases {
		u, rest, err := decodeVarint(c.in)
		if (err != nil) != c.wantErr {
			t.Errorf("varint %d: err = %v, wantErr %v", i, err, c.wantErr)
			continue
		}
		if err != nil {
			if u != 0 || rest != nil {
				t.Errorf("varint %d: on error got u=%d rest=%v", i, u, rest)
			}
			continue
		}
		if u != c.want || len(c.in)-len(rest) != c.used {
			t.Errorf("varint %d: got %d used %d, want %d used %d", i, u, len(c.in)-len(rest), c.want, c.used)
		}
	}
}

// A hand-assembled profile whose sample mixes packed and unpacked
// encodings of the same repeated field must parse identically.
func TestZZEquivA_MixedPackedUnpacked(t *testing.T) {
	sample := []byte{
		0x08, 0x01, // location_id 1 (unpacked)
		0x0a, 0x03, 0x02, 0x01, 0x02, // location_id packed [2 1 2]
		0x08, 0x02, // location_id 2 (unpacked)
		0x12, 0x0b, 0x05, 0xff, 0xff, 0xff, 0xff, 0xff, 0xff, 0xff, 0xff, 0xff, 0x01, // value packed [5 -1]
	}
	msg := []byte{}
	msg = append(msg, 0x0a, 0x02, 0x08, 0x01, 0x0a, 0x02, 0x08, 0x01) // two sample types, type=1
	msg = append(msg, 0x12, byte(len(sample)))
	msg = append(msg, sample...)
	msg = append(msg, 0x22, 0x02, 0x08, 0x01) // location id 1
	msg = append(msg, 0x22, 0x02, 0x08, 0x02) // location id 2
	msg = append(msg, 0x32, 0x00, 0x32, 0x01, 'x')
	p, err := ParseData(msg)
	if err != nil {
		t.Fatal(err)
	}
	var ids []uint64
	for _, l := range p.Sample[0].Location {
		ids = append(ids, l.ID)
	}
	if !reflect.DeepEqual(ids, []uint64{1, 2, 1, 2, 2}) {
		t.Errorf("location ids = %v", ids)
	}
	if !reflect.DeepEqual(p.Sample[0].Value, []int64{5, -1}) {
		t.Errorf("values = %v", p.Sample[0].Value)
	}
	var b1, b2 bytes.Buffer
	p.WriteUncompressed(&b1)
	p2, err := ParseData(b1.Bytes())
	if err != nil {
		t.Fatal(err)
	}
	p2.WriteUncompressed(&b2)
	if !bytes.Equal(b1.Bytes(), b2.Bytes()) || p.String() != p2.String() {
		t.Errorf("parsed profile not stable under write+parse")
	}
	if got, want := zzaHash(b1.Bytes()), "477ab105c9821e4e"; os.Getenv("ZZ_PRINT") != "" {
		fmt.Printf("ZZAMIX %q\n", got)
	} else if got != want {
		t.Errorf("bytes hash %s want %s", got, want)
	}
}
