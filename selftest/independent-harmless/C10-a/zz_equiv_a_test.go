package driver

import (
	"bytes"
	"fmt"
	"io"
	"os"
	"sort"
	"strings"
	"testing"

	"github.com/google/pprof/internal/plugin"
	"github.com/google/pprof/internal/proftest"
)

// zzAMemWriter is a plugin.Writer that keeps every opened file in memory.
type zzAMemWriter struct{ files map[string]*bytes.Buffer }

type zzAMemFile struct{ *bytes.Buffer }

func (zzAMemFile) Close() error { return nil }

func (w *zzAMemWriter) Open(name string) (io.WriteCloser, error) {
	b := &bytes.Buffer{}
	w.files[name] = b
	return zzAMemFile{b}, nil
}

// zzAUI records everything printed, and feeds a fixed script.
type zzAUI struct {
	proftest.TestUI
	log *strings.Builder
}

func (u *zzAUI) Print(args ...interface{})    { fmt.Fprintln(u.log, "OUT:", fmt.Sprint(args...)) }
func (u *zzAUI) PrintErr(args ...interface{}) { fmt.Fprintln(u.log, "ERR:", fmt.Sprint(args...)) }

func zzACheck(t *testing.T, name, got, want string) {
	t.Helper()
	if os.Getenv("ZZ_PRINT") != "" {
		fmt.Printf("=== %s ===\n%s=== end ===\n", name, got)
		return
	}
	if got != want {
		t.Errorf("%s: transcript differs from the one recorded on the unchanged tree\n--- got ---\n%s--- want ---\n%s", name, got, want)
	}
}

// TestZZEquivAParse drives parseCommandLine with abbreviated commands
// (top10, list5, ...) interleaved with persistent option assignments and
// checks the (command, per-command config, error) triple and that the
// persistent config is left untouched by command-line arguments.
func TestZZEquivAParse(t *testing.T) {
	saved := currentConfig()
	defer setCurrentConfig(saved)
	setCurrentConfig(defaultConfig())

	lines := []string{
		"top10",
		"top",
		"top 5 foo -bar",
		"top10 -cum",
		"top007 a b -c -d",
		"focus=main",
		"top3",
		"tags1 foo -bar",
		"tags",
		"top20 >out",
		"top > out2",
		"top >",
		"list",
		"list F1",
		"list10 F",
		"peek5",
		"123",
		"9",
		"xyz12",
		"web9x",
		"top१२",  // Devanagari digits are not [0-9]
		"topx١",       // Arabic-indic digit
		"top1١",       // ASCII digit then non-ASCII digit
		"nodecount 5",
		"nodecount",
		"nodecount7",
		"nodecount=30",
		"svg3 a.*b -c[0-9]+",
		"sort=cum",
		"text4 -x",
		"text",
		"top-1",
		"top 2147483648",
		"traces2 --cum",
		"disasm3 F",
		"weblist12",
		"o5",
	}
	var sb strings.Builder
	for _, l := range lines {
		if i := strings.Index(l, "="); i > 0 && isConfigurable(l[:i]) {
			err := configure(l[:i], l[i+1:])
			fmt.Fprintf(&sb, "%q: configure err=%v\n", l, err)
			continue
		}
		before := currentConfig()
		tokens := strings.Fields(l)
		cmd, cfg, err := parseCommandLine(tokens)
		fmt.Fprintf(&sb, "%q: cmd=%q err=%v tokens=%q\n   cfg=%+v\n", l, cmd, err, tokens, cfg)
		if after := currentConfig(); after != before {
			t.Errorf("%q: command-line arguments leaked into the persistent config:\n%+v\n%+v", l, before, after)
		}
	}
	zzACheck(t, "parse", sb.String(), zzAWantParse)
}

// TestZZEquivAInteractive runs a whole interactive session on a real profile,
// with abbreviated commands, and checks that repeating a command after a
// focused/limited one gives the same bytes as the first time.
func TestZZEquivAInteractive(t *testing.T) {
	saved := currentConfig()
	defer setCurrentConfig(saved)
	setCurrentConfig(defaultConfig())
	savedSC := pprofShortcuts
	defer func() { pprofShortcuts = savedSC }()
	pprofShortcuts = shortcuts{":": savedSC[":"]}
	savedHelp := configHelp["sample_index"]
	defer func() { configHelp["sample_index"] = savedHelp }()
	savedMode := interactiveMode
	defer func() { interactiveMode = savedMode }()

	var log strings.Builder
	w := &zzAMemWriter{files: map[string]*bytes.Buffer{}}
	ui := &zzAUI{log: &log}
	ui.T = t
	ui.Input = []string{
		"top10 >o1",
		"top1 F3 >o2",
		"top10 >o3",
		"top2 -cum >o4",
		"top10 >o5",
		"traces >t1",
		"top1 -F3 >o6",
		"traces >t2",
		"nodecount=1",
		"top >o7",
		"top10 >o8",
		"nodecount=-1",
		"top10 >o9",
		"tags3 >g1",
		"bogus12",
		"sample_index 0",
		"quit",
	}
	o := setDefaults(&plugin.Options{Obj: fakeObjTool{}, UI: ui, Writer: w})
	o.UI = ui
	o.Writer = w
	if err := interactive(makeFakeProfile(), o); err != nil {
		t.Fatal(err)
	}
	var names []string
	for n := range w.files {
		names = append(names, n)
	}
	sort.Strings(names)
	var sb strings.Builder
	sb.WriteString(log.String())
	for _, n := range names {
		fmt.Fprintf(&sb, "--- file %s ---\n%s", n, w.files[n].String())
	}
	for _, pair := range [][2]string{{"o1", "o3"}, {"o1", "o5"}, {"o1", "o9"}, {"t1", "t2"}} {
		if a, b := w.files[pair[0]].String(), w.files[pair[1]].String(); a != b || a == "" {
			t.Errorf("%s and %s differ: an earlier command leaked into a later one\n%s\n%s", pair[0], pair[1], a, b)
		}
	}
	zzACheck(t, "interactive", sb.String(), zzAWantInteractive)
}

const zzAWantParse = `"top10": cmd=["top"] err=<nil> tokens=["top"]
   cfg={Output: CallTree:false RelativePercentages:false Unit:minimum CompactLabels:false SourcePath: TrimPath: IntelSyntax:false Mean:false SampleIndex: DivideBy:1 Normalize:false Sort:flat TagRoot: TagLeaf: DropNegative:false NodeCount:10 NodeFraction:0.005 EdgeFraction:0.001 Trim:true Focus: Ignore: PruneFrom: Hide: Show: ShowFrom: TagFocus: TagIgnore: TagShow: TagHide: NoInlines:false ShowColumns:false Granularity:}
"top": cmd=["top"] err=<nil> tokens=["top"]
   cfg={Output: CallTree:false RelativePercentages:false Unit:minimum CompactLabels:false SourcePath: TrimPath: IntelSyntax:false Mean:false SampleIndex: DivideBy:1 Normalize:false Sort:flat TagRoot: TagLeaf: DropNegative:false NodeCount:10 NodeFraction:0.005 EdgeFraction:0.001 Trim:true Focus: Ignore: PruneFrom: Hide: Show: ShowFrom: TagFocus: TagIgnore: TagShow: TagHide: NoInlines:false ShowColumns:false Granularity:}
"top 5 foo -bar": cmd=["top"] err=<nil> tokens=["top" "5" "foo" "-bar"]
   cfg={Output: CallTree:false RelativePercentages:false Unit:minimum CompactLabels:false SourcePath: TrimPath: IntelSyntax:false Mean:false SampleIndex: DivideBy:1 Normalize:false Sort:flat TagRoot: TagLeaf: DropNegative:false NodeCount:5 NodeFraction:0.005 EdgeFraction:0.001 Trim:true Focus:foo Ignore:bar PruneFrom: Hide: Show: ShowFrom: TagFocus: TagIgnore: TagShow: TagHide: NoInlines:false ShowColumns:false Granularity:}
"top10 -cum": cmd=["top"] err=<nil> tokens=["top" "-cum"]
   cfg={Output: CallTree:false RelativePercentages:false Unit:minimum CompactLabels:false SourcePath: TrimPath: IntelSyntax:false Mean:false SampleIndex: DivideBy:1 Normalize:false Sort:cum TagRoot: TagLeaf: DropNegative:false NodeCount:10 NodeFraction:0.005 EdgeFraction:0.001 Trim:true Focus: Ignore: PruneFrom: Hide: Show: ShowFrom: TagFocus: TagIgnore: TagShow: TagHide: NoInlines:false ShowColumns:false Granularity:}
"top007 a b -c -d": cmd=["top"] err=<nil> tokens=["top" "a" "b" "-c" "-d"]
   cfg={Output: CallTree:false RelativePercentages:false Unit:minimum CompactLabels:false SourcePath: TrimPath: IntelSyntax:false Mean:false SampleIndex: DivideBy:1 Normalize:false Sort:flat TagRoot: TagLeaf: DropNegative:false NodeCount:7 NodeFraction:0.005 EdgeFraction:0.001 Trim:true Focus:a|b Ignore:c|d PruneFrom: Hide: Show: ShowFrom: TagFocus: TagIgnore: TagShow: TagHide: NoInlines:false ShowColumns:false Granularity:}
"focus=main": configure err=<nil>
"top3": cmd=["top"] err=<nil> tokens=["top"]
   cfg={Output: CallTree:false RelativePercentages:false Unit:minimum CompactLabels:false SourcePath: TrimPath: IntelSyntax:false Mean:false SampleIndex: DivideBy:1 Normalize:false Sort:flat TagRoot: TagLeaf: DropNegative:false NodeCount:3 NodeFraction:0.005 EdgeFraction:0.001 Trim:true Focus:main Ignore: PruneFrom: Hide: Show: ShowFrom: TagFocus: TagIgnore: TagShow: TagHide: NoInlines:false ShowColumns:false Granularity:}
"tags1 foo -bar": cmd=["tags"] err=<nil> tokens=["tags" "foo" "-bar"]
   cfg={Output: CallTree:false RelativePercentages:false Unit:minimum CompactLabels:false SourcePath: TrimPath: IntelSyntax:false Mean:false SampleIndex: DivideBy:1 Normalize:false Sort:flat TagRoot: TagLeaf: DropNegative:false NodeCount:1 NodeFraction:0.005 EdgeFraction:0.001 Trim:true Focus:main Ignore: PruneFrom: Hide: Show: ShowFrom: TagFocus:foo TagIgnore:bar TagShow: TagHide: NoInlines:false ShowColumns:false Granularity:}
"tags": cmd=["tags"] err=<nil> tokens=["tags"]
   cfg={Output: CallTree:false RelativePercentages:false Unit:minimum CompactLabels:false SourcePath: TrimPath: IntelSyntax:false Mean:false SampleIndex: DivideBy:1 Normalize:false Sort:flat TagRoot: TagLeaf: DropNegative:false NodeCount:-1 NodeFraction:0.005 EdgeFraction:0.001 Trim:true Focus:main Ignore: PruneFrom: Hide: Show: ShowFrom: TagFocus: TagIgnore: TagShow: TagHide: NoInlines:false ShowColumns:false Granularity:}
"top20 >out": cmd=["top"] err=<nil> tokens=["top" ">out"]
   cfg={Output:out CallTree:false RelativePercentages:false Unit:minimum CompactLabels:false SourcePath: TrimPath: IntelSyntax:false Mean:false SampleIndex: DivideBy:1 Normalize:false Sort:flat TagRoot: TagLeaf: DropNegative:false NodeCount:20 NodeFraction:0.005 EdgeFraction:0.001 Trim:true Focus:main Ignore: PruneFrom: Hide: Show: ShowFrom: TagFocus: TagIgnore: TagShow: TagHide: NoInlines:false ShowColumns:false Granularity:}
"top > out2": cmd=["top"] err=<nil> tokens=["top" ">" "out2"]
   cfg={Output:out2 CallTree:false RelativePercentages:false Unit:minimum CompactLabels:false SourcePath: TrimPath: IntelSyntax:false Mean:false SampleIndex: DivideBy:1 Normalize:false Sort:flat TagRoot: TagLeaf: DropNegative:false NodeCount:10 NodeFraction:0.005 EdgeFraction:0.001 Trim:true Focus:main Ignore: PruneFrom: Hide: Show: ShowFrom: TagFocus: TagIgnore: TagShow: TagHide: NoInlines:false ShowColumns:false Granularity:}
"top >": cmd=[] err=unexpected end of line after > tokens=["top" ">"]
   cfg={Output: CallTree:false RelativePercentages:false Unit: CompactLabels:false SourcePath: TrimPath: IntelSyntax:false Mean:false SampleIndex: DivideBy:0 Normalize:false Sort: TagRoot: TagLeaf: DropNegative:false NodeCount:0 NodeFraction:0 EdgeFraction:0 Trim:false Focus: Ignore: PruneFrom: Hide: Show: ShowFrom: TagFocus: TagIgnore: TagShow: TagHide: NoInlines:false ShowColumns:false Granularity:}
"list": cmd=[] err=command list requires an argument tokens=["list"]
   cfg={Output: CallTree:false RelativePercentages:false Unit: CompactLabels:false SourcePath: TrimPath: IntelSyntax:false Mean:false SampleIndex: DivideBy:0 Normalize:false Sort: TagRoot: TagLeaf: DropNegative:false NodeCount:0 NodeFraction:0 EdgeFraction:0 Trim:false Focus: Ignore: PruneFrom: Hide: Show: ShowFrom: TagFocus: TagIgnore: TagShow: TagHide: NoInlines:false ShowColumns:false Granularity:}
"list F1": cmd=["list" "F1"] err=<nil> tokens=["list" "F1"]
   cfg={Output: CallTree:false RelativePercentages:false Unit:minimum CompactLabels:false SourcePath: TrimPath: IntelSyntax:false Mean:false SampleIndex: DivideBy:1 Normalize:false Sort:flat TagRoot: TagLeaf: DropNegative:false NodeCount:-1 NodeFraction:0.005 EdgeFraction:0.001 Trim:true Focus:main Ignore: PruneFrom: Hide: Show: ShowFrom: TagFocus: TagIgnore: TagShow: TagHide: NoInlines:false ShowColumns:false Granularity:}
"list10 F": cmd=["list" "10"] err=<nil> tokens=["list" "10"]
   cfg={Output: CallTree:false RelativePercentages:false Unit:minimum CompactLabels:false SourcePath: TrimPath: IntelSyntax:false Mean:false SampleIndex: DivideBy:1 Normalize:false Sort:flat TagRoot: TagLeaf: DropNegative:false NodeCount:-1 NodeFraction:0.005 EdgeFraction:0.001 Trim:true Focus:F Ignore: PruneFrom: Hide: Show: ShowFrom: TagFocus: TagIgnore: TagShow: TagHide: NoInlines:false ShowColumns:false Granularity:}
"peek5": cmd=["peek" "5"] err=<nil> tokens=["peek"]
   cfg={Output: CallTree:false RelativePercentages:false Unit:minimum CompactLabels:false SourcePath: TrimPath: IntelSyntax:false Mean:false SampleIndex: DivideBy:1 Normalize:false Sort:flat TagRoot: TagLeaf: DropNegative:false NodeCount:-1 NodeFraction:0.005 EdgeFraction:0.001 Trim:true Focus:main Ignore: PruneFrom: Hide: Show: ShowFrom: TagFocus: TagIgnore: TagShow: TagHide: NoInlines:false ShowColumns:false Granularity:}
"123": cmd=[] err=unrecognized command: "123" tokens=["123"]
   cfg={Output: CallTree:false RelativePercentages:false Unit: CompactLabels:false SourcePath: TrimPath: IntelSyntax:false Mean:false SampleIndex: DivideBy:0 Normalize:false Sort: TagRoot: TagLeaf: DropNegative:false NodeCount:0 NodeFraction:0 EdgeFraction:0 Trim:false Focus: Ignore: PruneFrom: Hide: Show: ShowFrom: TagFocus: TagIgnore: TagShow: TagHide: NoInlines:false ShowColumns:false Granularity:}
"9": cmd=[] err=unrecognized command: "9" tokens=["9"]
   cfg={Output: CallTree:false RelativePercentages:false Unit: CompactLabels:false SourcePath: TrimPath: IntelSyntax:false Mean:false SampleIndex: DivideBy:0 Normalize:false Sort: TagRoot: TagLeaf: DropNegative:false NodeCount:0 NodeFraction:0 EdgeFraction:0 Trim:false Focus: Ignore: PruneFrom: Hide: Show: ShowFrom: TagFocus: TagIgnore: TagShow: TagHide: NoInlines:false ShowColumns:false Granularity:}
"xyz12": cmd=[] err=unrecognized command: "xyz" tokens=["xyz"]
   cfg={Output: CallTree:false RelativePercentages:false Unit: CompactLabels:false SourcePath: TrimPath: IntelSyntax:false Mean:false SampleIndex: DivideBy:0 Normalize:false Sort: TagRoot: TagLeaf: DropNegative:false NodeCount:0 NodeFraction:0 EdgeFraction:0 Trim:false Focus: Ignore: PruneFrom: Hide: Show: ShowFrom: TagFocus: TagIgnore: TagShow: TagHide: NoInlines:false ShowColumns:false Granularity:}
"web9x": cmd=[] err=unrecognized command: "web9x" tokens=["web9x"]
   cfg={Output: CallTree:false RelativePercentages:false Unit: CompactLabels:false SourcePath: TrimPath: IntelSyntax:false Mean:false SampleIndex: DivideBy:0 Normalize:false Sort: TagRoot: TagLeaf: DropNegative:false NodeCount:0 NodeFraction:0 EdgeFraction:0 Trim:false Focus: Ignore: PruneFrom: Hide: Show: ShowFrom: TagFocus: TagIgnore: TagShow: TagHide: NoInlines:false ShowColumns:false Granularity:}
"top१२": cmd=[] err=unrecognized command: "top१२" tokens=["top१२"]
   cfg={Output: CallTree:false RelativePercentages:false Unit: CompactLabels:false SourcePath: TrimPath: IntelSyntax:false Mean:false SampleIndex: DivideBy:0 Normalize:false Sort: TagRoot: TagLeaf: DropNegative:false NodeCount:0 NodeFraction:0 EdgeFraction:0 Trim:false Focus: Ignore: PruneFrom: Hide: Show: ShowFrom: TagFocus: TagIgnore: TagShow: TagHide: NoInlines:false ShowColumns:false Granularity:}
"topx١": cmd=[] err=unrecognized command: "topx١" tokens=["topx١"]
   cfg={Output: CallTree:false RelativePercentages:false Unit: CompactLabels:false SourcePath: TrimPath: IntelSyntax:false Mean:false SampleIndex: DivideBy:0 Normalize:false Sort: TagRoot: TagLeaf: DropNegative:false NodeCount:0 NodeFraction:0 EdgeFraction:0 Trim:false Focus: Ignore: PruneFrom: Hide: Show: ShowFrom: TagFocus: TagIgnore: TagShow: TagHide: NoInlines:false ShowColumns:false Granularity:}
"top1١": cmd=[] err=unrecognized command: "top1١" tokens=["top1١"]
   cfg={Output: CallTree:false RelativePercentages:false Unit: CompactLabels:false SourcePath: TrimPath: IntelSyntax:false Mean:false SampleIndex: DivideBy:0 Normalize:false Sort: TagRoot: TagLeaf: DropNegative:false NodeCount:0 NodeFraction:0 EdgeFraction:0 Trim:false Focus: Ignore: PruneFrom: Hide: Show: ShowFrom: TagFocus: TagIgnore: TagShow: TagHide: NoInlines:false ShowColumns:false Granularity:}
"nodecount 5": cmd=[] err=did you mean: nodecount=5 tokens=["nodecount" "5"]
   cfg={Output: CallTree:false RelativePercentages:false Unit: CompactLabels:false SourcePath: TrimPath: IntelSyntax:false Mean:false SampleIndex: DivideBy:0 Normalize:false Sort: TagRoot: TagLeaf: DropNegative:false NodeCount:0 NodeFraction:0 EdgeFraction:0 Trim:false Focus: Ignore: PruneFrom: Hide: Show: ShowFrom: TagFocus: TagIgnore: TagShow: TagHide: NoInlines:false ShowColumns:false Granularity:}
"nodecount": cmd=[] err=did you mean: nodecount=<val> tokens=["nodecount"]
   cfg={Output: CallTree:false RelativePercentages:false Unit: CompactLabels:false SourcePath: TrimPath: IntelSyntax:false Mean:false SampleIndex: DivideBy:0 Normalize:false Sort: TagRoot: TagLeaf: DropNegative:false NodeCount:0 NodeFraction:0 EdgeFraction:0 Trim:false Focus: Ignore: PruneFrom: Hide: Show: ShowFrom: TagFocus: TagIgnore: TagShow: TagHide: NoInlines:false ShowColumns:false Granularity:}
"nodecount7": cmd=[] err=did you mean: nodecount=7 tokens=["nodecount"]
   cfg={Output: CallTree:false RelativePercentages:false Unit: CompactLabels:false SourcePath: TrimPath: IntelSyntax:false Mean:false SampleIndex: DivideBy:0 Normalize:false Sort: TagRoot: TagLeaf: DropNegative:false NodeCount:0 NodeFraction:0 EdgeFraction:0 Trim:false Focus: Ignore: PruneFrom: Hide: Show: ShowFrom: TagFocus: TagIgnore: TagShow: TagHide: NoInlines:false ShowColumns:false Granularity:}
"nodecount=30": configure err=<nil>
"svg3 a.*b -c[0-9]+": cmd=["svg"] err=<nil> tokens=["svg" "a.*b" "-c[0-9]+"]
   cfg={Output: CallTree:false RelativePercentages:false Unit:minimum CompactLabels:false SourcePath: TrimPath: IntelSyntax:false Mean:false SampleIndex: DivideBy:1 Normalize:false Sort:flat TagRoot: TagLeaf: DropNegative:false NodeCount:3 NodeFraction:0.005 EdgeFraction:0.001 Trim:true Focus:a.*b Ignore:c[0-9]+ PruneFrom: Hide: Show: ShowFrom: TagFocus: TagIgnore: TagShow: TagHide: NoInlines:false ShowColumns:false Granularity:}
"sort=cum": configure err=<nil>
"text4 -x": cmd=["text"] err=<nil> tokens=["text" "-x"]
   cfg={Output: CallTree:false RelativePercentages:false Unit:minimum CompactLabels:false SourcePath: TrimPath: IntelSyntax:false Mean:false SampleIndex: DivideBy:1 Normalize:false Sort:cum TagRoot: TagLeaf: DropNegative:false NodeCount:4 NodeFraction:0.005 EdgeFraction:0.001 Trim:true Focus:main Ignore:x PruneFrom: Hide: Show: ShowFrom: TagFocus: TagIgnore: TagShow: TagHide: NoInlines:false ShowColumns:false Granularity:}
"text": cmd=["text"] err=<nil> tokens=["text"]
   cfg={Output: CallTree:false RelativePercentages:false Unit:minimum CompactLabels:false SourcePath: TrimPath: IntelSyntax:false Mean:false SampleIndex: DivideBy:1 Normalize:false Sort:cum TagRoot: TagLeaf: DropNegative:false NodeCount:30 NodeFraction:0.005 EdgeFraction:0.001 Trim:true Focus:main Ignore: PruneFrom: Hide: Show: ShowFrom: TagFocus: TagIgnore: TagShow: TagHide: NoInlines:false ShowColumns:false Granularity:}
"top-1": cmd=[] err=unrecognized command: "top-" tokens=["top-"]
   cfg={Output: CallTree:false RelativePercentages:false Unit: CompactLabels:false SourcePath: TrimPath: IntelSyntax:false Mean:false SampleIndex: DivideBy:0 Normalize:false Sort: TagRoot: TagLeaf: DropNegative:false NodeCount:0 NodeFraction:0 EdgeFraction:0 Trim:false Focus: Ignore: PruneFrom: Hide: Show: ShowFrom: TagFocus: TagIgnore: TagShow: TagHide: NoInlines:false ShowColumns:false Granularity:}
"top 2147483648": cmd=["top"] err=<nil> tokens=["top" "2147483648"]
   cfg={Output: CallTree:false RelativePercentages:false Unit:minimum CompactLabels:false SourcePath: TrimPath: IntelSyntax:false Mean:false SampleIndex: DivideBy:1 Normalize:false Sort:cum TagRoot: TagLeaf: DropNegative:false NodeCount:30 NodeFraction:0.005 EdgeFraction:0.001 Trim:true Focus:2147483648 Ignore: PruneFrom: Hide: Show: ShowFrom: TagFocus: TagIgnore: TagShow: TagHide: NoInlines:false ShowColumns:false Granularity:}
"traces2 --cum": cmd=["traces"] err=<nil> tokens=["traces" "--cum"]
   cfg={Output: CallTree:false RelativePercentages:false Unit:minimum CompactLabels:false SourcePath: TrimPath: IntelSyntax:false Mean:false SampleIndex: DivideBy:1 Normalize:false Sort:cum TagRoot: TagLeaf: DropNegative:false NodeCount:2 NodeFraction:0.005 EdgeFraction:0.001 Trim:true Focus:main Ignore: PruneFrom: Hide: Show: ShowFrom: TagFocus: TagIgnore: TagShow: TagHide: NoInlines:false ShowColumns:false Granularity:}
"disasm3 F": cmd=["disasm" "3"] err=<nil> tokens=["disasm" "3"]
   cfg={Output: CallTree:false RelativePercentages:false Unit:minimum CompactLabels:false SourcePath: TrimPath: IntelSyntax:false Mean:false SampleIndex: DivideBy:1 Normalize:false Sort:cum TagRoot: TagLeaf: DropNegative:false NodeCount:30 NodeFraction:0.005 EdgeFraction:0.001 Trim:true Focus:F Ignore: PruneFrom: Hide: Show: ShowFrom: TagFocus: TagIgnore: TagShow: TagHide: NoInlines:false ShowColumns:false Granularity:}
"weblist12": cmd=["weblist" "12"] err=<nil> tokens=["weblist"]
   cfg={Output: CallTree:false RelativePercentages:false Unit:minimum CompactLabels:false SourcePath: TrimPath: IntelSyntax:false Mean:false SampleIndex: DivideBy:1 Normalize:false Sort:cum TagRoot: TagLeaf: DropNegative:false NodeCount:30 NodeFraction:0.005 EdgeFraction:0.001 Trim:true Focus:main Ignore: PruneFrom: Hide: Show: ShowFrom: TagFocus: TagIgnore: TagShow: TagHide: NoInlines:false ShowColumns:false Granularity:}
"o5": cmd=[] err=unrecognized command: "o" tokens=["o"]
   cfg={Output: CallTree:false RelativePercentages:false Unit: CompactLabels:false SourcePath: TrimPath: IntelSyntax:false Mean:false SampleIndex: DivideBy:0 Normalize:false Sort: TagRoot: TagLeaf: DropNegative:false NodeCount:0 NodeFraction:0 EdgeFraction:0 Trim:false Focus: Ignore: PruneFrom: Hide: Show: ShowFrom: TagFocus: TagIgnore: TagShow: TagHide: NoInlines:false ShowColumns:false Granularity:}
`

const zzAWantInteractive = `OUT: File: testbin
Type: cpu
Duration: 10s, Total samples = 300ms ( 3.00%)
OUT: Entering interactive mode (type "help" for commands, "o" for options)
ERR: Generating report in o1
ERR: Generating report in o2
ERR: Generating report in o3
ERR: Generating report in o4
ERR: Generating report in o5
ERR: Generating report in t1
ERR: Generating report in o6
ERR: Generating report in t2
ERR: Generating report in o7
ERR: Generating report in o8
ERR: Generating report in o9
ERR: Generating report in g1
ERR: unrecognized command: "bogus"
ERR: did you mean: sample_index=0
--- file g1 ---
--- file o1 ---
Showing nodes accounting for 300ms, 100% of 300ms total
      flat  flat%   sum%        cum   cum%
     200ms 66.67% 66.67%      300ms   100%  F2
     100ms 33.33%   100%      100ms 33.33%  F3
         0     0%   100%      300ms   100%  F1
--- file o2 ---
Active filters:
   focus=F3
Showing nodes accounting for 100ms, 33.33% of 300ms total
Showing top 1 nodes out of 3
      flat  flat%   sum%        cum   cum%
     100ms 33.33% 33.33%      100ms 33.33%  F3
--- file o3 ---
Showing nodes accounting for 300ms, 100% of 300ms total
      flat  flat%   sum%        cum   cum%
     200ms 66.67% 66.67%      300ms   100%  F2
     100ms 33.33%   100%      100ms 33.33%  F3
         0     0%   100%      300ms   100%  F1
--- file o4 ---
Showing nodes accounting for 200ms, 66.67% of 300ms total
Showing top 2 nodes out of 3
      flat  flat%   sum%        cum   cum%
         0     0%     0%      300ms   100%  F1
     200ms 66.67% 66.67%      300ms   100%  F2
--- file o5 ---
Showing nodes accounting for 300ms, 100% of 300ms total
      flat  flat%   sum%        cum   cum%
     200ms 66.67% 66.67%      300ms   100%  F2
     100ms 33.33%   100%      100ms 33.33%  F3
         0     0%   100%      300ms   100%  F1
--- file o6 ---
Active filters:
   ignore=F3
Showing nodes accounting for 200ms, 66.67% of 300ms total
Showing top 1 nodes out of 2
      flat  flat%   sum%        cum   cum%
     200ms 66.67% 66.67%      200ms 66.67%  F2
--- file o7 ---
Showing nodes accounting for 200ms, 66.67% of 300ms total
Showing top 1 nodes out of 3
      flat  flat%   sum%        cum   cum%
     200ms 66.67% 66.67%      300ms   100%  F2
--- file o8 ---
Showing nodes accounting for 300ms, 100% of 300ms total
      flat  flat%   sum%        cum   cum%
     200ms 66.67% 66.67%      300ms   100%  F2
     100ms 33.33%   100%      100ms 33.33%  F3
         0     0%   100%      300ms   100%  F1
--- file o9 ---
Showing nodes accounting for 300ms, 100% of 300ms total
      flat  flat%   sum%        cum   cum%
     200ms 66.67% 66.67%      300ms   100%  F2
     100ms 33.33%   100%      100ms 33.33%  F3
         0     0%   100%      300ms   100%  F1
--- file t1 ---
File: testbin
Type: cpu
Duration: 10s, Total samples = 300ms ( 3.00%)
-----------+-------------------------------------------------------
     100ms   F3
             F2
             F1
-----------+-------------------------------------------------------
     200ms   F2
             F1
-----------+-------------------------------------------------------
--- file t2 ---
File: testbin
Type: cpu
Duration: 10s, Total samples = 300ms ( 3.00%)
-----------+-------------------------------------------------------
     100ms   F3
             F2
             F1
-----------+-------------------------------------------------------
     200ms   F2
             F1
-----------+-------------------------------------------------------
`
