package driver

// Equivalence demonstration scaffold for property C16 (multi-source fetch
// merges whatever succeeded, independent of timing). Kept out of the patch.

import (
	"bytes"
	"crypto/sha256"
	"fmt"
	"io"
	"net/http"
	"os"
	"path/filepath"
	"sort"
	"strings"
	"sync"
	"testing"
	"time"

	"github.com/google/pprof/internal/plugin"
	"github.com/google/pprof/profile"
)

func init() { time.Local = time.UTC } // p.String() prints the profile time in local time

var (
	_ = os.Getenv
	_ = filepath.Join
	_ = io.EOF
)

// zzUI records everything printed; safe for concurrent use.
type zzUI struct {
	mu    sync.Mutex
	errs  []string
	infos []string
}

func (u *zzUI) ReadLine(string) (string, error) { return "", io.EOF }
func (u *zzUI) Print(args ...interface{}) {
	u.mu.Lock()
	defer u.mu.Unlock()
	u.infos = append(u.infos, fmt.Sprint(args...))
}
func (u *zzUI) PrintErr(args ...interface{}) {
	u.mu.Lock()
	defer u.mu.Unlock()
	u.errs = append(u.errs, fmt.Sprint(args...))
}
func (u *zzUI) IsTerminal() bool                    { return false }
func (u *zzUI) WantBrowser() bool                   { return false }
func (u *zzUI) SetAutoComplete(func(string) string) {}

type zzSym struct{}

func (zzSym) Symbolize(string, plugin.MappingSources, *profile.Profile) error { return nil }

// zzProfile builds the i-th synthetic profile. Different i give different
// functions, mappings, units and values so that the merge order is visible in
// the merged profile.
func zzProfile(i int) *profile.Profile {
	unit := "nanoseconds"
	mul := int64(1000000)
	if i%5 == 0 {
		unit, mul = "milliseconds", 1
	}
	m := &profile.Mapping{ID: 1, Start: 0x1000, Limit: 0x400000, File: "/bin/prog", BuildID: "bid0"}
	switch i % 4 {
	case 1:
		m.File, m.BuildID = fmt.Sprintf("/lib/lib%d.so", i%3), ""
	case 2:
		m.File, m.BuildID = "", ""
	case 3:
		m.BuildID = fmt.Sprintf("bid%d", i%6)
	}
	f1 := &profile.Function{ID: 1, Name: fmt.Sprintf("fn%d", i%7), SystemName: fmt.Sprintf("fn%d", i%7), Filename: "a.go"}
	f2 := &profile.Function{ID: 2, Name: fmt.Sprintf("uniq%d", i), SystemName: fmt.Sprintf("uniq%d", i), Filename: "b.go"}
	l1 := &profile.Location{ID: 1, Mapping: m, Address: 0x1100 + uint64(i%7)*16, Line: []profile.Line{{Function: f1, Line: int64(10 + i%7)}}}
	l2 := &profile.Location{ID: 2, Mapping: m, Address: 0x2000 + uint64(i)*16, Line: []profile.Line{{Function: f2, Line: int64(i)}}}
	return &profile.Profile{
		SampleType:    []*profile.ValueType{{Type: "samples", Unit: "count"}, {Type: "cpu", Unit: unit}},
		PeriodType:    &profile.ValueType{Type: "cpu", Unit: unit},
		Period:        10 * mul,
		DurationNanos: int64(1000 + i),
		TimeNanos:     int64(5000 - i),
		Comments:      []string{fmt.Sprintf("c%d", i%9)},
		Sample: []*profile.Sample{
			{Location: []*profile.Location{l1, l2}, Value: []int64{int64(i + 1), int64(i+1) * 10 * mul}},
			{Location: []*profile.Location{l2}, Value: []int64{1, 10 * mul}, Label: map[string][]string{"k": {fmt.Sprintf("v%d", i%3)}}},
			{Location: []*profile.Location{l1}, Value: []int64{int64(2 + i%4), int64(2+i%4) * 10 * mul}},
		},
		Location: []*profile.Location{l1, l2},
		Function: []*profile.Function{f1, f2},
		Mapping:  []*profile.Mapping{m},
	}
}

func zzBytes(p *profile.Profile) []byte {
	var b bytes.Buffer
	if err := p.Write(&b); err != nil {
		panic(err)
	}
	return b.Bytes()
}

// zzInvalid is a well-formed encoding of a profile that fails validation
// (sample value count does not match the sample types).
func zzInvalid(i int) []byte {
	p := zzProfile(i)
	p.Sample[0].Value = []int64{1}
	return zzBytes(p)
}

// zzTransport serves URLs of the form http://host/<kind>/<id>. Every request
// is delayed by a pseudo-random amount derived from (seed, url) so that the
// completion order of concurrent fetches differs between seeds.
type zzTransport struct {
	seed uint64
	max  time.Duration
}

func zzMix(x uint64) uint64 {
	x += 0x9e3779b97f4a7c15
	x = (x ^ (x >> 30)) * 0xbf58476d1ce4e5b9
	x = (x ^ (x >> 27)) * 0x94d049bb133111eb
	return x ^ (x >> 31)
}

func (tr *zzTransport) RoundTrip(req *http.Request) (*http.Response, error) {
	parts := strings.Split(strings.Trim(req.URL.Path, "/"), "/")
	if len(parts) < 2 {
		return nil, fmt.Errorf("bad test url %s", req.URL)
	}
	kind := parts[len(parts)-2]
	var id int
	fmt.Sscanf(parts[len(parts)-1], "%d", &id)
	if tr.max > 0 {
		h := tr.seed
		for _, c := range []byte(req.URL.String()) {
			h = zzMix(h ^ uint64(c))
		}
		time.Sleep(time.Duration(h % uint64(tr.max)))
	}
	resp := &http.Response{
		StatusCode: 200, Status: "200 OK", Proto: "HTTP/1.1", ProtoMajor: 1, ProtoMinor: 1,
		Header: http.Header{}, Request: req,
	}
	var body []byte
	switch kind {
	case "ok":
		body = zzBytes(zzProfile(id))
	case "garbage":
		body = []byte(fmt.Sprintf("this is not a profile %d\x00\x01\x02", id))
	case "empty":
		body = nil
	case "invalid":
		body = zzInvalid(id)
	case "404":
		resp.StatusCode, resp.Status = 404, "404 Not Found"
		body = []byte("nope")
	case "500pprof":
		resp.StatusCode, resp.Status = 500, "500 Internal Server Error"
		resp.Header.Set("X-Go-Pprof", "1")
		resp.Header.Set("Content-Type", "text/plain; charset=utf-8")
		body = []byte(fmt.Sprintf("profiling busy %d", id))
	case "neterr":
		return nil, fmt.Errorf("simulated connection refused %d", id)
	default:
		return nil, fmt.Errorf("bad test kind %q", kind)
	}
	resp.Body = io.NopCloser(bytes.NewReader(body))
	resp.ContentLength = int64(len(body))
	return resp, nil
}

func zzDumpMsrc(w io.Writer, name string, ms plugin.MappingSources) {
	keys := make([]string, 0, len(ms))
	for k := range ms {
		keys = append(keys, k)
	}
	sort.Strings(keys)
	fmt.Fprintf(w, "%s: %d keys nil=%v\n", name, len(keys), ms == nil)
	for _, k := range keys {
		fmt.Fprintf(w, "  %q nil=%v:", k, ms[k] == nil)
		for _, e := range ms[k] {
			fmt.Fprintf(w, " (%s,%#x)", e.Source, e.Start)
		}
		fmt.Fprintln(w)
	}
}

func zzDumpProfile(w io.Writer, name string, p *profile.Profile) {
	if p == nil {
		fmt.Fprintf(w, "%s: <nil>\n", name)
		return
	}
	fmt.Fprintf(w, "%s:\n%s\n", name, p.String())
}

// zzDumpUI writes error lines mentioning "/s/" (sources) in the order printed,
// then those mentioning "/b/" (bases) in the order printed, then the rest and
// the info lines sorted (sources and bases are fetched concurrently so their
// relative order is not promised).
func zzDumpUI(w io.Writer, ui *zzUI, norm func(string) string) {
	ui.mu.Lock()
	defer ui.mu.Unlock()
	var s, b, rest []string
	for _, e := range ui.errs {
		e = norm(e)
		switch {
		case strings.Contains(e, "/s/"):
			s = append(s, e)
		case strings.Contains(e, "/b/"):
			b = append(b, e)
		default:
			rest = append(rest, e)
		}
	}
	sort.Strings(rest)
	infos := make([]string, 0, len(ui.infos))
	for _, i := range ui.infos {
		infos = append(infos, norm(i))
	}
	sort.Strings(infos)
	fmt.Fprintf(w, "src errs:\n  %s\nbase errs:\n  %s\nother errs:\n  %s\ninfos:\n  %s\n",
		strings.Join(s, "\n  "), strings.Join(b, "\n  "), strings.Join(rest, "\n  "), strings.Join(infos, "\n  "))
}

func zzHash(s string) string {
	return fmt.Sprintf("%x/%d", sha256.Sum256([]byte(s)), len(s))[56:]
}

// zzKinds picks the behaviour of source i under failure pattern pat.
func zzKind(pat string, i, n int) string {
	fails := []string{"404", "garbage", "invalid", "neterr", "500pprof", "empty"}
	switch pat {
	case "none":
		return "ok"
	case "all":
		return fails[i%len(fails)]
	case "every3":
		if i%3 == 1 {
			return fails[(i/3)%len(fails)]
		}
		return "ok"
	case "firstchunk": // everything in the first 128-chunk fails
		if i < 128 {
			return fails[i%len(fails)]
		}
		return "ok"
	case "boundary": // failures right around the chunk boundary
		if i == 0 || i == 127 || i == 128 || i == 255 || i == 256 || i == n-1 {
			return fails[i%len(fails)]
		}
		return "ok"
	case "onlylast":
		if i == n-1 {
			return "ok"
		}
		return fails[i%len(fails)]
	}
	panic(pat)
}

// zzAddrs builds n addresses for role "s" (source) or "b" (base). host
// "pproftest.local" is treated as local by grabProfile (no save), any other
// host counts as remote.
func zzAddrs(role, host, pat string, n, idBase int) []string {
	out := make([]string, n)
	for i := range out {
		out[i] = fmt.Sprintf("http://%s/%s/%s/%d", host, role, zzKind(pat, i, n), idBase+i)
	}
	return out
}

func zzSources(s *source, addrs []string) []profileSource {
	out := make([]profileSource, len(addrs))
	for i, a := range addrs {
		out[i] = profileSource{addr: a, source: s}
	}
	return out
}

func zzGrab(srcAddrs, baseAddrs []string, seed uint64, max time.Duration, norm func(string) string) string {
	s := &source{Sources: srcAddrs, Base: baseAddrs}
	ui := &zzUI{}
	tr := &zzTransport{seed: seed, max: max}
	p, pb, m, mb, save, err := grabSourcesAndBases(zzSources(s, srcAddrs), zzSources(s, baseAddrs), nil, testObj{}, ui, tr)
	var w strings.Builder
	fmt.Fprintf(&w, "err=%v save=%v\n", err, save)
	zzDumpProfile(&w, "p", p)
	zzDumpProfile(&w, "pbase", pb)
	zzDumpMsrc(&w, "msrc", m)
	zzDumpMsrc(&w, "mbase", mb)
	zzDumpUI(&w, ui, norm)
	return w.String()
}

func zzIdent(s string) string { return s }

func zzCheck(t *testing.T, name, got, want string) {
	t.Helper()
	if dir := os.Getenv("ZZ_DUMP"); dir != "" {
		os.WriteFile(filepath.Join(dir, strings.ReplaceAll(name, "/", "_")+".txt"), []byte(got), 0644)
	}
	h := zzHash(got)
	if os.Getenv("ZZ_PRINT") != "" {
		fmt.Printf("\t\t%q: %q,\n", name, h)
		return
	}
	if h != want {
		t.Errorf("%s: digest %s, want %s\n%.300s", name, h, want, got)
	}
}

var zzWantB = map[string]string{
	"direct/compatibilized":    "e52e8feb/679",
	"direct/empty-values":      "888e0e55/1254",
	"direct/error":             "38a478a5/107",
	"direct/nil-entry":         "dcfbd880/981",
	"direct/overlapping-keys":  "efed5bc4/2489",
	"direct/single":            "7f7d9dc7/473",
	"direct/two-msrcs-for-one": "7bcb61b9/522",
	"grab/r1":                  "95fc2320/1144",
	"grab/r128":                "c343b057/8403",
	"grab/r129":                "b18d7f70/51976",
	"grab/r257":                "d8b6f433/103955",
	"grab/r300":                "f4220be6/153740",
	"grab/r300-firstchunk":     "148f720d/69217",
	"grab/r9":                  "188d6978/4765",
}

type zzMS = struct {
	Source string
	Start  uint64
}

// TestZZEquivB exercises combineProfiles directly (mapping sources with
// overlapping, disjoint, empty and nil entries) and through
// grabSourcesAndBases with remote sources whose mapping sources have to be
// combined within and across 128-source chunks.
func TestZZEquivB(t *testing.T) {
	mk := func(ids ...int) ([]*profile.Profile, []plugin.MappingSources) {
		var ps []*profile.Profile
		var ms []plugin.MappingSources
		for _, id := range ids {
			p := zzProfile(id)
			ps = append(ps, p)
			ms = append(ms, collectMappingSources(p, fmt.Sprintf("http://h/%d", id)))
		}
		return ps, ms
	}
	direct := func(name string, ps []*profile.Profile, ms []plugin.MappingSources) {
		p, m, err := combineProfiles(ps, ms)
		var w strings.Builder
		fmt.Fprintf(&w, "err=%v\n", err)
		zzDumpProfile(&w, "p", p)
		zzDumpMsrc(&w, "msrc", m)
		zzCheck(t, name, w.String(), zzWantB[name])
	}
	{
		ps, ms := mk(4)
		direct("direct/single", ps, ms)
	}
	{
		ps, ms := mk(0, 4, 8, 12, 3, 9, 1, 2, 6)
		direct("direct/overlapping-keys", ps, ms)
	}
	{
		ps, ms := mk(1, 2, 3)
		ms[1] = nil // e.g. a local file source
		direct("direct/nil-entry", ps, ms)
	}
	{
		ps, ms := mk(1, 2, 3, 7)
		ms[0] = plugin.MappingSources{}
		ms[2]["bid3"] = nil      // empty value for a key seen for the first time
		ms[3]["bid1"] = []zzMS{} // empty, non-nil
		ms[3]["extra"] = []zzMS{{"x", 1}, {"y", 2}, {"x", 1}}
		direct("direct/empty-values", ps, ms)
	}
	{
		ps, ms := mk(5, 6)
		direct("direct/two-msrcs-for-one", ps[:1], ms) // not the single fast path
	}
	{
		ps, ms := mk(1, 2)
		ps[1].SampleType = ps[1].SampleType[:1]
		for _, s := range ps[1].Sample {
			s.Value = s.Value[:1]
		}
		direct("direct/compatibilized", ps, ms)
	}
	{
		ps, ms := mk(1, 2)
		ps[1].PeriodType = &profile.ValueType{Type: "wall", Unit: "bytes"}
		direct("direct/error", ps, ms)
	}

	type sc struct {
		name        string
		nsrc, nbase int
		spat, bpat  string
	}
	for _, c := range []sc{
		{"r1", 1, 1, "none", "none"},
		{"r9", 9, 5, "every3", "none"},
		{"r128", 128, 2, "boundary", "all"},
		{"r129", 129, 129, "every3", "firstchunk"},
		{"r257", 257, 131, "boundary", "every3"},
		{"r300", 300, 300, "every3", "boundary"},
		{"r300-firstchunk", 300, 0, "firstchunk", "none"},
	} {
		src := zzAddrs("s", "remote.test", c.spat, c.nsrc, 0)
		base := zzAddrs("b", "other.test", c.bpat, c.nbase, 500)
		for _, seed := range []uint64{5, 6} {
			got := zzGrab(src, base, seed, 3*time.Millisecond, zzIdent)
			zzCheck(t, "grab/"+c.name, got, zzWantB["grab/"+c.name])
		}
	}
}
