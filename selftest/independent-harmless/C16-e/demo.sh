#!/bin/sh
# usage: demo.sh <worktree root>; exits 0 iff the equivalence test passes on that tree.
set -e
here=$(cd "$(dirname "$0")" && pwd)
root=${1:?worktree root}
export GOFLAGS=-mod=mod GOPROXY=off GOSUMDB=off GOTOOLCHAIN=local
dst="$root/internal/driver/zz_equiv_b_test.go"
cp "$here/zz_equiv_b_test.go" "$dst"
trap 'rm -f "$dst"' EXIT
cd "$root"
go test -vet=off -count=1 -run 'TestZZEquivB$' ./internal/driver/
