package profile

import (
	"fmt"
	"os"
	"sort"
	"strings"
	"sync"
	"testing"
)

// Equivalence demonstration for change B (RemoveUninteresting: memoized
// compilation of the anchored drop/keep expressions). Expectations were
// computed on the unchanged tree and hard-coded.

// zzbBuild makes a profile. locs[i] lists the function names of location
// i+1, innermost inlined frame first; samples list 1-based location ids,
// leaf first.
func zzbBuild(drop, keep string, locs [][]string, samples [][]uint64) *Profile {
	p := &Profile{
		DropFrames: drop,
		KeepFrames: keep,
		SampleType: []*ValueType{{Type: "samples", Unit: "count"}, {Type: "cpu", Unit: "ns"}},
		PeriodType: &ValueType{Type: "cpu", Unit: "ns"},
		Period:     1,
	}
	m := &Mapping{ID: 1, Start: 0x1000, Limit: 0x100000, File: "/bin/prog", HasFunctions: true}
	p.Mapping = []*Mapping{m}
	funcs := map[string]*Function{}
	fn := func(name string) *Function {
		if name == "" {
			return nil
		}
		if f, ok := funcs[name]; ok {
			return f
		}
		f := &Function{ID: uint64(len(p.Function) + 1), Name: name, SystemName: name, Filename: "f.go"}
		funcs[name] = f
		p.Function = append(p.Function, f)
		return f
	}
	for i, names := range locs {
		l := &Location{ID: uint64(i + 1), Mapping: m, Address: uint64(0x1000 + 16*i)}
		for j, n := range names {
			l.Line = append(l.Line, Line{Function: fn(n), Line: int64(10*i + j + 1)})
		}
		p.Location = append(p.Location, l)
	}
	for i, ids := range samples {
		s := &Sample{
			Value:    []int64{int64(i + 1), int64(100 * (i + 1))},
			Label:    map[string][]string{"k": {fmt.Sprintf("v%d", i)}},
			NumLabel: map[string][]int64{"bytes": {int64(i)}},
			NumUnit:  map[string][]string{"bytes": {"b"}},
		}
		for _, id := range ids {
			s.Location = append(s.Location, p.Location[id-1])
		}
		p.Sample = append(p.Sample, s)
	}
	return p
}

func zzbDump(p *Profile) string {
	var b strings.Builder
	for _, s := range p.Sample {
		fmt.Fprintf(&b, "%v", s.Value)
		var ks []string
		for k, v := range s.Label {
			ks = append(ks, fmt.Sprintf("%s=%v", k, v))
		}
		for k, v := range s.NumLabel {
			ks = append(ks, fmt.Sprintf("%s=%v%v", k, v, s.NumUnit[k]))
		}
		sort.Strings(ks)
		fmt.Fprintf(&b, "%v:", ks)
		for i, l := range s.Location {
			if i > 0 {
				b.WriteByte(' ')
			}
			fmt.Fprintf(&b, "%d", l.ID)
		}
		b.WriteByte(';')
	}
	b.WriteString(" | ")
	for _, l := range p.Location {
		fmt.Fprintf(&b, "%d@%x=", l.ID, l.Address)
		for j, ln := range l.Line {
			if j > 0 {
				b.WriteByte('+')
			}
			if ln.Function != nil {
				fmt.Fprintf(&b, "%s:%d", ln.Function.Name, ln.Line)
			} else {
				fmt.Fprintf(&b, "?:%d", ln.Line)
			}
		}
		b.WriteByte(';')
	}
	fmt.Fprintf(&b, " | drop=%q keep=%q nfunc=%d", p.DropFrames, p.KeepFrames, len(p.Function))
	return b.String()
}

type zzbCase struct {
	name       string
	drop, keep string
	locs       [][]string
	samples    [][]uint64
}

var zzbGoLocs = [][]string{
	{"runtime.mallocgc"},  // 1
	{"runtime.newobject"}, // 2
	{"main.alloc"},        // 3
	{"main.main"},         // 4
	{"runtime.main"},      // 5
	{"runtime.panic"},     // 6
	{"runtime.memmove", "runtime.growslice", "main.f"}, // 7: match in the middle of an inlined location
	{"main.g", "runtime.call32", "main.h"},             // 8: kept name in the middle
	{"main.leaf", "runtime.systemstack"},               // 9: match is the outermost line
	{"runtime.goexit"},                                 // 10
	{""},                                               // 11: no function
	{},                                                 // 12: no lines
}

var zzbGoSamples = [][]uint64{
	{1, 2, 3, 4, 5, 10},   // match in the middle, runtime frames at the root are skipped
	{1, 2, 3, 4},          // match at the leaf only
	{3, 4, 5},             // match only at the root: nothing to drop
	{1, 7, 4, 5},          // inlined location with match in the middle
	{7},                   // the same inlined location alone (root of its sample)
	{1, 7},                // inlined location at the root, match at leaf
	{1, 6, 3, 4},          // kept frame on the leaf side of a user frame
	{1, 8, 4},             // kept name inside inlined location
	{1, 9, 4},             // outermost line of the location matches
	{9, 4},                // shared with the previous sample
	{1, 2, 5, 10},         // every frame matches: stays non-empty
	{1, 11, 12, 2, 4},     // frames without function / lines count as user frames
	{},                    // empty stack
	{2, 1, 3, 2, 1, 4, 5}, // two matches: the one nearest the root wins
}

var zzbCases = []zzbCase{
	{"go-alloc", `runtime\..*`, `runtime\.panic|runtime\.call[0-9]*`, zzbGoLocs, zzbGoSamples},
	{"go-nokeep", `runtime\..*`, ``, zzbGoLocs, zzbGoSamples},
	{"keep-without-drop", ``, `runtime\..*`, zzbGoLocs, zzbGoSamples},
	{"neither", ``, ``, zzbGoLocs, zzbGoSamples},
	{"keep-equals-drop", `runtime\..*`, `runtime\..*`, zzbGoLocs, zzbGoSamples},
	{"swapped", `runtime\.panic|runtime\.call[0-9]*`, `runtime\..*`, zzbGoLocs, zzbGoSamples},
	{"swapped-nokeep", `runtime\.panic|runtime\.call[0-9]*`, ``, zzbGoLocs, zzbGoSamples},
	{"anchored", `main|runtime|main\.g`, ``, zzbGoLocs, zzbGoSamples},
	{"top-level-alternation", `main\.alloc|runtime\.new`, `object|main`, zzbGoLocs, zzbGoSamples},
	{"flags", `(?i)RUNTIME\.MALLOCGC|(?i:Main\.Alloc)`, ``, zzbGoLocs, zzbGoSamples},
	{"cxx", `malloc|tcmalloc::.*|operator new(\[\])?|(anonymous namespace)::helper`, `tcmalloc::keep`,
		[][]string{
			{"malloc(unsigned long)"},
			{".malloc"},
			{"tcmalloc::allocate_full_cpp_throw_oom(unsigned long)"},
			{"operator new[](unsigned long)"},
			{"(anonymous namespace)::helper(int)"},
			{"std::vector<int>::push_back(int const&)"},
			{"main"},
			{"tcmalloc::keep(int)", "user::inl()"},
			{"mallocx"},
		},
		[][]uint64{
			{1, 3, 4, 6, 7},
			{2, 6, 7},
			{5, 6, 7},
			{1, 8, 6, 7},
			{9, 6, 7},
			{1, 9, 7},
		}},
}

func TestZZEquivBRemoveUninteresting(t *testing.T) {
	run := func(c zzbCase) string {
		p := zzbBuild(c.drop, c.keep, c.locs, c.samples)
		err := p.RemoveUninteresting()
		return fmt.Sprintf("err=%v %s", err, zzbDump(p))
	}
	check := func(pass string) {
		for _, c := range zzbCases {
			got := run(c)
			if os.Getenv("ZZ_PRINT") != "" {
				if pass == "first" {
					fmt.Printf("CASE %q: %q,\n", c.name, got)
				}
				continue
			}
			if want := zzbWant[c.name]; got != want {
				t.Errorf("%s (%s pass):\n got %s\nwant %s", c.name, pass, got, want)
			}
		}
	}
	check("first")
	// Same expressions again, on fresh profiles.
	check("second")

	// Many distinct expressions in between (more than any bounded cache
	// is likely to hold), each of which must be honoured.
	for i := 0; i < 100; i++ {
		drop := fmt.Sprintf(`lib%d\..*`, i)
		p := zzbBuild(drop, fmt.Sprintf(`lib%d\.keep`, i+1),
			[][]string{{fmt.Sprintf("lib%d.x", i)}, {fmt.Sprintf("lib%d.keep", i)}, {fmt.Sprintf("lib%d.y", i+1)}, {"main"}},
			[][]uint64{{1, 3, 4}, {3, 1, 4}, {2, 3, 4}, {3, 2, 4}})
		if err := p.RemoveUninteresting(); err != nil {
			t.Fatal(err)
		}
		got := zzbDump(p)
		got = got[:strings.Index(got, " | ")]
		const want = "[1 100][bytes=[0][b] k=[v0]]:3 4;[2 200][bytes=[1][b] k=[v1]]:4;[3 300][bytes=[2][b] k=[v2]]:3 4;[4 400][bytes=[3][b] k=[v3]]:4;"
		if got != want {
			t.Errorf("lib%d:\n got %s\nwant %s", i, got, want)
		}
	}
	check("third")

	// Concurrent callers sharing expressions.
	var wg sync.WaitGroup
	results := make([][]string, 8)
	for g := range results {
		wg.Add(1)
		go func(g int) {
			defer wg.Done()
			for _, c := range zzbCases {
				results[g] = append(results[g], run(c))
			}
		}(g)
	}
	wg.Wait()
	if os.Getenv("ZZ_PRINT") == "" {
		for g, rs := range results {
			for i, got := range rs {
				if want := zzbWant[zzbCases[i].name]; got != want {
					t.Errorf("goroutine %d, %s:\n got %s\nwant %s", g, zzbCases[i].name, got, want)
				}
			}
		}
	}
}

func TestZZEquivBErrors(t *testing.T) {
	for i, c := range []struct{ drop, keep, want string }{
		{`a(`, ``, "failed to compile regexp a(: error parsing regexp: missing closing ): `^(a()$`"},
		{`a(`, `b[`, "failed to compile regexp a(: error parsing regexp: missing closing ): `^(a()$`"},
		{`runtime\..*`, `b[`, "failed to compile regexp b[: error parsing regexp: missing closing ]: `[)$`"},
		{`runtime\..*`, `a)`, "failed to compile regexp a): error parsing regexp: unexpected ): `^(a))$`"},
		{`*`, ``, "failed to compile regexp *: error parsing regexp: missing argument to repetition operator: `*`"},
		{``, `b[`, "<nil>"}, // keep is not looked at without drop
		{`a)|(b`, ``, "<nil>"},
	} {
		for pass := 0; pass < 2; pass++ {
			p := zzbBuild(c.drop, c.keep, zzbGoLocs, zzbGoSamples)
			before := zzbDump(p)
			err := p.RemoveUninteresting()
			got := fmt.Sprint(err)
			if os.Getenv("ZZ_PRINT") != "" {
				fmt.Printf("ERR %d %q\n", i, got)
				continue
			}
			if got != c.want {
				t.Errorf("drop=%q keep=%q: error %q, want %q", c.drop, c.keep, got, c.want)
			}
			if after := zzbDump(p); after != before {
				t.Errorf("drop=%q keep=%q: profile changed:\n before %s\n after  %s", c.drop, c.keep, before, after)
			}
		}
	}
}

var zzbWant = map[string]string{
	"go-alloc":              "err=<nil> [1 100][bytes=[0][b] k=[v0]]:3 4 5 10;[2 200][bytes=[1][b] k=[v1]]:3 4;[3 300][bytes=[2][b] k=[v2]]:3 4 5;[4 400][bytes=[3][b] k=[v3]]:7 4 5;[5 500][bytes=[4][b] k=[v4]]:7;[6 600][bytes=[5][b] k=[v5]]:1 7;[7 700][bytes=[6][b] k=[v6]]:6 3 4;[8 800][bytes=[7][b] k=[v7]]:8 4;[9 900][bytes=[8][b] k=[v8]]:4;[10 1000][bytes=[9][b] k=[v9]]:4;[11 1100][bytes=[10][b] k=[v10]]:1 2 5 10;[12 1200][bytes=[11][b] k=[v11]]:4;[13 1300][bytes=[12][b] k=[v12]]:;[14 1400][bytes=[13][b] k=[v13]]:4 5; | 1@1000=runtime.mallocgc:1;2@1010=runtime.newobject:11;3@1020=main.alloc:21;4@1030=main.main:31;5@1040=runtime.main:41;6@1050=runtime.panic:51;7@1060=main.f:63;8@1070=main.g:71+runtime.call32:72+main.h:73;9@1080=main.leaf:81+runtime.systemstack:82;10@1090=runtime.goexit:91;11@10a0=?:101;12@10b0=; | drop=\"runtime\\\\..*\" keep=\"runtime\\\\.panic|runtime\\\\.call[0-9]*\" nfunc=15",
	"go-nokeep":             "err=<nil> [1 100][bytes=[0][b] k=[v0]]:3 4 5 10;[2 200][bytes=[1][b] k=[v1]]:3 4;[3 300][bytes=[2][b] k=[v2]]:3 4 5;[4 400][bytes=[3][b] k=[v3]]:7 4 5;[5 500][bytes=[4][b] k=[v4]]:7;[6 600][bytes=[5][b] k=[v5]]:1 7;[7 700][bytes=[6][b] k=[v6]]:3 4;[8 800][bytes=[7][b] k=[v7]]:8 4;[9 900][bytes=[8][b] k=[v8]]:4;[10 1000][bytes=[9][b] k=[v9]]:4;[11 1100][bytes=[10][b] k=[v10]]:1 2 5 10;[12 1200][bytes=[11][b] k=[v11]]:4;[13 1300][bytes=[12][b] k=[v12]]:;[14 1400][bytes=[13][b] k=[v13]]:4 5; | 1@1000=runtime.mallocgc:1;2@1010=runtime.newobject:11;3@1020=main.alloc:21;4@1030=main.main:31;5@1040=runtime.main:41;6@1050=runtime.panic:51;7@1060=main.f:63;8@1070=main.h:73;9@1080=main.leaf:81+runtime.systemstack:82;10@1090=runtime.goexit:91;11@10a0=?:101;12@10b0=; | drop=\"runtime\\\\..*\" keep=\"\" nfunc=15",
	"keep-without-drop":     "err=<nil> [1 100][bytes=[0][b] k=[v0]]:1 2 3 4 5 10;[2 200][bytes=[1][b] k=[v1]]:1 2 3 4;[3 300][bytes=[2][b] k=[v2]]:3 4 5;[4 400][bytes=[3][b] k=[v3]]:1 7 4 5;[5 500][bytes=[4][b] k=[v4]]:7;[6 600][bytes=[5][b] k=[v5]]:1 7;[7 700][bytes=[6][b] k=[v6]]:1 6 3 4;[8 800][bytes=[7][b] k=[v7]]:1 8 4;[9 900][bytes=[8][b] k=[v8]]:1 9 4;[10 1000][bytes=[9][b] k=[v9]]:9 4;[11 1100][bytes=[10][b] k=[v10]]:1 2 5 10;[12 1200][bytes=[11][b] k=[v11]]:1 11 12 2 4;[13 1300][bytes=[12][b] k=[v12]]:;[14 1400][bytes=[13][b] k=[v13]]:2 1 3 2 1 4 5; | 1@1000=runtime.mallocgc:1;2@1010=runtime.newobject:11;3@1020=main.alloc:21;4@1030=main.main:31;5@1040=runtime.main:41;6@1050=runtime.panic:51;7@1060=runtime.memmove:61+runtime.growslice:62+main.f:63;8@1070=main.g:71+runtime.call32:72+main.h:73;9@1080=main.leaf:81+runtime.systemstack:82;10@1090=runtime.goexit:91;11@10a0=?:101;12@10b0=; | drop=\"\" keep=\"runtime\\\\..*\" nfunc=15",
	"neither":               "err=<nil> [1 100][bytes=[0][b] k=[v0]]:1 2 3 4 5 10;[2 200][bytes=[1][b] k=[v1]]:1 2 3 4;[3 300][bytes=[2][b] k=[v2]]:3 4 5;[4 400][bytes=[3][b] k=[v3]]:1 7 4 5;[5 500][bytes=[4][b] k=[v4]]:7;[6 600][bytes=[5][b] k=[v5]]:1 7;[7 700][bytes=[6][b] k=[v6]]:1 6 3 4;[8 800][bytes=[7][b] k=[v7]]:1 8 4;[9 900][bytes=[8][b] k=[v8]]:1 9 4;[10 1000][bytes=[9][b] k=[v9]]:9 4;[11 1100][bytes=[10][b] k=[v10]]:1 2 5 10;[12 1200][bytes=[11][b] k=[v11]]:1 11 12 2 4;[13 1300][bytes=[12][b] k=[v12]]:;[14 1400][bytes=[13][b] k=[v13]]:2 1 3 2 1 4 5; | 1@1000=runtime.mallocgc:1;2@1010=runtime.newobject:11;3@1020=main.alloc:21;4@1030=main.main:31;5@1040=runtime.main:41;6@1050=runtime.panic:51;7@1060=runtime.memmove:61+runtime.growslice:62+main.f:63;8@1070=main.g:71+runtime.call32:72+main.h:73;9@1080=main.leaf:81+runtime.systemstack:82;10@1090=runtime.goexit:91;11@10a0=?:101;12@10b0=; | drop=\"\" keep=\"\" nfunc=15",
	"keep-equals-drop":      "err=<nil> [1 100][bytes=[0][b] k=[v0]]:1 2 3 4 5 10;[2 200][bytes=[1][b] k=[v1]]:1 2 3 4;[3 300][bytes=[2][b] k=[v2]]:3 4 5;[4 400][bytes=[3][b] k=[v3]]:1 7 4 5;[5 500][bytes=[4][b] k=[v4]]:7;[6 600][bytes=[5][b] k=[v5]]:1 7;[7 700][bytes=[6][b] k=[v6]]:1 6 3 4;[8 800][bytes=[7][b] k=[v7]]:1 8 4;[9 900][bytes=[8][b] k=[v8]]:1 9 4;[10 1000][bytes=[9][b] k=[v9]]:9 4;[11 1100][bytes=[10][b] k=[v10]]:1 2 5 10;[12 1200][bytes=[11][b] k=[v11]]:1 11 12 2 4;[13 1300][bytes=[12][b] k=[v12]]:;[14 1400][bytes=[13][b] k=[v13]]:2 1 3 2 1 4 5; | 1@1000=runtime.mallocgc:1;2@1010=runtime.newobject:11;3@1020=main.alloc:21;4@1030=main.main:31;5@1040=runtime.main:41;6@1050=runtime.panic:51;7@1060=runtime.memmove:61+runtime.growslice:62+main.f:63;8@1070=main.g:71+runtime.call32:72+main.h:73;9@1080=main.leaf:81+runtime.systemstack:82;10@1090=runtime.goexit:91;11@10a0=?:101;12@10b0=; | drop=\"runtime\\\\..*\" keep=\"runtime\\\\..*\" nfunc=15",
	"swapped":               "err=<nil> [1 100][bytes=[0][b] k=[v0]]:1 2 3 4 5 10;[2 200][bytes=[1][b] k=[v1]]:1 2 3 4;[3 300][bytes=[2][b] k=[v2]]:3 4 5;[4 400][bytes=[3][b] k=[v3]]:1 7 4 5;[5 500][bytes=[4][b] k=[v4]]:7;[6 600][bytes=[5][b] k=[v5]]:1 7;[7 700][bytes=[6][b] k=[v6]]:1 6 3 4;[8 800][bytes=[7][b] k=[v7]]:1 8 4;[9 900][bytes=[8][b] k=[v8]]:1 9 4;[10 1000][bytes=[9][b] k=[v9]]:9 4;[11 1100][bytes=[10][b] k=[v10]]:1 2 5 10;[12 1200][bytes=[11][b] k=[v11]]:1 11 12 2 4;[13 1300][bytes=[12][b] k=[v12]]:;[14 1400][bytes=[13][b] k=[v13]]:2 1 3 2 1 4 5; | 1@1000=runtime.mallocgc:1;2@1010=runtime.newobject:11;3@1020=main.alloc:21;4@1030=main.main:31;5@1040=runtime.main:41;6@1050=runtime.panic:51;7@1060=runtime.memmove:61+runtime.growslice:62+main.f:63;8@1070=main.g:71+runtime.call32:72+main.h:73;9@1080=main.leaf:81+runtime.systemstack:82;10@1090=runtime.goexit:91;11@10a0=?:101;12@10b0=; | drop=\"runtime\\\\.panic|runtime\\\\.call[0-9]*\" keep=\"runtime\\\\..*\" nfunc=15",
	"swapped-nokeep":        "err=<nil> [1 100][bytes=[0][b] k=[v0]]:1 2 3 4 5 10;[2 200][bytes=[1][b] k=[v1]]:1 2 3 4;[3 300][bytes=[2][b] k=[v2]]:3 4 5;[4 400][bytes=[3][b] k=[v3]]:1 7 4 5;[5 500][bytes=[4][b] k=[v4]]:7;[6 600][bytes=[5][b] k=[v5]]:1 7;[7 700][bytes=[6][b] k=[v6]]:3 4;[8 800][bytes=[7][b] k=[v7]]:8 4;[9 900][bytes=[8][b] k=[v8]]:1 9 4;[10 1000][bytes=[9][b] k=[v9]]:9 4;[11 1100][bytes=[10][b] k=[v10]]:1 2 5 10;[12 1200][bytes=[11][b] k=[v11]]:1 11 12 2 4;[13 1300][bytes=[12][b] k=[v12]]:;[14 1400][bytes=[13][b] k=[v13]]:2 1 3 2 1 4 5; | 1@1000=runtime.mallocgc:1;2@1010=runtime.newobject:11;3@1020=main.alloc:21;4@1030=main.main:31;5@1040=runtime.main:41;6@1050=runtime.panic:51;7@1060=runtime.memmove:61+runtime.growslice:62+main.f:63;8@1070=main.h:73;9@1080=main.leaf:81+runtime.systemstack:82;10@1090=runtime.goexit:91;11@10a0=?:101;12@10b0=; | drop=\"runtime\\\\.panic|runtime\\\\.call[0-9]*\" keep=\"\" nfunc=15",
	"anchored":              "err=<nil> [1 100][bytes=[0][b] k=[v0]]:1 2 3 4 5 10;[2 200][bytes=[1][b] k=[v1]]:1 2 3 4;[3 300][bytes=[2][b] k=[v2]]:3 4 5;[4 400][bytes=[3][b] k=[v3]]:1 7 4 5;[5 500][bytes=[4][b] k=[v4]]:7;[6 600][bytes=[5][b] k=[v5]]:1 7;[7 700][bytes=[6][b] k=[v6]]:1 6 3 4;[8 800][bytes=[7][b] k=[v7]]:8 4;[9 900][bytes=[8][b] k=[v8]]:1 9 4;[10 1000][bytes=[9][b] k=[v9]]:9 4;[11 1100][bytes=[10][b] k=[v10]]:1 2 5 10;[12 1200][bytes=[11][b] k=[v11]]:1 11 12 2 4;[13 1300][bytes=[12][b] k=[v12]]:;[14 1400][bytes=[13][b] k=[v13]]:2 1 3 2 1 4 5; | 1@1000=runtime.mallocgc:1;2@1010=runtime.newobject:11;3@1020=main.alloc:21;4@1030=main.main:31;5@1040=runtime.main:41;6@1050=runtime.panic:51;7@1060=runtime.memmove:61+runtime.growslice:62+main.f:63;8@1070=runtime.call32:72+main.h:73;9@1080=main.leaf:81+runtime.systemstack:82;10@1090=runtime.goexit:91;11@10a0=?:101;12@10b0=; | drop=\"main|runtime|main\\\\.g\" keep=\"\" nfunc=15",
	"top-level-alternation": "err=<nil> [1 100][bytes=[0][b] k=[v0]]:4 5 10;[2 200][bytes=[1][b] k=[v1]]:4;[3 300][bytes=[2][b] k=[v2]]:4 5;[4 400][bytes=[3][b] k=[v3]]:1 7 4 5;[5 500][bytes=[4][b] k=[v4]]:7;[6 600][bytes=[5][b] k=[v5]]:1 7;[7 700][bytes=[6][b] k=[v6]]:4;[8 800][bytes=[7][b] k=[v7]]:1 8 4;[9 900][bytes=[8][b] k=[v8]]:1 9 4;[10 1000][bytes=[9][b] k=[v9]]:9 4;[11 1100][bytes=[10][b] k=[v10]]:1 2 5 10;[12 1200][bytes=[11][b] k=[v11]]:1 11 12 2 4;[13 1300][bytes=[12][b] k=[v12]]:;[14 1400][bytes=[13][b] k=[v13]]:2 1 4 5; | 1@1000=runtime.mallocgc:1;2@1010=runtime.newobject:11;3@1020=main.alloc:21;4@1030=main.main:31;5@1040=runtime.main:41;6@1050=runtime.panic:51;7@1060=runtime.memmove:61+runtime.growslice:62+main.f:63;8@1070=main.g:71+runtime.call32:72+main.h:73;9@1080=main.leaf:81+runtime.systemstack:82;10@1090=runtime.goexit:91;11@10a0=?:101;12@10b0=; | drop=\"main\\\\.alloc|runtime\\\\.new\" keep=\"object|main\" nfunc=15",
	"flags":                 "err=<nil> [1 100][bytes=[0][b] k=[v0]]:4 5 10;[2 200][bytes=[1][b] k=[v1]]:4;[3 300][bytes=[2][b] k=[v2]]:4 5;[4 400][bytes=[3][b] k=[v3]]:7 4 5;[5 500][bytes=[4][b] k=[v4]]:7;[6 600][bytes=[5][b] k=[v5]]:7;[7 700][bytes=[6][b] k=[v6]]:4;[8 800][bytes=[7][b] k=[v7]]:8 4;[9 900][bytes=[8][b] k=[v8]]:9 4;[10 1000][bytes=[9][b] k=[v9]]:9 4;[11 1100][bytes=[10][b] k=[v10]]:2 5 10;[12 1200][bytes=[11][b] k=[v11]]:11 12 2 4;[13 1300][bytes=[12][b] k=[v12]]:;[14 1400][bytes=[13][b] k=[v13]]:4 5; | 1@1000=runtime.mallocgc:1;2@1010=runtime.newobject:11;3@1020=main.alloc:21;4@1030=main.main:31;5@1040=runtime.main:41;6@1050=runtime.panic:51;7@1060=runtime.memmove:61+runtime.growslice:62+main.f:63;8@1070=main.g:71+runtime.call32:72+main.h:73;9@1080=main.leaf:81+runtime.systemstack:82;10@1090=runtime.goexit:91;11@10a0=?:101;12@10b0=; | drop=\"(?i)RUNTIME\\\\.MALLOCGC|(?i:Main\\\\.Alloc)\" keep=\"\" nfunc=15",
	"cxx":                   "err=<nil> [1 100][bytes=[0][b] k=[v0]]:6 7;[2 200][bytes=[1][b] k=[v1]]:6 7;[3 300][bytes=[2][b] k=[v2]]:5 6 7;[4 400][bytes=[3][b] k=[v3]]:8 6 7;[5 500][bytes=[4][b] k=[v4]]:9 6 7;[6 600][bytes=[5][b] k=[v5]]:9 7; | 1@1000=malloc(unsigned long):1;2@1010=.malloc:11;3@1020=tcmalloc::allocate_full_cpp_throw_oom(unsigned long):21;4@1030=operator new[](unsigned long):31;5@1040=(anonymous namespace)::helper(int):41;6@1050=std::vector<int>::push_back(int const&):51;7@1060=main:61;8@1070=tcmalloc::keep(int):71+user::inl():72;9@1080=mallocx:81; | drop=\"malloc|tcmalloc::.*|operator new(\\\\[\\\\])?|(anonymous namespace)::helper\" keep=\"tcmalloc::keep\" nfunc=10",
}
