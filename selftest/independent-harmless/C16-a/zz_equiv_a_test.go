package driver

// Equivalence demonstration harness for property C16 (multi-source fetch merges
// whatever succeeded, independent of timing). It drives the fetch pipeline of
// internal/driver/fetch.go with synthetic sources of several kinds (in-memory
// through a plugin.Fetcher, HTTP through a fake RoundTripper, files on disk),
// a chosen set of failing sources and a chosen completion order, and reduces
// everything observable (merged profile text, mapping sources, save flag,
// returned error, messages printed through the UI) to a digest. The expected
// digests below were computed on the unchanged tree.

import (
	"bytes"
	"crypto/sha256"
	"fmt"
	"io"
	"math/rand"
	"net/http"
	"os"
	"path/filepath"
	"sort"
	"strconv"
	"strings"
	"sync"
	"testing"
	"time"

	"github.com/google/pprof/internal/plugin"
	"github.com/google/pprof/profile"
)

// ---- UI recorder -----------------------------------------------------------

type zzAUI struct {
	mu   sync.Mutex
	errs []string
}

func (u *zzAUI) ReadLine(string) (string, error)     { return "", io.EOF }
func (u *zzAUI) Print(...interface{})                {}
func (u *zzAUI) IsTerminal() bool                    { return false }
func (u *zzAUI) WantBrowser() bool                   { return false }
func (u *zzAUI) SetAutoComplete(func(string) string) {}
func (u *zzAUI) PrintErr(args ...interface{}) {
	u.mu.Lock()
	defer u.mu.Unlock()
	u.errs = append(u.errs, fmt.Sprint(args...))
}

// ---- object tool that never finds a binary ---------------------------------

type zzAObj struct{}

func (zzAObj) Open(string, uint64, uint64, uint64, string) (plugin.ObjFile, error) {
	return nil, fmt.Errorf("no binaries in this test")
}
func (zzAObj) Disasm(string, uint64, uint64, bool) ([]plugin.Inst, error) {
	return nil, fmt.Errorf("no disasm in this test")
}

// ---- symbolizer stub -------------------------------------------------------

type zzASym struct {
	mode string
	msrc plugin.MappingSources
}

func (s *zzASym) Symbolize(mode string, srcs plugin.MappingSources, _ *profile.Profile) error {
	s.mode, s.msrc = mode, srcs
	return nil
}

// ---- synthetic profiles ----------------------------------------------------

// zzAProfile builds a small, valid, symbolized profile that depends on i:
// shared and per-source functions, one or two mappings, sometimes an extra
// sample type (dropped by CompatibilizeSampleTypes) and sometimes a coarser
// time unit (rescaled by ScaleProfiles).
func zzAProfile(i int) *profile.Profile {
	unit := "nanoseconds"
	mult := int64(1000)
	if i%6 == 2 {
		unit, mult = "microseconds", 1
	}
	p := &profile.Profile{
		SampleType: []*profile.ValueType{
			{Type: "samples", Unit: "count"},
			{Type: "cpu", Unit: unit},
		},
		PeriodType:    &profile.ValueType{Type: "cpu", Unit: unit},
		Period:        10 * mult,
		TimeNanos:     int64(1000 + i),
		DurationNanos: int64(10 + i),
		Comments:      []string{"c" + strconv.Itoa(i%3)},
	}
	extra := i%4 == 1
	if extra {
		p.SampleType = append(p.SampleType, &profile.ValueType{Type: "extra", Unit: "count"})
	}
	m1 := &profile.Mapping{ID: 1, Start: 0x1000, Limit: 0x9000, File: "/bin/app", BuildID: "build-app", HasFunctions: true}
	p.Mapping = []*profile.Mapping{m1}
	var m2 *profile.Mapping
	if i%2 == 0 {
		m2 = &profile.Mapping{ID: 2, Start: 0x10000 + uint64(i%3)*0x1000, Limit: 0x20000, File: "/lib/lib" + strconv.Itoa(i%3) + ".so", HasFunctions: true}
		p.Mapping = append(p.Mapping, m2)
	}
	fCommon := &profile.Function{ID: 1, Name: "common", SystemName: "common", Filename: "common.go"}
	fShared := &profile.Function{ID: 2, Name: "fn" + strconv.Itoa(i%7), SystemName: "fn" + strconv.Itoa(i%7), Filename: "fn.go"}
	fUniq := &profile.Function{ID: 3, Name: "uniq" + strconv.Itoa(i), SystemName: "uniq" + strconv.Itoa(i), Filename: "uniq.go"}
	p.Function = []*profile.Function{fCommon, fShared, fUniq}
	l1 := &profile.Location{ID: 1, Mapping: m1, Address: 0x1100, Line: []profile.Line{{Function: fCommon, Line: 10}}}
	l2 := &profile.Location{ID: 2, Mapping: m1, Address: 0x1200 + uint64(i%7)*0x10, Line: []profile.Line{{Function: fShared, Line: int64(20 + i%7)}}}
	l3 := &profile.Location{ID: 3, Mapping: m1, Address: 0x2000 + uint64(i)*0x10, Line: []profile.Line{{Function: fUniq, Line: int64(30 + i)}}}
	if m2 != nil {
		l3.Mapping = m2
		l3.Address = m2.Start + 0x100 + uint64(i)*0x10
	}
	p.Location = []*profile.Location{l1, l2, l3}
	vals := func(n, t int64) []int64 {
		v := []int64{n, t * mult}
		if extra {
			v = append(v, 7*n)
		}
		return v
	}
	p.Sample = []*profile.Sample{
		{Location: []*profile.Location{l2, l1}, Value: vals(int64(i+1), int64(i+1))},
		{Location: []*profile.Location{l3}, Value: vals(1, int64(10*i+5))},
	}
	if i%5 == 0 {
		p.Sample[1].Label = map[string][]string{"src": {strconv.Itoa(i)}}
	}
	return p
}

func zzAEncode(p *profile.Profile) []byte {
	var b bytes.Buffer
	if err := p.Write(&b); err != nil {
		panic(err)
	}
	return b.Bytes()
}

// ---- source kinds ----------------------------------------------------------

type zzAKind int

const (
	zzAMem           zzAKind = iota // served by the plugin.Fetcher, no source URL
	zzAHTTP                         // served over fake HTTP from the test host (local)
	zzARemote                       // served over fake HTTP from a remote host (save=true)
	zzAFile                         // file on disk
	zzAFetcherURL                   // served by the plugin.Fetcher with a source URL
	zzAFailMissing                  // missing file
	zzAFailStatus                   // HTTP 500
	zzAFailPprof                    // HTTP 503 from a pprof endpoint, with a text body
	zzAFailGarbage                  // HTTP 200 with a garbage body
	zzAFailGarbageF                 // garbage file on disk
	zzAFailInvalid                  // fetcher returns a profile failing CheckValid
	zzAFailFetcher                  // fetcher returns an error
	zzAFailTransport                // RoundTripper returns an error
)

func (k zzAKind) fails() bool { return k >= zzAFailMissing }

type zzASpec struct {
	kind  zzAKind
	idx   int           // profile number
	delay time.Duration // how long the fetch takes
}

// zzAWorld holds the behaviour of every source address of a scenario and
// implements plugin.Fetcher and http.RoundTripper.
type zzAWorld struct {
	dir    string
	byAddr map[string]zzASpec // for fetcher-served and file kinds
	byPath map[string]zzASpec // for HTTP kinds, keyed by URL path
	// gate, if non-nil, enforces a strict completion order: a fetch with
	// rank r returns only after the fetches with ranks < r have returned.
	gate *zzAGate
	rank map[string]int
}

type zzAGate struct {
	mu   sync.Mutex
	cond *sync.Cond
	next int
	log  []int
}

func zzANewGate() *zzAGate {
	g := &zzAGate{}
	g.cond = sync.NewCond(&g.mu)
	return g
}

func (g *zzAGate) pass(rank int) {
	g.mu.Lock()
	for g.next != rank {
		g.cond.Wait()
	}
	g.log = append(g.log, rank)
	g.next++
	g.cond.Broadcast()
	g.mu.Unlock()
}

func (w *zzAWorld) wait(key string, sp zzASpec) {
	if w.gate != nil {
		w.gate.pass(w.rank[key])
		return
	}
	time.Sleep(sp.delay)
}

func (w *zzAWorld) Fetch(src string, _, _ time.Duration) (*profile.Profile, string, error) {
	sp, ok := w.byAddr[src]
	if !ok {
		return nil, "", nil // not ours: fall through to file / HTTP
	}
	switch sp.kind {
	case zzAMem:
		w.wait(src, sp)
		return zzAProfile(sp.idx), "", nil
	case zzAFetcherURL:
		w.wait(src, sp)
		return zzAProfile(sp.idx), "http://" + testSourceAddress + "/fetched/" + src, nil
	case zzAFailInvalid:
		w.wait(src, sp)
		p := zzAProfile(sp.idx)
		p.Sample[0].Value = p.Sample[0].Value[:1]
		return p, "", nil
	case zzAFailFetcher:
		w.wait(src, sp)
		return nil, "", fmt.Errorf("fetcher refused #%d", sp.idx)
	}
	return nil, "", nil // file kinds
}

func (w *zzAWorld) RoundTrip(req *http.Request) (*http.Response, error) {
	sp, ok := w.byPath[req.URL.Path]
	if !ok {
		return nil, fmt.Errorf("unexpected URL %s", req.URL)
	}
	w.wait(req.URL.Path, sp)
	resp := &http.Response{
		Status: "200 OK", StatusCode: 200, Proto: "HTTP/1.1", ProtoMajor: 1, ProtoMinor: 1,
		Header: http.Header{}, Request: req,
	}
	body := []byte{}
	switch sp.kind {
	case zzAHTTP, zzARemote:
		body = zzAEncode(zzAProfile(sp.idx))
	case zzAFailStatus:
		resp.Status, resp.StatusCode = "500 Internal Server Error", 500
		body = []byte("boom")
	case zzAFailPprof:
		resp.Status, resp.StatusCode = "503 Service Unavailable", 503
		resp.Header.Set("X-Go-Pprof", "1")
		resp.Header.Set("Content-Type", "text/plain; charset=utf-8")
		body = []byte("profiling busy #" + strconv.Itoa(sp.idx))
	case zzAFailGarbage:
		body = []byte("this is not a profile at all, #" + strconv.Itoa(sp.idx))
	case zzAFailTransport:
		return nil, fmt.Errorf("connection refused #%d", sp.idx)
	}
	resp.Body = io.NopCloser(bytes.NewReader(body))
	resp.ContentLength = int64(len(body))
	return resp, nil
}

// add registers a source and returns its command-line address. tag ("s" or
// "b") and pos make the address unique; every address contains "/tag/" or
// "-tag-" so printed messages can be attributed to the list they belong to.
func (w *zzAWorld) add(t *testing.T, tag string, pos int, sp zzASpec) string {
	id := tag + "/" + strconv.Itoa(pos)
	switch sp.kind {
	case zzAMem, zzAFetcherURL, zzAFailInvalid, zzAFailFetcher:
		addr := "mem-" + tag + "-" + strconv.Itoa(pos)
		w.byAddr[addr] = sp
		return addr
	case zzAHTTP, zzAFailStatus, zzAFailPprof, zzAFailGarbage, zzAFailTransport:
		w.byPath["/"+id] = sp
		return "http://" + testSourceAddress + "/" + id + "?n=" + strconv.Itoa(pos)
	case zzARemote:
		w.byPath["/"+id] = sp
		return "remote.example:8080/" + id // scheme-less: adjustURL must add http://
	case zzAFile, zzAFailGarbageF:
		name := filepath.Join(w.dir, "file-"+tag+"-"+strconv.Itoa(pos)+".prof")
		data := []byte("garbage file #" + strconv.Itoa(sp.idx))
		if sp.kind == zzAFile {
			data = zzAEncode(zzAProfile(sp.idx))
		}
		if err := os.WriteFile(name, data, 0o644); err != nil {
			t.Fatal(err)
		}
		return name
	case zzAFailMissing:
		return filepath.Join(w.dir, "missing-"+tag+"-"+strconv.Itoa(pos))
	}
	t.Fatalf("bad kind %d", sp.kind)
	return ""
}

// rankKey returns the key under which the gate rank of an address is stored.
func (w *zzAWorld) rankKey(tag string, pos int, sp zzASpec) string {
	switch sp.kind {
	case zzAMem, zzAFetcherURL, zzAFailInvalid, zzAFailFetcher:
		return "mem-" + tag + "-" + strconv.Itoa(pos)
	}
	return "/" + tag + "/" + strconv.Itoa(pos)
}

func zzANewWorld(t *testing.T) *zzAWorld {
	// Keep locateBinaries away from the real environment.
	t.Setenv("PPROF_BINARY_PATH", t.TempDir())
	return &zzAWorld{dir: t.TempDir(), byAddr: map[string]zzASpec{}, byPath: map[string]zzASpec{}, rank: map[string]int{}}
}

// ---- rendering -------------------------------------------------------------

func zzAMsrc(m plugin.MappingSources) string {
	if m == nil {
		return "<nil>"
	}
	keys := make([]string, 0, len(m))
	for k := range m {
		keys = append(keys, k)
	}
	sort.Strings(keys)
	var b strings.Builder
	for _, k := range keys {
		fmt.Fprintf(&b, "%s:", k)
		for _, s := range m[k] {
			fmt.Fprintf(&b, " (%s,%#x)", s.Source, s.Start)
		}
		b.WriteString("\n")
	}
	return b.String()
}

func zzAProf(p *profile.Profile) string {
	if p == nil {
		return "<nil>"
	}
	return p.String()
}

// zzAMessages renders the UI error lines. Lines about sources keep their
// relative order, and so do lines about bases; the interleaving of the two
// groups is a genuine race in the code under test and is not recorded.
func zzAMessages(w *zzAWorld, ui *zzAUI) string {
	ui.mu.Lock()
	defer ui.mu.Unlock()
	var src, base, other []string
	for _, e := range ui.errs {
		e = strings.ReplaceAll(e, w.dir, "$DIR")
		switch {
		case strings.Contains(e, "/s/") || strings.Contains(e, "-s-"):
			src = append(src, e)
		case strings.Contains(e, "/b/") || strings.Contains(e, "-b-"):
			base = append(base, e)
		default:
			other = append(other, e)
		}
	}
	return "SRC:\n" + strings.Join(src, "\n") + "\nBASE:\n" + strings.Join(base, "\n") + "\nOTHER:\n" + strings.Join(other, "\n") + "\n"
}

func zzADigest(s string) string {
	return fmt.Sprintf("%x", sha256.Sum256([]byte(s)))[:20]
}

// ---- scenarios -------------------------------------------------------------

type zzAScenario struct {
	name  string
	nsrc  int
	nbase int
	// kindOf picks the kind of the source at position pos of list tag.
	kindOf func(tag string, pos int) zzAKind
	seed   int64 // completion-order seed
}

var zzAOKKinds = []zzAKind{zzAMem, zzAHTTP, zzAFile, zzAFetcherURL, zzAMem, zzAHTTP}
var zzABadKinds = []zzAKind{zzAFailMissing, zzAFailStatus, zzAFailPprof, zzAFailGarbage, zzAFailGarbageF, zzAFailInvalid, zzAFailFetcher, zzAFailTransport}

// zzAMix: source pos fails iff failing(pos); kinds rotate.
func zzAMix(failing func(tag string, pos int) bool) func(string, int) zzAKind {
	return func(tag string, pos int) zzAKind {
		if failing(tag, pos) {
			return zzABadKinds[pos%len(zzABadKinds)]
		}
		return zzAOKKinds[pos%len(zzAOKKinds)]
	}
}

func zzAScenarios() []zzAScenario {
	none := func(string, int) bool { return false }
	all := func(string, int) bool { return true }
	return []zzAScenario{
		{name: "single", nsrc: 1, kindOf: zzAMix(none)},
		{name: "single-remote", nsrc: 1, kindOf: func(string, int) zzAKind { return zzARemote }},
		{name: "five-none-fail", nsrc: 5, kindOf: zzAMix(none)},
		{name: "nine-every-third-fails", nsrc: 9, kindOf: zzAMix(func(_ string, p int) bool { return p%3 == 0 })},
		{name: "first-and-last-fail", nsrc: 12, kindOf: zzAMix(func(_ string, p int) bool { return p == 0 || p == 11 })},
		{name: "only-last-succeeds", nsrc: 10, kindOf: zzAMix(func(_ string, p int) bool { return p != 9 })},
		{name: "all-fail", nsrc: 8, kindOf: zzAMix(all)},
		{name: "remote-in-the-middle", nsrc: 6, kindOf: func(_ string, p int) zzAKind {
			if p == 3 {
				return zzARemote
			}
			return zzAMix(func(_ string, p int) bool { return p == 1 })("", p)
		}},
		{name: "128-exact", nsrc: 128, kindOf: zzAMix(func(_ string, p int) bool { return p%10 == 7 })},
		{name: "129-boundary", nsrc: 129, kindOf: zzAMix(func(_ string, p int) bool { return p == 127 })},
		{name: "129-last-chunk-fails", nsrc: 129, kindOf: zzAMix(func(_ string, p int) bool { return p == 128 })},
		{name: "130-first-chunk-all-fail", nsrc: 130, kindOf: zzAMix(func(_ string, p int) bool { return p < 128 })},
		{name: "257-middle-chunk-all-fail", nsrc: 257, kindOf: zzAMix(func(_ string, p int) bool { return p >= 128 && p < 256 })},
		{name: "300-many-fail", nsrc: 300, kindOf: zzAMix(func(_ string, p int) bool { return p%4 == 2 || p%9 == 0 })},
		{name: "300-remote-in-third-chunk", nsrc: 300, kindOf: func(_ string, p int) zzAKind {
			if p == 290 {
				return zzARemote
			}
			return zzAMix(func(_ string, p int) bool { return p%50 == 49 })("", p)
		}},
		{name: "300-all-fail", nsrc: 300, kindOf: zzAMix(all)},
		{name: "bases-ok", nsrc: 4, nbase: 3, kindOf: zzAMix(func(tag string, p int) bool { return tag == "b" && p == 1 })},
		{name: "bases-all-fail", nsrc: 4, nbase: 3, kindOf: zzAMix(func(tag string, _ int) bool { return tag == "b" })},
		{name: "sources-all-fail-bases-ok", nsrc: 3, nbase: 2, kindOf: zzAMix(func(tag string, _ int) bool { return tag == "s" })},
		{name: "bases-cross-chunk", nsrc: 140, nbase: 131, kindOf: zzAMix(func(tag string, p int) bool { return (tag == "b" && p%7 == 3) || (tag == "s" && p%13 == 5) })},
		{name: "remote-base", nsrc: 2, nbase: 2, kindOf: func(tag string, p int) zzAKind {
			if tag == "b" && p == 1 {
				return zzARemote
			}
			return zzAMem
		}},
	}
}

// build creates the world and the two source lists for a scenario; the
// completion order is a pseudo-random permutation driven by seed.
func (sc zzAScenario) build(t *testing.T, seed int64) (*zzAWorld, []string, []string) {
	w := zzANewWorld(t)
	rng := rand.New(rand.NewSource(seed))
	mk := func(tag string, n, base int) []string {
		addrs := make([]string, n)
		for pos := 0; pos < n; pos++ {
			sp := zzASpec{kind: sc.kindOf(tag, pos), idx: base + pos, delay: time.Duration(rng.Intn(2000)) * time.Microsecond}
			addrs[pos] = w.add(t, tag, pos, sp)
		}
		return addrs
	}
	return w, mk("s", sc.nsrc, 0), mk("b", sc.nbase, 1000)
}

func zzASources(addrs []string, s *source) []profileSource {
	out := make([]profileSource, 0, len(addrs))
	for _, a := range addrs {
		out = append(out, profileSource{addr: a, source: s})
	}
	return out
}

// zzARunGrab runs grabSourcesAndBases on a scenario and renders everything.
func zzARunGrab(t *testing.T, sc zzAScenario, seed int64) string {
	w, srcs, bases := sc.build(t, seed)
	ui := &zzAUI{}
	s := &source{Sources: srcs, Base: bases}
	p, pbase, m, mbase, save, err := grabSourcesAndBases(zzASources(srcs, s), zzASources(bases, s), w, zzAObj{}, ui, w)
	return fmt.Sprintf("P:\n%s\nPBASE:\n%s\nM:\n%s\nMBASE:\n%s\nSAVE: %v\nERR: %v\n%s",
		zzAProf(p), zzAProf(pbase), zzAMsrc(m), zzAMsrc(mbase), save, err, zzAMessages(w, ui))
}

// zzARunFetch runs fetchProfiles end to end on a scenario.
func zzARunFetch(t *testing.T, sc zzAScenario, seed int64, diffBase, normalize bool) string {
	w, srcs, bases := sc.build(t, seed)
	t.Setenv("PPROF_TMPDIR", t.TempDir())
	ui := &zzAUI{}
	sym := &zzASym{}
	s := &source{Sources: srcs, Base: bases, DiffBase: diffBase, Normalize: normalize, Symbolize: "none", Comment: "zz"}
	o := &plugin.Options{Fetch: w, Obj: zzAObj{}, UI: ui, HTTPTransport: w, Sym: sym}
	p, err := fetchProfiles(s, o)
	msgs := zzAMessages(w, ui)
	// The saved-profile temp file name is not part of the contract.
	if i := strings.Index(msgs, "Saved profile in "); i >= 0 {
		j := strings.Index(msgs[i:], "\n")
		msgs = msgs[:i] + "Saved profile in <tmp>" + msgs[i+j:]
	}
	return fmt.Sprintf("P:\n%s\nSYM: %s\n%s\nERR: %v\n%s", zzAProf(p), sym.mode, zzAMsrc(sym.msrc), err, msgs)
}

// zzACheck compares got against the expected digest, or against the first
// run of the same scenario when checking schedule independence.
func zzACheck(t *testing.T, want map[string]string, key, got string) {
	t.Helper()
	d := zzADigest(got)
	w, ok := want[key]
	if !ok {
		t.Errorf("no expected digest for %q; got %q", key, d)
		if os.Getenv("ZZ_DUMP") != "" {
			t.Logf("%s:\n%s", key, got)
		}
		return
	}
	if d != w {
		t.Errorf("%s: digest %s, want %s", key, d, w)
		if os.Getenv("ZZ_DUMP") != "" {
			t.Logf("%s:\n%s", key, got)
		}
	}
}

// ---- tests common to all three demonstrations ------------------------------

func TestZZAEquivGrabSourcesAndBases(t *testing.T) {
	for _, sc := range zzAScenarios() {
		sc := sc
		t.Run(sc.name, func(t *testing.T) {
			first := zzARunGrab(t, sc, 1)
			zzACheck(t, zzAWantGrab, sc.name, first)
			// Same report whatever order the fetches complete in.
			for seed := int64(2); seed <= 4; seed++ {
				if again := zzARunGrab(t, sc, seed); again != first {
					t.Errorf("seed %d: result differs from seed 1", seed)
				}
			}
		})
	}
}

func TestZZAEquivFetchProfiles(t *testing.T) {
	pick := map[string]bool{"single": true, "nine-every-third-fails": true, "all-fail": true, "129-boundary": true,
		"300-many-fail": true, "300-remote-in-third-chunk": true, "bases-ok": true, "bases-all-fail": true,
		"sources-all-fail-bases-ok": true, "bases-cross-chunk": true, "remote-base": true}
	for _, sc := range zzAScenarios() {
		if !pick[sc.name] {
			continue
		}
		sc := sc
		for _, mode := range []struct {
			name            string
			diff, normalize bool
		}{{"base", false, false}, {"diffbase-normalize", true, true}} {
			if mode.diff && sc.nbase == 0 {
				continue
			}
			mode := mode
			t.Run(sc.name+"/"+mode.name, func(t *testing.T) {
				first := zzARunFetch(t, sc, 1, mode.diff, mode.normalize)
				zzACheck(t, zzAWantFetch, sc.name+"/"+mode.name, first)
				if again := zzARunFetch(t, sc, 7, mode.diff, mode.normalize); again != first {
					t.Errorf("seed 7: result differs from seed 1")
				}
			})
		}
	}
}

// ---- focus of demonstration A: concurrentGrab under forced completion orders

// zzARunConcurrent calls concurrentGrab on n sources whose fetches are forced
// by a turnstile to complete exactly in the order given by perm (perm[k] is
// the position of the k-th fetch to complete).
func zzARunConcurrent(t *testing.T, n int, failing func(int) bool, perm []int) string {
	w := zzANewWorld(t)
	w.gate = zzANewGate()
	kinds := []zzAKind{zzAMem, zzAHTTP, zzAFetcherURL, zzARemote}
	bad := []zzAKind{zzAFailStatus, zzAFailPprof, zzAFailGarbage, zzAFailInvalid, zzAFailFetcher, zzAFailTransport}
	addrs := make([]string, n)
	specs := make([]zzASpec, n)
	for pos := 0; pos < n; pos++ {
		k := kinds[pos%len(kinds)]
		if k == zzARemote && pos != 6 {
			k = zzAMem
		}
		if failing(pos) {
			k = bad[pos%len(bad)]
		}
		specs[pos] = zzASpec{kind: k, idx: pos}
		addrs[pos] = w.add(t, "s", pos, specs[pos])
	}
	for rank, pos := range perm {
		w.rank[w.rankKey("s", pos, specs[pos])] = rank
	}
	ui := &zzAUI{}
	s := &source{Sources: addrs}
	p, msrc, save, count, err := concurrentGrab(zzASources(addrs, s), w, zzAObj{}, ui, w)
	if got := len(w.gate.log); got != n {
		t.Errorf("turnstile saw %d fetches, want %d", got, n)
	}
	return fmt.Sprintf("P:\n%s\nM:\n%s\nSAVE: %v\nCOUNT: %d\nERR: %v\n%s", zzAProf(p), zzAMsrc(msrc), save, count, err, zzAMessages(w, ui))
}

func TestZZAEquivConcurrentGrabOrders(t *testing.T) {
	cases := []struct {
		name    string
		n       int
		failing func(int) bool
	}{
		{"one-ok", 1, func(int) bool { return false }},
		{"one-bad", 1, func(int) bool { return true }},
		{"seven-mixed", 7, func(p int) bool { return p == 2 || p == 5 }},
		{"forty-every-fourth", 40, func(p int) bool { return p%4 == 1 }},
		{"forty-all-bad", 40, func(int) bool { return true }},
		{"two-hundred-edges-bad", 200, func(p int) bool { return p < 3 || p > 196 || p == 100 }},
	}
	for _, c := range cases {
		c := c
		t.Run(c.name, func(t *testing.T) {
			fwd := make([]int, c.n)
			rev := make([]int, c.n)
			for i := range fwd {
				fwd[i], rev[i] = i, c.n-1-i
			}
			first := zzARunConcurrent(t, c.n, c.failing, fwd)
			zzACheck(t, zzAWantConcurrent, c.name, first)
			if got := zzARunConcurrent(t, c.n, c.failing, rev); got != first {
				t.Errorf("reverse completion order changes the result")
			}
			for seed := int64(1); seed <= 3; seed++ {
				perm := rand.New(rand.NewSource(seed)).Perm(c.n)
				if got := zzARunConcurrent(t, c.n, c.failing, perm); got != first {
					t.Errorf("random completion order (seed %d) changes the result", seed)
				}
			}
		})
	}
}

// ---- expected digests, computed on the unchanged tree -----------------------

var zzAWantGrab = map[string]string{
	"single":                    "61b26e749c5f7526b3da",
	"single-remote":             "471ed26f22835788e33d",
	"five-none-fail":            "2befb5f5f8521242d9f3",
	"nine-every-third-fails":    "c6674022e9b5a4c0bb23",
	"first-and-last-fail":       "8a0fe6176d56bf845548",
	"only-last-succeeds":        "cb03ef2e14917aeeb3ec",
	"all-fail":                  "adc5b784e8f67626a33a",
	"remote-in-the-middle":      "666fa8696010ca318f68",
	"128-exact":                 "8762a36aef6001edb1d8",
	"129-boundary":              "4e0497647379f69c1f00",
	"129-last-chunk-fails":      "35fd5fca57f99c51fd46",
	"130-first-chunk-all-fail":  "87458eaad6514e6faadf",
	"257-middle-chunk-all-fail": "0e7bb2d1966f93ccd523",
	"300-many-fail":             "37e3993cb4c01b6dcd60",
	"300-remote-in-third-chunk": "14579a6a2674ba33a366",
	"300-all-fail":              "1abefa36b9b6e398d7e3",
	"bases-ok":                  "bd27dd400ce118f7e39d",
	"bases-all-fail":            "a19b54db4d9b740f16c4",
	"sources-all-fail-bases-ok": "7162b0a7034204a57b9e",
	"bases-cross-chunk":         "deb0363bf1ad7cf2943e",
	"remote-base":               "e8517bbf6fcf7c8ef581",
}

var zzAWantFetch = map[string]string{
	"single/base":                                  "5b505cd411b45d35b952",
	"nine-every-third-fails/base":                  "db475e90ac8a55439b25",
	"all-fail/base":                                "ab2b5263ec654d56e84d",
	"129-boundary/base":                            "c3502908e46887bf1529",
	"300-many-fail/base":                           "7434446bc36bf561d96e",
	"300-remote-in-third-chunk/base":               "e6de3174fb8562e3c5a0",
	"bases-ok/base":                                "068224f0a1f3e814d757",
	"bases-ok/diffbase-normalize":                  "ada38885da2f30fbf3db",
	"bases-all-fail/base":                          "00722fa26ece07278f18",
	"bases-all-fail/diffbase-normalize":            "00722fa26ece07278f18",
	"sources-all-fail-bases-ok/base":               "70317ef0191bc4f3829d",
	"sources-all-fail-bases-ok/diffbase-normalize": "70317ef0191bc4f3829d",
	"bases-cross-chunk/base":                       "2b451529e373f3fbb32a",
	"bases-cross-chunk/diffbase-normalize":         "1a0516a85ccc2cf573d3",
	"remote-base/base":                             "622ac9364d139bfbd7b3",
	"remote-base/diffbase-normalize":               "1cb10802419227bce9fc",
}

var zzAWantConcurrent = map[string]string{
	"one-ok":                "9e42e02a7aa9f258979f",
	"one-bad":               "79754fb032b19c65c04e",
	"seven-mixed":           "bad21fa9abb7636d08e4",
	"forty-every-fourth":    "bb370c5cd8b4e8a41324",
	"forty-all-bad":         "f5f53d46bfe86748f9a0",
	"two-hundred-edges-bad": "f10d17e1202a7a0ec005",
}
