package graph

import (
	"fmt"
	"sort"
	"strings"
	"testing"

	"github.com/google/pprof/profile"
)

// zzBProfile builds a profile with inlined frames, direct and indirect
// recursion, repeated caller/callee pairs within one stack, several roots,
// labels, zero-valued samples and a negative sample.
func zzBProfile() *profile.Profile {
	names := []string{"main", "a", "b", "c", "d", "e", "f", "g"}
	fn := map[string]*profile.Function{}
	loc := map[string]*profile.Location{}
	p := &profile.Profile{
		SampleType: []*profile.ValueType{{Type: "samples", Unit: "count"}, {Type: "cpu", Unit: "ms"}},
	}
	for i, n := range names {
		f := &profile.Function{ID: uint64(i + 1), Name: n, SystemName: n, Filename: n + ".go"}
		fn[n] = f
		p.Function = append(p.Function, f)
		l := &profile.Location{ID: uint64(i + 1), Line: []profile.Line{{Function: f}}}
		loc[n] = l
		p.Location = append(p.Location, l)
	}
	inl := func(id uint64, key string, fs ...string) {
		l := &profile.Location{ID: id}
		for _, f := range fs {
			l.Line = append(l.Line, profile.Line{Function: fn[f]})
		}
		loc[key] = l
		p.Location = append(p.Location, l)
	}
	inl(20, "c<b", "c", "b")
	inl(21, "e<d<a", "e", "d", "a")
	inl(22, "a<a", "a", "a")
	add := func(v, div int64, label string, stack ...string) {
		s := &profile.Sample{Value: []int64{v, div}}
		if label != "" {
			s.Label = map[string][]string{"k": {label}}
			s.NumLabel = map[string][]int64{"bytes": {int64(len(label)) * 16}}
			s.NumUnit = map[string][]string{"bytes": {"bytes"}}
		}
		for _, k := range stack {
			s.Location = append(s.Location, loc[k])
		}
		p.Sample = append(p.Sample, s)
	}
	add(10, 2, "", "c", "b", "a", "main")
	add(7, 1, "x", "c<b", "a", "main")
	add(3, 1, "", "d", "b", "a", "main")
	add(5, 5, "yy", "e<d<a", "main")
	add(1, 1, "", "f", "main")
	add(2, 1, "", "g")
	add(4, 2, "x", "a", "b", "a", "b", "a", "main") // a->b and b->a repeat
	add(6, 3, "", "e", "c", "b", "a", "main")
	add(0, 0, "", "e", "d", "main") // dropped: zero weight
	add(1, 1, "", "main")
	add(-8, 4, "yy", "f", "g")
	add(9, 3, "", "e", "c<b", "a", "main")
	add(2, 1, "", "d", "e<d<a", "main")
	add(11, 1, "", "c", "c", "c", "b", "main") // self recursion
	add(13, 1, "x", "b", "a<a", "a", "main")   // inline self recursion
	add(0, 7, "", "g", "f", "main")            // zero value, non-zero divisor
	return p
}

func zzBDump(g *Graph) string {
	var lines []string
	for _, n := range g.Nodes {
		l := fmt.Sprintf("%s flat=%d/%d cum=%d/%d", n.Info.Name, n.Flat, n.FlatDiv, n.Cum, n.CumDiv)
		var es []string
		for dst, e := range n.Out {
			if e.Src != n || e.Dest != dst || dst.In[n] != e {
				l += " BROKEN-OUT"
			}
			es = append(es, fmt.Sprintf("%s(w=%d/%d res=%v inl=%v)", dst.Info.Name, e.Weight, e.WeightDiv, e.Residual, e.Inline))
		}
		sort.Strings(es)
		l += " out=" + strings.Join(es, ",")
		es = nil
		for src, e := range n.In {
			if e.Src != src || e.Dest != n || src.Out[n] != e {
				l += " BROKEN-IN"
			}
			es = append(es, src.Info.Name)
		}
		sort.Strings(es)
		l += " in=" + strings.Join(es, ",")
		es = nil
		for k, t := range n.LabelTags {
			es = append(es, fmt.Sprintf("%s(%d/%d,%d/%d)", k, t.Flat, t.FlatDiv, t.Cum, t.CumDiv))
		}
		for k, tm := range n.NumericTags {
			for k2, t := range tm {
				es = append(es, fmt.Sprintf("%s#%s(%d/%d,%d/%d)", k, k2, t.Flat, t.FlatDiv, t.Cum, t.CumDiv))
			}
		}
		sort.Strings(es)
		l += " tags=" + strings.Join(es, ",")
		lines = append(lines, l)
	}
	sort.Strings(lines)
	return strings.Join(lines, "\n")
}

func TestZZEquivBNewGraph(t *testing.T) {
	all := []string{"main", "a", "b", "c", "d", "e", "f", "g"}
	without := func(drop ...string) []string {
		var r []string
	next:
		for _, n := range all {
			for _, d := range drop {
				if d == n {
					continue next
				}
			}
			r = append(r, n)
		}
		return r
	}
	cases := []struct {
		name string
		keep []string // nil: untrimmed
		none bool
	}{
		{name: "untrimmed"},
		{name: "keep-all", keep: all},
		{name: "keep-none", none: true},
		{name: "drop-leaves-e-f", keep: without("e", "f")},
		{name: "drop-roots", keep: without("main", "g")},
		{name: "drop-b", keep: without("b")},
		{name: "drop-a", keep: without("a")},
		{name: "drop-b-c", keep: without("b", "c")},
		{name: "drop-a-d-main", keep: without("a", "d", "main")},
		{name: "only-c", keep: []string{"c"}},
		{name: "only-a-e", keep: []string{"a", "e"}},
	}
	var out []string
	for _, mean := range []bool{false, true} {
		for _, c := range cases {
			o := &Options{SampleValue: func(v []int64) int64 { return v[0] }}
			if mean {
				o.SampleMeanDivisor = func(v []int64) int64 { return v[1] }
			}
			full := map[string]*Node{}
			for _, n := range New(zzBProfile(), o).Nodes {
				full[n.Info.Name] = n
			}
			if c.keep != nil || c.none {
				o.KeptNodes = NodeSet{}
				for _, k := range c.keep {
					o.KeptNodes[full[k].Info] = true
				}
			}
			g := New(zzBProfile(), o)
			// The numbers of whatever remains are those of the untrimmed graph.
			for _, n := range g.Nodes {
				f := full[n.Info.Name]
				if f == nil || f.Flat != n.Flat || f.Cum != n.Cum {
					t.Errorf("%s: node %s has flat=%d cum=%d, untrimmed %v", c.name, n.Info.Name, n.Flat, n.Cum, f)
				}
				if o.KeptNodes != nil && !o.KeptNodes[n.Info] {
					t.Errorf("%s: node %s not in keep set", c.name, n.Info.Name)
				}
				for dst, e := range n.Out {
					if fe := f.Out[full[dst.Info.Name]]; !e.Residual && (fe == nil || fe.Weight != e.Weight) {
						t.Errorf("%s: edge %s->%s weight %d, untrimmed %v", c.name, n.Info.Name, dst.Info.Name, e.Weight, fe)
					}
				}
			}
			out = append(out, fmt.Sprintf("== %s mean=%v\n%s", c.name, mean, zzBDump(g)))
		}
	}
	got := strings.Join(out, "\n") + "\n"
	if got != zzBWant {
		t.Errorf("newGraph output differs from the recorded baseline.\n--- got ---\n%s", got)
	}
}

const zzBWant = `== untrimmed mean=false
a flat=4/0 cum=59/0 out=b(w=52/0 res=false inl=false),d(w=7/0 res=false inl=true) in=b,main tags=k:x#16(4/0,24/0),k:x(4/0,24/0),k:yy#32(0/0,5/0),k:yy(0/0,5/0)
b flat=13/0 cum=63/0 out=a(w=4/0 res=false inl=false),c(w=43/0 res=false inl=false),d(w=3/0 res=false inl=false) in=a,main tags=k:x#16(13/0,24/0),k:x(13/0,24/0)
c flat=28/0 cum=43/0 out=e(w=15/0 res=false inl=false) in=b tags=k:x#16(7/0,7/0),k:x(7/0,7/0)
d flat=5/0 cum=10/0 out=e(w=7/0 res=false inl=true) in=a,b,e tags=k:yy#32(0/0,5/0),k:yy(0/0,5/0)
e flat=20/0 cum=22/0 out=d(w=2/0 res=false inl=false) in=c,d tags=k:yy#32(5/0,5/0),k:yy(5/0,5/0)
f flat=-7/0 cum=-7/0 out= in=g,main tags=k:yy#32(-8/0,-8/0),k:yy(-8/0,-8/0)
g flat=2/0 cum=-6/0 out=f(w=-8/0 res=false inl=false) in= tags=k:yy#32(0/0,-8/0),k:yy(0/0,-8/0)
main flat=1/0 cum=72/0 out=a(w=59/0 res=false inl=false),b(w=11/0 res=false inl=false),f(w=1/0 res=false inl=false) in= tags=k:x#16(0/0,24/0),k:x(0/0,24/0),k:yy#32(0/0,5/0),k:yy(0/0,5/0)
== keep-all mean=false
a flat=4/0 cum=59/0 out=b(w=52/0 res=false inl=false),d(w=7/0 res=false inl=true) in=b,main tags=k:x#16(4/0,24/0),k:x(4/0,24/0),k:yy#32(0/0,5/0),k:yy(0/0,5/0)
b flat=13/0 cum=63/0 out=a(w=4/0 res=false inl=false),c(w=43/0 res=false inl=false),d(w=3/0 res=false inl=false) in=a,main tags=k:x#16(13/0,24/0),k:x(13/0,24/0)
c flat=28/0 cum=43/0 out=e(w=15/0 res=false inl=false) in=b tags=k:x#16(7/0,7/0),k:x(7/0,7/0)
d flat=5/0 cum=10/0 out=e(w=7/0 res=false inl=true) in=a,b,e tags=k:yy#32(0/0,5/0),k:yy(0/0,5/0)
e flat=20/0 cum=22/0 out=d(w=2/0 res=false inl=false) in=c,d tags=k:yy#32(5/0,5/0),k:yy(5/0,5/0)
f flat=-7/0 cum=-7/0 out= in=g,main tags=k:yy#32(-8/0,-8/0),k:yy(-8/0,-8/0)
g flat=2/0 cum=-6/0 out=f(w=-8/0 res=false inl=false) in= tags=k:yy#32(0/0,-8/0),k:yy(0/0,-8/0)
main flat=1/0 cum=72/0 out=a(w=59/0 res=false inl=false),b(w=11/0 res=false inl=false),f(w=1/0 res=false inl=false) in= tags=k:x#16(0/0,24/0),k:x(0/0,24/0),k:yy#32(0/0,5/0),k:yy(0/0,5/0)
== keep-none mean=false

== drop-leaves-e-f mean=false
a flat=4/0 cum=59/0 out=b(w=52/0 res=false inl=false),d(w=7/0 res=false inl=true) in=b,main tags=k:x#16(4/0,24/0),k:x(4/0,24/0),k:yy#32(0/0,5/0),k:yy(0/0,5/0)
b flat=13/0 cum=63/0 out=a(w=4/0 res=false inl=false),c(w=43/0 res=false inl=false),d(w=3/0 res=false inl=false) in=a,main tags=k:x#16(13/0,24/0),k:x(13/0,24/0)
c flat=28/0 cum=43/0 out= in=b tags=k:x#16(7/0,7/0),k:x(7/0,7/0)
d flat=5/0 cum=10/0 out= in=a,b tags=k:yy#32(0/0,5/0),k:yy(0/0,5/0)
g flat=2/0 cum=-6/0 out= in= tags=k:yy#32(0/0,-8/0),k:yy(0/0,-8/0)
main flat=1/0 cum=72/0 out=a(w=59/0 res=false inl=false),b(w=11/0 res=false inl=false) in= tags=k:x#16(0/0,24/0),k:x(0/0,24/0),k:yy#32(0/0,5/0),k:yy(0/0,5/0)
== drop-roots mean=false
a flat=4/0 cum=59/0 out=b(w=52/0 res=false inl=false),d(w=7/0 res=false inl=true) in=b tags=k:x#16(4/0,24/0),k:x(4/0,24/0),k:yy#32(0/0,5/0),k:yy(0/0,5/0)
b flat=13/0 cum=63/0 out=a(w=4/0 res=false inl=false),c(w=43/0 res=false inl=false),d(w=3/0 res=false inl=false) in=a tags=k:x#16(13/0,24/0),k:x(13/0,24/0)
c flat=28/0 cum=43/0 out=e(w=15/0 res=false inl=false) in=b tags=k:x#16(7/0,7/0),k:x(7/0,7/0)
d flat=5/0 cum=10/0 out=e(w=7/0 res=false inl=true) in=a,b,e tags=k:yy#32(0/0,5/0),k:yy(0/0,5/0)
e flat=20/0 cum=22/0 out=d(w=2/0 res=false inl=false) in=c,d tags=k:yy#32(5/0,5/0),k:yy(5/0,5/0)
f flat=-7/0 cum=-7/0 out= in= tags=k:yy#32(-8/0,-8/0),k:yy(-8/0,-8/0)
== drop-b mean=false
a flat=4/0 cum=59/0 out=c(w=32/0 res=true inl=false),d(w=10/0 res=true inl=false) in=main tags=k:x#16(4/0,24/0),k:x(4/0,24/0),k:yy#32(0/0,5/0),k:yy(0/0,5/0)
c flat=28/0 cum=43/0 out=e(w=15/0 res=false inl=false) in=a,main tags=k:x#16(7/0,7/0),k:x(7/0,7/0)
d flat=5/0 cum=10/0 out=e(w=7/0 res=false inl=true) in=a,e tags=k:yy#32(0/0,5/0),k:yy(0/0,5/0)
e flat=20/0 cum=22/0 out=d(w=2/0 res=false inl=false) in=c,d tags=k:yy#32(5/0,5/0),k:yy(5/0,5/0)
f flat=-7/0 cum=-7/0 out= in=g,main tags=k:yy#32(-8/0,-8/0),k:yy(-8/0,-8/0)
g flat=2/0 cum=-6/0 out=f(w=-8/0 res=false inl=false) in= tags=k:yy#32(0/0,-8/0),k:yy(0/0,-8/0)
main flat=1/0 cum=72/0 out=a(w=59/0 res=false inl=false),c(w=11/0 res=true inl=false),f(w=1/0 res=false inl=false) in= tags=k:x#16(0/0,24/0),k:x(0/0,24/0),k:yy#32(0/0,5/0),k:yy(0/0,5/0)
== drop-a mean=false
b flat=13/0 cum=63/0 out=c(w=43/0 res=false inl=false),d(w=3/0 res=false inl=false) in=main tags=k:x#16(13/0,24/0),k:x(13/0,24/0)
c flat=28/0 cum=43/0 out=e(w=15/0 res=false inl=false) in=b tags=k:x#16(7/0,7/0),k:x(7/0,7/0)
d flat=5/0 cum=10/0 out=e(w=7/0 res=false inl=true) in=b,e,main tags=k:yy#32(0/0,5/0),k:yy(0/0,5/0)
e flat=20/0 cum=22/0 out=d(w=2/0 res=false inl=false) in=c,d tags=k:yy#32(5/0,5/0),k:yy(5/0,5/0)
f flat=-7/0 cum=-7/0 out= in=g,main tags=k:yy#32(-8/0,-8/0),k:yy(-8/0,-8/0)
g flat=2/0 cum=-6/0 out=f(w=-8/0 res=false inl=false) in= tags=k:yy#32(0/0,-8/0),k:yy(0/0,-8/0)
main flat=1/0 cum=72/0 out=b(w=63/0 res=true inl=false),d(w=7/0 res=true inl=true),f(w=1/0 res=false inl=false) in= tags=k:x#16(0/0,24/0),k:x(0/0,24/0),k:yy#32(0/0,5/0),k:yy(0/0,5/0)
== drop-b-c mean=false
a flat=4/0 cum=59/0 out=d(w=10/0 res=true inl=false),e(w=15/0 res=true inl=false) in=main tags=k:x#16(4/0,24/0),k:x(4/0,24/0),k:yy#32(0/0,5/0),k:yy(0/0,5/0)
d flat=5/0 cum=10/0 out=e(w=7/0 res=false inl=true) in=a,e tags=k:yy#32(0/0,5/0),k:yy(0/0,5/0)
e flat=20/0 cum=22/0 out=d(w=2/0 res=false inl=false) in=a,d tags=k:yy#32(5/0,5/0),k:yy(5/0,5/0)
f flat=-7/0 cum=-7/0 out= in=g,main tags=k:yy#32(-8/0,-8/0),k:yy(-8/0,-8/0)
g flat=2/0 cum=-6/0 out=f(w=-8/0 res=false inl=false) in= tags=k:yy#32(0/0,-8/0),k:yy(0/0,-8/0)
main flat=1/0 cum=72/0 out=a(w=59/0 res=false inl=false),f(w=1/0 res=false inl=false) in= tags=k:x#16(0/0,24/0),k:x(0/0,24/0),k:yy#32(0/0,5/0),k:yy(0/0,5/0)
== drop-a-d-main mean=false
b flat=13/0 cum=63/0 out=c(w=43/0 res=false inl=false) in= tags=k:x#16(13/0,24/0),k:x(13/0,24/0)
c flat=28/0 cum=43/0 out=e(w=15/0 res=false inl=false) in=b tags=k:x#16(7/0,7/0),k:x(7/0,7/0)
e flat=20/0 cum=22/0 out= in=c tags=k:yy#32(5/0,5/0),k:yy(5/0,5/0)
f flat=-7/0 cum=-7/0 out= in=g tags=k:yy#32(-8/0,-8/0),k:yy(-8/0,-8/0)
g flat=2/0 cum=-6/0 out=f(w=-8/0 res=false inl=false) in= tags=k:yy#32(0/0,-8/0),k:yy(0/0,-8/0)
== only-c mean=false
c flat=28/0 cum=43/0 out= in= tags=k:x#16(7/0,7/0),k:x(7/0,7/0)
== only-a-e mean=false
a flat=4/0 cum=59/0 out=e(w=22/0 res=true inl=false) in= tags=k:x#16(4/0,24/0),k:x(4/0,24/0),k:yy#32(0/0,5/0),k:yy(0/0,5/0)
e flat=20/0 cum=22/0 out= in=a tags=k:yy#32(5/0,5/0),k:yy(5/0,5/0)
== untrimmed mean=true
a flat=4/2 cum=59/19 out=b(w=52/13 res=false inl=false),d(w=7/6 res=false inl=true) in=b,main tags=k:x#16(4/2,24/4),k:x(4/2,24/4),k:yy#32(0/0,5/5),k:yy(0/0,5/5)
b flat=13/1 cum=63/14 out=a(w=4/2 res=false inl=false),c(w=43/10 res=false inl=false),d(w=3/1 res=false inl=false) in=a,main tags=k:x#16(13/1,24/4),k:x(13/1,24/4)
c flat=28/4 cum=43/10 out=e(w=15/6 res=false inl=false) in=b tags=k:x#16(7/1,7/1),k:x(7/1,7/1)
d flat=5/2 cum=10/7 out=e(w=7/6 res=false inl=true) in=a,b,e tags=k:yy#32(0/0,5/5),k:yy(0/0,5/5)
e flat=20/11 cum=22/12 out=d(w=2/1 res=false inl=false) in=c,d tags=k:yy#32(5/5,5/5),k:yy(5/5,5/5)
f flat=-7/5 cum=-7/12 out=g(w=0/7 res=false inl=false) in=g,main tags=k:yy#32(-8/4,-8/4),k:yy(-8/4,-8/4)
g flat=2/8 cum=-6/12 out=f(w=-8/4 res=false inl=false) in=f tags=k:yy#32(0/0,-8/4),k:yy(0/0,-8/4)
main flat=1/1 cum=72/29 out=a(w=59/19 res=false inl=false),b(w=11/1 res=false inl=false),f(w=1/8 res=false inl=false) in= tags=k:x#16(0/0,24/4),k:x(0/0,24/4),k:yy#32(0/0,5/5),k:yy(0/0,5/5)
== keep-all mean=true
a flat=4/2 cum=59/19 out=b(w=52/13 res=false inl=false),d(w=7/6 res=false inl=true) in=b,main tags=k:x#16(4/2,24/4),k:x(4/2,24/4),k:yy#32(0/0,5/5),k:yy(0/0,5/5)
b flat=13/1 cum=63/14 out=a(w=4/2 res=false inl=false),c(w=43/10 res=false inl=false),d(w=3/1 res=false inl=false) in=a,main tags=k:x#16(13/1,24/4),k:x(13/1,24/4)
c flat=28/4 cum=43/10 out=e(w=15/6 res=false inl=false) in=b tags=k:x#16(7/1,7/1),k:x(7/1,7/1)
d flat=5/2 cum=10/7 out=e(w=7/6 res=false inl=true) in=a,b,e tags=k:yy#32(0/0,5/5),k:yy(0/0,5/5)
e flat=20/11 cum=22/12 out=d(w=2/1 res=false inl=false) in=c,d tags=k:yy#32(5/5,5/5),k:yy(5/5,5/5)
f flat=-7/5 cum=-7/12 out=g(w=0/7 res=false inl=false) in=g,main tags=k:yy#32(-8/4,-8/4),k:yy(-8/4,-8/4)
g flat=2/8 cum=-6/12 out=f(w=-8/4 res=false inl=false) in=f tags=k:yy#32(0/0,-8/4),k:yy(0/0,-8/4)
main flat=1/1 cum=72/29 out=a(w=59/19 res=false inl=false),b(w=11/1 res=false inl=false),f(w=1/8 res=false inl=false) in= tags=k:x#16(0/0,24/4),k:x(0/0,24/4),k:yy#32(0/0,5/5),k:yy(0/0,5/5)
== keep-none mean=true

== drop-leaves-e-f mean=true
a flat=4/2 cum=59/19 out=b(w=52/13 res=false inl=false),d(w=7/6 res=false inl=true) in=b,main tags=k:x#16(4/2,24/4),k:x(4/2,24/4),k:yy#32(0/0,5/5),k:yy(0/0,5/5)
b flat=13/1 cum=63/14 out=a(w=4/2 res=false inl=false),c(w=43/10 res=false inl=false),d(w=3/1 res=false inl=false) in=a,main tags=k:x#16(13/1,24/4),k:x(13/1,24/4)
c flat=28/4 cum=43/10 out= in=b tags=k:x#16(7/1,7/1),k:x(7/1,7/1)
d flat=5/2 cum=10/7 out= in=a,b tags=k:yy#32(0/0,5/5),k:yy(0/0,5/5)
g flat=2/8 cum=-6/12 out= in=main tags=k:yy#32(0/0,-8/4),k:yy(0/0,-8/4)
main flat=1/1 cum=72/29 out=a(w=59/19 res=false inl=false),b(w=11/1 res=false inl=false),g(w=0/7 res=true inl=false) in= tags=k:x#16(0/0,24/4),k:x(0/0,24/4),k:yy#32(0/0,5/5),k:yy(0/0,5/5)
== drop-roots mean=true
a flat=4/2 cum=59/19 out=b(w=52/13 res=false inl=false),d(w=7/6 res=false inl=true) in=b tags=k:x#16(4/2,24/4),k:x(4/2,24/4),k:yy#32(0/0,5/5),k:yy(0/0,5/5)
b flat=13/1 cum=63/14 out=a(w=4/2 res=false inl=false),c(w=43/10 res=false inl=false),d(w=3/1 res=false inl=false) in=a tags=k:x#16(13/1,24/4),k:x(13/1,24/4)
c flat=28/4 cum=43/10 out=e(w=15/6 res=false inl=false) in=b tags=k:x#16(7/1,7/1),k:x(7/1,7/1)
d flat=5/2 cum=10/7 out=e(w=7/6 res=false inl=true) in=a,b,e tags=k:yy#32(0/0,5/5),k:yy(0/0,5/5)
e flat=20/11 cum=22/12 out=d(w=2/1 res=false inl=false) in=c,d tags=k:yy#32(5/5,5/5),k:yy(5/5,5/5)
f flat=-7/5 cum=-7/12 out= in= tags=k:yy#32(-8/4,-8/4),k:yy(-8/4,-8/4)
== drop-b mean=true
a flat=4/2 cum=59/19 out=c(w=32/9 res=true inl=false),d(w=10/7 res=true inl=false) in=main tags=k:x#16(4/2,24/4),k:x(4/2,24/4),k:yy#32(0/0,5/5),k:yy(0/0,5/5)
c flat=28/4 cum=43/10 out=e(w=15/6 res=false inl=false) in=a,main tags=k:x#16(7/1,7/1),k:x(7/1,7/1)
d flat=5/2 cum=10/7 out=e(w=7/6 res=false inl=true) in=a,e tags=k:yy#32(0/0,5/5),k:yy(0/0,5/5)
e flat=20/11 cum=22/12 out=d(w=2/1 res=false inl=false) in=c,d tags=k:yy#32(5/5,5/5),k:yy(5/5,5/5)
f flat=-7/5 cum=-7/12 out=g(w=0/7 res=false inl=false) in=g,main tags=k:yy#32(-8/4,-8/4),k:yy(-8/4,-8/4)
g flat=2/8 cum=-6/12 out=f(w=-8/4 res=false inl=false) in=f tags=k:yy#32(0/0,-8/4),k:yy(0/0,-8/4)
main flat=1/1 cum=72/29 out=a(w=59/19 res=false inl=false),c(w=11/1 res=true inl=false),f(w=1/8 res=false inl=false) in= tags=k:x#16(0/0,24/4),k:x(0/0,24/4),k:yy#32(0/0,5/5),k:yy(0/0,5/5)
== drop-a mean=true
b flat=13/1 cum=63/14 out=c(w=43/10 res=false inl=false),d(w=3/1 res=false inl=false) in=main tags=k:x#16(13/1,24/4),k:x(13/1,24/4)
c flat=28/4 cum=43/10 out=e(w=15/6 res=false inl=false) in=b tags=k:x#16(7/1,7/1),k:x(7/1,7/1)
d flat=5/2 cum=10/7 out=e(w=7/6 res=false inl=true) in=b,e,main tags=k:yy#32(0/0,5/5),k:yy(0/0,5/5)
e flat=20/11 cum=22/12 out=d(w=2/1 res=false inl=false) in=c,d tags=k:yy#32(5/5,5/5),k:yy(5/5,5/5)
f flat=-7/5 cum=-7/12 out=g(w=0/7 res=false inl=false) in=g,main tags=k:yy#32(-8/4,-8/4),k:yy(-8/4,-8/4)
g flat=2/8 cum=-6/12 out=f(w=-8/4 res=false inl=false) in=f tags=k:yy#32(0/0,-8/4),k:yy(0/0,-8/4)
main flat=1/1 cum=72/29 out=b(w=63/14 res=true inl=false),d(w=7/6 res=true inl=true),f(w=1/8 res=false inl=false) in= tags=k:x#16(0/0,24/4),k:x(0/0,24/4),k:yy#32(0/0,5/5),k:yy(0/0,5/5)
== drop-b-c mean=true
a flat=4/2 cum=59/19 out=d(w=10/7 res=true inl=false),e(w=15/6 res=true inl=false) in=main tags=k:x#16(4/2,24/4),k:x(4/2,24/4),k:yy#32(0/0,5/5),k:yy(0/0,5/5)
d flat=5/2 cum=10/7 out=e(w=7/6 res=false inl=true) in=a,e tags=k:yy#32(0/0,5/5),k:yy(0/0,5/5)
e flat=20/11 cum=22/12 out=d(w=2/1 res=false inl=false) in=a,d tags=k:yy#32(5/5,5/5),k:yy(5/5,5/5)
f flat=-7/5 cum=-7/12 out=g(w=0/7 res=false inl=false) in=g,main tags=k:yy#32(-8/4,-8/4),k:yy(-8/4,-8/4)
g flat=2/8 cum=-6/12 out=f(w=-8/4 res=false inl=false) in=f tags=k:yy#32(0/0,-8/4),k:yy(0/0,-8/4)
main flat=1/1 cum=72/29 out=a(w=59/19 res=false inl=false),f(w=1/8 res=false inl=false) in= tags=k:x#16(0/0,24/4),k:x(0/0,24/4),k:yy#32(0/0,5/5),k:yy(0/0,5/5)
== drop-a-d-main mean=true
b flat=13/1 cum=63/14 out=c(w=43/10 res=false inl=false) in= tags=k:x#16(13/1,24/4),k:x(13/1,24/4)
c flat=28/4 cum=43/10 out=e(w=15/6 res=false inl=false) in=b tags=k:x#16(7/1,7/1),k:x(7/1,7/1)
e flat=20/11 cum=22/12 out= in=c tags=k:yy#32(5/5,5/5),k:yy(5/5,5/5)
f flat=-7/5 cum=-7/12 out=g(w=0/7 res=false inl=false) in=g tags=k:yy#32(-8/4,-8/4),k:yy(-8/4,-8/4)
g flat=2/8 cum=-6/12 out=f(w=-8/4 res=false inl=false) in=f tags=k:yy#32(0/0,-8/4),k:yy(0/0,-8/4)
== only-c mean=true
c flat=28/4 cum=43/10 out= in= tags=k:x#16(7/1,7/1),k:x(7/1,7/1)
== only-a-e mean=true
a flat=4/2 cum=59/19 out=e(w=22/12 res=true inl=false) in= tags=k:x#16(4/2,24/4),k:x(4/2,24/4),k:yy#32(0/0,5/5),k:yy(0/0,5/5)
e flat=20/11 cum=22/12 out= in=a tags=k:yy#32(5/5,5/5),k:yy(5/5,5/5)
`
