#!/bin/sh
# usage: demo.sh <pprof worktree root>
# Copies the equivalence test into internal/graph, runs it, removes it again.
# Exits 0 iff the test passes (works with and without patch.diff applied).
set -u
root=${1:?usage: demo.sh <worktree root>}
here=$(cd "$(dirname "$0")" && pwd)
export GOFLAGS=-mod=mod GOPROXY=off GOSUMDB=off GOTOOLCHAIN=local
cp "$here/zz_equiv_b_test.go" "$root/internal/graph/zz_equiv_b_test.go" || exit 2
(cd "$root" && go test -vet=off -count=5 -run '^TestZZEquivBNewGraph$' ./internal/graph/)
rc=$?
rm -f "$root/internal/graph/zz_equiv_b_test.go"
exit $rc
