package report

import (
	"bytes"
	"fmt"
	"os"
	"strings"
	"testing"

	"github.com/google/pprof/profile"
)

type zzSampleC struct {
	stack []string // leaf first
	vals  []int64
	base  bool
}

func zzProfC(samples []zzSampleC) *profile.Profile {
	p := &profile.Profile{
		SampleType: []*profile.ValueType{{Type: "samples", Unit: "count"}, {Type: "cpu", Unit: "milliseconds"}},
		PeriodType: &profile.ValueType{Type: "cpu", Unit: "milliseconds"},
		Period:     1,
	}
	m := &profile.Mapping{ID: 1, Start: 0x1000, Limit: 0x9000, File: "/bin/zzprog", HasFunctions: true}
	p.Mapping = []*profile.Mapping{m}
	locs := map[string]*profile.Location{}
	for i, n := range []string{"main", "a", "b", "c", "d"} {
		f := &profile.Function{ID: uint64(i + 1), Name: n, SystemName: n, Filename: n + ".go"}
		l := &profile.Location{ID: uint64(i + 1), Mapping: m, Address: uint64(0x1000 + 0x100*i),
			Line: []profile.Line{{Function: f, Line: int64(10 + i)}}}
		p.Function = append(p.Function, f)
		p.Location = append(p.Location, l)
		locs[n] = l
	}
	for _, s := range samples {
		ps := &profile.Sample{Value: append([]int64(nil), s.vals...)}
		for _, n := range s.stack {
			ps.Location = append(ps.Location, locs[n])
		}
		if s.base {
			ps.Label = map[string][]string{"pprof::base": {"true"}}
		}
		p.Sample = append(p.Sample, ps)
	}
	return p
}

func TestZZEquivC(t *testing.T) {
	plain := []zzSampleC{
		{[]string{"b", "a", "main"}, []int64{4, 370}, false},
		{[]string{"a", "main"}, []int64{1, 50}, false},
		{[]string{"c", "main"}, []int64{4, 20}, false},
		{[]string{"d", "main"}, []int64{6, 0}, false},
	}
	// source minus base, as produced by -base (no labels).
	minus := []zzSampleC{
		{[]string{"b", "a", "main"}, []int64{3, 360}, false},
		{[]string{"a", "main"}, []int64{1, 50}, false},
		{[]string{"c", "main"}, []int64{-3, -15}, false},
		{[]string{"d", "main"}, []int64{0, -2}, false},
	}
	// as produced by -diff_base: negated base samples carry the label.
	diff := append(append([]zzSampleC(nil), plain...),
		zzSampleC{[]string{"b", "a", "main"}, []int64{-1, -10}, true},
		zzSampleC{[]string{"c", "main"}, []int64{-7, -35}, true},
		zzSampleC{[]string{"main"}, []int64{0, -5}, true},
	)
	// base samples that are all zero in column 0: total falls back to all samples.
	diffZero := append(append([]zzSampleC(nil), plain...),
		zzSampleC{[]string{"c", "main"}, []int64{0, -35}, true},
	)
	profs := []struct {
		name string
		s    []zzSampleC
	}{{"plain", plain}, {"minus", minus}, {"diff", diff}, {"diffzero", diffZero}, {"empty", nil}}

	n := 0
	check := func(name, got string) {
		if os.Getenv("ZZ_PRINT") != "" {
			fmt.Printf("\t\t%q,\n", got)
		} else if n >= len(zzWantC) || got != zzWantC[n] {
			t.Errorf("%s (#%d):\n got %s", name, n, got)
		}
		n++
	}

	for _, pr := range profs {
		for ix := 0; ix < 2; ix++ {
			ix := ix
			value := func(v []int64) int64 { return v[ix] }
			div0 := func(v []int64) int64 { return v[0] }
			p := zzProfC(pr.s)
			check(fmt.Sprintf("%s/total/%d", pr.name, ix), fmt.Sprint(
				computeTotal(p, value, nil), " ", computeTotal(p, value, div0)))

			for _, mean := range []bool{false, true} {
				o := &Options{
					OutputFormat: Text,
					SampleValue:  value,
					SampleType:   p.SampleType[ix].Type,
					SampleUnit:   p.SampleType[ix].Unit,
				}
				if mean {
					o.SampleMeanDivisor = div0
				}
				rpt := New(zzProfC(pr.s), o)
				var buf bytes.Buffer
				if err := Generate(&buf, rpt, nil); err != nil {
					t.Fatal(err)
				}
				var lines []string
				for _, l := range strings.Split(buf.String(), "\n") {
					lines = append(lines, strings.Join(strings.Fields(l), " "))
				}
				check(fmt.Sprintf("%s/text/%d/%v", pr.name, ix, mean),
					fmt.Sprint(rpt.Total(), "|", strings.Join(lines, "|")))
			}
		}
	}
}

var zzWantC = []string{
	"15 1",
	"15|File: zzprog|Type: samples|Showing nodes accounting for 15, 100% of 15 total|flat flat% sum% cum cum%|6 40.00% 40.00% 6 40.00% 0000000000001400 d d.go:14|4 26.67% 66.67% 4 26.67% 0000000000001200 b b.go:12|4 26.67% 93.33% 4 26.67% 0000000000001300 c c.go:13|1 6.67% 100% 5 33.33% 0000000000001100 a a.go:11|0 0% 100% 15 100% 0000000000001000 main main.go:10|",
	"1|File: zzprog|Type: samples|Showing nodes accounting for 4, 400.00% of 1 total|flat flat% sum% cum cum%|1 100% 100% 1 100% 0000000000001400 d d.go:14|1 100% 200.00% 1 100% 0000000000001200 b b.go:12|1 100% 300.00% 1 100% 0000000000001300 c c.go:13|1 100% 400.00% 1 100% 0000000000001100 a a.go:11|0 0% 400.00% 1 100% 0000000000001000 main main.go:10|",
	"440 29",
	"440|File: zzprog|Type: cpu|Showing nodes accounting for 0.44s, 100% of 0.44s total|flat flat% sum% cum cum%|0.37s 84.09% 84.09% 0.37s 84.09% 0000000000001200 b b.go:12|0.05s 11.36% 95.45% 0.42s 95.45% 0000000000001100 a a.go:11|0.02s 4.55% 100% 0.02s 4.55% 0000000000001300 c c.go:13|0 0% 100% 0.44s 100% 0000000000001000 main main.go:10|",
	"29|File: zzprog|Type: cpu|Showing nodes accounting for 0.15s, 506.90% of 0.03s total|flat flat% sum% cum cum%|0.09s 317.24% 317.24% 0.09s 317.24% 0000000000001200 b b.go:12|0.05s 172.41% 489.66% 0.08s 289.66% 0000000000001100 a a.go:11|0.01s 17.24% 506.90% 0.01s 17.24% 0000000000001300 c c.go:13|0 0% 506.90% 0.03s 100% 0000000000001000 main main.go:10|",
	"7 7",
	"7|File: zzprog|Type: samples|Showing nodes accounting for 1, 14.29% of 7 total|flat flat% sum% cum cum%|3 42.86% 42.86% 3 42.86% 0000000000001200 b b.go:12|-3 42.86% 0% -3 42.86% 0000000000001300 c c.go:13|1 14.29% 14.29% 4 57.14% 0000000000001100 a a.go:11|0 0% 14.29% 1 14.29% 0000000000001000 main main.go:10|",
	"7|File: zzprog|Type: samples|Showing nodes accounting for 3, 42.86% of 7 total|flat flat% sum% cum cum%|1 14.29% 14.29% 1 14.29% 0000000000001200 b b.go:12|1 14.29% 28.57% 1 14.29% 0000000000001300 c c.go:13|1 14.29% 42.86% 1 14.29% 0000000000001100 a a.go:11|0 0% 42.86% 1 14.29% 0000000000001000 main main.go:10|",
	"427 427",
	"427|File: zzprog|Type: cpu|Showing nodes accounting for 0.39s, 92.04% of 0.43s total|flat flat% sum% cum cum%|0.36s 84.31% 84.31% 0.36s 84.31% 0000000000001200 b b.go:12|0.05s 11.71% 96.02% 0.41s 96.02% 0000000000001100 a a.go:11|-0.01s 3.51% 92.51% -0.01s 3.51% 0000000000001300 c c.go:13|0 0.47% 92.04% 0 0.47% 0000000000001400 d d.go:14|0 0% 92.04% 0.39s 92.04% 0000000000001000 main main.go:10|",
	"427|File: zzprog|Type: cpu|Showing nodes accounting for 0.17s, 40.52% of 0.43s total|flat flat% sum% cum cum%|0.12s 28.10% 28.10% 0.12s 28.10% 0000000000001200 b b.go:12|0.05s 11.71% 39.81% 0.10s 23.89% 0000000000001100 a a.go:11|0.01s 1.17% 40.98% 0.01s 1.17% 0000000000001300 c c.go:13|0 0.47% 40.52% 0 0.47% 0000000000001400 d d.go:14|0 0% 40.52% 0.39s 92.04% 0000000000001000 main main.go:10|",
	"8 -1",
	"8|File: zzprog|Type: samples|Showing nodes accounting for 7, 87.50% of 8 total|flat flat% sum% cum cum%|6 75.00% 75.00% 6 75.00% 0000000000001400 d d.go:14|3 37.50% 112.50% 3 37.50% 0000000000001200 b b.go:12|-3 37.50% 75.00% -3 37.50% 0000000000001300 c c.go:13|1 12.50% 87.50% 4 50.00% 0000000000001100 a a.go:11|0 0% 87.50% 7 87.50% 0000000000001000 main main.go:10|",
	"-1|File: zzprog|Type: samples|Showing nodes accounting for 4, 400.00% of -1 total|flat flat% sum% cum cum%|1 100% 100% 1 100% 0000000000001400 d d.go:14|1 100% 200.00% 1 100% 0000000000001200 b b.go:12|1 100% 300.00% 1 100% 0000000000001300 c c.go:13|1 100% 400.00% 1 100% 0000000000001100 a a.go:11|0 0% 400.00% 1 100% 0000000000001000 main main.go:10|",
	"50 -6",
	"50|File: zzprog|Type: cpu|Showing nodes accounting for 0.39s, 780.00% of 0.05s total|flat flat% sum% cum cum%|0.36s 720.00% 720.00% 0.36s 720.00% 0000000000001200 b b.go:12|0.05s 100% 820.00% 0.41s 820.00% 0000000000001100 a a.go:11|-0.01s 30.00% 790.00% -0.01s 30.00% 0000000000001300 c c.go:13|-0.01s 10.00% 780.00% 0.39s 780.00% 0000000000001000 main main.go:10|",
	"-6|File: zzprog|Type: cpu|Showing nodes accounting for 0.17s, 2833.33% of -0.01s total|flat flat% sum% cum cum%|0.12s 2000.00% 2000.00% 0.12s 2000.00% 0000000000001200 b b.go:12|0.05s 833.33% 2833.33% 0.10s 1700.00% 0000000000001100 a a.go:11|0.01s 83.33% 2916.67% 0.01s 83.33% 0000000000001300 c c.go:13|-0.01s 83.33% 2833.33% 0.06s 916.67% 0000000000001000 main main.go:10|",
	"15 1",
	"15|File: zzprog|Type: samples|Showing nodes accounting for 15, 100% of 15 total|flat flat% sum% cum cum%|6 40.00% 40.00% 6 40.00% 0000000000001400 d d.go:14|4 26.67% 66.67% 4 26.67% 0000000000001200 b b.go:12|4 26.67% 93.33% 4 26.67% 0000000000001300 c c.go:13|1 6.67% 100% 5 33.33% 0000000000001100 a a.go:11|0 0% 100% 15 100% 0000000000001000 main main.go:10|",
	"1|File: zzprog|Type: samples|Showing nodes accounting for 4, 400.00% of 1 total|flat flat% sum% cum cum%|1 100% 100% 1 100% 0000000000001400 d d.go:14|1 100% 200.00% 1 100% 0000000000001200 b b.go:12|1 100% 300.00% 1 100% 0000000000001300 c c.go:13|1 100% 400.00% 1 100% 0000000000001100 a a.go:11|0 0% 400.00% 1 100% 0000000000001000 main main.go:10|",
	"35 35",
	"35|File: zzprog|Type: cpu|Showing nodes accounting for 0.41s, 1157.14% of 0.04s total|flat flat% sum% cum cum%|0.37s 1057.14% 1057.14% 0.37s 1057.14% 0000000000001200 b b.go:12|0.05s 142.86% 1200.00% 0.42s 1200.00% 0000000000001100 a a.go:11|-0.01s 42.86% 1157.14% -0.01s 42.86% 0000000000001300 c c.go:13|0 0% 1157.14% 0.41s 1157.14% 0000000000001000 main main.go:10|",
	"35|File: zzprog|Type: cpu|Showing nodes accounting for 0.14s, 397.14% of 0.04s total|flat flat% sum% cum cum%|0.09s 262.86% 262.86% 0.09s 262.86% 0000000000001200 b b.go:12|0.05s 142.86% 405.71% 0.08s 240.00% 0000000000001100 a a.go:11|0 8.57% 397.14% 0 8.57% 0000000000001300 c c.go:13|0 0% 397.14% 0.03s 77.14% 0000000000001000 main main.go:10|",
	"0 0",
	"0|File: zzprog|Type: samples|Showing nodes accounting for 0, 0% of 0 total|flat flat% sum% cum cum%|",
	"0|File: zzprog|Type: samples|Showing nodes accounting for 0, 0% of 0 total|flat flat% sum% cum cum%|",
	"0 0",
	"0|File: zzprog|Type: cpu|Showing nodes accounting for 0, 0% of 0 total|flat flat% sum% cum cum%|",
	"0|File: zzprog|Type: cpu|Showing nodes accounting for 0, 0% of 0 total|flat flat% sum% cum cum%|",
}
