#!/bin/sh
# Usage: demo.sh <worktree root>. Runs the equivalence test for change C in
# internal/graph and removes it again. Exits 0 iff the test passes.
set -u
root=${1:?usage: demo.sh <worktree root>}
here=$(cd "$(dirname "$0")" && pwd)
export GOFLAGS=-mod=mod GOPROXY=off GOSUMDB=off GOTOOLCHAIN=local
cp "$here/zz_equiv_c_test.go" "$root/internal/graph/zz_equiv_c_test.go" || exit 2
(cd "$root" && go test -vet=off -count=1 -run 'TestZZEquivC$' ./internal/graph/)
rc=$?
rm -f "$root/internal/graph/zz_equiv_c_test.go"
exit $rc
