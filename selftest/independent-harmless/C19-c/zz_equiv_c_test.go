package driver

import (
	"bytes"
	"fmt"
	"net/url"
	"os"
	"path/filepath"
	"strings"
	"sync"
	"testing"
)

// Equivalence demonstration for change C (writeFileAtomic restructuring).
// Expected values were computed on the unchanged tree.

func zzCDirListing(t *testing.T, dir string) string {
	t.Helper()
	ents, err := os.ReadDir(dir)
	if err != nil {
		t.Fatal(err)
	}
	var names []string
	for _, e := range ents {
		names = append(names, e.Name())
	}
	return strings.Join(names, ",")
}

func TestZZEquivC_WriteFileAtomic(t *testing.T) {
	dir := t.TempDir()
	fname := filepath.Join(dir, "settings.json")

	// Create, then replace with shorter, longer, empty and large contents.
	big := bytes.Repeat([]byte("0123456789abcdef"), 1<<16) // 1 MiB
	for i, data := range [][]byte{
		[]byte("first contents\n"),
		[]byte("2nd"),
		[]byte("a considerably longer third version of the file contents\n"),
		{},
		big,
		[]byte("{}"),
	} {
		if err := writeFileAtomic(fname, data, 0644); err != nil {
			t.Fatalf("write %d: %v", i, err)
		}
		got, err := os.ReadFile(fname)
		if err != nil {
			t.Fatal(err)
		}
		if !bytes.Equal(got, data) {
			t.Errorf("write %d: file holds %d bytes; want %d bytes", i, len(got), len(data))
		}
		fi, err := os.Stat(fname)
		if err != nil {
			t.Fatal(err)
		}
		if fi.Mode().Perm() != 0644 {
			t.Errorf("write %d: mode = %v; want 0644", i, fi.Mode().Perm())
		}
		if ls := zzCDirListing(t, dir); ls != "settings.json" {
			t.Errorf("write %d: directory holds %q; want only settings.json", i, ls)
		}
	}

	// A different permission is honoured (independent of umask).
	f2 := filepath.Join(dir, "other")
	if err := writeFileAtomic(f2, []byte("x"), 0600); err != nil {
		t.Fatal(err)
	}
	if fi, _ := os.Stat(f2); fi.Mode().Perm() != 0600 {
		t.Errorf("mode = %v; want 0600", fi.Mode().Perm())
	}
	if err := writeFileAtomic(f2, []byte("y"), 0666); err != nil {
		t.Fatal(err)
	}
	if fi, _ := os.Stat(f2); fi.Mode().Perm() != 0666 {
		t.Errorf("mode = %v; want 0666", fi.Mode().Perm())
	}
}

func TestZZEquivC_Failures(t *testing.T) {
	dir := t.TempDir()

	// 1. Directory does not exist: temp file cannot be created.
	missing := filepath.Join(dir, "nodir", "settings.json")
	err := writeFileAtomic(missing, []byte("data"), 0644)
	if err == nil || !os.IsNotExist(err) {
		t.Errorf("missing directory: err = %v; want not-exist error", err)
	}
	if ls := zzCDirListing(t, dir); ls != "" {
		t.Errorf("missing directory: dir holds %q", ls)
	}

	// 2. Target is a non-empty directory: the final rename fails, the old
	// "contents" survive and no temporary file is left behind.
	sub := filepath.Join(dir, "sub")
	target := filepath.Join(sub, "settings.json")
	if err := os.MkdirAll(filepath.Join(target, "inner"), 0700); err != nil {
		t.Fatal(err)
	}
	err = writeFileAtomic(target, []byte("data"), 0644)
	if err == nil {
		t.Errorf("rename over directory: no error")
	} else if !strings.Contains(err.Error(), "rename ") || !strings.HasSuffix(err.Error(), "file exists") {
		t.Errorf("rename over directory: err = %v", err)
	}
	if ls := zzCDirListing(t, sub); ls != "settings.json" {
		t.Errorf("rename over directory: dir holds %q; want only settings.json", ls)
	}
	if ls := zzCDirListing(t, target); ls != "inner" {
		t.Errorf("rename over directory: target holds %q; want inner", ls)
	}

	// 3. Same through writeSettings/setConfig: error is wrapped, old file kept.
	base := currentConfig()
	defer setCurrentConfig(base)
	setCurrentConfig(defaultConfig())
	s := &settings{Configs: []namedConfig{{Name: "n", config: defaultConfig()}}}
	err = writeSettings(target, s)
	if err == nil || !strings.HasPrefix(err.Error(), "failed to write settings: rename ") {
		t.Errorf("writeSettings over directory: err = %v", err)
	}
	if ls := zzCDirListing(t, sub); ls != "settings.json" {
		t.Errorf("writeSettings over directory: dir holds %q", ls)
	}

	// 4. Parent of the settings directory is a regular file.
	blocker := filepath.Join(dir, "blocker")
	if err := os.WriteFile(blocker, []byte("b"), 0644); err != nil {
		t.Fatal(err)
	}
	err = writeSettings(filepath.Join(blocker, "pprof", "settings.json"), s)
	if err == nil || !strings.HasPrefix(err.Error(), "failed to create settings directory: ") {
		t.Errorf("writeSettings under a file: err = %v", err)
	}
	err = writeFileAtomic(filepath.Join(blocker, "settings.json"), []byte("d"), 0644)
	if err == nil {
		t.Errorf("writeFileAtomic under a file: no error")
	}
	if got, _ := os.ReadFile(blocker); string(got) != "b" {
		t.Errorf("blocker file changed to %q", got)
	}
}

func TestZZEquivC_SaveRestore(t *testing.T) {
	base := currentConfig()
	defer setCurrentConfig(base)
	setCurrentConfig(defaultConfig())

	dir := t.TempDir()
	fname := filepath.Join(dir, "cfg", "pprof", "settings.json")
	for _, req := range []string{
		"/saveconfig?config=alpha&f=main&n=20&sort=cum",
		"/saveconfig?config=beta&h=runtime&trim=f&g=lines&calltree=t",
		"/saveconfig?config=alpha&f=other&tf=key%3Dval",
	} {
		u, _ := url.Parse(req)
		if err := setConfig(fname, *u); err != nil {
			t.Fatalf("%s: %v", req, err)
		}
	}
	const want = `{
  "configs": [
    {
      "name": "alpha",
      "unit": "minimum",
      "sort": "flat",
      "nodecount": -1,
      "nodefraction": 0.005,
      "edgefraction": 0.001,
      "trim": true,
      "focus": "other",
      "tagfocus": "key=val"
    },
    {
      "name": "beta",
      "call_tree": true,
      "unit": "minimum",
      "sort": "flat",
      "nodecount": -1,
      "nodefraction": 0.005,
      "edgefraction": 0.001,
      "hide": "runtime",
      "granularity": "lines"
    }
  ]
}`
	got, err := os.ReadFile(fname)
	if err != nil {
		t.Fatal(err)
	}
	if string(got) != want {
		t.Errorf("settings file:\n%s\nwant\n%s", got, want)
	}
	if fi, _ := os.Stat(fname); fi.Mode().Perm() != 0644 {
		t.Errorf("settings file mode = %v", fi.Mode().Perm())
	}
	if fi, _ := os.Stat(filepath.Dir(fname)); fi.Mode().Perm() != 0700 {
		t.Errorf("settings dir mode = %v", fi.Mode().Perm())
	}
	if ls := zzCDirListing(t, filepath.Dir(fname)); ls != "settings.json" {
		t.Errorf("settings dir holds %q", ls)
	}

	// Restored configs and the menu built from them.
	s, err := readSettings(fname)
	if err != nil {
		t.Fatal(err)
	}
	if len(s.Configs) != 2 || s.Configs[0].Focus != "other" || s.Configs[0].TagFocus != "key=val" ||
		s.Configs[1].Hide != "runtime" || s.Configs[1].Trim || !s.Configs[1].CallTree || s.Configs[1].Granularity != "lines" {
		t.Errorf("restored settings = %+v", s)
	}
	page, _ := url.Parse("/flamegraph?h=runtime&trim=f&g=lines&calltree=t&si=1")
	menu := fmt.Sprintf("%+v", configMenu(fname, *page))
	const wantMenu = `[{Name:Default URL:?si=1 Current:false UserConfig:false} {Name:alpha URL:?f=other&si=1&tf=key%3Dval Current:false UserConfig:true} {Name:beta URL:?h=runtime&trim=f&g=lines&calltree=t&si=1 Current:true UserConfig:true}]`
	if menu != wantMenu {
		t.Errorf("menu = %s\nwant   %s", menu, wantMenu)
	}
}

// Readers running concurrently with writers always see a complete file.
func TestZZEquivC_ReadersNeverSeePartial(t *testing.T) {
	dir := t.TempDir()
	fname := filepath.Join(dir, "settings.json")
	versions := make([][]byte, 8)
	for i := range versions {
		versions[i] = bytes.Repeat([]byte{byte('a' + i)}, 1000*(i+1))
	}
	if err := writeFileAtomic(fname, versions[0], 0644); err != nil {
		t.Fatal(err)
	}
	stop := make(chan struct{})
	var wg sync.WaitGroup
	bad := make(chan string, 1)
	for r := 0; r < 4; r++ {
		wg.Add(1)
		go func() {
			defer wg.Done()
			for {
				select {
				case <-stop:
					return
				default:
				}
				data, err := os.ReadFile(fname)
				ok := err == nil && len(data) > 0 && len(data)%1000 == 0 &&
					len(data) == 1000*(int(data[0]-'a')+1) &&
					bytes.Count(data, data[:1]) == len(data)
				if !ok {
					select {
					case bad <- fmt.Sprintf("err=%v len=%d", err, len(data)):
					default:
					}
					return
				}
			}
		}()
	}
	for i := 0; i < 200; i++ {
		if err := writeFileAtomic(fname, versions[i%len(versions)], 0644); err != nil {
			t.Fatal(err)
		}
	}
	close(stop)
	wg.Wait()
	select {
	case msg := <-bad:
		t.Errorf("reader saw a partial or missing file: %s", msg)
	default:
	}
	if ls := zzCDirListing(t, dir); ls != "settings.json" {
		t.Errorf("directory holds %q", ls)
	}
}
