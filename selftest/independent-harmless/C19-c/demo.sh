#!/bin/sh
# Usage: demo.sh <pprof worktree root>
# Copies the equivalence test into internal/driver, runs it, removes it.
# Exits 0 iff the test passes. Works with and without patch.diff applied.
set -u
root="${1:?usage: demo.sh <worktree root>}"
here="$(cd "$(dirname "$0")" && pwd)"
export GOFLAGS=-mod=mod GOPROXY=off GOSUMDB=off GOTOOLCHAIN=local
t=zz_equiv_c_test.go
cp "$here/$t" "$root/internal/driver/$t" || exit 2
X=$(echo c | tr a-z A-Z)
(cd "$root" && go test -vet=off -count=1 -run "TestZZEquiv${X}_" -v ./internal/driver/)
rc=$?
rm -f "$root/internal/driver/$t"
exit $rc
